"""Common machinery for every property check: translation, lake build, axiom audit, Lean driver,
evidence, replays, known findings.  See DESIGN.md section 3."""
import contextlib
import fcntl
import hashlib
import json
import os
import random
import re
import subprocess
import sys
import time

VERIF = os.path.dirname(os.path.dirname(os.path.abspath(__file__)))
LEAN = os.path.join(VERIF, "lean")
REPO = os.environ.get("SPHERICAL_REPO", "/repo")
ALLOWED_AXIOMS = {"propext", "Classical.choice", "Quot.sound"}
FORBIDDEN = re.compile(r"\bsorry\b|\badmit\b|^\s*axiom\s|native_decide|bv_decide|implemented_by|\bunsafe\s|maxHeartbeats\s+0\b", re.M)

TRUSTED_BASE = [
    "Lean 4.33.0 kernel (thorough tier: re-checked with leanchecker)",
    "Mathlib v4.33.0 as compiled on the image (only in Lemmas/ and Props/)",
    "axioms allowed: propext, Classical.choice, Quot.sound (audited per theorem with #print axioms every run)",
    "no sorry / admit / axiom / native_decide / bv_decide / implemented_by / unsafe / maxHeartbeats 0 (source grep every run)",
    "vlib/py2lean.py (Python-AST -> Lean translator; validated by differential execution every run)",
    "correspondence harness + Lean `Float` (C doubles) as execution vehicle of the hand models",
]


def strip_lean_comments(src):
    out, i, depth, n = [], 0, 0, len(src)
    while i < n:
        if src.startswith("/-", i):
            depth += 1
            i += 2
        elif depth and src.startswith("-/", i):
            depth -= 1
            i += 2
        elif depth:
            if src[i] == "\n":
                out.append("\n")
            i += 1
        elif src.startswith("--", i):
            while i < n and src[i] != "\n":
                i += 1
        else:
            out.append(src[i])
            i += 1
    return "".join(out)


@contextlib.contextmanager
def lake_lock():
    os.makedirs(os.path.join(LEAN, ".lake"), exist_ok=True)
    with open(os.path.join(LEAN, ".lake", "verif.lock"), "w") as f:
        fcntl.flock(f, fcntl.LOCK_EX)
        try:
            yield
        finally:
            fcntl.flock(f, fcntl.LOCK_UN)


def sh(cmd, cwd=None, timeout=None, env=None, input=None):
    e = dict(os.environ)
    if env:
        e.update(env)
    p = subprocess.run(cmd, cwd=cwd, capture_output=True, text=True, timeout=timeout, env=e, input=input)
    return p.returncode, p.stdout, p.stderr


class Violation:
    def __init__(self, cause, site, inp, expected=None, got=None, found_input=True, detail=None):
        self.cause, self.site, self.input, self.expected, self.got = cause, site, inp, expected, got
        self.found_input, self.detail = found_input, detail


class Run:
    def __init__(self, pid, tier, seed):
        self.pid, self.tier, self.seed = pid, tier, seed
        self.rng = random.Random(f"{pid}-{seed}")
        self.t0 = time.time()
        self.obligations = []  # (name, ok, detail)
        self.corr = {}  # kind -> dict(cases, distinct:set, samples, distribution)
        self.gap = {}
        self.violations = []
        self.known_hits = []
        self.broken = []  # names of broken theorems / correspondences / translation errors
        self.assumptions = []
        self.notes = {}
        self.infra_error = None
        self.checker_cmd = ""
        self.extra_trusted = []
        self.known = load_known()

    # ---------------- obligations ----------------
    def obligation(self, name, ok, detail=""):
        self.obligations.append((name, bool(ok), detail))
        if not ok:
            self.broken.append(name)

    # ---------------- correspondence / gap monitor bookkeeping ----------------
    def case(self, table, kind, key, stratum=None, sample=None):
        t = table.setdefault(kind, {"cases": 0, "distinct": set(), "samples": [], "distribution": {}})
        t["cases"] += 1
        t["distinct"].add(key if isinstance(key, (str, int, tuple)) else json.dumps(key, sort_keys=True, default=str))
        if stratum is not None:
            t["distribution"][stratum] = t["distribution"].get(stratum, 0) + 1
        if sample is not None and len(t["samples"]) < 4:
            t["samples"].append(sample)

    def corr_case(self, kind, key, stratum=None, sample=None):
        self.case(self.corr, kind, key, stratum, sample)

    def gap_case(self, kind, key, stratum=None, sample=None):
        self.case(self.gap, kind, key, stratum, sample)

    def corr_break(self, name, detail=""):
        """A correspondence (model vs implementation) disagreement: a broken tie, not yet a violation."""
        if name not in self.broken:
            self.broken.append(name)
        self.notes.setdefault("correspondence_breaks", []).append({"name": name, "detail": str(detail)[:2000]})

    def attempt(self, name, fn, *args, default=None, **kw):
        """run one correspondence stage; an exception inside it (the implementation rejecting an input the harness
        considers legal, ...) is a broken correspondence to be explained by the failing-input search, not a crash"""
        try:
            return fn(*args, **kw)
        except Exception as e:
            import traceback
            self.corr_break(name, "harness stage raised: " + repr(e) + " | " + traceback.format_exc()[-600:])
            return default

    # ---------------- violations ----------------
    def violation(self, cause, site, inp, expected=None, got=None, found_input=True, detail=None):
        v = Violation(cause, site, inp, expected, got, found_input, detail)
        k = self.match_known(v)
        if k is not None:
            if k["id"] not in [h["id"] for h in self.known_hits]:
                self.known_hits.append(k)
            return False
        # one violation per distinct (cause, site)
        for w in self.violations:
            if w.cause == cause and w.site == site:
                return True
        self.violations.append(v)
        return True

    def match_known(self, v):
        if not v.found_input:
            return None
        for k in self.known:
            if k.get("status") != "known" or k.get("property") != self.pid:
                continue
            if k.get("site") != v.site:
                continue
            pred = k.get("predicate", "True")
            try:
                ns = dict(v.input) if isinstance(v.input, dict) else {"input": v.input}
                if eval(pred, {"__builtins__": {"abs": abs, "min": min, "max": max, "len": len, "any": any, "all": all}}, ns):
                    return k
            except Exception:
                continue
        return None

    # ---------------- Lean ----------------
    def regenerate(self):
        """Regenerate Gen/*.lean from /repo's working tree.  Returns report or None (translation break)."""
        sys.path.insert(0, os.path.join(VERIF, "vlib"))
        import py2lean
        try:
            with lake_lock():
                rep = py2lean.generate()
            self.obligation("translation:py2lean", True)
            return rep
        except py2lean.TranslationError as e:
            self.obligation("translation:py2lean", False, str(e))
            return None
        except (SyntaxError, OSError) as e:
            self.obligation("translation:py2lean", False, repr(e))
            return None

    def theorem_names(self, relpath):
        src = strip_lean_comments(open(os.path.join(LEAN, relpath), encoding="utf-8").read())
        return re.findall(r"^\s*(?:private\s+|protected\s+)?theorem\s+([^\s:({\[]+)", src, re.M)

    def import_closure(self, modules):
        """project files reachable from the given modules through `import SphericalVerif.*` / `import Driver.*`"""
        seen, todo = set(), list(modules)
        while todo:
            m = todo.pop()
            if m in seen:
                continue
            seen.add(m)
            path = os.path.join(LEAN, m.replace(".", "/") + ".lean")
            try:
                src = open(path, encoding="utf-8").read()
            except OSError:
                continue
            for mm in re.findall(r"^import\s+((?:SphericalVerif|Driver)\.[\w.]+)", src, re.M):
                todo.append(mm)
        return sorted(seen)

    def forbidden_scan(self, modules=None):
        """forbidden tokens in every project file the given property modules depend on (plus Gen/, Spec/, Model/).
        Files outside that closure (e.g. another property's work in progress) are reported in the notes only."""
        bad, other = [], []
        closure = None
        if modules is not None:
            closure = {os.path.join("SphericalVerif", *m.split(".")[1:]) + ".lean" for m in self.import_closure(modules) if m.startswith("SphericalVerif.")}
        for root, _, files in os.walk(os.path.join(LEAN, "SphericalVerif")):
            for f in files:
                if f.endswith(".lean"):
                    p = os.path.join(root, f)
                    rel = os.path.relpath(p, LEAN)
                    src = strip_lean_comments(open(p, encoding="utf-8").read())
                    for m in FORBIDDEN.finditer(src):
                        core = rel.split(os.sep)[1] in ("Gen", "Spec", "Model")
                        (bad if (closure is None or rel in closure or core) else other).append(f"{rel}: {m.group(0).strip()}")
        if other:
            self.notes["forbidden_tokens_outside_this_property"] = other[:10]
        return bad

    def lean_props(self, modules, thorough_clean=True):
        """Build the property modules, audit axioms of every theorem in them.  One obligation per theorem.
        modules: list like ['SphericalVerif.Props.C11'] (file path derived)."""
        self.checker_cmd = (f"cd lean && lake build {' '.join(modules)} && lake env lean SphericalVerif/Audit/{self.pid}.lean"
                            + (" && lake env leanchecker " + " ".join(modules) if self.tier == "thorough" else ""))
        thms = []
        for m in modules:
            rel = m.replace(".", "/") + ".lean"
            ns = m.split(".")[-1]
            for t in self.theorem_names(rel):
                thms.append((m, t))
        bad = self.forbidden_scan(modules)
        self.obligation("source-scan:no-sorry-axiom-native_decide", not bad, "; ".join(bad[:10]))
        with lake_lock():
            if self.tier == "thorough" and thorough_clean:
                for m in modules:
                    base = os.path.join(LEAN, ".lake", "build", "lib", "lean", m.replace(".", "/"))
                    for ext in (".olean", ".ilean", ".trace", ".olean.hash", ".ilean.hash", ".c", ".c.hash"):
                        with contextlib.suppress(FileNotFoundError):
                            os.remove(base + ext)
            rc, out, err = sh(["lake", "build"] + modules, cwd=LEAN, timeout=3000)
            build_ok = rc == 0
            build_log = out + err
            axioms = {}
            if build_ok:
                audit_dir = os.path.join(LEAN, "SphericalVerif", "Audit")
                os.makedirs(audit_dir, exist_ok=True)
                ap = os.path.join(audit_dir, f"{self.pid}.lean")
                lines = [f"import {m}" for m in modules]
                for m, t in thms:
                    lines.append(f"#print axioms {qualify(m, t)}")
                text = "\n".join(lines) + "\n"
                try:
                    old = open(ap).read()
                except FileNotFoundError:
                    old = None
                if old != text:
                    open(ap, "w").write(text)
                rc2, out2, err2 = sh(["lake", "env", "lean", ap], cwd=LEAN, timeout=1200)
                axioms = parse_axioms(out2 + err2)
                if rc2 != 0:
                    self.notes["audit_error"] = (out2 + err2)[-2000:]
            if self.tier == "thorough" and build_ok:
                rc3, out3, err3 = sh(["lake", "env", "leanchecker"] + modules, cwd=LEAN, timeout=3000)
                self.obligation("leanchecker:" + ",".join(modules), rc3 == 0, (out3 + err3)[-500:])
        failed_thms = set()
        if not build_ok:
            failed_thms = locate_failed(build_log, modules)
            self.notes["build_log_tail"] = build_log[-3000:]
        for m, t in thms:
            q = qualify(m, t)
            if not build_ok:
                if failed_thms is None or q in failed_thms or t in failed_thms:
                    self.obligation("theorem:" + q, False, "does not compile")
                else:
                    # theorem after/before the error in a file that failed: not established this run
                    self.obligation("theorem:" + q, False, "module failed to build")
            else:
                ax = axioms.get(q)
                if ax is None:
                    self.obligation("theorem:" + q, False, "no #print axioms output")
                else:
                    extra = set(ax) - ALLOWED_AXIOMS
                    self.obligation("theorem:" + q, not extra, ("axioms: " + ",".join(sorted(ax))) if ax else "no axioms")
        return build_ok

    def driver(self, lines, timeout=1200):
        """Run the compiled Lean driver on protocol lines; returns list of output lines."""
        exe = os.path.join(LEAN, ".lake", "build", "bin", "driver")
        with lake_lock():
            rc, out, err = sh(["lake", "build", "driver"], cwd=LEAN, timeout=3000)
        if rc != 0:
            self.obligation("build:driver", False, (out + err)[-1500:])
            return None
        p = subprocess.run([exe], input="\n".join(lines) + "\n", capture_output=True, text=True, timeout=timeout)
        if p.returncode != 0:
            self.obligation("run:driver", False, p.stderr[-1500:])
            return None
        res = p.stdout.split("\n")
        if res and res[-1] == "":
            res.pop()
        return res

    # ---------------- finish ----------------
    def write_replay(self, v):
        d = os.path.join(VERIF, "replays", self.pid)
        os.makedirs(d, exist_ok=True)
        body = {
            "property": self.pid, "cause": v.cause, "site": v.site, "input": v.input, "expected": v.expected, "got": v.got,
            "found_failing_input": v.found_input, "detail": v.detail,
            "broken": self.broken,
            "rerun": f"./check {self.pid} --replay <this file>",
        }
        txt = json.dumps(body, indent=1, sort_keys=True, default=str, ensure_ascii=False)
        h = hashlib.sha1(json.dumps([v.cause, v.site, v.input], sort_keys=True, default=str).encode()).hexdigest()[:12]
        path = os.path.join(d, f"{h}.json")
        open(path, "w", encoding="utf-8").write(txt)
        return os.path.relpath(path, VERIF)

    def finish(self):
        n_obl = len(self.obligations)
        n_dis = sum(1 for _, ok, _ in self.obligations if ok)
        # broken obligations / correspondences with no concrete failing input found -> still a violation
        found_sites = {v.site for v in self.violations} | {k["site"] for k in self.known_hits}
        if self.broken and not any(v for v in self.violations):
            covered = bool(self.known_hits) and self.notes.get("broken_explained_by_known")
            if not covered:
                self.violations.append(Violation("proof-or-correspondence-broken", "unlocated", {"broken": self.broken},
                                                 found_input=False, detail=self.notes.get("build_log_tail") or self.notes.get("correspondence_breaks")))
        lines = []
        for k in self.known_hits:
            lines.append(f"KNOWN-FINDING: property={self.pid} {k['what']}")
        for v in self.violations:
            path = self.write_replay(v)
            lines.append(f"VIOLATION property={self.pid} replay={path}" + ("" if v.found_input else " no-failing-input-found"))

        def tab(t):
            return {k: {"cases": x["cases"], "distinct": len(x["distinct"]), "distribution": x["distribution"], "samples": x["samples"]} for k, x in t.items()}
        samples = [{"obligation": n, "discharged": ok, "detail": d[:200]} for n, ok, d in self.obligations[:6]]
        for t in (self.corr, self.gap):
            for k, x in t.items():
                for s in x["samples"][:2]:
                    samples.append({"kind": k, "case": s})
        cov = {
            "obligations": n_obl, "discharged": n_dis, "checker_cmd": self.checker_cmd or "(python harness only)",
            "trusted_base": TRUSTED_BASE + self.extra_trusted,
            "obligation_list": [{"name": n, "ok": ok, "detail": d[:300]} for n, ok, d in self.obligations],
            "correspondence": tab(self.corr), "gap_monitor": tab(self.gap),
            "evaluations": sum(x["cases"] for t in (self.corr, self.gap) for x in t.values()),
            "distinct_nontrivial": sum(len(x["distinct"]) for t in (self.corr, self.gap) for x in t.values()),
            "rule": "obligations = Lean theorems (each audited with #print axioms) + translation + source scan; correspondence = model vs "
                    "implementation cases (bitwise unless stated); gap_monitor = implementation vs independent oracle on clauses no theorem covers; "
                    "distinct = distinct generated inputs",
            "samples": samples, "broken": self.broken,
            "known_findings_reported": [k["id"] for k in self.known_hits], "notes": self.notes,
        }
        ev = {"property_id": self.pid, "tier": self.tier, "seed": self.seed, "level": "proof", "coverage": cov,
              "assumptions": self.assumptions, "wall_s": round(time.time() - self.t0, 2), "violations": len(self.violations)}
        os.makedirs(os.path.join(VERIF, "evidence"), exist_ok=True)
        with open(os.path.join(VERIF, "evidence", f"{self.pid}.json"), "w", encoding="utf-8") as f:
            json.dump(ev, f, indent=1, default=str, ensure_ascii=False)
        for l in lines:
            print(l)
        print(f"[{self.pid}] tier={self.tier} seed={self.seed} obligations={n_dis}/{n_obl} corr={ {k: x['cases'] for k, x in self.corr.items()} } "
              f"gap={ {k: x['cases'] for k, x in self.gap.items()} } violations={len(self.violations)} known={len(self.known_hits)} wall={ev['wall_s']}s")
        sys.stdout.flush()
        return 1 if self.violations else 0


def qualify(module, thm):
    # theorems live in namespace `<Cxx>` inside Props/Cxx.lean unless already qualified
    ns = module.split(".")[-1]
    return thm if "." in thm and thm.split(".")[0] == ns else f"{ns}.{thm}"


def parse_axioms(text):
    res = {}
    for m in re.finditer(r"^'([^\n]+?)' depends on axioms: \[([^\]]*)\]", text, re.M):
        res[m.group(1)] = [a.strip() for a in m.group(2).replace("\n", " ").split(",") if a.strip()]
    for m in re.finditer(r"^'(.+?)' does not depend on any axioms", text, re.M):
        res[m.group(1)] = []
    return res


def locate_failed(log, modules):
    """Map `file:line:col: error` to enclosing theorem names.  Returns set of names or None if unknown."""
    names = set()
    any_err = False
    for m in re.finditer(r"error: ([^\s:]+\.lean):(\d+):(\d+)", log):
        any_err = True
        path, line = m.group(1), int(m.group(2))
        full = path if os.path.isabs(path) else os.path.join(LEAN, path)
        try:
            src = open(full, encoding="utf-8").read().split("\n")
        except OSError:
            return None
        ns = os.path.basename(full)[:-5]
        for i in range(min(line, len(src)) - 1, -1, -1):
            mm = re.match(r"\s*(?:private\s+|protected\s+)?(?:theorem|lemma|def|example|instance)\s+([^\s:({\[]+)?", src[i])
            if mm:
                if mm.group(1):
                    names.add(mm.group(1))
                    names.add(f"{ns}.{mm.group(1)}")
                break
    for m in re.finditer(r"error: .*?([^\s:]+\.lean):(\d+):(\d+)", log):
        any_err = True
    if not any_err:
        return None
    return names


def load_known():
    p = os.path.join(VERIF, "KNOWN_FINDINGS.json")
    try:
        return json.load(open(p, encoding="utf-8")).get("findings", [])
    except FileNotFoundError:
        return []


def f2hex(x):
    import struct
    return struct.pack(">d", float(x)).hex()


def hex2f(h):
    import struct
    return struct.unpack(">d", bytes.fromhex(h))[0]
