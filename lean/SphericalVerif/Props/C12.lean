import SphericalVerif.Lemmas.Operators
/-! C12 (exact-arithmetic part) — the differential operators on `Modes` and the array-level eth operators.

    Property theorems only; helpers live in `Lemmas/Operators.lean`.  Statements are about the hand-written model
    `Model/Operators.lean` (validated bit for bit against spherical/modes/derivatives.py and
    spherical/utilities/operators.py at `Float`, vlib/glue_diff.py) run at the exact scalar `α := ℝ`.
    A `Modes ℝ` is (spin `s`, `ellMax`, weights `w ell m`); `Cx.rmul c z` is the model's `real * complex`
    (at `ℝ` the scalar multiple `⟨c·z.re, c·z.im⟩`, theorem `rmul_is_scalar_multiple`), `Cx.sub`/`Cx.add` its complex
    subtraction/addition.  Every identity is stated cell by cell for the cells the operators act on:
    `|s| ≤ ell ≤ ellMax`, `|m| ≤ ell` (the cells below `|s|` are zeroed by the `Modes` constructor).

    Conventions found in the code (all confirmed by the theorems below):
    * `Lz f = m f`, `(L₊ f)ₘ = √((ℓ+m)(ℓ-m+1)) fₘ₋₁`, `(L₋ f)ₘ = √((ℓ-m)(ℓ+m+1)) fₘ₊₁`;
      `[Lz, L±] = ±L±`, `[L₊, L₋] = 2 Lz`.
    * `Rz f = -s f`; `R₊` LOWERS the spin weight (s → s-1), `R₋` RAISES it (s → s+1); with these
      `[Rz, R±] = ±R±` and `[R₊, R₋] = 2 Rz` — the same su(2) relations as for L.
    * `eth = R₋`, `ethbar = -R₊`, `[ethbar, eth] f = 2 s f` on every `ell ≥ |s|` (at `ell = |s|` one of the two
      paths is annihilated, and the coefficient of that path is zero there).
    * `ethbar_inverse_NP(·, s)` inverts `ethbar_NP(·, s+1)`: its `spin_weight` argument is the spin weight of its
      own input (the output of `ethbar_NP`), not that of the function `ethbar_NP` was applied to. -/
namespace C12
open Model Model.Ops OpsL

/-- at `ℝ` the model's `real * complex` and `complex * real` are the scalar multiple -/
theorem rmul_is_scalar_multiple (c : ℝ) (z : Cx ℝ) :
    Cx.rmul c z = ⟨c * z.re, c * z.im⟩ ∧ Cx.mulr z c = ⟨z.re * c, z.im * c⟩ := ⟨rmul_eq c z, mulr_eq z c⟩

/-! ### the L operators -/

/-- `Lz` multiplies the `(ell, m)` weight by `m` -/
theorem Lz_cell (f : Modes ℝ) {ell : Nat} {m : Int} (h1 : f.s.natAbs ≤ ell) (h2 : ell ≤ f.ellMax)
    (hm : m.natAbs ≤ ell) : (Lz f).w ell m = Cx.rmul (m : ℝ) (f.w ell m) := by
  rw [Lz_in f h1 h2 hm]; apply cx_ext <;> simp [mul_comm]

/-- `Lplus`: `(L₊ f)(ell, m) = √((ell+m)(ell-m+1)) · f(ell, m-1)` for `-ell < m ≤ ell`, and `0` at `m = -ell` -/
theorem Lplus_cell (f : Modes ℝ) {ell : Nat} {m : Int} (h1 : f.s.natAbs ≤ ell) (h2 : ell ≤ f.ellMax)
    (hm : m.natAbs ≤ ell) :
    (Lplus f).w ell m =
      if -(ell : Int) < m then Cx.rmul (Real.sqrt (((ell : ℝ) + m) * (ell - m + 1))) (f.w ell (m - 1)) else ⟨0, 0⟩ := by
  split_ifs with hlo
  · rw [Lplus_in f h1 h2 hlo (by omega), cLplus_real]; simp
  · rw [Lplus_out f (fun c => hlo c.1)]; simp

/-- `Lminus`: `(L₋ f)(ell, m) = √((ell-m)(ell+m+1)) · f(ell, m+1)` for `-ell ≤ m < ell`, and `0` at `m = ell` -/
theorem Lminus_cell (f : Modes ℝ) {ell : Nat} {m : Int} (h1 : f.s.natAbs ≤ ell) (h2 : ell ≤ f.ellMax)
    (hm : m.natAbs ≤ ell) :
    (Lminus f).w ell m =
      if m < (ell : Int) then Cx.rmul (Real.sqrt (((ell : ℝ) - m) * (ell + m + 1))) (f.w ell (m + 1)) else ⟨0, 0⟩ := by
  split_ifs with hhi
  · rw [Lminus_in f h1 h2 (by omega) hhi, cLminus_real]; simp
  · rw [Lminus_out f (fun c => hhi c.2)]; simp

/-- `L₊ L₋ f = (ell+m)(ell-m+1) f` -/
theorem Lplus_Lminus (f : Modes ℝ) {ell : Nat} {m : Int} (h1 : f.s.natAbs ≤ ell) (h2 : ell ≤ f.ellMax)
    (hm : m.natAbs ≤ ell) :
    (Lplus (Lminus f)).w ell m = Cx.rmul (((ell : ℝ) + m) * (ell - m + 1)) (f.w ell m) := by
  by_cases hlo : -(ell : Int) < m
  · have hhi : m ≤ ell := by omega
    rw [Lplus_in (Lminus f) h1 h2 hlo hhi, Lminus_in f h1 h2 (by omega) (by omega), sub_add_cancel]
    have e := cLplus_mul_self ell m (by omega) (by omega)
    simp only [Int.cast_natCast] at e
    apply cx_ext <;> simp only [rmul_eq, cLminus_pred] <;> rw [← mul_assoc, e]
  · have hm' : m = -(ell : Int) := by omega
    subst hm'
    rw [Lplus_out (Lminus f) (fun c => hlo c.1)]
    apply cx_ext <;> simp

/-- `L₋ L₊ f = (ell-m)(ell+m+1) f` -/
theorem Lminus_Lplus (f : Modes ℝ) {ell : Nat} {m : Int} (h1 : f.s.natAbs ≤ ell) (h2 : ell ≤ f.ellMax)
    (hm : m.natAbs ≤ ell) :
    (Lminus (Lplus f)).w ell m = Cx.rmul (((ell : ℝ) - m) * (ell + m + 1)) (f.w ell m) := by
  by_cases hhi : m < (ell : Int)
  · have hlo : -(ell : Int) ≤ m := by omega
    rw [Lminus_in (Lplus f) h1 h2 hlo hhi, Lplus_in f h1 h2 (by omega) (by omega), add_sub_cancel_right]
    have e := cLminus_mul_self ell m (by omega) (by omega)
    simp only [Int.cast_natCast] at e
    apply cx_ext <;> simp only [rmul_eq, cLplus_succ] <;> rw [← mul_assoc, e]
  · have hm' : m = (ell : Int) := by omega
    subst hm'
    rw [Lminus_out (Lplus f) (fun c => hhi c.2)]
    apply cx_ext <;> simp

/-- `[Lz, L₊] = L₊` -/
theorem comm_Lz_Lplus (f : Modes ℝ) {ell : Nat} {m : Int} (h1 : f.s.natAbs ≤ ell) (h2 : ell ≤ f.ellMax)
    (hm : m.natAbs ≤ ell) :
    Cx.sub ((Lz (Lplus f)).w ell m) ((Lplus (Lz f)).w ell m) = (Lplus f).w ell m := by
  rw [Lz_in (Lplus f) h1 h2 hm]
  by_cases hlo : -(ell : Int) < m
  · have hhi : m ≤ ell := by omega
    rw [Lplus_in f h1 h2 hlo hhi, Lplus_in (Lz f) h1 h2 hlo hhi, Lz_in f h1 h2 (by omega)]
    apply cx_ext <;> simp <;> ring
  · rw [Lplus_out f (fun c => hlo c.1), Lplus_out (Lz f) (fun c => hlo c.1)]
    apply cx_ext <;> simp

/-- `[Lz, L₋] = -L₋` -/
theorem comm_Lz_Lminus (f : Modes ℝ) {ell : Nat} {m : Int} (h1 : f.s.natAbs ≤ ell) (h2 : ell ≤ f.ellMax)
    (hm : m.natAbs ≤ ell) :
    Cx.sub ((Lz (Lminus f)).w ell m) ((Lminus (Lz f)).w ell m) = cneg ((Lminus f).w ell m) := by
  rw [Lz_in (Lminus f) h1 h2 hm]
  by_cases hhi : m < (ell : Int)
  · have hlo : -(ell : Int) ≤ m := by omega
    rw [Lminus_in f h1 h2 hlo hhi, Lminus_in (Lz f) h1 h2 hlo hhi, Lz_in f h1 h2 (by omega)]
    apply cx_ext <;> simp <;> ring
  · rw [Lminus_out f (fun c => hhi c.2), Lminus_out (Lz f) (fun c => hhi c.2)]
    apply cx_ext <;> simp

/-- `[L₊, L₋] = 2 Lz` -/
theorem comm_Lplus_Lminus (f : Modes ℝ) {ell : Nat} {m : Int} (h1 : f.s.natAbs ≤ ell) (h2 : ell ≤ f.ellMax)
    (hm : m.natAbs ≤ ell) :
    Cx.sub ((Lplus (Lminus f)).w ell m) ((Lminus (Lplus f)).w ell m) = Cx.rmul 2 ((Lz f).w ell m) := by
  rw [Lplus_Lminus f h1 h2 hm, Lminus_Lplus f h1 h2 hm, Lz_in f h1 h2 hm]
  apply cx_ext <;> simp <;> ring

/-- `(L₊L₋ + L₋L₊)/2 + Lz² = ell(ell+1)` -/
theorem casimir_L (f : Modes ℝ) {ell : Nat} {m : Int} (h1 : f.s.natAbs ≤ ell) (h2 : ell ≤ f.ellMax)
    (hm : m.natAbs ≤ ell) :
    Cx.add (Cx.rmul (1 / 2) (Cx.add ((Lplus (Lminus f)).w ell m) ((Lminus (Lplus f)).w ell m)))
        ((Lz (Lz f)).w ell m) = Cx.rmul ((ell : ℝ) * (ell + 1)) (f.w ell m) := by
  rw [Lplus_Lminus f h1 h2 hm, Lminus_Lplus f h1 h2 hm, Lz_in (Lz f) h1 h2 hm, Lz_in f h1 h2 hm]
  apply cx_ext <;> simp <;> ring

/-- `Lsquared f = ell(ell+1) f` -/
theorem Lsquared_cell (f : Modes ℝ) {ell : Nat} {m : Int} (h1 : f.s.natAbs ≤ ell) (h2 : ell ≤ f.ellMax)
    (hm : m.natAbs ≤ ell) : (Lsquared f).w ell m = Cx.rmul ((ell : ℝ) * (ell + 1)) (f.w ell m) := by
  rw [Lsquared_in f h1 h2 hm]; apply cx_ext <;> simp <;> ring

/-- `Lsquared` is the Casimir combination of the ladder operators -/
theorem Lsquared_eq_casimir (f : Modes ℝ) {ell : Nat} {m : Int} (h1 : f.s.natAbs ≤ ell) (h2 : ell ≤ f.ellMax)
    (hm : m.natAbs ≤ ell) :
    (Lsquared f).w ell m =
      Cx.add (Cx.rmul (1 / 2) (Cx.add ((Lplus (Lminus f)).w ell m) ((Lminus (Lplus f)).w ell m)))
        ((Lz (Lz f)).w ell m) := by
  rw [casimir_L f h1 h2 hm, Lsquared_cell f h1 h2 hm]

/-- `Rsquared` is `Lsquared` (same object, for every scalar type — in particular bit for bit at `Float`) -/
theorem Rsquared_eq_Lsquared {α : Type} [Scalar α] (f : Modes α) : Rsquared f = Lsquared f := rfl

/-- the cells outside `|s| ≤ ell ≤ ellMax, |m| ≤ ell` are copied by `Lz`/`Lsquared` and zero in `L±` -/
theorem L_outside {α : Type} [Scalar α] (f : Modes α) {ell : Nat} (m : Int) (h : ell < f.s.natAbs) :
    (Lz f).w ell m = f.w ell m ∧ (Lsquared f).w ell m = f.w ell m ∧
    (Lplus f).w ell m = czero ∧ (Lminus f).w ell m = czero :=
  ⟨if_neg (fun c => absurd c.1 (Nat.not_le.mpr h)), if_neg (fun c => absurd c.1 (Nat.not_le.mpr h)),
   Lplus_below f h, Lminus_below f h⟩

/-! ### the R operators, eth and ethbar -/

/-- `Rz f = -s f` -/
theorem Rz_cell (f : Modes ℝ) {ell : Nat} (m : Int) (h1 : f.s.natAbs ≤ ell) :
    (Rz f).w ell m = Cx.rmul (-(f.s : ℝ)) (f.w ell m) ∧ (Rz f).s = f.s := by
  rw [Rz_in f h1]; simp

/-- `eth` (= `Rminus`) raises the spin weight by 1, keeps `ell_max`, and on `max(|s|, |s+1|) ≤ ell ≤ ellMax` multiplies
    by `√((ell-s)(ell+s+1))`: the code's expression in the NEW spin, `√((ell+s')(ell-s'+1))` with `s' = s+1`, is this. -/
theorem eth_cell (f : Modes ℝ) {ell : Nat} {m : Int} (h1 : max (f.s + 1).natAbs f.s.natAbs ≤ ell)
    (h2 : ell ≤ f.ellMax) (hm : m.natAbs ≤ ell) :
    (eth f).s = f.s + 1 ∧ (eth f).ellMax = f.ellMax ∧ eth f = Rminus f ∧
    (eth f).w ell m = Cx.rmul (Real.sqrt (((ell : ℝ) - f.s) * (ell + f.s + 1))) (f.w ell m) := by
  refine ⟨rfl, rfl, rfl, ?_⟩
  show (Rminus f).w ell m = _
  rw [Rminus_in f h1 h2 hm, cRminus_succ]; simp

/-- `ethbar` (= `-Rplus`) lowers the spin weight by 1, keeps `ell_max`, and on `max(|s|, |s-1|) ≤ ell ≤ ellMax`
    multiplies by `-√((ell+s)(ell-s+1))` -/
theorem ethbar_cell (f : Modes ℝ) {ell : Nat} {m : Int} (h1 : max (f.s - 1).natAbs f.s.natAbs ≤ ell)
    (h2 : ell ≤ f.ellMax) (hm : m.natAbs ≤ ell) :
    (ethbar f).s = f.s - 1 ∧ (ethbar f).ellMax = f.ellMax ∧
    (ethbar f).w ell m = cneg ((Rplus f).w ell m) ∧
    (ethbar f).w ell m = Cx.rmul (-Real.sqrt (((ell : ℝ) + f.s) * (ell - f.s + 1))) (f.w ell m) := by
  refine ⟨rfl, rfl, ethbar_w_of_le f (le_trans (le_max_left _ _) h1), ?_⟩
  rw [ethbar_in f h1 h2 hm, cRplus_pred]; apply cx_ext <;> simp

/-- annihilation: every cell with `ell` below the new `|s|` (indeed below `max(|s|, |s±1|)`) is zero in the output -/
theorem annihilation (f : Modes ℝ) {ell : Nat} (m : Int) :
    (ell < max (f.s + 1).natAbs f.s.natAbs → (eth f).w ell m = ⟨0, 0⟩ ∧ (Rminus f).w ell m = ⟨0, 0⟩) ∧
    (ell < max (f.s - 1).natAbs f.s.natAbs → (ethbar f).w ell m = ⟨0, 0⟩ ∧ (Rplus f).w ell m = ⟨0, 0⟩) := by
  refine ⟨fun h => ?_, fun h => ?_⟩
  · have := Rminus_below f (m := m) h
    exact ⟨by show (Rminus f).w ell m = _; rw [this]; simp, by rw [this]; simp⟩
  · have z := Rplus_below f (m := m) h
    refine ⟨?_, by rw [z]; simp⟩
    by_cases h0 : ell < (f.s - 1).natAbs
    · rw [ethbar_below_new f h0]; simp
    · rw [ethbar_below f (Nat.not_lt.mp h0) h]; simp

/-- `R₊ R₋ f = (ell-s)(ell+s+1) f` on every `|s| ≤ ell ≤ ellMax` (at `ell = s ≥ 0` the cell is annihilated by
    `R₋`, and the coefficient vanishes) -/
theorem Rplus_Rminus (f : Modes ℝ) {ell : Nat} {m : Int} (h1 : f.s.natAbs ≤ ell) (h2 : ell ≤ f.ellMax)
    (hm : m.natAbs ≤ ell) :
    (Rplus (Rminus f)).w ell m = Cx.rmul (((ell : ℝ) - f.s) * (ell + f.s + 1)) (f.w ell m) ∧
    (Rplus (Rminus f)).s = f.s := by
  refine ⟨?_, by simp⟩
  by_cases hA : (f.s + 1).natAbs ≤ ell
  · have hA' : max (f.s + 1).natAbs f.s.natAbs ≤ ell := max_le hA h1
    have hB : max ((Rminus f).s - 1).natAbs (Rminus f).s.natAbs ≤ ell := by
      simp only [Rminus_s, add_sub_cancel_right]; exact max_le h1 hA
    rw [Rplus_in (Rminus f) hB h2 hm, Rminus_in f hA' h2 hm]
    have e := cRplus_mul_self ell f.s (by omega)
    simp only [Int.cast_natCast] at e
    apply cx_ext <;> simp only [rmul_eq, Rminus_s, add_sub_cancel_right, cRminus_succ_eq_cRplus] <;>
      rw [← mul_assoc, e]
  · have hs : (ell : Int) = f.s := by omega
    have hs' : (ell : ℝ) = (f.s : ℝ) := by exact_mod_cast hs
    have hB : ell < max ((Rminus f).s - 1).natAbs (Rminus f).s.natAbs := by
      simp only [Rminus_s]; exact lt_max_of_lt_right (by omega)
    rw [Rplus_below (Rminus f) hB]
    apply cx_ext <;> simp [hs']

/-- `R₋ R₊ f = (ell+s)(ell-s+1) f` on every `|s| ≤ ell ≤ ellMax` (at `ell = -s ≥ 0` the cell is annihilated by
    `R₊`, and the coefficient vanishes) -/
theorem Rminus_Rplus (f : Modes ℝ) {ell : Nat} {m : Int} (h1 : f.s.natAbs ≤ ell) (h2 : ell ≤ f.ellMax)
    (hm : m.natAbs ≤ ell) :
    (Rminus (Rplus f)).w ell m = Cx.rmul (((ell : ℝ) + f.s) * (ell - f.s + 1)) (f.w ell m) ∧
    (Rminus (Rplus f)).s = f.s := by
  refine ⟨?_, by simp⟩
  by_cases hA : (f.s - 1).natAbs ≤ ell
  · have hA' : max (f.s - 1).natAbs f.s.natAbs ≤ ell := max_le hA h1
    have hB : max ((Rplus f).s + 1).natAbs (Rplus f).s.natAbs ≤ ell := by
      simp only [Rplus_s, sub_add_cancel]; exact max_le h1 hA
    rw [Rminus_in (Rplus f) hB h2 hm, Rplus_in f hA' h2 hm]
    have e := cRminus_mul_self ell f.s (by omega)
    simp only [Int.cast_natCast] at e
    apply cx_ext <;> simp only [rmul_eq, Rplus_s, sub_add_cancel, cRplus_pred_eq_cRminus] <;>
      rw [← mul_assoc, e]
  · have hs : (ell : Int) = -f.s := by omega
    have hs' : (ell : ℝ) = -(f.s : ℝ) := by exact_mod_cast hs
    have hB : ell < max ((Rplus f).s + 1).natAbs (Rplus f).s.natAbs := by
      simp only [Rplus_s]; exact lt_max_of_lt_right (by omega)
    rw [Rminus_below (Rplus f) hB]
    apply cx_ext <;> simp [hs']

/-- `[Rz, R₊] = R₊` — on every cell, no hypothesis -/
theorem comm_Rz_Rplus (f : Modes ℝ) (ell : Nat) (m : Int) :
    Cx.sub ((Rz (Rplus f)).w ell m) ((Rplus (Rz f)).w ell m) = (Rplus f).w ell m := by
  by_cases c : max (f.s - 1).natAbs f.s.natAbs ≤ ell ∧ ell ≤ f.ellMax ∧ m.natAbs ≤ ell
  · obtain ⟨c1, c2, c3⟩ := c
    have a1 : (f.s - 1).natAbs ≤ ell := le_trans (le_max_left _ _) c1
    have a2 : f.s.natAbs ≤ ell := le_trans (le_max_right _ _) c1
    rw [Rz_in (Rplus f) a1, Rplus_in f c1 c2 c3, Rplus_in (Rz f) c1 c2 c3, Rz_in f a2]
    apply cx_ext <;> simp <;> ring
  · have z1 : (Rplus f).w ell m = czero := Rplus_out f c
    have z2 : (Rplus (Rz f)).w ell m = czero := Rplus_out (Rz f) c
    rw [z2, z1]
    simp only [Rz]
    split_ifs <;> simp [z1]

/-- `[Rz, R₋] = -R₋` — on every cell, no hypothesis -/
theorem comm_Rz_Rminus (f : Modes ℝ) (ell : Nat) (m : Int) :
    Cx.sub ((Rz (Rminus f)).w ell m) ((Rminus (Rz f)).w ell m) = cneg ((Rminus f).w ell m) := by
  by_cases c : max (f.s + 1).natAbs f.s.natAbs ≤ ell ∧ ell ≤ f.ellMax ∧ m.natAbs ≤ ell
  · obtain ⟨c1, c2, c3⟩ := c
    have a1 : (f.s + 1).natAbs ≤ ell := le_trans (le_max_left _ _) c1
    have a2 : f.s.natAbs ≤ ell := le_trans (le_max_right _ _) c1
    rw [Rz_in (Rminus f) a1, Rminus_in f c1 c2 c3, Rminus_in (Rz f) c1 c2 c3, Rz_in f a2]
    apply cx_ext <;> simp <;> ring
  · have z1 : (Rminus f).w ell m = czero := Rminus_out f c
    have z2 : (Rminus (Rz f)).w ell m = czero := Rminus_out (Rz f) c
    rw [z2, z1]
    simp only [Rz]
    split_ifs <;> simp [z1]

/-- `[R₊, R₋] = 2 Rz` -/
theorem comm_Rplus_Rminus (f : Modes ℝ) {ell : Nat} {m : Int} (h1 : f.s.natAbs ≤ ell) (h2 : ell ≤ f.ellMax)
    (hm : m.natAbs ≤ ell) :
    Cx.sub ((Rplus (Rminus f)).w ell m) ((Rminus (Rplus f)).w ell m) = Cx.rmul 2 ((Rz f).w ell m) := by
  rw [(Rplus_Rminus f h1 h2 hm).1, (Rminus_Rplus f h1 h2 hm).1, Rz_in f h1]
  apply cx_ext <;> simp <;> ring

/-- `(R₊R₋ + R₋R₊)/2 + Rz² = ell(ell+1)`, i.e. `R² = L²` as operators on the weights, and `Rsquared` returns it -/
theorem casimir_R (f : Modes ℝ) {ell : Nat} {m : Int} (h1 : f.s.natAbs ≤ ell) (h2 : ell ≤ f.ellMax)
    (hm : m.natAbs ≤ ell) :
    Cx.add (Cx.rmul (1 / 2) (Cx.add ((Rplus (Rminus f)).w ell m) ((Rminus (Rplus f)).w ell m)))
        ((Rz (Rz f)).w ell m) = Cx.rmul ((ell : ℝ) * (ell + 1)) (f.w ell m) ∧
    (Rsquared f).w ell m = Cx.rmul ((ell : ℝ) * (ell + 1)) (f.w ell m) := by
  refine ⟨?_, Lsquared_cell f h1 h2 hm⟩
  rw [(Rplus_Rminus f h1 h2 hm).1, (Rminus_Rplus f h1 h2 hm).1, Rz_in (Rz f) h1, Rz_in f h1]
  apply cx_ext <;> simp <;> ring

/-- `[ethbar, eth] f = ethbar (eth f) - eth (ethbar f) = 2 s f` on EVERY cell `|s| ≤ ell ≤ ellMax`, `|m| ≤ ell`
    (including `ell = |s|`, where one of the two paths is annihilated); both paths return spin weight `s`. -/
theorem comm_ethbar_eth (f : Modes ℝ) {ell : Nat} {m : Int} (h1 : f.s.natAbs ≤ ell) (h2 : ell ≤ f.ellMax)
    (hm : m.natAbs ≤ ell) :
    Cx.sub ((ethbar (eth f)).w ell m) ((eth (ethbar f)).w ell m) = Cx.rmul (2 * (f.s : ℝ)) (f.w ell m) ∧
    (ethbar (eth f)).s = f.s ∧ (eth (ethbar f)).s = f.s := by
  refine ⟨?_, by simp, by simp⟩
  have e1 : (ethbar (eth f)).w ell m = cneg ((Rplus (Rminus f)).w ell m) :=
    ethbar_w_of_le (eth f) (by simp only [eth_s, add_sub_cancel_right]; exact h1)
  have e2 : (eth (ethbar f)).w ell m = cneg ((Rminus (Rplus f)).w ell m) := by
    show (Rminus (ethbar f)).w ell m = _
    by_cases c : max ((Rplus f).s + 1).natAbs (Rplus f).s.natAbs ≤ ell
    · rw [Rminus_in (ethbar f) c h2 hm, Rminus_in (Rplus f) c h2 hm,
        ethbar_w_of_le f (le_trans (le_max_right _ _) c)]
      apply cx_ext <;> simp
    · rw [Rminus_below (ethbar f) (Nat.not_le.mp c), Rminus_below (Rplus f) (Nat.not_le.mp c)]
      simp
  rw [e1, e2, (Rplus_Rminus f h1 h2 hm).1, (Rminus_Rplus f h1 h2 hm).1]
  apply cx_ext <;> simp <;> ring

/-- the two paths separately: `ethbar (eth f) = -(ell-s)(ell+s+1) f`, `eth (ethbar f) = -(ell+s)(ell-s+1) f` -/
theorem ethbar_eth_cell (f : Modes ℝ) {ell : Nat} {m : Int} (h1 : f.s.natAbs ≤ ell) (h2 : ell ≤ f.ellMax)
    (hm : m.natAbs ≤ ell) :
    (ethbar (eth f)).w ell m = Cx.rmul (-(((ell : ℝ) - f.s) * (ell + f.s + 1))) (f.w ell m) := by
  rw [ethbar_w_of_le (eth f) (by simp only [eth_s, add_sub_cancel_right]; exact h1)]
  show cneg ((Rplus (Rminus f)).w ell m) = _
  rw [(Rplus_Rminus f h1 h2 hm).1]; apply cx_ext <;> simp

/-! ### array-level operators (utilities/operators.py) -/

/-- `eth_NP = √2 · eth_GHP` and `ethbar_NP = √2 · ethbar_GHP`, factor by factor, for every spin and every `ell` -/
theorem NP_eq_sqrt2_GHP (s ell : Int) :
    (fEthNP s ell : ℝ) = Real.sqrt 2 * fEthGHP s ell ∧ (fEthbarNP s ell : ℝ) = Real.sqrt 2 * fEthbarGHP s ell := by
  constructor
  · rw [fEthNP_real, fEthGHP_real]; split_ifs
    · simp
    · exact sqrt_half_mul _
  · rw [fEthbarNP_real, fEthbarGHP_real]; split_ifs
    · simp
    · rw [sqrt_half_mul (((ell : ℝ) + s) * (ell - s + 1))]; ring

/-- the array-level factors are the `Modes`-level coefficients: for `ell ≥ max(|s|, |s±1|)` the factor of `eth_NP`
    is the coefficient `Modes.eth` applies, that of `ethbar_NP` the one `Modes.ethbar` applies; for
    `0 ≤ ell < max(|s|, |s±1|)` the factor is `0` (either by the explicit `0.0` branch or because the radicand vanishes) -/
theorem array_factor_eq_coefficient (s ell : Int) (h0 : 0 ≤ ell) :
    (max ((s + 1).natAbs : Int) s.natAbs ≤ ell →
      (fEthNP s ell : ℝ) = cRminus ell (s + 1) ∧ (fEthNP s ell : ℝ) = Real.sqrt (((ell : ℝ) - s) * (ell + s + 1))) ∧
    (ell < max ((s + 1).natAbs : Int) s.natAbs → (fEthNP s ell : ℝ) = 0) ∧
    (max ((s - 1).natAbs : Int) s.natAbs ≤ ell →
      (fEthbarNP s ell : ℝ) = -cRplus ell (s - 1) ∧ (fEthbarNP s ell : ℝ) = -Real.sqrt (((ell : ℝ) + s) * (ell - s + 1))) ∧
    (ell < max ((s - 1).natAbs : Int) s.natAbs → (fEthbarNP s ell : ℝ) = 0) := by
  refine ⟨fun h => ?_, fun h => ?_, fun h => ?_, fun h => ?_⟩
  · have : ¬ ell < ((s + 1).natAbs : Int) := by omega
    rw [fEthNP_real, if_neg this, cRminus_succ]; exact ⟨rfl, rfl⟩
  · rw [fEthNP_real]; split_ifs with c
    · rfl
    · have : (ell : Int) = -s - 1 := by omega
      have e : (ell : ℝ) + s + 1 = 0 := by
        have : ((ell : Int) : ℝ) = ((-s - 1 : Int) : ℝ) := by rw [this]
        push_cast at this; rw [this]; ring
      rw [e]; simp
  · have : ¬ ell < ((s - 1).natAbs : Int) := by omega
    rw [fEthbarNP_real, if_neg this, cRplus_pred]; exact ⟨rfl, rfl⟩
  · rw [fEthbarNP_real]; split_ifs with c
    · rfl
    · have : (ell : Int) = s - 1 := by omega
      have e : (ell : ℝ) - s + 1 = 0 := by
        have : ((ell : Int) : ℝ) = ((s - 1 : Int) : ℝ) := by rw [this]
        push_cast at this; rw [this]; ring
      rw [e]; simp

/-- entrywise agreement of the array functions with the `Modes` operators: every stored cell `ell ≤ ellMax`,
    `|m| ≤ ell` — whatever `ell_min` the array starts at — satisfies `eth_NP`-entry = `Modes.eth`-entry and
    `ethbar_NP`-entry = `Modes.ethbar`-entry.  (No assumption on the weights below `|s|` is needed: there the array
    factor is 0 and the `Modes` operator leaves its zero-initialised output untouched.) -/
theorem array_agrees_with_Modes (f : Modes ℝ) {ell : Nat} {m : Int} (h2 : ell ≤ f.ellMax) (hm : m.natAbs ≤ ell) :
    actMul (fEthNP f.s) ell (f.w ell m) = (eth f).w ell m ∧
    actMul (fEthbarNP f.s) ell (f.w ell m) = (ethbar f).w ell m := by
  have F := array_factor_eq_coefficient f.s ell (by omega)
  constructor
  · by_cases c : max (f.s + 1).natAbs f.s.natAbs ≤ ell
    · rw [(eth_cell f c h2 hm).2.2.2, actMul, (F.1 (by omega)).2]; apply cx_ext <;> simp [mul_comm]
    · rw [((annihilation f m).1 (Nat.not_le.mp c)).1, actMul, F.2.1 (by omega)]; simp
  · by_cases c : max (f.s - 1).natAbs f.s.natAbs ≤ ell
    · rw [(ethbar_cell f c h2 hm).2.2.2, actMul, (F.2.2.1 (by omega)).2]; apply cx_ext <;> simp [mul_comm]
    · rw [((annihilation f m).2 (Nat.not_le.mp c)).1, actMul, F.2.2.2 (by omega)]; simp

/-- `ethbar_inverse_NP(·, s)` is a two-sided inverse of `ethbar_NP(·, s+1)` on every entry of degree `ell ≥ 0` with
    `(ell+s+1)(ell-s) > 0`, and leaves the other entries untouched -/
theorem ethbar_inverse_two_sided (s ell : Int) (h0 : 0 ≤ ell) (z : Cx ℝ) :
    (0 < (ell + s + 1) * (ell - s) →
      actInv s ell (actMul (fEthbarNP (s + 1)) ell z) = z ∧ actMul (fEthbarNP (s + 1)) ell (actInv s ell z) = z) ∧
    ((ell + s + 1) * (ell - s) ≤ 0 → actInv s ell z = z) := by
  constructor
  · intro h
    have hR : (0 : ℝ) < ((ell : ℝ) + s + 1) * (ell - s) := by exact_mod_cast h
    have hb : ¬ ell < ((s + 1 - 1).natAbs : Int) := by
      rcases mul_pos_iff.mp h with ⟨a, b⟩ | ⟨a, b⟩ <;> omega
    have hf : (fEthbarNP (s + 1) ell : ℝ) = -Real.sqrt (((ell : ℝ) + s + 1) * (ell - s)) := by
      rw [fEthbarNP_real, if_neg hb]; congr 2; push_cast; ring
    have hne : Real.sqrt (((ell : ℝ) + s + 1) * (ell - s)) ≠ 0 := (Real.sqrt_pos.mpr hR).ne'
    simp only [actInv, actMul, termInv_real, RealScalar.lt_def, RealScalar.zero_def, hR, decide_true, if_true,
      div_ofRe, mulr_eq, fInv_real, hf]
    constructor <;> apply cx_ext <;> simp <;> field_simp
  · intro h
    have hR : ¬ (0 : ℝ) < ((ell : ℝ) + s + 1) * (ell - s) := by
      have : (((ell + s + 1) * (ell - s) : Int) : ℝ) ≤ 0 := by exact_mod_cast h
      push_cast at this; linarith
    simp [actInv, hR]

/-- the inferred `ell_max`: an array holding exactly the degrees `ell_min … L` (`N = L + 1`) is recognised -/
theorem inferEllMax_exact (N ellMin : Nat) :
    inferEllMax ((N : Int) ^ 2 - (ellMin : Int) ^ 2) ellMin = (N : Int) - 1 := by
  have e : ((N : Int) ^ 2 - (ellMin : Int) ^ 2 + Gen.Ysize 0 ((ellMin : Int) - 1)).toNat = N * N := by
    have : (N : Int) ^ 2 - (ellMin : Int) ^ 2 + Gen.Ysize 0 ((ellMin : Int) - 1) = ((N * N : Nat) : Int) := by
      unfold Gen.Ysize; push_cast; ring
    rw [this]; exact Int.toNat_natCast _
  unfold inferEllMax
  rw [e, Nat.sqrt_eq]

/-! ### the array loop: which entry is multiplied with the factor of which degree, for every `ell_min` -/

/-- the storage index `LM_index(ell, m, ell_min)` (generated `Gen.Yindex`) is `ell² - ell_min² + (ell + m)` -/
theorem Yindex_nat (e ell : Nat) (m : Int) (h1 : e ≤ ell) (hm : m.natAbs ≤ ell) :
    (Gen.Yindex ell m e).toNat = ell ^ 2 - e ^ 2 + (ell + m).toNat := by
  have mono : e ^ 2 ≤ ell ^ 2 := Nat.pow_le_pow_left h1 2
  have hj : ((ell : Int) + m) = (((ell : Int) + m).toNat : Int) := by omega
  unfold Gen.Yindex
  split_ifs with c
  · have : (ell : Int) * ((ell : Int) + 1) - (e : Int) ^ 2 + m = ((ell ^ 2 - e ^ 2 + ((ell : Int) + m).toNat : Nat) : Int) := by
      push_cast [mono]; rw [← hj]; ring
    rw [this]; exact Int.toNat_natCast _
  · have : ell = e := by omega
    subst this
    have : m + (ell : Int) = (ell : Int) + m := by ring
    rw [this]; omega

/-- the loop shared by the five array functions, started at any `ell_min = e`, on an array of ANY length: the size is
    kept; the entry stored at `LM_index(ell, m, ell_min)` is transformed with the action of degree `ell`, for every
    `ell_min ≤ ell ≤` inferred `ell_max`, `|m| ≤ ell`; entries past the inferred `ell_max` are untouched.
    Holds for every scalar type (in particular at `Float`). -/
theorem arrayLoop_entry {α : Type} (act : Int → Cx α → Cx α) (e : Nat) (a : Array (Cx α)) :
    (arrayLoop act e a).size = a.size ∧
    (∀ (ell : Nat) (m : Int), e ≤ ell → (ell : Int) ≤ inferEllMax a.size e → m.natAbs ≤ ell →
      (arrayLoop act e a)[(Gen.Yindex ell m e).toNat]? = (a[(Gen.Yindex ell m e).toNat]?).map (act ell)) ∧
    (∀ i : Nat, (inferEllMax a.size e + 1) ^ 2 - (e : Int) ^ 2 ≤ i → (arrayLoop act e a)[i]? = a[i]?) := by
  obtain ⟨hs, hg⟩ := arrayLoop_spec act e a
  have hN : e ≤ Nat.sqrt (a.size + e ^ 2) := Nat.le_sqrt'.mpr (by omega)
  refine ⟨hs, fun ell m h1 h2 hm => ?_, fun i hi => ?_⟩
  · rw [inferEllMax_nat] at h2
    have h2' : ell + 1 ≤ Nat.sqrt (a.size + e ^ 2) := by omega
    have mono : e ^ 2 ≤ ell ^ 2 := Nat.pow_le_pow_left h1 2
    have mono2 : (ell + 1) ^ 2 ≤ (Nat.sqrt (a.size + e ^ 2)) ^ 2 := Nat.pow_le_pow_left h2' 2
    have sq : (ell + 1) ^ 2 = ell ^ 2 + 2 * ell + 1 := by ring
    have hj : ((ell : Int) + m).toNat ≤ 2 * ell := by omega
    rw [hg, Yindex_nat e ell m h1 hm]
    have c : ell ^ 2 - e ^ 2 + ((ell : Int) + m).toNat < (Nat.sqrt (a.size + e ^ 2)) ^ 2 - e ^ 2 := by omega
    have r : Nat.sqrt (ell ^ 2 - e ^ 2 + ((ell : Int) + m).toNat + e ^ 2) = ell := by
      symm; apply Nat.eq_sqrt'.mpr; constructor <;> omega
    rw [if_pos c, r]
  · rw [inferEllMax_nat] at hi
    have : ¬ i < (Nat.sqrt (a.size + e ^ 2)) ^ 2 - e ^ 2 := by
      have mono : e ^ 2 ≤ (Nat.sqrt (a.size + e ^ 2)) ^ 2 := Nat.pow_le_pow_left hN 2
      have : ((Nat.sqrt (a.size + e ^ 2) : Int) - 1 + 1) ^ 2 - (e : Int) ^ 2 =
          (((Nat.sqrt (a.size + e ^ 2)) ^ 2 - e ^ 2 : Nat) : Int) := by push_cast [mono]; ring
      rw [this] at hi
      omega
    rw [hg, if_neg this]

/-- the array functions agree with the `Modes` operators entrywise, for every `ell_min`: if the array `a` holds the
    weights of `f` for the degrees `ell_min … ellMax` in storage order, then for every such cell the output entry
    of `eth_NP` / `ethbar_NP` is the weight of `Modes.eth` / `Modes.ethbar`, and those of the GHP versions are the
    input weight times the GHP factor (`= NP/√2`, theorem `NP_eq_sqrt2_GHP`). -/
theorem array_functions_agree_with_Modes (f : Modes ℝ) (e : Nat) (a : Array (Cx ℝ))
    (hsize : a.size = (f.ellMax + 1) ^ 2 - e ^ 2) (he : e ≤ f.ellMax + 1)
    (ha : ∀ (ell : Nat) (m : Int), e ≤ ell → ell ≤ f.ellMax → m.natAbs ≤ ell →
      a[(Gen.Yindex ell m e).toNat]? = some (f.w ell m))
    {ell : Nat} {m : Int} (h1 : e ≤ ell) (h2 : ell ≤ f.ellMax) (hm : m.natAbs ≤ ell) :
    (ethNP a f.s e)[(Gen.Yindex ell m e).toNat]? = some ((eth f).w ell m) ∧
    (ethbarNP a f.s e)[(Gen.Yindex ell m e).toNat]? = some ((ethbar f).w ell m) ∧
    (ethGHP a f.s e)[(Gen.Yindex ell m e).toNat]? = some (Cx.mulr (f.w ell m) (fEthGHP f.s ell)) ∧
    (ethbarGHP a f.s e)[(Gen.Yindex ell m e).toNat]? = some (Cx.mulr (f.w ell m) (fEthbarGHP f.s ell)) := by
  have mono : e ^ 2 ≤ (f.ellMax + 1) ^ 2 := Nat.pow_le_pow_left he 2
  have hL : inferEllMax a.size e = f.ellMax := by
    rw [inferEllMax_nat, hsize, Nat.sub_add_cancel mono, Nat.sqrt_eq']; push_cast; ring
  have h2' : (ell : Int) ≤ inferEllMax a.size e := by rw [hL]; exact_mod_cast h2
  have A := array_agrees_with_Modes f h2 hm
  refine ⟨?_, ?_, ?_, ?_⟩
  · rw [ethNP, (arrayLoop_entry _ e a).2.1 ell m h1 h2' hm, ha ell m h1 h2 hm, Option.map_some, A.1]
  · rw [ethbarNP, (arrayLoop_entry _ e a).2.1 ell m h1 h2' hm, ha ell m h1 h2 hm, Option.map_some, A.2]
  · rw [ethGHP, (arrayLoop_entry _ e a).2.1 ell m h1 h2' hm, ha ell m h1 h2 hm, Option.map_some]; rfl
  · rw [ethbarGHP, (arrayLoop_entry _ e a).2.1 ell m h1 h2' hm, ha ell m h1 h2 hm, Option.map_some]; rfl
/-! ### the hypotheses are satisfiable -/

/-- the hypotheses `|s| ≤ ell ≤ ellMax`, `|m| ≤ ell` shared by the cell theorems, at a nontrivial point
    (`s = -2`, `ell = 3`, `m = -1`, nonzero weight) -/
example : ∃ (f : Modes ℝ) (ell : Nat) (m : Int), f.s.natAbs ≤ ell ∧ ell ≤ f.ellMax ∧ m.natAbs ≤ ell ∧
    f.s ≠ 0 ∧ f.w ell m ≠ ⟨0, 0⟩ ∧ (∀ l m', l < f.s.natAbs → f.w l m' = ⟨0, 0⟩) :=
  ⟨⟨-2, 5, fun l _ => if l < 2 then ⟨0, 0⟩ else ⟨1, 2⟩⟩, 3, -1, by decide, by decide, by decide, by decide,
    by simp, fun l _ hl => by
      have : l < 2 := hl
      simp [this]⟩

/-- the boundary `ell = |s|` of `comm_ethbar_eth` / `Rplus_Rminus` (one path annihilated) is inside the hypotheses -/
example : ∃ (f : Modes ℝ) (ell : Nat) (m : Int), f.s.natAbs ≤ ell ∧ ell ≤ f.ellMax ∧ m.natAbs ≤ ell ∧
    ell < max (f.s + 1).natAbs f.s.natAbs :=
  ⟨⟨2, 4, fun _ _ => ⟨1, 0⟩⟩, 2, 1, by decide, by decide, by decide, by decide⟩

/-- hypotheses of `eth_cell` / `ethbar_cell` -/
example : ∃ (f : Modes ℝ) (ell : Nat) (m : Int), max (f.s + 1).natAbs f.s.natAbs ≤ ell ∧
    max (f.s - 1).natAbs f.s.natAbs ≤ ell ∧ ell ≤ f.ellMax ∧ m.natAbs ≤ ell :=
  ⟨⟨-3, 4, fun _ _ => ⟨1, 0⟩⟩, 4, -4, by decide, by decide, by decide, by decide⟩

/-- hypotheses of `annihilation` -/
example : ∃ (f : Modes ℝ) (ell : Nat), ell < max (f.s + 1).natAbs f.s.natAbs ∧ ell < max (f.s - 1).natAbs f.s.natAbs :=
  ⟨⟨-3, 4, fun _ _ => ⟨1, 0⟩⟩, 2, by decide, by decide⟩

/-- hypotheses of `array_factor_eq_coefficient` (all four branches) and `ethbar_inverse_two_sided` (both branches) -/
example : (∃ s ell : Int, 0 ≤ ell ∧ max ((s + 1).natAbs : Int) s.natAbs ≤ ell ∧ max ((s - 1).natAbs : Int) s.natAbs ≤ ell) ∧
    (∃ s ell : Int, 0 ≤ ell ∧ ell < max ((s + 1).natAbs : Int) s.natAbs ∧ ell < max ((s - 1).natAbs : Int) s.natAbs) ∧
    (∃ s ell : Int, 0 ≤ ell ∧ 0 < (ell + s + 1) * (ell - s)) ∧ (∃ s ell : Int, 0 ≤ ell ∧ (ell + s + 1) * (ell - s) ≤ 0) :=
  ⟨⟨2, 3, by decide⟩, ⟨-2, 1, by decide⟩, ⟨1, 2, by decide⟩, ⟨1, 1, by decide⟩⟩

/-- the hypotheses of `array_functions_agree_with_Modes` are satisfiable with `ell_min = 1 > 0`: the array is the
    tail of the storage of a spin-1 object with `ellMax = 2` -/
example : ∃ (f : Modes ℝ) (e : Nat) (a : Array (Cx ℝ)), 0 < e ∧ a.size = (f.ellMax + 1) ^ 2 - e ^ 2 ∧ e ≤ f.ellMax + 1 ∧
    (∀ (ell : Nat) (m : Int), e ≤ ell → ell ≤ f.ellMax → m.natAbs ≤ ell →
      a[(Gen.Yindex ell m e).toNat]? = some (f.w ell m)) :=
  ⟨⟨1, 2, fun _ _ => ⟨1, 0⟩⟩, 1, Array.replicate 8 ⟨1, 0⟩, by decide, by simp, by decide, fun ell m h1 h2 hm => by
    have h2 : ell ≤ 2 := h2
    have : (Gen.Yindex ell m 1).toNat < 8 := by
      have e := Yindex_nat 1 ell m h1 hm
      rw [Nat.cast_one] at e
      rw [e]
      have : ell = 1 ∨ ell = 2 := by omega
      rcases this with rfl | rfl <;> omega
    simp [this]⟩

end C12
