"""Which Lean property modules carry the theorems of which property (only those that exist on disk)."""
import os

from ..runner import LEAN

SHARED = {
    # shared theorem files -> properties they serve
    "HKernel": ["C01", "C02", "C08", "C09", "C17"],
    "Routes": ["C02", "C03", "C04", "C07", "C13"],
    "Sched": ["C10"],
    "IndexWalk": ["C03", "C04", "C15"],
    "Finite": ["C01", "C02"],
    "DDef": ["C01", "C07", "C19"],
    "DDef2": ["C01"],
    "DHom": ["C07", "C19", "C04"],
    "Matrix": ["C03", "C04", "C15"],
    "W3jBounds": ["C05"],
    "W3jNorm": ["C05"],
    "W3jUniq": ["C05"],
    "GDFamily": ["C01", "C02", "C07"],
    "DocD": ["C01", "C02", "C07"],
    "DAll": ["C01", "C02", "C07", "C03"],
    "DocHom": ["C07", "C04", "C19"],
    "HomAll": ["C07", "C04", "C02", "C03"],
    "FuncAlg": ["C13", "C06", "C03"],
    "Generators": ["C12"],
    "FlatSteps": ["C01", "C08", "C15"],
    "GenH": ["C01", "C02", "C08", "C09", "C17"],
    "GenFill": ["C01", "C02", "C07", "C08", "C17"],
    "GenHorner": ["C03", "C08", "C09", "C15"],
    "GenCPow": ["C14"],
    "GenRot": ["C04", "C15", "C19"],
    "GenEuler": ["C01", "C02", "C07"],
    "GenChain": ["C01", "C02", "C03", "C04", "C07"],
    "Footprint": ["C10", "C09", "C17"],
    "GenDiff": ["C12"],
    "GenAlg": ["C13"],
    "GenMul": ["C06"],
    "GenW3j": ["C05"],
    "GenRotM": ["C03", "C04", "C19", "C10"],
    "Footprint2": ["C09", "C12", "C13", "C06"],
    "GenMethod": ["C01", "C02", "C03", "C04", "C07", "C08", "C09", "C10", "C17"],
}


def modules_for(pid):
    mods = []
    if os.path.exists(os.path.join(LEAN, "SphericalVerif", "Props", f"{pid}.lean")):
        mods.append(f"SphericalVerif.Props.{pid}")
    for name, pids in SHARED.items():
        if pid in pids and os.path.exists(os.path.join(LEAN, "SphericalVerif", "Props", f"{name}.lean")):
            mods.append(f"SphericalVerif.Props.{name}")
    return mods
