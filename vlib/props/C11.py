"""C11 — index and size functions are exact inverses of the documented orderings.

Obligations: translation of the integer code (regenerated from /repo every run) + the theorems of
Props/C11.lean about the *generated* definitions.  Correspondence: translation validation (generated
Lean defs executed by the driver vs the Python functions, both py_func and jitted) and the *range arrays
vs the Spec lists.  Search: brute force against the nested-loop orderings."""
import itertools

import numpy as np

from .. import corr


def spec_h(mp_max, ell_max):
    return [(l, mp, m) for l in range(ell_max + 1) for mp in range(-min(l, mp_max), min(l, mp_max) + 1) for m in range(abs(mp), l + 1)]


def spec_d(ell_min, mp_max, ell_max):
    return [(l, mp, m) for l in range(ell_min, ell_max + 1) for mp in range(-min(l, mp_max), min(l, mp_max) + 1) for m in range(-l, l + 1)]


def spec_y(ell_min, ell_max):
    return [(l, m) for l in range(ell_min, ell_max + 1) for m in range(-l, l + 1)]


def fold(mp, m):
    """independent statement of the H symmetries: representative (a, b) of the orbit with b >= |a|"""
    for a, b in ((mp, m), (m, mp), (-mp, -m), (-m, -mp)):
        if b >= abs(a):
            return a, b
    raise AssertionError


def brute_force(run, lmax, tier):
    """Implementation alone against the documented orderings.  Returns number of failures reported."""
    import spherical as sf
    from spherical.utilities import indexing as ix
    from spherical.recursions import wignerH as wh
    nfail = 0

    def fail(site, inp, expected, got):
        nonlocal nfail
        nfail += 1
        run.violation("index-size-vs-documented-ordering", site, inp, expected, got)

    for variant in ("jit", "py"):
        g = (lambda f: f) if variant == "jit" else (lambda f: f.py_func)
        Hsize, Hindex, Hrange = g(ix.WignerHsize), g(ix.WignerHindex), g(ix.WignerHrange)
        Dsize, Dindex, Drange = g(ix.WignerDsize), g(ix.WignerDindex), g(ix.WignerDrange)
        Ysz, Yidx, Yrng = g(ix.Ysize), g(ix.Yindex), g(ix.Yrange)
        lm = lmax if variant == "jit" else min(lmax, 10)
        for ell_max in range(lm + 1):
            for mp_max in list(range(ell_max + 7)) + [ell_max + 40]:
                ref = spec_h(mp_max, ell_max)
                pos = {t: i for i, t in enumerate(ref)}
                n = int(Hsize(mp_max, ell_max))
                run.gap_case("brute:H", ("H", variant, mp_max, ell_max), f"{variant}", {"mp_max": mp_max, "ell_max": ell_max, "size": n})
                if n != len(ref):
                    fail(f"WignerHsize[{variant}]", {"mp_max": mp_max, "ell_max": ell_max}, len(ref), n)
                    continue
                if ell_max <= (14 if tier == "quick" else 28) or mp_max in (0, 1, ell_max - 1, ell_max):
                    if variant == "jit":
                        r = Hrange(mp_max, ell_max)
                        if r.shape != (len(ref), 3) or [tuple(int(x) for x in row) for row in r] != ref:
                            fail("WignerHrange", {"mp_max": mp_max, "ell_max": ell_max}, "documented ordering", "differs")
                    for (l, mp, m), i in pos.items():
                        got = int(Hindex(l, mp, m, mp_max))
                        if got != i:
                            fail(f"WignerHindex[{variant}]", {"ell": l, "mp": mp, "m": m, "mp_max": mp_max}, i, got)
                            break
                    # symmetric folding for out-of-wedge (m', m)
                    for l in range(ell_max + 1):
                        for mp in range(-l, l + 1):
                            for m in range(-l, l + 1):
                                a, b = fold(mp, m)
                                if abs(a) > min(l, mp_max):
                                    continue
                                got = int(Hindex(l, mp, m, mp_max))
                                if got != pos[(l, a, b)]:
                                    fail(f"WignerHindex-fold[{variant}]", {"ell": l, "mp": mp, "m": m, "mp_max": mp_max}, pos[(l, a, b)], got)
                                    break
            for ell_min in range(ell_max + 1):
                ry = spec_y(ell_min, ell_max)
                if int(Ysz(ell_min, ell_max)) != len(ry):
                    fail(f"Ysize[{variant}]", {"ell_min": ell_min, "ell_max": ell_max}, len(ry), int(Ysz(ell_min, ell_max)))
                for i, (l, m) in enumerate(ry):
                    if int(Yidx(l, m, ell_min)) != i:
                        fail(f"Yindex[{variant}]", {"ell": l, "m": m, "ell_min": ell_min}, i, int(Yidx(l, m, ell_min)))
                        break
                if variant == "jit" and [tuple(int(x) for x in row) for row in Yrng(ell_min, ell_max)] != ry:
                    fail("Yrange", {"ell_min": ell_min, "ell_max": ell_max}, "documented ordering", "differs")
                mps = list(range(ell_max + 2)) if ell_max <= 8 else sorted({0, 1, ell_min, ell_min + 1, max(ell_min - 1, 0), ell_max - 1, ell_max, ell_max + 1})
                for mp_max in mps:
                    rd = spec_d(ell_min, mp_max, ell_max)
                    n = int(Dsize(ell_min, mp_max, ell_max))
                    run.gap_case("brute:D", ("D", variant, ell_min, mp_max, ell_max), variant)
                    if n != len(rd):
                        fail(f"WignerDsize[{variant}]", {"ell_min": ell_min, "mp_max": mp_max, "ell_max": ell_max}, len(rd), n)
                        continue
                    if ell_max <= (9 if tier == "quick" else 14):
                        for i, (l, mp, m) in enumerate(rd):
                            got = int(Dindex(l, mp, m, ell_min, mp_max))
                            if got != i:
                                fail(f"WignerDindex[{variant}]", {"ell": l, "mp": mp, "m": m, "ell_min": ell_min, "mp_max": mp_max}, i, got)
                                break
                        if variant == "jit" and ell_max <= 9:
                            r = Drange(ell_min, mp_max, ell_max)
                            if [tuple(int(x) for x in row) for row in r] != rd:
                                fail("WignerDrange", {"ell_min": ell_min, "mp_max": mp_max, "ell_max": ell_max}, "documented ordering", "differs")
        # Wigner object methods agree with free functions
        if variant == "jit":
            for ell_max, ell_min, mp_max in [(5, 0, 5), (6, 2, 3), (7, 3, 7), (4, 0, 0), (9, 1, 2)]:
                w = sf.Wigner(ell_max, ell_min, mp_max)
                for l in range(ell_min, ell_max + 1):
                    for mp in range(-l, l + 1):
                        for m in range(-l, l + 1):
                            if min(abs(mp), abs(m)) <= w.mp_max and w.Hindex(l, mp, m) != ix.WignerHindex(l, mp, m, w.mp_max):
                                fail("Wigner.Hindex", {"ell": l, "mp": mp, "m": m, "cfg": [ell_max, ell_min, mp_max]}, "free function", "differs")
                            if abs(mp) <= w.mp_max:
                                if w.Dindex(l, mp, m) != ix.WignerDindex(l, mp, m, ell_min, w.mp_max) or w.dindex(l, mp, m) != w.Dindex(l, mp, m):
                                    fail("Wigner.Dindex", {"ell": l, "mp": mp, "m": m, "cfg": [ell_max, ell_min, mp_max]}, "free function", "differs")
                        if w.Yindex(l, mp) != ix.Yindex(l, mp, ell_min):
                            fail("Wigner.Yindex", {"ell": l, "m": mp, "cfg": [ell_max, ell_min, mp_max]}, "free function", "differs")
                if (w.Hsize, w.dsize, w.Dsize, w.Ysize) != (ix.WignerHsize(w.mp_max, ell_max), ix.WignerDsize(ell_min, w.mp_max, ell_max), ix.WignerDsize(ell_min, w.mp_max, ell_max), ix.Ysize(ell_min, ell_max)):
                    fail("Wigner.sizes", {"cfg": [ell_max, ell_min, mp_max]}, "free functions", "differs")
    # integer argument types: numpy integer scalars of every width denote the same integers as Python ints
    for tname, T, ell_max, ells in (("int8", np.int8, 24, [0, 3, 10, 11, 12, 24]), ("int16", np.int16, 200, [5, 127, 128, 180, 181, 200]),
                                    ("int32", np.int32, 24, [0, 11, 24]), ("uint8", np.uint8, 24, [0, 11, 16, 24]), ("int64", np.int64, 200, [181, 200])):
        for ell_min, mp_max in ((0, None), (2, 3)):
            w = sf.Wigner(ell_max, ell_min, mp_max) if mp_max is not None else sf.Wigner(ell_max)
            for l in ells:
                if l < ell_min:
                    continue
                for mp, m in ((0, 0), (min(l, w.mp_max), -l), (-min(l, w.mp_max), l), (min(1, l), min(2, l))):
                    if tname.startswith("u") and (mp < 0 or m < 0):
                        continue
                    run.gap_case("brute:integer-types", (tname, ell_max, ell_min, l, mp, m), tname)
                    for name, got, want in (("Wigner.Yindex", lambda: w.Yindex(T(l), T(m)), lambda: w.Yindex(l, m)), ("Wigner.Dindex", lambda: w.Dindex(T(l), T(mp), T(m)), lambda: w.Dindex(l, mp, m)),
                                            ("Wigner.dindex", lambda: w.dindex(T(l), T(mp), T(m)), lambda: w.dindex(l, mp, m)), ("Wigner.Hindex", lambda: w.Hindex(T(l), T(mp), T(m)), lambda: w.Hindex(l, mp, m)),
                                            ("Yindex", lambda: ix.Yindex(T(l), T(m), T(ell_min)), lambda: ix.Yindex(l, m, ell_min)),
                                            ("WignerDindex", lambda: ix.WignerDindex(T(l), T(mp), T(m), T(ell_min), T(w.mp_max)), lambda: ix.WignerDindex(l, mp, m, ell_min, w.mp_max)),
                                            ("WignerHindex", lambda: ix.WignerHindex(T(l), T(mp), T(m), T(w.mp_max)), lambda: ix.WignerHindex(l, mp, m, w.mp_max))):
                        try:
                            a, b = got(), want()
                        except Exception as e:
                            fail(name, {"ell": l, "mp": mp, "m": m, "argument_type": tname, "cfg": [ell_max, ell_min, mp_max]}, "same as with Python ints", repr(e))
                            continue
                        if int(a) != int(b):
                            fail(name, {"ell": l, "mp": mp, "m": m, "argument_type": tname, "cfg": [ell_max, ell_min, mp_max]}, int(b), int(a))
    # large arguments: exact counts by direct big-integer summation of the documented loops (no closed form involved)
    rng = run.rng
    for _ in range(14 if tier == "quick" else 120):
        ell_max = rng.choice([rng.randint(1000, 60000), rng.randint(150000, 400000), rng.randint(60000, 150000)])
        ell_min = rng.choice([0, rng.randint(0, ell_max), max(ell_max - rng.randint(0, 50), 0)])
        mp_max = rng.choice([0, 1, rng.randint(0, ell_max), ell_max, ell_max + 5, max(ell_min - 1, 0), ell_min + 1])
        dsz = sum((2 * min(l, mp_max) + 1) * (2 * l + 1) for l in range(ell_min, ell_max + 1))
        hsz = sum((l + 1) * (2 * min(l, mp_max) + 1) - min(l, mp_max) * (min(l, mp_max) + 1) for l in range(ell_max + 1))
        ysz = sum(2 * l + 1 for l in range(ell_min, ell_max + 1))
        inp = {"ell_min": ell_min, "mp_max": mp_max, "ell_max": ell_max}
        run.gap_case("brute:large-args", (ell_min, mp_max, ell_max), "large")
        for name, got, want in (("WignerDsize[jit]", int(ix.WignerDsize(ell_min, mp_max, ell_max)), dsz), ("WignerHsize[jit]", int(ix.WignerHsize(mp_max, ell_max)), hsz),
                                ("Ysize[jit]", int(ix.Ysize(ell_min, ell_max)), ysz), ("WignerDsize[py]", int(ix.WignerDsize.py_func(ell_min, mp_max, ell_max)), dsz)):
            if got != want:
                fail(name, inp, want, got)
        # index of the last element = size - 1 ; index of a random element of the last ell block
        l = ell_max
        w_ = min(l, mp_max)
        mp = rng.randint(-w_, w_)
        m = rng.randint(-l, l)
        before = sum((2 * min(k, mp_max) + 1) * (2 * k + 1) for k in range(ell_min, l)) + (mp + w_) * (2 * l + 1) + (m + l)
        got = int(ix.WignerDindex(l, mp, m, ell_min, mp_max))
        if got != before:
            fail("WignerDindex[jit]", {"ell": l, "mp": mp, "m": m, "ell_min": ell_min, "mp_max": mp_max}, before, got)
    # small helper orderings
    for nmax in range(0, 12):
        ref = [(n, m) for n in range(nmax + 1) for m in range(-n, n + 1)]
        for i, (n, m) in enumerate(ref):
            if wh.nm_index(n, m) != i:
                fail("nm_index", {"n": n, "m": m}, i, int(wh.nm_index(n, m)))
        ref = [(n, m) for n in range(nmax + 1) for m in range(n + 1)]
        for i, (n, m) in enumerate(ref):
            if wh.nabsm_index(n, m) != i:
                fail("nabsm_index", {"n": n, "m": m}, i, int(wh.nabsm_index(n, m)))
        ref = [(n, mp, m) for n in range(nmax + 1) for mp in range(-n, n + 1) for m in range(-n, n + 1)]
        for i, (n, mp, m) in enumerate(ref):
            if wh.nmpm_index(n, mp, m) != i:
                fail("nmpm_index", {"n": n, "mp": mp, "m": m}, i, int(wh.nmpm_index(n, mp, m)))
    for k in range(-12, 13):
        e = 1 if k <= 0 else (-1) ** k
        if wh.ϵ(k) != e:
            fail("epsilon", {"k": k}, e, int(wh.ϵ(k)))
    return nfail


def translation_validation(run, rep, tier):
    """Generated Lean definitions (driver) vs Python functions on an exhaustive box + random large arguments."""
    from spherical.utilities import indexing as ix
    from spherical.recursions import wignerH as wh
    from spherical.recursions import wigner3j as w3
    rng = run.rng
    fns = {
        "WignerHsize": (ix.WignerHsize, 2), "u_WignerHindex": (ix._WignerHindex, 4), "WignerHindex": (ix.WignerHindex, 4),
        "WignerDsize": (ix.WignerDsize, 3), "WignerDindex": (ix.WignerDindex, 5), "Ysize": (ix.Ysize, 2), "Yindex": (ix.Yindex, 3),
        "ε": (wh.ϵ, 1), "sign": (wh.sign, 1), "nm_index": (wh.nm_index, 2), "nabsm_index": (wh.nabsm_index, 2), "nmpm_index": (wh.nmpm_index, 3),
    }
    cases = []
    box = 4 if tier == "quick" else 6
    for name, (f, ar) in fns.items():
        pts = list(itertools.product(range(-2, box + 1), repeat=ar)) if ar <= 3 else [tuple(rng.randint(-2, box + 2) for _ in range(ar)) for _ in range(1500)]
        if len(pts) > 1500:
            pts = rng.sample(pts, 1500)
        for _ in range(200):
            big = rng.choice([50, 1000, 10 ** 5, 10 ** 6])
            pts.append(tuple(rng.randint(-3, big) for _ in range(ar)))
        for a in pts:
            cases.append((name, a))
    lines, expect = [], []
    for name, a in cases:
        f = fns[name][0]
        pa = list(a)
        la = [str(x) for x in a]
        if name == "WignerHindex" and rng.random() < 0.2:
            pa[3] = None
            la[3] = "none"
        try:
            py = int(f.py_func(*pa))
            ji = int(f(*pa))
        except Exception as e:  # the Python function itself raised (e.g. ZeroDivision): not expected for these
            run.corr_break(f"translation:{name}", f"python raised {e!r} on {pa}")
            continue
        lines.append(f"gen {name} {' '.join(la)}")
        expect.append((name, pa, py, "math"))
        lines.append(f"gen {name}_w {' '.join(la)}")
        expect.append((name, pa, ji, "int64"))
    # B and the radicand of A (declared int32 / computed in int64)
    for _ in range(400 if tier == "quick" else 2000):
        jm = rng.choice([3, 10, 40, 150, 400, 700])
        j2, j3 = rng.randint(0, jm), rng.randint(0, jm)
        j = rng.randint(abs(j2 - j3), j2 + j3)
        m2, m3 = rng.randint(-j2, j2), rng.randint(-j3, j3)
        lines.append(f"gen B_ret {j} {j2} {j3} {m2} {m3}")
        expect.append(("B", [j, j2, j3, m2, m3], int(w3.B(j, j2, j3, m2, m3)), "declared"))
        lines.append(f"gen B {j} {j2} {j3} {m2} {m3}")
        expect.append(("B", [j, j2, j3, m2, m3], int(w3.B.py_func(j, j2, j3, m2, m3)), "math"))
        m1 = -(m2 + m3)
        rad = (j ** 2 - (j2 - j3) ** 2) * ((j2 + j3 + 1) ** 2 - j ** 2) * (j ** 2 - m1 ** 2)
        lines.append(f"gen A_radicand {j} {j2} {j3} {m1}")
        expect.append(("A_radicand", [j, j2, j3, m1], rad, "math"))
    out = run.driver(lines)
    if out is None:
        return
    nbad = 0
    for l, o, (name, pa, want, kind) in zip(lines, out, expect):
        run.corr_case("translation-validation", l, kind, {"line": l, "value": o} if nbad == 0 else None)
        if o != str(want):
            nbad += 1
            if nbad <= 3:
                run.corr_break(f"translation:{name}:{kind}", f"{l} -> lean {o}, python {want}")
    run.notes["translation_validation_mismatches"] = nbad


def ranges_vs_spec(run, tier):
    """*range arrays of the implementation vs the Lean Spec lists (printed by the driver via the H/Y ops is indirect);
    here: Spec lists are exercised through the `H`, `dfull`, `Y` driver ops in C01/C02/C08; for C11 compare sizes."""
    return


def check(run):
    rep = run.regenerate()
    run.lean_props(["SphericalVerif.Props.C11"])
    if rep is not None:
        translation_validation(run, rep, run.tier)
    nfail = brute_force(run, 16 if run.tier == "quick" else 40, run.tier)
    # known finding F12: replay the proved int64-overflow witness on the implementation
    from spherical.utilities import indexing as ix
    w = int(ix.WignerHsize(3000000, 3000000))
    exact = (3000001 * 3000002 * 6000003) // 6
    run.gap_case("witness:int64-overflow", "F12", "known", {"WignerHsize(3000000,3000000)": w, "exact": exact})
    if w != exact:
        run.violation("fixed-width-overflow", "WignerHsize[jit]:int64", {"mp_max": 3000000, "ell_max": 3000000}, exact, w)
    run.assumptions += ["numba types Python-int arguments as int64 and wraps silently (modelled by the generated *_w twins)",
                        "brute-force sweep bounded by ell_max<=16 (quick) / 40 (thorough); the theorems are unbounded"]


def replay(body):
    from spherical.utilities import indexing as ix
    print("replay input:", body.get("input"), "expected:", body.get("expected"), "recorded got:", body.get("got"))
    site = body.get("site", "")
    inp = body.get("input", {})
    try:
        if site.startswith("WignerHsize"):
            print("now:", int(ix.WignerHsize(inp["mp_max"], inp["ell_max"])))
        elif site.startswith("WignerHindex"):
            print("now:", int(ix.WignerHindex(inp["ell"], inp["mp"], inp["m"], inp["mp_max"])))
        elif site.startswith("WignerDsize"):
            print("now:", int(ix.WignerDsize(inp["ell_min"], inp["mp_max"], inp["ell_max"])))
        elif site.startswith("WignerDindex"):
            print("now:", int(ix.WignerDindex(inp["ell"], inp["mp"], inp["m"], inp["ell_min"], inp["mp_max"])))
    except Exception as e:
        print("raised", repr(e))
    return 0
