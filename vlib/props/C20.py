"""C20 — Modes objects store exactly the weights they were given, at the documented index.

Obligations: Props/C20.lean about the generated Yindex/Ysize and the generated guards of Modes.index
(entry at index(ell,m) is the input weight for ell >= max(|s|, ell_min), zero below; index rejections; truncation).
Gap/search: all (s, ell_min, ell_max) with |s|<=4, ell_max<=12 (quick 8) x leading shapes x real-pair / complex dtype
x keyword / positional / deduced construction; index(); truncate_ell(); views keep metadata."""
import itertools

import numpy as np

from . import common


def check(run):
    import spherical
    quick = run.tier == "quick"
    run.regenerate()
    run.lean_props(common.modules_for("C20"))
    from .. import glue_modes
    run.attempt("corr:glue_modes.corr", glue_modes.corr, run, quick)   # Lean model of Modes (constructor, layout, dispatch, conj pairing, product terms, copies) vs the real class
    rng = run.rng
    LM = 8 if quick else 12
    nprng = np.random.default_rng(rng.randint(0, 2 ** 31))
    lines, expect = [], []
    for s in range(-4, 5):
        for ell_max in range(0, LM + 1):
            for ell_min in range(0, ell_max + 1):
                if quick and (s, ell_min, ell_max) != (s, ell_min, ell_max) or (quick and rng.random() < 0.5 and ell_max > 4):
                    continue
                n = (ell_max + 1) ** 2 - ell_min ** 2
                lead = rng.choice([(), (3,), (2, 2)])
                data = nprng.normal(size=lead + (n,)) + 1j * nprng.normal(size=lead + (n,))
                as_pairs = rng.random() < 0.4
                raw = data.view(float) if as_pairs else data
                how = rng.choice(["keyword", "positional", "deduced"])
                inp = {"s": s, "ell_min": ell_min, "ell_max": ell_max, "lead": list(lead), "dtype": "real-pairs" if as_pairs else "complex", "construction": how}
                try:
                    if how == "keyword":
                        m = spherical.Modes(raw.copy(), spin_weight=s, ell_min=ell_min, ell_max=ell_max)
                    elif how == "positional":
                        m = spherical.Modes(raw.copy(), s, ell_min, ell_max)
                    else:
                        m = spherical.Modes(raw.copy(), spin_weight=s, ell_min=ell_min)
                except Exception as e:
                    run.violation("construction-raised", "Modes.__new__", inp, "Modes", repr(e))
                    continue
                run.gap_case("construction", (s, ell_min, ell_max, lead, as_pairs, how), how, inp)
                if not isinstance(m, spherical.Modes) or m.spin_weight != s or m.ell_max != ell_max or m.shape != lead + ((ell_max + 1) ** 2,) or m.ell_min != 0:
                    run.violation("construction-metadata", "Modes.__new__", inp, f"s={s} ell_max={ell_max}", f"s={getattr(m, 's', None)} ell_max={getattr(m, 'ell_max', None)} shape={m.shape}")
                    continue
                arr = m.ndarray
                lo = max(abs(s), ell_min)
                ok = True
                for ell in range(0, ell_max + 1):
                    for mm in range(-ell, ell + 1):
                        flat = ell * (ell + 1) + mm
                        if ell >= lo:
                            want = data[..., ell * (ell + 1) + mm - ell_min ** 2]
                            if not np.array_equal(arr[..., flat], want):
                                run.violation("stored-weight-differs", "Modes.__new__", {**inp, "ell": ell, "m": mm}, "input weight", "differs")
                                ok = False
                            if ok and ell >= abs(s):
                                try:
                                    i = m.index(ell, mm)
                                except Exception as e:
                                    run.violation("index-raised", "Modes.index", {**inp, "ell": ell, "m": mm}, flat, repr(e))
                                    ok = False
                                    break
                                if i != flat:
                                    run.violation("index-wrong", "Modes.index", {**inp, "ell": ell, "m": mm}, flat, i)
                                    ok = False
                        elif np.any(arr[..., flat] != 0):
                            run.violation("low-ell-not-zero", "Modes.__new__", {**inp, "ell": ell, "m": mm}, 0, "nonzero")
                            ok = False
                        if not ok:
                            break
                    if not ok:
                        break
                # index rejections
                for (ell, mm) in [(abs(s) - 1, 0), (ell_max + 1, 0), (ell_max, ell_max + 1), (ell_max, -ell_max - 1), (max(abs(s), 1), max(abs(s), 1) + 1)]:
                    if ell < 0:
                        continue
                    bad = ell < abs(s) or abs(mm) > ell or ell > ell_max
                    lines.append(f"gen index_ok {ell} {mm} {s} 0 {ell_max}")
                    try:
                        m.index(ell, mm)
                        expect.append("1")
                        if bad:
                            run.violation("bad-index-accepted", "Modes.index", {**inp, "ell": ell, "m": mm}, "raise", "returned")
                    except Exception:
                        expect.append("0")
                        if not bad:
                            run.violation("good-index-rejected", "Modes.index", {**inp, "ell": ell, "m": mm}, "index", "raised")
                # truncate_ell
                snap = arr.copy()
                for Lt in sorted({0, abs(s) - 1, abs(s), ell_max - 1, ell_max, ell_max + 2} & set(range(0, ell_max + 3))):
                    try:
                        t = m.truncate_ell(Lt)
                    except Exception as e:
                        run.violation("truncate-raised", "Modes.truncate_ell", {**inp, "new_ell_max": Lt, "below_abs_s": Lt < abs(s)}, "leading part", repr(e))
                        continue
                    run.gap_case("truncate", (s, ell_max, Lt), "below-|s|" if Lt < abs(s) else "normal")
                    Le = min(Lt, ell_max)
                    if t.ell_max != Le or t.shape != lead + ((Le + 1) ** 2,) or not np.array_equal(t.ndarray, snap[..., :(Le + 1) ** 2]) or t.spin_weight != s:
                        run.violation("truncate-wrong", "Modes.truncate_ell", {**inp, "new_ell_max": Lt}, f"leading part with ell_max={Le}", f"ell_max={t.ell_max} shape={t.shape}")
                    if m.ell_max != ell_max or not np.array_equal(m.ndarray, snap) or m.shape[-1] != (ell_max + 1) ** 2:
                        run.violation("truncate-altered-original", "Modes.truncate_ell", {**inp, "new_ell_max": Lt}, "original unchanged", f"ell_max={m.ell_max}")
                        m._metadata["ell_max"] = ell_max
                # views along leading axes keep the metadata
                if lead:
                    vw = m[0]
                    if not isinstance(vw, spherical.Modes) or vw.spin_weight != s or vw.ell_max != ell_max:
                        run.violation("view-loses-metadata", "Modes.__getitem__", inp, "metadata kept", "lost")
                    vw2 = m[..., :]
                    if vw2.spin_weight != s or vw2.ell_max != ell_max:
                        run.violation("view-loses-metadata", "Modes.__getitem__", inp, "metadata kept", "lost")
    out = run.driver(lines)
    if out is not None:
        nb = 0
        for l, o, e in zip(lines, out, expect):
            run.corr_case("generated-index-guards", l, "index", {"line": l, "ok": o} if nb == 0 else None)
            if o != e:
                nb += 1
                if nb <= 3:
                    run.corr_break("corr:index-guards", {"line": l, "generated": o, "impl": e})
    # malformed construction
    for name, f in (("size-fits-no-range", lambda: spherical.Modes(np.zeros(7, dtype=complex), spin_weight=0)),
                    ("size-mismatch", lambda: spherical.Modes(np.zeros(8, dtype=complex), spin_weight=0, ell_min=1, ell_max=3)),
                    ("missing-spin", lambda: spherical.Modes(np.zeros(4, dtype=complex))),
                    ("two-positional", lambda: spherical.Modes(np.zeros(4, dtype=complex), 0, 0))):
        run.gap_case("malformed", name, "must-raise")
        try:
            f()
            run.violation("malformed-construction-accepted", name, {"case": name}, "raise", "returned")
        except Exception:
            pass
    from .. import layouts
    layouts.sweep_modes(run, "storage", [("ndarray", lambda f: f.ndarray), ("truncate_ell", lambda f: f.truncate_ell(f.ell_max - 1)), ("view[1]", lambda f: f[1]), ("view[:,0]", lambda f: f[:, 0]),
                                         ("entries", lambda f: np.array([f[..., f.index(l, m)] for l in range(abs(f.spin_weight), f.ell_max + 1) for m in (-l, 0, l)])),
                                         ("copy", lambda f: f.copy())],
                        [-2, 0, 3] if quick else range(-4, 5))
    run.assumptions += ["float sqrt in LM_deduce_ell_max is exact on perfect squares below 2^52"]


def replay(body):
    print(body["input"], body["expected"], body["got"])
    return 0
