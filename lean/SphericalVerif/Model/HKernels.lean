import SphericalVerif.Model.Basic
/-! Coordinate-level model of the H recursion (`_step_1` … `_step_5` of spherical/recursions/wignerH.py,
    driven by `Wigner.H`) and of the coefficient tables of `Wigner.__init__`, over an abstract scalar and
    an abstract memory.  Hand-written; tied to the code by the bitwise correspondence check
    (vlib/corr_h.py): executed at `Float`/`HMem` it reproduces `Hwedge`, `Hv`, `Hextra` bit for bit.

    Cells are named by coordinates: `hw n m' m` is `Hwedge[WignerHindex(n, m', m, mp_max)]`,
    `hv n m` is `Hv[nm_index(n, m)]`, `hx m` is `Hextra[m]`.  `L` = n_max = ell_max, `P` = mp_max. -/
namespace Model
section
open Scalar
variable {α : Type} [Scalar α] {μ : Type} [Mem μ α]

-- coefficient tables, same expression order as Wigner.__init__
def aC (n m : Int) : α := sqrt (ofInt ((n+1+m)*(n+1-m)) /. ofInt ((2*n+1)*(2*n+3)))       -- uses |n|,|m|; callers pass m ≥ 0
def bC (n m : Int) : α :=
  let v : α := sqrt (ofInt ((n-m-1)*(n-m)) /. ofInt ((2*n-1)*(2*n+1)))
  if m < 0 then v *. ofInt (-1) else v
def dC (n m : Int) : α :=
  let v : α := half *. sqrt (ofInt ((n-m)*(n+m+1)))
  if m < 0 then v *. ofInt (-1) else v
def gC (n m : Int) : α := ofInt (2*(m+1)) /. sqrt (ofInt ((n-m)*(n+m+1)))
def hC (n m : Int) : α := sqrt (ofInt ((n+m+2)*(n-m-1)) /. ofInt ((n-m)*(n+m+1)))


def step1 (st : μ) : μ := wr st (.hw 0 0 0) (one : α)

/-- cell m of row n of the m'=0 column: in the wedge if n ≤ L, else in the extra row -/
def rowLoc (L n m : Nat) : Loc := if n ≤ L then .hw n 0 m else .hx m

def step2 (L : Nat) (c s : α) (st : μ) : μ :=
  if L = 0 then st else
  let sqrt3 : α := sqrt (ofInt 3)
  let invsqrt2 : α := one /. sqrt (ofInt 2)
  let st := wr st (.hw 1 0 1) sqrt3
  let st := wr st (.hw 1 0 0) ((gC 1 0 *. c) *. invsqrt2)
  -- n = 2 .. L+1
  let st := loopN L (fun k st =>
    let n := k + 2
    let nI : Int := n
    let T := rowLoc L n
    let const : α := sqrt ((ofInt 1 : α) +. (half /. ofInt nI))
    let st := wr st (T n) (const *. rd (α := α) st (.hw (n-1) 0 (n-1)))
    let st := wr st (T (n-1)) ((gC nI (nI-1) *. c) *. rd (α := α) st (T n))
    -- i = 2 .. n-1
    let st := loopN (n-2) (fun j st =>
      let i := j + 2
      let m : Int := nI - i
      wr st (T (n-i)) (((gC nI m *. c) *. rd (α := α) st (T (n-i+1))) -. ((hC nI m *. (s *. s)) *. rd (α := α) st (T (n-i+2))))) st
    let cn : α := one /. sqrt (ofInt (4*nI+2))
    let st := wr st (T 0) ((((gC nI 0 *. c) *. rd (α := α) st (T 1)) -. ((hC nI 0 *. (s *. s)) *. rd (α := α) st (T 2))) *. cn)
    -- normalisation of m = 1 .. n-1 with a running prefactor
    let (st, _) := loopN (n-1) (fun j (p : μ × α) =>
      let i := j + 1
      let pre := p.2 *. s
      (wr p.1 (T i) (rd (α := α) p.1 (T i) *. pre), pre)) (st, cn)
    if n ≤ L then
      let v : α := rd st (.hw n 0 1)
      wr (wr st (.hv n 1) v) (.hv n 0) v
    else st) st
  -- normalisation of the m = n cells
  let (st, pre) := loopN L (fun k (p : μ × α) =>
    let n := k + 1
    let pre := p.2 *. s
    (wr p.1 (.hw n 0 n) (rd (α := α) p.1 (.hw n 0 n) *. (pre /. sqrt (ofInt (4*(n:Int)+2)))), pre)) (st, (one : α))
  let pre := pre *. s
  let st := wr st (.hx (L+1)) (rd (α := α) st (.hx (L+1)) *. (pre /. sqrt (ofInt (4*((L:Int)+1)+2))))
  let v : α := rd st (.hw 1 0 1)
  wr (wr st (.hv 1 1) v) (.hv 1 0) v

def step3 (L P : Nat) (c s : α) (st : μ) : μ :=
  if L = 0 ∨ P = 0 then st else
  loopN L (fun k st =>
    let n := k + 1
    let nI : Int := n
    let src := fun (m : Nat) => rowLoc L (n+1) m
    let invb5 : α := one /. bC (nI+1) 0
    loopN n (fun i st =>
      let iI : Int := i
      let b6 : α := bC (nI+1) (-iI-2)
      let b7 : α := bC (nI+1) iI
      let a8 : α := aC nI (iI+1)
      wr st (.hw n 1 (i+1))
        (invb5 *. ((half *. (((b6 *. (one -. c)) *. rd (α := α) st (src (i+2))) -. ((b7 *. (one +. c)) *. rd (α := α) st (src i))))
                    -. ((a8 *. s) *. rd (α := α) st (src (i+1)))))) st) st

def step4 (L P : Nat) (st : μ) : μ :=
  if L = 0 ∨ P = 0 then st else
  loopN (L-1) (fun k st =>
    let n := k + 2
    let nI : Int := n
    loopN (min n P - 1) (fun j st =>
      let mp := j + 1          -- 1 .. min(n,P)-1
      let mpI : Int := mp
      let invd5 : α := one /. dC nI mpI
      let d6 : α := dC nI (mpI-1)
      -- i = 0 : sub-diagonal cell goes to hv
      let st := wr st (.hv n (mpI+1))
        (invd5 *. (((d6 *. rd (α := α) st (.hw n (mpI-1) mp)) -. (dC nI (mpI-1) *. rd (α := α) st (.hv n mpI))) +. (dC nI mpI *. rd (α := α) st (.hw n mpI (mp+1)))))
      -- i = 1 .. n-mp-1
      let st := loopN (n-mp-1) (fun t st =>
        let i := t + 1
        let d7 : α := dC nI (mpI-1+i)
        let d8 : α := dC nI (mpI+i)
        wr st (.hw n (mpI+1) (mp+i))
          (invd5 *. (((d6 *. rd (α := α) st (.hw n (mpI-1) (mp+i))) -. (d7 *. rd (α := α) st (.hw n mpI (mp+i-1)))) +. (d8 *. rd (α := α) st (.hw n mpI (mp+i+1)))))) st
      -- i = n-mp : m = n
      wr st (.hw n (mpI+1) n)
        (invd5 *. ((d6 *. rd (α := α) st (.hw n (mpI-1) n)) -. (dC nI (nI-1) *. rd (α := α) st (.hw n mpI (n-1)))))) st) st

def step5 (L P : Nat) (st : μ) : μ :=
  if L = 0 ∨ P = 0 then st else
  loopN (L+1) (fun n st =>
    let nI : Int := n
    loopN (min n P) (fun q st =>
      let mpI : Int := -(q : Int)     -- 0, -1, …, -min(n,P)+1 ; |mp| = q
      let invd5 : α := one /. dC nI (mpI-1)
      let d6 : α := dC nI mpI
      -- i = 0
      let d7 : α := dC nI (-mpI-1)
      let d8 : α := dC nI (-mpI)
      let st :=
        if q = 0 then
          wr st (.hv n (-1)) (invd5 *. (((d6 *. rd (α := α) st (.hv n 1)) +. (d7 *. rd (α := α) st (.hv n 0))) -. (d8 *. rd (α := α) st (.hw n 0 1))))
        else
          wr st (.hv n (mpI-1)) (invd5 *. (((d6 *. rd (α := α) st (.hw n (mpI+1) q)) +. (d7 *. rd (α := α) st (.hv n mpI))) -. (d8 *. rd (α := α) st (.hw n mpI (q+1)))))
      -- i = 1 .. n+mp-1 = n-q-1
      let st := loopN (n-q-1) (fun t st =>
        let i := t + 1
        let d7 : α := dC nI (-mpI-1+i)
        let d8 : α := dC nI (-mpI+i)
        wr st (.hw n (mpI-1) (q+i))
          (invd5 *. (((d6 *. rd (α := α) st (.hw n (mpI+1) (q+i))) +. (d7 *. rd (α := α) st (.hw n mpI (q+i-1)))) -. (d8 *. rd (α := α) st (.hw n mpI (q+i+1)))))) st
      -- i = n+mp : m = n
      wr st (.hw n (mpI-1) n)
        (invd5 *. ((d6 *. rd (α := α) st (.hw n (mpI+1) n)) +. (dC nI (nI-1) *. rd (α := α) st (.hw n mpI (n-1)))))) st) st

def runH (L P : Nat) (c s : α) (st : μ) : μ :=
  step5 (α := α) L P (step4 (α := α) L P (step3 L P c s (step2 L c s (step1 (α := α) st))))
end

end Model
