import SphericalVerif.Props.C02
import SphericalVerif.Props.HKernel
import SphericalVerif.Props.Routes
#print axioms C02.sYlm_low_exact_zero
#print axioms C02.sYlm_reads_in_narrow_wedge
#print axioms HKernel.runH_pure
#print axioms HKernel.runH_size_indep
#print axioms Routes.eps_eq_ite
#print axioms Routes.evaluateHorner_eq_sum
#print axioms Routes.evaluate_eq_sum_sYlm_init
#print axioms Routes.evaluate_eq_sum_sYlm
#print axioms Routes.rotateHorner_eq_sum
#print axioms Routes.rotateHorner_eq_matrix
#print axioms Routes.sYlm_eq_D_column'
#print axioms Routes.sYlm_eq_D_column
#print axioms Routes.sYlm_low_exact_zero
#print axioms Routes.wedgeRep_neg_neg
#print axioms Routes.eps_mul_eps_neg
#print axioms Routes.D_conj_symm'
#print axioms Routes.D_conj_symm
