# sourced by ./check and ./setup.sh (cwd = /verif)
# numba's on-disk cache is keyed on the file that DEFINES a jitted function only: a change in one file of /repo that is
# inlined into a kernel defined in another would be hidden by a stale cache.  Key the cache directory on the content of
# every source file of the package (and of the harness file that defines jitted helpers), and keep only the few most recent ones.
REPO="${SPHERICAL_REPO:-/repo}"
h=$( (find "$REPO/spherical" vlib/kern.py -name '*.py' -print0 | sort -z | xargs -0 sha1sum) | sha1sum | cut -c1-16)
base="${NUMBA_CACHE_BASE:-/root/.cache/spherical-verif-numba}"
export NUMBA_CACHE_DIR="$base/$h"
mkdir -p "$NUMBA_CACHE_DIR"; touch "$NUMBA_CACHE_DIR"
ls -1dt "$base"/*/ 2>/dev/null | tail -n +5 | xargs -r rm -rf
