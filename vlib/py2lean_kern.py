#!/venv/bin/python
"""Python-AST -> Lean 4 translator for the *array kernels* of moble/spherical (numba `@jit` functions that loop over flat
arrays).  Run on every check through vlib/py2lean.generate(); writes lean/SphericalVerif/Gen/HKern.lean.

Target embedding (see Model/FlatMem.lean): a kernel becomes a function  ... -> φ -> φ  on a flat memory `φ`
(`FMem φ α`: arrays named by Nat ids, cells by the Int index the Python text computes), generic over the arithmetic
`Scalar α` (run at Float by the driver and compared bit for bit with the numba kernel; reasoned about for every α).

Parameter kinds are inferred from use:
  arr  : subscripted and (stored to, or aliased by a local such as `H = Hwedge`)      -> (name : Nat)      array id
  tab  : subscripted, never stored to, never aliased (coefficient tables)             -> (name : Int → α)  pure function
  cx   : used through `.real` / `.imag`                                               -> (name : Cx α)
  int  : everything else                                                              -> (name : Int)

Statement subset: assignment / augmented assignment to locals and to array cells, `for v in range(a, b[, ±1])`,
`for v in [e1, ...]` (unrolled), `if/else` on integer conditions, calls to other translated kernels (statement form), `return`
of an array parameter (ignored: the function returns the memory).  Loops become `loopN cnt body`, carrying exactly the locals
that are assigned in the body and live at the loop head (proper backward liveness); everything else is a `let`.
Expression subset: integer expressions (delegated to py2lean.Tr, so they use the generated index functions), float
expressions built from + - * / unary -, `x**2`, np.sqrt / math.sqrt, abs, float literals that are integers or 0.5, the module
constants below, array reads; int operands of float operations are converted with `ofInt` where numba converts them.
Anything else raises TranslationError (reported by the runner as a broken obligation)."""
import ast
import os
import sys

sys.path.insert(0, os.path.dirname(os.path.abspath(__file__)))
import py2lean  # noqa: E402  (top-level module name, as vlib/runner.py imports it)
from py2lean import TranslationError, Tr, Ctx, find_function, lean_ident, nfkc, REPO  # noqa: E402

INT, FLT, ARR, TAB, CX, CARR, CTAB = "int", "float", "arr", "tab", "cx", "carr", "ctab"
LEAN_TY = {INT: "Int", FLT: "α", ARR: "Nat", TAB: "Int → α", CX: "Cx α", CARR: "Nat", CTAB: "Int → Cx α"}


class Rejoin(Exception):
    """a scalar local is assigned values of different numeric kinds: restart with the join"""

    def __init__(self, name, kind):
        self.name, self.kind = name, kind


class Retype(Exception):
    """an array turned out to hold complex numbers (a complex value is stored into it): restart with that knowledge"""

    def __init__(self, name):
        self.name = name


def names_loaded(e):
    return {lean_ident(n.id) for n in ast.walk(e) if isinstance(n, ast.Name)}


KERNELS = {}  # lean name -> Kernel, every kernel translated in this run (the method wiring of generate_methods looks callees up here)


class Kernel:
    def __init__(self, name, params, kinds):
        self.name, self.params, self.kinds = name, params, kinds  # params: [lean names], kinds: name -> kind


class KTr:
    """translator of one kernel"""

    def __init__(self, fns, kernels, consts, fd, self_attrs=False, complex_arrays=(), dims2=(), complex_scalars=()):
        self.fns, self.kernels, self.consts = fns, kernels, consts
        self.self_attrs = self_attrs
        self.complex_arrays = set(complex_arrays)
        self.dims2 = set(dims2)          # names of 2-d (C-contiguous) array parameters
        self.complex_scalars = set(complex_scalars)
        self.shape_params = []           # extra Int parameters  <arr>_shape<k>
        self.uses_cpowi = False          # the kernel uses complex ** int (library operation: a parameter `cpowi`)
        self.uses_imsqrt = False         # the kernel uses np.sqrt(complex).imag (library operation: a parameter `imsqrt`)
        self.uses_fuel = False           # the kernel has a `while` loop (translated with a fuel parameter)
        self.join_kinds = {}             # locals whose assignments have different kinds: the join (int < float < complex)
        self.fd = self.eliminate_views(fd)

    # ------------------------------------------------------------------ whole-column statements -> explicit row loops
    def devectorise(self, fd):
        """numpy statements that act on all rows at once — `A[:, j] = …`, `A[:, j] op= …`, `T[:] = …`, `T op= …` with `T` a 1-d
        scratch array made by `np.zeros(A.shape[:-1], …)` — are elementwise in the row index and never read another row, so
        each is the loop `for r in range(nrows): <the same statement for row r>` (`X[:, j]` -> `X[r, j]`, `T` -> `T[r]`).
        The scratch arrays become array parameters (zero-filled at the point of the `np.zeros` call)."""
        import copy
        rows_of = {}       # scratch name -> source array name
        outer = self
        ROW = "r__"

        def is_zeros(v):
            return isinstance(v, ast.Call) and ast.unparse(v.func) == "np.zeros" and v.args and ast.unparse(v.args[0]).endswith(".shape[:-1]")

        def colslice(t):
            return isinstance(t, ast.Subscript) and isinstance(t.slice, ast.Tuple) and len(t.slice.elts) == 2 \
                and isinstance(t.slice.elts[0], ast.Slice) and t.slice.elts[0].lower is None and t.slice.elts[0].upper is None

        def fullslice(t):
            return isinstance(t, ast.Subscript) and isinstance(t.slice, ast.Slice) and t.slice.lower is None and t.slice.upper is None \
                and isinstance(t.value, ast.Name) and t.value.id in rows_of

        class Row(ast.NodeTransformer):
            def visit_Subscript(s2, n):
                if colslice(n):
                    return ast.copy_location(ast.Subscript(value=n.value, slice=ast.Tuple(elts=[ast.Name(id=ROW, ctx=ast.Load()), s2.visit(n.slice.elts[1])], ctx=ast.Load()), ctx=n.ctx), n)
                if fullslice(n):
                    return ast.copy_location(ast.Subscript(value=n.value, slice=ast.Name(id=ROW, ctx=ast.Load()), ctx=n.ctx), n)
                return s2.generic_visit(n)

            def visit_Name(s2, n):
                if n.id in rows_of:
                    return ast.copy_location(ast.Subscript(value=ast.Name(id=n.id, ctx=ast.Load()), slice=ast.Name(id=ROW, ctx=ast.Load()), ctx=n.ctx), n)
                return n

        def nrows_name(arr):
            n = f"{arr}_shape0"
            if lean_ident(n) not in outer.shape_params:
                outer.shape_params.append(lean_ident(n))
            return n

        def rowloop(stmt, arr):
            return ast.For(target=ast.Name(id=ROW, ctx=ast.Store()),
                           iter=ast.Call(func=ast.Name(id="range", ctx=ast.Load()), args=[ast.Name(id=nrows_name(arr), ctx=ast.Load())], keywords=[]),
                           body=[stmt], orelse=[])

        def src_array(stmt):
            for n in ast.walk(stmt):
                if colslice(n) and isinstance(n.value, ast.Name):
                    return n.value.id
            for n in ast.walk(stmt):
                if isinstance(n, ast.Name) and n.id in rows_of:
                    return rows_of[n.id]
            return None

        def block(stmts):
            out = []
            for st in stmts:
                if isinstance(st, ast.Assign) and len(st.targets) == 1 and isinstance(st.targets[0], ast.Name) and is_zeros(st.value):
                    src = ast.unparse(st.value.args[0])[:-len(".shape[:-1]")]
                    t = st.targets[0].id
                    rows_of[t] = src
                    outer.scratch.append(lean_ident(t))
                    z = ast.Assign(targets=[ast.Subscript(value=ast.Name(id=t, ctx=ast.Load()), slice=ast.Name(id=ROW, ctx=ast.Load()), ctx=ast.Store())],
                                   value=ast.Constant(value=0.0))
                    out.append(rowloop(z, src))
                    continue
                if isinstance(st, (ast.Assign, ast.AugAssign)):
                    tgt = st.targets[0] if isinstance(st, ast.Assign) else st.target
                    if colslice(tgt) or fullslice(tgt) or (isinstance(tgt, ast.Name) and tgt.id in rows_of):
                        arr = src_array(st)
                        new = Row().visit(copy.deepcopy(st))
                        out.append(rowloop(new, arr))
                        continue
                if isinstance(st, ast.For):
                    st.body = block(st.body)
                elif isinstance(st, ast.If):
                    st.body = block(st.body)
                    st.orelse = block(st.orelse)
                out.append(st)
            return out
        self.scratch = []
        fd.body = block(fd.body)
        return ast.fix_missing_locations(fd)

    # ------------------------------------------------------------------ numpy views -> direct accesses
    def eliminate_views(self, fd):
        """`x = A[i]` (row of a 2-d array) and `f = B[i:i+1]` (one-element view) are numpy views: every later use of
        `x[e]`, `f[0]`, `f op= v` is rewritten to the access of A / B it denotes, and the defining statement dropped.
        `A.shape[k]` becomes the integer parameter `A_shape<k>`."""
        import copy
        fd = copy.deepcopy(fd)
        outer = self

        class Sh(ast.NodeTransformer):
            def visit_Attribute(s2, node):
                node = s2.generic_visit(node)
                if node.attr == "size" and isinstance(node.value, ast.Name):
                    n = f"{node.value.id}_size"
                    if lean_ident(n) not in outer.shape_params:
                        outer.shape_params.append(lean_ident(n))
                    return ast.copy_location(ast.Name(id=n, ctx=ast.Load()), node)
                return node

            def visit_Subscript(s2, node):
                node = s2.generic_visit(node)
                v = node.value
                if isinstance(v, ast.Attribute) and v.attr == "shape" and isinstance(v.value, ast.Name) \
                        and isinstance(node.slice, ast.Constant) and isinstance(node.slice.value, int):
                    n = f"{v.value.id}_shape{node.slice.value}"
                    if lean_ident(n) not in outer.shape_params:
                        outer.shape_params.append(lean_ident(n))
                    return ast.copy_location(ast.Name(id=n, ctx=ast.Load()), node)
                return node
        fd = Sh().visit(fd)
        fd = self.devectorise(fd)

        def rewrite_expr(node, al):
            class R(ast.NodeTransformer):
                def visit_Subscript(s2, n):
                    if isinstance(n.value, ast.Name) and n.value.id in al:
                        n.slice = s2.visit(n.slice)
                        kind, arr, idx = al[n.value.id]
                        if kind == "row":
                            return ast.copy_location(ast.Subscript(value=ast.Name(id=arr, ctx=ast.Load()),
                                                                   slice=ast.Tuple(elts=[copy.deepcopy(idx), n.slice], ctx=ast.Load()), ctx=n.ctx), n)
                        if kind == "elem":
                            if not (isinstance(n.slice, ast.Constant) and n.slice.value == 0):
                                raise TranslationError(f"one-element view {n.value.id} indexed with {ast.unparse(n.slice)}")
                            return ast.copy_location(ast.Subscript(value=ast.Name(id=arr, ctx=ast.Load()), slice=copy.deepcopy(idx), ctx=n.ctx), n)
                    return s2.generic_visit(n)

                def visit_Name(s2, n):
                    if n.id in al and isinstance(n.ctx, ast.Load):
                        raise TranslationError(f"view {n.id} used as a whole")
                    return n
            return R().visit(node)

        def block(stmts, al):
            out = []
            al = dict(al)
            for st in stmts:
                if isinstance(st, ast.Assign) and len(st.targets) == 1 and isinstance(st.targets[0], ast.Name) and isinstance(st.value, ast.Subscript) \
                        and isinstance(st.value.value, ast.Name):
                    arr, sl = st.value.value.id, st.value.slice
                    if lean_ident(arr) in outer.dims2 and not isinstance(sl, (ast.Tuple, ast.Slice)):
                        al[st.targets[0].id] = ("row", arr, sl)
                        continue
                    if isinstance(sl, ast.Slice) and sl.step is None and sl.lower is not None and sl.upper is not None \
                            and ast.unparse(sl.upper) == ast.unparse(ast.BinOp(left=sl.lower, op=ast.Add(), right=ast.Constant(value=1))):
                        al[st.targets[0].id] = ("elem", arr, sl.lower)
                        continue
                if isinstance(st, ast.AugAssign) and isinstance(st.target, ast.Name) and st.target.id in al and al[st.target.id][0] == "elem":
                    _, arr, idx = al[st.target.id]
                    tgt = ast.Subscript(value=ast.Name(id=arr, ctx=ast.Load()), slice=copy.deepcopy(idx), ctx=ast.Store())
                    out.append(ast.copy_location(ast.AugAssign(target=tgt, op=st.op, value=rewrite_expr(st.value, al)), st))
                    continue
                if isinstance(st, ast.For):
                    for nm, (_, _, idx) in al.items():
                        if isinstance(st.target, ast.Name) and st.target.id in {x.id for x in ast.walk(idx) if isinstance(x, ast.Name)}:
                            raise TranslationError(f"loop variable {st.target.id} rebinds the index of view {nm}")
                    st.iter = rewrite_expr(st.iter, al)
                    st.body = block(st.body, al)
                    out.append(st)
                    continue
                if isinstance(st, ast.If):
                    st.test = rewrite_expr(st.test, al)
                    st.body = block(st.body, al)
                    st.orelse = block(st.orelse, al)
                    out.append(st)
                    continue
                out.append(rewrite_expr(st, al))
            return out
        fd.body = block(fd.body, {})
        return ast.fix_missing_locations(fd)
        self.kinds = {}
        self.fresh = 0

    # ------------------------------------------------------------------ parameter kinds
    def attr_local(self, e):
        """`self._g` -> 'self__g'"""
        if isinstance(e, ast.Attribute) and isinstance(e.value, ast.Name) and e.value.id == "self" and self.self_attrs:
            return lean_ident("self_" + e.attr)
        return None

    def infer_params(self):
        fd = self.fd
        params = [lean_ident(a.arg) for a in fd.args.args if a.arg != "self"] + list(getattr(self, "scratch", []))
        sub, stored, aliased, cx = set(), set(), set(), set()
        alias_of = {}
        for n in ast.walk(fd):
            if isinstance(n, ast.Subscript) and isinstance(n.value, ast.Name):
                sub.add(lean_ident(n.value.id))
                if isinstance(n.ctx, ast.Store):
                    stored.add(lean_ident(n.value.id))
            if isinstance(n, ast.AugAssign) and isinstance(n.target, ast.Subscript) and isinstance(n.target.value, ast.Name):
                stored.add(lean_ident(n.target.value.id))
            if isinstance(n, ast.Attribute) and n.attr in ("real", "imag", "conjugate") and isinstance(n.value, ast.Name):
                cx.add(lean_ident(n.value.id))
            if isinstance(n, ast.Attribute) and n.attr in ("real", "imag", "conjugate") and isinstance(n.value, ast.Subscript) \
                    and isinstance(n.value.value, ast.Name):
                self.complex_arrays.add(lean_ident(n.value.value.id))
            if isinstance(n, ast.Assign) and len(n.targets) == 1 and isinstance(n.targets[0], ast.Name) and isinstance(n.value, ast.Name):
                alias_of.setdefault(lean_ident(n.targets[0].id), set()).add(lean_ident(n.value.id))
        # locals that are arrays: subscripted names that are not params; their sources are aliased arrays
        changed = True
        arrs = set(sub)
        while changed:
            changed = False
            for loc, srcs in alias_of.items():
                if loc in arrs:
                    for s in srcs:
                        aliased.add(s)
                        if s not in arrs:
                            arrs.add(s)
                            changed = True
        kinds = {}
        for p in self.shape_params:
            kinds[p] = INT
        for p in params:
            if p in cx or p in self.complex_scalars:
                kinds[p] = CX
            elif p in arrs and p in self.complex_arrays:
                kinds[p] = CARR if (p in stored or p in aliased) else CTAB
            elif p in arrs:
                kinds[p] = ARR if (p in stored or p in aliased) else TAB
            else:
                kinds[p] = INT
        kinds.update({p: k for p, k in getattr(self, "force_kinds", {}).items() if p in params})
        return params, kinds

    # ------------------------------------------------------------------ typing
    def int_tr(self):
        return Tr(Ctx(self.fns, None), {n: "int" for n, k in self.kinds.items() if k == INT})

    def typeof(self, e):
        if isinstance(e, ast.Constant):
            if isinstance(e.value, bool):
                raise TranslationError("bool constant in kernel expression")
            if isinstance(e.value, int):
                return INT
            if isinstance(e.value, float):
                return FLT
            if isinstance(e.value, complex):
                return CX
            raise TranslationError(f"constant {e.value!r}")
        if isinstance(e, ast.Name):
            n = lean_ident(e.id)
            if n in self.kinds:
                return self.kinds[n]
            if n in self.consts:
                return FLT
            raise TranslationError(f"unknown name {e.id} in {self.fd.name}")
        if isinstance(e, ast.Attribute):
            if e.attr == "imag" and isinstance(e.value, ast.Call) and ast.unparse(e.value.func) == "np.sqrt" and self.typeof(e.value.args[0]) == CX:
                return FLT      # np.sqrt(z).imag : library complex square root -> parameter `imsqrt`
            if e.attr in ("real", "imag") and self.typeof(e.value) == CX:
                return FLT
            a = self.attr_local(e)
            if a is not None and a in self.kinds:
                return self.kinds[a]
            raise TranslationError(f"attribute {ast.unparse(e)}")
        if isinstance(e, ast.Subscript):
            k = self.typeof(e.value)
            if k in (ARR, TAB):
                return FLT
            if k in (CARR, CTAB):
                return CX
            raise TranslationError(f"subscript of {k}")
        if isinstance(e, ast.UnaryOp) and isinstance(e.op, (ast.USub, ast.UAdd)):
            return self.typeof(e.operand)
        if isinstance(e, ast.BinOp):
            if isinstance(e.op, ast.Pow) and self.is_minus_one(e.left) and self.typeof(e.right) == INT:
                return INT   # (-1)**k : +-1 (Python gives a float for negative k; the value is the same after conversion)
            if isinstance(e.op, ast.Pow) and self.typeof(e.left) == CX and self.typeof(e.right) == INT:
                return CX
            a, b = self.typeof(e.left), self.typeof(e.right)
            if a not in (INT, FLT, CX) or b not in (INT, FLT, CX):
                raise TranslationError(f"arithmetic on {a}/{b}: {ast.unparse(e)}")
            if CX in (a, b):
                return CX
            if isinstance(e.op, ast.Div):
                return FLT
            return FLT if FLT in (a, b) else INT
        if isinstance(e, ast.IfExp):
            ks = {self.typeof(e.body), self.typeof(e.orelse)}
            if ks <= {INT, FLT} and FLT in ks:
                return FLT
            if ks == {INT}:
                return INT
            raise TranslationError(f"conditional expression {ast.unparse(e)}")
        if isinstance(e, ast.Call):
            f = ast.unparse(e.func)
            if isinstance(e.func, ast.Attribute) and e.func.attr == "conjugate" and not e.args:
                if self.typeof(e.func.value) != CX:
                    raise TranslationError(f"conjugate of a non-complex: {ast.unparse(e)}")
                return CX
            if f in ("np.sqrt", "math.sqrt") or (f == "sqrt" and getattr(self, "bare_sqrt", False)):
                if self.typeof(e.args[0]) == CX:
                    raise TranslationError("complex square root")
                return FLT
            if f in ("min", "max", "abs"):
                ks = {self.typeof(a) for a in e.args}
                if ks == {INT}:
                    return INT
                if f == "abs" and ks == {FLT}:
                    return FLT
                raise TranslationError(f"{f} on mixed/float arguments")
            if isinstance(e.func, ast.Name) and e.func.id in getattr(self, "float_fns", {}):
                return FLT
            if isinstance(e.func, ast.Name) and nfkc(e.func.id) in self.fns:
                return INT
            if f == "int":
                return INT
            raise TranslationError(f"call {ast.unparse(e)}")
        raise TranslationError(f"expression {ast.unparse(e)}")

    # ------------------------------------------------------------------ expressions
    @staticmethod
    def is_minus_one(e):
        return (isinstance(e, ast.UnaryOp) and isinstance(e.op, ast.USub) and isinstance(e.operand, ast.Constant) and e.operand.value == 1) \
            or (isinstance(e, ast.Constant) and e.value == -1)

    def _pw(self, e):
        """(-1)**k with a variable exponent: rewritten to a call that the wrapped integer translator renders as `(-1)^|k|`"""
        class Pw(ast.NodeTransformer):
            def visit_BinOp(s2, node):
                node = s2.generic_visit(node)
                if isinstance(node.op, ast.Pow) and KTr.is_minus_one(node.left) and not isinstance(node.right, ast.Constant):
                    return ast.Call(func=ast.Name(id="__minus_one_pow__", ctx=ast.Load()), args=[node.right], keywords=[])
                return node
        import copy
        e2 = Pw().visit(copy.deepcopy(e))
        tr = self.int_tr()
        orig = tr.expr

        def expr(x):
            if isinstance(x, ast.Call) and isinstance(x.func, ast.Name) and x.func.id == "__minus_one_pow__":
                return f"((-1 : Int) ^ (Int.natAbs {expr(x.args[0])}))"
            return orig(x)
        tr.expr = expr
        return tr, e2

    def iexpr(self, e):
        tr, e2 = self._pw(e)
        return tr.expr(e2)

    def flit(self, v):
        import math as _m
        if v == 0 and _m.copysign(1.0, v) < 0:
            return "(Scalar.neg (Scalar.ofInt (0 : Int) : α))"      # the literal -0.0 (e.g. the real part of `-1j`)
        if v == int(v) and abs(v) < 2 ** 53:
            return f"(Scalar.ofInt ({int(v)} : Int) : α)"
        if v == 0.5:
            return "(Scalar.half : α)"
        from fractions import Fraction
        fr = Fraction(repr(v))
        if abs(fr.numerator) < 2 ** 53 and fr.denominator < 2 ** 53 and float(fr.numerator) / float(fr.denominator) == v:
            # the decimal literal is the correctly rounded quotient of two exactly representable integers (IEEE division is correctly rounded)
            return f"((Scalar.ofInt ({fr.numerator} : Int) : α) /. (Scalar.ofInt ({fr.denominator} : Int) : α))"
        raise TranslationError(f"float literal {v!r}")

    @staticmethod
    def const_value(e):
        """value of an expression made of numeric literals only (the compiler folds it), else None"""
        if isinstance(e, ast.Constant) and isinstance(e.value, (int, float, complex)) and not isinstance(e.value, bool):
            return e.value
        if isinstance(e, ast.UnaryOp) and isinstance(e.op, ast.USub):
            v = KTr.const_value(e.operand)
            return None if v is None else -v
        if isinstance(e, ast.BinOp) and isinstance(e.op, (ast.Add, ast.Sub, ast.Mult)):
            a, b = KTr.const_value(e.left), KTr.const_value(e.right)
            if a is None or b is None:
                return None
            return a + b if isinstance(e.op, ast.Add) else (a - b if isinstance(e.op, ast.Sub) else a * b)
        return None

    def cexpr(self, e):
        """complex-valued Lean term of type `Cx α`, with numba's promotion of the real operand at each operation"""
        cv = self.const_value(e)
        if isinstance(cv, complex):
            return f"(Cx.mk {self.flit(cv.real)} {self.flit(cv.imag)})"
        k = self.typeof(e)
        if k == INT:
            return f"(Cx.ofRe (Scalar.ofInt {self.iexpr(e)} : α))"
        if k == FLT:
            return f"(Cx.ofRe {self.fexpr(e)})"
        if k != CX:
            raise TranslationError(f"{ast.unparse(e)} used as a complex number")
        if isinstance(e, ast.Name):
            return lean_ident(e.id)
        if isinstance(e, ast.Subscript):
            a = lean_ident(e.value.id)
            if self.kinds.get(a) == CTAB:
                return f"({a} {self.index(e)})"
            return f"(frdC (α := α) st {a} {self.index(e)})"
        if isinstance(e, ast.Call) and isinstance(e.func, ast.Attribute) and e.func.attr == "conjugate":
            return f"(Cx.conj {self.cexpr(e.func.value)})"
        if isinstance(e, ast.UnaryOp) and isinstance(e.op, ast.UAdd):
            return self.cexpr(e.operand)
        if isinstance(e, ast.UnaryOp) and isinstance(e.op, ast.USub):
            return f"(Cx.neg {self.cexpr(e.operand)})"
        if isinstance(e, ast.BinOp) and isinstance(e.op, ast.Pow):
            self.uses_cpowi = True
            return f"(cpowi {self.cexpr(e.left)} {self.iexpr(e.right)})"
        if isinstance(e, ast.BinOp):
            a, b = self.typeof(e.left), self.typeof(e.right)
            if isinstance(e.op, ast.Mult):
                if a == FLT and b == CX:
                    return f"(Cx.rmul {self.fexpr(e.left)} {self.cexpr(e.right)})"
                if a == CX and b == FLT:
                    return f"(Cx.mulr {self.cexpr(e.left)} {self.fexpr(e.right)})"
                return f"(Cx.mul {self.cexpr(e.left)} {self.cexpr(e.right)})"
            op = {ast.Add: "Cx.add", ast.Sub: "Cx.sub", ast.Div: "Cx.div"}.get(type(e.op))
            if op is None:
                raise TranslationError(f"complex operator {type(e.op).__name__}")
            return f"({op} {self.cexpr(e.left)} {self.cexpr(e.right)})"
        raise TranslationError(f"complex expression {ast.unparse(e)}")

    def icond(self, e):
        for n in ast.walk(e):
            if isinstance(n, ast.Compare):
                for x in [n.left] + n.comparators:
                    if self.typeof(x) != INT:
                        raise TranslationError(f"non-integer condition {ast.unparse(e)}")
        tr, e2 = self._pw(e)
        return tr.cond(e2)

    def bcond(self, e):
        """Bool-valued Lean term for a condition that compares floats (numba's comparisons: false on NaN)"""
        if isinstance(e, ast.BoolOp):
            op = " && " if isinstance(e.op, ast.And) else " || "
            return "(" + op.join(self.bcond(v) for v in e.values) + ")"
        if isinstance(e, ast.UnaryOp) and isinstance(e.op, ast.Not):
            return f"(!{self.bcond(e.operand)})"
        if isinstance(e, ast.Compare) and len(e.ops) == 1:
            a, b = e.left, e.comparators[0]
            if self.typeof(a) == INT and self.typeof(b) == INT:
                return f"(decide {self.icond(e)})"
            fa, fb = self.fexpr(a), self.fexpr(b)
            op = e.ops[0]
            if isinstance(op, ast.Lt):
                return f"(Scalar.lt {fa} {fb})"
            if isinstance(op, ast.Gt):
                return f"(Scalar.lt {fb} {fa})"
            if isinstance(op, ast.LtE):
                return f"(Scalar.le {fa} {fb})"
            if isinstance(op, ast.GtE):
                return f"(Scalar.le {fb} {fa})"
            if isinstance(op, ast.Eq):
                return f"(Scalar.beq {fa} {fb})"
            if isinstance(op, ast.NotEq):
                return f"(!(Scalar.beq {fa} {fb}))"
        raise TranslationError(f"condition {ast.unparse(e)}")

    def fexpr(self, e):
        """float-valued Lean term of type α"""
        k = self.typeof(e)
        if k == INT:
            return f"(Scalar.ofInt {self.iexpr(e)} : α)"
        if k != FLT:
            raise TranslationError(f"{ast.unparse(e)} used as a float")
        if isinstance(e, ast.Constant):
            return self.flit(e.value)
        if isinstance(e, ast.Name):
            n = lean_ident(e.id)
            if n in self.kinds:
                return n
            if n == "inverse_4pi":
                return "(Scalar.inv4pi : α)"
            return f"({n} (α := α))"
        if isinstance(e, ast.Attribute):
            if e.attr == "imag" and isinstance(e.value, ast.Call) and ast.unparse(e.value.func) == "np.sqrt":
                self.uses_imsqrt = True
                return f"(imsqrt {self.cexpr(e.value.args[0])})"
            return f"{self.cexpr(e.value)}.{'re' if e.attr == 'real' else 'im'}"
        if isinstance(e, ast.Subscript):
            return self.read(e)
        if isinstance(e, ast.UnaryOp):
            if isinstance(e.op, ast.UAdd):
                return self.fexpr(e.operand)
            return f"(Scalar.neg {self.fexpr(e.operand)})"
        if isinstance(e, ast.BinOp):
            if isinstance(e.op, ast.Pow):
                if not (isinstance(e.right, ast.Constant) and e.right.value == 2 and isinstance(e.right.value, int)):
                    raise TranslationError(f"float power other than **2: {ast.unparse(e)}")
                a = self.fexpr(e.left)
                return f"({a} *. {a})"
            op = {ast.Add: "+.", ast.Sub: "-.", ast.Mult: "*.", ast.Div: "/."}.get(type(e.op))
            if op is None:
                raise TranslationError(f"float operator {type(e.op).__name__}")
            return f"({self.fexpr(e.left)} {op} {self.fexpr(e.right)})"
        if isinstance(e, ast.IfExp):
            return f"(if {self.bcond(e.test)} then {self.fexpr(e.body)} else {self.fexpr(e.orelse)})"
        if isinstance(e, ast.Call):
            f = ast.unparse(e.func)
            if (f in ("np.sqrt", "math.sqrt") or (f == "sqrt" and getattr(self, "bare_sqrt", False))) and len(e.args) == 1:
                return f"(Scalar.sqrt {self.fexpr(e.args[0])})"
            if f == "abs":
                return f"(Scalar.abs {self.fexpr(e.args[0])})"
            if isinstance(e.func, ast.Name) and e.func.id in getattr(self, "float_fns", {}) and not e.keywords:
                for a in e.args:
                    if self.typeof(a) != INT:
                        raise TranslationError(f"non-integer argument in {ast.unparse(e)}")
                return f"({self.float_fns[e.func.id]} (α := α) {' '.join(self.iexpr(a) for a in e.args)})"
        raise TranslationError(f"float expression {ast.unparse(e)}")

    def index(self, sub):
        idx = sub.slice
        if isinstance(idx, ast.Tuple):
            a = lean_ident(sub.value.id)
            if a not in self.dims2 or len(idx.elts) != 2:
                raise TranslationError(f"multi-index {ast.unparse(sub)}")
            for e in idx.elts:
                if self.typeof(e) != INT:
                    raise TranslationError(f"non-integer index {ast.unparse(sub)}")
            nc = f"{a}_shape1"
            if nc not in self.shape_params:
                self.shape_params.append(nc)
                self.kinds[nc] = INT
            return f"(({self.iexpr(idx.elts[0])}) * {nc} + ({self.iexpr(idx.elts[1])}))"
        if lean_ident(sub.value.id) in self.dims2:
            raise TranslationError(f"2-d array indexed with one index: {ast.unparse(sub)}")
        if self.typeof(idx) != INT:
            raise TranslationError(f"non-integer index {ast.unparse(sub)}")
        return self.iexpr(idx)

    def read(self, sub):
        if not isinstance(sub.value, ast.Name):
            raise TranslationError(f"subscript base {ast.unparse(sub)}")
        a = lean_ident(sub.value.id)
        k = self.kinds.get(a)
        if k == TAB:
            return f"({a} {self.index(sub)})"
        if k == ARR:
            return f"(frd (α := α) st {a} {self.index(sub)})"
        raise TranslationError(f"read of non-array {a}")

    # ------------------------------------------------------------------ liveness
    def writes_mem(self, stmts):
        for s in stmts:
            for n in ast.walk(s):
                if isinstance(n, ast.Subscript) and isinstance(n.ctx, ast.Store):
                    return True
                if isinstance(n, ast.AugAssign) and isinstance(n.target, ast.Subscript):
                    return True
                if isinstance(n, ast.Expr) and isinstance(n.value, ast.Call):
                    return True
        return False

    def assigned(self, stmts):
        out = []
        for s in stmts:
            for n in ast.walk(s):
                t = None
                if isinstance(n, ast.Assign) and isinstance(n.targets[0], ast.Name):
                    t = n.targets[0].id
                elif isinstance(n, ast.AugAssign) and isinstance(n.target, ast.Name):
                    t = n.target.id
                elif isinstance(n, ast.For) and isinstance(n.target, ast.Name):
                    t = n.target.id
                if t is not None and lean_ident(t) not in out:
                    out.append(lean_ident(t))
        return out

    def live_in(self, stmts, out):
        live = set(out)
        for s in reversed(stmts):
            live = self.live_stmt(s, live)
        return live

    def live_stmt(self, s, out):
        if isinstance(s, ast.Expr):
            return out | names_loaded(s.value)
        if isinstance(s, ast.Pass):
            return out
        if isinstance(s, ast.Return):
            return set()
        if isinstance(s, ast.Assign):
            t = s.targets[0]
            if isinstance(t, ast.Name):
                return (out - {lean_ident(t.id)}) | names_loaded(s.value)
            return out | names_loaded(t) | names_loaded(s.value)
        if isinstance(s, ast.AugAssign):
            return out | names_loaded(s.target) | names_loaded(s.value)
        if isinstance(s, ast.If):
            return names_loaded(s.test) | self.live_in(s.body, out) | self.live_in(s.orelse, out)
        if isinstance(s, ast.While):
            head = set(out) | names_loaded(s.test)
            while True:
                new = head | self.live_in(s.body, head)
                if new == head:
                    break
                head = new
            return head
        if isinstance(s, ast.For):
            v = lean_ident(s.target.id)
            if isinstance(s.iter, ast.List):
                live = set(out)
                for el in reversed(s.iter.elts):
                    live = (self.live_in(s.body, live) - {v}) | names_loaded(el)
                return live
            head = set(out)
            while True:
                new = head | (self.live_in(s.body, head) - {v})
                if new == head:
                    break
                head = new
            return head | names_loaded(s.iter)
        raise TranslationError(f"statement {type(s).__name__}")

    # ------------------------------------------------------------------ statements
    def tuple_of(self, outs):
        return outs[0] if len(outs) == 1 else "(" + ", ".join(outs) + ")"

    def tuple_ty(self, outs):
        tys = ["φ" if o == "st" else LEAN_TY[self.kinds[o]] for o in outs]
        return " × ".join(tys)

    def unpack(self, var, outs, pad):
        if len(outs) == 1:
            return []
        lines = []
        for i, o in enumerate(outs):
            proj = ".2" * i + (".1" if i < len(outs) - 1 else "")
            ty = "φ" if o == "st" else LEAN_TY[self.kinds[o]]
            lines.append(f"{pad}let {o} : {ty} := {var}{proj}")
        return lines

    def block(self, stmts, outs, ind, live_out):
        """lines of a let-chain that ends with the tuple of `outs`"""
        pad = "  " * ind
        lines = []
        for i, s in enumerate(stmts):
            after = self.live_in(stmts[i + 1:], live_out)
            lines += self.stmt(s, ind, after)
        lines.append(pad + self.tuple_of(outs))
        return lines

    def set_kind(self, n, k):
        old = self.kinds.get(n)
        if n in self.join_kinds:
            k = self.join_kinds[n]
        if old is not None and old != k:
            order = [INT, FLT, CX]
            if old in order and k in order:
                # numba gives the variable the join of the kinds of all its assignments: restart with that knowledge
                raise Rejoin(n, order[max(order.index(old), order.index(k))])
            raise TranslationError(f"local {n} changes kind {old} -> {k} in {self.fd.name}")
        self.kinds[n] = k

    def stmt(self, s, ind, live_after):
        pad = "  " * ind
        if isinstance(s, ast.Expr) and isinstance(s.value, ast.Constant) and isinstance(s.value.value, str):
            return []
        if isinstance(s, ast.Pass):
            return []
        if isinstance(s, ast.Return):
            if s.value is None or (isinstance(s.value, ast.Name) and self.kinds.get(lean_ident(s.value.id)) == ARR):
                return []
            raise TranslationError(f"return {ast.unparse(s.value)}")
        if isinstance(s, ast.Assign):
            if len(s.targets) != 1:
                raise TranslationError("multiple assignment targets")
            t = s.targets[0]
            if isinstance(t, ast.Name):
                n = lean_ident(t.id)
                k = self.typeof(s.value)
                if n in self.join_kinds and k in (INT, FLT, CX):
                    k = self.join_kinds[n]
                if k == ARR:
                    v = lean_ident(s.value.id)
                elif k == INT:
                    v = self.iexpr(s.value)
                elif k == FLT:
                    v = self.fexpr(s.value)
                elif k == CX:
                    v = self.cexpr(s.value)     # (a real or integer value assigned to a complex variable is promoted)
                else:
                    raise TranslationError(f"assignment of a {k}: {ast.unparse(s)}")
                self.set_kind(n, k)
                return [f"{pad}let {n} : {LEAN_TY[k]} := {v}"]
            if isinstance(t, ast.Subscript) and isinstance(t.value, ast.Name):
                a = lean_ident(t.value.id)
                ak = self.kinds.get(a)
                if ak not in (ARR, CARR):
                    raise TranslationError(f"store into non-array {a}")
                vk = self.typeof(s.value)
                if ak == ARR and vk == CX:
                    raise Retype(a)
                if isinstance(t.slice, ast.Slice):
                    sl = t.slice
                    if sl.step is not None:
                        raise TranslationError("slice step")
                    lo = "(0 : Int)" if sl.lower is None else self.iexpr(sl.lower)
                    if sl.upper is None:
                        raise TranslationError("open-ended slice store")
                    hi = self.iexpr(sl.upper)
                    self.fresh += 1
                    kv = f"k{self.fresh}"
                    val = self.cexpr(s.value) if ak == CARR else self.fexpr(s.value)
                    wr = "fwrC" if ak == CARR else "fwr"
                    return [f"{pad}let st : φ := loopN (({hi}) - ({lo})).toNat (fun {kv} (st : φ) => {wr} (α := α) st {a} ({lo} + ({kv} : Int)) {val}) st"]
                if ak == CARR:
                    return [f"{pad}let st : φ := fwrC (α := α) st {a} {self.index(t)} {self.cexpr(s.value)}"]
                return [f"{pad}let st : φ := fwr (α := α) st {a} {self.index(t)} {self.fexpr(s.value)}"]
            raise TranslationError(f"assignment target {ast.unparse(t)}")
        if isinstance(s, ast.AugAssign):
            load = ast.Subscript(value=s.target.value, slice=s.target.slice, ctx=ast.Load()) if isinstance(s.target, ast.Subscript) \
                else ast.Name(id=s.target.id, ctx=ast.Load())
            return self.stmt(ast.Assign(targets=[s.target], value=ast.BinOp(left=load, op=s.op, right=s.value)), ind, live_after)
        if isinstance(s, ast.Expr) and isinstance(s.value, ast.Call):
            return self.kernel_call(s.value, ind)
        if isinstance(s, ast.If):
            mem = self.writes_mem(s.body) or self.writes_mem(s.orelse)
            asg = [v for v in self.assigned(s.body + s.orelse) if v in live_after]
            outs = (["st"] if mem else []) + asg
            if not outs:
                return []
            try:
                cnd = self.icond(s.test)
            except TranslationError:
                cnd = f"({self.bcond(s.test)} = true)"      # a condition on floats: numba's comparison (false on NaN)
            k0 = dict(self.kinds)
            a = self.block(s.body, outs, ind + 2, live_after)
            ka = dict(self.kinds)
            self.kinds = dict(k0)
            b = self.block(s.orelse, outs, ind + 2, live_after)
            kb = dict(self.kinds)
            for v in asg:
                if ka.get(v) is None or kb.get(v) is None or ka[v] != kb[v]:
                    raise TranslationError(f"{v} is not assigned a value of one kind on both paths of `if {ast.unparse(s.test)}`")
            self.kinds = {**k0, **{v: ka[v] for v in asg}}
            self.fresh += 1
            q = f"q{self.fresh}"
            lines = [f"{pad}let {q} : {self.tuple_ty(outs)} := (if {cnd} then ("] + a[:-1] + [a[-1] + ")"] + [f"{pad}  else ("] + b[:-1] + [b[-1] + "))"]
            if len(outs) == 1:
                ty = "φ" if outs[0] == "st" else LEAN_TY[self.kinds[outs[0]]]
                lines.append(f"{pad}let {outs[0]} : {ty} := {q}")
            else:
                lines += self.unpack(q, outs, pad)
            return lines
        if isinstance(s, ast.While):
            if s.orelse:
                raise TranslationError("while-else")
            head = set(live_after) | names_loaded(s.test)
            while True:
                new = head | self.live_in(s.body, head)
                if new == head:
                    break
                head = new
            mem = self.writes_mem(s.body)
            carried = [x for x in self.assigned(s.body) if x in head]
            for x in carried:
                if x not in self.kinds:
                    raise TranslationError(f"{x} is carried by a while loop but not defined before it")
            outs = (["st"] if mem else []) + carried
            if not outs:
                raise TranslationError("while loop without effect")
            self.uses_fuel = True
            self.fresh += 1
            pv = f"p{self.fresh}"
            ty = self.tuple_ty(outs)
            k0 = dict(self.kinds)
            cond = self.bcond(s.test)
            body = self.block(s.body, outs, ind + 2, head)
            self.kinds = k0
            un_in = self.unpack(pv, outs, pad + "    ") if len(outs) > 1 else [f"{pad}    let {outs[0]} : {ty} := {pv}"]
            lines = [f"{pad}let {pv} : {ty} := loopWhile fuel (fun ({pv} : {ty}) =>"] + un_in + [f"{pad}    {cond}) (fun ({pv} : {ty}) =>"] + un_in \
                + body[:-1] + [body[-1] + f") {self.tuple_of(outs)}"]
            if len(outs) == 1:
                lines.append(f"{pad}let {outs[0]} : {ty} := {pv}")
            else:
                lines += self.unpack(pv, outs, pad)
            return lines
        if isinstance(s, ast.For):
            if s.orelse or not isinstance(s.target, ast.Name):
                raise TranslationError("for-else / tuple target")
            v = lean_ident(s.target.id)
            if isinstance(s.iter, ast.List):
                lines = []
                for j, el in enumerate(s.iter.elts):
                    if self.typeof(el) != INT:
                        raise TranslationError("non-integer list element in for")
                    lines.append(f"{pad}let {v} : Int := {self.iexpr(el)}")
                    self.set_kind(v, INT)
                    rest_live = live_after
                    for k_ in range(len(s.iter.elts) - 1, j, -1):
                        rest_live = (self.live_in(s.body, rest_live) - {v}) | names_loaded(s.iter.elts[k_])
                    for i, b in enumerate(s.body):
                        lines += self.stmt(b, ind, self.live_in(s.body[i + 1:], rest_live))
                return lines
            if not (isinstance(s.iter, ast.Call) and isinstance(s.iter.func, ast.Name) and s.iter.func.id == "range"):
                raise TranslationError(f"for over {ast.unparse(s.iter)}")
            args = s.iter.args
            for a in args:
                if self.typeof(a) != INT:
                    raise TranslationError("non-integer range argument")
            if len(args) == 1:
                lo, hi, step = "(0 : Int)", self.iexpr(args[0]), 1
            elif len(args) == 2:
                lo, hi, step = self.iexpr(args[0]), self.iexpr(args[1]), 1
            else:
                st_ = args[2]
                if isinstance(st_, ast.UnaryOp) and isinstance(st_.op, ast.USub) and isinstance(st_.operand, ast.Constant) and st_.operand.value == 1:
                    step = -1
                elif isinstance(st_, ast.Constant) and st_.value == 1:
                    step = 1
                else:
                    raise TranslationError(f"range step {ast.unparse(st_)}")
                lo, hi = self.iexpr(args[0]), self.iexpr(args[1])
            head = set(live_after)
            while True:
                new = head | (self.live_in(s.body, head) - {v})
                if new == head:
                    break
                head = new
            clash = set(self.assigned(s.body)) & set().union(*[names_loaded(a) for a in args])
            if clash:
                raise TranslationError(f"range bounds of the loop over {v} mention {sorted(clash)}, assigned in its body")
            mem = self.writes_mem(s.body)
            carried = [x for x in self.assigned(s.body) if x in head and x != v]
            for x in carried:
                if x not in self.kinds:
                    raise TranslationError(f"{x} is carried by the loop over {v} but not defined before it")
            outs = (["st"] if mem else []) + carried
            if not outs:
                return []
            cnt = f"(({hi}) - ({lo})).toNat" if step == 1 else f"(({lo}) - ({hi})).toNat"
            self.fresh += 1
            kv, pv = f"k{self.fresh}", f"p{self.fresh}"
            k0 = dict(self.kinds)
            self.set_kind(v, INT)
            var_line = f"{pad}    let {v} : Int := {lo} {'+' if step == 1 else '-'} ({kv} : Int)"
            body = self.block(s.body, outs, ind + 2, head)
            for x in carried:
                if self.kinds.get(x) != k0.get(x):
                    raise TranslationError(f"loop-carried {x} changes kind")
            self.kinds = k0
            if len(outs) == 1:
                ty = "φ" if outs[0] == "st" else LEAN_TY[self.kinds[outs[0]]]
                lines = [f"{pad}let {outs[0]} : {ty} := loopN {cnt} (fun {kv} ({outs[0]} : {ty}) =>", var_line] + body[:-1] + [body[-1] + f") {outs[0]}"]
            else:
                lines = [f"{pad}let {pv} : {self.tuple_ty(outs)} := loopN {cnt} (fun {kv} ({pv} : {self.tuple_ty(outs)}) =>"]
                lines += self.unpack(pv, outs, pad + "    ")
                lines += [var_line] + body[:-1] + [body[-1] + f") {self.tuple_of(outs)}"]
                lines += self.unpack(pv, outs, pad)
            return lines
        raise TranslationError(f"statement {type(s).__name__}: {ast.unparse(s)[:80]}")

    def kernel_call(self, c, ind):
        pad = "  " * ind
        if not (isinstance(c.func, ast.Name) and lean_ident(c.func.id) in self.kernels) or c.keywords:
            raise TranslationError(f"call statement {ast.unparse(c)}")
        k = self.kernels[lean_ident(c.func.id)]
        if len(c.args) != len(k.params):
            raise TranslationError(f"arity of {ast.unparse(c)}")
        args = []
        for p, a in zip(k.params, c.args):
            want = k.kinds[p]
            loc = self.attr_local(a)
            if loc is not None:
                self.set_kind(loc, want)
                self.attr_params.append(loc) if loc not in self.attr_params else None
                args.append(loc)
                continue
            if want == INT:
                if self.typeof(a) != INT:
                    raise TranslationError(f"argument {ast.unparse(a)} of {k.name} is not an integer")
                args.append(self.iexpr(a))
            else:
                if not isinstance(a, ast.Name):
                    raise TranslationError(f"argument {ast.unparse(a)} of {k.name}")
                n = lean_ident(a.id)
                have = self.kinds.get(n)
                if have is None and n in self.undetermined:
                    self.set_kind(n, want)
                    self.undetermined.discard(n)
                elif have != want:
                    raise TranslationError(f"argument {n} of {k.name}: kind {have}, expected {want}")
                args.append(n)
        return [f"{pad}let st : φ := {lean_ident(k.name)} (α := α) {' '.join(args)} st"]

    # ------------------------------------------------------------------ whole function
    def translate(self, lean_name=None):
        while True:
            try:
                return self.translate_once(lean_name)
            except Retype as r:
                if r.name in self.complex_arrays:
                    raise TranslationError(f"array {r.name}: inconsistent element kind")
                self.complex_arrays.add(r.name)
            except Rejoin as r:
                if self.join_kinds.get(r.name) == r.kind:
                    raise TranslationError(f"local {r.name}: kinds do not stabilise")
                self.join_kinds[r.name] = r.kind

    def translate_once(self, lean_name=None):
        fd = self.fd
        self.fresh = 0
        params, kinds = self.infer_params()
        self.kinds = dict(kinds)
        self.attr_params = []
        self.undetermined = set()
        if self.self_attrs:
            # a driver method (Wigner.H): parameter kinds come from the callees
            self.undetermined = set(params)
            self.kinds = {}
        lines = self.block(fd.body, ["st"], 1, set())
        allp = list(self.attr_params) + params + list(self.shape_params)
        for p in self.shape_params:
            self.kinds[p] = INT
        for p in allp:
            if p not in self.kinds:
                raise TranslationError(f"kind of parameter {p} of {fd.name} undetermined")
        name = lean_ident(lean_name or fd.name)
        ps = " ".join(f"({p} : {LEAN_TY[self.kinds[p]]})" for p in allp)
        if self.uses_cpowi:
            ps += " (cpowi : Cx α → Int → Cx α)"
        if self.uses_imsqrt:
            ps += " (imsqrt : Cx α → α)"
        if self.uses_fuel:
            ps += " (fuel : Nat)"
        src = ast.get_source_segment(self.src_text, fd) if getattr(self, "src_text", None) else None
        text = f"def {name} {ps} (st : φ) : φ :=\n" + "\n".join(lines) + "\n"
        k = Kernel(nfkc(fd.name) if lean_name is None else lean_name, allp, {p: self.kinds[p] for p in allp})
        k.lean = name
        k.pyparams = [lean_ident(a.arg) for a in fd.args.args if a.arg != "self"]
        k.attr_params = list(self.attr_params)
        k.shape_params = list(self.shape_params)
        k.scratch = list(getattr(self, "scratch", []))
        k.extra = ([("cpowi", "Cx α → Int → Cx α")] if self.uses_cpowi else []) + ([("imsqrt", "Cx α → α")] if self.uses_imsqrt else []) \
            + ([("fuel", "Nat")] if self.uses_fuel else [])
        rets = [r.value for r in ast.walk(fd) if isinstance(r, ast.Return) and r.value is not None]
        k.returns = [lean_ident(r.id) if isinstance(r, ast.Name) else None for r in rets]
        KERNELS[k.lean] = k
        return k, text


HEADER = """import SphericalVerif.Gen.Indexing
import SphericalVerif.Model.FlatMem
/-! GENERATED by vlib/py2lean_kern.py from {src} -- do not edit.  Regenerated on every check.

    The numba kernels of the H recursion as functions on a flat memory (`FMem φ α`), generic over the arithmetic
    (`Scalar α`): same statements, same loop ranges, same flat index expressions, same operation order as the Python text.
    `Props/GenH.lean` proves that they compute, cell by cell, what the coordinate-level model `Model.runH` computes
    (hence everything proved about that model), and the driver runs them at `Float` against the compiled kernels. -/
set_option linter.unusedVariables false
namespace Gen
section
open Scalar
variable {{α : Type}} [Scalar α] {{φ : Type}} [FMem φ α]
"""


def module_constants(tree, names):
    """module-level float constants  NAME = <float expression of literals and np.sqrt>"""
    out = {}
    for n in tree.body:
        if isinstance(n, ast.Assign) and len(n.targets) == 1 and isinstance(n.targets[0], ast.Name) and n.targets[0].id in names:
            out[lean_ident(n.targets[0].id)] = n.value
    return out


def generate_hkern(fns, gen_dir, write_if_changed):
    path = "spherical/recursions/wignerH.py"
    text = open(os.path.join(REPO, path), encoding="utf-8").read()
    tree = ast.parse(text)
    out = [HEADER.format(src="spherical/recursions/wignerH.py (_step_1 … _step_5), spherical/wigner.py (Wigner.H, coefficient tables of Wigner.__init__)")]
    # module constants used by the kernels
    used = set()
    for name in ["_step_1", "_step_2", "_step_3", "_step_4", "_step_5"]:
        fd = find_function(tree, name)
        used |= {n.id for n in ast.walk(fd) if isinstance(n, ast.Name)}
    consts = module_constants(tree, used)
    ktmp = KTr(fns, {}, {}, ast.parse("def f():\n  pass").body[0])
    for cname, cexpr in consts.items():
        ktmp.kinds = {}
        out.append(f"/-- module constant `{cname} = {ast.unparse(cexpr)}` -/\ndef {cname} : α := {ktmp.fexpr(cexpr)}\n")
    kernels = {}
    for name in ["_step_1", "_step_2", "_step_3", "_step_4", "_step_5"]:
        fd = find_function(tree, name)
        k, txt = KTr(fns, kernels, set(consts), fd).translate()
        kernels[lean_ident(name)] = k
        out.append(txt)
    # Wigner.H : the driver method
    wpath = "spherical/wigner.py"
    wtree = ast.parse(open(os.path.join(REPO, wpath), encoding="utf-8").read())
    fdH = find_function(wtree, "H", "Wigner")
    kH, txt = KTr(fns, kernels, set(consts), fdH, self_attrs=True).translate(lean_name="Wigner_H")
    out.append(txt)
    # coefficient tables of Wigner.__init__ (element-wise numpy expressions over the index arrays n, m, absn, absm)
    out += table_defs(wtree, fns)
    out.append("end\nend Gen\n")
    write_if_changed(os.path.join(gen_dir, "HKern.lean"), "\n".join(out))
    sig = {k.name: [(p, k.kinds[p]) for p in k.params] for k in list(kernels.values()) + [kH]}
    return sig


FILL_HEADER = """import SphericalVerif.Gen.Indexing
import SphericalVerif.Model.FlatMem
/-! GENERATED by vlib/py2lean_kern.py from {src} -- do not edit.  Regenerated on every check.

    The kernels that turn the H wedge into results, as functions on a flat memory: same statements, loop ranges, index
    expressions and operation order as the Python text.  A complex array is an array of doubles read in pairs
    (`frdC st A i` = cells `2i`, `2i+1`: numpy's layout, and literally how the workspace slices are `view(complex)`ed);
    mixed real/complex operations promote the real operand where numba does (`Cx.rmul`, `Cx.mulr`, `Cx.ofRe`). -/
set_option linter.unusedVariables false
namespace Gen
section
open Scalar
variable {{α : Type}} [Scalar α] {{φ : Type}} [FMem φ α]
"""


def generate_fillkern(fns, gen_dir, write_if_changed):
    wpath = "spherical/wigner.py"
    text = open(os.path.join(REPO, wpath), encoding="utf-8").read()
    wtree = ast.parse(text)
    names = ["_fill_wigner_d", "_fill_wigner_D", "_fill_sYlm"]
    out = [FILL_HEADER.format(src="spherical/wigner.py (" + ", ".join(names) + ")")]
    # the one module constant these kernels use must be the documented 1/(4 pi) (Scalar.inv4pi)
    consts = module_constants(wtree, {"inverse_4pi"})
    if "inverse_4pi" in consts and nfkc(ast.unparse(consts["inverse_4pi"])) != "1.0 / (4 * np.pi)":
        raise TranslationError(f"inverse_4pi = {ast.unparse(consts['inverse_4pi'])}")
    kernels = {}
    for name in names:
        fd = find_function(wtree, name)
        k, txt = KTr(fns, kernels, {"inverse_4pi"}, fd).translate()
        kernels[lean_ident(name)] = k
        out.append(txt)
    out.append("end\nend Gen\n")
    write_if_changed(os.path.join(gen_dir, "FillKern.lean"), "\n".join(out))
    return {k.name: [(p, k.kinds[p]) for p in k.params] for k in kernels.values()}


def generate_hornerkern(fns, gen_dir, write_if_changed):
    wpath = "spherical/wigner.py"
    wtree = ast.parse(open(os.path.join(REPO, wpath), encoding="utf-8").read())
    out = [FILL_HEADER.format(src="spherical/wigner.py (_evaluate_Horner)").replace(
        "The kernels that turn the H wedge into results", "The Horner evaluation kernel")]
    consts = module_constants(wtree, {"inverse_4pi"})
    if "inverse_4pi" in consts and nfkc(ast.unparse(consts["inverse_4pi"])) != "1.0 / (4 * np.pi)":
        raise TranslationError(f"inverse_4pi = {ast.unparse(consts['inverse_4pi'])}")
    fd = find_function(wtree, "_evaluate_Horner")
    # element kinds / ranks that the Python text cannot show (numba takes them from the run-time arguments `Wigner.evaluate`
    # passes: complex128 weights reshaped to 2-d, a 1-d complex output)
    k, txt = KTr(fns, {}, {"inverse_4pi"}, fd, complex_arrays={"mode_weights", "function_values"}, dims2={"mode_weights"}).translate()
    out.append(txt)
    out.append("end\nend Gen\n")
    write_if_changed(os.path.join(gen_dir, "HornerKern.lean"), "\n".join(out))
    return {k.name: [(p, k.kinds[p]) for p in k.params]}


def generate_eulerkern(fns, gen_dir, write_if_changed):
    """`quaternionic.converters.ToEulerPhases` — the dependency's kernel that spherical/wigner.py instantiates
    (`to_euler_phases = quaternionic.converters.ToEulerPhases(jit)`); read from the INSTALLED package the library imports."""
    import importlib.util
    spec = importlib.util.find_spec("quaternionic")
    if spec is None or not spec.submodule_search_locations:
        raise TranslationError("quaternionic is not importable")
    path = os.path.join(list(spec.submodule_search_locations)[0], "converters.py")
    tree = ast.parse(open(path, encoding="utf-8").read())
    outer = find_function(tree, "ToEulerPhases")
    inner = [n for n in outer.body if isinstance(n, ast.FunctionDef) and n.name == "_to_euler_phases"]
    if len(inner) != 1:
        raise TranslationError("quaternionic.converters.ToEulerPhases: inner kernel not found")
    # spherical must still use exactly this kernel
    wsrc = open(os.path.join(REPO, "spherical/wigner.py"), encoding="utf-8").read()
    if "to_euler_phases = quaternionic.converters.ToEulerPhases(jit)" not in wsrc:
        raise TranslationError("spherical/wigner.py no longer instantiates quaternionic.converters.ToEulerPhases")
    out = [FILL_HEADER.format(src="quaternionic/converters.py (ToEulerPhases._to_euler_phases, the installed dependency)").replace(
        "The kernels that turn the H wedge into results", "The Euler-phase kernel of the dependency `quaternionic`")]
    k, txt = KTr(fns, {}, set(), inner[0], complex_arrays={"z"}).translate()
    out.append(txt)
    out.append("end\nend Gen\n")
    write_if_changed(os.path.join(gen_dir, "EulerKern.lean"), "\n".join(out))
    return {k.name: [(p, k.kinds[p]) for p in k.params]}


def generate_rothkern(fns, gen_dir, write_if_changed):
    wpath = "spherical/wigner.py"
    wtree = ast.parse(open(os.path.join(REPO, wpath), encoding="utf-8").read())
    out = [FILL_HEADER.format(src="spherical/wigner.py (_rotate_Horner)").replace(
        "The kernels that turn the H wedge into results", "The Horner rotation kernel (whole-column numpy statements as explicit row loops)")]
    fd = find_function(wtree, "_rotate_Horner")
    k, txt = KTr(fns, {}, set(), fd, complex_arrays={"flm", "fln", "negative_terms", "positive_terms"}, dims2={"flm", "fln"},
                 complex_scalars={"za", "zγ"}).translate()
    out.append(txt)
    out.append("end\nend Gen\n")
    write_if_changed(os.path.join(gen_dir, "RotHKern.lean"), "\n".join(out))
    return {k.name: [(p, k.kinds[p]) for p in k.params]}


def generate_cpowkern(fns, gen_dir, write_if_changed):
    path = "spherical/recursions/complex_powers.py"
    tree = ast.parse(open(os.path.join(REPO, path), encoding="utf-8").read())
    out = [FILL_HEADER.format(src=path + " (_complex_powers)").replace("The kernels that turn the H wedge into results", "The complex-powers kernel")]
    fd = find_function(tree, "_complex_powers")
    k, txt = KTr(fns, {}, set(), fd, complex_arrays={"zravel", "zpowers"}, dims2={"zpowers"}).translate()
    out.append(txt)
    out.append("end\nend Gen\n")
    write_if_changed(os.path.join(gen_dir, "CPowKern.lean"), "\n".join(out))
    return {k.name: [(p, k.kinds[p]) for p in k.params]}


def table_defs(wtree, fns):
    """`self._x = <expr>` (+ optional `self._x[m<0] *= -1`) of Wigner.__init__ as element-wise functions of (n, m):
    the index arrays `n, m` (resp. `absn, absm`) enumerate the pairs in `nm_index` (resp. `nabsm_index`) order, which is
    checked here syntactically against the comprehension text."""
    fd = find_function(wtree, "__init__", "Wigner")
    want = {"n": "[n for n in range(self.ell_max + 2) for m in range(-n, n + 1)]",
            "m": "[m for n in range(self.ell_max + 2) for m in range(-n, n + 1)]",
            "absn": "[n for n in range(self.ell_max + 2) for m in range(n + 1)]",
            "absm": "[m for n in range(self.ell_max + 2) for m in range(n + 1)]"}
    seen = {}
    tabs = {}
    neg = set()
    for s in ast.walk(fd):
        if isinstance(s, ast.Assign) and len(s.targets) == 1:
            t = s.targets[0]
            if isinstance(t, ast.Name) and t.id in want:
                if not (isinstance(s.value, ast.Call) and ast.unparse(s.value.func) == "np.array" and ast.unparse(s.value.args[0]) == want[t.id]):
                    raise TranslationError(f"Wigner.__init__: index array {t.id} = {ast.unparse(s.value)}")
                seen[t.id] = True
            if isinstance(t, ast.Attribute) and isinstance(t.value, ast.Name) and t.value.id == "self" and t.attr in ("_a", "_b", "_d", "_g", "_h"):
                tabs[t.attr] = s.value
        if isinstance(s, ast.AugAssign) and isinstance(s.target, ast.Subscript):
            if ast.unparse(s.target) in ("self._b[m < 0]", "self._d[m < 0]") and isinstance(s.op, ast.Mult) and ast.unparse(s.value) == "-1":
                neg.add(s.target.value.attr)
            else:
                raise TranslationError(f"Wigner.__init__: {ast.unparse(s)}")
    if set(seen) != set(want) or set(tabs) != {"_a", "_b", "_d", "_g", "_h"}:
        raise TranslationError("Wigner.__init__: coefficient tables not found")
    out = []
    for name in ["_a", "_b", "_d", "_g", "_h"]:
        k = KTr(fns, {}, set(), fd)
        vars_ = ("absn", "absm") if name == "_a" else ("n", "m")
        used = {x.id for x in ast.walk(tabs[name]) if isinstance(x, ast.Name)} - {"np"}
        if not used <= set(vars_):
            raise TranslationError(f"Wigner.__init__: table {name} uses {used}")
        k.kinds = {v: INT for v in vars_}
        body = k.fexpr(tabs[name])
        if name in neg:
            # numpy: array[m<0] *= -1  (float array times the integer -1)
            body = f"let v : α := {body}\n  if m < 0 then (v *. (Scalar.ofInt (-1 : Int) : α)) else v"
        out.append(f"/-- element of `self.{name}` at the pair ({vars_[0]}, {vars_[1]}): `{ast.unparse(tabs[name])}`"
                   + (f"; then `self.{name}[m<0] *= -1`" if name in neg else "") + " -/\n"
                   f"def tab{name} ({vars_[0]} {vars_[1]} : Int) : α :=\n  {body}\n")
    return out


# ---------------------------------------------------------------------------------------------------------------------
# method wiring: the per-rotor kernel calls of Wigner.D / sYlm / evaluate(horner) / rotate(horner), from the method text
# ---------------------------------------------------------------------------------------------------------------------
METH_HEADER = """import SphericalVerif.Gen.HKern
import SphericalVerif.Gen.FillKern
import SphericalVerif.Gen.HornerKern
import SphericalVerif.Gen.RotHKern
import SphericalVerif.Gen.CPowKern
import SphericalVerif.Gen.EulerKern
/-! GENERATED by vlib/py2lean_kern.py from spherical/wigner.py (the bodies of Wigner.D, Wigner.sYlm, the Horner branches of
    Wigner.evaluate and Wigner.rotate, and Wigner._split_workspace) -- do not edit.  Regenerated on every check.

    What each public method does **for one rotor**: the kernel calls of the method's loop body (or Horner branch), in the
    order and with the arguments the Python text gives them, on one flat memory.  Every array the method takes from the
    workspace (`Hwedge, Hv, Hextra, zₐpowers, zᵧpowers, z`) or writes (`𝔇`, `Y`, the output row/column) is an array id; an
    argument a callee only reads is passed as the *current content* of that array (`fun i => frd st A i`), exactly what the
    callee sees in Python; `z[k]` is the complex cell `k` of `z` read at the call; `z[a:b]` the cells `a …`; `zₐpowers[0]` row
    0 of the 2-d power array, whose shape `(1, size/2)` is read off `_split_workspace`.  Arrays that are inputs of the
    method (`quaternions[i_R]`, `mode_weights`) are functions.  `self.<attr>` are parameters.  The library operations
    `complex ** int` and `np.sqrt(complex).imag` are the parameters `cpowi`, `imsqrt` of the callees, passed through.

    `Props/GenChain.lean` proves these definitions equal to the chains its theorems are about. -/
set_option linter.unusedVariables false
namespace Gen
section
open Scalar
variable {α : Type} [Scalar α] {φ : Type} [FMem φ α]
"""

WS_NAMES = [nfkc(n) for n in ["Hwedge", "Hv", "Hextra", "zₐpowers", "zᵧpowers", "z"]]  # (the parser NFKC-normalises identifiers)


def workspace_layout(wtree, fns):
    """`Wigner._split_workspace`: consecutive slices `workspace[i_{k-1}:i_k]`, `i_k = i_{k-1} + size_k`; returns, per returned
    name, (size expression AST, complex?, 2-d with one leading row?) and checks the shape of the text."""
    fd = find_function(wtree, "_split_workspace", "Wigner")
    assigns = {}
    for s in fd.body:
        if isinstance(s, ast.Assign) and len(s.targets) == 1 and isinstance(s.targets[0], ast.Name):
            assigns[s.targets[0].id] = s.value
    ret = [s for s in fd.body if isinstance(s, ast.Return)]
    if len(ret) != 1 or ast.unparse(ret[0].value) != "(" + ", ".join(WS_NAMES) + ")":
        raise TranslationError("Wigner._split_workspace: return " + (ast.unparse(ret[0].value) if ret else "missing"))
    # boundaries
    bounds = ["i1", "i2", "i3", "i4", "i5", "i6"]
    for k, b in enumerate(bounds):
        want = "size1" if k == 0 else f"{bounds[k - 1]} + size{k + 1}"
        if b not in assigns or ast.unparse(assigns[b]) != want:
            raise TranslationError(f"Wigner._split_workspace: {b} = {ast.unparse(assigns[b]) if b in assigns else '?'} (expected {want})")
    layout = {}
    for k, nme in enumerate(WS_NAMES):
        if nme not in assigns:
            raise TranslationError(f"Wigner._split_workspace: {nme} not assigned")
        lo = "" if k == 0 else bounds[k - 1]
        base = f"workspace[{lo}:{bounds[k]}]"
        txt = nfkc(ast.unparse(assigns[nme]))
        forms = {base: (False, False), base + ".view(complex)": (True, False), base + ".view(complex)[np.newaxis]": (True, True)}
        if txt not in forms:
            raise TranslationError(f"Wigner._split_workspace: {nme} = {txt}")
        cplx, two_d = forms[txt]
        layout[lean_ident(nme)] = (assigns[f"size{k + 1}"], cplx, two_d)
    # __init__ stores the same split on the object
    init = find_function(wtree, "__init__", "Wigner")
    want = "(" + ", ".join("self." + n for n in WS_NAMES) + ") = self._split_workspace(workspace)"
    if not any(isinstance(s, ast.Assign) and nfkc(ast.unparse(s)).replace("(", "").replace(")", "") == nfkc(want).replace("(", "").replace(")", "") for s in ast.walk(init)):
        raise TranslationError("Wigner.__init__: the object's own workspace is not `self._split_workspace(workspace)`")
    return layout


class MethodTr:
    """one rotor's worth of kernel calls of a Wigner method"""

    def __init__(self, fns, layout, name, stmts, doc):
        self.fns, self.layout, self.name, self.stmts, self.doc = fns, layout, name, stmts, doc
        self.params = []      # [(lean name, lean type)] in order of first use
        self.locals = {}      # python-level locals defined in the body: lean name -> kind
        self.alias = {}       # local name -> array id parameter (row views such as `𝔇 = function_values[i_R]`)
        self.attr = {}

    def param(self, n, ty):
        for (m, t) in self.params:
            if m == n:
                if t != ty:
                    raise TranslationError(f"{self.name}: parameter {n} used as {t} and as {ty}")
                return n
        self.params.append((n, ty))
        return n

    def iexpr(self, e):
        kinds = {n: "int" for n, k in self.locals.items() if k == INT}
        for x in ast.walk(e):
            if isinstance(x, ast.Name) and lean_ident(x.id) not in self.locals and x.id not in ("abs", "min", "max", "self"):
                self.param(lean_ident(x.id), "Int")
                kinds[lean_ident(x.id)] = "int"
        attrs = {}
        tr = Tr(Ctx(self.fns, None), kinds, attr_params=attrs)
        r = tr.expr(e)
        for a in attrs:
            self.param(a, "Int")
        return r

    def array_id(self, a):
        """an argument the callee writes (or aliases): an array id"""
        if isinstance(a, ast.Name):
            n = lean_ident(a.id)
            n = self.alias.get(n, n)
            return self.param(n, "Nat")
        if isinstance(a, ast.Subscript) and isinstance(a.value, ast.Name):
            # a row / column view of an output array: its own id
            txt = nfkc(ast.unparse(a.slice))
            if txt in ("i_R", "(..., i_R)"):
                return self.param(lean_ident(a.value.id) + ("_row" if txt == "i_R" else "_col"), "Nat")
        raise TranslationError(f"{self.name}: array argument {ast.unparse(a)}")

    def const_int(self, e):
        if isinstance(e, ast.Constant) and isinstance(e.value, int) and not isinstance(e.value, bool):
            return e.value
        raise TranslationError(f"{self.name}: constant index expected, got {ast.unparse(e)}")

    def shape_of(self, a, which):
        """value of the callee's shape parameter `which` ('size' | 'shape0' | 'shape1') for the argument `a`"""
        if isinstance(a, ast.Subscript) and isinstance(a.slice, ast.Slice) and isinstance(a.value, ast.Name):
            lo, hi = self.const_int(a.slice.lower), self.const_int(a.slice.upper)
            if which in ("size", "shape0") and a.slice.step is None:
                return f"({hi - lo} : Int)"
        if isinstance(a, ast.Name):
            n = lean_ident(a.id)
            if n in self.layout:
                size, cplx, two_d = self.layout[n]
                sz = self.iexpr(size)
                if cplx:
                    sz = f"({sz} / 2)"
                if two_d:
                    return {"shape0": "(1 : Int)", "shape1": sz, "size": sz}[which]
                return {"shape0": sz, "size": sz}[which]
            return self.param(f"{n}_{which}", "Int")
        raise TranslationError(f"{self.name}: {which} of {ast.unparse(a)}")

    def read_fn(self, a, cplx):
        """an argument the callee only reads, as a function of the index"""
        rd = "frdC" if cplx else "frd"
        if isinstance(a, ast.Name):
            n = lean_ident(a.id)
            n = self.alias.get(n, n)
            if n in self.layout or n in self.alias.values():
                if (n in self.layout) and self.layout[n][1] != cplx:
                    raise TranslationError(f"{self.name}: element kind of {n}")
                return f"(fun i => {rd} (α := α) st {self.param(n, 'Nat')} i)"
            return self.param(n, "Int → Cx α" if cplx else "Int → α")          # an input of the method
        if isinstance(a, ast.Subscript) and isinstance(a.value, ast.Name):
            n = lean_ident(a.value.id)
            if n in self.layout:
                size, c2, two_d = self.layout[n]
                if c2 != cplx:
                    raise TranslationError(f"{self.name}: element kind of {n}")
                if isinstance(a.slice, ast.Slice):
                    if two_d or a.slice.step is not None:
                        raise TranslationError(f"{self.name}: slice {ast.unparse(a)}")
                    lo = self.const_int(a.slice.lower)
                    return f"(fun i => {rd} (α := α) st {self.param(n, 'Nat')} (({lo} : Int) + i))"
                if two_d and self.const_int(a.slice) == 0:
                    return f"(fun i => {rd} (α := α) st {self.param(n, 'Nat')} i)"     # row 0 of a C-contiguous 2-d array
                raise TranslationError(f"{self.name}: view {ast.unparse(a)}")
            if nfkc(ast.unparse(a.slice)) == "i_R":
                return self.param(n + "_row", "Int → Cx α" if cplx else "Int → α")   # one row of an input of the method
        raise TranslationError(f"{self.name}: read-only argument {ast.unparse(a)}")

    def cx_val(self, a):
        if isinstance(a, ast.Name) and self.locals.get(lean_ident(a.id)) == CX:
            return lean_ident(a.id)
        if isinstance(a, ast.Subscript) and isinstance(a.value, ast.Name) and lean_ident(a.value.id) in self.layout:
            n = lean_ident(a.value.id)
            size, cplx, two_d = self.layout[n]
            if cplx and not two_d:
                return f"(frdC (α := α) st {self.param(n, 'Nat')} ({self.const_int(a.slice)} : Int))"
        if isinstance(a, ast.BinOp) and isinstance(a.op, ast.Pow):
            self.param("cpowi", "Cx α → Int → Cx α")
            return f"(cpowi {self.cx_val(a.left)} {self.iexpr(a.right)})"
        if isinstance(a, ast.Name) and lean_ident(a.id) not in self.locals and lean_ident(a.id) not in self.layout:
            return self.param(lean_ident(a.id), "Cx α")      # a complex argument of the method itself (e.g. `expiβ` of `Wigner.d`)
        raise TranslationError(f"{self.name}: complex argument {ast.unparse(a)}")

    def call(self, c, assigned=None):
        f = c.func
        if c.keywords:
            raise TranslationError(f"{self.name}: keyword call {ast.unparse(c)}")
        if isinstance(f, ast.Name):
            lname = "u_to_euler_phases" if f.id == "to_euler_phases" else lean_ident(f.id)
        elif isinstance(f, ast.Attribute) and isinstance(f.value, ast.Name) and f.value.id == "self" and f.attr == "H":
            lname = "Wigner_H"
        else:
            raise TranslationError(f"{self.name}: call {ast.unparse(c)}")
        k = KERNELS.get(lname)
        if k is None:
            raise TranslationError(f"{self.name}: callee {ast.unparse(f)} is not a translated kernel")
        if len(c.args) != len(k.pyparams):
            raise TranslationError(f"{self.name}: arity of {ast.unparse(c)}")
        byparam = dict(zip(k.pyparams, c.args))
        args = []
        for p in k.params:
            kind = k.kinds[p]
            if p in k.attr_params:
                args.append(self.param(p, LEAN_TY[kind]))       # self.<attr> of the callee: the same object
            elif p in byparam:
                a = byparam[p]
                if kind == INT:
                    args.append(self.iexpr(a))
                elif kind in (ARR, CARR):
                    args.append(self.array_id(a))
                elif kind in (TAB, CTAB):
                    args.append(self.read_fn(a, kind == CTAB))
                elif kind == CX:
                    args.append(self.cx_val(a))
                else:
                    raise TranslationError(f"{self.name}: argument kind {kind} of {lname}.{p}")
            elif p in k.scratch:
                args.append(self.param(p, "Nat"))       # an array the callee allocates itself (np.zeros): a fresh id
            else:
                base = [q for q in k.pyparams if p.startswith(q + "_")]
                if not base:
                    raise TranslationError(f"{self.name}: parameter {p} of {lname}")
                q = max(base, key=len)
                args.append(self.shape_of(byparam[q], p[len(q) + 1:]))
        for (n, ty) in k.extra:
            if n == "fuel":
                args.append("4")        # `while z.real<0 or z.imag<0` runs at most three times (C14.quadrant_loop_le3); 4 = the model's fuel
            else:
                args.append(self.param(n, ty))
        if assigned is not None:
            # `X = callee(...)`: the callee must return the array it was handed under that very name
            i = k.pyparams.index(assigned) if assigned in k.pyparams else -1
            ok = i >= 0 and k.returns and all(r == assigned for r in k.returns) and isinstance(c.args[i], ast.Name) and lean_ident(c.args[i].id) == assigned
            if not ok:
                raise TranslationError(f"{self.name}: {assigned} = {ast.unparse(c)} does not return its own argument")
        return f"  let st : φ := {lname} (α := α) {' '.join(args)} st"

    def translate(self):
        lines = []
        for s in self.stmts:
            if isinstance(s, ast.Expr) and isinstance(s.value, ast.Call):
                lines.append(self.call(s.value))
            elif isinstance(s, ast.Assign) and len(s.targets) == 1 and isinstance(s.targets[0], ast.Name):
                t = lean_ident(s.targets[0].id)
                v = s.value
                if isinstance(v, ast.Call):
                    lines.append(self.call(v, assigned=t))
                elif isinstance(v, ast.Subscript) and isinstance(v.value, ast.Name) and nfkc(ast.unparse(v.slice)) == "i_R":
                    self.alias[t] = self.param(lean_ident(v.value.id) + "_row", "Nat")
                elif isinstance(v, ast.IfExp) and nfkc(ast.unparse(v.test)) == "out is not None" and nfkc(ast.unparse(v.body)) == "out" \
                        and nfkc(ast.unparse(v.orelse)).startswith("np.zeros("):
                    self.alias[t] = self.param(t, "Nat")        # the caller's `out`, or a fresh array: an array id of its own
                elif isinstance(v, ast.BinOp):
                    lines.append(f"  let {t} : Cx α := {self.cx_val(v)}")
                    self.locals[t] = CX
                else:
                    raise TranslationError(f"{self.name}: statement {ast.unparse(s)}")
            else:
                raise TranslationError(f"{self.name}: statement {ast.unparse(s)}")
        ps = " ".join(f"({n} : {t})" for n, t in self.params)
        src = "\n".join("      " + nfkc(ast.unparse(s)) for s in self.stmts)
        return (f"/-- {self.doc}\n\n{src} -/\n" f"def {self.name} {ps} (st : φ) : φ :=\n" + "\n".join(lines) + "\n  st\n"), list(self.params)


def rotor_loop(fd, where):
    """the body of `for i_R in range(quaternions.shape[0]):` inside `where` (a statement list)"""
    loops = [s for s in where if isinstance(s, ast.For) and isinstance(s.target, ast.Name) and s.target.id == "i_R"]
    if len(loops) != 1 or nfkc(ast.unparse(loops[0].iter)) != "range(quaternions.shape[0])" or loops[0].orelse:
        raise TranslationError(f"Wigner.{fd.name}: rotor loop not found")
    return loops[0].body


def horner_branch(fd, test_ok):
    ifs = [s for s in fd.body if isinstance(s, ast.If) and test_ok(nfkc(ast.unparse(s.test)))]
    if len(ifs) != 1:
        raise TranslationError(f"Wigner.{fd.name}: Horner branch not found")
    body = list(ifs[0].body)
    # leading workspace selection:  if workspace is not None: <names> = self._split_workspace(workspace)  else: <names> = self.<names>
    if not (body and isinstance(body[0], ast.If) and nfkc(ast.unparse(body[0].test)) == "workspace is not None"):
        raise TranslationError(f"Wigner.{fd.name}: workspace selection not found")
    check_ws_selection(fd, body[0])
    return body[1:]


def check_ws_selection(fd, s):
    """both arms bind the workspace names to the corresponding parts (of the given workspace / of the object's own)"""
    def names(t):
        return [nfkc(x.id) if isinstance(x, ast.Name) else None for x in t.elts]
    if len(s.body) != 1 or len(s.orelse) != 1:
        raise TranslationError(f"Wigner.{fd.name}: workspace selection {ast.unparse(s)}")
    a, b = s.body[0], s.orelse[0]
    ok = isinstance(a, ast.Assign) and isinstance(b, ast.Assign) and isinstance(a.targets[0], ast.Tuple) and isinstance(b.targets[0], ast.Tuple)
    if ok:
        ta, tb = names(a.targets[0]), names(b.targets[0])
        want = [nfkc(n) for n in WS_NAMES]
        ok = nfkc(ast.unparse(a.value)) == "self._split_workspace(workspace)" and len(ta) == 6 and all(x in (w, "_") for x, w in zip(ta, want))
        kept = [w for x, w in zip(ta, want) if x != "_"]
        ok = ok and tb == kept and isinstance(b.value, ast.Tuple) and [nfkc(ast.unparse(x)) for x in b.value.elts] == ["self." + w for w in kept]
    if not ok:
        raise TranslationError(f"Wigner.{fd.name}: workspace selection {ast.unparse(s)}")


METHOD_SIGS = {}    # name -> [(param, lean type)] of the definitions of Gen/MethodKern.lean, for generators that chain them


def generate_methods(fns, gen_dir, write_if_changed):
    wtree = ast.parse(open(os.path.join(REPO, "spherical/wigner.py"), encoding="utf-8").read())
    layout = workspace_layout(wtree, fns)
    out = [METH_HEADER]
    sig = {}
    jobs = []
    for meth, lname, doc in [("D", "Wigner_D_rotor", "the loop body of `Wigner.D` (one rotor)"),
                             ("sYlm", "Wigner_sYlm_rotor", "the loop body of `Wigner.sYlm` (one rotor)")]:
        fd = find_function(wtree, meth, "Wigner")
        sel = [s for s in fd.body if isinstance(s, ast.If) and nfkc(ast.unparse(s.test)) == "workspace is not None"]
        if len(sel) != 1:
            raise TranslationError(f"Wigner.{meth}: workspace selection not found")
        check_ws_selection(fd, sel[0])
        jobs.append((lname, rotor_loop(fd, fd.body), doc))
    fd = find_function(wtree, "d", "Wigner")
    isel = [i for i, s in enumerate(fd.body) if isinstance(s, ast.If) and nfkc(ast.unparse(s.test)) == "workspace is not None"]
    if len(isel) != 1 or not (isinstance(fd.body[-1], ast.Return) and nfkc(ast.unparse(fd.body[-1])) == "return d"):
        raise TranslationError("Wigner.d: workspace selection / return not found")
    check_ws_selection(fd, fd.body[isel[0]])
    jobs.append(("Wigner_d_body", fd.body[isel[0] + 1:-1], "the body of `Wigner.d` after the workspace selection"))
    fd = find_function(wtree, "evaluate", "Wigner")
    jobs.append(("Wigner_evaluate_rotor", rotor_loop(fd, horner_branch(fd, lambda t: t == "horner")),
                 "the loop body of the Horner branch of `Wigner.evaluate` (one rotor: one column of the output)"))
    fd = find_function(wtree, "rotate", "Wigner")
    jobs.append(("Wigner_rotate_rotor", horner_branch(fd, lambda t: t.startswith("horner or ")),
                 "the Horner branch of `Wigner.rotate` (after the workspace selection)"))
    for lname, stmts, doc in jobs:
        txt, params = MethodTr(fns, layout, lname, stmts, doc).translate()
        out.append(txt)
        sig[lname] = params
        METHOD_SIGS[lname] = list(params)
        if lname not in ("Wigner_rotate_rotor", "Wigner_d_body"):
            # the loop itself: `for i_R in range(quaternions.shape[0])`; row i_R of the input, row / column i_R of the output (its own array id)
            per = {"quaternions_row": "Int → Int → α", "function_values_row": "Int → Nat", "function_values_col": "Int → Nat"}
            if sum(1 for n, _ in params if n in per) != 2:
                raise TranslationError(f"{lname}: per-rotor parameters {[n for n, _ in params if n in per]}")
            ps = " ".join(f"({n} : {per.get(n, t)})" for n, t in params)
            args = " ".join(f"({n} i_R)" if n in per else n for n, _ in params)
            loop = lname.replace("_rotor", "_loop")
            out.append(f"/-- `for i_R in range(quaternions.shape[0]):` around `{lname}` -/\n"
                       f"def {loop} (quaternions_shape0 : Int) {ps} (st : φ) : φ :=\n"
                       f"  loopN (quaternions_shape0 - (0 : Int)).toNat (fun k (st : φ) =>\n"
                       f"    let i_R : Int := (0 : Int) + (k : Int)\n"
                       f"    {lname} (α := α) {args} st) st\n")
            sig[loop] = [("quaternions_shape0", "Int")] + [(n, per.get(n, t)) for n, t in params]
    out.append("end\nend Gen\n")
    write_if_changed(os.path.join(gen_dir, "MethodKern.lean"), "\n".join(out))
    return sig


# ---------------------------------------------------------------------------------------------------------------------
# the differential operators of spherical/modes/derivatives.py: the loop of each method as a kernel on a flat memory
# ---------------------------------------------------------------------------------------------------------------------
DIFF_HEADER = """import SphericalVerif.Gen.Indexing
import SphericalVerif.Model.FlatMem
/-! GENERATED by vlib/py2lean_kern.py from spherical/modes/derivatives.py (the `for ell in …` loops of Lsquared, Lz, Lplus,
    Lminus, Rplus, Rminus and the metadata assignments of Rplus / Rminus) and spherical/modes/utilities.py (`index`) -- do
    not edit.  Regenerated on every check.

    Each method's loop as a function on a flat memory, for ONE element of the leading axes (`a[..., i]` is read as `a[i]`: the
    leading axes are carried along pointwise by numpy).  `s` is the `ndarray` view of the input — for `Lsquared` / `Lz` of the
    copy the method works on in place —, `o` the view of the output; `X.index(ell, m)` is `Modes_index` below, generated from
    `index` with each `raise ValueError` turned into the impossible index `-1` (`Props/GenDiff.lean` proves the guards never
    fire inside these loops); `self.<attr>` / `d.<attr>` are parameters; a slice statement `o[..., a:b] = c * s[..., a':b']` is
    the loop over its `b - a` elements. -/
set_option linter.unusedVariables false
namespace Gen
section
open Scalar
variable {α : Type} [Scalar α] {φ : Type} [FMem φ α]
"""


class _DiffRewrite(ast.NodeTransformer):
    """X.index(a, b) -> Modes_index(X_spin_weight, X_ell_min, X_ell_max, a, b);  X.attr -> X_attr;  A[..., e] -> A[e]"""

    def visit_Call(self, node):
        node = self.generic_visit(node)
        f = node.func
        if isinstance(f, ast.Name) and f.id.endswith("_index") and f.id[:-6] in ("self", "d") and len(node.args) == 2:
            x = f.id[:-6]
            return ast.Call(func=ast.Name(id="Modes_index", ctx=ast.Load()),
                            args=[ast.Name(id=f"{x}_spin_weight", ctx=ast.Load()), ast.Name(id=f"{x}_ell_min", ctx=ast.Load()),
                                  ast.Name(id=f"{x}_ell_max", ctx=ast.Load())] + node.args, keywords=[])
        return node

    def visit_Attribute(self, node):
        node = self.generic_visit(node)
        if isinstance(node.value, ast.Name) and node.value.id in ("self", "d"):
            return ast.Name(id=f"{node.value.id}_{node.attr}", ctx=node.ctx)
        return node

    def visit_Subscript(self, node):
        node = self.generic_visit(node)
        sl = node.slice
        if isinstance(sl, ast.Tuple) and len(sl.elts) == 2 and isinstance(sl.elts[0], ast.Constant) and sl.elts[0].value is Ellipsis:
            return ast.Subscript(value=node.value, slice=sl.elts[1], ctx=node.ctx)
        return node


def _slice_bounds(sub):
    if not (isinstance(sub, ast.Subscript) and isinstance(sub.slice, ast.Slice) and sub.slice.step is None and isinstance(sub.value, ast.Name)):
        return None
    return sub.value.id, sub.slice.lower, sub.slice.upper


class _Deslice(ast.NodeTransformer):
    """slice statements over the last axis -> explicit element loops"""
    count = 0
    whole = ()      # names of arrays that may appear WHOLE on a right-hand side (`result[..., a:b] = a1`): element k of them

    def loop(self, lo, hi, body):
        _Deslice.count += 1
        return ast.For(target=ast.Name(id="k_", ctx=ast.Store()),
                       iter=ast.Call(func=ast.Name(id="range", ctx=ast.Load()), args=[ast.BinOp(left=hi, op=ast.Sub(), right=lo)], keywords=[]),
                       body=[body], orelse=[])

    @staticmethod
    def elem(name, lo, ctx):
        return ast.Subscript(value=ast.Name(id=name, ctx=ast.Load()),
                             slice=ast.BinOp(left=lo, op=ast.Add(), right=ast.Name(id="k_", ctx=ast.Load())), ctx=ctx)

    def visit_AugAssign(self, node):
        b = _slice_bounds(node.target)
        if b is None:
            return node
        name, lo, hi = b
        if any(_slice_bounds(x) for x in ast.walk(node.value)):
            raise TranslationError(f"slice statement {ast.unparse(node)}")
        outer = self

        class W(ast.NodeTransformer):
            def visit_Name(s2, nm):
                if nm.id in outer.whole:
                    return ast.Subscript(value=ast.Name(id=nm.id, ctx=ast.Load()), slice=ast.Name(id="k_", ctx=ast.Load()), ctx=ast.Load())
                return nm
        return self.loop(lo, hi, ast.AugAssign(target=self.elem(name, lo, ast.Store()), op=node.op, value=W().visit(node.value)))

    def visit_Assign(self, node):
        if len(node.targets) != 1:
            return node
        b = _slice_bounds(node.targets[0])
        if b is None:
            return node
        name, lo, hi = b
        outer = self

        class R(ast.NodeTransformer):
            def visit_Subscript(s2, sub):
                bb = _slice_bounds(sub)
                if bb is None:
                    return s2.generic_visit(sub)
                return outer.elem(bb[0], bb[1], ast.Load())      # same length (numpy raises otherwise): element k of each slice

            def visit_Name(s2, nm):
                if nm.id in outer.whole:
                    return ast.Subscript(value=ast.Name(id=nm.id, ctx=ast.Load()), slice=ast.Name(id="k_", ctx=ast.Load()), ctx=ast.Load())
                return nm
        return self.loop(lo, hi, ast.Assign(targets=[self.elem(name, lo, ast.Store())], value=R().visit(node.value)))


def generate_diffkern(fns, gen_dir, write_if_changed):
    dpath = "spherical/modes/derivatives.py"
    dtree = ast.parse(open(os.path.join(REPO, dpath), encoding="utf-8").read())
    utree = ast.parse(open(os.path.join(REPO, "spherical/modes/utilities.py"), encoding="utf-8").read())
    out = [DIFF_HEADER]
    # ---- Modes.index, with `raise` -> the impossible index -1 -----------------------------------------------------------
    fdI = find_function(utree, "index")
    if [a.arg for a in fdI.args.args] != ["self", "ell", "m"]:
        raise TranslationError("modes/utilities.py index: signature")
    body = []
    for s in fdI.body:
        if isinstance(s, ast.Expr) and isinstance(s.value, ast.Constant):
            continue
        if isinstance(s, ast.ImportFrom):
            if [a.name for a in s.names] != ["LM_index"]:
                raise TranslationError(f"index: {ast.unparse(s)}")
            continue
        body.append(s)

    class IR(ast.NodeTransformer):
        def visit_Raise(self, node):
            return ast.Return(value=ast.Constant(value=-1))

        def visit_Attribute(self, node):
            if isinstance(node.value, ast.Name) and node.value.id == "self":
                return ast.Name(id=node.attr, ctx=node.ctx)
            return node

        def visit_Name(self, node):
            return ast.Name(id="Yindex", ctx=node.ctx) if node.id == "LM_index" else node
    # `LM_index` is `Yindex` (spherical/__init__.py)
    isrc = open(os.path.join(REPO, "spherical/__init__.py"), encoding="utf-8").read()
    if "LM_total_size, LM_range, LM_index = Ysize, Yrange, Yindex" not in isrc:
        raise TranslationError("spherical/__init__.py: LM_index is no longer Yindex")
    body = [ast.fix_missing_locations(IR().visit(s)) for s in body]
    params = [("spin_weight", "int"), ("ell_min", "int"), ("ell_max", "int"), ("ell", "int"), ("m", "int")]
    tr = Tr(Ctx(fns, None), dict(params))
    out.append("/-- `Modes.index(ell, m)` of an object with the given metadata; `-1` where the method raises ValueError -/\n"
               + py2lean.emit_fn("Modes_index", params, tr.block(body, [], 1), None))
    fns["Modes_index"] = py2lean.Fn("Modes_index", params, {}, body, "spherical/modes/utilities.py")
    # the class property `ell_min` is the constant 0
    msrc = ast.parse(open(os.path.join(REPO, "spherical/modes/__init__.py"), encoding="utf-8").read())
    fdm = find_function(msrc, "ell_min", "Modes")
    rets = [s for s in fdm.body if isinstance(s, ast.Return)]
    if len(rets) != 1 or ast.unparse(rets[0].value) != "0":
        raise TranslationError("Modes.ell_min is no longer the constant 0")
    sig = {}
    prelude = {
        "Lsquared": (["import numpy as np", "d = self.copy()", "s = d.view(np.ndarray)"], "d"),
        "Lz": (["import numpy as np", "d = self.copy()", "s = d.view(np.ndarray)"], "d"),
        "Lplus": (["import math", "import numpy as np", "d = np.zeros_like(self)", "s = self.view(np.ndarray)", "o = d.view(np.ndarray)"], "self"),
        "Lminus": (["import math", "import numpy as np", "d = np.zeros_like(self)", "s = self.view(np.ndarray)", "o = d.view(np.ndarray)"], "self"),
    }
    for name in ["Lsquared", "Lz", "Lplus", "Lminus", "Rplus", "Rminus"]:
        fd = find_function(dtree, name)
        stmts = [s for s in fd.body if not (isinstance(s, ast.Expr) and isinstance(s.value, ast.Constant))]
        loops = [s for s in stmts if isinstance(s, ast.For)]
        if len(loops) != 1 or stmts[-1] is not None and ast.unparse(stmts[-1]) != "return d" or stmts[-2] is not loops[0]:
            raise TranslationError(f"derivatives.{name}: expected  <prelude>; for ell in …; return d")
        pre = [nfkc(ast.unparse(s)) for s in stmts[:-2]]
        if name in prelude:
            if pre != prelude[name][0]:
                raise TranslationError(f"derivatives.{name}: prelude {pre}")
        else:
            sign = "-" if name == "Rplus" else "+"
            want = ["import math", "import numpy as np", "metadata = copy.copy(self._metadata)",
                    f"metadata['spin_weight'] = self.spin_weight {sign} 1",
                    f"metadata['ell_min'] = min(abs(self.spin_weight {sign} 1), self.ell_min)",
                    "metadata['ell_max'] = self.ell_max", "shape = list(self.shape)",
                    "shape[-1] = LM_total_size(metadata['ell_min'], metadata['ell_max'])",
                    "d = type(self)(np.zeros_like(self.view(np.ndarray), shape=tuple(shape)), **metadata)",
                    "s = self.view(np.ndarray)", "o = d.view(np.ndarray)"]
            if pre != want:
                raise TranslationError(f"derivatives.{name}: prelude {pre}")
        # method calls X.index(...) -> names the rewriter understands
        loop = loops[0]

        class M(ast.NodeTransformer):
            def visit_Call(self, node):
                node = self.generic_visit(node)
                f = node.func
                if isinstance(f, ast.Attribute) and f.attr == "index" and isinstance(f.value, ast.Name) and f.value.id in ("self", "d"):
                    return ast.Call(func=ast.Name(id=f.value.id + "_index", ctx=ast.Load()), args=node.args, keywords=[])
                return node
        import copy as _copy
        loop = M().visit(_copy.deepcopy(loop))
        loop = _DiffRewrite().visit(loop)
        loop = _Deslice().visit(loop)
        ast.fix_missing_locations(loop)
        used = sorted({n.id for n in ast.walk(loop) if isinstance(n, ast.Name)} - {"range", "abs", "max", "min", "math", "Modes_index", "ell", "m", "k_"})
        arrs = [a for a in ("s", "o") if a in used]
        ints = [u for u in used if u not in arrs]
        # for Lsquared / Lz the object `d` is a copy of `self`: same metadata
        if name in ("Lsquared", "Lz"):
            class DS(ast.NodeTransformer):
                def visit_Name(self, node):
                    return ast.Name(id="self_" + node.id[2:], ctx=node.ctx) if node.id.startswith("d_") else node
            loop = DS().visit(loop)
            ints = sorted({("self_" + u[2:]) if u.startswith("d_") else u for u in ints})
        fsrc = f"def {name}_loop({', '.join(arrs + ints)}):\n    pass\n"
        fdk = ast.parse(fsrc).body[0]
        fdk.body = [loop]
        ast.fix_missing_locations(fdk)
        k, txt = KTr(fns, {}, set(), fdk, complex_arrays=set(arrs)).translate(lean_name=f"Modes_{name}_loop")
        out.append(f"/-- the loop of `Modes.{name}`:\n\n" + "\n".join("      " + l for l in nfkc(ast.unparse(loops[0])).splitlines()) + " -/\n" + txt)
        sig[k.name] = [(p, k.kinds[p]) for p in k.params]
    # ---- the array-level operators of spherical/utilities/operators.py (numba kernels) ------------------------------------
    opath = "spherical/utilities/operators.py"
    osrc = open(os.path.join(REPO, opath), encoding="utf-8").read()
    otree = ast.parse(osrc)
    if "from math import sqrt, pi" not in osrc:
        raise TranslationError("utilities/operators.py: `sqrt` is no longer math.sqrt")
    out.append("/-! ### spherical/utilities/operators.py: the loops of the array-level ð operators.  `ell_max` is the value of the prelude\n"
               "    `ell_max = int(sqrt(len(modes) + LM_total_size(0, ell_min - 1))) - 1` (a parameter here; `Model.Ops.inferEllMax`), the\n"
               "    array is the `np.copy(modes)` the function works on and returns. -/\n")
    for name in ["eth_GHP", "ethbar_GHP", "eth_NP", "ethbar_NP", "ethbar_inverse_NP"]:
        fd = find_function(otree, name)
        if [a.arg for a in fd.args.args] != ["modes", "spin_weight", "ell_min"]:
            raise TranslationError(f"operators.{name}: signature")
        stmts = [s for s in fd.body if not (isinstance(s, ast.Expr) and isinstance(s.value, ast.Constant))]
        if len(stmts) < 4 or ast.unparse(stmts[0]) != "ell_max = int(sqrt(len(modes) + LM_total_size(0, ell_min - 1))) - 1":
            raise TranslationError(f"operators.{name}: prelude {ast.unparse(stmts[0]) if stmts else ''}")
        if not (isinstance(stmts[1], ast.Assign) and isinstance(stmts[1].targets[0], ast.Name) and ast.unparse(stmts[1].value) == "np.copy(modes)"):
            raise TranslationError(f"operators.{name}: {ast.unparse(stmts[1])}")
        arr = stmts[1].targets[0].id
        if ast.unparse(stmts[-1]) != f"return {arr}":
            raise TranslationError(f"operators.{name}: {ast.unparse(stmts[-1])}")
        fdk = ast.parse(f"def {name}_loop({arr}, spin_weight, ell_min, ell_max):\n    pass\n").body[0]
        fdk.body = stmts[2:-1]
        ast.fix_missing_locations(fdk)
        kt = KTr(fns, {}, set(), fdk, complex_arrays={arr})
        kt.bare_sqrt = True
        k, txt = kt.translate(lean_name=f"arr_{name}_loop")
        out.append(f"/-- `{name}` after its prelude:\n\n" + "\n".join("      " + l for s2 in stmts[2:-1] for l in nfkc(ast.unparse(s2)).splitlines()) + " -/\n" + txt)
        sig[k.name] = [(p, k.kinds[p]) for p in k.params]
    out.append("end\nend Gen\n")
    write_if_changed(os.path.join(gen_dir, "DiffKern.lean"), "\n".join(out))
    return sig


# ---------------------------------------------------------------------------------------------------------------------
# spherical/modes/algebra.py: the loops of conjugate / _real_func / _imag_func
# ---------------------------------------------------------------------------------------------------------------------
ALG_HEADER = """import SphericalVerif.Gen.Indexing
import SphericalVerif.Model.FlatMem
/-! GENERATED by vlib/py2lean_kern.py from spherical/modes/algebra.py (the `for ell in …` loops of `conjugate`, `_real_func`,
    `_imag_func`) -- do not edit.  Regenerated on every check.

    One element of the leading axes (`a[..., i]` read as `a[i]`).  Each loop in two forms, as the method's
    `c = s if inplace else np.zeros_like(s)` selects them: `<name>_loop` reads the input `s` (read-only) and writes the fresh
    array `c`; `<name>_inplace_loop` has `c` and `s` the same array (the text with `c` replaced by `s`).  A tuple assignment
    `a, b = e1, e2` evaluates both right-hand sides first (temporaries `t1_`, `t2_`), as Python does; `np.conjugate(x)`, `np.real(x)`,
    `np.imag(x)`, unary minus are `Cx.conj`, `.re`, `.im`, `Cx.neg`; `LM_index` is `Yindex`; `self.<attr>` are parameters. -/
set_option linter.unusedVariables false
namespace Gen
section
open Scalar
variable {α : Type} [Scalar α] {φ : Type} [FMem φ α]
"""


class _AlgRewrite(ast.NodeTransformer):
    def __init__(self, inplace):
        self.inplace = inplace
        self.n = 0

    def visit_Name(self, node):
        if node.id == "LM_index":
            return ast.Name(id="Yindex", ctx=node.ctx)
        if self.inplace and node.id == "c":
            return ast.Name(id="s", ctx=node.ctx)
        return node

    def visit_Attribute(self, node):
        node = self.generic_visit(node)
        if isinstance(node.value, ast.Name) and node.value.id == "self":
            return ast.Name(id=f"self_{node.attr}", ctx=node.ctx)
        return node

    def visit_Call(self, node):
        node = self.generic_visit(node)
        f = ast.unparse(node.func)
        if f == "np.conjugate" and len(node.args) == 1:
            return ast.Call(func=ast.Attribute(value=node.args[0], attr="conjugate", ctx=ast.Load()), args=[], keywords=[])
        if f in ("np.real", "np.imag") and len(node.args) == 1:
            return ast.Attribute(value=node.args[0], attr=f[3:], ctx=ast.Load())
        return node

    def visit_Subscript(self, node):
        node = self.generic_visit(node)
        sl = node.slice
        if isinstance(sl, ast.Tuple) and len(sl.elts) == 2 and isinstance(sl.elts[0], ast.Constant) and sl.elts[0].value is Ellipsis:
            return ast.Subscript(value=node.value, slice=sl.elts[1], ctx=node.ctx)
        return node

    def visit_Assign(self, node):
        node = self.generic_visit(node)
        t = node.targets[0]
        if len(node.targets) == 1 and isinstance(t, ast.Tuple):
            if not (isinstance(node.value, ast.Tuple) and len(node.value.elts) == len(t.elts)):
                raise TranslationError(f"tuple assignment {ast.unparse(node)}")
            self.n += 1
            tmps = [f"t{self.n}_{i + 1}_" for i in range(len(t.elts))]
            first = [ast.Assign(targets=[ast.Name(id=n, ctx=ast.Store())], value=v) for n, v in zip(tmps, node.value.elts)]
            then = [ast.Assign(targets=[tt], value=ast.Name(id=n, ctx=ast.Load())) for n, tt in zip(tmps, t.elts)]
            return first + then
        return node


def generate_algkern(fns, gen_dir, write_if_changed):
    import copy as _copy
    apath = "spherical/modes/algebra.py"
    atree = ast.parse(open(os.path.join(REPO, apath), encoding="utf-8").read())
    out = [ALG_HEADER]
    sig = {}
    for name in ["conjugate", "_real_func", "_imag_func"]:
        fd = find_function(atree, name)
        stmts = [s for s in fd.body if not (isinstance(s, ast.Expr) and isinstance(s.value, ast.Constant))]
        loops = [i for i, s in enumerate(stmts) if isinstance(s, ast.For)]
        if len(loops) != 1:
            raise TranslationError(f"algebra.{name}: expected one `for ell` loop")
        i = loops[0]
        pre = [nfkc(ast.unparse(s)) for s in stmts[max(0, i - 2):i]]
        if pre != ["s = self.view(np.ndarray)", "c = s if inplace else np.zeros_like(s)"]:
            raise TranslationError(f"algebra.{name}: prelude {pre}")
        for inplace in (False, True):
            loop = _AlgRewrite(inplace).visit(_copy.deepcopy(stmts[i]))
            ast.fix_missing_locations(loop)
            used = sorted({n.id for n in ast.walk(loop) if isinstance(n, ast.Name)} - {"range", "abs", "Yindex", "ell", "m", "i", "i_p", "i_n", "s", "c"})
            used = [u for u in used if not (u.startswith("t") and u.endswith("_"))]
            arrs = ["s"] if inplace else ["s", "c"]
            lname = "Modes_" + name.strip("_").replace("_func", "") + ("_inplace" if inplace else "") + "_loop"
            fdk = ast.parse(f"def {lname}({', '.join(arrs + used)}):\n    pass\n").body[0]
            fdk.body = [loop]
            ast.fix_missing_locations(fdk)
            k, txt = KTr(fns, {}, set(), fdk, complex_arrays=set(arrs)).translate(lean_name=lname)
            doc = "\n".join("      " + l for l in nfkc(ast.unparse(stmts[i])).splitlines())
            out.append(f"/-- the loop of `Modes.{name}`" + (" with `c = s` (in place)" if inplace else " with `c = np.zeros_like(s)`") + f":\n\n{doc} -/\n" + txt)
            sig[k.name] = [(p, k.kinds[p]) for p in k.params]
    # ---- the `np.conj` / `np.conjugate` branch of Modes.__array_ufunc__ (spherical/modes/ufuncs.py): the same loop on `args[0]` -------
    utree = ast.parse(open(os.path.join(REPO, "spherical/modes/ufuncs.py"), encoding="utf-8").read())
    fdu = find_function(utree, "__array_ufunc__")
    branch = None
    for n in ast.walk(fdu):
        if isinstance(n, ast.If) and nfkc(ast.unparse(n.test)) == "ufunc in [np.conj, np.conjugate]":
            branch = n
    if branch is None or not (len(branch.body) == 1 and isinstance(branch.body[0], ast.If) and nfkc(ast.unparse(branch.body[0].test)) == "isinstance(args[0], type(self))"):
        raise TranslationError("ufuncs.__array_ufunc__: conjugation branch not found")
    ub = branch.body[0].body
    if [nfkc(ast.unparse(x)) for x in ub[:2]] != ["s = args[0].view(np.ndarray)", "c = np.zeros_like(s) if out is None else out[0]"] or not isinstance(ub[2], ast.For):
        raise TranslationError("ufuncs.__array_ufunc__: conjugation branch prelude")

    class A0(ast.NodeTransformer):       # args[0].attr -> self.attr
        def visit_Attribute(self, node):
            node = self.generic_visit(node)
            if nfkc(ast.unparse(node.value)) == "args[0]":
                return ast.Attribute(value=ast.Name(id="self", ctx=ast.Load()), attr=node.attr, ctx=node.ctx)
            return node
    uloop = A0().visit(_copy.deepcopy(ub[2]))
    for inplace in (False, True):
        loop = _AlgRewrite(inplace).visit(_copy.deepcopy(uloop))
        ast.fix_missing_locations(loop)
        arrs = ["s"] if inplace else ["s", "c"]
        lname = "Modes_conjugate_ufunc" + ("_out_is_operand" if inplace else "") + "_loop"
        fdk = ast.parse(f"def {lname}({', '.join(arrs + ['self_ell_max', 'self_ell_min', 'self_spin_weight'])}):\n    pass\n").body[0]
        fdk.body = [loop]
        ast.fix_missing_locations(fdk)
        k, txt = KTr(fns, {}, set(), fdk, complex_arrays=set(arrs)).translate(lean_name=lname)
        out.append("/-- the loop of the `np.conjugate` branch of `Modes.__array_ufunc__`" + (" with `out[0]` the operand itself" if inplace else " with a fresh output or another array as `out[0]`")
                   + " (`args[0].<attr>` written `self.<attr>`) -/\n" + txt)
        sig[k.name] = [(p, k.kinds[p]) for p in k.params]
    # ---- the `np.add` / `np.subtract` branch of Modes.__array_ufunc__ for two Modes: where the operands' rows go in the result -------
    addb = None
    for n in ast.walk(fdu):
        if isinstance(n, ast.If) and nfkc(ast.unparse(n.test)) == "ufunc in [np.add, np.subtract]":
            addb = n
    if addb is None or not (isinstance(addb.body[0], ast.If) and nfkc(ast.unparse(addb.body[0].test)) == "isinstance(args[0], type(self)) and isinstance(args[1], type(self))"):
        raise TranslationError("ufuncs.__array_ufunc__: add/subtract branch not found")
    ab = addb.body[0].body
    txts = [nfkc(ast.unparse(x)) for x in ab]

    def find(prefix):
        hits = [i for i, t in enumerate(txts) if t.startswith(prefix)]
        if len(hits) != 1:
            raise TranslationError(f"ufuncs add/subtract branch: statement `{prefix}…` not found exactly once")
        return hits[0]
    need = ["ell_min = min(m1.ell_min, m2.ell_min)", "ell_max = max(m1.ell_max, m2.ell_max)", "a1, a2 = (m1.view(np.ndarray), m2.view(np.ndarray))",
            "i_s1 = LM_total_size(ell_min, m1.ell_min - 1)", "i_s2 = i_s1 + LM_total_size(m1.ell_min, m1.ell_max)",
            "i_o1 = LM_total_size(ell_min, m2.ell_min - 1)", "i_o2 = i_o1 + LM_total_size(m2.ell_min, m2.ell_max)", "result[..., i_s1:i_s2] = a1"]
    idx = [find(t) for t in need]
    if idx != sorted(idx):
        raise TranslationError("ufuncs add/subtract branch: statement order")
    i_sub = find("if ufunc is np.subtract")
    if i_sub != idx[-1] + 1 or nfkc(ast.unparse(ab[i_sub])) != "if ufunc is np.subtract:\n    result[..., i_o1:i_o2] -= a2\nelse:\n    result[..., i_o1:i_o2] += a2":
        raise TranslationError("ufuncs add/subtract branch: the accumulate statement")
    # with `out=`: both operands are copied first and the output is cleared (so the rows read are the operands' content before the call)
    i_out = find("if out is not None:")
    if "a1, a2 = (a1.copy(), a2.copy())" not in nfkc(ast.unparse(ab[i_out])) or "result[...] = 0.0" not in nfkc(ast.unparse(ab[i_out])) or not (idx[2] < i_out < idx[3]):
        raise TranslationError("ufuncs add/subtract branch: the `out` preparation")
    for sub, lname in ((False, "Modes_add_rows"), (True, "Modes_subtract_rows")):
        stm = [ab[idx[0]], ab[idx[1]]] + [ab[i] for i in idx[3:7]] + [ab[idx[7]]] + (ab[i_sub].body if sub else ab[i_sub].orelse)

        class MA(ast.NodeTransformer):
            def visit_Attribute(self, node):
                node = self.generic_visit(node)
                if isinstance(node.value, ast.Name) and node.value.id in ("m1", "m2"):
                    return ast.Name(id=f"{node.value.id}_{node.attr}", ctx=node.ctx)
                return node

            def visit_Name(self, node):
                return ast.Name(id="Ysize", ctx=node.ctx) if node.id == "LM_total_size" else node

            def visit_Subscript(self, node):
                node = self.generic_visit(node)
                sl = node.slice
                if isinstance(sl, ast.Tuple) and len(sl.elts) == 2 and isinstance(sl.elts[0], ast.Constant) and sl.elts[0].value is Ellipsis:
                    return ast.Subscript(value=node.value, slice=sl.elts[1], ctx=node.ctx)
                return node
        stm = [MA().visit(_copy.deepcopy(x)) for x in stm]
        ds = _Deslice()
        ds.whole = ("a1", "a2")
        stm = [y for x in stm for y in (lambda r: r if isinstance(r, list) else [r])(ds.visit(x))]
        fdk = ast.parse(f"def {lname}(a1, a2, result, m1_ell_min, m1_ell_max, m2_ell_min, m2_ell_max):\n    pass\n").body[0]
        fdk.body = stm
        ast.fix_missing_locations(fdk)
        k, txt = KTr(fns, {}, set(), fdk, complex_arrays={"a1", "a2", "result"}).translate(lean_name=lname)
        out.append(f"/-- `np.{'subtract' if sub else 'add'}(m1, m2[, out=…])` for two Modes of equal spin weight: where the rows of the operands (read-only: their content before\n"
                   "    the call — with `out=` both are copied first) go in the zero-filled / cleared result -/\n" + txt)
        sig[k.name] = [(p, k.kinds[p]) for p in k.params]
    out.append("end\nend Gen\n")
    write_if_changed(os.path.join(gen_dir, "AlgKern.lean"), "\n".join(out))
    return sig


# ---------------------------------------------------------------------------------------------------------------------
# spherical/multiplication.py: _multiplication_helper
# ---------------------------------------------------------------------------------------------------------------------
MUL_HEADER = """import SphericalVerif.Gen.Indexing
import SphericalVerif.Model.FlatMem
/-! GENERATED by vlib/py2lean_kern.py from spherical/multiplication.py (`_multiplication_helper`) -- do not edit.  Regenerated on
    every check.

    The five nested loops of the product of two mode-weight arrays, for ONE element of the broadcast leading axes (`a[..., i]` read
    as `a[i]`).  `f`, `g` are read-only; `fg` is the output array; the two `Wigner3jCalculator` objects are the arrays
    `s_calculator`, `m_calculator` (their workspaces): `w = calc.calculate(j2, j3, m2, m3)` is the external operation
    `w3jcalc calc j2 j3 m2 m3` on the memory (a parameter: what it leaves in the calculator's array is the subject of C05), after
    which `w[j]` reads that array — so two results held at once are two different arrays exactly when the text uses two calculators.
    `math.pow(-1, k)` is the sign `(-1)**k`; `math.pi` is the parameter `math_pi`; `LM_index` is `Yindex`. -/
set_option linter.unusedVariables false
namespace Gen
section
open Scalar
variable {α : Type} [Scalar α] {φ : Type} [FMem φ α]
"""


def generate_mulkern(fns, gen_dir, write_if_changed):
    import copy as _copy
    mpath = "spherical/multiplication.py"
    mtree = ast.parse(open(os.path.join(REPO, mpath), encoding="utf-8").read())
    fd = find_function(mtree, "_multiplication_helper")
    pnames = [a.arg for a in fd.args.args]
    if pnames != ["f", "ellmin_f", "ellmax_f", "s_f", "g", "ellmin_g", "ellmax_g", "s_g", "fg", "ellmin_fg", "ellmax_fg", "s_fg"]:
        raise TranslationError(f"_multiplication_helper: signature {pnames}")
    stmts = [s for s in fd.body if not (isinstance(s, ast.Expr) and isinstance(s.value, ast.Constant))]
    calcs = []
    while stmts and isinstance(stmts[0], ast.Assign) and isinstance(stmts[0].value, ast.Call) and ast.unparse(stmts[0].value.func) == "Wigner3jCalculator":
        if ast.unparse(stmts[0].value) != "Wigner3jCalculator(ellmax_f, ellmax_g)" or not isinstance(stmts[0].targets[0], ast.Name):
            raise TranslationError(f"_multiplication_helper: {ast.unparse(stmts[0])}")
        calcs.append(stmts[0].targets[0].id)
        stmts = stmts[1:]
    if not calcs or len(set(calcs)) != len(calcs):
        raise TranslationError("_multiplication_helper: calculators")
    if not (isinstance(stmts[-1], ast.Return) and ast.unparse(stmts[-1]) == "return fg"):
        raise TranslationError("_multiplication_helper: must return fg")
    body = stmts[:-1]
    alias = {}

    class R(ast.NodeTransformer):
        def visit_Assign(self, node):
            v = node.value
            if isinstance(v, ast.Call) and isinstance(v.func, ast.Attribute) and v.func.attr == "calculate" and isinstance(v.func.value, ast.Name):
                c = v.func.value.id
                t = node.targets[0]
                if c not in calcs or not isinstance(t, ast.Name) or len(v.args) != 4 or v.keywords:
                    raise TranslationError(f"_multiplication_helper: {ast.unparse(node)}")
                if alias.get(t.id, c) != c:
                    raise TranslationError(f"_multiplication_helper: {t.id} holds results of two calculators")
                alias[t.id] = c
                args = [self.visit(a) for a in v.args]
                return ast.Expr(value=ast.Call(func=ast.Name(id="w3jcalc", ctx=ast.Load()), args=[ast.Name(id=c, ctx=ast.Load())] + args, keywords=[]))
            return self.generic_visit(node)

        def visit_Call(self, node):
            node = self.generic_visit(node)
            if ast.unparse(node.func) == "math.pow" and len(node.args) == 2 and ast.unparse(node.args[0]) == "-1":
                return ast.BinOp(left=ast.UnaryOp(op=ast.USub(), operand=ast.Constant(value=1)), op=ast.Pow(), right=node.args[1])
            return node

        def visit_Attribute(self, node):
            if ast.unparse(node) == "math.pi":
                return ast.Name(id="math_pi", ctx=ast.Load())
            return self.generic_visit(node)

        def visit_Name(self, node):
            return ast.Name(id="Yindex", ctx=node.ctx) if node.id == "LM_index" else node

        def visit_Subscript(self, node):
            node = self.generic_visit(node)
            sl = node.slice
            if isinstance(sl, ast.Tuple) and len(sl.elts) == 2 and isinstance(sl.elts[0], ast.Constant) and sl.elts[0].value is Ellipsis:
                node = ast.Subscript(value=node.value, slice=sl.elts[1], ctx=node.ctx)
            return node
    body = [R().visit(_copy.deepcopy(s)) for s in body]

    class A(ast.NodeTransformer):       # reads of a result are reads of its calculator's array
        def visit_Name(self, node):
            return ast.Name(id=alias[node.id], ctx=node.ctx) if node.id in alias else node
    body = [ast.fix_missing_locations(A().visit(s)) for s in body]
    # an alias must not be used before it is (re)assigned in a way the rewriting would hide: every alias is assigned exactly once in the text
    fdk = ast.parse("def u_multiplication_helper(" + ", ".join(pnames + calcs + ["math_pi"]) + "):\n    pass\n").body[0]
    fdk.body = body
    ast.fix_missing_locations(fdk)
    kt = KTr(fns, {}, set(), fdk, complex_arrays={"f", "g", "fg"})
    kt.kernels["w3jcalc"] = Kernel("w3jcalc", ["calc", "j2", "j3", "m2", "m3"], {"calc": ARR, "j2": INT, "j3": INT, "m2": INT, "m3": INT})
    kt.force_kinds = {c: ARR for c in calcs}
    kt.force_kinds["math_pi"] = FLT
    k, txt = kt.translate(lean_name="u_multiplication_helper")
    if "w3jcalc (α := α)" not in txt:
        raise TranslationError("_multiplication_helper: no calculate call found")
    txt = txt.replace("w3jcalc (α := α)", "w3jcalc")
    txt = txt.replace(" (st : φ) : φ :=", " (w3jcalc : Nat → Int → Int → Int → Int → φ → φ) (st : φ) : φ :=", 1)
    src = "\n".join("      " + l for s in stmts[:-1] for l in nfkc(ast.unparse(s)).splitlines())
    out = [MUL_HEADER, f"/-- `_multiplication_helper` (after the construction of the calculators {', '.join(calcs)}):\n\n{src} -/\n" + txt, "end\nend Gen\n"]
    write_if_changed(os.path.join(gen_dir, "MulKern.lean"), "\n".join(out))
    return {k.name: [(p, k.kinds[p]) for p in k.params] + [("w3jcalc", "ext")]}


# ---------------------------------------------------------------------------------------------------------------------
# spherical/recursions/wigner3j.py: Wigner3jCalculator.calculate (with normalize / determine_signs inlined)
# ---------------------------------------------------------------------------------------------------------------------
W3J_HEADER = """import SphericalVerif.Gen.W3j
import SphericalVerif.Model.FlatMem
/-! GENERATED by vlib/py2lean_kern.py from spherical/recursions/wigner3j.py (`A`, `Xf`, `Zf`, `Yf = B`, `normalize`,
    `determine_signs`, `Wigner3jCalculator.calculate`) -- do not edit.  Regenerated on every check.

    `calculate` as a function on the flat memory: `workspace` is the object's array, `size` its `_size`; the four views
    `f, sf (= rf), F_minus, F_plus` are the offsets `0, size, 2*size, 3*size` into it (read off the slice expressions); `normalize`
    and `determine_signs` are inlined (their parameter names are the argument names); slice statements are element loops; an early
    `return f` makes the rest of the function the `else` branch; a `for` loop with `break` carries a flag that disables the remaining
    turns; booleans are the integers 0/1; `raise ValueError` stores 1.0 in the cell `workspace[4*size]`, one past the array (the
    exception flag; nothing else touches that cell) and ends the function.  Integer helpers are the generated `Gen.B_ret` (`Yf = B`, int64
    arithmetic and the declared return width) and `Gen.A_radicand_w` (the radicand of `A` in int64 arithmetic). -/
set_option linter.unusedVariables false
namespace Gen
section
open Scalar
variable {α : Type} [Scalar α] {φ : Type} [FMem φ α]
"""


def _cps_returns(stmts, fname):
    """an `if` whose body ends with `return`/`raise` makes the statements after it its else-branch; a trailing `return` is dropped"""
    out = []
    for i, s in enumerate(stmts):
        if isinstance(s, ast.Return):
            return out
        if isinstance(s, ast.If):
            body = _cps_returns(s.body, fname) if any(isinstance(x, (ast.Return,)) for x in ast.walk(ast.Module(body=s.body, type_ignores=[]))) else None
            ends = bool(s.body) and isinstance(s.body[-1], ast.Return)
            if ends and not s.orelse:
                rest = _cps_returns(stmts[i + 1:], fname)
                out.append(ast.If(test=s.test, body=_cps_returns(s.body[:-1], fname) or [ast.Pass()], orelse=rest or [ast.Pass()]))
                return out
            if any(isinstance(x, ast.Return) for b in (s.body, s.orelse) for y in b for x in ast.walk(y)):
                raise TranslationError(f"{fname}: `return` in a position the translator does not restructure: {ast.unparse(s)[:80]}")
        if isinstance(s, (ast.For, ast.While)) and any(isinstance(x, ast.Return) for x in ast.walk(s)):
            raise TranslationError(f"{fname}: `return` inside a loop")
        out.append(s)
    return out


class _BreakFlags(ast.NodeTransformer):
    n = 0

    def visit_For(self, node):
        node = self.generic_visit(node)
        brks = [x for x in ast.walk(ast.Module(body=node.body, type_ignores=[])) if isinstance(x, ast.Break)]
        if not brks:
            return node
        if len(brks) != 1:
            raise TranslationError("more than one `break` in a loop")
        _BreakFlags.n += 1
        flag = f"brk{_BreakFlags.n}_"
        # the `break` must be the last statement of a branch of the LAST statement of the loop body (nothing runs after it in that turn)
        last = node.body[-1]
        ok = isinstance(last, ast.If) and ((last.body and isinstance(last.body[-1], ast.Break)) or (last.orelse and isinstance(last.orelse[-1], ast.Break)))
        if not ok:
            raise TranslationError(f"`break` is not the last action of the loop body: {ast.unparse(node)[:100]}")

        class B(ast.NodeTransformer):
            def visit_Break(s2, b):
                return ast.Assign(targets=[ast.Name(id=flag, ctx=ast.Store())], value=ast.Constant(value=1))

            def visit_For(s2, inner):
                return inner
        body = [B().visit(x) for x in node.body]
        guard = ast.If(test=ast.Compare(left=ast.Name(id=flag, ctx=ast.Load()), ops=[ast.Eq()], comparators=[ast.Constant(value=0)]), body=body, orelse=[])
        return [ast.Assign(targets=[ast.Name(id=flag, ctx=ast.Store())], value=ast.Constant(value=0)),
                ast.For(target=node.target, iter=node.iter, body=[guard], orelse=[])]


class _SnapshotBounds(ast.NodeTransformer):
    """`range(...)` is evaluated once: bounds that mention a name assigned in the loop body are copied to a fresh local first"""
    n = 0

    def visit_For(self, node):
        node = self.generic_visit(node)
        assigned = {t.id for x in ast.walk(ast.Module(body=node.body, type_ignores=[])) if isinstance(x, (ast.Assign, ast.AugAssign))
                    for t in ([x.target] if isinstance(x, ast.AugAssign) else x.targets) if isinstance(t, ast.Name)}
        if not (isinstance(node.iter, ast.Call) and isinstance(node.iter.func, ast.Name) and node.iter.func.id == "range"):
            return node
        pre, args = [], []
        for a in node.iter.args:
            if {n.id for n in ast.walk(a) if isinstance(n, ast.Name)} & assigned:
                _SnapshotBounds.n += 1
                nm = f"bound{_SnapshotBounds.n}_"
                pre.append(ast.Assign(targets=[ast.Name(id=nm, ctx=ast.Store())], value=a))
                args.append(ast.Name(id=nm, ctx=ast.Load()))
            else:
                args.append(a)
        if not pre:
            return node
        node.iter = ast.Call(func=node.iter.func, args=args, keywords=[])
        return pre + [node]


def generate_w3jkern(fns, gen_dir, write_if_changed):
    import copy as _copy
    path = "spherical/recursions/wigner3j.py"
    tree = ast.parse(open(os.path.join(REPO, path), encoding="utf-8").read())
    _SnapshotBounds.n = 0
    _BreakFlags.n = 0
    out = [W3J_HEADER]
    # ---- float helpers -------------------------------------------------------------------------------------------------
    fdA = find_function(tree, "A")
    if [a.arg for a in fdA.args.args] != ["j", "j2", "j3", "m1"] or not (isinstance(fdA.body[-1], ast.Return) and ast.unparse(fdA.body[-1].value.func) == "math.sqrt"):
        raise TranslationError("wigner3j.A: expected `return math.sqrt(<radicand>)`")
    out.append("/-- `A(j, j2, j3, m1) = math.sqrt(<radicand>)`, the radicand in int64 arithmetic (`Gen.A_radicand_w`, generated) -/\n"
               "def W3j_A (j j2 j3 m1 : Int) : α := Scalar.sqrt (Scalar.ofInt (A_radicand_w j j2 j3 m1) : α)\n")
    if not any(isinstance(s, ast.Assign) and ast.unparse(s) == "Yf = B" for s in tree.body):
        raise TranslationError("wigner3j: `Yf = B` not found")
    fns_local = dict(fns)
    fns_local["Yf"] = py2lean.Fn("B_ret", fns["B"].params, {}, None, path)
    for nm, want in (("Xf", "j * A(j + 1, j2, j3, m1)"), ("Zf", "(j + 1) * A(j, j2, j3, m1)")):
        fd = find_function(tree, nm)
        ret = fd.body[-1]
        if [a.arg for a in fd.args.args] != ["j", "j2", "j3", "m1"] or not isinstance(ret, ast.Return) or len([s for s in fd.body if not isinstance(s, ast.Expr)]) != 1:
            raise TranslationError(f"wigner3j.{nm}: shape")
        kt = KTr(fns_local, {}, set(), ast.parse("def f(j, j2, j3, m1):\n  pass").body[0])
        kt.kinds = {"j": INT, "j2": INT, "j3": INT, "m1": INT}
        kt.float_fns = {"A": "W3j_A"}
        out.append(f"/-- `{nm}(j, j2, j3, m1) = {ast.unparse(ret.value)}` -/\ndef W3j_{nm} (j j2 j3 m1 : Int) : α := {kt.fexpr(ret.value)}\n")
    # ---- calculate ------------------------------------------------------------------------------------------------------
    fd = find_function(tree, "calculate", "Wigner3jCalculator")
    if [a.arg for a in fd.args.args] != ["self", "j2", "j3", "m2", "m3"]:
        raise TranslationError("Wigner3jCalculator.calculate: signature")
    fsz = find_function(tree, "size", "Wigner3jCalculator")
    if ast.unparse(fsz.body[-1]) != "return self._size":
        raise TranslationError("Wigner3jCalculator.size")
    body = [s for s in _copy.deepcopy(fd.body) if not (isinstance(s, ast.Expr) and isinstance(s.value, ast.Constant))]
    # inline normalize / determine_signs
    inl = {}
    for nm, params in (("normalize", ["f", "j_min", "j_max"]), ("determine_signs", ["f", "j_min", "j_max", "j2", "j3", "m2", "m3"])):
        g = find_function(tree, nm)
        if [a.arg for a in g.args.args] != params:
            raise TranslationError(f"wigner3j.{nm}: signature")
        inl[nm] = (params, [s for s in g.body if not (isinstance(s, ast.Expr) and isinstance(s.value, ast.Constant))])

    class Inl(ast.NodeTransformer):
        def visit_Expr(self, node):
            c = node.value
            if isinstance(c, ast.Call) and isinstance(c.func, ast.Name) and c.func.id in inl:
                params, b = inl[c.func.id]
                if [ast.unparse(a) for a in c.args] != params or c.keywords:
                    raise TranslationError(f"calculate: {ast.unparse(c)} (arguments must be the parameter names)")
                return _copy.deepcopy(b)
            return node
    body = [y for s in body for y in (lambda r: r if isinstance(r, list) else [r])(Inl().visit(s))]
    # views of the workspace
    views = {}
    keep = []
    for s in body:
        if isinstance(s, ast.Assign) and len(s.targets) == 1 and isinstance(s.targets[0], ast.Name):
            t, v = s.targets[0].id, s.value
            txt = ast.unparse(v)
            if isinstance(v, ast.Subscript) and ast.unparse(v.value) == "self.workspace" and isinstance(v.slice, ast.Slice) and v.slice.step is None:
                lo = v.slice.lower
                hi = ast.unparse(v.slice.upper) if v.slice.upper is not None else None
                lotxt = "0" if lo is None else ast.unparse(lo)
                table = {"0": "self.size", "self.size": "2 * self.size", "2 * self.size": "3 * self.size", "3 * self.size": "4 * self.size"}
                if table.get(lotxt) != hi:
                    raise TranslationError(f"calculate: view {t} = {txt}")
                views[t] = ast.Constant(value=0) if lo is None else ast.parse(lotxt.replace("self.size", "size")).body[0].value
                continue
            if isinstance(v, ast.Name) and v.id in views:
                views[t] = views[v.id]
                continue
        keep.append(s)
    body = keep
    if set(views) != {"f", "sf", "rf", "F_minus", "F_plus"}:
        raise TranslationError(f"calculate: views {sorted(views)}")

    class V(ast.NodeTransformer):
        def visit_Subscript(self, node):
            node = self.generic_visit(node)
            if isinstance(node.value, ast.Name) and node.value.id in views:
                off = _copy.deepcopy(views[node.value.id])

                def sh(e):
                    return ast.BinOp(left=_copy.deepcopy(off), op=ast.Add(), right=e)
                if isinstance(node.slice, ast.Slice):
                    if node.slice.step is not None or node.slice.lower is None or node.slice.upper is None:
                        raise TranslationError(f"calculate: slice {ast.unparse(node)}")
                    sl = ast.Slice(lower=sh(node.slice.lower), upper=sh(node.slice.upper), step=None)
                else:
                    sl = sh(node.slice)
                return ast.Subscript(value=ast.Name(id="workspace", ctx=ast.Load()), slice=sl, ctx=node.ctx)
            if ast.unparse(node.value) == "self.workspace":
                if ast.unparse(node.slice) != ":":
                    raise TranslationError(f"calculate: {ast.unparse(node)}")
                return ast.Subscript(value=ast.Name(id="workspace", ctx=ast.Load()),
                                     slice=ast.Slice(lower=ast.Constant(value=0), upper=ast.parse("4 * size").body[0].value, step=None), ctx=node.ctx)
            return node

        def visit_Attribute(self, node):
            if ast.unparse(node) == "self.size":
                return ast.Name(id="size", ctx=ast.Load())
            return self.generic_visit(node)

        def visit_Return(self, node):
            if node.value is not None and not (isinstance(node.value, ast.Name) and node.value.id == "f"):
                raise TranslationError(f"calculate: {ast.unparse(node)}")
            return ast.Return(value=None)

        def visit_Raise(self, node):
            # the exception flag: one cell past the array
            return [ast.Assign(targets=[ast.Subscript(value=ast.Name(id="workspace", ctx=ast.Load()), slice=ast.parse("4 * size").body[0].value, ctx=ast.Store())],
                               value=ast.Constant(value=1.0)), ast.Return(value=None)]

        def visit_Constant(self, node):
            if node.value is True:
                return ast.Constant(value=1)
            if node.value is False:
                return ast.Constant(value=0)
            return node
    body = [y for s in body for y in (lambda r: r if isinstance(r, list) else [r])(V().visit(s))]
    # boolean flags in conditions
    flags = {s.targets[0].id for s in ast.walk(ast.Module(body=body, type_ignores=[])) if isinstance(s, ast.Assign) and isinstance(s.targets[0], ast.Name)
             and isinstance(s.value, ast.Constant) and s.value.value in (0, 1) and s.targets[0].id.startswith("undefined_")}

    class Bo(ast.NodeTransformer):
        def cond(self, e):
            if isinstance(e, ast.BoolOp):
                return ast.BoolOp(op=e.op, values=[self.cond(v) for v in e.values])
            if isinstance(e, ast.UnaryOp) and isinstance(e.op, ast.Not) and isinstance(e.operand, ast.Name) and e.operand.id in flags:
                return ast.Compare(left=e.operand, ops=[ast.Eq()], comparators=[ast.Constant(value=0)])
            if isinstance(e, ast.Name) and e.id in flags:
                return ast.Compare(left=e, ops=[ast.NotEq()], comparators=[ast.Constant(value=0)])
            return e

        def visit_If(self, node):
            node = self.generic_visit(node)
            node.test = self.cond(node.test)
            return node
    body = [Bo().visit(s) for s in body]
    body = _cps_returns(body, "calculate")
    body = [y for s in body for y in (lambda r: r if isinstance(r, list) else [r])(_SnapshotBounds().visit(s))]
    body = [y for s in body for y in (lambda r: r if isinstance(r, list) else [r])(_BreakFlags().visit(s))]
    body = [y for s in body for y in (lambda r: r if isinstance(r, list) else [r])(_Deslice().visit(s))]
    fdk = ast.parse("def Wigner3jCalculator_calculate(workspace, size, j2, j3, m2, m3):\n    pass\n").body[0]
    fdk.body = body
    ast.fix_missing_locations(fdk)
    kt = KTr(fns_local, {}, set(), fdk)
    kt.float_fns = {"Xf": "W3j_Xf", "Zf": "W3j_Zf"}
    k, txt = kt.translate(lean_name="Wigner3jCalculator_calculate")
    out.append("/-- `Wigner3jCalculator.calculate(j2, j3, m2, m3)` -/\n" + txt)
    sig = {k.name: [(p, k.kinds[p]) for p in k.params]}
    # ---- the front end `Wigner3j(j_1, j_2, j_3, m_1, m_2, m_3)`: the returned double is stored in `result[0]` ------------------------
    fdw = find_function(tree, "Wigner3j")
    if [a.arg for a in fdw.args.args] != ["j_1", "j_2", "j_3", "m_1", "m_2", "m_3"]:
        raise TranslationError("Wigner3j: signature")
    wb = [s for s in _copy.deepcopy(fdw.body) if not (isinstance(s, ast.Expr) and isinstance(s.value, ast.Constant))]
    if [nfkc(ast.unparse(x)) for x in wb[-3:]] != ["calculator = Wigner3jCalculator(j_2, j_3)", "w3j = calculator.calculate(j_2, j_3, m_2, m_3)", "return w3j[j_1]"]:
        raise TranslationError("Wigner3j: tail " + str([nfkc(ast.unparse(x)) for x in wb[-3:]]))
    wb = wb[:-3] + ast.parse("Wigner3jCalculator_calculate(workspace, j_2 + j_3 + 1, j_2, j_3, m_2, m_3)\nreturn workspace[j_1]").body

    class RetOut(ast.NodeTransformer):      # `return X` -> `result[0] = X; return`
        def visit_Return(self, node):
            return [ast.Assign(targets=[ast.Subscript(value=ast.Name(id="result", ctx=ast.Load()), slice=ast.Constant(value=0), ctx=ast.Store())], value=node.value),
                    ast.Return(value=None)]
    wb = [y for s in wb for y in (lambda r: r if isinstance(r, list) else [r])(RetOut().visit(s))]
    wb = [y for s in wb for y in (lambda r: r if isinstance(r, list) else [r])(_AlgRewrite(False).visit(s))]     # (tuple assignments evaluate their right-hand sides first)
    wb = _cps_returns(wb, "Wigner3j")
    fdk = ast.parse("def Wigner3j(result, workspace, j_1, j_2, j_3, m_1, m_2, m_3):\n    pass\n").body[0]
    fdk.body = wb
    ast.fix_missing_locations(fdk)
    kt = KTr(fns_local, {"Wigner3jCalculator_calculate": k}, set(), fdk)
    kt.force_kinds = {"workspace": ARR, "result": ARR}
    k2, txt2 = kt.translate(lean_name="Wigner3j")
    out.append("/-- `Wigner3j(j_1, j_2, j_3, m_1, m_2, m_3)`: the returned double is stored in `result[0]`; `workspace` is the array of the fresh\n"
               "    `Wigner3jCalculator(j_2, j_3)` the function constructs (size `j_2 + j_3 + 1`) -/\n" + txt2)
    sig[k2.name] = [(p, k2.kinds[p]) for p in k2.params]
    fdc = find_function(tree, "clebsch_gordan")
    rc = [s for s in fdc.body if not (isinstance(s, ast.Expr) and isinstance(s.value, ast.Constant))]
    if len(rc) != 1 or nfkc(ast.unparse(rc[0])) != "return (-1.0) ** (j_1 - j_2 + m_3) * math.sqrt(2 * j_3 + 1) * Wigner3j(j_1, j_2, j_3, m_1, m_2, -m_3)":
        raise TranslationError("clebsch_gordan: " + nfkc(ast.unparse(rc[0])) if rc else "clebsch_gordan")
    out.append("/-- `clebsch_gordan(j_1, m_1, j_2, m_2, j_3, m_3) = (-1.)**(j_1-j_2+m_3) * math.sqrt(2*j_3+1) * Wigner3j(j_1, j_2, j_3, m_1, m_2, -m_3)`:\n"
               "    the factor that multiplies the value `Wigner3j` leaves in `result[0]` (left to right, as written) -/\n"
               "def clebsch_gordan (result workspace : Nat) (j_1 m_1 j_2 m_2 j_3 m_3 : Int) (st : φ) : α :=\n"
               "  (((Scalar.ofInt ((-1 : Int) ^ (Int.natAbs ((j_1 - j_2) + m_3))) : α) *. (Scalar.sqrt (Scalar.ofInt (((2 : Int) * j_3) + (1 : Int)) : α)))\n"
               "    *. (frd (α := α) (Wigner3j (α := α) result workspace j_1 j_2 j_3 m_1 m_2 (- m_3) st) result (0 : Int)))\n")
    out.append("end\nend Gen\n")
    write_if_changed(os.path.join(gen_dir, "W3jKern.lean"), "\n".join(out))
    return sig


# ---------------------------------------------------------------------------------------------------------------------
# spherical/wigner.py: _rotate (the matrix route of Wigner.rotate) — `row @ block` as a left fold in index order
# ---------------------------------------------------------------------------------------------------------------------
def generate_rotmkern(fns, gen_dir, write_if_changed):
    import copy as _copy
    wtree = ast.parse(open(os.path.join(REPO, "spherical/wigner.py"), encoding="utf-8").read())
    fd = find_function(wtree, "_rotate")
    names = [nfkc(a.arg) for a in fd.args.args]
    if names != [nfkc(x) for x in ["fₗₘ", "fₗₙ", "ell_min_w", "ell_max_w", "mp_max_w", "ell_min_m", "ell_max_m", "spin_weight_m", "𝔇"]]:
        raise TranslationError(f"_rotate: signature {names}")
    body = [s for s in fd.body if not (isinstance(s, ast.Expr) and isinstance(s.value, ast.Constant))]
    if len(body) != 1 or not isinstance(body[0], ast.For):
        raise TranslationError("_rotate: expected one `for ell` loop")
    loop = _copy.deepcopy(body[0])
    inner = [nfkc(ast.unparse(x)) for x in loop.body]
    flm, fln, D = names[0], names[1], names[8]
    Dl = None
    for t in inner:
        if t.endswith(".reshape(2 * ell + 1, 2 * ell + 1)"):
            Dl = t.split(" = ")[0]
    want = ["i1 = Yindex(ell, -ell, ell_min_m)", "i2 = Yindex(ell, ell, ell_min_m) + 1",
            f"{Dl} = {D}[WignerDindex(ell, -ell, -ell, ell_min_w):WignerDindex(ell, ell, ell, ell_min_w) + 1]",
            f"{Dl} = {Dl}.reshape(2 * ell + 1, 2 * ell + 1)",
            f"for i in range({fln}.shape[0]):\n    {fln}[i, i1:i2] = {flm}[i, i1:i2] @ {Dl}"]
    if inner != want:
        raise TranslationError(f"_rotate: loop body {inner}")
    # the block is the contiguous slice of the flat D array starting at d1, C-order (2ell+1) x (2ell+1): element (k, c) at d1 + k*(2ell+1) + c;
    # `row @ block` = for each column c the sum over k, accumulated from 0 in index order (one admissible order: BLAS does not fix one)
    new_inner = ast.parse(
        "i1 = Yindex(ell, -ell, ell_min_m)\n"
        "i2 = Yindex(ell, ell, ell_min_m) + 1\n"
        "d1 = WignerDindex(ell, -ell, -ell, ell_min_w)\n"
        f"for i in range({fln}_shape0):\n"
        "    for c_ in range(i2 - i1):\n"
        "        acc_ = 0j\n"
        "        for k_ in range(i2 - i1):\n"
        f"            acc_ = acc_ + {flm}[i, i1 + k_] * {D}[d1 + k_ * (2 * ell + 1) + c_]\n"
        f"        {fln}[i, i1 + c_] = acc_\n").body
    loop.body = new_inner
    fdk = ast.parse(f"def u_rotate({', '.join(names)}, {fln}_shape0):\n    pass\n").body[0]
    fdk.body = [loop]
    ast.fix_missing_locations(fdk)
    k, txt = KTr(fns, {}, set(), fdk, complex_arrays={flm, fln, D}, dims2={flm, fln}).translate(lean_name="u_rotate")
    out = [FILL_HEADER.format(src="spherical/wigner.py (_rotate; the matrix branches of Wigner.rotate and Wigner.evaluate)").replace(
           "import SphericalVerif.Model.FlatMem\n", "import SphericalVerif.Model.FlatMem\nimport SphericalVerif.Gen.MethodKern\n").replace("The kernels that turn the H wedge into results",
           "The matrix route of `Wigner.rotate`: per ℓ the row of weights times the (2ℓ+1)×(2ℓ+1) block of the flat 𝔇 array (`row @ block`: for each column the sum over the row index, accumulated from 0 in index order — BLAS fixes no order, so at `Float` this is one admissible rounding; over exact reals the order is immaterial)"),
           "/-- `_rotate`:\n\n" + "\n".join("      " + l for l in nfkc(ast.unparse(body[0])).splitlines()) + " -/\n" + txt, "end\nend Gen\n"]
    sig = {k.name: [(p, k.kinds[p]) for p in k.params]}
    # ---- the matrix branch of Wigner.evaluate: slice bounds + np.matmul(mode_weights[:, i1:i1+n], Y[j1:j1+n], out=function_values[..., i_R]) ----
    fde = find_function(wtree, "evaluate", "Wigner")
    ifs = [x for x in fde.body if isinstance(x, ast.If) and nfkc(ast.unparse(x.test)) == "horner"]
    if len(ifs) != 1:
        raise TranslationError("Wigner.evaluate: `if horner:` not found")
    eb = [x for x in ifs[0].orelse if not (isinstance(x, ast.Expr) and isinstance(x.value, ast.Constant))]
    txts = [nfkc(ast.unparse(x)) for x in eb]
    want = ["Y = np.zeros(self.Ysize, dtype=complex)", "ell_lo = max(self.ell_min, ell_min)", "i1 = Yindex(ell_lo, -ell_lo, ell_min)",
            "j1 = Yindex(ell_lo, -ell_lo, self.ell_min)", "n = max(Ysize(ell_lo, ell_max), 0)",
            "for i_R in range(quaternions.shape[0]):\n    self.sYlm(spin_weight, quaternions[i_R], out=Y, workspace=workspace)\n"
            "    np.matmul(mode_weights[:, i1:i1 + n], Y[j1:j1 + n], out=function_values[..., i_R])"]
    if txts != want:
        raise TranslationError(f"Wigner.evaluate: matrix branch {txts}")
    src = ("def Wigner_evaluate_matrix_contract(mode_weights, Y, function_values_col, self_ell_min, ell_min, ell_max, mode_weights_shape0):\n"
           "    ell_lo = max(self_ell_min, ell_min)\n"
           "    i1 = Yindex(ell_lo, -ell_lo, ell_min)\n"
           "    j1 = Yindex(ell_lo, -ell_lo, self_ell_min)\n"
           "    n = max(Ysize(ell_lo, ell_max), 0)\n"
           "    for i in range(mode_weights_shape0):\n"
           "        acc_ = 0j\n"
           "        for k_ in range(n):\n"
           "            acc_ = acc_ + mode_weights[i, i1 + k_] * Y[j1 + k_]\n"
           "        function_values_col[i] = acc_\n")
    fdk = ast.parse(src).body[0]
    k2, txt2 = KTr(fns, {}, set(), fdk, complex_arrays={"mode_weights", "Y", "function_values_col"}, dims2={"mode_weights"}).translate(lean_name="Wigner_evaluate_matrix_contract")
    out.insert(-1, "/-- the matrix branch of `Wigner.evaluate` for one rotor, after `self.sYlm(spin_weight, quaternions[i_R], out=Y, …)` has filled `Y`: the slice\n"
               "    bounds as the text computes them and `np.matmul(mode_weights[:, i1:i1+n], Y[j1:j1+n], out=function_values[..., i_R])` — per row of weights\n"
               "    the sum over the slice, accumulated from 0 in index order (one admissible order) -/\n" + txt2)
    sig[k2.name] = [(p, k2.kinds[p]) for p in k2.params]
    # ---- the two matrix branches at method level: which generated bodies they chain, with which arguments ------------------------------
    fdr = find_function(wtree, "rotate", "Wigner")
    rifs = [x for x in fdr.body if isinstance(x, ast.If) and nfkc(ast.unparse(x.test)).startswith("horner or ")]
    if len(rifs) != 1:
        raise TranslationError("Wigner.rotate: strategy selection not found")
    rb = [nfkc(ast.unparse(x)) for x in rifs[0].orelse]
    if rb != ["D = self.D(R, workspace=workspace)",
              "_rotate(mode_weights, rotated_mode_weights, self.ell_min, self.ell_max, self.mp_max, ell_min, ell_max, spin_weight, D)"]:
        raise TranslationError(f"Wigner.rotate: matrix branch {rb}")
    drot = KERNELS.get("Wigner_D_rotor")
    yrot = KERNELS.get("Wigner_sYlm_rotor")
    # (generate_methods registers its definitions by name in METHOD_SIGS)
    dsig = METHOD_SIGS.get("Wigner_D_rotor")
    ysig = METHOD_SIGS.get("Wigner_sYlm_rotor")
    if dsig is None or ysig is None:
        raise TranslationError("method bodies of Wigner.D / Wigner.sYlm not generated")

    def call_body(sig_, rename):
        ps, args = [], []
        for (n, t) in sig_:
            m = rename.get(n, n)
            args.append(m)
            ps.append((m, t))
        return ps, " ".join(args)
    dps, dargs = call_body(dsig, {"quaternions_row": "R", "function_values_row": "D"})
    rot_params = dps + [("mode_weights", "Int → Cx α"), ("rotated_mode_weights", "Nat"), ("ell_min", "Int"), ("ell_max", "Int"), ("spin_weight", "Int"),
                        ("rotated_mode_weights_shape0", "Int"), ("mode_weights_shape1", "Int"), ("rotated_mode_weights_shape1", "Int")]
    kr = KERNELS["u_rotate"]
    want_r = ["flm", "fln", "ell_min_w", "ell_max_w", "mp_max_w", "ell_min_m", "ell_max_m", "spin_weight_m", "D", "fln_shape0", "flm_shape1", "fln_shape1"]
    if kr.params != want_r:
        raise TranslationError(f"u_rotate: parameters {kr.params}")
    out.insert(-1, "/-- the matrix branch of `Wigner.rotate` (the default strategy):\n\n      D = self.D(R, workspace=workspace)\n"
               "      _rotate(mode_weights, rotated_mode_weights, self.ell_min, self.ell_max, self.mp_max, ell_min, ell_max, spin_weight, D)\n\n"
               "    `self.D` is the generated body of `Wigner.D` for the one rotor (`D` a fresh array), `_rotate` reads that array as it is after the call -/\n"
               "def Wigner_rotate_matrix_body " + " ".join(f"({n} : {t})" for n, t in rot_params) + " (st : φ) : φ :=\n"
               f"  let st : φ := Wigner_D_rotor (α := α) {dargs} st\n"
               "  let st : φ := u_rotate (α := α) mode_weights rotated_mode_weights self_ell_min self_ell_max self_mp_max ell_min ell_max spin_weight "
               "(fun i => frdC (α := α) st D i) rotated_mode_weights_shape0 mode_weights_shape1 rotated_mode_weights_shape1 st\n  st\n")
    yps, yargs = call_body(ysig, {"quaternions_row": "quaternions_row", "function_values_row": "Y", "s": "spin_weight"})
    ev_params = yps + [("mode_weights", "Int → Cx α"), ("function_values_col", "Nat"), ("ell_min", "Int"), ("ell_max", "Int"),
                       ("mode_weights_shape0", "Int"), ("mode_weights_shape1", "Int")]
    if k2.params != ["mode_weights", "Y", "function_values_col", "self_ell_min", "ell_min", "ell_max", "mode_weights_shape0", "mode_weights_shape1"]:
        raise TranslationError(f"Wigner_evaluate_matrix_contract: parameters {k2.params}")
    out.insert(-1, "/-- the loop body of the matrix branch of `Wigner.evaluate` (the default strategy):\n\n"
               "      self.sYlm(spin_weight, quaternions[i_R], out=Y, workspace=workspace)\n"
               "      np.matmul(mode_weights[:, i1:i1 + n], Y[j1:j1 + n], out=function_values[..., i_R])\n\n"
               "    `self.sYlm(…, out=Y)` is the generated body of `Wigner.sYlm` writing the array `Y`; the contraction reads `Y` as it is after the call -/\n"
               "def Wigner_evaluate_matrix_rotor " + " ".join(f"({n} : {t})" for n, t in ev_params) + " (st : φ) : φ :=\n"
               f"  let st : φ := Wigner_sYlm_rotor (α := α) {yargs} st\n"
               "  let st : φ := Wigner_evaluate_matrix_contract (α := α) mode_weights (fun i => frdC (α := α) st Y i) function_values_col self_ell_min ell_min ell_max "
               "mode_weights_shape0 mode_weights_shape1 st\n  st\n")
    write_if_changed(os.path.join(gen_dir, "RotMKern.lean"), "\n".join(out))
    return sig
