import SphericalVerif.Lemmas.DDef
import SphericalVerif.Props.DocD
import SphericalVerif.Props.Routes
/-! Helper lemmas for `Props/DAll.lean`: the object-level model `Model.objD` of `Wigner.D` computes the DOCUMENTED
    matrix `DDef.docD` (docs/WignerDMatrices.md, Eq. "DAnalytically") for EVERY degree ℓ and EVERY unit quaternion.

    Route.  Write R_a = sa·P, R_b = sb·Q with sa = |R_a|, sb = |R_b| real and P, Q of unit modulus (in the degenerate
    branches of `to_euler_phases` the undetermined phase is 1, and sa resp. sb is 0 — the factorisation still holds).
      * `docD_factor` (pure algebra): in every ρ-term of the documented sum with non-vanishing binomials,
          R_a^{ℓ+m'−ρ} conj(R_a)^{ℓ−ρ−m} = sa^{…} P^{m'+m},   R_b^{ρ−m'+m} conj(R_b)^ρ = sb^{…} Q^{m−m'},
        so  docD ℓ (sa P) (sb Q) m' m = docd sa sb ℓ m' m · P^{m'+m} Q^{m−m'}  with `DocD.docd` the documented REAL d.
      * the model: `DEntry` = ε ε · H-cell · zᵧ^m · zₐ^{m'} (`Horner.toC_DEntry`, `CPow.cpowers_exact`), the H-cell is
        `valW` (`HRefine.runH_refines`), ε ε `valW` at (cos β, sin β) = (sa² − sb², 2 sa sb) is `docd sa sb`
        (`DocD.objd_eq_docd`), and zₐ = P·conj Q, zᵧ = P·Q, so zᵧ^m zₐ^{m'} = P^{m'+m} Q^{m−m'}. -/
noncomputable section
namespace DAll
open Model Spec Horner DDef DocD
open scoped ComplexConjugate Nat

/-! ### unit-modulus complex numbers -/

theorem ne_zero_of_unit {P : ℂ} (hP : P * conj P = 1) : P ≠ 0 := by
  rintro rfl; simp at hP

theorem conj_eq_inv {P : ℂ} (hP : P * conj P = 1) : conj P = P⁻¹ := eq_inv_of_mul_eq_one_right hP

theorem normSq_of_unit {P : ℂ} (hP : P * conj P = 1) : Complex.normSq P = 1 := by
  rw [Complex.mul_conj] at hP; exact_mod_cast hP

theorem conj_unit' {P : ℂ} (hP : P * conj P = 1) : conj P * conj (conj P) = 1 := by
  rw [Complex.conj_conj, mul_comm]; exact hP

theorem mul_unit' {P Q : ℂ} (hP : P * conj P = 1) (hQ : Q * conj Q = 1) : (P * Q) * conj (P * Q) = 1 := by
  rw [map_mul]; linear_combination (Q * conj Q) * hP + hQ

/-- P^a conj(P)^b = P^{a−b} on the unit circle -/
theorem pow_mul_conj_pow {P : ℂ} (hP : P * conj P = 1) (a b : ℕ) :
    P ^ a * conj P ^ b = P ^ ((a : ℤ) - b) := by
  rw [conj_eq_inv hP, zpow_sub₀ (ne_zero_of_unit hP), zpow_natCast, zpow_natCast, inv_pow, div_eq_mul_inv]

/-! ### the documented complex sum factors into the documented real d times two phases -/

/-- one ρ-term: moduli and phases separate -/
theorem term_factor (sa sb : ℝ) {P Q : ℂ} (hP : P * conj P = 1) (hQ : Q * conj Q = 1)
    (c ρ e1 e2 e3 : ℕ) (k1 k2 : ℤ) (h1 : (e1 : ℤ) - e2 = k1) (h2 : (e3 : ℤ) - ρ = k2) :
    (c : ℂ) * (-1) ^ ρ * ((sa : ℂ) * P) ^ e1 * conj ((sa : ℂ) * P) ^ e2
        * ((sb : ℂ) * Q) ^ e3 * conj ((sb : ℂ) * Q) ^ ρ
      = (((c : ℝ) * (-1) ^ ρ * sa ^ e1 * sa ^ e2 * sb ^ e3 * sb ^ ρ : ℝ) : ℂ) * (P ^ k1 * Q ^ k2) := by
  rw [← h1, ← h2, ← pow_mul_conj_pow hP, ← pow_mul_conj_pow hQ]
  simp only [map_mul, Complex.conj_ofReal, mul_pow]
  push_cast
  ring

/-- The documented D at R_a = sa·P, R_b = sb·Q (sa, sb real; |P| = |Q| = 1) is the documented real d at (sa, sb)
    times P^{m'+m} Q^{m−m'}.  No relation between sa and sb is used; sa, sb may vanish or be negative. -/
theorem docD_factor (sa sb : ℝ) {P Q : ℂ} (hP : P * conj P = 1) (hQ : Q * conj Q = 1)
    (ell : ℕ) (mp m : ℤ) (hmp : mp.natAbs ≤ ell) (hm : m.natAbs ≤ ell) :
    docD ell ((sa : ℂ) * P) ((sb : ℂ) * Q) mp m
      = ((docd sa sb ell mp m : ℝ) : ℂ) * (P ^ (mp + m) * Q ^ (m - mp)) := by
  unfold docD docd
  rw [Complex.ofReal_mul, mul_assoc]
  congr 1
  rw [Complex.ofReal_sum, Finset.sum_mul]
  have hsub : Finset.range (((ell : ℤ) - m).toNat + 1) ⊆ Finset.range (2 * ell + 1) := by
    rw [Finset.range_subset_range]; omega
  rw [← Finset.sum_subset hsub]
  · apply Finset.sum_congr rfl
    intro ρ hρ
    rw [Finset.mem_range] at hρ
    have i1 : ichoose ((ell : ℤ) + mp) ρ = ((ell : ℤ) + mp).toNat.choose ρ := by
      unfold ichoose; rw [if_pos (by omega)]; simp
    have i2 : ichoose ((ell : ℤ) - mp) ((ell : ℤ) - ρ - m)
        = ((ell : ℤ) - mp).toNat.choose ((ell : ℤ) - ρ - m).toNat := by
      unfold ichoose; rw [if_pos (by omega)]
    rw [i1, i2]
    by_cases hz : ρ ≤ ((ell : ℤ) + mp).toNat ∧ ((ell : ℤ) - ρ - m).toNat ≤ ((ell : ℤ) - mp).toNat
    · have h := term_factor sa sb hP hQ
        (((ell : ℤ) + mp).toNat.choose ρ * ((ell : ℤ) - mp).toNat.choose ((ell : ℤ) - ρ - m).toNat) ρ
        ((ell : ℤ) + mp - ρ).toNat ((ell : ℤ) - ρ - m).toNat ((ρ : ℤ) - mp + m).toNat (mp + m) (m - mp)
        (by omega) (by omega)
      rw [h]
      push_cast
      ring
    · have h0 : ((ell : ℤ) + mp).toNat.choose ρ * ((ell : ℤ) - mp).toNat.choose ((ell : ℤ) - ρ - m).toNat = 0 := by
        by_cases h1 : ρ ≤ ((ell : ℤ) + mp).toNat
        · rw [Nat.choose_eq_zero_of_lt (k := ((ell : ℤ) - ρ - m).toNat) (by omega), mul_zero]
        · rw [Nat.choose_eq_zero_of_lt (k := ρ) (by omega), zero_mul]
      have h0R : ((((ell : ℤ) + mp).toNat.choose ρ : ℕ) : ℝ)
          * ((((ell : ℤ) - mp).toNat.choose ((ell : ℤ) - ρ - m).toNat : ℕ) : ℝ) = 0 := by
        exact_mod_cast h0
      rw [h0, h0R]
      simp
  · intro ρ _ hρ
    rw [Finset.mem_range] at hρ
    have : ichoose ((ell : ℤ) - mp) ((ell : ℤ) - ρ - m) = 0 := by
      unfold ichoose; rw [if_neg (by omega)]
    rw [this]
    simp

/-- real arguments: the documented D at real R_a = ch, R_b = sh is the documented real d (cast to ℂ) -/
theorem docD_real (ch sh : ℝ) (ell : ℕ) (mp m : ℤ) (hmp : mp.natAbs ≤ ell) (hm : m.natAbs ≤ ell) :
    docD ell (ch : ℂ) (sh : ℂ) mp m = ((docd ch sh ell mp m : ℝ) : ℂ) := by
  have h := docD_factor ch sh (P := 1) (Q := 1) (by simp) (by simp) ell mp m hmp hm
  simpa using h

/-! ### the H cell read by the fill kernels is the documented d -/

/-- ε(m') ε(−m) · (the value of the H recursion at the stored representative of (m', m)) = documented d^ℓ_{m',m},
    at (cos β, sin β) = (ch² − sh², 2 ch sh) -/
theorem eps_valW_eq_docd (ch sh : ℝ) (hcs : ch ^ 2 + sh ^ 2 = 1) (ell : ℕ) (mp m : ℤ)
    (hmp : mp.natAbs ≤ ell) (hm : m.natAbs ≤ ell) :
    ((eps mp * eps (-m) : ℤ) : ℝ)
        * valW (ch ^ 2 - sh ^ 2) (2 * ch * sh) ell (wedgeRep mp m).1 (wedgeRep mp m).2.toNat
      = docd ch sh ell mp m := by
  rw [← objd_eq ell (fun _ : Loc => (0 : ℝ)) _ _ ell le_rfl mp m hmp hm]
  exact objd_eq_docd ch sh hcs ell _ ell le_rfl mp m hmp hm

section core
variable {μ : Type} [Mem μ ℝ] [LawfulMem μ ℝ]

/-- The entry `_fill_wigner_D` writes, on the workspace left by `self.H` run with ANY `mp_max = P` that covers the
    stored representative (min(|m'|, |m|) ≤ P), with the phase-power arrays of `_complex_powers`, for the phases
    `to_euler_phases` returns for a unit quaternion: the documented D^ℓ_{m',m}(R).  All three branches. -/
theorem DEntry_core (L P : ℕ) (st : μ) (R0 R1 R2 R3 : ℝ) (hR : R0 ^ 2 + R1 ^ 2 + R2 ^ 2 + R3 ^ 2 = 1)
    (imsqrt : Cx ℝ → ℝ)
    (hs : ∀ w : Cx ℝ, w.re ^ 2 + w.im ^ 2 = 1 → 2 * (imsqrt w) ^ 2 = 1 - w.re)
    (ell : ℕ) (hl : ell ≤ L) (mp m : ℤ) (hmp : mp.natAbs ≤ ell) (hm : m.natAbs ≤ ell)
    (hP : min mp.natAbs m.natAbs ≤ P) :
    toC (DEntry (α := ℝ) (runH L P (cosB R0 R1 R2 R3) (sinB R0 R1 R2 R3) st)
        (cpowers (Cx.mul (zpR R0 R3) (zmR R1 R2)) L imsqrt)
        (cpowers (Cx.mul (zpR R0 R3) (Cx.conj (zmR R1 R2))) L imsqrt) ell mp m)
      = docD ell (Ra R0 R3) (Rb R1 R2) mp m := by
  have up := (zpR_spec R0 R3).2
  have um := (zmR_spec R1 R2).2
  rw [toC_DEntry,
    apw_eq_pw (cpowers_cget _ (mul_unit _ _ up (conj_unit _ um)) L imsqrt hs) (by omega),
    apw_eq_pw (cpowers_cget _ (mul_unit _ _ up um) L imsqrt hs) (by omega)]
  unfold Hat
  simp only []
  have h1 := Lemmas.Object.wedgeRep_fst_le mp m
  have h2 := Lemmas.Object.wedgeRep_fst_le_snd mp m
  have h3 := Lemmas.Object.wedgeRep_snd_le mp m ell hmp hm
  rw [HRefine.runH_refines L P _ _ st ell _ _ hl (by omega) h2 h3]
  obtain ⟨sa, sb, Pz, Mz, eP, eM, h1C, hPu, hMu, hA, hB, _, _, hc, hsn⟩ := phase_facts R0 R1 R2 R3 hR
  have hcs : sa ^ 2 + sb ^ 2 = 1 := by exact_mod_cast h1C
  have hQu : conj Mz * conj (conj Mz) = 1 := conj_unit' hMu
  rw [hc, hsn, hA, hB, docD_factor sa sb hPu hQu ell mp m hmp hm,
    ← eps_valW_eq_docd sa sb hcs ell mp m hmp hm, toC_mul, toC_mul, toC_conj, eP, eM,
    pw_eq_zpow (normSq_of_unit (mul_unit' hPu hQu)), pw_eq_zpow (normSq_of_unit (mul_unit' hPu hMu)),
    mul_zpow, mul_zpow, zpow_add₀ (ne_zero_of_unit hPu), zpow_sub₀ (ne_zero_of_unit hQu),
    conj_eq_inv hMu, inv_zpow, inv_zpow]
  have hM0 : Mz ≠ 0 := ne_zero_of_unit hMu
  have hz : Mz ^ mp ≠ 0 := zpow_ne_zero _ hM0
  have hz' : Mz ^ m ≠ 0 := zpow_ne_zero _ hM0
  push_cast
  field_simp

end core

end DAll
end
