import SphericalVerif.Lemmas.GeneratorsModel
/-! Helper lemmas for `Props/Generators.lean`, part 5: the exponential series of the RIGHT generators.

    The right generators change the spin weight, so the k-th term of the series applied to a function of spin weight
    s has components of spin weights s−k … s+k.  A spin-GRADED family of weights is `G : ℤ → ℕ → ℤ → ℂ`
    (σ, ℓ, m) ↦ weight, evaluated as `evalG Q G L` = Σ_{ℓ ≤ L} Σ_{|m| ≤ ℓ} Σ_{|σ| ≤ ℓ} G σ ℓ m · σY_{ℓm}(Q)
    (= Σ_σ evalW σ Q (G σ) L, `evalG_eq_sum_evalW`); `RgG g` is R_g = g_x (ethbar − eth)/2 + g_y i (eth + ethbar)/2
    + g_z Rz on graded families (`ethC`, `ethbarC`, `RzC` with the spin weight of each component).

    Method.  (i) ₛY_{ℓm}(Q·exp(t g)) = c_{s,ℓ} · [row m of 𝔇(Q) rotated by exp(t g)]_{−s}, so the LEFT series
    (`rot_qexp_hasSum`) gives a series in the operator `RhC g` acting on the spin index of the harmonics
    (`Ylm_right_hasSum`); (ii) `RhC g` on harmonics is the transpose of `RgG g` on weights (`pair_adjoint`: a shift of
    the summation index; the boundary terms vanish with the ladder coefficients). -/
noncomputable section
namespace Generators
open Model Model.Ops DDef DHom HomAll
open scoped ComplexConjugate Nat

/-! ### ladder coefficients -/

/-- √((ℓ−σ)(ℓ+σ+1)): the coefficient of `eth` at spin weight σ (and of L₊ at column −σ) -/
def ap (ℓ : ℕ) (σ : ℤ) : ℂ := sqrtC (((ℓ : ℝ) - σ) * (ℓ + σ + 1))
/-- √((ℓ+σ)(ℓ−σ+1)): the coefficient of −`ethbar` at spin weight σ -/
def am (ℓ : ℕ) (σ : ℤ) : ℂ := sqrtC (((ℓ : ℝ) + σ) * (ℓ - σ + 1))

theorem sqrtC_mul_zero (x y : ℝ) (h : y = 0) : sqrtC (x * y) = 0 := by
  rw [mul_comm]; exact sqrtC_zero_mul y x h

theorem am_succ (ℓ : ℕ) (σ : ℤ) : am ℓ (σ + 1) = ap ℓ σ := by
  unfold am ap
  congr 1
  push_cast
  ring

theorem ap_pred (ℓ : ℕ) (σ : ℤ) : ap ℓ (σ - 1) = am ℓ σ := by
  rw [← am_succ, sub_add_cancel]

theorem ap_top (ℓ : ℕ) : ap ℓ ℓ = 0 := by
  unfold ap
  exact sqrtC_zero_mul _ _ (by push_cast; ring)

theorem ap_bot' (ℓ : ℕ) : ap ℓ (-(ℓ : ℤ) - 1) = 0 := by
  unfold ap
  exact sqrtC_mul_zero _ _ (by push_cast; ring)

theorem am_bot (ℓ : ℕ) : am ℓ (-(ℓ : ℤ)) = 0 := by
  unfold am
  exact sqrtC_zero_mul _ _ (by push_cast; ring)

/-! ### the shift of the summation index -/

theorem sum_Icc_shift (F : ℤ → ℂ) (a b : ℤ) :
    ∑ σ ∈ Finset.Icc a b, F σ = ∑ τ ∈ Finset.Icc (a - 1) (b - 1), F (τ + 1) := by
  refine Finset.sum_nbij' (fun σ => σ - 1) (fun τ => τ + 1) ?_ ?_ ?_ ?_ ?_
  · intro σ hσ
    rw [Finset.mem_Icc] at hσ ⊢
    omega
  · intro τ hτ
    rw [Finset.mem_Icc] at hτ ⊢
    omega
  · intro σ _
    show σ - 1 + 1 = σ
    ring
  · intro τ _
    show τ + 1 - 1 = τ
    ring
  · intro σ _
    show F σ = F (σ - 1 + 1)
    rw [sub_add_cancel]

/-- Σ_σ u(σ) a₋(σ) y(σ−1) = Σ_σ a₊(σ) u(σ+1) y(σ) over σ = −ℓ … ℓ: the boundary terms vanish -/
theorem shift_pair (ℓ : ℕ) (u y : ℤ → ℂ) :
    ∑ σ ∈ Finset.Icc (-(ℓ : ℤ)) ℓ, u σ * (am ℓ σ * y (σ - 1))
      = ∑ σ ∈ Finset.Icc (-(ℓ : ℤ)) ℓ, (ap ℓ σ * u (σ + 1)) * y σ := by
  rw [sum_Icc_shift]
  have e : ∀ τ : ℤ, u (τ + 1) * (am ℓ (τ + 1) * y (τ + 1 - 1)) = (ap ℓ τ * u (τ + 1)) * y τ := by
    intro τ
    rw [am_succ, add_sub_cancel_right]
    ring
  simp only [e]
  have A : ∑ τ ∈ Finset.Icc (-(ℓ : ℤ) - 1) ((ℓ : ℤ) - 1), (ap ℓ τ * u (τ + 1)) * y τ
      = ∑ τ ∈ Finset.Icc (-(ℓ : ℤ) - 1) ℓ, (ap ℓ τ * u (τ + 1)) * y τ := by
    apply Finset.sum_subset
    · intro τ hτ
      rw [Finset.mem_Icc] at hτ ⊢
      omega
    · intro τ h1 h2
      rw [Finset.mem_Icc] at h1 h2
      have : τ = ℓ := by omega
      rw [this, ap_top]
      ring
  have B : ∑ τ ∈ Finset.Icc (-(ℓ : ℤ)) ℓ, (ap ℓ τ * u (τ + 1)) * y τ
      = ∑ τ ∈ Finset.Icc (-(ℓ : ℤ) - 1) ℓ, (ap ℓ τ * u (τ + 1)) * y τ := by
    apply Finset.sum_subset
    · intro τ hτ
      rw [Finset.mem_Icc] at hτ ⊢
      omega
    · intro τ h1 h2
      rw [Finset.mem_Icc] at h1 h2
      have : τ = -(ℓ : ℤ) - 1 := by omega
      rw [this, ap_bot']
      ring
  rw [A, B]

/-- the same with the roles exchanged: Σ_σ u(σ) a₊(σ) y(σ+1) = Σ_σ a₋(σ) u(σ−1) y(σ) -/
theorem shift_pair' (ℓ : ℕ) (u y : ℤ → ℂ) :
    ∑ σ ∈ Finset.Icc (-(ℓ : ℤ)) ℓ, u σ * (ap ℓ σ * y (σ + 1))
      = ∑ σ ∈ Finset.Icc (-(ℓ : ℤ)) ℓ, (am ℓ σ * u (σ - 1)) * y σ := by
  have h := shift_pair ℓ y u
  rw [Finset.sum_congr rfl (fun σ _ => show u σ * (ap ℓ σ * y (σ + 1)) = (ap ℓ σ * y (σ + 1)) * u σ by ring), ← h]
  apply Finset.sum_congr rfl
  intro σ _
  ring

/-! ### the generator on the spin index of the harmonics -/

/-- R_g acting on a family of values indexed by (ℓ, σ), σ the spin weight — the action on ₛY_{ℓm}(Q) for fixed Q, m -/
def RhC (g : Quat ℝ) (y : ℕ → ℤ → ℂ) : ℕ → ℤ → ℂ := fun ℓ σ =>
  (g.x : ℂ) * ((-(am ℓ σ * y ℓ (σ - 1)) - ap ℓ σ * y ℓ (σ + 1)) / 2)
  + (g.y : ℂ) * (Complex.I * (ap ℓ σ * y ℓ (σ + 1) - am ℓ σ * y ℓ (σ - 1)) / 2)
  + (g.z : ℂ) * (-(σ : ℂ) * y ℓ σ)

/-- column −σ of a family of rows, with the normalisation of ₛY: (Φ h)(ℓ, σ) = c_{σ,ℓ} h(ℓ, −σ) -/
def PhiC (h : ℕ → ℤ → ℂ) : ℕ → ℤ → ℂ := fun ℓ σ => cY σ ℓ * h ℓ (-σ)

theorem PhiC_rowD (Q : Quat ℝ) (ℓ : ℕ) (m σ : ℤ) : PhiC (rowD Q ℓ m) ℓ σ = Ylm σ Q ℓ m := rfl

theorem RhC_congr (g : Quat ℝ) (y y' : ℕ → ℤ → ℂ) (ℓ : ℕ) (σ : ℤ) (hσ : σ.natAbs ≤ ℓ)
    (h : ∀ τ : ℤ, τ.natAbs ≤ ℓ → y ℓ τ = y' ℓ τ) : RhC g y ℓ σ = RhC g y' ℓ σ := by
  have e0 : y ℓ σ = y' ℓ σ := h σ hσ
  have e1 : am ℓ σ * y ℓ (σ - 1) = am ℓ σ * y' ℓ (σ - 1) := by
    by_cases c : -(ℓ : ℤ) < σ
    · rw [h (σ - 1) (by omega)]
    · have : σ = -(ℓ : ℤ) := by omega
      rw [this, am_bot, zero_mul, zero_mul]
  have e2 : ap ℓ σ * y ℓ (σ + 1) = ap ℓ σ * y' ℓ (σ + 1) := by
    by_cases c : σ < (ℓ : ℤ)
    · rw [h (σ + 1) (by omega)]
    · have : σ = (ℓ : ℤ) := by omega
      rw [this, ap_top, zero_mul, zero_mul]
  unfold RhC
  rw [e0, e1, e2]

theorem cY_neg (s : ℤ) (ℓ : ℕ) : cY (-s) ℓ = cY s ℓ := by
  unfold cY
  rw [Int.natAbs_neg]

theorem PhiC_LpC (h : ℕ → ℤ → ℂ) (ℓ : ℕ) (σ : ℤ) (hσ : σ.natAbs ≤ ℓ) :
    cY σ ℓ * LpC h ℓ (-σ) = -(ap ℓ σ * PhiC h ℓ (σ + 1)) := by
  unfold LpC
  by_cases c : σ < (ℓ : ℤ)
  · rw [if_pos (by omega)]
    unfold PhiC ap
    rw [cY_succ]
    have r : ((ℓ : ℝ) + ((-σ : ℤ) : ℝ)) * ((ℓ : ℝ) - ((-σ : ℤ) : ℝ) + 1) = ((ℓ : ℝ) - σ) * (ℓ + σ + 1) := by
      push_cast; ring
    have e : -σ - 1 = -(σ + 1) := by ring
    rw [r, e]
    ring
  · rw [if_neg (by omega)]
    have : σ = (ℓ : ℤ) := by omega
    rw [this, ap_top]
    ring

theorem PhiC_LmC (h : ℕ → ℤ → ℂ) (ℓ : ℕ) (σ : ℤ) (hσ : σ.natAbs ≤ ℓ) :
    cY σ ℓ * LmC h ℓ (-σ) = -(am ℓ σ * PhiC h ℓ (σ - 1)) := by
  unfold LmC
  by_cases c : -(ℓ : ℤ) < σ
  · rw [if_pos (by omega)]
    unfold PhiC am
    rw [cY_pred]
    have r : ((ℓ : ℝ) - ((-σ : ℤ) : ℝ)) * ((ℓ : ℝ) + ((-σ : ℤ) : ℝ) + 1) = ((ℓ : ℝ) + σ) * (ℓ - σ + 1) := by
      push_cast; ring
    have e : -σ + 1 = -(σ - 1) := by ring
    rw [r, e]
    ring
  · rw [if_neg (by omega)]
    have : σ = -(ℓ : ℤ) := by omega
    rw [this, am_bot]
    ring

/-- the intertwining: column −σ of L_g applied to the rows is R_g applied to the columns -/
theorem PhiC_LgC (g : Quat ℝ) (h : ℕ → ℤ → ℂ) (ℓ : ℕ) (σ : ℤ) (hσ : σ.natAbs ≤ ℓ) :
    PhiC (LgC g h) ℓ σ = RhC g (PhiC h) ℓ σ := by
  have hp := PhiC_LpC h ℓ σ hσ
  have hm := PhiC_LmC h ℓ σ hσ
  have hz : cY σ ℓ * LzC h ℓ (-σ) = -(σ : ℂ) * PhiC h ℓ σ := by
    unfold LzC PhiC
    push_cast
    ring
  have hinv : (2 * Complex.I)⁻¹ = -(Complex.I / 2) := by
    rw [mul_inv, Complex.inv_I]; ring
  have e1 : PhiC (LgC g h) ℓ σ
      = (g.x : ℂ) * ((cY σ ℓ * LpC h ℓ (-σ) + cY σ ℓ * LmC h ℓ (-σ)) / 2)
        + (g.y : ℂ) * ((cY σ ℓ * LpC h ℓ (-σ) - cY σ ℓ * LmC h ℓ (-σ)) * (2 * Complex.I)⁻¹)
        + (g.z : ℂ) * (cY σ ℓ * LzC h ℓ (-σ)) := by
    unfold PhiC LgC LxC LyC
    rw [div_eq_mul_inv _ (2 * Complex.I)]
    ring
  rw [e1, hp, hm, hz, hinv]
  unfold RhC
  ring

theorem PhiC_LgC_iterate (g : Quat ℝ) (h : ℕ → ℤ → ℂ) (ℓ : ℕ) :
    ∀ (k : ℕ) (σ : ℤ), σ.natAbs ≤ ℓ → PhiC ((LgC g)^[k] h) ℓ σ = (RhC g)^[k] (PhiC h) ℓ σ
  | 0, _, _ => rfl
  | k + 1, σ, hσ => by
    rw [Function.iterate_succ_apply', Function.iterate_succ_apply', PhiC_LgC g _ ℓ σ hσ]
    exact RhC_congr g _ _ ℓ σ hσ (fun τ hτ => PhiC_LgC_iterate g h ℓ k τ hτ)

/-- **the series of the right generators on the harmonics**: for |m|, |σ| ≤ ℓ,
    σY_{ℓm}(Q·exp(t g)) = Σ_k (2i t)^k/k! · [R_g^k (σ' ↦ σ'Y_{ℓm}(Q))](σ) -/
theorem Ylm_right_hasSum (g : Quat ℝ) (hg : g.x ^ 2 + g.y ^ 2 + g.z ^ 2 = 1) (Q : Quat ℝ) (ℓ : ℕ) (m σ : ℤ)
    (hm : m.natAbs ≤ ℓ) (hσ : σ.natAbs ≤ ℓ) (t : ℝ) :
    HasSum (fun k : ℕ => (2 * Complex.I * (t : ℂ)) ^ k / (k ! : ℂ) * (RhC g)^[k] (PhiC (rowD Q ℓ m)) ℓ σ)
      (Ylm σ (qmul Q (qexp g t)) ℓ m) := by
  have h := (rot_qexp_hasSum g hg (rowD Q ℓ m) ℓ (-σ) (by omega) t).mul_left (cY σ ℓ)
  rw [← Ylm_qmul σ Q (qexp g t) ℓ m hm hσ] at h
  have e : ∀ k : ℕ, cY σ ℓ * ((2 * Complex.I * (t : ℂ)) ^ k / (k ! : ℂ) * (LgC g)^[k] (rowD Q ℓ m) ℓ (-σ))
      = (2 * Complex.I * (t : ℂ)) ^ k / (k ! : ℂ) * (RhC g)^[k] (PhiC (rowD Q ℓ m)) ℓ σ := by
    intro k
    rw [← PhiC_LgC_iterate g (rowD Q ℓ m) ℓ k σ hσ]
    unfold PhiC
    ring
  simp only [e] at h
  exact h

/-! ### spin-graded families of weights -/

/-- R_g = g_x (ethbar − eth)/2 + g_y i (eth + ethbar)/2 + g_z Rz on a spin-graded family: the component of spin weight σ
    of the result collects `ethbar` of the component σ+1, `eth` of the component σ−1 and `Rz` of the component σ -/
def RgG (g : Quat ℝ) (G : ℤ → ℕ → ℤ → ℂ) : ℤ → ℕ → ℤ → ℂ := fun σ ℓ m =>
  (g.x : ℂ) * ((ethbarC (σ + 1) (G (σ + 1)) ℓ m - ethC (σ - 1) (G (σ - 1)) ℓ m) / 2)
  + (g.y : ℂ) * (Complex.I * (ethC (σ - 1) (G (σ - 1)) ℓ m + ethbarC (σ + 1) (G (σ + 1)) ℓ m) / 2)
  + (g.z : ℂ) * RzC σ (G σ) ℓ m

theorem ethC_pred (σ : ℤ) (f : ℕ → ℤ → ℂ) (ℓ : ℕ) (m : ℤ) (hσ : σ.natAbs ≤ ℓ) :
    ethC (σ - 1) f ℓ m = am ℓ σ * f ℓ m := by
  unfold ethC
  by_cases c : -(ℓ : ℤ) < σ
  · rw [if_pos (by rw [sub_add_cancel]; exact max_le hσ (by omega))]
    unfold am
    congr 2
    push_cast
    ring
  · have : σ = -(ℓ : ℤ) := by omega
    rw [if_neg (by rw [sub_add_cancel]; intro h; have := le_trans (le_max_right _ _) h; omega), this, am_bot, zero_mul]

theorem ethbarC_succ (σ : ℤ) (f : ℕ → ℤ → ℂ) (ℓ : ℕ) (m : ℤ) (hσ : σ.natAbs ≤ ℓ) :
    ethbarC (σ + 1) f ℓ m = -(ap ℓ σ * f ℓ m) := by
  unfold ethbarC
  by_cases c : σ < (ℓ : ℤ)
  · rw [if_pos (by rw [add_sub_cancel_right]; exact max_le hσ (by omega))]
    unfold ap
    have r : ((ℓ : ℝ) + ((σ + 1 : ℤ) : ℝ)) * ((ℓ : ℝ) - ((σ + 1 : ℤ) : ℝ) + 1) = ((ℓ : ℝ) - σ) * (ℓ + σ + 1) := by
      push_cast; ring
    rw [r]
    ring
  · have : σ = (ℓ : ℤ) := by omega
    rw [if_neg (by rw [add_sub_cancel_right]; intro h; have := le_trans (le_max_right _ _) h; omega), this, ap_top,
      zero_mul, neg_zero]

/-- R_g on the graded family, for |σ| ≤ ℓ, in terms of the ladder coefficients -/
theorem RgG_block (g : Quat ℝ) (G : ℤ → ℕ → ℤ → ℂ) (σ : ℤ) (ℓ : ℕ) (m : ℤ) (hσ : σ.natAbs ≤ ℓ) :
    RgG g G σ ℓ m
      = (g.x : ℂ) * ((-(ap ℓ σ * G (σ + 1) ℓ m) - am ℓ σ * G (σ - 1) ℓ m) / 2)
        + (g.y : ℂ) * (Complex.I * (am ℓ σ * G (σ - 1) ℓ m - ap ℓ σ * G (σ + 1) ℓ m) / 2)
        + (g.z : ℂ) * (-(σ : ℂ) * G σ ℓ m) := by
  unfold RgG
  rw [ethC_pred σ _ ℓ m hσ, ethbarC_succ σ _ ℓ m hσ]
  unfold RzC
  ring

/-- the pairing of graded weights with values on the spin index, in one degree ℓ and for one m; R_g on the values is
    the transpose of R_g on the weights -/
theorem pair_adjoint (g : Quat ℝ) (G : ℤ → ℕ → ℤ → ℂ) (z : ℕ → ℤ → ℂ) (ℓ : ℕ) (m : ℤ) :
    ∑ σ ∈ Finset.Icc (-(ℓ : ℤ)) ℓ, G σ ℓ m * RhC g z ℓ σ
      = ∑ σ ∈ Finset.Icc (-(ℓ : ℤ)) ℓ, RgG g G σ ℓ m * z ℓ σ := by
  have s1 := shift_pair ℓ (fun σ => G σ ℓ m) (z ℓ)
  have s2 := shift_pair' ℓ (fun σ => G σ ℓ m) (z ℓ)
  have L : ∀ σ : ℤ, G σ ℓ m * RhC g z ℓ σ
      = (-(g.x : ℂ) / 2 - (g.y : ℂ) * Complex.I / 2) * (G σ ℓ m * (am ℓ σ * z ℓ (σ - 1)))
        + (-(g.x : ℂ) / 2 + (g.y : ℂ) * Complex.I / 2) * (G σ ℓ m * (ap ℓ σ * z ℓ (σ + 1)))
        + (g.z : ℂ) * (-(σ : ℂ) * G σ ℓ m * z ℓ σ) := by
    intro σ
    unfold RhC
    ring
  have R : ∀ σ ∈ Finset.Icc (-(ℓ : ℤ)) ℓ, RgG g G σ ℓ m * z ℓ σ
      = (-(g.x : ℂ) / 2 - (g.y : ℂ) * Complex.I / 2) * ((ap ℓ σ * G (σ + 1) ℓ m) * z ℓ σ)
        + (-(g.x : ℂ) / 2 + (g.y : ℂ) * Complex.I / 2) * ((am ℓ σ * G (σ - 1) ℓ m) * z ℓ σ)
        + (g.z : ℂ) * (-(σ : ℂ) * G σ ℓ m * z ℓ σ) := by
    intro σ hσ
    rw [RgG_block g G σ ℓ m (mem_blk hσ)]
    ring
  rw [Finset.sum_congr rfl (fun σ _ => L σ), Finset.sum_congr rfl R]
  simp only [Finset.sum_add_distrib, ← Finset.mul_sum]
  rw [s1, s2]

theorem pair_adjoint_iterate (g : Quat ℝ) (z : ℕ → ℤ → ℂ) (ℓ : ℕ) (m : ℤ) :
    ∀ (k : ℕ) (G : ℤ → ℕ → ℤ → ℂ),
      ∑ σ ∈ Finset.Icc (-(ℓ : ℤ)) ℓ, G σ ℓ m * (RhC g)^[k] z ℓ σ
        = ∑ σ ∈ Finset.Icc (-(ℓ : ℤ)) ℓ, (RgG g)^[k] G σ ℓ m * z ℓ σ
  | 0, _ => rfl
  | k + 1, G => by
    rw [Function.iterate_succ_apply', pair_adjoint, pair_adjoint_iterate g z ℓ m k (RgG g G),
      Function.iterate_succ_apply]

/-- the evaluation of a spin-graded family at the rotor Q, degrees ≤ L -/
def evalG (Q : Quat ℝ) (G : ℤ → ℕ → ℤ → ℂ) (L : ℕ) : ℂ :=
  ∑ ℓ ∈ Finset.range (L + 1), ∑ m ∈ Finset.Icc (-(ℓ : ℤ)) ℓ, ∑ σ ∈ Finset.Icc (-(ℓ : ℤ)) ℓ, G σ ℓ m * Ylm σ Q ℓ m

/-- **the exponential series of the right generators, evaluated**: Σ_k (2i t)^k/k! evalG Q (R_g^k G) = evalG (Q·exp(t g)) G -/
theorem evalG_right_hasSum (g : Quat ℝ) (hg : g.x ^ 2 + g.y ^ 2 + g.z ^ 2 = 1) (G : ℤ → ℕ → ℤ → ℂ) (Q : Quat ℝ)
    (L : ℕ) (t : ℝ) :
    HasSum (fun k : ℕ => (2 * Complex.I * (t : ℂ)) ^ k / (k ! : ℂ) * evalG Q ((RgG g)^[k] G) L)
      (evalG (qmul Q (qexp g t)) G L) := by
  have h : HasSum (fun k : ℕ => ∑ ℓ ∈ Finset.range (L + 1), ∑ m ∈ Finset.Icc (-(ℓ : ℤ)) ℓ,
        ∑ σ ∈ Finset.Icc (-(ℓ : ℤ)) ℓ,
          G σ ℓ m * ((2 * Complex.I * (t : ℂ)) ^ k / (k ! : ℂ) * (RhC g)^[k] (PhiC (rowD Q ℓ m)) ℓ σ))
      (evalG (qmul Q (qexp g t)) G L) :=
    hasSum_sum (fun ℓ _ => hasSum_sum (fun m hm => hasSum_sum (fun σ hσ =>
      (Ylm_right_hasSum g hg Q ℓ m σ (mem_blk hm) (mem_blk hσ) t).mul_left (G σ ℓ m))))
  have e : ∀ k : ℕ, (2 * Complex.I * (t : ℂ)) ^ k / (k ! : ℂ) * evalG Q ((RgG g)^[k] G) L
      = ∑ ℓ ∈ Finset.range (L + 1), ∑ m ∈ Finset.Icc (-(ℓ : ℤ)) ℓ, ∑ σ ∈ Finset.Icc (-(ℓ : ℤ)) ℓ,
          G σ ℓ m * ((2 * Complex.I * (t : ℂ)) ^ k / (k ! : ℂ) * (RhC g)^[k] (PhiC (rowD Q ℓ m)) ℓ σ) := by
    intro k
    unfold evalG
    rw [Finset.mul_sum]
    apply Finset.sum_congr rfl
    intro ℓ _
    rw [Finset.mul_sum]
    apply Finset.sum_congr rfl
    intro m _
    have a := pair_adjoint_iterate g (PhiC (rowD Q ℓ m)) ℓ m k G
    have b : ∑ σ ∈ Finset.Icc (-(ℓ : ℤ)) ℓ,
          G σ ℓ m * ((2 * Complex.I * (t : ℂ)) ^ k / (k ! : ℂ) * (RhC g)^[k] (PhiC (rowD Q ℓ m)) ℓ σ)
        = (2 * Complex.I * (t : ℂ)) ^ k / (k ! : ℂ)
          * ∑ σ ∈ Finset.Icc (-(ℓ : ℤ)) ℓ, G σ ℓ m * (RhC g)^[k] (PhiC (rowD Q ℓ m)) ℓ σ := by
      rw [Finset.mul_sum]
      apply Finset.sum_congr rfl
      intro σ _
      ring
    rw [b, a]
    rfl
  simp only [e]
  exact h

/-! ### graded evaluation versus `evalW`; objects of one spin weight; model objects -/

/-- the graded evaluation is the sum of the evaluations of the components, each with its own spin weight -/
theorem evalG_eq_sum_evalW (Q : Quat ℝ) (G : ℤ → ℕ → ℤ → ℂ) (L : ℕ) :
    evalG Q G L = ∑ σ ∈ Finset.Icc (-(L : ℤ)) L, evalW σ Q (G σ) L := by
  unfold evalG evalW
  rw [Finset.sum_congr rfl (fun ℓ _ => Finset.sum_comm)]
  apply Finset.sum_comm'
  intro ℓ σ
  simp only [Finset.mem_range, Finset.mem_Icc]
  omega

/-- a family of weights of spin weight s as a graded family -/
def single (s : ℤ) (f : ℕ → ℤ → ℂ) : ℤ → ℕ → ℤ → ℂ := fun σ => if σ = s then f else fun _ _ => 0

theorem evalW_zero (σ : ℤ) (Q : Quat ℝ) (L : ℕ) : evalW σ Q (fun _ _ => 0) L = 0 := by
  unfold evalW
  simp

theorem evalG_single (Q : Quat ℝ) (s : ℤ) (f : ℕ → ℤ → ℂ) (L : ℕ) : evalG Q (single s f) L = evalW s Q f L := by
  rw [evalG_eq_sum_evalW, Finset.sum_eq_single s]
  · unfold single
    rw [if_pos rfl]
  · intro σ _ hσ
    unfold single
    rw [if_neg hσ, evalW_zero]
  · intro hs
    rw [Finset.mem_Icc] at hs
    unfold single
    rw [if_pos rfl]
    unfold evalW
    rw [Finset.Icc_eq_empty (by omega), Finset.sum_empty]

/-- R_g on the graded family in degree ℓ, |σ| ≤ ℓ, only reads the components |τ| ≤ ℓ of degree ℓ at the same m -/
theorem RgG_congr (g : Quat ℝ) (G G' : ℤ → ℕ → ℤ → ℂ) (σ : ℤ) (ℓ : ℕ) (m : ℤ) (hσ : σ.natAbs ≤ ℓ)
    (h : ∀ τ : ℤ, τ.natAbs ≤ ℓ → G τ ℓ m = G' τ ℓ m) : RgG g G σ ℓ m = RgG g G' σ ℓ m := by
  rw [RgG_block g G σ ℓ m hσ, RgG_block g G' σ ℓ m hσ]
  have e0 : G σ ℓ m = G' σ ℓ m := h σ hσ
  have e1 : am ℓ σ * G (σ - 1) ℓ m = am ℓ σ * G' (σ - 1) ℓ m := by
    by_cases c : -(ℓ : ℤ) < σ
    · rw [h (σ - 1) (by omega)]
    · have : σ = -(ℓ : ℤ) := by omega
      rw [this, am_bot, zero_mul, zero_mul]
  have e2 : ap ℓ σ * G (σ + 1) ℓ m = ap ℓ σ * G' (σ + 1) ℓ m := by
    by_cases c : σ < (ℓ : ℤ)
    · rw [h (σ + 1) (by omega)]
    · have : σ = (ℓ : ℤ) := by omega
      rw [this, ap_top, zero_mul, zero_mul]
  rw [e0, e1, e2]

/-- the evaluation only reads the cells ℓ ≤ L, |m| ≤ ℓ, |σ| ≤ ℓ -/
theorem evalG_congr (Q : Quat ℝ) (G G' : ℤ → ℕ → ℤ → ℂ) (L : ℕ)
    (h : ∀ (ℓ : ℕ), ℓ ≤ L → ∀ m : ℤ, m.natAbs ≤ ℓ → ∀ σ : ℤ, σ.natAbs ≤ ℓ → G σ ℓ m = G' σ ℓ m) :
    evalG Q G L = evalG Q G' L := by
  unfold evalG
  apply Finset.sum_congr rfl
  intro ℓ hℓ
  rw [Finset.mem_range] at hℓ
  apply Finset.sum_congr rfl
  intro m hm
  apply Finset.sum_congr rfl
  intro σ hσ
  rw [h ℓ (by omega) m (mem_blk hm) σ (mem_blk hσ)]

/-- a spin-indexed collection of model `Modes` objects (the σ-th of spin weight σ) as a graded family -/
def GM (F : ℤ → Modes ℝ) : ℤ → ℕ → ℤ → ℂ := fun σ => mw (F σ)

/-- R_g on a collection of model objects is the stated combination of the MODEL's `eth`, `ethbar`, `Rz` -/
theorem RgG_model (g : Quat ℝ) (F : ℤ → Modes ℝ) (L : ℕ) (hs : ∀ σ, (F σ).s = σ) (hL : ∀ σ, (F σ).ellMax = L)
    (σ : ℤ) (ℓ : ℕ) (m : ℤ) (hσ : σ.natAbs ≤ ℓ) (hℓ : ℓ ≤ L) (hm : m.natAbs ≤ ℓ) :
    RgG g (GM F) σ ℓ m
      = (g.x : ℂ) * ((mw (Model.Ops.ethbar (F (σ + 1))) ℓ m - mw (Model.Ops.eth (F (σ - 1))) ℓ m) / 2)
        + (g.y : ℂ) * (Complex.I * (mw (Model.Ops.eth (F (σ - 1))) ℓ m + mw (Model.Ops.ethbar (F (σ + 1))) ℓ m) / 2)
        + (g.z : ℂ) * mw (Model.Ops.Rz (F σ)) ℓ m := by
  rw [mw_ethbar (F (σ + 1)) (by rw [hL]; exact hℓ) hm, mw_eth (F (σ - 1)) (by rw [hL]; exact hℓ) hm,
    mw_Rz (F σ) m (by rw [hs]; exact hσ), hs, hs, hs]
  rfl

/-- a sequence of spin-indexed collections of model objects built by F_{k+1} = R_g F_k cell by cell (with the model's
    `eth`, `ethbar`, `Rz`) carries the graded weights R_g^k (F_0) -/
theorem tracked_cells_right (g : Quat ℝ) (F : ℕ → ℤ → Modes ℝ) (L : ℕ) (hs : ∀ k σ, (F k σ).s = σ)
    (hL : ∀ k σ, (F k σ).ellMax = L)
    (hstep : ∀ (k ℓ : ℕ) (m σ : ℤ), ℓ ≤ L → m.natAbs ≤ ℓ → σ.natAbs ≤ ℓ →
      mw (F (k + 1) σ) ℓ m
        = (g.x : ℂ) * ((mw (Model.Ops.ethbar (F k (σ + 1))) ℓ m - mw (Model.Ops.eth (F k (σ - 1))) ℓ m) / 2)
          + (g.y : ℂ) * (Complex.I * (mw (Model.Ops.eth (F k (σ - 1))) ℓ m
              + mw (Model.Ops.ethbar (F k (σ + 1))) ℓ m) / 2)
          + (g.z : ℂ) * mw (Model.Ops.Rz (F k σ)) ℓ m) :
    ∀ (k ℓ : ℕ), ℓ ≤ L → ∀ m : ℤ, m.natAbs ≤ ℓ → ∀ σ : ℤ, σ.natAbs ≤ ℓ →
      GM (F k) σ ℓ m = (RgG g)^[k] (GM (F 0)) σ ℓ m
  | 0, _, _, _, _, _, _ => rfl
  | k + 1, ℓ, hℓ, m, hm, σ, hσ => by
    rw [Function.iterate_succ_apply']
    have e := RgG_congr g (GM (F k)) ((RgG g)^[k] (GM (F 0))) σ ℓ m hσ
      (fun τ hτ => tracked_cells_right g F L hs hL hstep k ℓ hℓ m hm τ hτ)
    rw [← e, RgG_model g (F k) L (hs k) (hL k) σ ℓ m hσ hℓ hm]
    exact hstep k ℓ m σ hℓ hm hσ

end Generators
end
