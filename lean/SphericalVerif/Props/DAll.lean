import SphericalVerif.Lemmas.DAll
/-! DAll — the object-level models of `Wigner.D`, `Wigner.d` and `Wigner.sYlm` compute the DOCUMENTED functions
    (docs/WignerDMatrices.md of the library, Eq. "DAnalytically") for EVERY degree ℓ ≤ ell_max, in exact arithmetic.

    Property theorems only; helpers live in `Lemmas/DAll.lean`.  This closes what `Props/DDef.lean` left open
    ("NOT proved: agreement with `docD ℓ` for ℓ ≥ 2 at generic β"): `D_all` is the statement of `DDef.D_ell1` with the
    numeral 1 replaced by an arbitrary ℓ.  As there, everything is about the hand-written models `Model.eulerPhases`,
    `Model.runH`, `Model.cpowers`, `Model.objD`, `Model.objd`, `Model.objY` (validated bit for bit against the compiled
    kernels at `Float`) run at the exact scalar `α := ℝ`, for

      * EVERY real unit quaternion R = (R0, R1, R2, R3) = (w, x, y, z) — all three branches of `to_euler_phases`
        (generic; R0² + R3² = 0; R1² + R2² = 0) by ONE uniform argument;
      * every lawful workspace memory `μ` and every initial content `st` of it;
      * every calculator size `L = ell_max ≥ ℓ`, all |m'|, |m| ≤ ℓ;
      * every `imsqrt` (model of `np.sqrt(z).imag`) with `2·imsqrt(w)² = 1 − Re w` on the unit circle.

    The only hypotheses are: the unit-norm condition, the `imsqrt` law, index ranges, and (for `sYlm`) that the
    library power `z[2]**abs(s)` handed to the fill kernel is the |s|-th power (as in `Props/Routes.lean`).

    Ingredients: `DocD.objd_eq_docd` (the H recursion computes the documented real d, every ℓ), `C14.cpow_exact`
    (`_complex_powers`), `DDef.phase_facts` (the Euler phases in every branch), and the algebraic factorisation
    `docD_polar` of the documented complex sum into the documented real d and two phases. -/
noncomputable section
namespace DAll
open Model Spec Horner DDef DocD
open scoped ComplexConjugate

/-! ### 1. the documented complex sum in polar form -/

/-- With R_a = sa·P and R_b = sb·Q (sa, sb real — possibly zero or negative; |P| = |Q| = 1):
      D^ℓ_{m',m}(R_a, R_b) = d^ℓ_{m',m}(sa, sb) · P^{m'+m} · Q^{m−m'},
    both sides the documented formulas (`DDef.docD`, `DocD.docd`); integer powers.  No relation between sa and sb. -/
theorem docD_polar (sa sb : ℝ) (P Q : ℂ) (hP : P * conj P = 1) (hQ : Q * conj Q = 1)
    (ell : ℕ) (mp m : ℤ) (hmp : mp.natAbs ≤ ell) (hm : m.natAbs ≤ ell) :
    docD ell ((sa : ℂ) * P) ((sb : ℂ) * Q) mp m
      = ((docd sa sb ell mp m : ℝ) : ℂ) * (P ^ (mp + m) * Q ^ (m - mp)) :=
  docD_factor sa sb hP hQ ell mp m hmp hm

/-- at real R_a = ch, R_b = sh the documented D is the documented real d of `Spec/DocD.lean` -/
theorem docD_of_real (ch sh : ℝ) (ell : ℕ) (mp m : ℤ) (hmp : mp.natAbs ≤ ell) (hm : m.natAbs ≤ ell) :
    docD ell (ch : ℂ) (sh : ℂ) mp m = ((docd ch sh ell mp m : ℝ) : ℂ) :=
  docD_real ch sh ell mp m hmp hm

section
variable {μ : Type} [Mem μ ℝ] [LawfulMem μ ℝ]

/-! ### 2. `Wigner.D` -/

/-- EVERY entry of `Wigner.D(R)` computed by the model equals the documented sum: every ℓ ≤ ell_max, all
    |m'|, |m| ≤ ℓ, every unit quaternion (all three branches of the Euler-phase conversion), every lawful memory and
    initial workspace content. -/
theorem D_all (L : ℕ) (st : μ) (R0 R1 R2 R3 : ℝ) (hR : R0 ^ 2 + R1 ^ 2 + R2 ^ 2 + R3 ^ 2 = 1)
    (imsqrt : Cx ℝ → ℝ) (hs : ∀ w : Cx ℝ, w.re ^ 2 + w.im ^ 2 = 1 → 2 * (imsqrt w) ^ 2 = 1 - w.re)
    (ell : ℕ) (hl : ell ≤ L) (mp m : ℤ) (hmp : mp.natAbs ≤ ell) (hm : m.natAbs ≤ ell) :
    toC (objD L st R0 R1 R2 R3 imsqrt ell mp m) = docD ell (Ra R0 R3) (Rb R1 R2) mp m := by
  unfold objD
  rw [eulerPhases_unit R0 R1 R2 R3 hR]
  exact DEntry_core L L st R0 R1 R2 R3 hR imsqrt hs ell hl mp m hmp hm (by omega)

/-- regression: `DDef.D_ell1` is the instance ℓ = 1 of `D_all` (same statement, independent proofs) -/
example (L : ℕ) (hL : 1 ≤ L) (st : μ) (R0 R1 R2 R3 : ℝ) (hR : R0 ^ 2 + R1 ^ 2 + R2 ^ 2 + R3 ^ 2 = 1)
    (imsqrt : Cx ℝ → ℝ) (hs : ∀ w : Cx ℝ, w.re ^ 2 + w.im ^ 2 = 1 → 2 * (imsqrt w) ^ 2 = 1 - w.re)
    (mp m : ℤ) (hmp : mp.natAbs ≤ 1) (hm : m.natAbs ≤ 1) :
    toC (objD L st R0 R1 R2 R3 imsqrt 1 mp m) = docD 1 (Ra R0 R3) (Rb R1 R2) mp m :=
  D_all L st R0 R1 R2 R3 hR imsqrt hs 1 hL mp m hmp hm

/-- the same for a rotor given as a `Model.Quat` (one row of the vectorised call / one `Op.D` of a call sequence) -/
theorem D_all_quat (L : ℕ) (st : μ) (R : Quat ℝ) (hR : R.w ^ 2 + R.x ^ 2 + R.y ^ 2 + R.z ^ 2 = 1)
    (imsqrt : Cx ℝ → ℝ) (hs : ∀ w : Cx ℝ, w.re ^ 2 + w.im ^ 2 = 1 → 2 * (imsqrt w) ^ 2 = 1 - w.re)
    (ell : ℕ) (hl : ell ≤ L) (mp m : ℤ) (hmp : mp.natAbs ≤ ell) (hm : m.natAbs ≤ ell) :
    toC (objD L st R.w R.x R.y R.z imsqrt ell mp m) = docD ell (Ra R.w R.z) (Rb R.x R.y) mp m :=
  D_all L st R.w R.x R.y R.z hR imsqrt hs ell hl mp m hmp hm

/-- the value does not depend on the calculator size, the memory implementation or the previous workspace content -/
theorem D_all_independent {μ' : Type} [Mem μ' ℝ] [LawfulMem μ' ℝ] (L L' : ℕ) (st : μ) (st' : μ')
    (R0 R1 R2 R3 : ℝ) (hR : R0 ^ 2 + R1 ^ 2 + R2 ^ 2 + R3 ^ 2 = 1)
    (imsqrt imsqrt' : Cx ℝ → ℝ)
    (hs : ∀ w : Cx ℝ, w.re ^ 2 + w.im ^ 2 = 1 → 2 * (imsqrt w) ^ 2 = 1 - w.re)
    (hs' : ∀ w : Cx ℝ, w.re ^ 2 + w.im ^ 2 = 1 → 2 * (imsqrt' w) ^ 2 = 1 - w.re)
    (ell : ℕ) (hl : ell ≤ L) (hl' : ell ≤ L') (mp m : ℤ) (hmp : mp.natAbs ≤ ell) (hm : m.natAbs ≤ ell) :
    toC (objD L st R0 R1 R2 R3 imsqrt ell mp m) = toC (objD L' st' R0 R1 R2 R3 imsqrt' ell mp m) := by
  rw [D_all L st R0 R1 R2 R3 hR imsqrt hs ell hl mp m hmp hm,
    D_all L' st' R0 R1 R2 R3 hR imsqrt' hs' ell hl' mp m hmp hm]

/-! ### 3. `Wigner.d` -/

/-- `Wigner.d` at (cos β, sin β) = (ch² − sh², 2 ch sh), ch² + sh² = 1, is the documented D at the REAL rotor
    components R_a = ch, R_b = sh — `DocD.objd_eq_docd` in the vocabulary of `Props/DDef.lean` -/
theorem d_all_half (ch sh : ℝ) (hcs : ch ^ 2 + sh ^ 2 = 1) (L : ℕ) (st : μ) (ell : ℕ) (hl : ell ≤ L)
    (mp m : ℤ) (hmp : mp.natAbs ≤ ell) (hm : m.natAbs ≤ ell) :
    ((objd L st (ch ^ 2 - sh ^ 2) (2 * ch * sh) ell mp m : ℝ) : ℂ) = docD ell (ch : ℂ) (sh : ℂ) mp m := by
  rw [docD_real ch sh ell mp m hmp hm, objd_eq_docd ch sh hcs L st ell hl mp m hmp hm]

/-- `Wigner.d(exp iβ)` is the documented D at R_a = cos(β/2), R_b = sin(β/2), for every angle β (sin β may be
    negative), every ℓ ≤ ell_max and all |m'|, |m| ≤ ℓ -/
theorem d_all (β : ℝ) (L : ℕ) (st : μ) (ell : ℕ) (hl : ell ≤ L)
    (mp m : ℤ) (hmp : mp.natAbs ≤ ell) (hm : m.natAbs ≤ ell) :
    ((objd L st (Real.cos β) (Real.sin β) ell mp m : ℝ) : ℂ)
      = docD ell ((Real.cos (β / 2) : ℝ) : ℂ) ((Real.sin (β / 2) : ℝ) : ℂ) mp m := by
  rw [docD_real _ _ ell mp m hmp hm, objd_eq_docd_angle β L st ell hl mp m hmp hm]

/-- consistency of the two methods: `Wigner.D` of the rotor (cos β/2, 0, sin β/2, 0) (rotation by β about y) is
    `Wigner.d(exp iβ)`, entry by entry, for every ℓ — whatever the two workspaces held before -/
theorem D_yrot_eq_d {μ' : Type} [Mem μ' ℝ] [LawfulMem μ' ℝ] (β : ℝ) (L L' : ℕ) (st : μ) (st' : μ')
    (imsqrt : Cx ℝ → ℝ) (hs : ∀ w : Cx ℝ, w.re ^ 2 + w.im ^ 2 = 1 → 2 * (imsqrt w) ^ 2 = 1 - w.re)
    (ell : ℕ) (hl : ell ≤ L) (hl' : ell ≤ L') (mp m : ℤ) (hmp : mp.natAbs ≤ ell) (hm : m.natAbs ≤ ell) :
    toC (objD L st (Real.cos (β / 2)) 0 (Real.sin (β / 2)) 0 imsqrt ell mp m)
      = ((objd L' st' (Real.cos β) (Real.sin β) ell mp m : ℝ) : ℂ) := by
  have hR : Real.cos (β / 2) ^ 2 + (0 : ℝ) ^ 2 + Real.sin (β / 2) ^ 2 + (0 : ℝ) ^ 2 = 1 := by
    have := Real.cos_sq_add_sin_sq (β / 2); linarith
  rw [D_all L st _ _ _ _ hR imsqrt hs ell hl mp m hmp hm, d_all β L' st' ell hl' mp m hmp hm]
  have ea : ∀ x : ℝ, Ra x 0 = (x : ℂ) := fun x => by apply Complex.ext <;> simp [Ra]
  have eb : ∀ x : ℝ, Rb 0 x = (x : ℂ) := fun x => by apply Complex.ext <;> simp [Rb]
  rw [ea, eb]

/-! ### 4. `Wigner.sYlm` -/

/-- EVERY entry ℓ ≥ |s| of `Wigner.sYlm(s, R)` computed by the model is
      (−1)^s √((2ℓ+1)/(4π)) · D^ℓ_{m,−s}(R)   with D the documented sum,
    for every unit quaternion, every ell_max = L ≥ ℓ and every mp_max = P ≥ |s| (the guard of the method), every lawful
    memory and initial content.  `zgpow` is the library power `z[2]**abs(s)`; the hypothesis `hY` says it is the
    |s|-th power of the third Euler phase (as in `Routes.sYlm_eq_D_column`).  ((−1)^{|s|} = (−1)^s.) -/
theorem sYlm_all (L P : ℕ) (st : μ) (R0 R1 R2 R3 : ℝ) (hR : R0 ^ 2 + R1 ^ 2 + R2 ^ 2 + R3 ^ 2 = 1)
    (imsqrt : Cx ℝ → ℝ) (hs : ∀ w : Cx ℝ, w.re ^ 2 + w.im ^ 2 = 1 → 2 * (imsqrt w) ^ 2 = 1 - w.re)
    (zgpow : Cx ℝ) (s : ℤ) (hY : toC zgpow = toC (eulerPhases R0 R1 R2 R3).2.2 ^ s.natAbs)
    (ell : ℕ) (hl : ell ≤ L) (hsl : s.natAbs ≤ ell) (hsP : s.natAbs ≤ P) (m : ℤ) (hm : m.natAbs ≤ ell) :
    toC (objY L P st R0 R1 R2 R3 imsqrt zgpow s ell m)
      = (((-1) ^ s.natAbs * Real.sqrt ((2 * (ell : ℝ) + 1) / (4 * Real.pi)) : ℝ) : ℂ)
          * docD ell (Ra R0 R3) (Rb R1 R2) m (-s) := by
  unfold objY
  rw [eulerPhases_unit R0 R1 R2 R3 hR] at hY ⊢
  simp only [] at hY ⊢
  have up := (zpR_spec R0 R3).2
  have um := (zmR_spec R1 R2).2
  rw [Routes.sYlm_eq_D_column _ _ (cpowers (Cx.mul (zpR R0 R3) (Cx.conj (zmR R1 R2))) L imsqrt)
      (Cx.mul (zpR R0 R3) (Cx.conj (zmR R1 R2))) zgpow s ell m hsl
      (fun k hk => cpowers_cget _ (mul_unit _ _ up (conj_unit _ um)) L imsqrt hs k (by omega)) hY,
    DEntry_core L P st R0 R1 R2 R3 hR imsqrt hs ell hl m (-s) hm (by omega) (by omega)]
  rfl

/-- entries below |s| are the literal zero (at every scalar type, in particular at `Float`) -/
theorem sYlm_low {α : Type} [Scalar α] {ν : Type} [Mem ν α] (L P : ℕ) (st : ν) (R0 R1 R2 R3 : α)
    (imsqrt : Cx α → α) (zgpow : Cx α) (s : ℤ) (ell : ℕ) (m : ℤ) (h : ell < s.natAbs) :
    objY L P st R0 R1 R2 R3 imsqrt zgpow s ell m = ⟨zero, zero⟩ := by
  unfold objY
  exact Routes.sYlm_low_exact_zero _ _ _ s ell m h

end

/-! ### instances: the hypotheses are satisfiable and the statements have content -/

/-- (1/2, 1/2, 1/2, 1/2), workspace initially all 7's, ell_max = 4, ℓ = 3: the model's entry is the documented sum -/
example : toC (objD 4 (fun _ : Loc => (7 : ℝ)) (1/2) (1/2) (1/2) (1/2) imsqrtR 3 (-2) 1)
    = docD 3 (Ra (1/2) (1/2)) (Rb (1/2) (1/2)) (-2) 1 :=
  D_all 4 _ (1/2) (1/2) (1/2) (1/2) (by norm_num) imsqrtR imsqrtR_spec 3 (by decide) (-2) 1 (by decide) (by decide)

/-- a degenerate rotor (`sqrta = 0` branch), ℓ = 2 -/
example : toC (objD 2 (fun _ : Loc => (0 : ℝ)) 0 (3/5) (4/5) 0 imsqrtR 2 (-1) 1)
    = docD 2 (Ra 0 0) (Rb (3/5) (4/5)) (-1) 1 :=
  D_all 2 _ 0 (3/5) (4/5) 0 (by norm_num) imsqrtR imsqrtR_spec 2 (by decide) (-1) 1 (by decide) (by decide)

/-- `Wigner.d` at (cos β, sin β) = (−7/25, 24/25) = (ch² − sh², 2 ch sh) with (ch, sh) = (3/5, 4/5), ℓ = 5 of 6 -/
example : ((objd 6 (fun _ : Loc => (1 : ℝ)) ((3/5 : ℝ) ^ 2 - (4/5) ^ 2) (2 * (3/5) * (4/5)) 5 4 (-3) : ℝ) : ℂ)
    = docD 5 ((3/5 : ℝ) : ℂ) ((4/5 : ℝ) : ℂ) 4 (-3) :=
  d_all_half (3/5) (4/5) (by norm_num) 6 _ 5 (by decide) 4 (-3) (by decide) (by decide)

end DAll
end
