import SphericalVerif.Lemmas.GenDiff
/-! GenDiff — **the differential operators as the Python text states them** compute what the model of C12 computes.

    `Gen/DiffKern.lean` is regenerated on every run from spherical/modes/derivatives.py: the `for ell in …` loop of `Lsquared`,
    `Lz`, `Lplus`, `Lminus`, `Rplus`, `Rminus` — the statements, ranges, `index(…)` calls (with the guards of `Modes.index`,
    generated from spherical/modes/utilities.py) and coefficient expressions of the text — on a flat memory, for one element of
    the leading axes, generic over the arithmetic.  For every spin weight, every `ell_max`, every arithmetic and every content of
    the arrays, the cell `(ell, m)` (position `ell(ell+1)+m`, the value of `index(ell, m)` — whose guards are proved never to fire
    inside the loops, `Lemmas.GenDiff.midx`) holds after the generated loop exactly the weight of the hand-written operator of
    `Model/Operators.lean`, the subject of every theorem of `Props/C12.lean` (ladder relations, commutators, Casimir, ð/ð̄).
    Hence those theorems are statements about the code as written now; a change of a coefficient, a range, an index or the order
    of `(ell, m∓1)` changes what has to be proved here.

    `famOf s L a` is the family of weights stored in an array `a` (cell `ell(ell+1)+m`), with spin weight `s` and `ell_max = L`.
    The in-place operators (`Lz`, `Lsquared`: `d = self.copy()`, then `*=` on the copy) are stated on the array that holds the
    copy; the others on an output that `np.zeros_like` / `np.zeros` left zero-filled (hypothesis `hz`), the input being read-only. -/
namespace GenDiff
open Gen Model.Ops

section
variable {α : Type} [Scalar α] {φ : Type} [FMem φ α] [LawfulFMem φ α]

/-- the family of weights stored in an array -/
def famOf (s : Int) (L : Nat) (a : Int → Cx α) : Modes α := ⟨s, L, fun ell m => a ((ell : Int) * ((ell : Int) + 1) + m)⟩

/-- **`Modes.Lz`** from the source -/
theorem gen_Lz (A : Nat) (sw : Int) (L : Nat) (st : φ) (ell : Nat) (m : Int) (hm : m.natAbs ≤ ell) (hl : ell ≤ L) :
    frdC (α := α) (Gen.Modes_Lz_loop (α := α) A (L : Int) 0 sw st) A ((ell : Int) * ((ell : Int) + 1) + m)
      = (Lz (famOf sw L (fun i => frdC (α := α) st A i))).w ell m := by
  rw [Lz_canon, mul_blocks_cell A _ sw.natAbs L st ell m hm hl]
  unfold Lz famOf
  simp only []
  by_cases h : sw.natAbs ≤ ell
  · rw [if_pos h, if_pos ⟨h, hl, hm⟩]; rfl
  · rw [if_neg h, if_neg (fun c => h c.1)]

/-- **`Modes.Lsquared`** from the source -/
theorem gen_Lsquared (A : Nat) (sw : Int) (L : Nat) (st : φ) (ell : Nat) (m : Int) (hm : m.natAbs ≤ ell) (hl : ell ≤ L) :
    frdC (α := α) (Gen.Modes_Lsquared_loop (α := α) A (L : Int) 0 sw st) A ((ell : Int) * ((ell : Int) + 1) + m)
      = (Lsquared (famOf sw L (fun i => frdC (α := α) st A i))).w ell m := by
  rw [Lsquared_canon, mul_blocks_cell A _ sw.natAbs L st ell m hm hl]
  unfold Lsquared famOf
  simp only []
  by_cases h : sw.natAbs ≤ ell
  · rw [if_pos h, if_pos ⟨h, hl, hm⟩]; rfl
  · rw [if_neg h, if_neg (fun c => h c.1)]

/-- **`Modes.Lplus`** from the source (output zero-filled by `np.zeros_like`) -/
theorem gen_Lplus (sin : Int → Cx α) (A : Nat) (sw : Int) (L : Nat) (st : φ) (hz : ∀ i, frdC (α := α) st A i = czero)
    (ell : Nat) (m : Int) (hm : m.natAbs ≤ ell) (hl : ell ≤ L) :
    frdC (α := α) (Gen.Modes_Lplus_loop (α := α) sin A (L : Int) 0 sw (L : Int) 0 sw st) A ((ell : Int) * ((ell : Int) + 1) + m)
      = (Lplus (famOf sw L sin)).w ell m := by
  rw [Lplus_canon]
  rw [set_blocks_cell A sw.natAbs L (BLplus A sin)
    (fun e k => if -e < k then Cx.rmul (Scalar.sqrt (Scalar.ofInt ((e + k) * ((e - k) + 1)) : α)) (sin (e * (e + 1) + (k - 1))) else czero) st
    ?_ ?_ ell m hm hl]
  · unfold Lplus famOf
    simp only []
    by_cases h : sw.natAbs ≤ ell
    · rw [if_pos h]
      by_cases h2 : -(ell : Int) < m
      · rw [if_pos h2, if_pos ⟨h, hl, h2, by omega⟩]; rfl
      · rw [if_neg h2, if_neg (fun c => h2 c.2.2.1)]
    · rw [if_neg h, if_neg (fun c => h c.1), hz]
  · intro e s i he hni
    rw [BLplus_cell A sin e he, if_neg (by omega), if_neg (by omega)]
  · intro e s k h1 h2 h3 h4
    rw [BLplus_cell A sin e (by omega)]
    by_cases c : -e < k
    · rw [if_pos (by omega), if_pos c]
      have a1 : e * (e + 1) + k - e * (e + 1) = k := by omega
      have a2 : e * (e + 1) + k - 1 = e * (e + 1) + (k - 1) := by omega
      rw [a1, a2]
    · rw [if_neg (by omega), if_pos (by omega), if_neg c]; rfl

/-- **`Modes.Lminus`** from the source -/
theorem gen_Lminus (sin : Int → Cx α) (A : Nat) (sw : Int) (L : Nat) (st : φ) (hz : ∀ i, frdC (α := α) st A i = czero)
    (ell : Nat) (m : Int) (hm : m.natAbs ≤ ell) (hl : ell ≤ L) :
    frdC (α := α) (Gen.Modes_Lminus_loop (α := α) sin A (L : Int) 0 sw st) A ((ell : Int) * ((ell : Int) + 1) + m)
      = (Lminus (famOf sw L sin)).w ell m := by
  rw [Lminus_canon]
  rw [set_blocks_cell A sw.natAbs L (BLminus A sin)
    (fun e k => if k < e then Cx.rmul (Scalar.sqrt (Scalar.ofInt ((e - k) * ((e + k) + 1)) : α)) (sin (e * (e + 1) + (k + 1))) else czero) st
    ?_ ?_ ell m hm hl]
  · unfold Lminus famOf
    simp only []
    by_cases h : sw.natAbs ≤ ell
    · rw [if_pos h]
      by_cases h2 : m < (ell : Int)
      · rw [if_pos h2, if_pos ⟨h, hl, by omega, h2⟩]; rfl
      · rw [if_neg h2, if_neg (fun c => h2 c.2.2.2)]
    · rw [if_neg h, if_neg (fun c => h c.1), hz]
  · intro e s i he hni
    rw [BLminus_cell A sin e he, if_neg (by omega), if_neg (by omega)]
  · intro e s k h1 h2 h3 h4
    rw [BLminus_cell A sin e (by omega)]
    by_cases c : k < e
    · rw [if_neg (by omega), if_pos (by omega), if_pos c]
      have a1 : e * (e + 1) + k - e * (e + 1) = k := by omega
      have a2 : e * (e + 1) + k + 1 = e * (e + 1) + (k + 1) := by omega
      rw [a1, a2]
    · rw [if_pos (by omega), if_neg c]; rfl

/-- **`Modes.Rplus`** from the source: new spin weight `s - 1` (`metadata['spin_weight'] = self.spin_weight - 1`), same `ell_max`,
    output zero-filled by `np.zeros_like(…, shape=…)` -/
theorem gen_Rplus (sin : Int → Cx α) (A : Nat) (sw : Int) (L : Nat) (st : φ) (hz : ∀ i, frdC (α := α) st A i = czero)
    (ell : Nat) (m : Int) (hm : m.natAbs ≤ ell) (hl : ell ≤ L) :
    frdC (α := α) (Gen.Modes_Rplus_loop (α := α) sin A (L : Int) 0 (sw - 1) (L : Int) 0 sw st) A ((ell : Int) * ((ell : Int) + 1) + m)
      = (Rplus (famOf sw L sin)).w ell m := by
  rw [Rplus_canon sin A sw L st (max (sw - 1).natAbs sw.natAbs) (by omega)]
  rw [set_blocks_cell A (max (sw - 1).natAbs sw.natAbs) L (BR A sin _)
    (fun e k => Cx.rmul (Scalar.sqrt (Scalar.ofInt ((e - (sw - 1)) * ((e + (sw - 1)) + 1)) : α)) (sin (e * (e + 1) + k))) st ?_ ?_ ell m hm hl]
  · unfold Rplus famOf Modes.ellMin
    simp only []
    by_cases h : max (sw - 1).natAbs sw.natAbs ≤ ell
    · rw [if_pos h, if_pos ⟨h, hl, Nat.zero_le _, hm⟩]; rfl
    · rw [if_neg h, if_neg (fun c => h c.1), hz]
  · intro e s i he hni
    rw [BR_cell, if_neg (by omega)]
  · intro e s k h1 h2 h3 h4
    rw [BR_cell, if_pos (by omega)]

/-- **`Modes.Rminus`** (= `eth`) from the source: new spin weight `s + 1` -/
theorem gen_Rminus (sin : Int → Cx α) (A : Nat) (sw : Int) (L : Nat) (st : φ) (hz : ∀ i, frdC (α := α) st A i = czero)
    (ell : Nat) (m : Int) (hm : m.natAbs ≤ ell) (hl : ell ≤ L) :
    frdC (α := α) (Gen.Modes_Rminus_loop (α := α) sin A (L : Int) 0 (sw + 1) (L : Int) 0 sw st) A ((ell : Int) * ((ell : Int) + 1) + m)
      = (Rminus (famOf sw L sin)).w ell m := by
  rw [Rminus_canon sin A sw L st (max (sw + 1).natAbs sw.natAbs) (by omega)]
  rw [set_blocks_cell A (max (sw + 1).natAbs sw.natAbs) L (BR A sin _)
    (fun e k => Cx.rmul (Scalar.sqrt (Scalar.ofInt ((e + (sw + 1)) * ((e - (sw + 1)) + 1)) : α)) (sin (e * (e + 1) + k))) st ?_ ?_ ell m hm hl]
  · unfold Rminus famOf Modes.ellMin
    simp only []
    by_cases h : max (sw + 1).natAbs sw.natAbs ≤ ell
    · rw [if_pos h, if_pos ⟨h, hl, Nat.zero_le _, hm⟩]; rfl
    · rw [if_neg h, if_neg (fun c => h c.1), hz]
  · intro e s i he hni
    rw [BR_cell, if_neg (by omega)]
  · intro e s k h1 h2 h3 h4
    rw [BR_cell, if_pos (by omega)]

/-- inside every loop above the guards of `Modes.index` hold: the generated index is the documented position and `index_ok` is true -/
theorem index_never_raises (sw : Int) (L ell : Nat) (m : Int) (h1 : sw.natAbs ≤ ell) (h2 : ell ≤ L) (hm : m.natAbs ≤ ell) :
    Gen.Modes_index sw 0 L ell m = Gen.Yindex ell m 0 ∧ Gen.index_ok ell m sw 0 L = true := by
  refine ⟨?_, ?_⟩
  · unfold Gen.Modes_index
    rw [if_neg (by omega), if_neg (by omega)]
  · unfold Gen.index_ok
    rw [if_neg (by omega), if_neg (by omega)]
end

/-! ### the array-level operators of spherical/utilities/operators.py, from the source -/
section
variable {α : Type} [Scalar α] {φ : Type} [FMem φ α] [LawfulFMem φ α]

/-- position of `(ell, m)` in an array that starts at `ell_min` -/
theorem yindex_closed (ell m : Int) (emin : Nat) (h : (emin : Int) ≤ ell) :
    Gen.Yindex ell m emin = ell * ell - (emin : Int) * emin + (ell + m) := by
  unfold Gen.Yindex
  split_ifs with c
  · ring
  · have : ell = emin := by omega
    subst this; ring

/-- the generated factor expressions are the model's factors -/
theorem factor_GHP (s ell : Int) :
    (if (decide ((ell < ((Int.natAbs (s + (1 : Int)) : Nat) : Int)))) then (Scalar.ofInt (0 : Int) : α)
      else (Scalar.sqrt (((Scalar.ofInt (ell - s) : α) *. ((Scalar.ofInt (ell + s) : α) +. (Scalar.ofInt (1 : Int) : α))) /. (Scalar.ofInt (2 : Int) : α))))
      = fEthGHP (α := α) s ell := by
  unfold fEthGHP radEth
  by_cases c : ell < ((Int.natAbs (s + 1) : Nat) : Int)
  · simp only [c, decide_true, if_true]; rfl
  · simp only [c, decide_false, if_false]; rfl

theorem factor_barGHP (s ell : Int) :
    (if (decide ((ell < ((Int.natAbs (s - (1 : Int)) : Nat) : Int)))) then (Scalar.ofInt (0 : Int) : α)
      else (Scalar.neg (Scalar.sqrt (((Scalar.ofInt (ell + s) : α) *. ((Scalar.ofInt (ell - s) : α) +. (Scalar.ofInt (1 : Int) : α))) /. (Scalar.ofInt (2 : Int) : α)))))
      = fEthbarGHP (α := α) s ell := by
  unfold fEthbarGHP radEthbar
  by_cases c : ell < ((Int.natAbs (s - 1) : Nat) : Int)
  · simp only [c, decide_true, if_true]; rfl
  · simp only [c, decide_false, if_false]; rfl

theorem factor_NP (s ell : Int) :
    (if (decide ((ell < ((Int.natAbs (s + (1 : Int)) : Nat) : Int)))) then (Scalar.ofInt (0 : Int) : α)
      else (Scalar.sqrt ((Scalar.ofInt (ell - s) : α) *. ((Scalar.ofInt (ell + s) : α) +. (Scalar.ofInt (1 : Int) : α)))))
      = fEthNP (α := α) s ell := by
  unfold fEthNP radEth
  by_cases c : ell < ((Int.natAbs (s + 1) : Nat) : Int)
  · simp only [c, decide_true, if_true]; rfl
  · simp only [c, decide_false, if_false]; rfl

theorem factor_barNP (s ell : Int) :
    (if (decide ((ell < ((Int.natAbs (s - (1 : Int)) : Nat) : Int)))) then (Scalar.ofInt (0 : Int) : α)
      else (Scalar.neg (Scalar.sqrt ((Scalar.ofInt (ell + s) : α) *. ((Scalar.ofInt (ell - s) : α) +. (Scalar.ofInt (1 : Int) : α))))))
      = fEthbarNP (α := α) s ell := by
  unfold fEthbarNP radEthbar
  by_cases c : ell < ((Int.natAbs (s - 1) : Nat) : Int)
  · simp only [c, decide_true, if_true]; rfl
  · simp only [c, decide_false, if_false]; rfl

/-- the common shape of the four multiplying operators -/
theorem mul_op_cell (A : Nat) (factor : Int → α) (emin : Nat) (emax : Int) (st : φ)
    (ell : Int) (k : Int) (h1 : (emin : Int) ≤ ell) (h2 : ell ≤ emax) (h3 : 0 ≤ k) (h4 : k < 2 * ell + 1) :
    frdC (α := α) (loopN ((emax + 1) - (emin : Int)).toNat (fun k1 (p : φ × Int) =>
        runCtr A (fun z => Cx.mulr z (factor ((emin : Int) + (k1 : Int)))) ((emin : Int) + (k1 : Int)) p) (st, 0)).1 A (ell * ell - (emin : Int) * emin + k)
      = actMul factor ell (frdC (α := α) st A (ell * ell - (emin : Int) * emin + k)) := by
  have := (ctr_blocks A emin (fun e p => runCtr A (fun z => Cx.mulr z (factor e)) e p) (actMul factor)
    (fun e p he => (runCtr_facts A _ e he p).1) (fun e p i he => (runCtr_facts A _ e he p).2.1 i)
    (fun e p i he => (runCtr_facts A _ e he p).2.2 i) ((emax + 1) - (emin : Int)).toNat st).2.1 ell k h1 (by omega) h3 h4
  exact this

/-- **`eth_GHP`** from the source: entry `(ell, m)` of the returned copy is the input entry times the model's factor -/
theorem gen_eth_GHP (A : Nat) (s : Int) (emin : Nat) (emax : Int) (st : φ) (ell m : Int) (h1 : (emin : Int) ≤ ell) (h2 : ell ≤ emax)
    (hm1 : -ell ≤ m) (hm2 : m ≤ ell) :
    frdC (α := α) (Gen.arr_eth_GHP_loop (α := α) A s emin emax st) A (Gen.Yindex ell m emin)
      = actMul (fEthGHP s) ell (frdC (α := α) st A (Gen.Yindex ell m emin)) := by
  rw [yindex_closed ell m emin h1, ← mul_op_cell A (fEthGHP s) emin emax st ell (ell + m) h1 h2 (by omega) (by omega)]
  unfold Gen.arr_eth_GHP_loop runCtr
  simp only [factor_GHP]

theorem gen_ethbar_GHP (A : Nat) (s : Int) (emin : Nat) (emax : Int) (st : φ) (ell m : Int) (h1 : (emin : Int) ≤ ell) (h2 : ell ≤ emax)
    (hm1 : -ell ≤ m) (hm2 : m ≤ ell) :
    frdC (α := α) (Gen.arr_ethbar_GHP_loop (α := α) A s emin emax st) A (Gen.Yindex ell m emin)
      = actMul (fEthbarGHP s) ell (frdC (α := α) st A (Gen.Yindex ell m emin)) := by
  rw [yindex_closed ell m emin h1, ← mul_op_cell A (fEthbarGHP s) emin emax st ell (ell + m) h1 h2 (by omega) (by omega)]
  unfold Gen.arr_ethbar_GHP_loop runCtr
  simp only [factor_barGHP]

theorem gen_eth_NP (A : Nat) (s : Int) (emin : Nat) (emax : Int) (st : φ) (ell m : Int) (h1 : (emin : Int) ≤ ell) (h2 : ell ≤ emax)
    (hm1 : -ell ≤ m) (hm2 : m ≤ ell) :
    frdC (α := α) (Gen.arr_eth_NP_loop (α := α) A s emin emax st) A (Gen.Yindex ell m emin)
      = actMul (fEthNP s) ell (frdC (α := α) st A (Gen.Yindex ell m emin)) := by
  rw [yindex_closed ell m emin h1, ← mul_op_cell A (fEthNP s) emin emax st ell (ell + m) h1 h2 (by omega) (by omega)]
  unfold Gen.arr_eth_NP_loop runCtr
  simp only [factor_NP]

theorem gen_ethbar_NP (A : Nat) (s : Int) (emin : Nat) (emax : Int) (st : φ) (ell m : Int) (h1 : (emin : Int) ≤ ell) (h2 : ell ≤ emax)
    (hm1 : -ell ≤ m) (hm2 : m ≤ ell) :
    frdC (α := α) (Gen.arr_ethbar_NP_loop (α := α) A s emin emax st) A (Gen.Yindex ell m emin)
      = actMul (fEthbarNP s) ell (frdC (α := α) st A (Gen.Yindex ell m emin)) := by
  rw [yindex_closed ell m emin h1, ← mul_op_cell A (fEthbarNP s) emin emax st ell (ell + m) h1 h2 (by omega) (by omega)]
  unfold Gen.arr_ethbar_NP_loop runCtr
  simp only [factor_barNP]

/-- block `e` of `ethbar_inverse_NP`: divide the `2e+1` entries by `-sqrt(term)` where `term > 0.0`, skip them otherwise -/
def BInv (A : Nat) (s : Int) (e : Int) (p : φ × Int) : φ × Int :=
  if (Scalar.lt (Scalar.ofInt (0 : Int) : α) (termInv (α := α) s e)) = true then
    runCtr A (fun z => Cx.div z (Cx.ofRe (fInv (α := α) s e))) e p
  else (p.1, p.2 + (((2 : Int) * e) + (1 : Int)))

theorem BInv_facts (A : Nat) (s : Int) (e : Int) (he : 0 ≤ e) (p : φ × Int) :
    (BInv (α := α) A s e p).2 = p.2 + (2 * e + 1)
    ∧ (∀ i, ¬ (p.2 ≤ i ∧ i < p.2 + (2 * e + 1)) → frdC (α := α) (BInv (α := α) A s e p).1 A i = frdC (α := α) p.1 A i)
    ∧ (∀ i, p.2 ≤ i → i < p.2 + (2 * e + 1) → frdC (α := α) (BInv (α := α) A s e p).1 A i = actInv s e (frdC (α := α) p.1 A i)) := by
  unfold BInv actInv
  by_cases c : (Scalar.lt (Scalar.ofInt (0 : Int) : α) (termInv (α := α) s e)) = true
  · have c' : Scalar.lt (zero : α) (termInv (α := α) s e) = true := c
    rw [if_pos c]
    obtain ⟨f1, f2, f3⟩ := runCtr_facts A (fun z => Cx.div z (Cx.ofRe (fInv (α := α) s e))) e he p
    exact ⟨f1, f2, fun i h1 h2 => by rw [if_pos c']; exact f3 i h1 h2⟩
  · have c' : ¬ (Scalar.lt (zero : α) (termInv (α := α) s e) = true) := c
    rw [if_neg c]
    exact ⟨rfl, fun _ _ => rfl, fun i _ _ => by rw [if_neg c']⟩

/-- **`ethbar_inverse_NP`** from the source -/
theorem gen_ethbar_inverse_NP (A : Nat) (s : Int) (emin : Nat) (emax : Int) (st : φ) (ell m : Int) (h1 : (emin : Int) ≤ ell) (h2 : ell ≤ emax)
    (hm1 : -ell ≤ m) (hm2 : m ≤ ell) :
    frdC (α := α) (Gen.arr_ethbar_inverse_NP_loop (α := α) A s emin emax st) A (Gen.Yindex ell m emin)
      = actInv s ell (frdC (α := α) st A (Gen.Yindex ell m emin)) := by
  rw [yindex_closed ell m emin h1]
  have := (ctr_blocks A emin (fun e p => BInv (α := α) A s e p) (actInv s)
    (fun e p he => (BInv_facts A s e he p).1) (fun e p i he => (BInv_facts A s e he p).2.1 i)
    (fun e p i he => (BInv_facts A s e he p).2.2 i) ((emax + 1) - (emin : Int)).toNat st).2.1 ell (ell + m) h1 (by omega) (by omega) (by omega)
  rw [← this]
  rfl

/-- entries past the inferred `ell_max` (an input whose length fits no `ell` range exactly) keep their value, in all five -/
theorem gen_eth_GHP_beyond (A : Nat) (s : Int) (emin : Nat) (emax : Int) (h : (emin : Int) ≤ emax + 1) (st : φ) (i : Int)
    (hi : i < 0 ∨ (emax + 1) * (emax + 1) - (emin : Int) * emin ≤ i) :
    frdC (α := α) (Gen.arr_eth_GHP_loop (α := α) A s emin emax st) A i = frdC (α := α) st A i := by
  have := (ctr_blocks A emin (fun e p => runCtr A (fun z => Cx.mulr z (fEthGHP (α := α) s e)) e p) (actMul (fEthGHP s))
    (fun e p he => (runCtr_facts A _ e he p).1) (fun e p i he => (runCtr_facts A _ e he p).2.1 i)
    (fun e p i he => (runCtr_facts A _ e he p).2.2 i) ((emax + 1) - (emin : Int)).toNat st).2.2 i (by
      have e : (emin : Int) + (((emax + 1) - (emin : Int)).toNat : Int) = emax + 1 := by omega
      rw [e]; exact hi)
  rw [← this]
  unfold Gen.arr_eth_GHP_loop runCtr
  simp only [factor_GHP]
end

/-- non-vacuity: IEEE doubles on the executable memory, spin −2, `ell_max = 4`, the cell (3, −1) of `Lplus` -/
example (sin : Int → Cx Float) (st : HFMem Float) (hz : ∀ i, frdC (α := Float) st 7 i = czero) :
    frdC (α := Float) (Gen.Modes_Lplus_loop (α := Float) sin 7 ((4 : Nat) : Int) 0 (-2) ((4 : Nat) : Int) 0 (-2) st) 7 (((3 : Nat) : Int) * (((3 : Nat) : Int) + 1) + (-1))
      = (Lplus (famOf (-2) 4 sin)).w 3 (-1) :=
  gen_Lplus sin 7 (-2) 4 st hz 3 (-1) (by decide) (by decide)
end GenDiff
