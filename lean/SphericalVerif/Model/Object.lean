import SphericalVerif.Model.Assemble
/-! Object-level models of the `Wigner` methods of spherical/wigner.py (`d`, `D`, `sYlm`, `evaluate(horner=True)`,
    `rotate(horner=True)`): each method = "convert the rotor, run the H recursion *into the object's workspace*,
    compute the phase powers, fill the output".  These are exactly the compositions the validated driver
    commands `dfull`, `Dfull`, `Y`, `evalH`, `rotH` (Driver/Main.lean) execute, with one thing made explicit:
    the content `st` the workspace had *before* the call (the driver always starts from a constant memory;
    a real object starts from whatever the previous call, possibly of a different method, left behind).

    `L` = `self.ell_max`, `P` = `self.mp_max`.  Library operations with no IEEE-exact specification are
    parameters: `imsqrt` (imaginary part of `np.sqrt` of a complex) and `cpow` (complex `**` int).
    Core Lean only. -/
namespace Model

/-- a rotor `R = (R0, R1, R2, R3)` (one row of `quaternionic.array(R).ndarray.reshape((-1, 4))`) -/
structure Quat (α : Type) where
  w : α
  x : α
  y : α
  z : α

section
open Scalar
variable {α : Type} [Scalar α] {μ : Type} [Mem μ α]

/-- `to_euler_phases(R, z)` -/
def Quat.phases (R : Quat α) : Cx α × Cx α × Cx α := eulerPhases R.w R.x R.y R.z

/-- the workspace after `self.H(z[1], Hwedge, Hv, Hextra)` for the rotor `R`, started on the content `st` -/
def memAfterR (L P : Nat) (st : μ) (R : Quat α) : μ :=
  let z := R.phases
  runH L P z.2.1.re z.2.1.im st

/-! ### single calls -/

/-- `Wigner.d(expiβ)` entry (ℓ, m', m), `expiβ = c + i s`; the guard `mp_max ≥ ell_max` forces `P = L` -/
def objd (L : Nat) (st : μ) (c s : α) (ell : Nat) (mp m : Int) : α :=
  let st' := runH L L c s st
  dEntry (α := α) st' ell mp m

/-- `Wigner.D(R)` entry (ℓ, m', m) for one rotor (driver command `Dfull`) -/
def objD (L : Nat) (st : μ) (R0 R1 R2 R3 : α) (imsqrt : Cx α → α) (ell : Nat) (mp m : Int) : Cx α :=
  let (z0, z1, z2) := eulerPhases R0 R1 R2 R3
  let st' := runH L L z1.re z1.im st
  DEntry (α := α) st' (cpowers z0 L imsqrt) (cpowers z2 L imsqrt) ell mp m

/-- `Wigner.sYlm(s, R)` entry (ℓ, m) for one rotor (driver command `Y`); `zgpow` is `z[2]**abs(s)` -/
def objY (L P : Nat) (st : μ) (R0 R1 R2 R3 : α) (imsqrt : Cx α → α) (zgpow : Cx α) (s : Int) (ell : Nat) (m : Int) :
    Cx α :=
  let (z0, z1, _) := eulerPhases R0 R1 R2 R3
  let st' := runH L P z1.re z1.im st
  sYlmEntry (α := α) st' (cpowers z0 L imsqrt) zgpow s ell m

/-- `Wigner.evaluate(modes, R, horner=True)` for one row `f` of mode weights and one rotor (driver command
    `evalH`); `zgpow` is `zᵧ.conjugate()**s`, `prev` what the output cell held before the call -/
def objEvalH (L P : Nat) (st : μ) (R0 R1 R2 R3 : α) (zgpow : Cx α) (f : Array (Cx α)) (s : Int) (ellMax : Nat)
    (prev : Cx α) : Cx α :=
  let (z0, z1, _) := eulerPhases R0 R1 R2 R3
  let st' := runH L P z1.re z1.im st
  evaluateHornerK (α := α) st' f z0 zgpow s ellMax prev

/-- `Wigner.rotate(modes, R, horner=True)` output weight (ℓ, m) for one row `f` of mode weights (driver command
    `rotH`); `zgpow m` is `zᵧ**m`; weights with ℓ < |s| are not written (they stay 0 in a fresh output) -/
def objRotH (L : Nat) (st : μ) (R0 R1 R2 R3 : α) (zgpow : Int → Cx α) (f : Array (Cx α)) (s : Int) (ell : Nat)
    (m : Int) : Cx α :=
  let (z0, z1, _) := eulerPhases R0 R1 R2 R3
  let st' := runH L L z1.re z1.im st
  if ell < s.natAbs then ⟨zero, zero⟩ else rotateHornerEntry (α := α) st' f z0 zgpow ell m

/-! ### vectorised calls: `for i_R in range(quaternions.shape[0])` over ONE workspace -/

/-- the loop of `Wigner.D` over the rotors: iteration `i` runs H on the memory left by iteration `i-1` and
    appends entry (ℓ, m', m) of its slice `function_values[i_R]`.  Returns (final workspace, outputs). -/
def objDloop (L : Nat) (imsqrt : Cx α → α) (ell : Nat) (mp m : Int) (Rs : List (Quat α)) (st : μ) :
    μ × List (Cx α) :=
  Rs.foldl (fun (acc : μ × List (Cx α)) R =>
    (memAfterR L L acc.1 R, acc.2 ++ [objD L acc.1 R.w R.x R.y R.z imsqrt ell mp m])) (st, [])

/-- entry (ℓ, m', m) of every slice of the vectorised `Wigner.D(R)` -/
def objDvec (L : Nat) (st : μ) (Rs : List (Quat α)) (imsqrt : Cx α → α) (ell : Nat) (mp m : Int) : List (Cx α) :=
  (objDloop L imsqrt ell mp m Rs st).2

/-- the loop of `Wigner.sYlm` over the rotors; `cpow w k` is the library `w**k` (`zᵧpower = z[2]**abs(s)` is
    recomputed for each rotor) -/
def objYloop (L P : Nat) (imsqrt : Cx α → α) (cpow : Cx α → Int → Cx α) (s : Int) (ell : Nat) (m : Int)
    (Rs : List (Quat α)) (st : μ) : μ × List (Cx α) :=
  Rs.foldl (fun (acc : μ × List (Cx α)) R =>
    (memAfterR L P acc.1 R,
     acc.2 ++ [objY L P acc.1 R.w R.x R.y R.z imsqrt (cpow R.phases.2.2 (s.natAbs : Int)) s ell m])) (st, [])

def objYvec (L P : Nat) (st : μ) (Rs : List (Quat α)) (imsqrt : Cx α → α) (cpow : Cx α → Int → Cx α) (s : Int)
    (ell : Nat) (m : Int) : List (Cx α) :=
  (objYloop L P imsqrt cpow s ell m Rs st).2

/-! ### sequences of calls on one object -/

/-- what a call returns: one real entry (`d`) or one complex entry -/
inductive Val (α : Type) where
  | re (x : α)
  | cx (z : Cx α)

/-- one method call on a `Wigner` object, with its arguments and the output entry that is observed -/
inductive Op (α : Type) where
  | d (c s : α) (ell : Nat) (mp m : Int)
  | D (R : Quat α) (ell : Nat) (mp m : Int)
  | sYlm (s : Int) (R : Quat α) (ell : Nat) (m : Int)
  | evalH (f : Array (Cx α)) (s : Int) (ellMax : Nat) (R : Quat α) (prev : Cx α)
  | rotH (f : Array (Cx α)) (s : Int) (R : Quat α) (ell : Nat) (m : Int)

/-- the call passes the guards of the method (`Gen.Wigner_*_ok`, see `C15`) and the observed entry is inside the
    documented range -/
def Op.valid (L P : Nat) : Op α → Prop
  | .d _ _ ell mp m => L ≤ P ∧ ell ≤ L ∧ mp.natAbs ≤ ell ∧ m.natAbs ≤ ell
  | .D _ ell mp m => L ≤ P ∧ ell ≤ L ∧ mp.natAbs ≤ ell ∧ m.natAbs ≤ ell
  | .sYlm s _ ell m => s.natAbs ≤ P ∧ ell ≤ L ∧ m.natAbs ≤ ell
  | .evalH _ s ellMax _ _ => s.natAbs ≤ P ∧ ellMax ≤ L
  | .rotH _ _ _ ell m => L ≤ P ∧ ell ≤ L ∧ m.natAbs ≤ ell

/-- the value the call returns when the workspace holds `st` on entry -/
def Op.out (L P : Nat) (imsqrt : Cx α → α) (cpow : Cx α → Int → Cx α) (st : μ) : Op α → Val α
  | .d c s ell mp m => .re (objd L st c s ell mp m)
  | .D R ell mp m => .cx (objD L st R.w R.x R.y R.z imsqrt ell mp m)
  | .sYlm s R ell m => .cx (objY L P st R.w R.x R.y R.z imsqrt (cpow R.phases.2.2 (s.natAbs : Int)) s ell m)
  | .evalH f s ellMax R prev =>
      .cx (objEvalH L P st R.w R.x R.y R.z (cpow (Cx.conj R.phases.2.2) s) f s ellMax prev)
  | .rotH f s R ell m => .cx (objRotH L st R.w R.x R.y R.z (fun k => cpow R.phases.2.2 k) f s ell m)

/-- the workspace the call leaves behind (every method runs `self.H` once per rotor, with the object's own
    `mp_max = P`) -/
def Op.mem (L P : Nat) (st : μ) : Op α → μ
  | .d c s _ _ _ => runH L P c s st
  | .D R _ _ _ => memAfterR L P st R
  | .sYlm _ R _ _ => memAfterR L P st R
  | .evalH _ _ _ R _ => memAfterR L P st R
  | .rotH _ _ R _ _ => memAfterR L P st R

/-- a sequence of calls on one object: each call starts on the workspace left by the previous one -/
def runOps (L P : Nat) (imsqrt : Cx α → α) (cpow : Cx α → Int → Cx α) : μ → List (Op α) → List (Val α)
  | _, [] => []
  | st, op :: ops => op.out L P imsqrt cpow st :: runOps L P imsqrt cpow (op.mem L P st) ops

end
end Model
