import SphericalVerif.Gen.Dispatch
import SphericalVerif.Gen.HKern
import SphericalVerif.Gen.FillKern
import SphericalVerif.Gen.HornerKern
import SphericalVerif.Gen.CPowKern
import SphericalVerif.Gen.RotHKern
import SphericalVerif.Gen.EulerKern
import SphericalVerif.Gen.MethodKern
import SphericalVerif.Gen.MulKern
import SphericalVerif.Gen.W3jKern
import SphericalVerif.Gen.RotMKern
import SphericalVerif.Model.Assemble
import SphericalVerif.Model.W3j
import SphericalVerif.Spec.Orderings
import SphericalVerif.Model.Sched
import Driver.GridOps
import Driver.ModesOps
import Driver.DiffOps
/-! Line-protocol driver: one operation per input line, one output line per operation.
    Doubles travel as decimal UInt64 bit patterns.  Compiled (`lake build driver`); imports no Mathlib. -/
open Model

def fb (x : Float) : String := toString x.toBits.toNat
def bf (s : String) : Float := Float.ofBits (UInt64.ofNat s.toNat!)
def cxs (z : Cx Float) : String := fb z.re ++ " " ++ fb z.im
def join (xs : Array String) : String := String.intercalate " " xs.toList

def parseArg (s : String) : Option Int := if s == "none" then none else s.toInt?

abbrev M := HMem Float

def runHF (L P : Nat) (c s dflt : Float) : M :=
  runH (α := Float) (μ := M) L P c s ({ map := ∅, dflt := dflt } : M)

/-- the coefficient tables `(a, b, d, g, h)` of a calculator with `ell_max = L`, from the generated element formulas, listed in
    the documented orderings -/
def genTables (L : Nat) : (Int → Float) × (Int → Float) × (Int → Float) × (Int → Float) × (Int → Float) :=
  let LI : Int := L
  let nm := Spec.nmRange (LI+1)
  let nabsm := Spec.nabsmRange (LI+1)
  let nanF := Float.ofBits 0x7FF8000000000BAD
  let tabOf (xs : List Float) : Int → Float :=
    let arr := xs.toArray
    fun i => if i < 0 then nanF else arr.getD i.toNat nanF
  (tabOf (nabsm.map (fun t => Gen.tab_a (α := Float) t.1 t.2)), tabOf (nm.map (fun t => Gen.tab_b (α := Float) t.1 t.2)),
   tabOf (nm.map (fun t => Gen.tab_d (α := Float) t.1 t.2)), tabOf (nm.map (fun t => Gen.tab_g (α := Float) t.1 t.2)),
   tabOf (nm.map (fun t => Gen.tab_h (α := Float) t.1 t.2)))

/-- the GENERATED kernels (Gen/HKern.lean) on a flat hash-map memory; tables from the generated element formulas.
    Array ids: Hwedge = 0, Hv = 1, Hextra = 2. -/
def genHState (L P : Nat) (c s dflt : Float) : HFMem Float :=
  let LI : Int := L
  let (a, b, d, g, h) := genTables L
  let st0 : HFMem Float := { map := ∅, dflt := dflt }
  Gen.Wigner_H (α := Float) (φ := HFMem Float) g h LI P a b d ⟨c, s⟩ 0 1 2 st0

/-- a complex array handed to a generated kernel as a read-only function of the index -/
def cxFun (a : Array (Cx Float)) : Int → Cx Float :=
  let nanF := Float.ofBits 0x7FF8000000000BAD
  fun i => if i < 0 then ⟨nanF, nanF⟩ else a.getD i.toNat ⟨nanF, nanF⟩

def imsqrtTable (tab : List (Float × Float × Float)) (z : Cx Float) : Float :=
  match tab.find? (fun t => t.1.toBits == z.re.toBits && t.2.1.toBits == z.im.toBits) with
  | some t => t.2.2
  | none => Float.ofBits 0x7FF8000000000BAD   -- NaN marker: harness did not supply the value

def parseCxArray (toks : List String) : Array (Cx Float) := Id.run do
  let mut out : Array (Cx Float) := #[]
  let a := toks.toArray
  for i in [0:a.size/2] do
    out := out.push ⟨bf a[2*i]!, bf a[2*i+1]!⟩
  return out

/-- `calc.calculate(j2, j3, m2, m3)` of a `Wigner3jCalculator` of the given size, as an operation on the flat memory: the result array
    (the 3-j model `W3j.calculate`) is stored in the calculator's array `id` -/
def w3jStore (size : Nat) (id : Nat) (j2 j3 m2 m3 : Int) (st : HFMem Float) : HFMem Float := Id.run do
  let r := W3j.calculate (α := Float) size (Array.replicate (4*size) 0.0) j2 j3 m2 m3
  let mut st := st
  for i in [0:size] do
    st := fwr (α := Float) st id (i : Int) (r.f.getD i 0.0)
  return st

def step (line : String) : String :=
  match (line.trimAscii.toString.splitOn " ").filter (· ≠ "") with
  | "gen" :: name :: args =>
    match Gen.dispatch name (args.map parseArg).toArray with
    | some v => toString v
    | none => "bad-op"
  | ["H", L, P, c, s, dflt] =>
    let L := L.toNat!; let P := P.toNat!
    let st := runHF L P (bf c) (bf s) (bf dflt)
    let wedge := (Spec.hRange P L).map (fun t => fb (rd (α := Float) st (.hw t.1.toNat t.2.1 t.2.2.toNat)))
    let hv := (Spec.nmRange L).map (fun t => fb (rd (α := Float) st (.hv t.1.toNat t.2)))
    let hx := (List.range (L+2)).map (fun m => fb (rd (α := Float) st (.hx m)))
    String.intercalate " " wedge ++ " | " ++ String.intercalate " " hv ++ " | " ++ String.intercalate " " hx
  | ["genH", L, P, c, s, dflt] =>
    let L := L.toNat!; let P := P.toNat!
    let LI : Int := L
    let st := genHState L P (bf c) (bf s) (bf dflt)
    let hsize := (Gen.WignerHsize P LI).toNat
    let wedge := (List.range hsize).map (fun (i : Nat) => fb (frd (α := Float) st 0 ((i : Nat) : Int)))
    let hv := (List.range ((L+1)*(L+1))).map (fun (i : Nat) => fb (frd (α := Float) st 1 ((i : Nat) : Int)))
    let hx := (List.range (L+2)).map (fun (i : Nat) => fb (frd (α := Float) st 2 ((i : Nat) : Int)))
    String.intercalate " " wedge ++ " | " ++ String.intercalate " " hv ++ " | " ++ String.intercalate " " hx
  | ["gendfull", L, ellmin, c, s, dflt] =>
    -- (the GENERATED body of `Wigner.d`, Gen/MethodKern.lean: `self.H` then `_fill_wigner_d`, as the method wires them)
    let L := L.toNat!
    let (a, b, d, g, h) := genTables L
    let st0 : HFMem Float := { map := ∅, dflt := bf dflt }
    let st := Gen.Wigner_d_body (α := Float) g h L L a b d ⟨bf c, bf s⟩ 0 1 2 3 ellmin.toInt! st0
    let n := (Gen.WignerDsize ellmin.toInt! L L).toNat
    String.intercalate " " ((List.range n).map (fun (i : Nat) => fb (frd (α := Float) st 3 ((i : Nat) : Int))))
  | ["genDfull", L, ellmin, r0, r1, r2, r3, isA, isG, dflt] =>
    let L := L.toNat!
    let (z0, z1, z2) := eulerPhases (bf r0) (bf r1) (bf r2) (bf r3)
    let st := genHState L L z1.re z1.im (bf dflt)
    let za := cpowers z0 L (fun _ => bf isA)
    let zg := cpowers z2 L (fun _ => bf isG)
    let st := Gen.u_fill_wigner_D (α := Float) ellmin.toInt! L L 3 (fun i => frd (α := Float) st 0 i) (cxFun za) (cxFun zg) st
    let n := (Gen.WignerDsize ellmin.toInt! L L).toNat
    String.intercalate " " ((List.range n).map (fun (i : Nat) => cxs (frdC (α := Float) st 3 ((i : Nat) : Int))))
  | ["genY", L, P, ellmin, s, r0, r1, r2, r3, isA, pre, pim, dflt] =>
    let L := L.toNat!; let P := P.toNat!
    let (z0, z1, _) := eulerPhases (bf r0) (bf r1) (bf r2) (bf r3)
    let st := genHState L P z1.re z1.im (bf dflt)
    let za := cpowers z0 L (fun _ => bf isA)
    let st := Gen.u_fill_sYlm (α := Float) ellmin.toInt! L P s.toInt! 3 (fun i => frd (α := Float) st 0 i) (cxFun za) ⟨bf pre, bf pim⟩ st
    let n := (Gen.Ysize ellmin.toInt! L).toNat
    String.intercalate " " ((List.range n).map (fun (i : Nat) => cxs (frdC (α := Float) st 3 ((i : Nat) : Int))))
  | ["gentables", L] =>
    let L : Int := L.toNat!
    let nm := Spec.nmRange (L+1)
    let nabsm := Spec.nabsmRange (L+1)
    let a := nabsm.map (fun t => fb (Gen.tab_a (α := Float) t.1 t.2))
    let b := nm.map (fun t => fb (Gen.tab_b (α := Float) t.1 t.2))
    let d := nm.map (fun t => fb (Gen.tab_d (α := Float) t.1 t.2))
    let g := nm.map (fun t => fb (Gen.tab_g (α := Float) t.1 t.2))
    let h := nm.map (fun t => fb (Gen.tab_h (α := Float) t.1 t.2))
    String.intercalate " | " ([a, b, d, g, h].map (String.intercalate " "))
  | ["tables", L] =>
    let L : Int := L.toNat!
    let nm := Spec.nmRange (L+1)
    let nabsm := Spec.nabsmRange (L+1)
    let a := nabsm.map (fun t => fb (aC (α := Float) t.1 t.2))
    let b := nm.map (fun t => fb (bC (α := Float) t.1 t.2))
    let d := nm.map (fun t => fb (dC (α := Float) t.1 t.2))
    let g := nm.map (fun t => fb (gC (α := Float) t.1 t.2))
    let h := nm.map (fun t => fb (hC (α := Float) t.1 t.2))
    String.intercalate " | " ([a, b, d, g, h].map (String.intercalate " "))
  | ["prep", r0, r1, r2, r3] =>
    let (z0, z1, z2) := eulerPhases (bf r0) (bf r1) (bf r2) (bf r3)
    let (ta, za) := quadrant 4 (Cx.oneC : Cx Float) z0
    let (tg, zg) := quadrant 4 (Cx.oneC : Cx Float) z2
    join #[cxs z0, cxs z1, cxs z2, cxs za, cxs zg, cxs ta, cxs tg]
  | ["geneuler", r0, r1, r2, r3] =>
    -- the GENERATED `quaternionic.converters.ToEulerPhases` kernel; z poisoned first
    let Rv : Array Float := #[bf r0, bf r1, bf r2, bf r3]
    let st0 : HFMem Float := { map := ∅, dflt := Float.ofBits 0x7FF8000000000BAD }
    let st := Gen.u_to_euler_phases (α := Float) (fun i => Rv.getD i.toNat 0.0) 3 st0
    join #[cxs (frdC (α := Float) st 3 0), cxs (frdC (α := Float) st 3 1), cxs (frdC (α := Float) st 3 2)]
  | ["quad", re, im] =>
    let (t, z) := quadrant 4 (Cx.oneC : Cx Float) ⟨bf re, bf im⟩
    cxs t ++ " " ++ cxs z
  | ["cpow", Mx, re, im, is] =>
    let out := cpowers (⟨bf re, bf im⟩ : Cx Float) Mx.toNat! (fun _ => bf is)
    join (out.map cxs)
  | ["gencpow", Mx, re, im, is] =>
    -- the GENERATED `_complex_powers` for one z; the output array is poisoned first (every cell must be written)
    let M := Mx.toNat!
    let st0 : HFMem Float := { map := ∅, dflt := Float.ofBits 0x7FF8000000000BAD }
    let st := Gen.u_complex_powers (α := Float) (fun _ => ⟨bf re, bf im⟩) (M : Int) 3 1 ((M : Int) + 1) (fun _ => bf is) 64 st0
    join ((Array.range (M+1)).map (fun (i : Nat) => cxs (frdC (α := Float) st 3 ((i : Nat) : Int))))
  | ["methD", L, ellmin, r0, r1, r2, r3, are, aim, isA, gre, gim, isG, dflt] =>
    -- the GENERATED body of `Wigner.D`'s loop (Gen/MethodKern.lean): every kernel and the wiring from the source; all
    -- arrays on one poisoned memory.  ids: Hwedge, Hv, Hextra = 0, 1, 2; 𝔇 = 3; zₐpowers = 4; zᵧpowers = 5; z = 6
    let L := L.toNat!
    let Rv : Array Float := #[bf r0, bf r1, bf r2, bf r3]
    let (a, b, d, g, h) := genTables L
    let st0 : HFMem Float := { map := ∅, dflt := bf dflt }
    let ims := imsqrtTable [(bf are, bf aim, bf isA), (bf gre, bf gim, bf isG)]
    let st := Gen.Wigner_D_rotor (α := Float) (fun i => Rv.getD i.toNat 0.0) 6 g h L L a b d 0 1 2 3 4 ims 5 ellmin.toInt! st0
    let n := (Gen.WignerDsize ellmin.toInt! L L).toNat
    String.intercalate " " ((List.range n).map (fun (i : Nat) => cxs (frdC (α := Float) st 3 ((i : Nat) : Int))))
  | ["methY", L, P, ellmin, s, r0, r1, r2, r3, are, aim, isA, pre, pim, dflt] =>
    -- the GENERATED body of `Wigner.sYlm`'s loop; `z[2]**abs(s)` (numpy, not jitted) supplied by the harness
    let L := L.toNat!; let P := P.toNat!
    let Rv : Array Float := #[bf r0, bf r1, bf r2, bf r3]
    let (a, b, d, g, h) := genTables L
    let st0 : HFMem Float := { map := ∅, dflt := bf dflt }
    let ims := imsqrtTable [(bf are, bf aim, bf isA)]
    let st := Gen.Wigner_sYlm_rotor (α := Float) (fun i => Rv.getD i.toNat 0.0) 6 g h L P a b d 0 1 2 3 4 ims
      (fun _ _ => ⟨bf pre, bf pim⟩) s.toInt! ellmin.toInt! st0
    let n := (Gen.Ysize ellmin.toInt! L).toNat
    String.intercalate " " ((List.range n).map (fun (i : Nat) => cxs (frdC (α := Float) st 3 ((i : Nat) : Int))))
  | "methevalH" :: L :: P :: ellmin :: s :: ellMaxM :: r0 :: r1 :: r2 :: r3 :: pre :: pim :: ire :: iim :: dflt :: f =>
    -- the GENERATED body of the Horner branch of `Wigner.evaluate`; one row of weights, one rotor
    let L := L.toNat!; let P := P.toNat!
    let Rv : Array Float := #[bf r0, bf r1, bf r2, bf r3]
    let (a, b, d, g, h) := genTables L
    let st0 : HFMem Float := { map := ∅, dflt := bf dflt }
    let fa := parseCxArray f
    let st0 := fwrC (α := Float) st0 3 0 ⟨bf ire, bf iim⟩
    let st := Gen.Wigner_evaluate_rotor (α := Float) (fun i => Rv.getD i.toNat 0.0) 6 g h L P a b d 0 1 2 (cxFun fa) 3
      ellmin.toInt! 0 ellMaxM.toInt! s.toInt! 1 (fa.size : Nat) (fun _ _ => ⟨bf pre, bf pim⟩) st0
    cxs (frdC (α := Float) st 3 0)
  | "methrotH" :: L :: s :: ellMaxM :: r0 :: r1 :: r2 :: r3 :: dflt :: rest =>
    -- the GENERATED Horner branch of `Wigner.rotate` (one row)
    let L := L.toNat!; let eM := ellMaxM.toNat!
    let Rv : Array Float := #[bf r0, bf r1, bf r2, bf r3]
    let (a, b, d, g, h) := genTables L
    let st0 : HFMem Float := { map := ∅, dflt := bf dflt }
    let pw := parseCxArray (rest.take (2*(2*eM+1)))
    let f := parseCxArray (rest.drop (2*(2*eM+1)))
    let n : Int := ((eM+1)*(eM+1) : Nat)
    let st := Gen.Wigner_rotate_rotor (α := Float) (fun i => Rv.getD i.toNat 0.0) 6 g h L L a b d 0 1 2 (cxFun f) 3
      0 0 eM s.toInt! 4 5 1 1 n n (fun _ m => cget pw (m + eM).toNat) st0
    let lo := s.toInt!.natAbs
    let out := (Spec.yRange 0 eM).map (fun t =>
      if t.1.toNat < lo then cxs (⟨0.0, 0.0⟩ : Cx Float)
      else cxs (frdC (α := Float) st 3 (t.1 * (t.1 + 1) + t.2)))
    String.intercalate " " out
  | "methDloop" :: L :: ellmin :: N :: dflt :: rest =>
    -- the GENERATED loop of `Wigner.D` over N rotors: rest = 4N rotor components, then 2N table entries (re, im, imsqrt) for
    -- `np.sqrt(z).imag`.  Rows of the output are the arrays 7, 8, …; one poisoned memory, one workspace threaded through.
    let L := L.toNat!; let N := N.toNat!
    let Rv : Array Float := (rest.take (4*N)).toArray.map bf
    let tb : Array Float := (rest.drop (4*N)).toArray.map bf
    let table : List (Float × Float × Float) := (List.range (2*N)).map (fun (i : Nat) => (tb.getD (3*i) 0.0, tb.getD (3*i+1) 0.0, tb.getD (3*i+2) 0.0))
    let (a, b, d, g, h) := genTables L
    let st0 : HFMem Float := { map := ∅, dflt := bf dflt }
    let st := Gen.Wigner_D_loop (α := Float) (N : Int) (fun i j => Rv.getD (4 * i.toNat + j.toNat) 0.0) 6 g h L L a b d 0 1 2
      (fun i => 7 + i.toNat) 4 (imsqrtTable table) 5 ellmin.toInt! st0
    let n := (Gen.WignerDsize ellmin.toInt! L L).toNat
    String.intercalate " " ((List.range N).flatMap (fun (r : Nat) =>
      (List.range n).map (fun (i : Nat) => cxs (frdC (α := Float) st (7 + r) ((i : Nat) : Int)))))
  | "genmul" :: L1 :: L2 :: Lfg :: sf :: sg :: rest =>
    -- the GENERATED `_multiplication_helper` (Gen/MulKern.lean): f, g from ell = 0; the two calculators are the arrays 4 and 5,
    -- `calculate` is the 3-j model (`W3j.calculate`) storing its result array there; output array 3 starts zero-filled
    let L1 := L1.toNat!; let L2 := L2.toNat!; let Lfg := Lfg.toNat!
    let nf := (L1+1)*(L1+1)
    let fa := parseCxArray (rest.take (2*nf))
    let ga := parseCxArray (rest.drop (2*nf))
    let size := L1 + L2 + 1
    let wcalc := w3jStore size
    let st0 : HFMem Float := { map := ∅, dflt := 0.0 }
    let st := Gen.u_multiplication_helper (α := Float) (cxFun fa) 0 L1 sf.toInt! (cxFun ga) 0 L2 sg.toInt! 3 0 Lfg (sf.toInt! + sg.toInt!)
      4 5 (Float.ofBits 0x400921FB54442D18) wcalc st0
    String.intercalate " " ((List.range ((Lfg+1)*(Lfg+1))).map (fun (i : Nat) => cxs (frdC (α := Float) st 3 ((i : Nat) : Int))))
  | "genrotM" :: L :: ellmin :: s :: ellMaxM :: r0 :: r1 :: r2 :: r3 :: are :: aim :: isA :: gre :: gim :: isG :: f =>
    -- the matrix route of `Wigner.rotate`, all from the source: the GENERATED body of `Wigner.D` fills the flat 𝔇 array (array 3), then the
    -- GENERATED `_rotate` (Gen/RotMKern.lean: `row @ block` as a left fold) writes the rotated weights (array 8, zero-filled); one row
    let L := L.toNat!; let eM := ellMaxM.toNat!
    let Rv : Array Float := #[bf r0, bf r1, bf r2, bf r3]
    let (a, b, d, g, h) := genTables L
    let st0 : HFMem Float := { map := ∅, dflt := 0.0 }
    let ims := imsqrtTable [(bf are, bf aim, bf isA), (bf gre, bf gim, bf isG)]
    let fa := parseCxArray f
    -- (the GENERATED matrix branch of the method: `D = self.D(R, …)` then `_rotate(…, D)`)
    let st2 := Gen.Wigner_rotate_matrix_body (α := Float) (fun i => Rv.getD i.toNat 0.0) 6 g h L L a b d 0 1 2 3 4 ims 5 ellmin.toInt!
      (cxFun fa) 8 0 eM s.toInt! 1 0 0 st0
    String.intercalate " " ((Spec.yRange 0 eM).map (fun t => cxs (frdC (α := Float) st2 8 (t.1 * (t.1 + 1) + t.2))))
  | "genevalM" :: L :: P :: ellmin :: s :: ellMaxM :: r0 :: r1 :: r2 :: r3 :: are :: aim :: isA :: pre :: pim :: f =>
    -- the matrix route of `Wigner.evaluate`, all from the source: the GENERATED body of `Wigner.sYlm` fills `Y` (array 3), then the GENERATED
    -- contraction (slice bounds + np.matmul as a left fold) writes the value (array 8, cell 0); one row of weights, one rotor
    let L := L.toNat!; let P := P.toNat!
    let Rv : Array Float := #[bf r0, bf r1, bf r2, bf r3]
    let (a, b, d, g, h) := genTables L
    let st0 : HFMem Float := { map := ∅, dflt := 0.0 }
    let ims := imsqrtTable [(bf are, bf aim, bf isA)]
    let fa := parseCxArray f
    -- (the GENERATED loop body of the matrix branch: `self.sYlm(…, out=Y)` then `np.matmul`)
    let st2 := Gen.Wigner_evaluate_matrix_rotor (α := Float) (fun i => Rv.getD i.toNat 0.0) 6 g h L P a b d 0 1 2 3 4 ims
      (fun _ _ => ⟨bf pre, bf pim⟩) s.toInt! ellmin.toInt! (cxFun fa) 8 0 ellMaxM.toInt! 1 0 st0
    cxs (frdC (α := Float) st2 8 0)
  | ["dfull", L, ellmin, c, s, dflt] =>
    let L := L.toNat!
    let st := runHF L L (bf c) (bf s) (bf dflt)
    let out := (Spec.dRange ellmin.toNat! L L).map (fun t => fb (dEntry (α := Float) st t.1.toNat t.2.1 t.2.2))
    String.intercalate " " out
  | ["Dfull", L, ellmin, r0, r1, r2, r3, isA, isG, dflt] =>
    let L := L.toNat!
    let (z0, z1, z2) := eulerPhases (bf r0) (bf r1) (bf r2) (bf r3)
    let st := runHF L L z1.re z1.im (bf dflt)
    let za := cpowers z0 L (fun _ => bf isA)
    let zg := cpowers z2 L (fun _ => bf isG)
    let out := (Spec.dRange ellmin.toNat! L L).map (fun t => cxs (DEntry (α := Float) st za zg t.1.toNat t.2.1 t.2.2))
    String.intercalate " " out
  | ["Y", L, P, ellmin, s, r0, r1, r2, r3, isA, pre, pim, dflt] =>
    let L := L.toNat!; let P := P.toNat!
    let (z0, z1, _) := eulerPhases (bf r0) (bf r1) (bf r2) (bf r3)
    let st := runHF L P z1.re z1.im (bf dflt)
    let za := cpowers z0 L (fun _ => bf isA)
    let out := (Spec.yRange ellmin.toNat! L).map (fun t => cxs (sYlmEntry (α := Float) st za ⟨bf pre, bf pim⟩ s.toInt! t.1.toNat t.2))
    String.intercalate " " out
  | "evalH" :: L :: P :: s :: ellMaxM :: r0 :: r1 :: r2 :: r3 :: pre :: pim :: ire :: iim :: dflt :: f =>
    let L := L.toNat!; let P := P.toNat!
    let (z0, z1, _) := eulerPhases (bf r0) (bf r1) (bf r2) (bf r3)
    let st := runHF L P z1.re z1.im (bf dflt)
    cxs (evaluateHornerK (α := Float) st (parseCxArray f) z0 ⟨bf pre, bf pim⟩ s.toInt! ellMaxM.toNat! ⟨bf ire, bf iim⟩)
  | "genevalH" :: L :: P :: s :: ellMaxM :: r0 :: r1 :: r2 :: r3 :: pre :: pim :: ire :: iim :: dflt :: f =>
    -- the GENERATED `_evaluate_Horner` on the workspace left by the GENERATED `Wigner.H`; one row of weights, one rotor
    let L := L.toNat!; let P := P.toNat!
    let (z0, z1, z2) := eulerPhases (bf r0) (bf r1) (bf r2) (bf r3)
    let st := genHState L P z1.re z1.im (bf dflt)
    let fa := parseCxArray f
    let st := fwrC (α := Float) st 3 0 ⟨bf ire, bf iim⟩
    let st := Gen.u_evaluate_Horner (α := Float) (cxFun fa) 3 0 L P 0 ellMaxM.toInt! s.toInt! (fun i => frd (α := Float) st 0 i) z0 z2
      1 (fa.size : Nat) (fun _ _ => ⟨bf pre, bf pim⟩) st
    cxs (frdC (α := Float) st 3 0)
  | "genrotH" :: L :: s :: ellMaxM :: r0 :: r1 :: r2 :: r3 :: dflt :: rest =>
    -- the GENERATED `_rotate_Horner` (one row) on the workspace left by the GENERATED `Wigner.H`
    let L := L.toNat!; let eM := ellMaxM.toNat!
    let (z0, z1, z2) := eulerPhases (bf r0) (bf r1) (bf r2) (bf r3)
    let st := genHState L L z1.re z1.im (bf dflt)
    let pw := parseCxArray (rest.take (2*(2*eM+1)))
    let f := parseCxArray (rest.drop (2*(2*eM+1)))
    let n : Int := ((eM+1)*(eM+1) : Nat)
    let st := Gen.u_rotate_Horner (α := Float) (cxFun f) 3 0 L L 0 eM s.toInt! (fun i => frd (α := Float) st 0 i) z0 z2 4 5 1 1 n n
      (fun _ m => cget pw (m + eM).toNat) st
    let lo := s.toInt!.natAbs
    let out := (Spec.yRange 0 eM).map (fun t =>
      if t.1.toNat < lo then cxs (⟨0.0, 0.0⟩ : Cx Float)
      else cxs (frdC (α := Float) st 3 (t.1 * (t.1 + 1) + t.2)))
    String.intercalate " " out
  | "rotH" :: L :: s :: ellMaxM :: r0 :: r1 :: r2 :: r3 :: dflt :: rest =>
    -- rest = (2*ellMaxM+1) complex powers zγ^m for m = -ellMaxM..ellMaxM, then the mode weights
    let L := L.toNat!; let eM := ellMaxM.toNat!
    let (z0, z1, _) := eulerPhases (bf r0) (bf r1) (bf r2) (bf r3)
    let st := runHF L L z1.re z1.im (bf dflt)
    let pw := parseCxArray (rest.take (2*(2*eM+1)))
    let f := parseCxArray (rest.drop (2*(2*eM+1)))
    let zgp := fun (m : Int) => cget pw (m + eM).toNat
    let lo := s.toInt!.natAbs
    let out := (Spec.yRange 0 eM).map (fun t =>
      if t.1.toNat < lo then cxs (⟨0.0, 0.0⟩ : Cx Float)
      else cxs (rotateHornerEntry (α := Float) st f z0 zgp t.1.toNat t.2))
    String.intercalate " " out
  | ["genw3j", size, j2, j3, m2, m3, poison] =>
    -- the GENERATED `Wigner3jCalculator.calculate` (Gen/W3jKern.lean) on a poisoned workspace (array 3); cell 4*size is the exception flag
    let size := size.toNat!
    let st0 : HFMem Float := { map := ∅, dflt := bf poison }
    let st0 := fwr (α := Float) st0 3 ((4*size : Nat) : Int) 0.0
    let st := Gen.Wigner3jCalculator_calculate (α := Float) 3 (size : Int) j2.toInt! j3.toInt! m2.toInt! m3.toInt! st0
    if frd (α := Float) st 3 ((4*size : Nat) : Int) == 1.0 then "raised"
    else join ((Array.range size).map (fun (i : Nat) => fb (frd (α := Float) st 3 (i : Int))))
  | ["w3j", size, j2, j3, m2, m3, poison] =>
    let size := size.toNat!
    let r := W3j.calculate (α := Float) size (Array.replicate (4*size) (bf poison)) j2.toInt! j3.toInt! m2.toInt! m3.toInt!
    if r.raised then "raised" else join (r.f.map fb)
  | ["genw3j1", j1, j2, j3, m1, m2, m3] =>
    -- the GENERATED front end `Wigner3j` (Gen/W3jKern.lean): result cell = array 4, the fresh calculator's workspace = array 3 (zero-filled by np.zeros)
    let st0 : HFMem Float := { map := ∅, dflt := 0.0 }
    let st := Gen.Wigner3j (α := Float) 4 3 j1.toInt! j2.toInt! j3.toInt! m1.toInt! m2.toInt! m3.toInt! st0
    fb (frd (α := Float) st 4 0)
  | ["gencg", j1, m1, j2, m2, j3, m3] =>
    let st0 : HFMem Float := { map := ∅, dflt := 0.0 }
    fb (Gen.clebsch_gordan (α := Float) 4 3 j1.toInt! m1.toInt! j2.toInt! m2.toInt! j3.toInt! m3.toInt! st0)
  | ["w3j1", j1, j2, j3, m1, m2, m3] =>
    match W3j.wigner3j (α := Float) j1.toInt! j2.toInt! j3.toInt! m1.toInt! m2.toInt! m3.toInt! with
    | some v => fb v
    | none => "raised"
  | ["cg", j1, m1, j2, m2, j3, m3] =>
    match W3j.clebschGordan (α := Float) j1.toInt! m1.toInt! j2.toInt! m2.toInt! j3.toInt! m3.toInt! with
    | some v => fb v
    | none => "raised"
  | ["sched", m, priv] =>
    let meth : Option Model.Sched.Method := match m with
      | "d" => some .d | "D" => some .D | "sYlm" => some .sYlm | "evaluate-Horner" => some .evaluateHorner
      | "evaluate-matrix" => some .evaluateMatrix | "rotate-Horner" => some .rotateHorner | "rotate-matrix" => some .rotateMatrix
      | _ => none
    match meth with
    | none => "bad-op"
    | some meth =>
      let ws : Model.Sched.WS := if priv == "1" then .private_ 0 else .default
      let cls (b : Model.Sched.Buf) : String := match b with
        | .dflt _ => "default-workspace" | .priv _ _ => "private-workspace" | .tables => "table"
        | .out _ => "other" | .input _ => "other" | .tmp _ => "other"
      let foot := Model.Sched.callSteps meth 0 ws
      String.intercalate ";" (foot.map (fun f =>
        f.kernel ++ ":" ++ String.intercalate "," (((f.reads ++ f.writes).map cls).eraseDups.filter (· ≠ "other")).mergeSort))
  | "grid" :: rest => (GridOps.step rest).getD "bad-op"
  | "modes" :: rest => (ModesOps.step rest).getD "bad-op"
  | "diff" :: rest => (DiffOps.step rest).getD "bad-op"
  | _ => "bad-op"

partial def loop (h : IO.FS.Stream) (out : IO.FS.Stream) : IO Unit := do
  let line ← h.getLine
  if line.isEmpty then return ()
  out.putStrLn (step line)
  loop h out

def main : IO Unit := do
  loop (← IO.getStdin) (← IO.getStdout)
