import SphericalVerif.Props.Sched
#print axioms Sched.interleave_left
#print axioms Sched.interleave_right
#print axioms Sched.interleave_untouched
#print axioms Sched.private_call_reads_in_region
#print axioms Sched.private_call_writes_in_region
#print axioms Sched.private_calls_noninterfering
#print axioms Sched.private_call_avoids_default
#print axioms Sched.tables_never_written
#print axioms Sched.interleaveN_indep
