import SphericalVerif.Lemmas.Matrix
import SphericalVerif.Props.Routes
import SphericalVerif.Props.C11
import SphericalVerif.Gen.Guards
/-! The *matrix* strategies of spherical/wigner.py — `Wigner.evaluate(..., horner=False)` and
    `Wigner.rotate(..., horner=False)` / `_rotate` — inside the model (`Model/Matrix.lean`), with their slice
    arithmetic proved for all sizes.

    Notation: `c = self.ell_min`, `Lc = self.ell_max`, `P = self.mp_max` (the calculator), `L = modes.ell_max`,
    `s = modes.spin_weight`; the modes' `ell_min` is 0 (Modes objects always start at ℓ = 0).
    The slice bounds are the *generated* `Gen.Yindex`, `Gen.Ysize`, `Gen.WignerDindex` (re-translated from the
    Python source on every run).

    1. `eval_slices_align`: the two slices `mode_weights[:, i1:i1+n]` and `Y[j1:j1+n]` pair each weight with the
       sYlm of the same (ℓ, m), bijectively with `{(ℓ, m) : ell_lo ≤ ℓ ≤ L, |m| ≤ ℓ}`, end exactly at the end of
       the weights and lie inside `Y`, when `c ≤ L + 1`.  Guard-passing configurations with `L + 1 < c` exist
       (`eval_guards_do_not_exclude_empty`); there the clamp `n = max(Ysize(ell_lo, L), 0)` gives `n = 0`, both
       slices are empty and the contraction is the literal 0 (`eval_slices_empty`, `evaluateMatrix_empty`).
       Historical note (`eval_unclamped_would_be_negative`): before commit cf113c2 the source had the unclamped
       `n = Ysize(ell_lo, L)`, negative there, and `np.matmul` raised on slices of lengths 0 and
       `max(0, Ysize(c, Lc) + n)` (finding, replayed on the implementation at the time).
    2. `eval_dropped_weights_are_low`: the weights outside the slice are exactly those with ℓ < ell_lo ≤ |s|.
    3. `rotate_block_contiguous`: `𝔇[d1:d2].reshape(2ℓ+1, 2ℓ+1)[m'+ℓ, m+ℓ]` is `𝔇[WignerDindex(ℓ, m', m)]`.
    4. over ℝ: `evaluateMatrix_eq_horner`, `rotateMatrix_eq_horner`: the matrix strategies return what the Horner
       strategies return, for *all* guard-passing configurations.  The model contracts in index order; BLAS's actual order is unspecified, which is
       immaterial in exact arithmetic (and only there). -/
noncomputable section
namespace Matrix
open Gen Model MatrixLemmas Horner

/-! ## 1. `evaluate`: the slices -/

/-- closed form of the three numbers `evaluate` computes -/
theorem eval_slices_closed (c L : Int) (h0 : 0 ≤ c) :
    evalMatrixSlices c L = (c ^ 2, 0, max ((L + 1) ^ 2 - c ^ 2) 0) := by
  unfold evalMatrixSlices
  have hmax : max c 0 = c := by omega
  simp only [hmax]
  rw [yindex_closed c (-c) 0 h0, yindex_closed c (-c) c (le_refl c), ysize_closed]
  refine Prod.ext ?_ (Prod.ext ?_ rfl)
  · show c ^ 2 - 0 ^ 2 + (-c + c) = c ^ 2; ring
  · show c ^ 2 - c ^ 2 + (-c + c) = 0; ring

/-- … when the calculator and the modes share some ℓ, or just fail to (`c = L + 1`): the clamp is inactive -/
theorem eval_slices_closed_pos (c L : Int) (h0 : 0 ≤ c) (hn : c ≤ L + 1) :
    evalMatrixSlices c L = (c ^ 2, 0, (L + 1) ^ 2 - c ^ 2) := by
  rw [eval_slices_closed c L h0]
  have hcL : c ^ 2 ≤ (L + 1) ^ 2 := sq_le_sq_of_le c (L + 1) h0 hn
  have : max ((L + 1) ^ 2 - c ^ 2) 0 = (L + 1) ^ 2 - c ^ 2 := by omega
  rw [this]

/-- … when they share none (`L + 1 < c`): the clamp gives `n = 0` -/
theorem eval_slices_closed_empty (c L : Int) (hL0 : -1 ≤ L) (hL : L + 1 < c) :
    evalMatrixSlices c L = (c ^ 2, 0, 0) := by
  rw [eval_slices_closed c L (by omega)]
  have e1 : (L + 1 + 1) ^ 2 ≤ c ^ 2 := sq_le_sq_of_le (L + 1 + 1) c (by omega) (by omega)
  have e2 : (L + 1 + 1) ^ 2 = (L + 1) ^ 2 + 2 * L + 3 := by ring
  have : max ((L + 1) ^ 2 - c ^ 2) 0 = 0 := by omega
  rw [this]

/-- **The slices align.**  `0 ≤ c` is the constructor's guard, `L ≤ Lc` the method's third guard; `c ≤ L + 1`
    says that the ℓ-ranges of the calculator and of the modes meet or abut (otherwise: `eval_slices_empty`).  The guard on `s` plays no role here: alignment
    is a property of the index arithmetic alone.  With `(i1, j1, n)` as the code computes them and
    `ell_lo = max(c, 0)`:
    * the slices are well-formed, the weights slice ends exactly at the end of the modes array
      (`i1 + n = Ysize(0, L)`), the sYlm slice stays inside `Y` (`j1 + n ≤ Ysize(c, Lc)`);
    * for every (ℓ, m) with `ell_lo ≤ ℓ ≤ L`, `|m| ≤ ℓ`, the *same* offset `k = Yindex(ℓ, m, ell_lo) ∈ [0, n)`
      addresses weight (ℓ, m) in the first slice and sYlm (ℓ, m) in the second;
    * every offset `k ∈ [0, n)` arises from exactly one such (ℓ, m). -/
theorem eval_slices_align (c Lc L : Int) (h0 : 0 ≤ c) (hL : L ≤ Lc) (hn : c ≤ L + 1)
    (i1 j1 n : Int) (hsl : evalMatrixSlices c L = (i1, j1, n)) :
    (0 ≤ i1 ∧ 0 ≤ j1 ∧ 0 ≤ n ∧ i1 + n = Ysize 0 L ∧ j1 + n ≤ Ysize c Lc)
    ∧ (∀ ell m : Int, max c 0 ≤ ell → ell ≤ L → -ell ≤ m → m ≤ ell →
        0 ≤ Yindex ell m (max c 0) ∧ Yindex ell m (max c 0) < n
        ∧ i1 + Yindex ell m (max c 0) = Yindex ell m 0
        ∧ j1 + Yindex ell m (max c 0) = Yindex ell m c)
    ∧ (∀ k : Int, 0 ≤ k → k < n →
        ∃! p : Int × Int, max c 0 ≤ p.1 ∧ p.1 ≤ L ∧ -p.1 ≤ p.2 ∧ p.2 ≤ p.1
          ∧ Yindex p.1 p.2 (max c 0) = k) := by
  rw [eval_slices_closed_pos c L h0 hn] at hsl
  obtain ⟨rfl, rfl, rfl⟩ : c ^ 2 = i1 ∧ 0 = j1 ∧ (L + 1) ^ 2 - c ^ 2 = n := by
    simpa [Prod.ext_iff] using hsl
  have hmax : max c 0 = c := by omega
  rw [hmax]
  have hcL : c ^ 2 ≤ (L + 1) ^ 2 := sq_le_sq_of_le c (L + 1) h0 hn
  refine ⟨⟨by positivity, le_refl 0, by omega, ?_, ?_⟩, ?_, ?_⟩
  · rw [ysize_closed]; ring
  · rw [ysize_closed]
    have : (L + 1) ^ 2 ≤ (Lc + 1) ^ 2 := sq_le_sq_of_le (L + 1) (Lc + 1) (by omega) (by omega)
    omega
  · intro ell m h1 h2 h3 h4
    have hl0 : 0 ≤ ell := by omega
    rw [yindex_closed ell m c h1, yindex_closed ell m 0 hl0]
    have e1 : c ^ 2 ≤ ell ^ 2 := sq_le_sq_of_le c ell h0 h1
    have e2 : (ell + 1) ^ 2 ≤ (L + 1) ^ 2 := sq_le_sq_of_le (ell + 1) (L + 1) (by omega) (by omega)
    have e3 : (ell + 1) ^ 2 = ell ^ 2 + 2 * ell + 1 := by ring
    refine ⟨by omega, by omega, by ring, by ring⟩
  · intro k hk0 hkn
    obtain ⟨l, hl0, hl1, hl2⟩ := exists_sq_bracket_int (k + c ^ 2) (by positivity)
    have e3 : (l + 1) ^ 2 = l ^ 2 + 2 * l + 1 := by ring
    have hcl : c ≤ l := by
      have : c < l + 1 := lt_of_sq_lt_sq c (l + 1) (by omega) (by omega)
      omega
    have hlL : l ≤ L := by
      have : l < L + 1 := lt_of_sq_lt_sq l (L + 1) (by omega) (by omega)
      omega
    refine ⟨(l, k + c ^ 2 - l ^ 2 - l), ⟨hcl, hlL, by show -l ≤ k + c ^ 2 - l ^ 2 - l; omega,
      by show k + c ^ 2 - l ^ 2 - l ≤ l; omega, ?_⟩, ?_⟩
    · show Yindex l (k + c ^ 2 - l ^ 2 - l) c = k
      rw [yindex_closed _ _ _ hcl]; ring
    · rintro ⟨l', m'⟩ ⟨a1, _, a3, a4, a5⟩
      simp only at a1 a3 a4 a5
      rw [yindex_closed _ _ _ a1] at a5
      have e4 : (l' + 1) ^ 2 = l' ^ 2 + 2 * l' + 1 := by ring
      have : l' = l := sq_bracket_unique l' l (k + c ^ 2) (by omega) hl0 (by omega) (by omega) hl1 hl2
      subst this
      refine Prod.ext rfl ?_
      show m' = k + c ^ 2 - l' ^ 2 - l'
      omega

/-- **No common ℓ: both slices are empty.**  For `L + 1 < c` (the guards may still pass:
    `eval_guards_do_not_exclude_empty`) the clamp gives `n = 0`: `mode_weights[:, i1:i1]` and `Y[0:0]` are both
    empty — the former although `i1` lies beyond the end of the weights (`Ysize(0, L) < i1`; a NumPy slice that
    starts past the end is empty, not an error), the latter inside `Y` — and `np.matmul` of two empty operands is 0. -/
theorem eval_slices_empty (c Lc L : Int) (hL0 : 0 ≤ L) (hL : L + 1 < c) (hc : c ≤ Lc)
    (i1 j1 n : Int) (hsl : evalMatrixSlices c L = (i1, j1, n)) :
    0 ≤ n ∧ n = 0 ∧ j1 = 0 ∧ j1 + n ≤ Ysize c Lc ∧ Ysize 0 L < i1 := by
  rw [eval_slices_closed_empty c L (by omega) hL] at hsl
  obtain ⟨rfl, rfl, rfl⟩ : c ^ 2 = i1 ∧ 0 = j1 ∧ 0 = n := by
    simpa [Prod.ext_iff] using hsl
  have e1 : (L + 1 + 1) ^ 2 ≤ c ^ 2 := sq_le_sq_of_le (L + 1 + 1) c (by omega) (by omega)
  have e2 : (L + 1 + 1) ^ 2 = (L + 1) ^ 2 + 2 * L + 3 := by ring
  have e3 : c ^ 2 ≤ Lc ^ 2 := sq_le_sq_of_le c Lc (by omega) hc
  have e4 : (Lc + 1) ^ 2 = Lc ^ 2 + 2 * Lc + 1 := by ring
  rw [ysize_closed, ysize_closed]
  exact ⟨le_refl 0, rfl, rfl, by omega, by omega⟩

/-- `n ≥ 0` unconditionally (the clamp) -/
theorem eval_slices_n_nonneg (c L : Int) : 0 ≤ (evalMatrixSlices c L).2.2 := by
  unfold evalMatrixSlices
  exact le_max_right _ _

/-- … and then the model's contraction is the empty fold, the literal 0, at every scalar type
    (in particular at `Float`) -/
theorem evaluateMatrix_empty {α : Type} [Scalar α] {μ : Type} [Mem μ α] (st : μ)
    (f za : Array (Cx α)) (zgpow : Cx α) (s c Lc L : Int) (hL0 : -1 ≤ L) (hL : L + 1 < c) :
    evaluateMatrix st f za zgpow s c Lc L = ⟨_root_.zero, _root_.zero⟩ := by
  unfold evaluateMatrix dotSlices
  rw [eval_slices_closed_empty c L hL0 hL]
  rfl

/-- such configurations pass every guard of the constructor and of `evaluate` (`Wigner(8, ell_min=3)`, modes with
    `s = -3`, `ell_max = 1`): the slices are `mode_weights[:, 9:9]` (of 4 weights) and `Y[0:0]` (of 72 entries);
    the implementation returns 0 on both routes. -/
theorem eval_guards_do_not_exclude_empty :
    Wigner___init___ok 3 8 8 = true ∧ Wigner_evaluate_ok (-3) 0 1 8 3 8 = true
    ∧ evalMatrixSlices 3 1 = (9, 0, 0) ∧ Ysize 0 1 = 4 ∧ Ysize 3 8 = 72 := by decide

/-- Historical note: the *unclamped* expression `Ysize(ell_lo, L)` that the source used for `n` before commit
    cf113c2 is negative whenever `L + 1 < c`; `Y[0:n]` then counted from the end of `Y` and `np.matmul` raised
    whenever `Ysize(c, Lc) + n > 0` (e.g. the configuration above: `n = -5`, lengths 0 and 67). -/
theorem eval_unclamped_would_be_negative (c L : Int) (hL0 : 0 ≤ L) (hL : L + 1 < c) :
    Ysize (max c 0) L < 0 := by
  have hmax : max c 0 = c := by omega
  rw [hmax, ysize_closed]
  have e1 : (L + 1 + 1) ^ 2 ≤ c ^ 2 := sq_le_sq_of_le (L + 1 + 1) c (by omega) (by omega)
  have e2 : (L + 1 + 1) ^ 2 = (L + 1) ^ 2 + 2 * L + 3 := by ring
  omega

example : Ysize (max 3 0) 1 = -5 ∧ Ysize 3 8 + -5 = 67 := by decide

/-! ## 2. `evaluate`: what the slice leaves out -/

/-- A weight (ℓ, m) of the modes array (position `Yindex(ℓ, m, 0)`) lies before the slice iff `ℓ < ell_lo`, inside
    it iff `ell_lo ≤ ℓ ≤ L` (never, when `L < ell_lo`: then the slice is empty); with the method's second guard `c ≤ max(|s|, 0)` the dropped weights all have
    `ℓ < |s|` (they are zero in a Modes object, and `_evaluate_Horner` skips them too). -/
theorem eval_dropped_weights_are_low (c L s : Int) (h0 : 0 ≤ c) (hs : c ≤ max (s.natAbs : Int) 0)
    (hL0 : -1 ≤ L)
    (i1 j1 n : Int) (hsl : evalMatrixSlices c L = (i1, j1, n))
    (ell m : Int) (hl : 0 ≤ ell) (hm1 : -ell ≤ m) (hm2 : m ≤ ell) :
    (Yindex ell m 0 < i1 ↔ ell < max c 0)
    ∧ (i1 ≤ Yindex ell m 0 ∧ Yindex ell m 0 < i1 + n ↔ max c 0 ≤ ell ∧ ell ≤ L)
    ∧ (Yindex ell m 0 < i1 → ell < (s.natAbs : Int)) := by
  have hmax : max c 0 = c := by omega
  have e3 : (ell + 1) ^ 2 = ell ^ 2 + 2 * ell + 1 := by ring
  have low : ell ^ 2 - 0 ^ 2 + (m + ell) < c ^ 2 ↔ ell < c := by
    constructor
    · intro h
      exact lt_of_sq_lt_sq ell c h0 (by omega)
    · intro h
      have : (ell + 1) ^ 2 ≤ c ^ 2 := sq_le_sq_of_le (ell + 1) c (by omega) (by omega)
      omega
  by_cases hn : c ≤ L + 1
  · rw [eval_slices_closed_pos c L h0 hn] at hsl
    obtain ⟨rfl, rfl, rfl⟩ : c ^ 2 = i1 ∧ 0 = j1 ∧ (L + 1) ^ 2 - c ^ 2 = n := by
      simpa [Prod.ext_iff] using hsl
    rw [hmax, yindex_closed ell m 0 hl]
    refine ⟨low, ?_, fun h => by have := low.mp h; omega⟩
    constructor
    · rintro ⟨a, b⟩
      refine ⟨by have := mt low.mpr (by omega : ¬ _ < c ^ 2); omega, ?_⟩
      have : ell < L + 1 := lt_of_sq_lt_sq ell (L + 1) (by omega) (by omega)
      omega
    · rintro ⟨a, b⟩
      have e1 : c ^ 2 ≤ ell ^ 2 := sq_le_sq_of_le c ell h0 a
      have e2 : (ell + 1) ^ 2 ≤ (L + 1) ^ 2 := sq_le_sq_of_le (ell + 1) (L + 1) (by omega) (by omega)
      omega
  · rw [eval_slices_closed_empty c L hL0 (by omega)] at hsl
    obtain ⟨rfl, rfl, rfl⟩ : c ^ 2 = i1 ∧ 0 = j1 ∧ 0 = n := by
      simpa [Prod.ext_iff] using hsl
    rw [hmax, yindex_closed ell m 0 hl]
    refine ⟨low, ?_, fun h => by have := low.mp h; omega⟩
    constructor
    · rintro ⟨a, b⟩; omega
    · rintro ⟨a, b⟩; omega

/-! ## 3. `_rotate`: the 𝔇 block of one ℓ -/

/-- **The 𝔇 block is contiguous and row-major.**  `0 ≤ c` is the constructor's guard; `c ≤ ℓ` holds on the matrix
    route (`rotate` takes it only when `self.ell_min ≤ max(|s|, 0)`, and `_rotate` loops over `ℓ ≥ max(|s|, 0)`);
    `ℓ ≤ Lc` follows from the guard `L ≤ Lc`; `Lc ≤ P` is the guard `mp_max ≥ ell_max`.
    With `(i1, i2, d1, d2)` as `_rotate` computes them (`WignerDindex` called with its default `mp_max`):
    * `WignerDindex(ℓ, m', m, c) = d1 + (m'+ℓ)(2ℓ+1) + (m+ℓ)` — entry `[m'+ℓ, m+ℓ]` of
      `𝔇[d1:d2].reshape(2ℓ+1, 2ℓ+1)` — for all m', m;
    * for `|m'|, |m| ≤ ℓ` that position is inside `[d1, d2)` and is the position the calculator's own
      `WignerDindex(ℓ, m', m, c, P)` (used by `_fill_wigner_D`'s layout) gives;
    * the block has `(2ℓ+1)²` entries and lies inside `[0, WignerDsize(c, P, Lc))`;
    * the weights slice has `2ℓ+1` entries, `i1 + (m'+ℓ) = Yindex(ℓ, m', 0)`, and ends at `Ysize(0, ℓ)`. -/
theorem rotate_block_contiguous (c P Lc ell : Int) (h0 : 0 ≤ c) (h1 : c ≤ ell) (h2 : ell ≤ Lc) (hP : Lc ≤ P)
    (i1 i2 d1 d2 : Int) (hsl : rotateSlices c ell = (i1, i2, d1, d2)) :
    (∀ mp m : Int, WignerDindex ell mp m c (-1) = d1 + (mp + ell) * (2 * ell + 1) + (m + ell))
    ∧ (∀ mp m : Int, -ell ≤ mp → mp ≤ ell → -ell ≤ m → m ≤ ell →
        d1 ≤ WignerDindex ell mp m c (-1) ∧ WignerDindex ell mp m c (-1) < d2
        ∧ WignerDindex ell mp m c (-1) = WignerDindex ell mp m c P)
    ∧ d2 - d1 = (2 * ell + 1) * (2 * ell + 1)
    ∧ 0 ≤ d1 ∧ d2 ≤ WignerDsize c P Lc
    ∧ i2 - i1 = 2 * ell + 1 ∧ 0 ≤ i1 ∧ i2 = Ysize 0 ell
    ∧ (∀ mp : Int, i1 + (mp + ell) = Yindex ell mp 0) := by
  unfold rotateSlices at hsl
  obtain ⟨rfl, rfl, rfl, rfl⟩ :
      Yindex ell (-ell) 0 = i1 ∧ Yindex ell ell 0 + 1 = i2 ∧
      WignerDindex ell (-ell) (-ell) c (-1) = d1 ∧ WignerDindex ell ell ell c (-1) + 1 = d2 := by
    simpa [Prod.ext_iff] using hsl
  have hl0 : 0 ≤ ell := by omega
  have aff := dindex_default_affine ell
  have hfull : ∀ mp m : Int, WignerDindex ell mp m c (-1) = WignerDindex ell mp m c P :=
    fun mp m => dindex_full ell mp m c P h0 (by omega)
  have hmin : min ell P = ell := by omega
  have glo := Lemmas.dindex_get c P Lc ell (-ell) (-ell) h0 h1 h2 (by omega)
    (by rw [hmin]) (by rw [hmin]; omega) (le_refl _) (by omega)
  have ghi := Lemmas.dindex_get c P Lc ell ell ell h0 h1 h2 (by omega)
    (by rw [hmin]; omega) (by rw [hmin]) (by omega) (le_refl _)
  refine ⟨fun mp m => aff mp m c, ?_, ?_, ?_, ?_, ?_, ?_, ?_, ?_⟩
  · intro mp m a1 a2 a3 a4
    refine ⟨?_, ?_, hfull mp m⟩
    · rw [aff mp m c]
      have : 0 ≤ (mp + ell) * (2 * ell + 1) := mul_nonneg (by omega) (by omega)
      omega
    · rw [aff mp m c, aff ell ell c]
      have : (mp + ell) * (2 * ell + 1) ≤ (ell + ell) * (2 * ell + 1) :=
        mul_le_mul_of_nonneg_right (by omega) (by omega)
      omega
  · rw [aff ell ell c]; ring
  · rw [hfull]; exact glo.1
  · rw [hfull]; have := ghi.2.1; omega
  · rw [yindex_closed ell ell 0 hl0, yindex_closed ell (-ell) 0 hl0]; ring
  · rw [yindex_closed ell (-ell) 0 hl0]; have : 0 ≤ ell ^ 2 := by positivity
    omega
  · rw [yindex_closed ell ell 0 hl0, ysize_closed]; ring
  · intro mp
    rw [yindex_closed ell (-ell) 0 hl0, yindex_closed ell mp 0 hl0]; ring

/-! ## 4. exact arithmetic: the matrix strategies return what the Horner strategies return -/

section exact
variable {μ : Type} [Mem μ ℝ] (st : μ)

/-- the matrix strategy of `evaluate` is `Σ_{ℓ=c}^{L} Σ_m f_{ℓm} · sYlm_{ℓm}`: the slices pair each weight with the
    sYlm of the same (ℓ, m) (`eval_slices_align`, here through the re-indexing of the flat sum); for `L + 1 < c`
    both sides are empty sums -/
theorem evaluateMatrix_eq_sum (f zaArr : Array (Cx ℝ)) (zgpowY : Cx ℝ) (s c Lc : ℤ) (L : ℕ)
    (h0 : 0 ≤ c) (hL : (L : ℤ) ≤ Lc) :
    toC (evaluateMatrix st f zaArr zgpowY s c Lc L) =
      ∑ ell ∈ Finset.Icc c.toNat L, ∑ m ∈ Finset.Icc (-(ell : ℤ)) ell,
        toC (fAt f ell m) * toC (sYlmEntry st zaArr zgpowY s ell m) := by
  by_cases hn : c ≤ L + 1
  swap
  · rw [evaluateMatrix_empty st f zaArr zgpowY s c Lc L (by omega) (by omega), toC_zero,
      Finset.Icc_eq_empty (by omega), Finset.sum_empty]
  obtain ⟨c', rfl⟩ := Int.eq_ofNat_of_zero_le h0
  obtain ⟨d, hd⟩ : ∃ d : ℕ, L + 1 = c' + d := ⟨L + 1 - c', by omega⟩
  unfold evaluateMatrix dotSlices
  rw [eval_slices_closed_pos (c' : ℤ) L h0 hn]
  simp only
  have hnat : (((L : ℤ) + 1) ^ 2 - (c' : ℤ) ^ 2).toNat = d * (2 * c' + d) := by
    have : ((L : ℤ) + 1) = c' + d := by exact_mod_cast hd
    rw [this]
    have : ((c' : ℤ) + d) ^ 2 - (c' : ℤ) ^ 2 = ((d * (2 * c' + d) : ℕ) : ℤ) := by push_cast; ring
    rw [this, Int.toNat_natCast]
  rw [hnat, toC_dotLoop (fun k => cget f ((c' : ℤ) ^ 2 + (k : ℤ)).toNat)
    (fun k => cget (sYlmArray st zaArr zgpowY s c' Lc) (0 + (k : ℤ)).toNat)]
  rw [sum_range_eq_sum_yindex (fun x => toC (cget f ((c' : ℤ) ^ 2 + x).toNat) *
    toC (cget (sYlmArray st zaArr zgpowY s c' Lc) (0 + x).toNat)) c' d]
  rw [← hd, Finset.Ico_add_one_right_eq_Icc, Int.toNat_natCast]
  apply Finset.sum_congr rfl
  intro ell hell
  rw [Finset.mem_Icc] at hell
  apply Finset.sum_congr rfl
  intro m hm
  rw [Finset.mem_Icc] at hm
  have hcl : (c' : ℤ) ≤ ell := by exact_mod_cast hell.1
  have hlL' : (ell : ℤ) ≤ L := by exact_mod_cast hell.2
  have hlL : (ell : ℤ) ≤ Lc := by omega
  rw [zero_add, sYlmArray_get st zaArr zgpowY s c' Lc ell m h0 hcl hlL hm.1 hm.2]
  have hidx : (c' : ℤ) ^ 2 + Yindex ell m c' = (ell : ℤ) * (ell + 1) + m := by
    rw [yindex_closed _ _ _ hcl]; ring
  rw [hidx]
  rfl

/-- **`evaluate`: matrix strategy = Horner strategy** in exact arithmetic, for every content of the H workspace.
    Guards: `0 ≤ c` (constructor), `c ≤ max(|s|, 0)` (second guard of `evaluate`), `L ≤ Lc` (third guard) — nothing
    else: every guard-passing configuration is covered (for `L + 1 < c ≤ |s|` the matrix route contracts two empty
    slices and the Horner loop `range(|s|, L+1)` is empty: both give 0).  Remaining hypotheses as in `Routes.evaluate_eq_sum_sYlm` (the powers
    array, the two library powers, `|zᵧ| = 1`).  No hypothesis on the weights is needed: the weights with ℓ < c
    are dropped by the slice and skipped by `_evaluate_Horner` (it starts at ℓ = |s| ≥ c); for `c ≤ ℓ < |s|` the
    sYlm entry is the literal 0.  (In floating point the latter products are `f·0`, which is 0 only for finite
    `f`; a Modes object has zeros there.) -/
theorem evaluateMatrix_eq_horner (f : Array (Cx ℝ)) (za zg zgpowE zgpowY : Cx ℝ)
    (zaArr : Array (Cx ℝ)) (s c Lc : ℤ) (L : ℕ) (prev : Cx ℝ)
    (h0 : 0 ≤ c) (hs : c ≤ max (s.natAbs : ℤ) 0) (hL : (L : ℤ) ≤ Lc)
    (hza : ∀ k ≤ L, toC (cget zaArr k) = toC za ^ k)
    (hnorm : Complex.normSq (toC zg) = 1)
    (hE : toC zgpowE = (starRingEnd ℂ (toC zg)) ^ s)
    (hY : toC zgpowY = toC zg ^ s.natAbs) :
    toC (evaluateMatrix st f zaArr zgpowY s c Lc L) =
      toC (evaluateHornerK st f za zgpowE s L prev) := by
  rw [evaluateMatrix_eq_sum st f zaArr zgpowY s c Lc L h0 hL]
  show _ = toC (evaluateHorner st f za zgpowE s L ⟨_root_.zero, _root_.zero⟩)
  rw [Routes.evaluate_eq_sum_sYlm st f za zg zgpowE zgpowY zaArr s L hza hnorm hE hY]
  symm
  apply Finset.sum_subset
  · intro x hx
    rw [Finset.mem_Icc] at hx ⊢
    omega
  · intro ell hin hout
    rw [Finset.mem_Icc] at hin hout
    have hlow : ell < s.natAbs := by omega
    apply Finset.sum_eq_zero
    intro m _
    rw [Routes.sYlm_low_exact_zero st zaArr zgpowY s ell m hlow, toC_zero, mul_zero]

/-- the matrix strategy of `rotate` is `Σ_{m'} f_{ℓm'} · 𝔇^ℓ_{m'm}`: the reshaped slice of the flat 𝔇 array is the
    (2ℓ+1)×(2ℓ+1) matrix of the `_fill_wigner_D` entries (`rotate_block_contiguous`) -/
theorem rotateMatrix_eq_sum (f zaArr zgArr : Array (Cx ℝ)) (c P Lc : ℤ) (ell : ℕ) (m : ℤ)
    (h0 : 0 ≤ c) (h1 : c ≤ ell) (h2 : (ell : ℤ) ≤ Lc) (hP : Lc ≤ P) (hm : m.natAbs ≤ ell) :
    toC (rotateMatrixEntry st f zaArr zgArr c P Lc ell m) =
      ∑ n ∈ Finset.Icc (-(ell : ℤ)) ell, toC (fAt f ell n) * toC (DEntry st zaArr zgArr ell n m) := by
  obtain ⟨_, _, _, _, _, hlen, _, _, hi⟩ := rotate_block_contiguous c P Lc ell h0 h1 h2 hP _ _ _ _ rfl
  unfold rotateMatrixEntry rotateSlices
  simp only
  have hlen' : (Yindex ell ell 0 + 1 - Yindex ell (-(ell : ℤ)) 0).toNat = 2 * ell + 1 := by
    rw [hlen]; omega
  rw [hlen', toC_dotLoop (fun k => cget f (Yindex ell (-(ell : ℤ)) 0 + (k : ℤ)).toNat)
    (fun k => cget (DArray st zaArr zgArr c P Lc)
      (WignerDindex ell (-(ell : ℤ)) (-(ell : ℤ)) c (-1) + (k : ℤ) * (2 * (ell : ℤ) + 1) + (m + ell)).toNat),
    sum_Icc_int_eq_range]
  apply Finset.sum_congr rfl
  intro j hj
  rw [Finset.mem_range] at hj
  have hidx : Yindex ell (-(ell : ℤ)) 0 + (j : ℤ) = (ell : ℤ) * (ell + 1) + ((j : ℤ) - ell) := by
    have := hi ((j : ℤ) - ell)
    rw [yindex_closed (ell : ℤ) ((j : ℤ) - ell) 0 (by omega)] at this
    have e : (j : ℤ) - ell + ell = j := by ring
    rw [e] at this
    rw [this]; ring
  have hD : WignerDindex ell (-(ell : ℤ)) (-(ell : ℤ)) c (-1) + (j : ℤ) * (2 * (ell : ℤ) + 1) + (m + ell)
      = WignerDindex ell ((j : ℤ) - ell) m c (-1) := by
    rw [dindex_default_affine ell ((j : ℤ) - ell) m c]
    ring
  rw [hidx, hD, DArray_get st zaArr zgArr c P Lc ell ((j : ℤ) - ell) m h0 h1 h2 hP (by omega) (by omega)
    (by omega) (by omega)]
  rfl

/-- **`rotate`: matrix strategy = Horner strategy** in exact arithmetic, for every content of the H workspace,
    entry by entry (ℓ, m), `c ≤ ℓ ≤ Lc ≤ P`, `|m| ≤ ℓ`.  Remaining hypotheses as in `Routes.rotateHorner_eq_matrix`. -/
theorem rotateMatrix_eq_horner (f : Array (Cx ℝ)) (za zg : Cx ℝ) (zgpow : ℤ → Cx ℝ)
    (zaArr zgArr : Array (Cx ℝ)) (c P Lc : ℤ) (ell : ℕ) (m : ℤ)
    (h0 : 0 ≤ c) (h1 : c ≤ ell) (h2 : (ell : ℤ) ≤ Lc) (hP : Lc ≤ P) (hm : m.natAbs ≤ ell)
    (hza : ∀ k ≤ ell, toC (cget zaArr k) = toC za ^ k)
    (hzg : ∀ k ≤ ell, toC (cget zgArr k) = toC zg ^ k)
    (hnorm : Complex.normSq (toC zg) = 1)
    (hpow : toC (zgpow m) = toC zg ^ m) :
    toC (rotateMatrixEntry st f zaArr zgArr c P Lc ell m) =
      toC (rotateHornerEntry st f za zgpow ell m) := by
  rw [rotateMatrix_eq_sum st f zaArr zgArr c P Lc ell m h0 h1 h2 hP hm,
    Routes.rotateHorner_eq_matrix st f za zg zgpow zaArr zgArr ell m hm hza hzg hnorm hpow]

end exact

/-! ## 5. the hypotheses are the guards; concrete configurations -/

/-- the integer hypotheses of `eval_slices_align` / `eval_dropped_weights_are_low` / `evaluateMatrix_eq_horner`
    are exactly what the generated guards of the constructor and of `evaluate` give
    (modes' `ell_min = 0`) -/
theorem eval_guards_give_hyps (c Lc P0 P s L : Int) (hinit : Wigner___init___ok c Lc P0 = true)
    (hev : Wigner_evaluate_ok s 0 L P c Lc = true) :
    0 ≤ c ∧ c ≤ Lc ∧ c ≤ max (s.natAbs : Int) 0 ∧ L ≤ Lc ∧ (s.natAbs : Int) ≤ P := by
  unfold Wigner___init___ok at hinit
  unfold Wigner_evaluate_ok at hev
  simp only [Bool.if_false_left, Bool.and_true, Bool.and_eq_true,
    Bool.not_eq_true', decide_eq_false_iff_not] at hinit hev
  omega

/-- the integer hypotheses of `rotate_block_contiguous` / `rotateMatrix_eq_horner` from the generated guards of the
    constructor and of `rotate`, the route condition `not (self.ell_min > max(|s|, ell_min))` and the loop range of
    `_rotate` -/
theorem rotate_guards_give_hyps (c Lc P0 s L ell : Int) (hinit : Wigner___init___ok c Lc P0 = true)
    (hrot : Wigner_rotate_ok (Wigner___init___self_mp_max c Lc P0) Lc 0 L s = true)
    (hroute : ¬ (c > max (s.natAbs : Int) 0))
    (hloop : max (s.natAbs : Int) 0 ≤ ell ∧ ell ≤ L) :
    0 ≤ c ∧ c ≤ ell ∧ ell ≤ Lc ∧ Lc ≤ Wigner___init___self_mp_max c Lc P0 := by
  unfold Wigner___init___ok at hinit
  unfold Wigner_rotate_ok at hrot
  simp only [Bool.if_false_left, Bool.and_true, Bool.and_eq_true,
    Bool.not_eq_true', decide_eq_false_iff_not] at hinit hrot
  omega

/-! `Wigner(7, ell_min=2)` on modes with `s = -3`, `ell_max = 5`: all guards pass, -/
example : Wigner___init___ok 2 7 7 = true ∧ Wigner_evaluate_ok (-3) 0 5 7 2 7 = true
    ∧ Wigner_rotate_ok 7 7 0 5 (-3) = true := by decide

/-! the slices are `mode_weights[:, 4:36]` and `Y[0:32]` (`Y` has 60 entries, the weights 36), -/
example : evalMatrixSlices 2 5 = (4, 0, 32) ∧ Ysize 0 5 = 36 ∧ Ysize 2 7 = 60 := by decide

/-! offset by offset they address the same (ℓ, m), in the documented order, -/
example : (List.range 32).map (fun k => (4 + (k : Int), 0 + (k : Int)))
    = (Spec.yRange 2 5).map (fun p => (Yindex p.1 p.2 0, Yindex p.1 p.2 2)) := by decide

example : Yindex 3 (-1) 2 = 7 ∧ 4 + 7 = Yindex 3 (-1) 0 ∧ 0 + 7 = Yindex 3 (-1) 2 := by decide

/-! and the general theorems apply (their hypotheses hold there). -/
example := eval_slices_align 2 7 5 (by decide) (by decide) (by decide) 4 0 32 (by decide)
example := eval_dropped_weights_are_low 2 5 (-3) (by decide) (by decide) (by decide) 4 0 32 (by decide)

/-! `_rotate` at ℓ = 3 on the same calculator: weights `[9:16]`, 𝔇 block `[25:74]` of the 670 entries
    (the ℓ = 2 block has 25 entries), row-major: -/
example : rotateSlices 2 3 = (9, 16, 25, 74) ∧ WignerDsize 2 7 7 = 670
    ∧ WignerDindex 3 1 (-2) 2 (-1) = 25 + (1 + 3) * 7 + (-2 + 3) := by decide

example : (List.range 49).map (fun k => 25 + (k : Int))
    = ((Spec.irange (-3) 3).flatMap fun mp => (Spec.irange (-3) 3).map fun m =>
        WignerDindex 3 mp m 2 (-1)) := by decide

example := rotate_block_contiguous 2 7 7 3 (by decide) (by decide) (by decide) (by decide) 9 16 25 74
  (by decide)

/-- `evaluateMatrix_eq_horner` at that configuration, for every workspace content, weights, `zₐ` and unit `zᵧ` -/
example {μ : Type} [Mem μ ℝ] (st : μ) (f : Array (Cx ℝ)) (a g : ℂ) (hg : Complex.normSq g = 1)
    (prev : Cx ℝ) :
    toC (evaluateMatrix st f (powArr a 5) (ofC (g ^ 3)) (-3) 2 7 5) =
      toC (evaluateHornerK st f (ofC a) (ofC ((starRingEnd ℂ g) ^ (-3 : ℤ))) (-3) 5 prev) :=
  evaluateMatrix_eq_horner st f (ofC a) (ofC g) _ _ _ (-3) 2 7 5 prev (by decide) (by decide)
    (by decide) (powArr_spec a 5) hg rfl rfl

/-- … and at the empty configuration `Wigner(8, ell_min=3)`, `s = -3`, `ell_max = 1`: both routes give 0 -/
example {μ : Type} [Mem μ ℝ] (st : μ) (f : Array (Cx ℝ)) (a g : ℂ) (hg : Complex.normSq g = 1)
    (prev : Cx ℝ) :
    toC (evaluateMatrix st f (powArr a 1) (ofC (g ^ 3)) (-3) 3 8 1) = 0
    ∧ toC (evaluateHornerK st f (ofC a) (ofC ((starRingEnd ℂ g) ^ (-3 : ℤ))) (-3) 1 prev) = 0 := by
  have h := evaluateMatrix_eq_horner st f (ofC a) (ofC g) (ofC ((starRingEnd ℂ g) ^ (-3 : ℤ)))
    (ofC (g ^ 3)) (powArr a 1) (-3) 3 8 1 prev (by decide) (by decide) (by decide) (powArr_spec a 1) hg rfl rfl
  have h0 : toC (evaluateMatrix st f (powArr a 1) (ofC (g ^ 3)) (-3) 3 8 1) = 0 := by
    rw [evaluateMatrix_empty st f _ _ (-3) 3 8 1 (by decide) (by decide), toC_zero]
  exact ⟨h0, h ▸ h0⟩

/-- `rotateMatrix_eq_horner` at that configuration, entry (ℓ, m) = (3, -2) -/
example {μ : Type} [Mem μ ℝ] (st : μ) (f : Array (Cx ℝ)) (a g : ℂ) (hg : Complex.normSq g = 1) :
    toC (rotateMatrixEntry st f (powArr a 7) (powArr g 7) 2 7 7 3 (-2)) =
      toC (rotateHornerEntry st f (ofC a) (fun k => ofC (g ^ k)) 3 (-2)) :=
  rotateMatrix_eq_horner st f (ofC a) (ofC g) _ _ _ 2 7 7 3 (-2) (by decide) (by decide) (by decide)
    (by decide) (by decide) (fun k hk => powArr_spec a 7 k (by omega)) (fun k hk => powArr_spec g 7 k (by omega))
    hg rfl

end Matrix
end
