/-! Line-protocol operations for the Diff glue model (filled in by the Diff model; `none` = unknown op). -/
namespace DiffOps
def step (_toks : List String) : Option String := none
end DiffOps
