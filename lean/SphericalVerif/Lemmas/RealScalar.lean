import SphericalVerif.Model.Basic
import Mathlib.Analysis.Real.Sqrt
import Mathlib.Analysis.SpecialFunctions.Trigonometric.Basic
/-! The exact-arithmetic instance of the model's abstract scalar: `α := ℝ`.
    Theorems proved at this instance are statements about the kernels in exact real arithmetic
    (identities between routes, algebraic laws); rounding is out of their scope (DESIGN.md §5). -/
noncomputable section
open Classical in
instance instScalarReal : Scalar ℝ where
  add := (· + ·)
  sub := (· - ·)
  mul := (· * ·)
  div := (· / ·)
  neg := (- ·)
  sqrt := Real.sqrt
  abs := fun x => |x|
  ofInt := fun n => (n : ℝ)
  half := 1 / 2
  inv4pi := 1 / (4 * Real.pi)
  lt a b := decide (a < b)
  le a b := decide (a ≤ b)
  beq a b := decide (a = b)

namespace RealScalar
@[simp] theorem add_def (a b : ℝ) : Scalar.add a b = a + b := rfl
@[simp] theorem sub_def (a b : ℝ) : Scalar.sub a b = a - b := rfl
@[simp] theorem mul_def (a b : ℝ) : Scalar.mul a b = a * b := rfl
@[simp] theorem div_def (a b : ℝ) : Scalar.div a b = a / b := rfl
@[simp] theorem neg_def (a : ℝ) : Scalar.neg a = -a := rfl
@[simp] theorem sqrt_def (a : ℝ) : Scalar.sqrt a = Real.sqrt a := rfl
@[simp] theorem abs_def (a : ℝ) : Scalar.abs a = |a| := rfl
@[simp] theorem ofInt_def (n : Int) : (Scalar.ofInt n : ℝ) = (n : ℝ) := rfl
@[simp] theorem half_def : (Scalar.half : ℝ) = 1 / 2 := rfl
@[simp] theorem inv4pi_def : (Scalar.inv4pi : ℝ) = 1 / (4 * Real.pi) := rfl
@[simp] theorem lt_def (a b : ℝ) : Scalar.lt a b = decide (a < b) := rfl
@[simp] theorem le_def (a b : ℝ) : Scalar.le a b = decide (a ≤ b) := rfl
@[simp] theorem beq_def (a b : ℝ) : Scalar.beq a b = decide (a = b) := rfl
@[simp] theorem one_def : (one : ℝ) = 1 := by simp [one]
@[simp] theorem zero_def : (zero : ℝ) = 0 := by simp [zero]
end RealScalar
end
