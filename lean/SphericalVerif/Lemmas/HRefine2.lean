import SphericalVerif.Lemmas.HRefine
/-! Refinement of `Model.runH`, part: step 2 (the m' = 0 column, rows 1 … L+1). -/
namespace HRefine
set_option linter.unusedSectionVars false
section
open Scalar Model Spec
variable {α : Type} [Scalar α] {μ : Type} [Mem μ α] [LawfulMem μ α]

/-! ### decomposition of `step2` into its loop levels (`T` = `rowLoc L n`) -/

/-- the two top cells of row n: m = n (un-normalised) and m = n-1 -/
def s2a (T : Nat → Loc) (c : α) (n : Nat) (st : μ) : μ :=
  wr (wr st (T n) (sqrt ((ofInt 1 : α) +. (half /. ofInt (n : Int))) *. rd (α := α) st (.hw (n-1) 0 (n-1))))
    (T (n-1))
    ((gC (n : Int) ((n : Int) - 1) *. c) *.
      rd (α := α) (wr st (T n) (sqrt ((ofInt 1 : α) +. (half /. ofInt (n : Int))) *. rd (α := α) st (.hw (n-1) 0 (n-1)))) (T n))

/-- i = j+2 = 2 … n-1: cell m = n-i from m+1 and m+2 -/
def s2cell (T : Nat → Loc) (c s : α) (n : Nat) : Nat → μ → μ := fun j st =>
  wr st (T (n-(j+2)))
    (((gC (n : Int) ((n : Int) - ((j+2 : Nat) : Int)) *. c) *. rd (α := α) st (T (n-(j+2)+1)))
      -. ((hC (n : Int) ((n : Int) - ((j+2 : Nat) : Int)) *. (s *. s)) *. rd (α := α) st (T (n-(j+2)+2))))

/-- cell m = 0, normalised at once -/
def s2bot (T : Nat → Loc) (c s : α) (n : Nat) (st : μ) : μ :=
  wr st (T 0)
    ((((gC (n : Int) 0 *. c) *. rd (α := α) st (T 1)) -. ((hC (n : Int) 0 *. (s *. s)) *. rd (α := α) st (T 2)))
      *. (one /. sqrt (ofInt (4*(n : Int)+2))))

/-- normalisation of m = j+1 = 1 … n-1 with a running prefactor -/
def s2norm (T : Nat → Loc) (s : α) : Nat → μ × α → μ × α := fun j p =>
  (wr p.1 (T (j+1)) (rd (α := α) p.1 (T (j+1)) *. (p.2 *. s)), p.2 *. s)

/-- copy H(n,0,1) to hv n 1 and hv n 0 -/
def s2hv (L n : Nat) (st : μ) : μ :=
  if n ≤ L then wr (wr st (.hv n 1) (rd (α := α) st (.hw n 0 1))) (.hv n 0) (rd (α := α) st (.hw n 0 1)) else st

/-- row n -/
def s2rowN (L : Nat) (c s : α) (n : Nat) (st : μ) : μ :=
  s2hv (α := α) L n
    (loopN (n-1) (s2norm (rowLoc L n) s)
      (s2bot (rowLoc L n) c s n (loopN (n-2) (s2cell (rowLoc L n) c s n) (s2a (rowLoc L n) c n st)),
       (one /. sqrt (ofInt (4*(n : Int)+2)) : α))).1

def s2row (L : Nat) (c s : α) : Nat → μ → μ := fun k st => s2rowN L c s (k+2) st

/-- normalisation of the m = n cells, n = k+1 = 1 … L -/
def s2top (s : α) : Nat → μ × α → μ × α := fun k p =>
  (wr p.1 (.hw (k+1) 0 (k+1))
    (rd (α := α) p.1 (.hw (k+1) 0 (k+1)) *. ((p.2 *. s) /. sqrt (ofInt (4*((k+1 : Nat) : Int)+2)))), p.2 *. s)

/-- first assignments (row 1) -/
def s2init (c : α) (st : μ) : μ :=
  wr (wr st (.hw 1 0 1) (sqrt (ofInt 3) : α)) (.hw 1 0 0) ((gC 1 0 *. c) *. (one /. sqrt (ofInt 2)))

/-- last assignments: normalisation of hx (L+1), copy of H(1,0,1) to hv 1 1 and hv 1 0 -/
def s2fin (L : Nat) (s : α) (p : μ × α) : μ :=
  let st := wr p.1 (.hx (L+1)) (rd (α := α) p.1 (.hx (L+1)) *. ((p.2 *. s) /. sqrt (ofInt (4*((L : Int)+1)+2))))
  wr (wr st (.hv 1 1) (rd (α := α) st (.hw 1 0 1))) (.hv 1 0) (rd (α := α) st (.hw 1 0 1))

theorem step2_eq (L : Nat) (c s : α) (st : μ) :
    step2 L c s st = if L = 0 then st else
      s2fin L s (loopN L (s2top s) (loopN L (s2row L c s) (s2init c st), (one : α))) := rfl

/-! ### equations of the m' = 0 column -/

theorem topU_succ (n : Nat) (h : 2 ≤ n) :
    (topU n : α) = sqrt ((ofInt 1 : α) +. (half /. ofInt (n : Int))) *. topU (n-1) := by
  obtain ⟨k, rfl⟩ : ∃ k, n = k + 2 := ⟨n - 2, by omega⟩
  rfl

theorem col0_ss (c s : α) (k m : Nat) :
    col0 c s (k+2) m =
      if m = 0 then bot0 c s (k+2)
      else if m < k+2 then rawD c s (k+2) (k+2-m) *. preS s (cnorm (k+2)) m
      else topN s (k+2) := by
  cases m <;> rfl

theorem col0_bot (c s : α) (n : Nat) (h : 2 ≤ n) : col0 c s n 0 = bot0 c s n := by
  obtain ⟨k, rfl⟩ : ∃ k, n = k + 2 := ⟨n - 2, by omega⟩
  rw [col0_ss, if_pos rfl]

theorem col0_mid (c s : α) (n m : Nat) (h : 2 ≤ n) (h1 : 1 ≤ m) (h2 : m < n) :
    col0 c s n m = rawD c s n (n-m) *. preS s (cnorm n) m := by
  obtain ⟨k, rfl⟩ : ∃ k, n = k + 2 := ⟨n - 2, by omega⟩
  rw [col0_ss, if_neg (by omega), if_pos h2]

theorem col0_top (c s : α) (n : Nat) (h : 1 ≤ n) : col0 c s n n = topN s n := by
  obtain ⟨k, rfl⟩ : ∃ k, n = k + 1 := ⟨n - 1, by omega⟩
  cases k with
  | zero => rfl
  | succ k =>
    rw [col0_ss, if_neg (by omega), if_neg (by omega)]

/-! ### one row, for an injective addressing `T` of its cells -/

theorem s2a_spec (T : Nat → Loc) (hT : ∀ a b, T a = T b → a = b) (c s : α) (n : Nat) (hn : 2 ≤ n) (st : μ)
    (htop : rd st (.hw (n-1) 0 (n-1)) = (topU (n-1) : α)) :
    rd (s2a T c n st) (T n) = rawD c s n 0
    ∧ rd (s2a T c n st) (T (n-1)) = rawD c s n 1
    ∧ (∀ l, l ≠ T n → l ≠ T (n-1) → rd (α := α) (s2a T c n st) l = rd st l) := by
  have hne : T n ≠ T (n-1) := fun e => by have := hT _ _ e; omega
  refine ⟨?_, ?_, ?_⟩
  · unfold s2a
    rw [rd_wr_ne _ _ hne, rd_wr_same, htop, ← topU_succ n hn]; rfl
  · unfold s2a
    rw [rd_wr_same, rd_wr_same, htop, ← topU_succ n hn]; rfl
  · intro l h1 h2
    unfold s2a
    rw [rd_wr_ne _ _ h2, rd_wr_ne _ _ h1]

theorem s2cells_spec (T : Nat → Loc) (hT : ∀ a b, T a = T b → a = b) (c s : α) (n : Nat) (hn : 2 ≤ n) (st : μ)
    (h0 : rd st (T n) = rawD c s n 0) (h1 : rd st (T (n-1)) = rawD c s n 1) :
    (∀ d, d ≤ n - 1 → rd (loopN (n-2) (s2cell T c s n) st) (T (n-d)) = rawD c s n d)
    ∧ (∀ l, (∀ d, 2 ≤ d → d ≤ n - 1 → l ≠ T (n-d)) → rd (α := α) (loopN (n-2) (s2cell T c s n) st) l = rd st l) := by
  let Q : Nat → μ → Prop := fun j st' =>
    (∀ d, d ≤ j + 1 → rd st' (T (n-d)) = rawD c s n d)
    ∧ (∀ l, (∀ d, 2 ≤ d → d ≤ j + 1 → l ≠ T (n-d)) → rd (α := α) st' l = rd st l)
  have key : ∀ cnt, cnt ≤ n - 2 → Q cnt (loopN cnt (s2cell T c s n) st) := by
    intro cnt hcnt
    apply loopN_inv Q
    · refine ⟨?_, fun l _ => rfl⟩
      intro d hd
      have : d = 0 ∨ d = 1 := by omega
      rcases this with rfl | rfl
      · exact h0
      · exact h1
    · intro j st' hj ⟨qA, qB⟩
      refine ⟨?_, ?_⟩
      · intro d hd
        by_cases hdj : d = j + 2
        · subst hdj
          unfold s2cell
          rw [rd_wr_same, show n - (j+2) + 1 = n - (j+1) by omega, show n - (j+2) + 2 = n - j by omega,
            qA (j+1) (by omega), qA j (by omega)]
          rfl
        · unfold s2cell
          rw [rd_wr_ne _ _ (fun e => by have := hT _ _ e; omega)]
          exact qA d (by omega)
      · intro l hl
        unfold s2cell
        rw [rd_wr_ne _ _ (hl (j+2) (by omega) (by omega))]
        exact qB l (fun d hd1 hd2 => hl d hd1 (by omega))
  obtain ⟨kA, kB⟩ := key (n-2) (Nat.le_refl _)
  exact ⟨fun d hd => kA d (by omega), fun l hl => kB l (fun d hd1 hd2 => hl d hd1 (by omega))⟩

theorem s2bot_spec (T : Nat → Loc) (c s : α) (n : Nat) (hn : 2 ≤ n) (st : μ)
    (hraw : ∀ m, 1 ≤ m → m ≤ n → rd st (T m) = rawD c s n (n-m)) :
    rd (s2bot T c s n st) (T 0) = col0 c s n 0
    ∧ (∀ l, l ≠ T 0 → rd (α := α) (s2bot T c s n st) l = rd st l) := by
  refine ⟨?_, fun l hl => rd_wr_ne _ _ hl⟩
  unfold s2bot
  rw [rd_wr_same, hraw 1 (by omega) (by omega), hraw 2 (by omega) hn, col0_bot c s n hn]
  rfl

theorem s2norm_spec (T : Nat → Loc) (hT : ∀ a b, T a = T b → a = b) (c s : α) (n : Nat) (hn : 2 ≤ n) (st : μ)
    (hraw : ∀ m, 1 ≤ m → m ≤ n → rd st (T m) = rawD c s n (n-m)) :
    (∀ m, 1 ≤ m → m < n → rd (loopN (n-1) (s2norm T s) (st, cnorm n)).1 (T m) = col0 c s n m)
    ∧ (∀ l, (∀ m, 1 ≤ m → m < n → l ≠ T m) →
        rd (α := α) (loopN (n-1) (s2norm T s) (st, cnorm n)).1 l = rd st l) := by
  let Q : Nat → μ × α → Prop := fun j p =>
    p.2 = preS s (cnorm n) j
    ∧ (∀ m, 1 ≤ m → m ≤ j → rd p.1 (T m) = col0 c s n m)
    ∧ (∀ l, (∀ m, 1 ≤ m → m ≤ j → l ≠ T m) → rd (α := α) p.1 l = rd st l)
  have key : ∀ cnt, cnt ≤ n - 1 → Q cnt (loopN cnt (s2norm T s) (st, cnorm n)) := by
    intro cnt hcnt
    apply loopN_inv Q
    · exact ⟨rfl, fun m h1 h2 => by omega, fun l _ => rfl⟩
    · intro j p hj ⟨qP, qA, qB⟩
      refine ⟨?_, ?_, ?_⟩
      · show p.2 *. s = _
        rw [qP]; rfl
      · intro m hm1 hm2
        show rd (wr p.1 (T (j+1)) (rd (α := α) p.1 (T (j+1)) *. (p.2 *. s))) (T m) = _
        by_cases hm : m = j + 1
        · subst hm
          rw [rd_wr_same, qB _ (fun m' h1 h2 e => by have := hT _ _ e; omega), hraw (j+1) hm1 (by omega),
            col0_mid c s n (j+1) hn hm1 (by omega), qP]
          rfl
        · rw [rd_wr_ne _ _ (fun e => hm (hT _ _ e))]
          exact qA m hm1 (by omega)
      · intro l hl
        show rd (wr p.1 (T (j+1)) (rd (α := α) p.1 (T (j+1)) *. (p.2 *. s))) l = _
        rw [rd_wr_ne _ _ (hl (j+1) (by omega) (by omega))]
        exact qB l (fun m h1 h2 => hl m h1 (by omega))
  obtain ⟨_, kA, kB⟩ := key (n-1) (Nat.le_refl _)
  exact ⟨fun m h1 h2 => kA m h1 (by omega), fun l hl => kB l (fun m h1 h2 => hl m h1 (by omega))⟩

/-! ### one row of the model -/

theorem s2rowN_spec (L : Nat) (c s : α) (n : Nat) (hn : 2 ≤ n) (st : μ)
    (htop : rd st (.hw (n-1) 0 (n-1)) = (topU (n-1) : α)) :
    (∀ m, m < n → rd (s2rowN L c s n st) (rowLoc L n m) = valW c s n 0 m)
    ∧ rd (s2rowN L c s n st) (rowLoc L n n) = (topU n : α)
    ∧ (n ≤ L → rd (s2rowN L c s n st) (.hv n 1) = valV c s n 1 ∧ rd (s2rowN L c s n st) (.hv n 0) = valV c s n 0)
    ∧ (∀ l, (∀ m, m ≤ n → l ≠ rowLoc L n m) → (n ≤ L → l ≠ .hv n 1 ∧ l ≠ .hv n 0) →
        rd (α := α) (s2rowN L c s n st) l = rd st l) := by
  have hT : ∀ a b, rowLoc L n a = rowLoc L n b → a = b := fun a b e => rowLoc_inj e
  have hTne : ∀ {a b}, a ≠ b → rowLoc L n a ≠ rowLoc L n b := fun h e => h (rowLoc_inj e)
  obtain ⟨a0, a1, aF⟩ := s2a_spec (rowLoc L n) hT c s n hn st htop
  obtain ⟨bA, bF⟩ := s2cells_spec (rowLoc L n) hT c s n hn _ a0 a1
  have hrawB : ∀ m, 1 ≤ m → m ≤ n →
      rd (loopN (n-2) (s2cell (rowLoc L n) c s n) (s2a (rowLoc L n) c n st)) (rowLoc L n m) = rawD c s n (n-m) := by
    intro m h1 h2
    have := bA (n-m) (by omega)
    rwa [show n - (n-m) = m by omega] at this
  obtain ⟨cA, cF⟩ := s2bot_spec (rowLoc L n) c s n hn _ hrawB
  have hrawC : ∀ m, 1 ≤ m → m ≤ n →
      rd (s2bot (rowLoc L n) c s n (loopN (n-2) (s2cell (rowLoc L n) c s n) (s2a (rowLoc L n) c n st)))
        (rowLoc L n m) = rawD c s n (n-m) := by
    intro m h1 h2
    rw [cF _ (hTne (by omega))]; exact hrawB m h1 h2
  obtain ⟨dA, dF⟩ := s2norm_spec (rowLoc L n) hT c s n hn _ hrawC
  -- the state before the copy to hv
  have key : ∀ stD : μ,
      stD = (loopN (n-1) (s2norm (rowLoc L n) s)
        (s2bot (rowLoc L n) c s n (loopN (n-2) (s2cell (rowLoc L n) c s n) (s2a (rowLoc L n) c n st)),
          cnorm n)).1 →
      (∀ m, m < n → rd stD (rowLoc L n m) = valW c s n 0 m)
      ∧ rd stD (rowLoc L n n) = (topU n : α)
      ∧ (∀ l, (∀ m, m ≤ n → l ≠ rowLoc L n m) → rd (α := α) stD l = rd st l) := by
    intro stD hD
    subst hD
    refine ⟨?_, ?_, ?_⟩
    · intro m hm
      rw [valW_zero]
      by_cases h0 : m = 0
      · subst h0
        rw [dF _ (fun m' h1 h2 => hTne (by omega))]; exact cA
      · exact dA m (by omega) hm
    · rw [dF _ (fun m' h1 h2 => hTne (by omega)), cF _ (hTne (by omega))]
      exact bA 0 (by omega)
    · intro l hl
      rw [dF _ (fun m h1 h2 => hl m (by omega)), cF _ (hl 0 (by omega)),
        bF _ (fun d h1 h2 => hl (n-d) (by omega)), aF _ (hl n (Nat.le_refl _)) (hl (n-1) (by omega))]
  obtain ⟨kA, kT, kF⟩ := key _ rfl
  have hstep : s2rowN L c s n st = s2hv (α := α) L n
      (loopN (n-1) (s2norm (rowLoc L n) s)
        (s2bot (rowLoc L n) c s n (loopN (n-2) (s2cell (rowLoc L n) c s n) (s2a (rowLoc L n) c n st)),
          cnorm n)).1 := rfl
  rw [hstep]
  unfold s2hv
  by_cases hL : n ≤ L
  · rw [if_pos hL]
    have hv : rd (loopN (n-1) (s2norm (rowLoc L n) s)
        (s2bot (rowLoc L n) c s n (loopN (n-2) (s2cell (rowLoc L n) c s n) (s2a (rowLoc L n) c n st)),
          cnorm n)).1 (.hw n 0 1) = col0 c s n 1 := by
      rw [← rowLoc_le hL 1, kA 1 (by omega), valW_zero]
    refine ⟨?_, ?_, ?_, ?_⟩
    · intro m hm
      rw [rd_wr_ne _ _ rowLoc_ne_hv, rd_wr_ne _ _ rowLoc_ne_hv]; exact kA m hm
    · rw [rd_wr_ne _ _ rowLoc_ne_hv, rd_wr_ne _ _ rowLoc_ne_hv]; exact kT
    · intro _
      refine ⟨?_, ?_⟩
      · rw [rd_wr_ne _ _ (hv_ne_of_k (by omega)), rd_wr_same, hv, valV_one]
      · rw [rd_wr_same, hv, valV_zero]
    · intro l hl1 hl2
      rw [rd_wr_ne _ _ (hl2 hL).2, rd_wr_ne _ _ (hl2 hL).1]; exact kF l hl1
  · rw [if_neg hL]
    exact ⟨kA, kT, fun h => absurd h hL, fun l hl1 _ => kF l hl1⟩

/-! ### the row loop -/

theorem rowLoc_ne_rowLoc {L n n' m m' : Nat} (h : n ≠ n') (hn : n ≤ L) : rowLoc L n m ≠ rowLoc L n' m' := by
  intro e
  rw [rowLoc_le hn] at e
  have := rowLoc_eq_hw e.symm
  omega

theorem s2rows_spec (L : Nat) (hL : 0 < L) (c s : α) (st0 : μ)
    (hr10 : rd st0 (.hw 1 0 0) = valW c s 1 0 0) (hr11 : rd st0 (.hw 1 0 1) = (topU 1 : α)) :
    (∀ n m, 1 ≤ n → n ≤ L + 1 → m < n → rd (loopN L (s2row L c s) st0) (rowLoc L n m) = valW c s n 0 m)
    ∧ (∀ n, 1 ≤ n → n ≤ L + 1 → rd (loopN L (s2row L c s) st0) (rowLoc L n n) = (topU n : α))
    ∧ (∀ n, 2 ≤ n → n ≤ L →
        rd (loopN L (s2row L c s) st0) (.hv n 1) = valV c s n 1 ∧ rd (loopN L (s2row L c s) st0) (.hv n 0) = valV c s n 0)
    ∧ (∀ l, (∀ n m, 2 ≤ n → n ≤ L + 1 → m ≤ n → l ≠ rowLoc L n m) → (∀ n, 2 ≤ n → n ≤ L → l ≠ .hv n 1 ∧ l ≠ .hv n 0) →
        rd (α := α) (loopN L (s2row L c s) st0) l = rd st0 l) := by
  let I : Nat → μ → Prop := fun k st' =>
    (∀ n m, 1 ≤ n → n ≤ k + 1 → m < n → rd st' (rowLoc L n m) = valW c s n 0 m)
    ∧ (∀ n, 1 ≤ n → n ≤ k + 1 → rd st' (rowLoc L n n) = (topU n : α))
    ∧ (∀ n, 2 ≤ n → n ≤ k + 1 → n ≤ L → rd st' (.hv n 1) = valV c s n 1 ∧ rd st' (.hv n 0) = valV c s n 0)
    ∧ (∀ l, (∀ n m, 2 ≤ n → n ≤ k + 1 → m ≤ n → l ≠ rowLoc L n m) →
          (∀ n, 2 ≤ n → n ≤ k + 1 → n ≤ L → l ≠ .hv n 1 ∧ l ≠ .hv n 0) → rd (α := α) st' l = rd st0 l)
  have key : ∀ cnt, cnt ≤ L → I cnt (loopN cnt (s2row L c s) st0) := by
    intro cnt hcnt
    apply loopN_inv I
    · refine ⟨?_, ?_, fun n h1 h2 => by omega, fun l _ _ => rfl⟩
      · intro n m h1 h2 hm
        have : n = 1 := by omega
        subst this
        have : m = 0 := by omega
        subst this
        rw [rowLoc_le (by omega)]; exact hr10
      · intro n h1 h2
        have : n = 1 := by omega
        subst this
        rw [rowLoc_le (by omega)]; exact hr11
    · intro k st' hk ⟨iA, iT, iV, iF⟩
      have htop : rd st' (.hw (k+2-1) 0 (k+2-1)) = (topU (k+2-1) : α) := by
        have := iT (k+1) (by omega) (by omega)
        rw [rowLoc_le (by omega)] at this
        exact this
      obtain ⟨rA, rT, rV, rF⟩ := s2rowN_spec L c s (k+2) (by omega) st' htop
      refine ⟨?_, ?_, ?_, ?_⟩
      · intro n m h1 h2 hm
        by_cases hn : n = k + 2
        · subst hn; exact rA m hm
        · show rd (s2rowN L c s (k+2) st') _ = _
          rw [rF _ (fun m' _ => rowLoc_ne_rowLoc hn (by omega))
                (fun _ => ⟨rowLoc_ne_hv, rowLoc_ne_hv⟩)]
          exact iA n m h1 (by omega) hm
      · intro n h1 h2
        by_cases hn : n = k + 2
        · subst hn; exact rT
        · show rd (s2rowN L c s (k+2) st') _ = _
          rw [rF _ (fun m' _ => rowLoc_ne_rowLoc hn (by omega))
                (fun _ => ⟨rowLoc_ne_hv, rowLoc_ne_hv⟩)]
          exact iT n h1 (by omega)
      · intro n h1 h2 h3
        by_cases hn : n = k + 2
        · subst hn; exact rV h3
        · show rd (s2rowN L c s (k+2) st') _ = _ ∧ rd (s2rowN L c s (k+2) st') _ = _
          rw [rF _ (fun m' _ => (rowLoc_ne_hv).symm) (fun _ => ⟨hv_ne_of_n hn, hv_ne_of_n hn⟩),
              rF _ (fun m' _ => (rowLoc_ne_hv).symm) (fun _ => ⟨hv_ne_of_n hn, hv_ne_of_n hn⟩)]
          exact iV n h1 (by omega) h3
      · intro l hl1 hl2
        show rd (s2rowN L c s (k+2) st') _ = _
        rw [rF l (fun m hm => hl1 (k+2) m (by omega) (by omega) hm) (fun h => hl2 (k+2) (by omega) (by omega) h)]
        exact iF l (fun n m h1 h2 hm => hl1 n m h1 (by omega) hm) (fun n h1 h2 h3 => hl2 n h1 (by omega) h3)
  obtain ⟨kA, kT, kV, kF⟩ := key L (Nat.le_refl _)
  exact ⟨kA, kT, fun n h1 h2 => kV n h1 (by omega) h2,
    fun l hl1 hl2 => kF l hl1 (fun n h1 _ h3 => hl2 n h1 h3)⟩

/-! ### normalisation of the m = n cells -/

theorem s2tops_spec (L : Nat) (s : α) (stA : μ)
    (htop : ∀ n, 1 ≤ n → n ≤ L → rd stA (.hw n 0 n) = (topU n : α)) :
    (loopN L (s2top s) (stA, (one : α))).2 = preS s (one : α) L
    ∧ (∀ n, 1 ≤ n → n ≤ L → rd (loopN L (s2top s) (stA, (one : α))).1 (.hw n 0 n) = topN s n)
    ∧ (∀ l, (∀ n, 1 ≤ n → n ≤ L → l ≠ .hw n 0 n) →
        rd (α := α) (loopN L (s2top s) (stA, (one : α))).1 l = rd stA l) := by
  let J : Nat → μ × α → Prop := fun k p =>
    p.2 = preS s (one : α) k
    ∧ (∀ n, 1 ≤ n → n ≤ k → rd p.1 (.hw n 0 n) = topN s n)
    ∧ (∀ l, (∀ n, 1 ≤ n → n ≤ k → l ≠ .hw n 0 n) → rd (α := α) p.1 l = rd stA l)
  have key : ∀ cnt, cnt ≤ L → J cnt (loopN cnt (s2top s) (stA, (one : α))) := by
    intro cnt hcnt
    apply loopN_inv J
    · exact ⟨rfl, fun n h1 h2 => by omega, fun l _ => rfl⟩
    · intro k p hk ⟨jP, jA, jF⟩
      refine ⟨?_, ?_, ?_⟩
      · show p.2 *. s = _
        rw [jP]; rfl
      · intro n h1 h2
        show rd (wr p.1 (.hw (k+1) 0 (k+1))
          (rd (α := α) p.1 (.hw (k+1) 0 (k+1)) *. ((p.2 *. s) /. sqrt (ofInt (4*((k+1 : Nat) : Int)+2))))) _ = _
        by_cases hn : n = k + 1
        · subst hn
          rw [rd_wr_same, jF _ (fun n' _ _ => hw_ne_of_n (by omega)), htop (k+1) h1 (by omega), jP]
          rfl
        · rw [rd_wr_ne _ _ (hw_ne_of_n hn)]
          exact jA n h1 (by omega)
      · intro l hl
        show rd (wr p.1 (.hw (k+1) 0 (k+1))
          (rd (α := α) p.1 (.hw (k+1) 0 (k+1)) *. ((p.2 *. s) /. sqrt (ofInt (4*((k+1 : Nat) : Int)+2))))) _ = _
        rw [rd_wr_ne _ _ (hl (k+1) (by omega) (by omega))]
        exact jF l (fun n h1 h2 => hl n h1 (by omega))
  exact key L (Nat.le_refl _)

/-! ### the last assignments -/

theorem s2fin_spec (L : Nat) (s : α) (p : μ × α) :
    rd (s2fin L s p) (.hv 1 0) = rd (α := α) p.1 (.hw 1 0 1)
    ∧ rd (s2fin L s p) (.hv 1 1) = rd (α := α) p.1 (.hw 1 0 1)
    ∧ rd (s2fin L s p) (.hx (L+1))
        = rd (α := α) p.1 (.hx (L+1)) *. ((p.2 *. s) /. sqrt (ofInt (4*((L : Int)+1)+2)))
    ∧ (∀ l, l ≠ .hv 1 0 → l ≠ .hv 1 1 → l ≠ .hx (L+1) → rd (α := α) (s2fin L s p) l = rd p.1 l) := by
  refine ⟨?_, ?_, ?_, ?_⟩
  · unfold s2fin
    rw [rd_wr_same, rd_wr_ne _ _ hw_ne_hx]
  · unfold s2fin
    rw [rd_wr_ne _ _ (hv_ne_of_k (by omega)), rd_wr_same, rd_wr_ne _ _ hw_ne_hx]
  · unfold s2fin
    rw [rd_wr_ne _ _ hx_ne_hv, rd_wr_ne _ _ hx_ne_hv, rd_wr_same]
  · intro l h1 h2 h3
    unfold s2fin
    rw [rd_wr_ne _ _ h1, rd_wr_ne _ _ h2, rd_wr_ne _ _ h3]

/-! ### the whole step -/

theorem topN_succ_cast (s : α) (L : Nat) :
    (topU (L+1) : α) *. ((preS s (one : α) L *. s) /. sqrt (ofInt (4*((L : Int)+1)+2))) = topN s (L+1) := by
  unfold topN
  rw [show ((L+1 : Nat) : Int) = (L : Int) + 1 by omega]
  rfl

/-- Step 2 (L ≥ 1) writes exactly the m'=0 column of rows 1 … L (`hw n 0 m`, value `valW c s n 0 m`), row L+1 of
    that column into `hx` (value `valW c s (L+1) 0 m`), and the scratch cells `hv n 1`, `hv n 0` for 1 ≤ n ≤ L
    (value `valV c s n 1 = valV c s n 0 = valW c s n 0 1`); every other cell is unchanged.
    No hypothesis on the initial memory. -/
theorem step2_refines (L : Nat) (hL : 0 < L) (c s : α) (st : μ) :
    (∀ n m, 1 ≤ n → n ≤ L → m ≤ n → rd (step2 L c s st) (.hw n 0 m) = valW c s n 0 m)
    ∧ (∀ m, m ≤ L + 1 → rd (step2 L c s st) (.hx m) = valW c s (L+1) 0 m)
    ∧ (∀ n, 1 ≤ n → n ≤ L →
        rd (step2 L c s st) (.hv n 1) = valV c s n 1 ∧ rd (step2 L c s st) (.hv n 0) = valV c s n 0)
    ∧ (∀ l, (∀ n m, 1 ≤ n → n ≤ L → m ≤ n → l ≠ .hw n 0 m) → (∀ m, m ≤ L + 1 → l ≠ .hx m) →
          (∀ n, 1 ≤ n → n ≤ L → l ≠ .hv n 1 ∧ l ≠ .hv n 0) →
        rd (α := α) (step2 L c s st) l = rd st l) := by
  rw [step2_eq, if_neg (by omega)]
  -- row 1
  have i10 : rd (s2init c st) (.hw 1 0 0) = valW c s 1 0 0 := by
    unfold s2init; rw [rd_wr_same, valW_zero]; rfl
  have i11 : rd (s2init c st) (.hw 1 0 1) = (topU 1 : α) := by
    unfold s2init; rw [rd_wr_ne _ _ (hw_ne_of_m (by omega)), rd_wr_same]; rfl
  have iF : ∀ l, l ≠ .hw 1 0 0 → l ≠ .hw 1 0 1 → rd (α := α) (s2init c st) l = rd st l := by
    intro l h0 h1
    unfold s2init; rw [rd_wr_ne _ _ h0, rd_wr_ne _ _ h1]
  obtain ⟨rA, rT, rV, rF⟩ := s2rows_spec L hL c s (s2init c st) i10 i11
  obtain ⟨tP, tA, tF⟩ := s2tops_spec L s (loopN L (s2row L c s) (s2init c st))
    (fun n h1 h2 => by have := rT n h1 (by omega); rwa [rowLoc_le h2] at this)
  obtain ⟨f0, f1, fX, fF⟩ := s2fin_spec L s (loopN L (s2top s) (loopN L (s2row L c s) (s2init c st), (one : α)))
  -- cells of the wedge column after the normalisation loop
  have hwAll : ∀ n m, 1 ≤ n → n ≤ L → m ≤ n →
      rd (loopN L (s2top s) (loopN L (s2row L c s) (s2init c st), (one : α))).1 (.hw n 0 m) = valW c s n 0 m := by
    intro n m h1 h2 hm
    by_cases hmn : m = n
    · subst hmn
      rw [tA m h1 h2, valW_zero, col0_top c s m h1]
    · rw [tF _ (fun n' _ _ e => by injection e with e1 _ e3; omega)]
      have := rA n m h1 (by omega) (by omega)
      rwa [rowLoc_le h2] at this
  refine ⟨?_, ?_, ?_, ?_⟩
  · intro n m h1 h2 hm
    rw [fF _ hw_ne_hv hw_ne_hv hw_ne_hx]
    exact hwAll n m h1 h2 hm
  · intro m hm
    by_cases hmL : m = L + 1
    · subst hmL
      rw [fX, tF _ (fun _ _ _ => hx_ne_hw), tP]
      have := rT (L+1) (by omega) (Nat.le_refl _)
      rw [rowLoc_gt (by omega)] at this
      rw [this, topN_succ_cast, valW_zero, col0_top c s (L+1) (by omega)]
    · rw [fF _ hx_ne_hv hx_ne_hv (hx_ne_of hmL), tF _ (fun _ _ _ => hx_ne_hw)]
      have := rA (L+1) m (by omega) (Nat.le_refl _) (by omega)
      rwa [rowLoc_gt (by omega)] at this
  · intro n h1 h2
    by_cases hn : n = 1
    · subst hn
      rw [f0, f1, hwAll 1 1 h1 h2 (Nat.le_refl _), valV_one, valV_zero, valW_zero]
      exact ⟨rfl, rfl⟩
    · rw [fF _ (hv_ne_of_n hn) (hv_ne_of_n hn) hv_ne_hx, fF _ (hv_ne_of_n hn) (hv_ne_of_n hn) hv_ne_hx,
        tF _ (fun _ _ _ => hv_ne_hw), tF _ (fun _ _ _ => hv_ne_hw)]
      exact rV n (by omega) h2
  · intro l hl1 hl2 hl3
    rw [fF l (hl3 1 (by omega) hL).2 (hl3 1 (by omega) hL).1 (hl2 (L+1) (Nat.le_refl _)),
      tF l (fun n h1 h2 => hl1 n n h1 h2 (Nat.le_refl _)),
      rF l (fun n m h1 h2 hm => by
              by_cases hnL : n ≤ L
              · rw [rowLoc_le hnL]; exact hl1 n m (by omega) hnL hm
              · rw [rowLoc_gt hnL]; exact hl2 m (by omega))
           (fun n h1 h2 => hl3 n (by omega) h2)]
    exact iF l (hl1 1 0 (by omega) hL (by omega)) (hl1 1 1 (by omega) hL (by omega))

/-- for L = 0 step 2 does nothing -/
theorem step2_zero (c s : α) (st : μ) : step2 0 c s st = st := rfl

end
end HRefine
