import Mathlib.Algebra.Polynomial.Coeff
import Mathlib.Algebra.Polynomial.Basic
import Mathlib.Algebra.Polynomial.Degree.Lemmas
import Mathlib.Algebra.Polynomial.Eval.Coeff
import Mathlib.Algebra.BigOperators.NatAntidiagonal
import Mathlib.Algebra.BigOperators.Intervals
import Mathlib.Data.Complex.Basic
import Mathlib.Data.Nat.Choose.Basic
import Mathlib.Data.Nat.Choose.Cast
import Mathlib.Data.Nat.Factorial.Basic
import Mathlib.Tactic.Ring
import Mathlib.Tactic.Linarith
import Mathlib.Tactic.NormNum
import Mathlib.Tactic.FieldSimp
import Mathlib.Tactic.LinearCombination
import Mathlib.Algebra.BigOperators.Ring.Finset
/-! Polynomial machinery for `Lemmas/DocHom.lean` (no reference to the library): the action of a 2×2 matrix
    U = [[α, β], [γ, δ]] on binary forms of degree n, dehomogenised.

    `gen α β γ δ a b = (α + β t)^a (γ + δ t)^b` is the image of the monomial x^a y^b under the substitution
    x ↦ α x + β y, y ↦ γ x + δ y (at x = 1, y = t); its coefficients are the matrix entries of the substitution in the
    monomial basis.  Proved here, for ALL complex α, β, γ, δ:
      * `hom_gen`       Σ_j [t^j](gen a b) u^{a+b−j} v^j = (α u + β v)^a (γ u + δ v)^b      (re-homogenisation)
      * `coeff_gen_comp`  the entries of the product matrix U₁U₂ are the matrix product of the entries (functoriality)
      * `coeff_gen_rev_neg`  reversal t ↦ −1/t (used for the symmetry (m', m) ↦ (−m', −m))
      * `coeff_gen_transpose`  i! j! [t^j] gen(U) a b = a! b! [t^b] gen(Uᵀ) i j for a + b = i + j  (the matrix of the
                              transpose is the transpose, in the basis normalised by √(a! b!)) -/
noncomputable section
namespace DocHom
open Polynomial
open scoped Nat

/-- (α + β t)^a (γ + δ t)^b -/
def gen (α β γ δ : ℂ) (a b : ℕ) : ℂ[X] := (C α + C β * X) ^ a * (C γ + C δ * X) ^ b

/-- re-homogenisation of a polynomial of degree ≤ n at (u, v): Σ_j p_j u^{n−j} v^j -/
def hom (n : ℕ) (p u v : ℂ[X]) : ℂ[X] := ∑ j ∈ Finset.range (n + 1), C (p.coeff j) * u ^ (n - j) * v ^ j

theorem coeff_mul_lin_zero (p : ℂ[X]) (α β : ℂ) : (p * (C α + C β * X)).coeff 0 = p.coeff 0 * α := by
  rw [mul_add, coeff_add, ← mul_assoc, coeff_mul_X_zero, add_zero, coeff_mul_C]

theorem coeff_mul_lin_succ (p : ℂ[X]) (α β : ℂ) (k : ℕ) :
    (p * (C α + C β * X)).coeff (k + 1) = p.coeff (k + 1) * α + p.coeff k * β := by
  rw [mul_add, coeff_add, ← mul_assoc, coeff_mul_X, coeff_mul_C, coeff_mul_C]

/-- one linear factor, in an abstract commutative ring: if d = c · (A + B t) coefficientwise and c_{n+1} = 0 then
    Σ_{j ≤ n+1} d_j u^{n+1−j} v^j = (Σ_{j ≤ n} c_j u^{n−j} v^j)(A u + B v) -/
theorem hom_step {R : Type*} [CommRing R] (c d : ℕ → R) (A B u v : R) (n : ℕ) (htop : c (n + 1) = 0)
    (h0 : d 0 = c 0 * A) (hs : ∀ k, d (k + 1) = c (k + 1) * A + c k * B) :
    ∑ j ∈ Finset.range (n + 1 + 1), d j * u ^ (n + 1 - j) * v ^ j
      = (∑ j ∈ Finset.range (n + 1), c j * u ^ (n - j) * v ^ j) * (A * u + B * v) := by
  rw [Finset.sum_range_succ', h0]
  simp only [hs, Nat.succ_sub_succ, Nat.sub_zero, pow_zero, mul_one]
  rw [mul_add, Finset.sum_mul, Finset.sum_mul]
  have e1 : ∑ j ∈ Finset.range (n + 1), (c (j + 1) * A + c j * B) * u ^ (n - j) * v ^ (j + 1)
      = ∑ j ∈ Finset.range (n + 1), c (j + 1) * A * u ^ (n - j) * v ^ (j + 1)
        + ∑ j ∈ Finset.range (n + 1), c j * u ^ (n - j) * v ^ j * (B * v) := by
    rw [← Finset.sum_add_distrib]
    apply Finset.sum_congr rfl
    intro j _
    ring
  have e2 : ∑ j ∈ Finset.range (n + 1), c j * u ^ (n - j) * v ^ j * (A * u)
      = ∑ j ∈ Finset.range n, c (j + 1) * A * u ^ (n - j) * v ^ (j + 1) + c 0 * A * u ^ (n + 1) := by
    rw [Finset.sum_range_succ']
    congr 1
    · apply Finset.sum_congr rfl
      intro j hj
      rw [Finset.mem_range] at hj
      have : n - j = (n - (j + 1)) + 1 := by omega
      rw [this, pow_succ]; ring
    · simp only [Nat.sub_zero, pow_zero, mul_one, pow_succ]; ring
  rw [e1, e2, Finset.sum_range_succ (fun j => c (j + 1) * A * u ^ (n - j) * v ^ (j + 1)) n, htop]
  ring

/-- multiplying by one linear factor: the re-homogenisation is multiplicative -/
theorem hom_mul_lin (n : ℕ) (p u v : ℂ[X]) (α β : ℂ) (hp : p.natDegree ≤ n) :
    hom (n + 1) (p * (C α + C β * X)) u v = hom n p u v * (C α * u + C β * v) := by
  have htop : C (p.coeff (n + 1)) = 0 := by
    rw [coeff_eq_zero_of_natDegree_lt (by omega), C_0]
  have h0 : C ((p * (C α + C β * X)).coeff 0) = C (p.coeff 0) * C α := by
    rw [coeff_mul_lin_zero, C_mul]
  have hs : ∀ k, C ((p * (C α + C β * X)).coeff (k + 1)) = C (p.coeff (k + 1)) * C α + C (p.coeff k) * C β := by
    intro k; rw [coeff_mul_lin_succ, C_add, C_mul, C_mul]
  have h := hom_step (fun j => C (p.coeff j)) (fun j => C ((p * (C α + C β * X)).coeff j)) (C α) (C β) u v n htop
    h0 hs
  unfold hom
  exact h

theorem natDegree_lin_le (α β : ℂ) : (C α + C β * X : ℂ[X]).natDegree ≤ 1 := by
  refine (natDegree_add_le _ _).trans ?_
  rw [natDegree_C]
  exact max_le (by omega) ((natDegree_C_mul_le β X).trans natDegree_X_le)

theorem natDegree_gen_le (α β γ δ : ℂ) (a b : ℕ) : (gen α β γ δ a b).natDegree ≤ a + b := by
  unfold gen
  refine natDegree_mul_le.trans (add_le_add ?_ ?_)
  · exact (natDegree_pow_le).trans (by simpa using Nat.mul_le_mul_left a (natDegree_lin_le α β))
  · exact (natDegree_pow_le).trans (by simpa using Nat.mul_le_mul_left b (natDegree_lin_le γ δ))

theorem coeff_gen_eq_zero (α β γ δ : ℂ) (a b k : ℕ) (h : a + b < k) : (gen α β γ δ a b).coeff k = 0 :=
  coeff_eq_zero_of_natDegree_lt ((natDegree_gen_le α β γ δ a b).trans_lt h)

/-- Σ_j [t^j]((α+βt)^a (γ+δt)^b) u^{a+b−j} v^j = (α u + β v)^a (γ u + δ v)^b -/
theorem hom_gen (α β γ δ : ℂ) (u v : ℂ[X]) (a b : ℕ) :
    hom (a + b) (gen α β γ δ a b) u v = (C α * u + C β * v) ^ a * (C γ * u + C δ * v) ^ b := by
  induction a with
  | zero =>
    induction b with
    | zero => simp [hom, gen]
    | succ b ih =>
      have e : gen α β γ δ 0 (b + 1) = gen α β γ δ 0 b * (C γ + C δ * X) := by unfold gen; ring
      have hd := natDegree_gen_le α β γ δ 0 b
      rw [← add_assoc, e, hom_mul_lin _ _ _ _ _ _ hd, ih]; ring
  | succ a ih =>
    have e : gen α β γ δ (a + 1) b = gen α β γ δ a b * (C α + C β * X) := by unfold gen; ring
    have hd := natDegree_gen_le α β γ δ a b
    rw [show a + 1 + b = (a + b) + 1 by ring, e, hom_mul_lin _ _ _ _ _ _ hd, ih]; ring

/-- functoriality: the coefficients of the product matrix are the matrix product of the coefficients -/
theorem coeff_gen_comp (α₁ β₁ γ₁ δ₁ α₂ β₂ γ₂ δ₂ : ℂ) (a b j : ℕ) :
    (gen (α₁ * α₂ + β₁ * γ₂) (α₁ * β₂ + β₁ * δ₂) (γ₁ * α₂ + δ₁ * γ₂) (γ₁ * β₂ + δ₁ * δ₂) a b).coeff j
      = ∑ k ∈ Finset.range (a + b + 1),
          (gen α₁ β₁ γ₁ δ₁ a b).coeff k * (gen α₂ β₂ γ₂ δ₂ (a + b - k) k).coeff j := by
  have h := hom_gen α₁ β₁ γ₁ δ₁ (C α₂ + C β₂ * X) (C γ₂ + C δ₂ * X) a b
  have e : gen (α₁ * α₂ + β₁ * γ₂) (α₁ * β₂ + β₁ * δ₂) (γ₁ * α₂ + δ₁ * γ₂) (γ₁ * β₂ + δ₁ * δ₂) a b
      = (C α₁ * (C α₂ + C β₂ * X) + C β₁ * (C γ₂ + C δ₂ * X)) ^ a
        * (C γ₁ * (C α₂ + C β₂ * X) + C δ₁ * (C γ₂ + C δ₂ * X)) ^ b := by
    unfold gen
    simp only [C_add, C_mul]
    ring
  rw [e, ← h]
  unfold hom
  rw [finsetSum_coeff]
  apply Finset.sum_congr rfl
  intro k _
  rw [mul_assoc, coeff_C_mul]
  rfl

/-- reversal combined with t ↦ −t: [t^{a+b−j}] (β − α t)^a (δ − γ t)^b = (−1)^{a+b−j} [t^j] (α + β t)^a (γ + δ t)^b -/
theorem coeff_gen_rev_neg (α β γ δ : ℂ) (a b j : ℕ) (hj : j ≤ a + b) :
    (gen β (-α) δ (-γ) a b).coeff (a + b - j) = (-1) ^ (a + b - j) * (gen α β γ δ a b).coeff j := by
  have h := hom_gen α β γ δ (C (-1) * X) 1 a b
  have e : gen β (-α) δ (-γ) a b = (C α * (C (-1) * X) + C β * 1) ^ a * (C γ * (C (-1) * X) + C δ * 1) ^ b := by
    unfold gen
    simp only [C_neg, C_1]
    ring
  rw [e, ← h]
  unfold hom
  rw [finsetSum_coeff, Finset.sum_eq_single j]
  · rw [one_pow, mul_one, mul_pow, ← C_pow, ← mul_assoc, ← C_mul, coeff_C_mul_X_pow, if_pos rfl]; ring
  · intro k hk hkj
    rw [Finset.mem_range] at hk
    rw [one_pow, mul_one, mul_pow, ← C_pow, ← mul_assoc, ← C_mul, coeff_C_mul_X_pow, if_neg (by omega)]
  · intro hn
    exact absurd (Finset.mem_range.2 (by omega)) hn

/-- conjugating every coefficient -/
theorem gen_map_conj (α β γ δ : ℂ) (a b : ℕ) :
    (gen α β γ δ a b).map (starRingEnd ℂ)
      = gen (starRingEnd ℂ α) (starRingEnd ℂ β) (starRingEnd ℂ γ) (starRingEnd ℂ δ) a b := by
  unfold gen
  simp only [Polynomial.map_mul, Polynomial.map_pow, Polynomial.map_add, map_C, map_X]

theorem conj_coeff_gen (α β γ δ : ℂ) (a b j : ℕ) :
    starRingEnd ℂ ((gen α β γ δ a b).coeff j)
      = (gen (starRingEnd ℂ α) (starRingEnd ℂ β) (starRingEnd ℂ γ) (starRingEnd ℂ δ) a b).coeff j := by
  rw [← gen_map_conj, coeff_map]

/-- the two factors may be exchanged -/
theorem gen_swap (α β γ δ : ℂ) (a b : ℕ) : gen α β γ δ a b = gen γ δ α β b a := by
  unfold gen; ring

/-- changing the sign of both rows: total degree a + b -/
theorem gen_neg (α β γ δ : ℂ) (a b : ℕ) : gen (-α) (-β) (-γ) (-δ) a b = C ((-1) ^ (a + b)) * gen α β γ δ a b := by
  unfold gen
  have e1 : (C (-α) + C (-β) * X : ℂ[X]) = C (-1) * (C α + C β * X) := by simp only [C_neg, C_1]; ring
  have e2 : (C (-γ) + C (-δ) * X : ℂ[X]) = C (-1) * (C γ + C δ * X) := by simp only [C_neg, C_1]; ring
  rw [e1, e2, mul_pow, mul_pow, pow_add, C_mul, C_pow, C_pow]; ring

/-- changing the sign of the second row only -/
theorem gen_neg_snd (α β γ δ : ℂ) (a b : ℕ) : gen α β (-γ) (-δ) a b = C ((-1) ^ b) * gen α β γ δ a b := by
  unfold gen
  have e2 : (C (-γ) + C (-δ) * X : ℂ[X]) = C (-1) * (C γ + C δ * X) := by simp only [C_neg, C_1]; ring
  rw [e2, mul_pow, C_pow]; ring

/-- a diagonal matrix acts diagonally -/
theorem coeff_gen_diag (α δ : ℂ) (a b j : ℕ) :
    (gen α 0 0 δ a b).coeff j = if j = b then α ^ a * δ ^ b else 0 := by
  unfold gen
  rw [C_0, zero_mul, add_zero, zero_add, mul_pow, ← C_pow, ← C_pow, ← mul_assoc, ← C_mul, coeff_C_mul_X_pow]

/-! ### the explicit sum, and the transposition symmetry -/

/-- binomial theorem for a linear polynomial, coefficientwise -/
theorem coeff_lin_pow (α β : ℂ) : ∀ n k : ℕ, ((C α + C β * X) ^ n).coeff k = (n.choose k : ℂ) * α ^ (n - k) * β ^ k
  | 0, 0 => by simp
  | 0, k + 1 => by simp [coeff_one]
  | n + 1, 0 => by
    rw [pow_succ, coeff_mul_lin_zero, coeff_lin_pow α β n 0]
    simp; ring
  | n + 1, k + 1 => by
    rw [pow_succ, coeff_mul_lin_succ, coeff_lin_pow α β n (k + 1), coeff_lin_pow α β n k, Nat.choose_succ_succ,
      Nat.succ_sub_succ]
    push_cast
    by_cases h : k + 1 ≤ n
    · have e : n - k = (n - (k + 1)) + 1 := by omega
      rw [e]; ring
    · have : n.choose (k + 1) = 0 := Nat.choose_eq_zero_of_lt (by omega)
      rw [this]; push_cast; ring

/-- [t^j] (α+βt)^a (γ+δt)^b as a sum over the power q of δ -/
theorem coeff_gen_sum (α β γ δ : ℂ) (a b j : ℕ) :
    (gen α β γ δ a b).coeff j = ∑ q ∈ Finset.range (j + 1),
      ((b.choose q : ℂ) * γ ^ (b - q) * δ ^ q) * ((a.choose (j - q) : ℂ) * α ^ (a - (j - q)) * β ^ (j - q)) := by
  unfold gen
  rw [mul_comm, coeff_mul, Finset.Nat.sum_antidiagonal_eq_sum_range_succ_mk]
  apply Finset.sum_congr rfl
  intro q _
  rw [coeff_lin_pow, coeff_lin_pow]

/-- restricting the sum to q ≤ min j b -/
theorem coeff_gen_sum_min (α β γ δ : ℂ) (a b j : ℕ) :
    (gen α β γ δ a b).coeff j = ∑ q ∈ Finset.range (min j b + 1),
      ((b.choose q : ℂ) * γ ^ (b - q) * δ ^ q) * ((a.choose (j - q) : ℂ) * α ^ (a - (j - q)) * β ^ (j - q)) := by
  rw [coeff_gen_sum]
  symm
  apply Finset.sum_subset
  · intro q hq
    rw [Finset.mem_range] at hq ⊢
    omega
  · intro q hq hq'
    rw [Finset.mem_range] at hq hq'
    have : b.choose q = 0 := Nat.choose_eq_zero_of_lt (by omega)
    rw [this]; push_cast; ring

/-- the factorial identity behind the transposition symmetry: with p + q = j, q + r = b, p ≤ a, i = a + b − j -/
theorem choose_transpose (a p q r : ℕ) (hp : p ≤ a) :
    ((a - p + r) ! * (p + q) ! : ℂ) * (((q + r).choose q : ℂ) * (a.choose p : ℂ))
      = (a ! * (q + r) ! : ℂ) * (((p + q).choose q : ℂ) * ((a - p + r).choose r : ℂ)) := by
  rw [Nat.cast_choose ℂ hp, Nat.cast_choose ℂ (Nat.le_add_left q p), Nat.cast_choose ℂ (Nat.le_add_right q r),
    Nat.cast_choose ℂ (Nat.le_add_left r (a - p)), Nat.add_sub_cancel, Nat.add_sub_cancel_left, Nat.add_sub_cancel]
  have h1 : ((a - p) ! : ℂ) ≠ 0 := Nat.cast_ne_zero.2 (Nat.factorial_ne_zero _)
  have h2 : (p ! : ℂ) ≠ 0 := Nat.cast_ne_zero.2 (Nat.factorial_ne_zero _)
  have h3 : (q ! : ℂ) ≠ 0 := Nat.cast_ne_zero.2 (Nat.factorial_ne_zero _)
  have h4 : (r ! : ℂ) ≠ 0 := Nat.cast_ne_zero.2 (Nat.factorial_ne_zero _)
  field_simp

/-- transposition: i! j! [t^j] (α+βt)^a (γ+δt)^b = a! b! [t^b] (α+γt)^i (β+δt)^j whenever a + b = i + j -/
theorem coeff_gen_transpose (α β γ δ : ℂ) (a b i j : ℕ) (h : a + b = i + j) :
    (i ! * j ! : ℂ) * (gen α β γ δ a b).coeff j = (a ! * b ! : ℂ) * (gen α γ β δ i j).coeff b := by
  rw [coeff_gen_sum_min α β γ δ a b j, coeff_gen_sum_min α γ β δ i j b, min_comm b j, Finset.mul_sum,
    Finset.mul_sum]
  apply Finset.sum_congr rfl
  intro q hq
  rw [Finset.mem_range] at hq
  have hqj : q ≤ j := by omega
  have hqb : q ≤ b := by omega
  by_cases hp : j - q ≤ a
  · obtain ⟨p, rfl⟩ : ∃ p, j = p + q := ⟨j - q, by omega⟩
    obtain ⟨r, rfl⟩ : ∃ r, b = q + r := ⟨b - q, by omega⟩
    have hi : i = a - p + r := by omega
    subst hi
    have hp' : p ≤ a := by omega
    have key := choose_transpose a p q r hp'
    have x1 : p + q - q = p := by omega
    have x2 : q + r - q = r := by omega
    have x3 : a - p + r - r = a - p := by omega
    rw [x1, x2, x3]
    linear_combination (γ ^ r * δ ^ q * α ^ (a - p) * β ^ p) * key
  · have z1 : a.choose (j - q) = 0 := Nat.choose_eq_zero_of_lt (by omega)
    have z2 : i.choose (b - q) = 0 := Nat.choose_eq_zero_of_lt (by omega)
    rw [z1, z2]; push_cast; ring

end DocHom
end
