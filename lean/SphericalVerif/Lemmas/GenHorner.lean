import SphericalVerif.Gen.HornerKern
import SphericalVerif.Props.IndexWalk
import SphericalVerif.Lemmas.GenFill
import SphericalVerif.Lemmas.GenH
import Mathlib.Tactic.Ring
import Mathlib.Tactic.Positivity
import Mathlib.Tactic.Linarith
set_option linter.unusedSectionVars false
/-! The generated `_evaluate_Horner` (`Gen/HornerKern.lean`, translated from the Python text on every run) computes
    `Model.evaluateHornerK`: the two index-walking Horner loops of the text are the single coordinate loop of the model
    (`loops_eq`, on top of `Lemmas.walk_hindex`), per degree (`genEll_eq_evalEll`), and the accumulation through the
    output cell is the model's fold (`evalH_row`).  For every spin, size and arithmetic. -/
namespace GenHorner
open Gen Model Spec Model.Flat Scalar

section
variable {α : Type} [Scalar α] {μ : Type} [Mem μ α]

/-- the loop body of `Model.evalEll` (one step of the Horner accumulation, loop variable `m = ell-1-k`) -/
def mBody (st : μ) (f : Array (Cx α)) (za : Cx α) (s : Int) (ell : Nat) (k : Nat) (p : Cx α × Cx α × Int) : Cx α × Cx α × Int :=
  let m : Int := (ell : Int) - 1 - k
  let e := p.2.2 * (-1)
  (Cx.add (Cx.mul p.1 (Cx.conj za)) (Cx.mulr (fAt f ell (-m)) (Hat (α := α) st ell (-m) (-s))),
   Cx.add (Cx.mul p.2.1 za) (Cx.mulr (Cx.mul (Cx.ofRe (ofInt e)) (fAt f ell m)) (Hat (α := α) st ell m (-s))), e)

theorem evalEll_eq (st : μ) (f : Array (Cx α)) (za : Cx α) (s : Int) (ell : Nat) (h : ell ≠ 0) :
    evalEll (α := α) st f za s ell =
      (let r := loopN (ell - 1) (mBody st f za s ell)
        (Cx.mulr (fAt f ell (-(ell : Int))) (Hat (α := α) st ell (-(ell : Int)) (-s)),
         Cx.mulr (Cx.mul (Cx.ofRe (ofInt ((-1 : Int) ^ ell))) (fAt f ell ell)) (Hat (α := α) st ell ell (-s)), (-1 : Int) ^ ell)
       Cx.add (Cx.add (Cx.mulr (fAt f ell 0) (Hat (α := α) st ell 0 (-s))) (Cx.mul r.1 (Cx.conj za))) (Cx.mul r.2.1 za)) := by
  unfold evalEll
  simp only [h, if_false]
  rfl

/-! ### the generated loops, named -/

abbrev G5 (α : Type) := Int × Int × Int × Cx α × Cx α

/-- one iteration of the first Horner loop of the generated `_evaluate_Horner` (`for m in range(ell-1, i0, -1)`) -/
def stepA (mw : Int → Cx α) (Hw : Int → α) (za zab : Cx α) (row ifl ell : Int) (k3 : Nat) (p3 : G5 α) : G5 α :=
  let m : Int := (ell - 1) - (k3 : Int)
  let i_Hn : Int := p3.1 - 1
  let i_Hp : Int := p3.2.1 - 1
  let e : Int := p3.2.2.1 * (-1)
  (i_Hn, i_Hp, e,
   Cx.add (Cx.mul p3.2.2.2.1 zab) (Cx.mulr (mw (row + (ifl - m))) (Hw i_Hn)),
   Cx.add (Cx.mul p3.2.2.2.2 za) (Cx.mulr (Cx.mul (Cx.ofRe (ofInt e)) (mw (row + (ifl + m)))) (Hw i_Hp)))

/-- one iteration of the second loop (`for m in range(i0, 0, -1)`), in the textual copy selected by `up = (-s ≥ 0)` -/
def stepB (mw : Int → Cx α) (Hw : Int → α) (za zab : Cx α) (row ifl ell i0 : Int) (up : Bool) (k : Nat) (p : G5 α) : G5 α :=
  let m : Int := i0 - (k : Int)
  let i_Hn : Int := if up then p.1 + ((ell - m) + 1) else p.1 - (ell - m)
  let i_Hp : Int := if up then p.2.1 - (ell - m) else p.2.1 + ((ell - m) + 1)
  let e : Int := p.2.2.1 * (-1)
  (i_Hn, i_Hp, e,
   Cx.add (Cx.mul p.2.2.2.1 zab) (Cx.mulr (mw (row + (ifl - m))) (Hw i_Hn)),
   Cx.add (Cx.mul p.2.2.2.2 za) (Cx.mulr (Cx.mul (Cx.ofRe (ofInt e)) (mw (row + (ifl + m)))) (Hw i_Hp)))

theorem loopA_succ (st : St) (k : Nat) : loopA st (k + 1) = ((loopA st k).1 - 1, (loopA st k).2 - 1) := rfl
theorem loopB_succ (ell : Int) (up : Bool) (mTop : Int) (st : St) (j : Nat) :
    loopB ell up mTop st (j + 1) =
      (if up then ((loopB ell up mTop st j).1 + (ell - (mTop - (j : Int)) + 1), (loopB ell up mTop st j).2 - (ell - (mTop - (j : Int))))
       else ((loopB ell up mTop st j).1 - (ell - (mTop - (j : Int))), (loopB ell up mTop st j).2 + (ell - (mTop - (j : Int)) + 1))) := rfl

/-- **the two generated Horner loops compute the model's single loop.**  `n = ell ≥ max(|s|, 1)`; the weights are read at
    `row + (n(n+1) ± m)`, the wedge at the walked indices. -/
theorem loops_eq (stM : μ) (farr : Array (Cx α)) (mw : Int → Cx α) (Hw : Int → α) (za : Cx α) (sw P : Int) (row : Int) (n : Nat)
    (hn : 1 ≤ n) (hsn : (sw.natAbs : Int) ≤ n) (hsP : (sw.natAbs : Int) ≤ P)
    (hmw : ∀ m : Int, -(n : Int) ≤ m → m ≤ n → mw (row + ((n : Int) * ((n : Int) + 1) + m)) = fAt farr n m)
    (hHw : ∀ a : Int, -(n : Int) ≤ a → a ≤ n → Hw (WignerHindex (n : Int) a (-sw) (some P)) = Hat (α := α) stM n a (-sw)) :
    let i0 : Int := max 0 ((sw.natAbs : Int) - 1)
    let ifl : Int := (n : Int) * ((n : Int) + 1)
    let init : G5 α := (u_WignerHindex n sw n P, u_WignerHindex n (-sw) n P, (-1 : Int) ^ n,
      Cx.mulr (mw (row + (ifl - n))) (Hw (u_WignerHindex n sw n P)),
      Cx.mulr (Cx.mul (Cx.ofRe (ofInt ((-1 : Int) ^ n))) (mw (row + (ifl + n)))) (Hw (u_WignerHindex n (-sw) n P)))
    let r := loopN i0.toNat (stepB mw Hw za (Cx.conj za) row ifl n i0 (decide (-sw ≥ 0)))
      (loopN (((n : Int) - 1) - i0).toNat (stepA mw Hw za (Cx.conj za) row ifl n) init)
    let rm := loopN (n - 1) (mBody stM farr za sw n)
        (Cx.mulr (fAt farr n (-(n : Int))) (Hat (α := α) stM n (-(n : Int)) (-sw)),
         Cx.mulr (Cx.mul (Cx.ofRe (ofInt ((-1 : Int) ^ n))) (fAt farr n n)) (Hat (α := α) stM n n (-sw)), (-1 : Int) ^ n)
    r.2.2.2.1 = rm.1 ∧ r.2.2.2.2 = rm.2.1 := by
  intro i0 ifl init r rm
  have hi0 : 0 ≤ i0 := by simp only [i0]; omega
  have hi0n : i0 ≤ (n : Int) - 1 := by simp only [i0]; omega
  -- what the walked indices read
  have hwalk : ∀ m : Int, 1 ≤ m → m ≤ n →
      walk n (u_WignerHindex n sw n P, u_WignerHindex n (-sw) n P) i0 (decide (-sw ≥ 0)) m
        = (WignerHindex n (-m) (-sw) (some P), WignerHindex n m (-sw) (some P)) :=
    fun m h1 h2 => Lemmas.walk_hindex n sw (-sw) (sw.natAbs : Int) P m rfl rfl hsP hsn h1 h2
  have hst0 : WignerHindex n (-(n : Int)) (-sw) (some P) = u_WignerHindex n sw n P
      ∧ WignerHindex n n (-sw) (some P) = u_WignerHindex n (-sw) n P := by
    have := hwalk n (by omega) (le_refl _)
    unfold walk at this
    have c : (n : Int) > i0 := by omega
    simp only [c, if_true, Int.sub_self, Int.toNat_zero, loopA, Prod.mk.injEq] at this
    exact ⟨this.1.symm, this.2.symm⟩
  set st0 : St := (u_WignerHindex n sw n P, u_WignerHindex n (-sw) n P) with hst0d
  set c1 : Nat := (((n : Int) - 1) - i0).toNat with hc1
  -- first loop
  have inv1 : ∀ k : Nat, k ≤ c1 →
      let g := loopN k (stepA mw Hw za (Cx.conj za) row ifl n) init
      let mm := loopN k (mBody stM farr za sw n)
        (Cx.mulr (fAt farr n (-(n : Int))) (Hat (α := α) stM n (-(n : Int)) (-sw)),
         Cx.mulr (Cx.mul (Cx.ofRe (ofInt ((-1 : Int) ^ n))) (fAt farr n n)) (Hat (α := α) stM n n (-sw)), (-1 : Int) ^ n)
      g.1 = (loopA st0 k).1 ∧ g.2.1 = (loopA st0 k).2 ∧ g.2.2.1 = mm.2.2 ∧ g.2.2.2.1 = mm.1 ∧ g.2.2.2.2 = mm.2.1 := by
    intro k
    induction k with
    | zero =>
      intro _
      simp only [loopN, loopA]
      refine ⟨rfl, rfl, rfl, ?_, ?_⟩
      · show Cx.mulr (mw (row + (ifl - n))) (Hw (u_WignerHindex n sw n P)) = _
        rw [← hst0.1, hHw _ (by omega) (by omega), show ifl - (n : Int) = (n : Int) * ((n : Int) + 1) + (-(n : Int)) by simp only [ifl]; omega,
          hmw _ (by omega) (by omega)]
      · show Cx.mulr (Cx.mul (Cx.ofRe (ofInt ((-1 : Int) ^ n))) (mw (row + (ifl + n)))) (Hw (u_WignerHindex n (-sw) n P)) = _
        rw [← hst0.2, hHw _ (by omega) (by omega), hmw _ (by omega) (by omega)]
    | succ k ih =>
      intro hk
      obtain ⟨a1, a2, a3, a4, a5⟩ := ih (by omega)
      simp only [loopN]
      have hm1 : (1 : Int) ≤ (n : Int) - 1 - k := by omega
      have hm2 : (n : Int) - 1 - k ≤ n := by omega
      have hw := hwalk ((n : Int) - 1 - k) hm1 hm2
      unfold walk at hw
      have c : (n : Int) - 1 - k > i0 := by omega
      have e : ((n : Int) - ((n : Int) - 1 - k)).toNat = k + 1 := by omega
      simp only [c, if_true, e, loopA_succ, Prod.mk.injEq] at hw
      generalize loopN k (stepA mw Hw za (Cx.conj za) row ifl n) init = g at a1 a2 a3 a4 a5 ⊢
      generalize loopN k (mBody stM farr za sw n) _ = mm at a3 a4 a5 ⊢
      unfold stepA mBody
      simp only []
      refine ⟨by rw [a1, loopA_succ], by rw [a2, loopA_succ], by rw [a3], ?_, ?_⟩
      · rw [a4, a1, hw.1, hHw _ (by omega) (by omega),
          show ifl - ((n : Int) - 1 - k) = (n : Int) * ((n : Int) + 1) + (-((n : Int) - 1 - k)) by simp only [ifl]; omega,
          hmw _ (by omega) (by omega)]
      · rw [a5, a2, a3, hw.2, hHw _ (by omega) (by omega), hmw _ (by omega) (by omega)]
  -- second loop
  have inv2 : ∀ j : Nat, j ≤ i0.toNat →
      let g := loopN j (stepB mw Hw za (Cx.conj za) row ifl n i0 (decide (-sw ≥ 0))) (loopN c1 (stepA mw Hw za (Cx.conj za) row ifl n) init)
      let mm := loopN (c1 + j) (mBody stM farr za sw n)
        (Cx.mulr (fAt farr n (-(n : Int))) (Hat (α := α) stM n (-(n : Int)) (-sw)),
         Cx.mulr (Cx.mul (Cx.ofRe (ofInt ((-1 : Int) ^ n))) (fAt farr n n)) (Hat (α := α) stM n n (-sw)), (-1 : Int) ^ n)
      g.1 = (loopB n (decide (-sw ≥ 0)) i0 (loopA st0 c1) j).1 ∧ g.2.1 = (loopB n (decide (-sw ≥ 0)) i0 (loopA st0 c1) j).2
        ∧ g.2.2.1 = mm.2.2 ∧ g.2.2.2.1 = mm.1 ∧ g.2.2.2.2 = mm.2.1 := by
    intro j
    induction j with
    | zero =>
      intro _
      simp only [loopN, loopB, Nat.add_zero]
      exact inv1 c1 (le_refl _)
    | succ j ih =>
      intro hj
      obtain ⟨a1, a2, a3, a4, a5⟩ := ih (by omega)
      have e0 : c1 + (j + 1) = (c1 + j) + 1 := by omega
      rw [e0]
      simp only [loopN]
      have hm1 : (1 : Int) ≤ i0 - j := by omega
      have hm2 : i0 - (j : Int) ≤ n := by omega
      have hw := hwalk (i0 - j) hm1 hm2
      unfold walk rangeDownLen at hw
      have c : ¬ (i0 - (j : Int) > i0) := by omega
      have e : (i0 - (i0 - (j : Int)) + 1).toNat = j + 1 := by omega
      simp only [c, if_false, e, ← hc1, loopB_succ] at hw
      have emod : (n : Int) - 1 - ((c1 + j : Nat) : Int) = i0 - j := by push_cast; omega
      generalize loopN j (stepB mw Hw za (Cx.conj za) row ifl n i0 (decide (-sw ≥ 0))) _ = g at a1 a2 a3 a4 a5 ⊢
      generalize loopN (c1 + j) (mBody stM farr za sw n) _ = mm at a3 a4 a5 ⊢
      rw [loopB_succ]
      generalize hB : loopB (↑n) (decide (-sw ≥ 0)) i0 (loopA st0 c1) j = bj at a1 a2 hw ⊢
      unfold stepB mBody
      simp only [emod]
      cases hud : decide (-sw ≥ 0)
      · simp only [hud, Bool.false_eq_true, if_false, Prod.mk.injEq] at hw ⊢
        refine ⟨by rw [a1], by rw [a2], by rw [a3], ?_, ?_⟩
        · rw [a4, a1, hw.1, hHw _ (by omega) (by omega),
            show ifl - (i0 - (j : Int)) = (n : Int) * ((n : Int) + 1) + (-(i0 - (j : Int))) by simp only [ifl]; omega,
            hmw _ (by omega) (by omega)]
        · rw [a5, a2, a3, hw.2, hHw _ (by omega) (by omega), hmw _ (by omega) (by omega)]
      · simp only [hud, if_true, Prod.mk.injEq] at hw ⊢
        refine ⟨by rw [a1], by rw [a2], by rw [a3], ?_, ?_⟩
        · rw [a4, a1, hw.1, hHw _ (by omega) (by omega),
            show ifl - (i0 - (j : Int)) = (n : Int) * ((n : Int) + 1) + (-(i0 - (j : Int))) by simp only [ifl]; omega,
            hmw _ (by omega) (by omega)]
        · rw [a5, a2, a3, hw.2, hHw _ (by omega) (by omega), hmw _ (by omega) (by omega)]
  have hfin := inv2 i0.toNat (le_refl _)
  have etot : c1 + i0.toNat = n - 1 := by omega
  simp only [etot] at hfin
  exact ⟨hfin.2.2.2.1, hfin.2.2.2.2⟩


/-! ### the generated kernel, restated with the named loop bodies (definitionally the same function) -/

variable {φ : Type} [FMem φ α]

/-- the per-`ell` Horner value exactly as the generated text computes it (before the √((2ℓ+1)/4π) factor) -/
def genEll (mw : Int → Cx α) (Hw : Int → α) (za : Cx α) (sw P ell_min_m ncols i_modes ell : Int) : Cx α :=
  let abs_s : Int := ((Int.natAbs sw : Nat) : Int)
  let i0 : Int := max 0 (abs_s - 1)
  let zab : Cx α := Cx.conj za
  let ifl : Int := Yindex ell 0 ell_min_m
  let row : Int := i_modes * ncols
  let f0 : Cx α := Cx.mulr (mw (row + ifl)) (Hw (u_WignerHindex ell 0 abs_s P))
  if ell > 0 then
    let init : G5 α := (u_WignerHindex ell sw ell P, u_WignerHindex ell (-sw) ell P, (-1 : Int) ^ (Int.natAbs ell),
      Cx.mulr (mw (row + (ifl - ell))) (Hw (u_WignerHindex ell sw ell P)),
      Cx.mulr (Cx.mul (Cx.ofRe (ofInt ((-1 : Int) ^ (Int.natAbs ell)))) (mw (row + (ifl + ell)))) (Hw (u_WignerHindex ell (-sw) ell P)))
    let p3 : G5 α := loopN ((ell - 1) - i0).toNat (stepA mw Hw za zab row ifl ell) init
    let q6 : Cx α × Cx α :=
      if -sw ≥ 0 then
        (let p4 : G5 α := loopN (i0 - 0).toNat (stepB mw Hw za zab row ifl ell i0 true) p3
         (p4.2.2.2.1, p4.2.2.2.2))
      else
        (let p5 : G5 α := loopN (i0 - 0).toNat (stepB mw Hw za zab row ifl ell i0 false) p3
         (p5.2.2.2.1, p5.2.2.2.2))
    Cx.add (Cx.add f0 (Cx.mul q6.1 zab)) (Cx.mul q6.2 za)
  else f0

/-- one row of mode weights: zero the output cell, accumulate the degrees, multiply by the coefficient -/
def genRow (mw : Int → Cx α) (fv : Nat) (Hw : Int → α) (za zg : Cx α) (sw P ell_min_m ell_max_m ncols : Int)
    (cpowi : Cx α → Int → Cx α) (i_modes : Int) (st : φ) : φ :=
  let abs_s : Int := ((Int.natAbs sw : Nat) : Int)
  let coefficient : Cx α := Cx.mul (Cx.ofRe (ofInt (((-1 : Int) ^ (Int.natAbs sw)) * (ε sw)))) (cpowi (Cx.conj zg) sw)
  let st : φ := fwrC (α := α) st fv i_modes (Cx.ofRe (ofInt (0 : Int)))
  let st : φ := loopN ((ell_max_m + 1) - (max abs_s ell_min_m)).toNat (fun k2 (st : φ) =>
    let ell : Int := (max abs_s ell_min_m) + (k2 : Int)
    let f_ell : Cx α := Cx.mulr (genEll mw Hw za sw P ell_min_m ncols i_modes ell) (sqrt (ofInt (2 * ell + 1) *. (inv4pi : α)))
    fwrC (α := α) st fv i_modes (Cx.add (frdC (α := α) st fv i_modes) f_ell)) st
  fwrC (α := α) st fv i_modes (Cx.mul (frdC (α := α) st fv i_modes) coefficient)

theorem gen_eq_rows (mw : Int → Cx α) (fv : Nat) (emw eMw P ell_min_m ell_max_m sw : Int) (Hw : Int → α) (za zg : Cx α)
    (nrows ncols : Int) (cpowi : Cx α → Int → Cx α) (st : φ) :
    Gen.u_evaluate_Horner (α := α) mw fv emw eMw P ell_min_m ell_max_m sw Hw za zg nrows ncols cpowi st
      = loopN (nrows - 0).toNat (fun k1 (st : φ) => genRow mw fv Hw za zg sw P ell_min_m ell_max_m ncols cpowi (0 + (k1 : Int)) st) st := rfl


theorem yindex0 (n : Int) (h : 0 ≤ n) : Yindex n 0 0 = n * (n + 1) := by
  unfold Yindex
  split_ifs with c
  · ring
  · have : n = 0 := by omega
    subst this; rfl

variable [LawfulFMem φ α]

/-- per degree: the generated text computes `Model.evalEll` (row `i` of the 2-d weight array holds the weights `farr`) -/
theorem genEll_eq_evalEll (stM : μ) (farr : Array (Cx α)) (mw : Int → Cx α) (Hw : Int → α) (za : Cx α) (sw P ncols i : Int) (n : Nat)
    (hrow : ∀ j : Int, 0 ≤ j → mw (i * ncols + j) = cget farr j.toNat)
    (hsn : (sw.natAbs : Int) ≤ n) (hsP : (sw.natAbs : Int) ≤ P)
    (hHw : ∀ a : Int, -(n : Int) ≤ a → a ≤ n → Hw (WignerHindex (n : Int) a (-sw) (some P)) = Hat (α := α) stM n a (-sw)) :
    genEll mw Hw za sw P 0 ncols i (n : Int) = evalEll (α := α) stM farr za sw n := by
  have hnn : (0 : Int) ≤ (n : Int) * ((n : Int) + 1) := by positivity
  have hmw : ∀ m : Int, -(n : Int) ≤ m → m ≤ n → mw (i * ncols + ((n : Int) * ((n : Int) + 1) + m)) = fAt farr n m := by
    intro m h1 h2
    rw [hrow _ (by nlinarith)]; rfl
  have hz : u_WignerHindex (n : Int) 0 ((sw.natAbs : Nat) : Int) P = WignerHindex (n : Int) 0 (-sw) (some P) := by
    have e : ((sw.natAbs : Nat) : Int) = (((-sw).natAbs : Nat) : Int) := by omega
    rw [e]; exact Lemmas.zero_hindex n (-sw) P (by omega) (by omega) (by omega)
  have f0e : Cx.mulr (mw (i * ncols + (n : Int) * ((n : Int) + 1))) (Hw (u_WignerHindex (n : Int) 0 ((sw.natAbs : Nat) : Int) P))
      = Cx.mulr (fAt farr n 0) (Hat (α := α) stM n 0 (-sw)) := by
    rw [hz, hHw _ (by omega) (by omega)]
    have := hmw 0 (by omega) (by omega)
    simp only [Int.add_zero] at this
    rw [this]
  unfold genEll
  simp only [yindex0 (n : Int) (by omega), Int.natAbs_natCast, Int.sub_zero]
  by_cases h0 : n = 0
  · subst h0
    have c : ¬ (((0 : Nat) : Int) > 0) := by omega
    rw [if_neg c]
    unfold evalEll
    simp only [if_true]
    exact f0e
  · have c : (n : Int) > 0 := by omega
    rw [if_pos c, evalEll_eq stM farr za sw n h0]
    have key := loops_eq stM farr mw Hw za sw P (i * ncols) n (by omega) hsn hsP hmw hHw
    simp only [] at key
    by_cases hup : -sw ≥ 0
    · have hd : decide (-sw ≥ 0) = true := by simpa using hup
      rw [hd] at key
      simp only [hup, if_true]
      rw [f0e, key.1, key.2]
    · have hd : decide (-sw ≥ 0) = false := by simpa using hup
      rw [hd] at key
      simp only [hup, if_false]
      rw [f0e, key.1, key.2]

/-- one row: afterwards its output cell holds `Model.evaluateHornerK` … -/
theorem genRow_value (stM : μ) (farr : Array (Cx α)) (mw : Int → Cx α) (fv : Nat) (P : Int) (ellMax : Nat) (sw : Int) (Hw : Int → α)
    (za zg : Cx α) (ncols : Int) (cpowi : Cx α → Int → Cx α) (i : Int) (st : φ) (hsP : (sw.natAbs : Int) ≤ P)
    (hrow : ∀ j : Int, 0 ≤ j → mw (i * ncols + j) = cget farr j.toNat)
    (hHw : ∀ (ell : Nat) (a : Int), sw.natAbs ≤ ell → ell ≤ ellMax → -(ell : Int) ≤ a → a ≤ ell →
        Hw (WignerHindex (ell : Int) a (-sw) (some P)) = Hat (α := α) stM ell a (-sw)) :
    frdC (α := α) (genRow mw fv Hw za zg sw P 0 (ellMax : Int) ncols cpowi i st) fv i
      = evaluateHornerK (α := α) stM farr za (cpowi (Cx.conj zg) sw) sw ellMax (frdC (α := α) st fv i) := by
  unfold genRow evaluateHornerK evaluateHorner
  rw [GenFill.frdC_fwrC_same]
  congr 1
  have ec : (((ellMax : Int) + 1) - max ((sw.natAbs : Nat) : Int) 0).toNat = ellMax + 1 - sw.natAbs := by omega
  rw [ec]
  refine GenH.loopN_sim (fun (s : φ) (acc : Cx α) => frdC (α := α) s fv i = acc) _ _ _ _ _ ?_ ?_
  · rw [GenFill.frdC_fwrC_same]; rfl
  · intro k s acc hk hR
    simp only []
    rw [GenFill.frdC_fwrC_same, hR]
    have ek : max ((sw.natAbs : Nat) : Int) 0 + (k : Int) = ((sw.natAbs + k : Nat) : Int) := by omega
    rw [ek, genEll_eq_evalEll stM farr mw Hw za sw P ncols i (sw.natAbs + k) hrow (by omega) hsP
      (fun a h1 h2 => hHw (sw.natAbs + k) a (by omega) (by omega) h1 h2)]

/-- … and no other output cell has moved -/
theorem genRow_other (mw : Int → Cx α) (fv : Nat) (P : Int) (eM : Int) (sw : Int) (Hw : Int → α)
    (za zg : Cx α) (ncols : Int) (cpowi : Cx α → Int → Cx α) (i r : Int) (st : φ) (h : r ≠ i) :
    frdC (α := α) (genRow mw fv Hw za zg sw P 0 eM ncols cpowi i st) fv r = frdC (α := α) st fv r := by
  unfold genRow
  simp only []
  rw [GenFill.frdC_fwrC_other _ _ _ _ _ h]
  refine (GenFill.loopN_pres (fun s => frdC (α := α) s fv r = frdC (α := α) st fv r) _ _ _ ?_ ?_)
  · rw [GenFill.frdC_fwrC_other _ _ _ _ _ h]
  · intro k s _ hT
    rw [GenFill.frdC_fwrC_other _ _ _ _ _ h]; exact hT

/-- **`_evaluate_Horner` from the Python text, any number of rows of mode weights** (each stored from ℓ = 0), one rotor:
    the output cell of row `r` holds `Model.evaluateHornerK` of that row's weights — the vectorised call is the per-row call. -/
theorem evalH_rows (stM : μ) (farrs : Nat → Array (Cx α)) (mw : Int → Cx α) (fv : Nat) (emw eMw P : Int) (ellMax : Nat) (sw : Int)
    (Hw : Int → α) (za zg : Cx α) (N : Nat) (ncols : Int) (cpowi : Cx α → Int → Cx α) (st : φ) (hsP : (sw.natAbs : Int) ≤ P)
    (hrows : ∀ (r : Nat) (j : Int), r < N → 0 ≤ j → mw ((r : Int) * ncols + j) = cget (farrs r) j.toNat)
    (hHw : ∀ (ell : Nat) (a : Int), sw.natAbs ≤ ell → ell ≤ ellMax → -(ell : Int) ≤ a → a ≤ ell →
        Hw (WignerHindex (ell : Int) a (-sw) (some P)) = Hat (α := α) stM ell a (-sw))
    (r : Nat) (hr : r < N) :
    ∃ prev : Cx α, frdC (α := α) (Gen.u_evaluate_Horner (α := α) mw fv emw eMw P 0 (ellMax : Int) sw Hw za zg (N : Int) ncols cpowi st) fv (r : Int)
      = evaluateHornerK (α := α) stM (farrs r) za (cpowi (Cx.conj zg) sw) sw ellMax prev := by
  rw [gen_eq_rows]
  have e1 : (((N : Int)) - 0).toNat = N := by omega
  rw [e1]
  refine GenFill.loopN_target (fun s => ∃ prev : Cx α, frdC (α := α) s fv (r : Int)
      = evaluateHornerK (α := α) stM (farrs r) za (cpowi (Cx.conj zg) sw) sw ellMax prev) N r _ st hr ?_ ?_
  · intro s
    simp only [Int.zero_add]
    exact ⟨_, genRow_value stM (farrs r) mw fv P ellMax sw Hw za zg ncols cpowi (r : Int) s hsP (fun j hj => hrows r j hr hj) hHw⟩
  · intro k s hk hne ⟨prev, hT⟩
    simp only [Int.zero_add]
    exact ⟨prev, by rw [genRow_other _ _ _ _ _ _ _ _ _ _ _ _ _ (by omega)]; exact hT⟩

/-- the one-row form used by `Props/GenHorner` -/
theorem evalH_row (stM : μ) (farr : Array (Cx α)) (fv : Nat) (emw eMw P : Int) (ellMax : Nat) (sw : Int) (Hw : Int → α)
    (za zg : Cx α) (ncols : Int) (cpowi : Cx α → Int → Cx α) (st : φ) (hsP : (sw.natAbs : Int) ≤ P)
    (hHw : ∀ (ell : Nat) (a : Int), sw.natAbs ≤ ell → ell ≤ ellMax → -(ell : Int) ≤ a → a ≤ ell →
        Hw (WignerHindex (ell : Int) a (-sw) (some P)) = Hat (α := α) stM ell a (-sw)) :
    frdC (α := α) (Gen.u_evaluate_Horner (α := α) (fun i => cget farr i.toNat) fv emw eMw P 0 (ellMax : Int) sw Hw za zg 1 ncols cpowi st) fv 0
      = evaluateHornerK (α := α) stM farr za (cpowi (Cx.conj zg) sw) sw ellMax (frdC (α := α) st fv 0) := by
  rw [gen_eq_rows]
  have e1 : ((1 : Int) - 0).toNat = 1 := rfl
  rw [e1]
  simp only [loopN, Nat.cast_zero, Int.add_zero]
  exact genRow_value stM farr _ fv P ellMax sw Hw za zg ncols cpowi 0 st hsP (fun j _ => by simp only [Int.zero_mul, Int.zero_add]) hHw
end
end GenHorner
