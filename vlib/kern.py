"""Bit-for-bit correspondence of the Lean models (Model/HKernels, Model/Assemble, Model/W3j run at Float by the
compiled driver) with the numba kernels of /repo.  Each function takes a Run and a list of cases, queues driver
lines, compares, records cases and correspondence breaks, and returns the list of mismatching cases."""
import numpy as np

from . import corr
from .corr import fbits, arr_bits, parse_bits, first_diff, tofloat

_helpers = {}


def helpers():
    """tiny numba helpers written by the harness (not repo code) for library operations the model takes as parameters"""
    if not _helpers:
        import numba as nb

        @nb.njit
        def imsqrt(z):
            return np.sqrt(z).imag

        @nb.njit
        def cpowi(z, k):
            return z ** k
        _helpers.update(imsqrt=imsqrt, cpowi=cpowi)
    return _helpers


class Batch:
    def __init__(self, run, kind):
        self.run, self.kind = run, kind
        self.lines, self.expect, self.meta = [], [], []

    def add(self, line, expect_tokens, meta, stratum=None):
        self.lines.append(line)
        self.expect.append(expect_tokens)
        self.meta.append((meta, stratum))

    def flush(self, split="|"):
        if not self.lines:
            return []
        out = self.run.driver(self.lines)
        bad = []
        if out is None:
            self.run.corr_break(f"corr:{self.kind}", "driver failed")
            return [m for m, _ in self.meta]
        for line, o, e, (meta, stratum) in zip(self.lines, out, self.expect, self.meta):
            toks = [t for part in o.split(split) for t in parse_bits(part)] if o not in ("raised", "bad-op") else [o]
            ok = toks == e
            self.run.corr_case(self.kind, line[:400], stratum, {"op": line[:160], "n_values": len(e)} if ok else None)
            if not ok:
                i = first_diff(toks, e)
                bad.append(meta)
                if len(bad) <= 3:
                    self.run.corr_break(f"corr:{self.kind}", {"case": meta, "first_diff_at": i,
                                                              "model": toks[i] if i is not None and i < len(toks) else None,
                                                              "impl": e[i] if i is not None and i < len(e) else None})
        self.lines, self.expect, self.meta = [], [], []
        return bad


def prep_rotors(run, rotors):
    """euler phases + quadrant-rotated phases from the model, compared with the implementation's to_euler_phases.
    returns dict R -> dict(z, za_rot, zg_rot)"""
    from spherical import wigner as W
    lines = [f"prep {' '.join(fbits(x) for x in R)}" for _, R in rotors]
    out = run.driver(lines)
    gout = run.driver([f"geneuler {' '.join(fbits(x) for x in R)}" for _, R in rotors])
    res = {}
    if out is None:
        run.corr_break("corr:euler", "driver failed")
        return res
    for (lab, R), o in zip(rotors, out):
        z = np.zeros(3, dtype=complex)
        W.to_euler_phases(np.array(R, dtype=float), z)
        t = parse_bits(o)
        ok = t[:6] == arr_bits(z)
        run.corr_case("euler-phases", R, lab, {"R": R, "z": [complex(c) for c in z]} if ok else None)
        if not ok:
            run.corr_break("corr:euler", {"R": R, "model": t[:6], "impl": arr_bits(z)})
        res[R] = {"z": z, "za_rot": complex(tofloat(t[6]), tofloat(t[7])), "zg_rot": complex(tofloat(t[8]), tofloat(t[9])), "ok": ok}
    if gout is None:
        run.corr_break("corr:euler-generated", "driver failed")
    else:
        for (lab, R), o in zip(rotors, gout):
            z = res[R]["z"]
            okg = parse_bits(o) == arr_bits(z)
            run.corr_case("euler-phases-generated-kernel", R, lab, {"R": R, "model": "generated"} if okg else None)
            if not okg:
                run.corr_break("corr:euler-generated", {"R": R, "generated": parse_bits(o), "impl": arr_bits(z)})
    return res


def corr_H(run, configs, betas, poisons):
    """configs: [(L, P)], betas: [(label, complex)], poisons: floats"""
    import spherical
    b = Batch(run, "H-recursion")
    b2 = Batch(run, "H-recursion-generated-kernels")   # Gen/HKern.lean: translated from the kernels' Python text on this run
    for ic, (L, P) in enumerate(configs):
        # the calculator's ell_min must not change what the recursion computes (all rows from 0 are filled and used by the Horner routes)
        emin = [0, min(2, L), L, min(1, L)][ic % 4]
        w = spherical.Wigner(L, emin, mp_max=P)
        for lab, z in betas:
            for poison in poisons:
                ws = w.new_workspace()
                ws[:] = poison
                Hw, Hv, Hx, _, _, _ = w._split_workspace(ws)
                w.H(complex(z), Hw, Hv, Hx)
                b.add(f"H {L} {w.mp_max} {fbits(z.real)} {fbits(z.imag)} {fbits(poison)}",
                      arr_bits(Hw) + arr_bits(Hv) + arr_bits(Hx), {"L": L, "P": P, "ell_min": emin, "expibeta": [z.real, z.imag], "poison": repr(poison), "stratum": lab}, lab)
                b2.add(f"genH {L} {w.mp_max} {fbits(z.real)} {fbits(z.imag)} {fbits(poison)}",
                       arr_bits(Hw) + arr_bits(Hv) + arr_bits(Hx), {"L": L, "P": P, "ell_min": emin, "expibeta": [z.real, z.imag], "poison": repr(poison), "stratum": lab, "model": "generated"}, lab)
    return b.flush() + b2.flush()


def corr_tables(run, Ls):
    import spherical
    b = Batch(run, "coefficient-tables")
    for L in Ls:
        w = spherical.Wigner(L)
        e = []
        for arr in (w._a, w._b, w._d, w._g, w._h):
            e += arr_bits(arr)
        b.add(f"tables {L}", e, {"L": L})
        b.add(f"gentables {L}", e, {"L": L, "model": "generated"})
    return b.flush()


def corr_cpow(run, zs, Ms):
    """zs: [(label, complex)] unit complex numbers"""
    from spherical.recursions.complex_powers import _complex_powers
    h = helpers()
    lines = [f"quad {fbits(z.real)} {fbits(z.imag)}" for _, z in zs]
    out = run.driver(lines)
    if out is None:
        run.corr_break("corr:cpow", "driver failed")
        return []
    b = Batch(run, "complex-powers")
    b2 = Batch(run, "complex-powers-generated-kernel")
    for (lab, z), o in zip(zs, out):
        t = parse_bits(o)
        zr = complex(tofloat(t[2]), tofloat(t[3]))
        for M in Ms:
            zp = np.zeros((1, M + 1), dtype=complex)
            _complex_powers(np.array([z], dtype=complex), M, zp)
            b.add(f"cpow {M} {fbits(z.real)} {fbits(z.imag)} {fbits(h['imsqrt'](zr))}", arr_bits(zp), {"z": [z.real, z.imag], "M": M, "stratum": lab}, lab)
            b2.add(f"gencpow {M} {fbits(z.real)} {fbits(z.imag)} {fbits(h['imsqrt'](zr))}", arr_bits(zp), {"z": [z.real, z.imag], "M": M, "stratum": lab, "model": "generated"}, lab)
    return b.flush() + b2.flush()


def corr_d(run, configs, betas, poison=0.0):
    import spherical
    b = Batch(run, "fill-d")
    b2 = Batch(run, "fill-d-generated-kernels")
    for (L, ellmin) in configs:
        w = spherical.Wigner(L, ellmin)
        for lab, z in betas:
            ws = w.new_workspace()
            ws[:] = poison
            d = w.d(complex(z), workspace=ws)
            b.add(f"dfull {L} {ellmin} {fbits(z.real)} {fbits(z.imag)} {fbits(poison)}", arr_bits(d), {"L": L, "ell_min": ellmin, "expibeta": [z.real, z.imag], "stratum": lab}, lab)
            b2.add(f"gendfull {L} {ellmin} {fbits(z.real)} {fbits(z.imag)} {fbits(poison)}", arr_bits(d), {"L": L, "ell_min": ellmin, "expibeta": [z.real, z.imag], "stratum": lab, "model": "generated"}, lab)
    return b.flush() + b2.flush()


def corr_D(run, configs, rotors, preps, poison=0.0):
    import spherical
    import quaternionic
    h = helpers()
    b = Batch(run, "fill-D")
    b2 = Batch(run, "fill-D-generated-kernels")
    b3 = Batch(run, "Wigner.D-generated-method-body")
    for (L, ellmin) in configs:
        w = spherical.Wigner(L, ellmin)
        for lab, R in rotors:
            p = preps.get(R)
            if p is None:
                continue
            ws = w.new_workspace()
            ws[:] = poison
            D = w.D(quaternionic.array(R), workspace=ws)
            b.add(f"Dfull {L} {ellmin} {' '.join(fbits(x) for x in R)} {fbits(h['imsqrt'](p['za_rot']))} {fbits(h['imsqrt'](p['zg_rot']))} {fbits(poison)}",
                  arr_bits(D), {"L": L, "ell_min": ellmin, "R": R, "stratum": lab}, lab)
            b2.add(f"genDfull {L} {ellmin} {' '.join(fbits(x) for x in R)} {fbits(h['imsqrt'](p['za_rot']))} {fbits(h['imsqrt'](p['zg_rot']))} {fbits(poison)}",
                   arr_bits(D), {"L": L, "ell_min": ellmin, "R": R, "stratum": lab, "model": "generated"}, lab)
            za, zg = p["za_rot"], p["zg_rot"]
            b3.add(f"methD {L} {ellmin} {' '.join(fbits(x) for x in R)} {fbits(za.real)} {fbits(za.imag)} {fbits(h['imsqrt'](za))} "
                   f"{fbits(zg.real)} {fbits(zg.imag)} {fbits(h['imsqrt'](zg))} {fbits(poison)}",
                   arr_bits(D), {"L": L, "ell_min": ellmin, "R": R, "stratum": lab, "model": "generated-method"}, lab)
    return b.flush() + b2.flush() + b3.flush()


def corr_Dloop(run, configs, rotor_lists, preps, poison=0.0):
    """the GENERATED `for i_R in range(...)` loop of Wigner.D (Gen.Wigner_D_loop) against the real vectorised call, one workspace
    threaded through all rotors.  rotor_lists: [(label, [R, ...])]"""
    import spherical
    import quaternionic
    h = helpers()
    b = Batch(run, "Wigner.D-generated-loop")
    for (L, ellmin) in configs:
        w = spherical.Wigner(L, ellmin)
        for lab, Rs in rotor_lists:
            if any(preps.get(R) is None for R in Rs):
                continue
            ws = w.new_workspace()
            ws[:] = poison
            D = w.D(quaternionic.array(np.array(Rs, dtype=float)), workspace=ws)
            table = []
            for R in Rs:
                for zz in (preps[R]["za_rot"], preps[R]["zg_rot"]):
                    table += [fbits(zz.real), fbits(zz.imag), fbits(h["imsqrt"](zz))]
            b.add(f"methDloop {L} {ellmin} {len(Rs)} {fbits(poison)} " + " ".join(fbits(x) for R in Rs for x in R) + " " + " ".join(table),
                  arr_bits(D), {"L": L, "ell_min": ellmin, "Rs": Rs, "stratum": lab, "model": "generated-loop"}, lab)
    return b.flush()


def corr_Y(run, configs, rotors, preps, spins=None, poison=0.0):
    """configs: [(L, P, ellmin)]"""
    import spherical
    import quaternionic
    h = helpers()
    b = Batch(run, "fill-sYlm")
    b2 = Batch(run, "fill-sYlm-generated-kernels")
    b3 = Batch(run, "Wigner.sYlm-generated-method-body")
    for (L, P, ellmin) in configs:
        w = spherical.Wigner(L, ellmin, mp_max=P)
        for lab, R in rotors:
            p = preps.get(R)
            if p is None:
                continue
            for s in (spins if spins is not None else range(-w.mp_max, w.mp_max + 1)):
                if abs(s) > w.mp_max:
                    continue
                ws = w.new_workspace()
                ws[:] = poison
                Y = w.sYlm(s, quaternionic.array(R), workspace=ws)
                pw = np.complex128(p["z"][2]) ** abs(s)   # evaluated by numpy in Wigner.sYlm (not jitted)
                b.add(f"Y {L} {w.mp_max} {ellmin} {s} {' '.join(fbits(x) for x in R)} {fbits(h['imsqrt'](p['za_rot']))} {fbits(pw.real)} {fbits(pw.imag)} {fbits(poison)}",
                      arr_bits(Y), {"L": L, "P": P, "ell_min": ellmin, "s": s, "R": R, "stratum": lab}, f"{lab}|s|={abs(s)}" if abs(s) >= 3 else lab)
                b2.add(f"genY {L} {w.mp_max} {ellmin} {s} {' '.join(fbits(x) for x in R)} {fbits(h['imsqrt'](p['za_rot']))} {fbits(pw.real)} {fbits(pw.imag)} {fbits(poison)}",
                       arr_bits(Y), {"L": L, "P": P, "ell_min": ellmin, "s": s, "R": R, "stratum": lab, "model": "generated"}, f"{lab}|s|={abs(s)}" if abs(s) >= 3 else lab)
                za = p["za_rot"]
                b3.add(f"methY {L} {w.mp_max} {ellmin} {s} {' '.join(fbits(x) for x in R)} {fbits(za.real)} {fbits(za.imag)} {fbits(h['imsqrt'](za))} {fbits(pw.real)} {fbits(pw.imag)} {fbits(poison)}",
                       arr_bits(Y), {"L": L, "P": P, "ell_min": ellmin, "s": s, "R": R, "stratum": lab, "model": "generated-method"}, f"{lab}|s|={abs(s)}" if abs(s) >= 3 else lab)
    return b.flush() + b2.flush() + b3.flush()


def cx_tokens(a):
    return " ".join(fbits(x) for c in np.asarray(a).ravel() for x in (c.real, c.imag))


def corr_evalH(run, cases, rotors, preps, poison=0.0):
    """cases: [(L, P, s, ellMaxModes, weights(complex array from ell=0))]"""
    import spherical
    import quaternionic
    h = helpers()
    b = Batch(run, "evaluate-Horner")
    b2 = Batch(run, "evaluate-Horner-generated-kernel")
    b3 = Batch(run, "Wigner.evaluate-generated-method-body")
    for (L, P, s, eM, f) in cases:
        # the calculator's own ell_min (anything up to |s| is accepted by evaluate) must not matter: same model line
        emin = 0 if (len(b.lines) // max(len(rotors), 1)) % 2 == 0 else min(abs(s), L)
        w = spherical.Wigner(L, emin, mp_max=P)
        modes = spherical.Modes(np.array(f, dtype=complex), spin_weight=s, ell_min=0, ell_max=eM)
        fa = modes.ndarray
        for lab, R in rotors:
            p = preps.get(R)
            if p is None:
                continue
            ws = w.new_workspace()
            ws[:] = poison
            prev = complex(0.0, 0.0) if len(b.lines) % 2 == 0 else complex(7.5, -3.25)   # previous content of the caller's out cell
            o = np.full((), prev, dtype=complex)
            v = w.evaluate(modes, quaternionic.array(R), out=o, workspace=ws, horner=True)
            pw = h["cpowi"](np.complex128(p["z"][2]).conjugate(), s)
            b.add(f"evalH {L} {w.mp_max} {s} {eM} {' '.join(fbits(x) for x in R)} {fbits(pw.real)} {fbits(pw.imag)} {fbits(prev.real)} {fbits(prev.imag)} {fbits(poison)} " + cx_tokens(fa),
                  arr_bits(np.array([v])), {"L": L, "P": P, "s": s, "ell_max_modes": eM, "R": R, "stratum": lab}, f"{lab}|s|={abs(s)}" if abs(s) >= 3 else lab)
            b2.add(f"genevalH {L} {w.mp_max} {s} {eM} {' '.join(fbits(x) for x in R)} {fbits(pw.real)} {fbits(pw.imag)} {fbits(prev.real)} {fbits(prev.imag)} {fbits(poison)} " + cx_tokens(fa),
                   arr_bits(np.array([v])), {"L": L, "P": P, "s": s, "ell_max_modes": eM, "R": R, "stratum": lab, "model": "generated"}, f"{lab}|s|={abs(s)}" if abs(s) >= 3 else lab)
            b3.add(f"methevalH {L} {w.mp_max} {emin} {s} {eM} {' '.join(fbits(x) for x in R)} {fbits(pw.real)} {fbits(pw.imag)} {fbits(prev.real)} {fbits(prev.imag)} {fbits(poison)} " + cx_tokens(fa),
                   arr_bits(np.array([v])), {"L": L, "P": P, "s": s, "ell_max_modes": eM, "R": R, "stratum": lab, "model": "generated-method"}, f"{lab}|s|={abs(s)}" if abs(s) >= 3 else lab)
    return b.flush() + b2.flush() + b3.flush()


def corr_rotH(run, cases, rotors, preps, poison=0.0):
    """cases: [(L, s, ellMaxModes, weights)]"""
    import spherical
    import quaternionic
    h = helpers()
    b = Batch(run, "rotate-Horner")
    b2 = Batch(run, "rotate-Horner-generated-kernel")
    b3 = Batch(run, "Wigner.rotate-generated-method-body")
    for (L, s, eM, f) in cases:
        w = spherical.Wigner(L)
        modes = spherical.Modes(np.array(f, dtype=complex), spin_weight=s, ell_min=0, ell_max=eM)
        fa = modes.ndarray
        for lab, R in rotors:
            p = preps.get(R)
            if p is None:
                continue
            ws = w.new_workspace()
            ws[:] = poison
            v = w.rotate(modes, quaternionic.array(R), workspace=ws, horner=True).ndarray
            pws = [h["cpowi"](np.complex128(p["z"][2]), m) for m in range(-eM, eM + 1)]
            b.add(f"rotH {L} {s} {eM} {' '.join(fbits(x) for x in R)} {fbits(poison)} " + cx_tokens(pws) + " " + cx_tokens(fa),
                  arr_bits(v), {"L": L, "s": s, "ell_max_modes": eM, "R": R, "stratum": lab}, f"{lab}|s|={abs(s)}" if abs(s) >= 3 else lab)
            b2.add(f"genrotH {L} {s} {eM} {' '.join(fbits(x) for x in R)} {fbits(poison)} " + cx_tokens(pws) + " " + cx_tokens(fa),
                   arr_bits(v), {"L": L, "s": s, "ell_max_modes": eM, "R": R, "stratum": lab, "model": "generated"}, f"{lab}|s|={abs(s)}" if abs(s) >= 3 else lab)
            b3.add(f"methrotH {L} {s} {eM} {' '.join(fbits(x) for x in R)} {fbits(poison)} " + cx_tokens(pws) + " " + cx_tokens(fa),
                   arr_bits(v), {"L": L, "s": s, "ell_max_modes": eM, "R": R, "stratum": lab, "model": "generated-method"}, f"{lab}|s|={abs(s)}" if abs(s) >= 3 else lab)
    return b.flush() + b2.flush() + b3.flush()


def corr_mul(run, cases):
    """the GENERATED `_multiplication_helper` (Gen/MulKern.lean, with the 3-j model as `calculate`) against the numba helper, bit for bit.
    cases: [(L1, L2, Lfg, sf, sg, f, g, label)] with 1-d complex arrays from ell = 0"""
    from spherical.multiplication import _multiplication_helper
    b = Batch(run, "multiplication-helper-generated-kernel")
    for (L1, L2, Lfg, sf, sg, f, g, lab) in cases:
        fg = np.zeros((Lfg + 1) ** 2, dtype=complex)
        with np.errstate(all="ignore"):
            _multiplication_helper(np.asarray(f, dtype=complex), 0, L1, sf, np.asarray(g, dtype=complex), 0, L2, sg, fg, 0, Lfg, sf + sg)
        b.add(f"genmul {L1} {L2} {Lfg} {sf} {sg} " + cx_tokens(f) + " " + cx_tokens(g), arr_bits(fg),
              {"L1": L1, "L2": L2, "Lfg": Lfg, "s_f": sf, "s_g": sg, "stratum": lab, "model": "generated"}, lab)
    return b.flush(split="|")


def corr_rotM(run, cases, rotors, preps):
    """the matrix route of Wigner.rotate (the default strategy) from the source — generated `Wigner.D` body + generated `_rotate` with the
    contraction as a left fold — against the real call.  BLAS does not fix the order of summation, so the comparison is numerical
    (a small multiple of eps times the row's norm), not bitwise.  cases: [(L, ellmin, s, ellMaxModes, weights)]"""
    import spherical
    import quaternionic
    h = helpers()
    lines, exp, meta = [], [], []
    for (L, ellmin, s, eM, f) in cases:
        w = spherical.Wigner(L, ellmin)
        modes = spherical.Modes(np.array(f, dtype=complex), spin_weight=s, ell_min=0, ell_max=eM)
        fa = modes.ndarray
        for lab, R in rotors:
            p = preps.get(R)
            if p is None:
                continue
            v = w.rotate(modes, quaternionic.array(R)).ndarray
            za, zg = p["za_rot"], p["zg_rot"]
            lines.append(f"genrotM {L} {ellmin} {s} {eM} {' '.join(fbits(x) for x in R)} {fbits(za.real)} {fbits(za.imag)} {fbits(h['imsqrt'](za))} "
                         f"{fbits(zg.real)} {fbits(zg.imag)} {fbits(h['imsqrt'](zg))} " + cx_tokens(fa))
            exp.append(np.asarray(v))
            meta.append(({"L": L, "ell_min": ellmin, "s": s, "ell_max_modes": eM, "R": R, "stratum": lab, "model": "generated"}, lab, float(np.linalg.norm(fa))))
    if not lines:
        return []
    out = run.driver(lines)
    if out is None:
        run.corr_break("corr:rotate-matrix-generated-kernel", "driver failed")
        return [m for m, _, _ in meta]
    bad = []
    for line, o, e, (m, lab, nrm) in zip(lines, out, exp, meta):
        toks = parse_bits(o) if o not in ("raised", "bad-op") else None
        ok = False
        if toks is not None and len(toks) == 2 * e.size:
            got = np.array([complex(tofloat(toks[2 * i]), tofloat(toks[2 * i + 1])) for i in range(e.size)])
            lo = abs(m["s"]) ** 2
            dev = float(np.max(np.abs(got[lo:] - e[lo:]))) if e.size > lo else 0.0
            ok = dev <= 64 * (m["ell_max_modes"] + 2) * 2.0 ** -52 * max(nrm, 1e-300)
            m = {**m, "max_abs_dev": dev}
        run.corr_case("rotate-matrix-generated-kernel", line[:300], lab, m if ok else None)
        if not ok:
            bad.append(m)
            if len(bad) <= 3:
                run.corr_break("corr:rotate-matrix-generated-kernel", {"case": m})
    return bad


def corr_evalM(run, cases, rotors, preps):
    """the matrix route of Wigner.evaluate (the default strategy) from the source — generated `Wigner.sYlm` body + generated slice bounds and
    contraction (left fold) — against the real call, numerically (np.matmul fixes no summation order).  cases: [(L, P, ellmin, s, ellMaxModes, weights)]"""
    import spherical
    import quaternionic
    h = helpers()
    lines, exp, meta = [], [], []
    for (L, P, ellmin, s, eM, f) in cases:
        w = spherical.Wigner(L, ellmin, mp_max=P)
        modes = spherical.Modes(np.array(f, dtype=complex), spin_weight=s, ell_min=0, ell_max=eM)
        fa = modes.ndarray
        for lab, R in rotors:
            p = preps.get(R)
            if p is None:
                continue
            v = complex(w.evaluate(modes, quaternionic.array(R)))
            za = p["za_rot"]
            pw = np.complex128(p["z"][2]) ** abs(s)
            lines.append(f"genevalM {L} {w.mp_max} {ellmin} {s} {eM} {' '.join(fbits(x) for x in R)} {fbits(za.real)} {fbits(za.imag)} {fbits(h['imsqrt'](za))} "
                         f"{fbits(pw.real)} {fbits(pw.imag)} " + cx_tokens(fa))
            exp.append(v)
            scale = float(np.sum(np.abs(fa) * np.sqrt((2 * np.repeat(np.arange(eM + 1), 2 * np.arange(eM + 1) + 1) + 1) / (4 * np.pi))))
            meta.append(({"L": L, "P": P, "ell_min": ellmin, "s": s, "ell_max_modes": eM, "R": R, "stratum": lab, "model": "generated"}, lab, scale))
    if not lines:
        return []
    out = run.driver(lines)
    if out is None:
        run.corr_break("corr:evaluate-matrix-generated-kernel", "driver failed")
        return [m for m, _, _ in meta]
    bad = []
    for line, o, e, (m, lab, scale) in zip(lines, out, exp, meta):
        toks = parse_bits(o) if o not in ("raised", "bad-op") else None
        ok = False
        if toks is not None and len(toks) == 2:
            got = complex(tofloat(toks[0]), tofloat(toks[1]))
            dev = abs(got - e)
            ok = dev <= 64 * (m["ell_max_modes"] + 2) * 2.0 ** -52 * max(scale, 1e-300)
            m = {**m, "abs_dev": dev}
        run.corr_case("evaluate-matrix-generated-kernel", line[:300], lab, m if ok else None)
        if not ok:
            bad.append(m)
            if len(bad) <= 3:
                run.corr_break("corr:evaluate-matrix-generated-kernel", {"case": m})
    return bad


def corr_w3j(run, cases, poison=3.5):
    """cases: [(j2max, j3max, j2, j3, m2, m3)] -> compares Wigner3jCalculator(j2max,j3max).calculate(j2,j3,m2,m3)"""
    import spherical
    calcs = {}
    b = Batch(run, "w3j-calculate")
    b2 = Batch(run, "w3j-calculate-generated-kernel")
    for (a, c, j2, j3, m2, m3) in cases:
        k = (a, c)
        if k not in calcs:
            calcs[k] = spherical.Wigner3jCalculator(a, c)
        calc = calcs[k]
        calc.workspace[:] = poison
        try:
            e = arr_bits(calc.calculate(j2, j3, m2, m3).copy())
        except ZeroDivisionError:
            e = ["zerodiv"]
        except ValueError:
            e = ["raised"]
        branch = "all-m-zero" if (m2 == 0 and m3 == 0) else ("out-of-range" if abs(m2) > j2 or abs(m3) > j3 else ("single" if j2 + j3 == max(abs(j2 - j3), abs(m2 + m3)) else "general"))
        b.add(f"w3j {a + c + 1} {j2} {j3} {m2} {m3} {fbits(poison)}", e, {"cap": [a, c], "j2": j2, "j3": j3, "m2": m2, "m3": m3}, branch)
        if e != ["zerodiv"]:      # (a float division by zero raises in numba's Python error model; the generated text has no exceptions but the one `raise`)
            b2.add(f"genw3j {a + c + 1} {j2} {j3} {m2} {m3} {fbits(poison)}", e, {"cap": [a, c], "j2": j2, "j3": j3, "m2": m2, "m3": m3, "model": "generated"}, branch)
    return b.flush() + b2.flush()
