"""Cooperative scheduler + footprint monitor for C10: the module-level kernels of spherical.wigner are wrapped (from
outside; no source hooks), each kernel execution is one atomic step (the GIL cannot change hands inside a compiled
kernel), and a schedule (sequence of thread ids) decides which thread's next kernel runs."""
import threading

import numpy as np

KERNELS = ["_step_1", "_step_2", "_step_3", "_step_4", "_step_5", "_fill_wigner_d", "_fill_wigner_D", "_fill_sYlm",
           "_rotate", "_rotate_Horner", "_evaluate_Horner", "_complex_powers", "to_euler_phases"]


class SchedulerStall(Exception):
    """the harness itself stalled (not a property violation): reported as an infrastructure error"""


class Scheduler:
    def __init__(self, schedule):
        self.schedule = list(schedule)
        self.pos = 0
        self.cv = threading.Condition()
        self.done = set()
        self.running = None
        self.trace = []

    def _skip(self):
        while self.pos < len(self.schedule) and self.schedule[self.pos] in self.done:
            self.pos += 1

    def enter(self, tid):
        with self.cv:
            while True:
                self._skip()
                if self.running is None and (self.pos >= len(self.schedule) or self.schedule[self.pos] == tid):
                    break
                if not self.cv.wait(timeout=300):
                    raise SchedulerStall("scheduler made no progress for 300 s")
            self.running = tid
            if self.pos < len(self.schedule):
                self.pos += 1

    def leave(self, tid):
        with self.cv:
            self.running = None
            self.cv.notify_all()

    def finish(self, tid):
        with self.cv:
            self.done.add(tid)
            self.cv.notify_all()


class Monitor:
    """records, per thread, the kernels executed and the class of every array argument"""

    def __init__(self, buffers):
        self.buffers = buffers   # list of (label, ndarray)
        self.log = []
        self.lock = threading.Lock()

    def classify(self, a):
        if not isinstance(a, np.ndarray):
            return None
        for label, b in self.buffers:
            if np.shares_memory(a, b):
                return label
        return "other"

    def record(self, tid, name, args):
        cls = tuple(c for c in (self.classify(a) for a in args) if c is not None)
        with self.lock:
            self.log.append((tid, name, cls))


_tls = threading.local()
_active = {"sched": None, "mon": None}
_orig = {}


def install():
    import spherical.wigner as W
    if _orig:
        return
    # every compiled kernel the module can call is a step boundary: the documented list plus whatever numba dispatchers the
    # module namespace holds now (a kernel added by a change to the library is discovered, not missed)
    names = [k for k in KERNELS if hasattr(W, k)]
    # names that compiled code itself refers to must stay what numba can type (wrapping them would break compilation):
    # everything loaded inside a decorated (jitted) function body of the module
    import ast
    import inspect
    used_in_jit = set()
    try:
        tree = ast.parse(inspect.getsource(W))
        for node in tree.body:
            if isinstance(node, ast.FunctionDef) and node.decorator_list:
                used_in_jit |= {n.id for n in ast.walk(node) if isinstance(n, ast.Name)}
    except (OSError, SyntaxError):
        used_in_jit = None
    for k, v in list(vars(W).items()):
        if k in names or not (hasattr(v, "py_func") and callable(v)):
            continue
        if used_in_jit is None or k in used_in_jit:
            continue
        if getattr(v.py_func, "__module__", "") == W.__name__:      # a kernel defined in wigner.py and called from its Python code
            names.append(k)
    for k in names:
        fn = getattr(W, k)
        _orig[k] = fn

        def make(name, fn):
            def wrapped(*args):
                tid = getattr(_tls, "tid", None)
                sched, mon = _active["sched"], _active["mon"]
                if tid is None or sched is None:
                    if mon is not None:
                        mon.record(tid, name, args)
                    return fn(*args)
                # The thread already holds the turn (taken at thread start or right after its previous kernel): a step is
                # "the Python code up to and including the next kernel".  After the kernel returns the turn is given up
                # and must be re-acquired before the thread's Python code continues, so another thread's steps can run
                # between this kernel and whatever consumes its output (e.g. a BLAS call on a shared temporary).
                # A second boundary lies BEFORE the kernel: the Python code that precedes it (which may publish state that the
                # kernel is about to fill in) is a step of its own, so another thread can run between the two.
                sched.leave(tid)
                sched.enter(tid)
                try:
                    if mon is not None:
                        mon.record(tid, name, args)
                    return fn(*args)
                finally:
                    sched.leave(tid)
                    sched.enter(tid)
            wrapped.__wrapped__ = fn
            return wrapped
        setattr(W, k, make(k, fn))


def uninstall():
    import spherical.wigner as W
    for k, fn in _orig.items():
        setattr(W, k, fn)
    _orig.clear()


def run_threads(calls, schedule, monitor=None):
    """calls: list of callables (one per thread); schedule: sequence of thread indices, one entry per step; a thread with
    n kernel executions has 2n+1 steps (Python code, kernel, Python code, kernel, ..., and the tail after its last kernel).
    returns list of ('ok', result) | ('raise', exc)"""
    sched = Scheduler(schedule)
    _active["sched"], _active["mon"] = sched, monitor
    results = [None] * len(calls)

    def body(i):
        _tls.tid = i
        try:
            sched.enter(i)
            try:
                results[i] = ("ok", calls[i]())
            except Exception as e:
                results[i] = ("raise", e)
            finally:
                sched.leave(i)
        finally:
            sched.finish(i)
            _tls.tid = None

    ts = [threading.Thread(target=body, args=(i,)) for i in range(len(calls))]
    for t in ts:
        t.start()
    for t in ts:
        t.join(900)
    _active["sched"], _active["mon"] = None, None
    for r in results:
        if r is None or (r[0] == "raise" and isinstance(r[1], SchedulerStall)):
            raise SchedulerStall("scheduler stalled; results incomplete")
    return results


def count_steps(call, monitor_buffers=()):
    """run alone, return (result, number of kernel steps, log)"""
    mon = Monitor(list(monitor_buffers))
    _active["sched"], _active["mon"] = None, mon
    _tls.tid = None
    try:
        r = ("ok", call())
    except Exception as e:
        r = ("raise", e)
    _active["mon"] = None
    return r, len(mon.log), mon.log
