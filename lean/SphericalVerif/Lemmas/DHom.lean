import SphericalVerif.Lemmas.DDef2
import SphericalVerif.Lemmas.Operators
import Mathlib.Data.Int.Interval
import Mathlib.Algebra.BigOperators.Intervals
import Mathlib.Tactic.Ring
import Mathlib.Tactic.Linarith
import Mathlib.Tactic.NormNum
import Mathlib.Tactic.LinearCombination
/-! Helper lemmas for Props/DHom.lean: the group laws of the documented D matrices for ℓ = 1, 2 (and of what the
    model `Model.objD` computes, through `DDef.objD_one_eq_table` / `DDef2.objD_two_eq_table`).

    The tables `DDef.D1doc`, `DDef2.D2doc` are polynomials in R_a, conj R_a, R_b, conj R_b and one square root
    (√2, √6).  `T1`, `T2` are the same tables with these five quantities as INDEPENDENT variables
    (`D1doc_eq_T1`, `D2doc_eq_T2` hold by `rfl`); every law below is a polynomial identity in them, modulo
    r² = 2 (resp. 6), checked entry by entry. -/
noncomputable section
namespace DHom
open Model Model.Ops Spec Horner DDef DDef2
open scoped ComplexConjugate

/-! ### quaternions (the library's product convention) -/

/-- the product of `quaternionic`: (w1,x1,y1,z1)·(w2,x2,y2,z2) -/
def qmul (p q : Quat ℝ) : Quat ℝ :=
  ⟨p.w * q.w - p.x * q.x - p.y * q.y - p.z * q.z,
   p.w * q.x + p.x * q.w + p.y * q.z - p.z * q.y,
   p.w * q.y - p.x * q.z + p.y * q.w + p.z * q.x,
   p.w * q.z + p.x * q.y - p.y * q.x + p.z * q.w⟩

/-- quaternion conjugate (the inverse of a unit quaternion) -/
def qconj (p : Quat ℝ) : Quat ℝ := ⟨p.w, -p.x, -p.y, -p.z⟩

/-- the other rotor of the same rotation -/
def qneg (p : Quat ℝ) : Quat ℝ := ⟨-p.w, -p.x, -p.y, -p.z⟩

/-- R_a = w + i z -/
def QA (p : Quat ℝ) : ℂ := Ra p.w p.z
/-- R_b = y + i x -/
def QB (p : Quat ℝ) : ℂ := Rb p.x p.y

theorem quat_mul_normSq (p q : Quat ℝ) :
    (qmul p q).w ^ 2 + (qmul p q).x ^ 2 + (qmul p q).y ^ 2 + (qmul p q).z ^ 2
      = (p.w ^ 2 + p.x ^ 2 + p.y ^ 2 + p.z ^ 2) * (q.w ^ 2 + q.x ^ 2 + q.y ^ 2 + q.z ^ 2) := by
  simp only [qmul]; ring

theorem qconj_unit (p : Quat ℝ) (hp : p.w ^ 2 + p.x ^ 2 + p.y ^ 2 + p.z ^ 2 = 1) :
    (qconj p).w ^ 2 + (qconj p).x ^ 2 + (qconj p).y ^ 2 + (qconj p).z ^ 2 = 1 := by
  simp only [qconj]; rw [← hp]; ring

theorem qneg_unit (p : Quat ℝ) (hp : p.w ^ 2 + p.x ^ 2 + p.y ^ 2 + p.z ^ 2 = 1) :
    (qneg p).w ^ 2 + (qneg p).x ^ 2 + (qneg p).y ^ 2 + (qneg p).z ^ 2 = 1 := by
  simp only [qneg]; rw [← hp]; ring

theorem QA_mul (p q : Quat ℝ) : QA (qmul p q) = QA p * QA q - conj (QB p) * QB q := by
  apply Complex.ext <;> simp [QA, QB, Ra, Rb, qmul] <;> ring

theorem QB_mul (p q : Quat ℝ) : QB (qmul p q) = QB p * QA q + conj (QA p) * QB q := by
  apply Complex.ext <;> simp [QA, QB, Ra, Rb, qmul] <;> ring

theorem QA_conj (p : Quat ℝ) : QA (qconj p) = conj (QA p) := by
  apply Complex.ext <;> simp [QA, Ra, qconj]

theorem QB_conj (p : Quat ℝ) : QB (qconj p) = -QB p := by
  apply Complex.ext <;> simp [QB, Rb, qconj]

theorem QA_neg (p : Quat ℝ) : QA (qneg p) = -QA p := by
  apply Complex.ext <;> simp [QA, Ra, qneg]

theorem QB_neg (p : Quat ℝ) : QB (qneg p) = -QB p := by
  apply Complex.ext <;> simp [QB, Rb, qneg]

/-- |R_a|² + |R_b|² is the squared norm of the quaternion -/
theorem QAB_normSq (p : Quat ℝ) :
    QA p * conj (QA p) + QB p * conj (QB p) = ((p.w ^ 2 + p.x ^ 2 + p.y ^ 2 + p.z ^ 2 : ℝ) : ℂ) := by
  apply Complex.ext <;> simp [QA, QB, Ra, Rb, pow_two] <;> ring

theorem QAB_unit (p : Quat ℝ) (hp : p.w ^ 2 + p.x ^ 2 + p.y ^ 2 + p.z ^ 2 = 1) :
    QA p * conj (QA p) + QB p * conj (QB p) = 1 := by
  rw [QAB_normSq, hp]; simp

/-! ### sums over m = −ℓ..ℓ written out -/

theorem sum_Icc1 (f : ℤ → ℂ) : ∑ k ∈ Finset.Icc (-1 : ℤ) 1, f k = f (-1) + f 0 + f 1 := by
  have : Finset.Icc (-1 : ℤ) 1 = {-1, 0, 1} := by decide
  rw [this]
  simp [add_assoc]

theorem sum_Icc2 (f : ℤ → ℂ) :
    ∑ k ∈ Finset.Icc (-2 : ℤ) 2, f k = f (-2) + f (-1) + f 0 + f 1 + f 2 := by
  have : Finset.Icc (-2 : ℤ) 2 = {-2, -1, 0, 1, 2} := by decide
  rw [this]
  simp [add_assoc]

/-! ### the tables with independent variables -/

/-- `DDef.D1doc` with (√2, R_a, conj R_a, R_b, conj R_b) replaced by independent (r, a, a', b, b') -/
def T1 (r a a' b b' : ℂ) (mp m : ℤ) : ℂ :=
  if mp = -1 then
    (if m = -1 then a' ^ 2 else if m = 0 then r * a' * b else b ^ 2)
  else if mp = 0 then
    (if m = -1 then -r * a' * b'
     else if m = 0 then a * a' - b * b' else r * a * b)
  else
    (if m = -1 then b' ^ 2 else if m = 0 then -r * a * b' else a ^ 2)

theorem D1doc_eq_T1 (A B : ℂ) (mp m : ℤ) :
    D1doc A B mp m = T1 (Real.sqrt 2 : ℂ) A (conj A) B (conj B) mp m := rfl

/-- `DDef2.D2doc` with (√6, R_a, conj R_a, R_b, conj R_b) replaced by independent (r, A, A', B, B') -/
def T2 (r A A' B B' : ℂ) (mp m : ℤ) : ℂ :=
  if mp = -2 then
    (if m = -2 then A' ^ 4
     else if m = -1 then 2 * A' ^ 3 * B
     else if m = 0 then r * A' ^ 2 * B ^ 2
     else if m = 1 then 2 * A' * B ^ 3
     else B ^ 4)
  else if mp = -1 then
    (if m = -2 then -(2 * A' ^ 3 * B')
     else if m = -1 then A' ^ 2 * ((A * A') - 3 * (B * B'))
     else if m = 0 then r * A' * B * ((A * A') - (B * B'))
     else if m = 1 then B ^ 2 * (3 * (A * A') - (B * B'))
     else 2 * A * B ^ 3)
  else if mp = 0 then
    (if m = -2 then r * A' ^ 2 * B' ^ 2
     else if m = -1 then -(r * A' * B' * ((A * A') - (B * B')))
     else if m = 0 then (A * A') ^ 2 - 4 * (A * A') * (B * B') + (B * B') ^ 2
     else if m = 1 then r * A * B * ((A * A') - (B * B'))
     else r * A ^ 2 * B ^ 2)
  else if mp = 1 then
    (if m = -2 then -(2 * A' * B' ^ 3)
     else if m = -1 then B' ^ 2 * (3 * (A * A') - (B * B'))
     else if m = 0 then -(r * A * B' * ((A * A') - (B * B')))
     else if m = 1 then A ^ 2 * ((A * A') - 3 * (B * B'))
     else 2 * A ^ 3 * B)
  else
    (if m = -2 then B' ^ 4
     else if m = -1 then -(2 * A * B' ^ 3)
     else if m = 0 then r * A ^ 2 * B' ^ 2
     else if m = 1 then -(2 * A ^ 3 * B')
     else A ^ 4)

theorem D2doc_eq_T2 (A B : ℂ) (mp m : ℤ) :
    D2doc A B mp m = T2 (Real.sqrt 6 : ℂ) A (conj A) B (conj B) mp m := rfl

theorem sqrt2C_conj : conj ((Real.sqrt 2 : ℝ) : ℂ) = ((Real.sqrt 2 : ℝ) : ℂ) := Complex.conj_ofReal _
theorem sqrt6C_conj : conj ((Real.sqrt 6 : ℝ) : ℂ) = ((Real.sqrt 6 : ℝ) : ℂ) := Complex.conj_ofReal _

/-! ### ℓ = 1: polynomial identities -/

/-- representation property: T(x₁x₂) = T(x₁)·T(x₂), with the product
    (a, b)(a₂, b₂) = (a a₂ − b' b₂, b a₂ + a' b₂) and the primed (conjugate) variables transformed accordingly.
    No relation between a and a' (or b and b') is used, and no unit-norm condition. -/
theorem T1_hom (r a1 a1' b1 b1' a2 a2' b2 b2' : ℂ) (hr : r ^ 2 = 2) (mp m : ℤ)
    (hmp : mp.natAbs ≤ 1) (hm : m.natAbs ≤ 1) :
    T1 r (a1 * a2 - b1' * b2) (a1' * a2' - b1 * b2') (b1 * a2 + a1' * b2) (b1' * a2' + a1 * b2') mp m
      = T1 r a1 a1' b1 b1' mp (-1) * T1 r a2 a2' b2 b2' (-1) m
        + T1 r a1 a1' b1 b1' mp 0 * T1 r a2 a2' b2 b2' 0 m
        + T1 r a1 a1' b1 b1' mp 1 * T1 r a2 a2' b2 b2' 1 m := by
  have h1 : mp = -1 ∨ mp = 0 ∨ mp = 1 := by omega
  have h2 : m = -1 ∨ m = 0 ∨ m = 1 := by omega
  rcases h1 with rfl | rfl | rfl <;> rcases h2 with rfl | rfl | rfl <;> simp [T1] <;> grind

/-- conjugation acts on the variables -/
theorem T1_conj (r a a' b b' : ℂ) (mp m : ℤ) :
    conj (T1 r a a' b b' mp m) = T1 (conj r) (conj a) (conj a') (conj b) (conj b') mp m := by
  unfold T1
  split_ifs <;> simp

/-- the table of the inverse (a, a', b, b') ↦ (a', a, −b, −b') is the transpose of the table with primed and
    unprimed variables exchanged (= the conjugate transpose when a' = conj a, b' = conj b) -/
theorem T1_inv (r a a' b b' : ℂ) (mp m : ℤ) (hmp : mp.natAbs ≤ 1) (hm : m.natAbs ≤ 1) :
    T1 r a' a (-b) (-b') mp m = T1 r a' a b' b m mp := by
  have h1 : mp = -1 ∨ mp = 0 ∨ mp = 1 := by omega
  have h2 : m = -1 ∨ m = 0 ∨ m = 1 := by omega
  rcases h1 with rfl | rfl | rfl <;> rcases h2 with rfl | rfl | rfl <;> simp only [T1] <;> grind

/-- the table is even in (a, a', b, b') -/
theorem T1_neg (r a a' b b' : ℂ) (mp m : ℤ) :
    T1 r (-a) (-a') (-b) (-b') mp m = T1 r a a' b b' mp m := by
  unfold T1
  split_ifs <;> ring

/-- T·T† = (a a' + b b')² · 1, as a polynomial identity -/
theorem T1_unitary (r a a' b b' : ℂ) (hr : r ^ 2 = 2) (mp m : ℤ)
    (hmp : mp.natAbs ≤ 1) (hm : m.natAbs ≤ 1) :
    T1 r a a' b b' mp (-1) * T1 r a' a b' b m (-1) + T1 r a a' b b' mp 0 * T1 r a' a b' b m 0
      + T1 r a a' b b' mp 1 * T1 r a' a b' b m 1 = if mp = m then (a * a' + b * b') ^ 2 else 0 := by
  have h1 : mp = -1 ∨ mp = 0 ∨ mp = 1 := by omega
  have h2 : m = -1 ∨ m = 0 ∨ m = 1 := by omega
  rcases h1 with rfl | rfl | rfl <;> rcases h2 with rfl | rfl | rfl <;> simp [T1] <;> grind

/-! ### ℓ = 2: polynomial identities -/

theorem T2_hom (r a1 a1' b1 b1' a2 a2' b2 b2' : ℂ) (hr : r ^ 2 = 6) (mp m : ℤ)
    (hmp : mp.natAbs ≤ 2) (hm : m.natAbs ≤ 2) :
    T2 r (a1 * a2 - b1' * b2) (a1' * a2' - b1 * b2') (b1 * a2 + a1' * b2) (b1' * a2' + a1 * b2') mp m
      = T2 r a1 a1' b1 b1' mp (-2) * T2 r a2 a2' b2 b2' (-2) m
        + T2 r a1 a1' b1 b1' mp (-1) * T2 r a2 a2' b2 b2' (-1) m
        + T2 r a1 a1' b1 b1' mp 0 * T2 r a2 a2' b2 b2' 0 m
        + T2 r a1 a1' b1 b1' mp 1 * T2 r a2 a2' b2 b2' 1 m
        + T2 r a1 a1' b1 b1' mp 2 * T2 r a2 a2' b2 b2' 2 m := by
  have h1 : mp = -2 ∨ mp = -1 ∨ mp = 0 ∨ mp = 1 ∨ mp = 2 := by omega
  have h2 : m = -2 ∨ m = -1 ∨ m = 0 ∨ m = 1 ∨ m = 2 := by omega
  rcases h1 with rfl | rfl | rfl | rfl | rfl <;> rcases h2 with rfl | rfl | rfl | rfl | rfl <;>
    simp [T2] <;> grind

theorem T2_conj (r a a' b b' : ℂ) (mp m : ℤ) :
    conj (T2 r a a' b b' mp m) = T2 (conj r) (conj a) (conj a') (conj b) (conj b') mp m := by
  unfold T2
  split_ifs <;> simp [Complex.conj_ofNat]

theorem T2_inv (r a a' b b' : ℂ) (mp m : ℤ) (hmp : mp.natAbs ≤ 2) (hm : m.natAbs ≤ 2) :
    T2 r a' a (-b) (-b') mp m = T2 r a' a b' b m mp := by
  have h1 : mp = -2 ∨ mp = -1 ∨ mp = 0 ∨ mp = 1 ∨ mp = 2 := by omega
  have h2 : m = -2 ∨ m = -1 ∨ m = 0 ∨ m = 1 ∨ m = 2 := by omega
  rcases h1 with rfl | rfl | rfl | rfl | rfl <;> rcases h2 with rfl | rfl | rfl | rfl | rfl <;>
    simp only [T2] <;> grind

theorem T2_neg (r a a' b b' : ℂ) (mp m : ℤ) :
    T2 r (-a) (-a') (-b) (-b') mp m = T2 r a a' b b' mp m := by
  unfold T2
  split_ifs <;> ring

theorem T2_unitary (r a a' b b' : ℂ) (hr : r ^ 2 = 6) (mp m : ℤ)
    (hmp : mp.natAbs ≤ 2) (hm : m.natAbs ≤ 2) :
    T2 r a a' b b' mp (-2) * T2 r a' a b' b m (-2) + T2 r a a' b b' mp (-1) * T2 r a' a b' b m (-1)
      + T2 r a a' b b' mp 0 * T2 r a' a b' b m 0 + T2 r a a' b b' mp 1 * T2 r a' a b' b m 1
      + T2 r a a' b b' mp 2 * T2 r a' a b' b m 2 = if mp = m then (a * a' + b * b') ^ 4 else 0 := by
  have h1 : mp = -2 ∨ mp = -1 ∨ mp = 0 ∨ mp = 1 ∨ mp = 2 := by omega
  have h2 : m = -2 ∨ m = -1 ∨ m = 0 ∨ m = 1 ∨ m = 2 := by omega
  rcases h1 with rfl | rfl | rfl | rfl | rfl <;> rcases h2 with rfl | rfl | rfl | rfl | rfl <;>
    simp [T2] <;> grind

/-! ### from the documented sum / the model to the tables -/

theorem docD1_T (A B : ℂ) (mp m : ℤ) (hmp : mp.natAbs ≤ 1) (hm : m.natAbs ≤ 1) :
    docD 1 A B mp m = T1 (Real.sqrt 2 : ℂ) A (conj A) B (conj B) mp m := by
  rw [docD_one _ _ mp m hmp hm]; rfl

theorem docD2_T (A B : ℂ) (mp m : ℤ) (hmp : mp.natAbs ≤ 2) (hm : m.natAbs ≤ 2) :
    docD 2 A B mp m = T2 (Real.sqrt 6 : ℂ) A (conj A) B (conj B) mp m := by
  rw [docD_two _ _ mp m hmp hm]; rfl

section
variable {μ : Type} [Mem μ ℝ] [LawfulMem μ ℝ]

/-- `DDef.D_ell1` for a rotor given as a `Quat` -/
theorem objD1_doc (L : ℕ) (hL : 1 ≤ L) (st : μ) (R : Quat ℝ) (hR : R.w ^ 2 + R.x ^ 2 + R.y ^ 2 + R.z ^ 2 = 1)
    (imsqrt : Cx ℝ → ℝ) (hs : ∀ w : Cx ℝ, w.re ^ 2 + w.im ^ 2 = 1 → 2 * (imsqrt w) ^ 2 = 1 - w.re)
    (mp m : ℤ) (hmp : mp.natAbs ≤ 1) (hm : m.natAbs ≤ 1) :
    toC (objD L st R.w R.x R.y R.z imsqrt 1 mp m) = docD 1 (QA R) (QB R) mp m := by
  rw [docD_one _ _ mp m hmp hm]
  exact objD_one_eq_table L st R.w R.x R.y R.z hR imsqrt hs hL mp m hmp hm

/-- `DDef2.D_ell2` for a rotor given as a `Quat` -/
theorem objD2_doc (L : ℕ) (hL : 2 ≤ L) (st : μ) (R : Quat ℝ) (hR : R.w ^ 2 + R.x ^ 2 + R.y ^ 2 + R.z ^ 2 = 1)
    (imsqrt : Cx ℝ → ℝ) (hs : ∀ w : Cx ℝ, w.re ^ 2 + w.im ^ 2 = 1 → 2 * (imsqrt w) ^ 2 = 1 - w.re)
    (mp m : ℤ) (hmp : mp.natAbs ≤ 2) (hm : m.natAbs ≤ 2) :
    toC (objD L st R.w R.x R.y R.z imsqrt 2 mp m) = docD 2 (QA R) (QB R) mp m := by
  rw [docD_two _ _ mp m hmp hm]
  exact objD_two_eq_table L st R.w R.x R.y R.z hR imsqrt hs hL mp m hmp hm

end

/-! ### ℓ = 1 in the Cartesian basis -/

/-- the vector part of R·(0, v)·R̄ -/
def rotVec (R : Quat ℝ) (v : Vec3 ℝ) : Vec3 ℝ :=
  ⟨(qmul (qmul R ⟨0, v.x, v.y, v.z⟩) (qconj R)).x, (qmul (qmul R ⟨0, v.x, v.y, v.z⟩) (qconj R)).y,
   (qmul (qmul R ⟨0, v.x, v.y, v.z⟩) (qconj R)).z⟩

/-- weight m of an ℓ = 1 triple `(w₋₁, w₀, w₁)` (fields `x`, `y`, `z` of the `Vec3`), read in ℂ -/
def wAt (w : Vec3 (Cx ℝ)) (m : ℤ) : ℂ := if m = -1 then toC w.x else if m = 0 then toC w.y else toC w.z

theorem toC_I : toC (Cx.I : Cx ℝ) = Complex.I := by
  apply Complex.ext <;> simp [toC, Cx.I]

theorem QA_eq (R : Quat ℝ) : QA R = (R.w : ℂ) + (R.z : ℂ) * Complex.I := by
  apply Complex.ext <;> simp [QA, Ra]
theorem QB_eq (R : Quat ℝ) : QB R = (R.y : ℂ) + (R.x : ℂ) * Complex.I := by
  apply Complex.ext <;> simp [QB, Rb]
theorem QA_conj_eq (R : Quat ℝ) : conj (QA R) = (R.w : ℂ) - (R.z : ℂ) * Complex.I := by
  apply Complex.ext <;> simp [QA, Ra]
theorem QB_conj_eq (R : Quat ℝ) : conj (QB R) = (R.y : ℂ) - (R.x : ℂ) * Complex.I := by
  apply Complex.ext <;> simp [QB, Rb]

theorem wAt_vec (K : ConvConsts ℝ) (v : Vec3 ℝ) :
    wAt (vectorAsEll1R K v) (-1) = ((v.x : ℂ) + Complex.I * (v.y : ℂ)) * (K.sqrt2pi3 : ℂ) ∧
    wAt (vectorAsEll1R K v) 0 = (v.z : ℂ) * (K.sqrt4pi3 : ℂ) ∧
    wAt (vectorAsEll1R K v) 1 = (-(v.x : ℂ) + Complex.I * (v.y : ℂ)) * (K.sqrt2pi3 : ℂ) := by
  refine ⟨?_, ?_, ?_⟩ <;> (simp [wAt, vectorAsEll1R]; apply Complex.ext <;> simp [toC])

/-- Rotating the ℓ = 1 weights of the real vector v with the table of R̄ (row index summed, as `f @ 𝔇` does) gives the
    weights of R v R̄; needs only `sqrt4pi3 = √2 · sqrt2pi3`; no unit-norm condition (both sides scale by |R|²). -/
theorem rot_T1 (K : ConvConsts ℝ) (hK : K.sqrt4pi3 = Real.sqrt 2 * K.sqrt2pi3) (R : Quat ℝ) (v : Vec3 ℝ)
    (m : ℤ) (hm : m.natAbs ≤ 1) :
    wAt (vectorAsEll1R K v) (-1)
        * T1 (Real.sqrt 2 : ℂ) (conj (QA R)) (QA R) (-QB R) (-conj (QB R)) (-1) m
      + wAt (vectorAsEll1R K v) 0
        * T1 (Real.sqrt 2 : ℂ) (conj (QA R)) (QA R) (-QB R) (-conj (QB R)) 0 m
      + wAt (vectorAsEll1R K v) 1
        * T1 (Real.sqrt 2 : ℂ) (conj (QA R)) (QA R) (-QB R) (-conj (QB R)) 1 m
      = wAt (vectorAsEll1R K (rotVec R v)) m := by
  obtain ⟨e1, e2, e3⟩ := wAt_vec K v
  obtain ⟨f1, f2, f3⟩ := wAt_vec K (rotVec R v)
  have hr := sqrt2C_sq
  have hI := Complex.I_mul_I
  have h2 : m = -1 ∨ m = 0 ∨ m = 1 := by omega
  rw [e1, e2, e3, QA_conj_eq, QB_conj_eq, QA_eq, QB_eq]
  rcases h2 with rfl | rfl | rfl
  · rw [f1]; simp only [T1, rotVec, qmul, qconj, hK]; push_cast; simp; grind
  · rw [f2]; simp only [T1, rotVec, qmul, qconj, hK]; push_cast; simp; grind
  · rw [f3]; simp only [T1, rotVec, qmul, qconj, hK]; push_cast; simp; grind

/-- R·(0, v)·R̄ has no scalar part -/
theorem rotVec_scalar (R : Quat ℝ) (v : Vec3 ℝ) : (qmul (qmul R ⟨0, v.x, v.y, v.z⟩) (qconj R)).w = 0 := by
  simp only [qmul, qconj]; ring

/-- the vector part of R·(0, v)·R̄ is the usual rotation matrix of the quaternion R applied to v -/
theorem rotVec_matrix (R : Quat ℝ) (v : Vec3 ℝ) :
    (rotVec R v).x = (R.w ^ 2 + R.x ^ 2 - R.y ^ 2 - R.z ^ 2) * v.x + 2 * (R.x * R.y - R.w * R.z) * v.y
        + 2 * (R.x * R.z + R.w * R.y) * v.z ∧
    (rotVec R v).y = 2 * (R.x * R.y + R.w * R.z) * v.x + (R.w ^ 2 - R.x ^ 2 + R.y ^ 2 - R.z ^ 2) * v.y
        + 2 * (R.y * R.z - R.w * R.x) * v.z ∧
    (rotVec R v).z = 2 * (R.x * R.z - R.w * R.y) * v.x + 2 * (R.y * R.z + R.w * R.x) * v.y
        + (R.w ^ 2 - R.x ^ 2 - R.y ^ 2 + R.z ^ 2) * v.z := by
  refine ⟨?_, ?_, ?_⟩ <;> simp only [rotVec, qmul, qconj] <;> ring

theorem Kreal_ratio : OpsL.Kreal.sqrt4pi3 = Real.sqrt 2 * OpsL.Kreal.sqrt2pi3 := by
  show Real.sqrt (4 * Real.pi / 3) = Real.sqrt 2 * Real.sqrt (2 * Real.pi / 3)
  rw [← Real.sqrt_mul (by norm_num)]
  congr 1; ring

end DHom
end
