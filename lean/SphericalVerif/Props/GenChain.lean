import SphericalVerif.Props.GenEuler
import SphericalVerif.Props.GenCPow
import SphericalVerif.Props.GenFill
import SphericalVerif.Props.DAll
/-! GenChain — `Wigner.D` for one rotor, **every kernel as the source states it**, wired as the method wires them:

    ```
    to_euler_phases(quaternions[i_R], z)
    Hwedge = self.H(z[1], Hwedge, Hv, Hextra)
    _complex_powers(z[0:1], M, zₐpowers);  _complex_powers(z[2:3], M, zᵧpowers)
    _fill_wigner_D(ell_min, ell_max, mp_max, 𝔇[i_R], Hwedge, zₐpowers[0], zᵧpowers[0])
    ```

    Each kernel below is the GENERATED definition (`Gen/EulerKern`, `Gen/HKern`, `Gen/CPowKern`, `Gen/FillKern`); only the five
    lines of plumbing are written here, with every array on one flat memory under its own id.  `gen_D_chain`: the output cell
    `𝔇[WignerDindex(ell, m', m, ell_min)]` is `Model.objD` — for every arithmetic (IEEE doubles bit for bit) and every previous
    content of the memory — and therefore, over exact reals and for every unit quaternion, the documented 𝔇 (`gen_D_chain_doc`,
    via `DAll.D_all`), for every `ell ≤ ell_max`.

    What the plumbing takes for granted, stated honestly: each kernel's read-only inputs are captured as values at the point
    where the method passes them (the phases right after the Euler kernel, `Hwedge` right after `Wigner.H`, each power array
    right after its `_complex_powers`).  That they are still there when the later kernels read them — i.e. that a kernel writes
    only the arrays it is handed for writing — is the frame property the footprint monitor of C10 checks on the real code on
    every run; it is visible in the generated text (every `fwr` names an output array id) but not restated as a theorem. -/
namespace GenChain
open Gen Model Spec GenH GenFill GenCPow GenEuler

section
variable {α : Type} [Scalar α] {φ : Type} [FMem φ α] [LawfulFMem φ α]

/-- the kernels of `Wigner.D` for one rotor, wired as the method wires them; array ids: `Hwedge, Hv, Hextra = 0, 1, 2`,
    `z`, `zₐpowers`, `zᵧpowers`, `𝔇` = `zI, aI, gI, DI` -/
def wignerD (L : Nat) (ell_min : Int) (zI aI gI DI : Nat) (a b d g h : Int → α) (imsqrt : Cx α → α) (R : Int → α) (st : φ) : φ :=
  let st1 := Gen.u_to_euler_phases (α := α) R zI st
  let z0 := frdC (α := α) st1 zI 0
  let z1 := frdC (α := α) st1 zI 1
  let z2 := frdC (α := α) st1 zI 2
  let stH := Gen.Wigner_H (α := α) g h (L : Int) (L : Int) a b d z1 idW idV idX st1
  let st2 := Gen.u_complex_powers (α := α) (fun _ => z0) (L : Int) aI 1 ((L : Int) + 1) imsqrt 4 stH
  let st3 := Gen.u_complex_powers (α := α) (fun _ => z2) (L : Int) gI 1 ((L : Int) + 1) imsqrt 4 st2
  Gen.u_fill_wigner_D (α := α) ell_min (L : Int) (L : Int) DI (fun i => frd (α := α) stH idW i)
    (fun i => frdC (α := α) st2 aI i) (fun i => frdC (α := α) st3 gI i) st3

/-- **`Wigner.D`, one rotor, from the source of every kernel.** -/
theorem gen_D_chain (L : Nat) (ell_min : Int) (zI aI gI DI : Nat) (a b d g h : Int → α) (ht : TabOK L a b d g h)
    (imsqrt : Cx α → α) (R : Int → α) (F : φ) (J : Loc → α) (h0 : 0 ≤ ell_min)
    (ell : Nat) (mp m : Int) (h1 : ell_min ≤ ell) (hl : ell ≤ L)
    (hp1 : -(ell : Int) ≤ mp) (hp2 : mp ≤ ell) (hm1 : -(ell : Int) ≤ m) (hm2 : m ≤ ell) :
    frdC (α := α) (wignerD L ell_min zI aI gI DI a b d g h imsqrt R F) DI (WignerDindex (ell : Int) mp m ell_min (-1))
      = Model.objD (α := α) L (⟨Gen.u_to_euler_phases (α := α) R zI F, J⟩ : Hyb L L φ α) (R 0) (R 1) (R 2) (R 3) imsqrt ell mp m := by
  unfold wignerD Model.objD
  obtain ⟨e0, e1, e2⟩ : frdC (α := α) (Gen.u_to_euler_phases (α := α) R zI F) zI 0 = (Model.eulerPhases (R 0) (R 1) (R 2) (R 3)).1
      ∧ frdC (α := α) (Gen.u_to_euler_phases (α := α) R zI F) zI 1 = (Model.eulerPhases (R 0) (R 1) (R 2) (R 3)).2.1
      ∧ frdC (α := α) (Gen.u_to_euler_phases (α := α) R zI F) zI 2 = (Model.eulerPhases (R 0) (R 1) (R 2) (R 3)).2.2 :=
    gen_euler_phases R zI F
  rw [fill_D_entry ell_min L L DI _ _ _ _ h0 ell mp m h1 (by omega) hp1 hp2 hm1 hm2]
  rw [e0, e1, e2]
  generalize Model.eulerPhases (R 0) (R 1) (R 2) (R 3) = E
  obtain ⟨z0, z1, z2⟩ := E
  simp only []
  unfold Model.DEntry
  have hz1 : (⟨z1.re, z1.im⟩ : Cx α) = z1 := rfl
  rw [hat_gen L L z1.re z1.im a b d g h ht (Gen.u_to_euler_phases (α := α) R zI F) J ell mp m hl hp1 hp2 hm1 hm2 (by omega)]
  -- the power arrays
  have hg : ∀ k : Nat, k ≤ L → frdC (α := α) (Gen.u_complex_powers (α := α) (fun _ => z2) (L : Int) gI 1 ((L : Int) + 1) imsqrt 4
      (Gen.u_complex_powers (α := α) (fun _ => z0) (L : Int) aI 1 ((L : Int) + 1) imsqrt 4
        (Gen.Wigner_H (α := α) g h (L : Int) (L : Int) a b d z1 idW idV idX (Gen.u_to_euler_phases (α := α) R zI F)))) gI (k : Int)
        = cget (cpowers z2 L imsqrt) k := fun k hk => gen_cpow_cell z2 L gI imsqrt _ k hk
  have ha : ∀ k : Nat, k ≤ L → frdC (α := α) (Gen.u_complex_powers (α := α) (fun _ => z0) (L : Int) aI 1 ((L : Int) + 1) imsqrt 4
        (Gen.Wigner_H (α := α) g h (L : Int) (L : Int) a b d z1 idW idV idX (Gen.u_to_euler_phases (α := α) R zI F))) aI (k : Int)
        = cget (cpowers z0 L imsqrt) k := fun k hk => gen_cpow_cell z0 L aI imsqrt _ k hk
  congr 1
  · congr 1
    by_cases hm : m < 0
    · have e : (-m) = (((-m).toNat : Nat) : Int) := by omega
      rw [if_pos hm, if_pos hm, e, hg _ (by omega)]; simp only [Int.toNat_natCast]
    · have e : m = ((m.toNat : Nat) : Int) := by omega
      rw [if_neg hm, if_neg hm, e, hg _ (by omega)]; simp only [Int.toNat_natCast]
  · by_cases hmp : mp < 0
    · have e : (-mp) = (((-mp).toNat : Nat) : Int) := by omega
      rw [if_pos hmp, if_pos hmp, e, ha _ (by omega)]; simp only [Int.toNat_natCast]
    · have e : mp = ((mp.toNat : Nat) : Int) := by omega
      rw [if_neg hmp, if_neg hmp, e, ha _ (by omega)]; simp only [Int.toNat_natCast]
end

/-- **… hence the documented 𝔇**: over exact reals, for every unit quaternion (all three branches of the Euler-phase
    conversion), every `ell_min ≤ ell ≤ ell_max`, every `|m'|, |m| ≤ ell`, the cell written by the generated kernels is
    `docD ell R_a R_b m' m` — the homogeneous polynomial of docs/WignerDMatrices.md. -/
theorem gen_D_chain_doc {φ : Type} [FMem φ ℝ] [LawfulFMem φ ℝ] (L : Nat) (ell_min : Int) (zI aI gI DI : Nat)
    (a b d g h : Int → ℝ) (ht : TabOK L a b d g h) (imsqrt : Cx ℝ → ℝ)
    (hs : ∀ w : Cx ℝ, w.re ^ 2 + w.im ^ 2 = 1 → 2 * (imsqrt w) ^ 2 = 1 - w.re)
    (R : Int → ℝ) (hR : R 0 ^ 2 + R 1 ^ 2 + R 2 ^ 2 + R 3 ^ 2 = 1) (F : φ) (h0 : 0 ≤ ell_min)
    (ell : Nat) (mp m : Int) (h1 : ell_min ≤ ell) (hl : ell ≤ L) (hmp : mp.natAbs ≤ ell) (hm : m.natAbs ≤ ell) :
    CPow.toC (frdC (α := ℝ) (wignerD L ell_min zI aI gI DI a b d g h imsqrt R F) DI (WignerDindex (ell : Int) mp m ell_min (-1)))
      = DDef.docD ell (DDef.Ra (R 0) (R 3)) (DDef.Rb (R 1) (R 2)) mp m := by
  rw [gen_D_chain L ell_min zI aI gI DI a b d g h ht imsqrt R F (fun _ => 0) h0 ell mp m h1 hl (by omega) (by omega) (by omega) (by omega)]
  exact DAll.D_all L _ (R 0) (R 1) (R 2) (R 3) hR imsqrt hs ell hl mp m hmp hm

end GenChain
