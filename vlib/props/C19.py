"""C19 — constant and vector conversions are the ell=0 and ell=1 scalar harmonics.

Obligations: Props/C19.lean (round trips in exact arithmetic; coefficients).
Gap/search: evaluation of the weights at random directions incl. poles (= c, = v.n), round trips, arrays along the last
axis, rotation of the weights by conj(R) vs rotation of the vector by R."""
import math

import itertools
import numpy as np

from .. import helpers
from . import common

EPS = 2.0 ** -52


def check(run):
    import spherical
    import quaternionic
    quick = run.tier == "quick"
    run.regenerate()
    run.lean_props(common.modules_for("C19"))
    from .. import glue_diff
    run.attempt("corr:glue_diff.corr", glue_diff.corr, run, quick, parts=("conv",))   # operators/conversions: model vs implementation, bit for bit
    rng = run.rng
    w0 = spherical.Wigner(1, mp_max=0)
    wf = spherical.Wigner(1)
    # "evaluate to c / v.n" and "rotate like the vector" are statements about the weights, whichever calculator evaluates them:
    # calculators larger than the data, restricted mp_max, both strategies
    calcs = [("Wigner(1,mp_max=0)", w0), ("Wigner(1)", wf), ("Wigner(3)", spherical.Wigner(3)), ("Wigner(8)", spherical.Wigner(8)),
             ("Wigner(5,mp_max=1)", spherical.Wigner(5, mp_max=1)), ("Wigner(16)", spherical.Wigner(16))]
    evals = [(nm, w, h) for nm, w in calcs for h in (True, False)]
    rots = [(nm, w, h) for nm, w in calcs if w.mp_max >= w.ell_max for h in (True, False)]   # rotate documents that it needs the full matrix
    dirs = [(0.0, 0.0), (math.pi, 0.0), (math.pi / 2, 0.0), (1e-9, 2.0), (math.pi - 1e-9, 1.0)] + [(math.acos(rng.uniform(-1, 1)), rng.uniform(0, 2 * math.pi)) for _ in range(8 if quick else 60)]
    for _ in range(12 if quick else 120):
        c = complex(rng.gauss(0, 3), rng.gauss(0, 3)) if rng.random() < 0.8 else complex(rng.choice([0.0, 1.0, -2.5]))
        wgt = spherical.constant_as_ell_0_mode(c)
        back = spherical.constant_from_ell_0_mode(wgt)
        run.gap_case("constant", c, "constant", {"c": [c.real, c.imag]})
        if not (abs(back - c) <= 4 * EPS * abs(c)):
            run.violation("constant-round-trip", "constant_from_ell_0_mode", {"c": [c.real, c.imag]}, c, back)
        m = spherical.Modes(np.array([wgt, 0, 0, 0], dtype=complex), spin_weight=0, ell_min=0, ell_max=1)
        # the ell = 0 weight on its own (ell_max = 0): through Wigner(0), both strategies, and the Modes front ends
        m00 = spherical.Modes(np.array([wgt], dtype=complex), spin_weight=0, ell_min=0, ell_max=0)
        Rany = quaternionic.array(helpers.random_rotor(rng))
        wz = spherical.Wigner(0)
        for nm, fn in (("Wigner(0).evaluate[horner=True]", lambda: wz.evaluate(m00, Rany, horner=True)), ("Wigner(0).evaluate[horner=False]", lambda: wz.evaluate(m00, Rany, horner=False)),
                       ("Modes.evaluate", lambda: m00.evaluate(Rany)), ("Wigner(3).evaluate", lambda: spherical.Wigner(3).evaluate(m00, Rany, horner=True)),
                       ("Wigner(0).rotate[horner=True]", lambda: spherical.constant_from_ell_0_mode(wz.rotate(m00, Rany, horner=True).ndarray[0])),
                       ("Wigner(0).rotate[horner=False]", lambda: spherical.constant_from_ell_0_mode(wz.rotate(m00, Rany, horner=False).ndarray[0])),
                       ("Modes.rotate", lambda: spherical.constant_from_ell_0_mode(m00.rotate(Rany).ndarray[0]))):
            try:
                val = complex(fn())
            except Exception as e:
                run.violation("constant-evaluation", "constant_as_ell_0_mode", {"c": [c.real, c.imag], "route": nm}, c, repr(e))
                continue
            if not (abs(val - c) <= 16 * EPS * max(abs(c), 1e-300)):
                run.violation("constant-evaluation", "constant_as_ell_0_mode", {"c": [c.real, c.imag], "route": nm, "R": list(Rany.ndarray)}, c, val)
        for k, (th, ph) in enumerate(dirs[:6]):
            for nm, w, h in (evals if k == 0 else [evals[rng.randrange(len(evals))]]):
                val = complex(w.evaluate(m, quaternionic.array.from_spherical_coordinates(th, ph), horner=h))
                if not (abs(val - c) <= 16 * EPS * max(abs(c), 1e-300)):
                    run.violation("constant-evaluation", "constant_as_ell_0_mode", {"c": [c.real, c.imag], "theta": th, "phi": ph, "calculator": nm, "horner": h}, c, val)
        vec = np.array([complex(rng.gauss(0, 1), rng.gauss(0, 1) if rng.random() < 0.5 else 0.0) for _ in range(3)])
        if rng.random() < 0.5:
            vec = vec.real.astype(float)
        wv = spherical.vector_as_ell_1_modes(vec)
        vb = spherical.vector_from_ell_1_modes(wv)
        inp = {"v": [str(x) for x in vec]}
        run.gap_case("vector", tuple(str(x) for x in vec), "complex" if np.iscomplexobj(vec) else "real", inp)
        if wv.shape != (3,) or not np.allclose(vb, vec, rtol=0, atol=8 * EPS * max(float(np.max(np.abs(vec))), 1e-300)):
            run.violation("vector-round-trip", "vector_from_ell_1_modes", inp, str(vec), str(vb))
        m = spherical.Modes(np.concatenate([[0], wv]).astype(complex), spin_weight=0, ell_min=0, ell_max=1)
        bad = False
        for k, (th, ph) in enumerate(dirs):
            n = np.array([math.sin(th) * math.cos(ph), math.sin(th) * math.sin(ph), math.cos(th)])
            want = complex(np.dot(vec, n))
            for nm, w, h in (evals if k in (2, 5) else [evals[0], evals[rng.randrange(len(evals))]]):
                val = complex(w.evaluate(m, quaternionic.array.from_spherical_coordinates(th, ph), horner=h))
                if not (abs(val - want) <= 32 * EPS * max(float(np.max(np.abs(vec))), 1e-300)):
                    run.violation("vector-evaluation", "vector_as_ell_1_modes", {**inp, "theta": th, "phi": ph, "calculator": nm, "horner": h}, want, val)
                    bad = True
                    break
            if bad:
                break
        val = complex(m.evaluate(quaternionic.array.from_spherical_coordinates(*dirs[5])))
        n = np.array([math.sin(dirs[5][0]) * math.cos(dirs[5][1]), math.sin(dirs[5][0]) * math.sin(dirs[5][1]), math.cos(dirs[5][0])])
        if not (abs(val - complex(np.dot(vec, n))) <= 32 * EPS * max(float(np.max(np.abs(vec))), 1e-300)):
            run.violation("vector-evaluation", "vector_as_ell_1_modes", {**inp, "theta": dirs[5][0], "phi": dirs[5][1], "calculator": "Modes.evaluate"}, complex(np.dot(vec, n)), val)
        # rotation: rotating the weights by conj(R) corresponds to rotating the vector by R
        R = quaternionic.array(helpers.random_rotor(rng)) if rng.random() < 0.8 else quaternionic.array([0.0, 0.6, 0.8, 0.0])
        vr = vec.real.astype(float) if np.iscomplexobj(vec) else vec
        mr = spherical.Modes(np.concatenate([[0], spherical.vector_as_ell_1_modes(vr)]).astype(complex), spin_weight=0, ell_min=0, ell_max=1)
        want = (R * quaternionic.array.from_vector_part(vr) * R.conjugate()).vector
        for nm, w, horner in rots:
            rot = w.rotate(mr, R.conjugate(), horner=horner).ndarray[1:]
            v2 = spherical.vector_from_ell_1_modes(rot)
            if not np.allclose(v2.real, want, rtol=0, atol=32 * EPS * max(float(np.max(np.abs(vr))), 1e-300)) or not np.allclose(v2.imag, 0, atol=32 * EPS * max(float(np.max(np.abs(vr))), 1e-300)):
                run.violation("vector-rotation", f"rotate[horner={horner}]", {**inp, "R": list(R.ndarray), "calculator": nm}, str(want), str(v2))
    # arrays of vectors / constants along the last axis
    # memory layouts of the array of vectors: C order, Fortran order, a transposed view of the leading axes, a strided view, a reversed view
    layouts = [("C", lambda A: A), ("F", np.asfortranarray), ("swapped-leading-axes", lambda A: np.ascontiguousarray(np.swapaxes(A, 0, -2)).swapaxes(0, -2) if A.ndim >= 3 else A),
               ("strided", lambda A: np.repeat(A, 2, axis=0)[::2]), ("reversed", lambda A: A[::-1][::-1] if A.ndim < 2 else np.ascontiguousarray(A[..., ::-1])[..., ::-1])]
    for shape, (lname, lay) in itertools.product([(2,), (2, 3), (1, 2, 2), (3, 2), (2, 3, 4)], layouts):
        V = lay(np.array([rng.gauss(0, 1) for _ in range(int(np.prod(shape)) * 3)]).reshape(shape + (3,)))
        assert V.shape == shape + (3,)
        V0 = V.copy()
        Wv = spherical.vector_as_ell_1_modes(V)
        run.gap_case("arrays", (shape, lname), f"arrays|{lname}|ndim={len(shape) + 1}")
        if not np.array_equal(V, V0):
            run.violation("vector-array-input-modified", "vector_as_ell_1_modes", {"shape": list(shape), "layout": lname}, "input untouched", "modified")
        Wl = lay(np.ascontiguousarray(Wv)) if Wv.shape == shape + (3,) else None
        if Wl is not None:
            Vl = spherical.vector_from_ell_1_modes(Wl)
            if Vl.shape != shape + (3,) or not np.allclose(Vl, V0, atol=1e-15):
                run.violation("vector-array-round-trip", "vector_from_ell_1_modes", {"shape": list(shape), "layout": lname, "V": V0.tolist()}, "input", "differs")
        if Wv.shape != shape + (3,):
            run.violation("vector-array-shape", "vector_as_ell_1_modes", {"shape": list(shape)}, list(shape + (3,)), list(Wv.shape))
            continue
        flat = V.reshape(-1, 3)
        for i in range(flat.shape[0]):
            if not np.array_equal(Wv.reshape(-1, 3)[i], spherical.vector_as_ell_1_modes(flat[i])):
                run.violation("vector-array-differs-from-single", "vector_as_ell_1_modes", {"shape": list(shape), "layout": lname, "i": i, "V": V0.tolist()}, "per-vector result", "differs")
        Vb = spherical.vector_from_ell_1_modes(Wv)
        if Vb.shape != shape + (3,) or not np.allclose(Vb, V, atol=1e-15):
            run.violation("vector-array-round-trip", "vector_from_ell_1_modes", {"shape": list(shape)}, "input", "differs")
        C = np.array([complex(rng.gauss(0, 1), rng.gauss(0, 1)) for _ in range(int(np.prod(shape)))]).reshape(shape)
        if not np.allclose(spherical.constant_from_ell_0_mode(spherical.constant_as_ell_0_mode(C)), C, atol=1e-15):
            run.violation("constant-array-round-trip", "constant_from_ell_0_mode", {"shape": list(shape)}, "input", "differs")
    run.assumptions += ["evaluation identities use Wigner.evaluate (C03) and the ell<=1 definition of D (C01); rounding bounds are fixed multiples of eps"]


def replay(body):
    print(body["input"], body["expected"], body["got"])
    return 0
