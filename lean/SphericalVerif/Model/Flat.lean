import SphericalVerif.Gen.Indexing
/-! Transcription of the *flat index arithmetic* of `_evaluate_Horner` and `_rotate_Horner`
    (spherical/wigner.py).  Those kernels do not call `WignerHindex` per cell; they compute three start
    indices with `_WignerHindex` and then walk the flat `Hwedge` array incrementally:

    ```
    i_H  = _WignerHindex(ell, 0, abs_s, mp_max_w)
    i_Hn = _WignerHindex(ell, spin_weight_m, ell, mp_max_w)
    i_Hp = _WignerHindex(ell, -spin_weight_m, ell, mp_max_w)
    ... read Hwedge[i_Hn], Hwedge[i_Hp]                      # m = ell
    for m in range(ell-1, i0, -1):   i_Hn -= 1; i_Hp -= 1; read
    if -spin_weight_m >= 0:
        for m in range(i0, 0, -1):   i_Hn += ell - m + 1; i_Hp -= ell - m; read
    else:
        for m in range(i0, 0, -1):   i_Hn -= ell - m; i_Hp += ell - m + 1; read
    ```
    with `i0 = max(0, abs_s-1)`.  `_rotate_Horner` is the same text with `(n, m)` for `(m, -s)`:
    start columns `-m`/`m`, `i_nm = max(0, abs_m-1)`, branch `m >= 0`.

    Only the index arithmetic is modelled here (the arithmetic on values is `Model.evalEll` /
    `Model.rotateHornerEntry`).  `Props/IndexWalk` proves that the indices produced here are
    `WignerHindex` of exactly the coordinates those models read.  Core Lean only. -/
namespace Model.Flat
open Gen

/-- state of the walk: `(i_Hn, i_Hp)` -/
abbrev St := Int × Int

/-- `k` iterations of the first loop body `i_Hn -= 1; i_Hp -= 1` -/
def loopA (st : St) : Nat → St
  | 0 => st
  | k + 1 =>
    let (n, p) := loopA st k
    (n - 1, p - 1)

/-- `j` iterations of the second loop `for m in range(mTop, 0, -1)`; iteration number `j` (from 0) has
    `m = mTop - j`.  `up` is the value of the branch condition (`-spin_weight_m >= 0`, resp. `m >= 0`);
    the two branches are the two textual copies of the loop. -/
def loopB (ell : Int) (up : Bool) (mTop : Int) (st : St) : Nat → St
  | 0 => st
  | j + 1 =>
    let (n, p) := loopB ell up mTop st j
    let m : Int := mTop - (j : Int)
    if up then (n + (ell - m + 1), p - (ell - m))
    else (n - (ell - m), p + (ell - m + 1))

/-- number of iterations of Python's `range(a, b, -1)` -/
def rangeDownLen (a b : Int) : Nat := (a - b).toNat

/-- The loop skeleton shared by the two kernels: `st0` is the pair of start indices, `i0` the loop split point,
    `up` the branch condition; the result is the state `(i_Hn, i_Hp)` at the moment the reads for the loop
    variable `m` happen (`m = ell`: the reads before the loops). -/
def walk (ell : Int) (st0 : St) (i0 : Int) (up : Bool) (m : Int) : St :=
  if m > i0 then
    -- `m` is reached in the first loop (or is the initial `m = ell`): `ell - m` iterations so far
    loopA st0 (ell - m).toNat
  else
    -- first loop complete: `range(ell-1, i0, -1)`; second loop has run for loop variable i0, …, m
    loopB ell up i0 (loopA st0 (rangeDownLen (ell - 1) i0)) (i0 - m + 1).toNat

/-! ### `_evaluate_Horner` -/

/-- `i0 = max(0, abs_s - 1)` -/
def i0_eval (s : Int) : Int := max 0 (((Int.natAbs s : Nat) : Int) - 1)

/-- `(i_Hn, i_Hp)` when `_evaluate_Horner` reads the `m` terms -/
def st_eval (ell s P m : Int) : St :=
  -- i_Hn = _WignerHindex(ell, spin_weight_m, ell, mp_max_w); i_Hp = _WignerHindex(ell, -spin_weight_m, ell, mp_max_w)
  walk ell (u_WignerHindex ell s ell P, u_WignerHindex ell (-s) ell P) (i0_eval s) (decide (-s ≥ 0)) m

/-- value of `i_Hn` at the read `Hwedge[i_Hn]  # H(ell, -m, -s)` -/
def iHn_eval (ell s P : Int) (m : Int) : Int := (st_eval ell s P m).1
/-- value of `i_Hp` at the read `Hwedge[i_Hp]  # H(ell, m, -s)` -/
def iHp_eval (ell s P : Int) (m : Int) : Int := (st_eval ell s P m).2
/-- `i_H` of the read `Hwedge[i_H]  # H(ell, 0, -s)` -/
def iH0_eval (ell s P : Int) : Int := u_WignerHindex ell 0 ((Int.natAbs s : Nat) : Int) P

/-! ### `_rotate_Horner` (output order `m`, loop variable `n`) -/

/-- `i_nm = max(0, abs_m - 1)` -/
def i0_rot (m : Int) : Int := max 0 (((Int.natAbs m : Nat) : Int) - 1)

/-- `(i_Hn, i_Hp)` when `_rotate_Horner` reads the `n` terms of output order `m`:
    `i_Hn = _WignerHindex(ell, -m, ell, mp_max_w)`, `i_Hp = _WignerHindex(ell, m, ell, mp_max_w)`, branch `m >= 0`. -/
def st_rot (ell m P n : Int) : St :=
  walk ell (u_WignerHindex ell (-m) ell P, u_WignerHindex ell m ell P) (i0_rot m) (decide (m ≥ 0)) n

/-- value of `i_Hn` at the read `Hwedge[i_Hn]  # H(ell, -n, m)` -/
def iHn_rot (ell m P : Int) (n : Int) : Int := (st_rot ell m P n).1
/-- value of `i_Hp` at the read `Hwedge[i_Hp]  # H(ell, n, m)` -/
def iHp_rot (ell m P : Int) (n : Int) : Int := (st_rot ell m P n).2
/-- `i_H` of the read `Hwedge[i_H]  # H(ell, 0, m)` -/
def iH0_rot (ell m P : Int) : Int := u_WignerHindex ell 0 ((Int.natAbs m : Nat) : Int) P

end Model.Flat
