import SphericalVerif.Props.DDef2
import SphericalVerif.Lemmas.DHom
/-! DHom — the group laws of Wigner's D for ℓ = 1, 2, as theorems about the documented sum `DDef.docD` and about
    what the object-level model `Model.objD` of `Wigner.D` computes (exact arithmetic, `α := ℝ`).

    Property theorems only; helpers live in `Lemmas/DHom.lean`.  Setting as in `Props/DDef.lean`, `Props/DDef2.lean`:
    every unit quaternion (degenerate branches of `to_euler_phases` included), every lawful workspace memory and
    initial content, every calculator size `ell_max ≥ ℓ`, every `imsqrt` with `2·imsqrt(w)² = 1 − Re w` on the unit
    circle.  In the laws relating several calls (`D_hom_*`, `D_inverse_*`, `D_neg_*`) every call has its OWN
    memory type, initial content, size and `imsqrt`.

    A rotor is a `Model.Quat ℝ` = (w, x, y, z); `qmul` is the product of `quaternionic`,
      (w1,x1,y1,z1)·(w2,x2,y2,z2) = (w1w2−x1x2−y1y2−z1z2, w1x2+x1w2+y1z2−z1y2, w1y2−x1z2+y1w2+z1x2, w1z2+x1y2−y1x2+z1w2),
    `qconj` = (w, −x, −y, −z), `qneg` = (−w, −x, −y, −z); `QA R = R_a = w + i z`, `QB R = R_b = y + i x`.
    Matrices have rows m', columns m; the library's law (tests/test_wigner_D.py) is 𝔇(R₁R₂) = 𝔇(R₁)·𝔇(R₂).

    Proved for ℓ = 1 and ℓ = 2:
      * `Ra_mul`, `Rb_mul`        R_a(R₁R₂) = R_a R_a' − conj(R_b) R_b',  R_b(R₁R₂) = R_b R_a' + conj(R_a) R_b'
      * `docD_hom_ell*`           the documented sum is a representation — for ALL complex (R_a, R_b), no unit norm
      * `D_hom_ell*`              the model:  𝔇(R₁R₂)_{m',m} = Σ_k 𝔇(R₁)_{m',k} 𝔇(R₂)_{k,m}
      * `D_unitary_ell*`          Σ_k 𝔇_{m',k} conj 𝔇_{m,k} = δ_{m',m}
      * `D_inverse_ell*`          𝔇(R̄)_{m',m} = conj 𝔇(R)_{m,m'}
      * `D_neg_ell*`              𝔇(−R) = 𝔇(R)
      * `rotation_matrix_ell1`    (C19) `f @ 𝔇¹(R̄)` on the weights of a real vector v = the weights of R v R̄
    For ℓ ≥ 3 the model is identified with the documented sum in `Props/DAll.lean`; the group laws of the documented sum for every ℓ are the subject of `Props/DocHom.lean`. -/
noncomputable section
namespace DHom
open Model Model.Ops Spec Horner DDef DDef2
open scoped ComplexConjugate

/-! ### 1. the quaternion product in terms of R_a, R_b -/

/-- R_a(PQ) = R_a(P) R_a(Q) − conj(R_b(P)) R_b(Q) -/
theorem Ra_mul (P Q : Quat ℝ) :
    Ra (qmul P Q).w (qmul P Q).z = Ra P.w P.z * Ra Q.w Q.z - conj (Rb P.x P.y) * Rb Q.x Q.y :=
  QA_mul P Q

/-- R_b(PQ) = R_b(P) R_a(Q) + conj(R_a(P)) R_b(Q) -/
theorem Rb_mul (P Q : Quat ℝ) :
    Rb (qmul P Q).x (qmul P Q).y = Rb P.x P.y * Ra Q.w Q.z + conj (Ra P.w P.z) * Rb Q.x Q.y :=
  QB_mul P Q

/-- the norm is multiplicative, so the product of unit quaternions is a unit quaternion -/
theorem quat_mul_unit (P Q : Quat ℝ) (hP : P.w ^ 2 + P.x ^ 2 + P.y ^ 2 + P.z ^ 2 = 1)
    (hQ : Q.w ^ 2 + Q.x ^ 2 + Q.y ^ 2 + Q.z ^ 2 = 1) :
    (qmul P Q).w ^ 2 + (qmul P Q).x ^ 2 + (qmul P Q).y ^ 2 + (qmul P Q).z ^ 2 = 1 := by
  rw [quat_mul_normSq, hP, hQ, mul_one]

/-- R_a(R̄) = conj R_a, R_b(R̄) = −R_b, R_a(−R) = −R_a, R_b(−R) = −R_b; |R_a|² + |R_b|² = |R|² -/
theorem Ra_Rb_conj_neg (R : Quat ℝ) :
    Ra (qconj R).w (qconj R).z = conj (Ra R.w R.z) ∧ Rb (qconj R).x (qconj R).y = -Rb R.x R.y ∧
    Ra (qneg R).w (qneg R).z = -Ra R.w R.z ∧ Rb (qneg R).x (qneg R).y = -Rb R.x R.y ∧
    Ra R.w R.z * conj (Ra R.w R.z) + Rb R.x R.y * conj (Rb R.x R.y)
      = ((R.w ^ 2 + R.x ^ 2 + R.y ^ 2 + R.z ^ 2 : ℝ) : ℂ) :=
  ⟨QA_conj R, QB_conj R, QA_neg R, QB_neg R, QAB_normSq R⟩

/-! ### 2. the documented sum is a representation (polynomial identities: no unit-norm hypothesis) -/

/-- ℓ = 1: D(A₁₂, B₁₂) = D(A₁, B₁)·D(A₂, B₂) with A₁₂ = A₁A₂ − conj(B₁)B₂, B₁₂ = B₁A₂ + conj(A₁)B₂,
    for ALL complex A₁, B₁, A₂, B₂ -/
theorem docD_hom_ell1 (A1 B1 A2 B2 : ℂ) (mp m : ℤ) (hmp : mp.natAbs ≤ 1) (hm : m.natAbs ≤ 1) :
    docD 1 (A1 * A2 - conj B1 * B2) (B1 * A2 + conj A1 * B2) mp m
      = ∑ k ∈ Finset.Icc (-1 : ℤ) 1, docD 1 A1 B1 mp k * docD 1 A2 B2 k m := by
  rw [sum_Icc1, docD1_T (A1 * A2 - conj B1 * B2) _ mp m hmp hm,
    docD1_T A1 B1 mp (-1) hmp (by decide), docD1_T A1 B1 mp 0 hmp (by decide),
    docD1_T A1 B1 mp 1 hmp (by decide), docD1_T A2 B2 (-1) m (by decide) hm,
    docD1_T A2 B2 0 m (by decide) hm, docD1_T A2 B2 1 m (by decide) hm]
  simp only [map_sub, map_add, map_mul, Complex.conj_conj]
  exact T1_hom _ A1 (conj A1) B1 (conj B1) A2 (conj A2) B2 (conj B2) sqrt2C_sq mp m hmp hm

/-- ℓ = 2: the same, 25 entries, five terms each -/
theorem docD_hom_ell2 (A1 B1 A2 B2 : ℂ) (mp m : ℤ) (hmp : mp.natAbs ≤ 2) (hm : m.natAbs ≤ 2) :
    docD 2 (A1 * A2 - conj B1 * B2) (B1 * A2 + conj A1 * B2) mp m
      = ∑ k ∈ Finset.Icc (-2 : ℤ) 2, docD 2 A1 B1 mp k * docD 2 A2 B2 k m := by
  rw [sum_Icc2, docD2_T (A1 * A2 - conj B1 * B2) _ mp m hmp hm,
    docD2_T A1 B1 mp (-2) hmp (by decide), docD2_T A1 B1 mp (-1) hmp (by decide),
    docD2_T A1 B1 mp 0 hmp (by decide), docD2_T A1 B1 mp 1 hmp (by decide),
    docD2_T A1 B1 mp 2 hmp (by decide), docD2_T A2 B2 (-2) m (by decide) hm,
    docD2_T A2 B2 (-1) m (by decide) hm, docD2_T A2 B2 0 m (by decide) hm,
    docD2_T A2 B2 1 m (by decide) hm, docD2_T A2 B2 2 m (by decide) hm]
  simp only [map_sub, map_add, map_mul, Complex.conj_conj]
  exact T2_hom _ A1 (conj A1) B1 (conj B1) A2 (conj A2) B2 (conj B2) sqrt6C_sq mp m hmp hm

/-- ℓ = 1: D·D† = (|A|² + |B|²)² · 1 for ALL complex A, B (so D is unitary when |A|² + |B|² = 1) -/
theorem docD_unitary_ell1 (A B : ℂ) (mp m : ℤ) (hmp : mp.natAbs ≤ 1) (hm : m.natAbs ≤ 1) :
    ∑ k ∈ Finset.Icc (-1 : ℤ) 1, docD 1 A B mp k * conj (docD 1 A B m k)
      = if mp = m then (A * conj A + B * conj B) ^ 2 else 0 := by
  rw [sum_Icc1, docD1_T A B mp (-1) hmp (by decide), docD1_T A B mp 0 hmp (by decide),
    docD1_T A B mp 1 hmp (by decide), docD1_T A B m (-1) hm (by decide), docD1_T A B m 0 hm (by decide),
    docD1_T A B m 1 hm (by decide)]
  simp only [T1_conj, sqrt2C_conj, Complex.conj_conj]
  exact T1_unitary _ A (conj A) B (conj B) sqrt2C_sq mp m hmp hm

/-- ℓ = 2: D·D† = (|A|² + |B|²)⁴ · 1 for ALL complex A, B -/
theorem docD_unitary_ell2 (A B : ℂ) (mp m : ℤ) (hmp : mp.natAbs ≤ 2) (hm : m.natAbs ≤ 2) :
    ∑ k ∈ Finset.Icc (-2 : ℤ) 2, docD 2 A B mp k * conj (docD 2 A B m k)
      = if mp = m then (A * conj A + B * conj B) ^ 4 else 0 := by
  rw [sum_Icc2, docD2_T A B mp (-2) hmp (by decide), docD2_T A B mp (-1) hmp (by decide),
    docD2_T A B mp 0 hmp (by decide), docD2_T A B mp 1 hmp (by decide), docD2_T A B mp 2 hmp (by decide),
    docD2_T A B m (-2) hm (by decide), docD2_T A B m (-1) hm (by decide), docD2_T A B m 0 hm (by decide),
    docD2_T A B m 1 hm (by decide), docD2_T A B m 2 hm (by decide)]
  simp only [T2_conj, sqrt6C_conj, Complex.conj_conj]
  exact T2_unitary _ A (conj A) B (conj B) sqrt6C_sq mp m hmp hm

/-- D(conj A, −B) is the conjugate transpose of D(A, B), and D(−A, −B) = D(A, B); ℓ = 1, ALL complex A, B -/
theorem docD_inverse_neg_ell1 (A B : ℂ) (mp m : ℤ) (hmp : mp.natAbs ≤ 1) (hm : m.natAbs ≤ 1) :
    docD 1 (conj A) (-B) mp m = conj (docD 1 A B m mp) ∧ docD 1 (-A) (-B) mp m = docD 1 A B mp m := by
  rw [docD1_T _ _ mp m hmp hm, docD1_T A B m mp hm hmp, docD1_T (-A) _ mp m hmp hm, docD1_T A B mp m hmp hm]
  simp only [T1_conj, sqrt2C_conj, Complex.conj_conj, map_neg]
  exact ⟨T1_inv _ A (conj A) B (conj B) mp m hmp hm, T1_neg _ A (conj A) B (conj B) mp m⟩

/-- the same for ℓ = 2 -/
theorem docD_inverse_neg_ell2 (A B : ℂ) (mp m : ℤ) (hmp : mp.natAbs ≤ 2) (hm : m.natAbs ≤ 2) :
    docD 2 (conj A) (-B) mp m = conj (docD 2 A B m mp) ∧ docD 2 (-A) (-B) mp m = docD 2 A B mp m := by
  rw [docD2_T _ _ mp m hmp hm, docD2_T A B m mp hm hmp, docD2_T (-A) _ mp m hmp hm, docD2_T A B mp m hmp hm]
  simp only [T2_conj, sqrt6C_conj, Complex.conj_conj, map_neg]
  exact ⟨T2_inv _ A (conj A) B (conj B) mp m hmp hm, T2_neg _ A (conj A) B (conj B) mp m⟩

/-! ### 3. the model: 𝔇(R₁R₂) = 𝔇(R₁)·𝔇(R₂) -/

section
variable {μ μ₁ μ₂ : Type} [Mem μ ℝ] [LawfulMem μ ℝ] [Mem μ₁ ℝ] [LawfulMem μ₁ ℝ] [Mem μ₂ ℝ] [LawfulMem μ₂ ℝ]

/-- ℓ = 1: what `Wigner.D` computes for the product P·Q is the matrix product of what it computes for P and for Q —
    the three calls on arbitrary (different) calculators, workspaces, workspace contents -/
theorem D_hom_ell1 (L L₁ L₂ : ℕ) (hL : 1 ≤ L) (hL₁ : 1 ≤ L₁) (hL₂ : 1 ≤ L₂) (st : μ) (st₁ : μ₁) (st₂ : μ₂)
    (P Q : Quat ℝ) (hP : P.w ^ 2 + P.x ^ 2 + P.y ^ 2 + P.z ^ 2 = 1) (hQ : Q.w ^ 2 + Q.x ^ 2 + Q.y ^ 2 + Q.z ^ 2 = 1)
    (imsqrt imsqrt₁ imsqrt₂ : Cx ℝ → ℝ)
    (hs : ∀ w : Cx ℝ, w.re ^ 2 + w.im ^ 2 = 1 → 2 * (imsqrt w) ^ 2 = 1 - w.re)
    (hs₁ : ∀ w : Cx ℝ, w.re ^ 2 + w.im ^ 2 = 1 → 2 * (imsqrt₁ w) ^ 2 = 1 - w.re)
    (hs₂ : ∀ w : Cx ℝ, w.re ^ 2 + w.im ^ 2 = 1 → 2 * (imsqrt₂ w) ^ 2 = 1 - w.re)
    (mp m : ℤ) (hmp : mp.natAbs ≤ 1) (hm : m.natAbs ≤ 1) :
    toC (objD L st (qmul P Q).w (qmul P Q).x (qmul P Q).y (qmul P Q).z imsqrt 1 mp m)
      = ∑ k ∈ Finset.Icc (-1 : ℤ) 1,
          toC (objD L₁ st₁ P.w P.x P.y P.z imsqrt₁ 1 mp k) * toC (objD L₂ st₂ Q.w Q.x Q.y Q.z imsqrt₂ 1 k m) := by
  rw [objD1_doc L hL st (qmul P Q) (quat_mul_unit P Q hP hQ) imsqrt hs mp m hmp hm, QA_mul, QB_mul,
    docD_hom_ell1 _ _ _ _ mp m hmp hm]
  apply Finset.sum_congr rfl
  intro k hk
  rw [Finset.mem_Icc] at hk
  have hk' : k.natAbs ≤ 1 := by omega
  rw [objD1_doc L₁ hL₁ st₁ P hP imsqrt₁ hs₁ mp k hmp hk', objD1_doc L₂ hL₂ st₂ Q hQ imsqrt₂ hs₂ k m hk' hm]

/-- ℓ = 2 -/
theorem D_hom_ell2 (L L₁ L₂ : ℕ) (hL : 2 ≤ L) (hL₁ : 2 ≤ L₁) (hL₂ : 2 ≤ L₂) (st : μ) (st₁ : μ₁) (st₂ : μ₂)
    (P Q : Quat ℝ) (hP : P.w ^ 2 + P.x ^ 2 + P.y ^ 2 + P.z ^ 2 = 1) (hQ : Q.w ^ 2 + Q.x ^ 2 + Q.y ^ 2 + Q.z ^ 2 = 1)
    (imsqrt imsqrt₁ imsqrt₂ : Cx ℝ → ℝ)
    (hs : ∀ w : Cx ℝ, w.re ^ 2 + w.im ^ 2 = 1 → 2 * (imsqrt w) ^ 2 = 1 - w.re)
    (hs₁ : ∀ w : Cx ℝ, w.re ^ 2 + w.im ^ 2 = 1 → 2 * (imsqrt₁ w) ^ 2 = 1 - w.re)
    (hs₂ : ∀ w : Cx ℝ, w.re ^ 2 + w.im ^ 2 = 1 → 2 * (imsqrt₂ w) ^ 2 = 1 - w.re)
    (mp m : ℤ) (hmp : mp.natAbs ≤ 2) (hm : m.natAbs ≤ 2) :
    toC (objD L st (qmul P Q).w (qmul P Q).x (qmul P Q).y (qmul P Q).z imsqrt 2 mp m)
      = ∑ k ∈ Finset.Icc (-2 : ℤ) 2,
          toC (objD L₁ st₁ P.w P.x P.y P.z imsqrt₁ 2 mp k) * toC (objD L₂ st₂ Q.w Q.x Q.y Q.z imsqrt₂ 2 k m) := by
  rw [objD2_doc L hL st (qmul P Q) (quat_mul_unit P Q hP hQ) imsqrt hs mp m hmp hm, QA_mul, QB_mul,
    docD_hom_ell2 _ _ _ _ mp m hmp hm]
  apply Finset.sum_congr rfl
  intro k hk
  rw [Finset.mem_Icc] at hk
  have hk' : k.natAbs ≤ 2 := by omega
  rw [objD2_doc L₁ hL₁ st₁ P hP imsqrt₁ hs₁ mp k hmp hk', objD2_doc L₂ hL₂ st₂ Q hQ imsqrt₂ hs₂ k m hk' hm]

/-! ### 4. unitarity, inverse, sign -/

/-- ℓ = 1: the rows of 𝔇(R) are orthonormal, Σ_k 𝔇_{m',k} conj(𝔇_{m,k}) = δ_{m',m} -/
theorem D_unitary_ell1 (L : ℕ) (hL : 1 ≤ L) (st : μ) (R : Quat ℝ)
    (hR : R.w ^ 2 + R.x ^ 2 + R.y ^ 2 + R.z ^ 2 = 1) (imsqrt : Cx ℝ → ℝ)
    (hs : ∀ w : Cx ℝ, w.re ^ 2 + w.im ^ 2 = 1 → 2 * (imsqrt w) ^ 2 = 1 - w.re)
    (mp m : ℤ) (hmp : mp.natAbs ≤ 1) (hm : m.natAbs ≤ 1) :
    ∑ k ∈ Finset.Icc (-1 : ℤ) 1,
        toC (objD L st R.w R.x R.y R.z imsqrt 1 mp k) * conj (toC (objD L st R.w R.x R.y R.z imsqrt 1 m k))
      = if mp = m then 1 else 0 := by
  have h := docD_unitary_ell1 (QA R) (QB R) mp m hmp hm
  rw [QAB_unit R hR, one_pow] at h
  rw [← h]
  apply Finset.sum_congr rfl
  intro k hk
  rw [Finset.mem_Icc] at hk
  have hk' : k.natAbs ≤ 1 := by omega
  rw [objD1_doc L hL st R hR imsqrt hs mp k hmp hk', objD1_doc L hL st R hR imsqrt hs m k hm hk']

/-- ℓ = 2 -/
theorem D_unitary_ell2 (L : ℕ) (hL : 2 ≤ L) (st : μ) (R : Quat ℝ)
    (hR : R.w ^ 2 + R.x ^ 2 + R.y ^ 2 + R.z ^ 2 = 1) (imsqrt : Cx ℝ → ℝ)
    (hs : ∀ w : Cx ℝ, w.re ^ 2 + w.im ^ 2 = 1 → 2 * (imsqrt w) ^ 2 = 1 - w.re)
    (mp m : ℤ) (hmp : mp.natAbs ≤ 2) (hm : m.natAbs ≤ 2) :
    ∑ k ∈ Finset.Icc (-2 : ℤ) 2,
        toC (objD L st R.w R.x R.y R.z imsqrt 2 mp k) * conj (toC (objD L st R.w R.x R.y R.z imsqrt 2 m k))
      = if mp = m then 1 else 0 := by
  have h := docD_unitary_ell2 (QA R) (QB R) mp m hmp hm
  rw [QAB_unit R hR, one_pow] at h
  rw [← h]
  apply Finset.sum_congr rfl
  intro k hk
  rw [Finset.mem_Icc] at hk
  have hk' : k.natAbs ≤ 2 := by omega
  rw [objD2_doc L hL st R hR imsqrt hs mp k hmp hk', objD2_doc L hL st R hR imsqrt hs m k hm hk']

/-- ℓ = 1: 𝔇(R⁻¹) = 𝔇(R)†, with R⁻¹ = R̄ = (w, −x, −y, −z) -/
theorem D_inverse_ell1 (L L₁ : ℕ) (hL : 1 ≤ L) (hL₁ : 1 ≤ L₁) (st : μ) (st₁ : μ₁) (R : Quat ℝ)
    (hR : R.w ^ 2 + R.x ^ 2 + R.y ^ 2 + R.z ^ 2 = 1) (imsqrt imsqrt₁ : Cx ℝ → ℝ)
    (hs : ∀ w : Cx ℝ, w.re ^ 2 + w.im ^ 2 = 1 → 2 * (imsqrt w) ^ 2 = 1 - w.re)
    (hs₁ : ∀ w : Cx ℝ, w.re ^ 2 + w.im ^ 2 = 1 → 2 * (imsqrt₁ w) ^ 2 = 1 - w.re)
    (mp m : ℤ) (hmp : mp.natAbs ≤ 1) (hm : m.natAbs ≤ 1) :
    toC (objD L st (qconj R).w (qconj R).x (qconj R).y (qconj R).z imsqrt 1 mp m)
      = conj (toC (objD L₁ st₁ R.w R.x R.y R.z imsqrt₁ 1 m mp)) := by
  rw [objD1_doc L hL st (qconj R) (qconj_unit R hR) imsqrt hs mp m hmp hm,
    objD1_doc L₁ hL₁ st₁ R hR imsqrt₁ hs₁ m mp hm hmp, QA_conj, QB_conj]
  exact (docD_inverse_neg_ell1 (QA R) (QB R) mp m hmp hm).1

/-- ℓ = 2 -/
theorem D_inverse_ell2 (L L₁ : ℕ) (hL : 2 ≤ L) (hL₁ : 2 ≤ L₁) (st : μ) (st₁ : μ₁) (R : Quat ℝ)
    (hR : R.w ^ 2 + R.x ^ 2 + R.y ^ 2 + R.z ^ 2 = 1) (imsqrt imsqrt₁ : Cx ℝ → ℝ)
    (hs : ∀ w : Cx ℝ, w.re ^ 2 + w.im ^ 2 = 1 → 2 * (imsqrt w) ^ 2 = 1 - w.re)
    (hs₁ : ∀ w : Cx ℝ, w.re ^ 2 + w.im ^ 2 = 1 → 2 * (imsqrt₁ w) ^ 2 = 1 - w.re)
    (mp m : ℤ) (hmp : mp.natAbs ≤ 2) (hm : m.natAbs ≤ 2) :
    toC (objD L st (qconj R).w (qconj R).x (qconj R).y (qconj R).z imsqrt 2 mp m)
      = conj (toC (objD L₁ st₁ R.w R.x R.y R.z imsqrt₁ 2 m mp)) := by
  rw [objD2_doc L hL st (qconj R) (qconj_unit R hR) imsqrt hs mp m hmp hm,
    objD2_doc L₁ hL₁ st₁ R hR imsqrt₁ hs₁ m mp hm hmp, QA_conj, QB_conj]
  exact (docD_inverse_neg_ell2 (QA R) (QB R) mp m hmp hm).1

/-- ℓ = 1: the two rotors ±R of one rotation give the same matrix (integer ℓ) -/
theorem D_neg_ell1 (L L₁ : ℕ) (hL : 1 ≤ L) (hL₁ : 1 ≤ L₁) (st : μ) (st₁ : μ₁) (R : Quat ℝ)
    (hR : R.w ^ 2 + R.x ^ 2 + R.y ^ 2 + R.z ^ 2 = 1) (imsqrt imsqrt₁ : Cx ℝ → ℝ)
    (hs : ∀ w : Cx ℝ, w.re ^ 2 + w.im ^ 2 = 1 → 2 * (imsqrt w) ^ 2 = 1 - w.re)
    (hs₁ : ∀ w : Cx ℝ, w.re ^ 2 + w.im ^ 2 = 1 → 2 * (imsqrt₁ w) ^ 2 = 1 - w.re)
    (mp m : ℤ) (hmp : mp.natAbs ≤ 1) (hm : m.natAbs ≤ 1) :
    toC (objD L st (qneg R).w (qneg R).x (qneg R).y (qneg R).z imsqrt 1 mp m)
      = toC (objD L₁ st₁ R.w R.x R.y R.z imsqrt₁ 1 mp m) := by
  rw [objD1_doc L hL st (qneg R) (qneg_unit R hR) imsqrt hs mp m hmp hm,
    objD1_doc L₁ hL₁ st₁ R hR imsqrt₁ hs₁ mp m hmp hm, QA_neg, QB_neg]
  exact (docD_inverse_neg_ell1 (QA R) (QB R) mp m hmp hm).2

/-- ℓ = 2 -/
theorem D_neg_ell2 (L L₁ : ℕ) (hL : 2 ≤ L) (hL₁ : 2 ≤ L₁) (st : μ) (st₁ : μ₁) (R : Quat ℝ)
    (hR : R.w ^ 2 + R.x ^ 2 + R.y ^ 2 + R.z ^ 2 = 1) (imsqrt imsqrt₁ : Cx ℝ → ℝ)
    (hs : ∀ w : Cx ℝ, w.re ^ 2 + w.im ^ 2 = 1 → 2 * (imsqrt w) ^ 2 = 1 - w.re)
    (hs₁ : ∀ w : Cx ℝ, w.re ^ 2 + w.im ^ 2 = 1 → 2 * (imsqrt₁ w) ^ 2 = 1 - w.re)
    (mp m : ℤ) (hmp : mp.natAbs ≤ 2) (hm : m.natAbs ≤ 2) :
    toC (objD L st (qneg R).w (qneg R).x (qneg R).y (qneg R).z imsqrt 2 mp m)
      = toC (objD L₁ st₁ R.w R.x R.y R.z imsqrt₁ 2 mp m) := by
  rw [objD2_doc L hL st (qneg R) (qneg_unit R hR) imsqrt hs mp m hmp hm,
    objD2_doc L₁ hL₁ st₁ R hR imsqrt₁ hs₁ mp m hmp hm, QA_neg, QB_neg]
  exact (docD_inverse_neg_ell2 (QA R) (QB R) mp m hmp hm).2

/-! ### 5. ℓ = 1 in the Cartesian basis (C19: "rotating the weights by the conjugate of R rotates the vector by R") -/

/-- `rotVec R v`, the vector part of R·(0, v)·R̄ (whose scalar part is 0), is the standard rotation matrix of the
    quaternion R applied to v -/
theorem rotVec_is_rotation (R : Quat ℝ) (v : Vec3 ℝ) :
    (qmul (qmul R ⟨0, v.x, v.y, v.z⟩) (qconj R)).w = 0 ∧
    (rotVec R v).x = (R.w ^ 2 + R.x ^ 2 - R.y ^ 2 - R.z ^ 2) * v.x + 2 * (R.x * R.y - R.w * R.z) * v.y
        + 2 * (R.x * R.z + R.w * R.y) * v.z ∧
    (rotVec R v).y = 2 * (R.x * R.y + R.w * R.z) * v.x + (R.w ^ 2 - R.x ^ 2 + R.y ^ 2 - R.z ^ 2) * v.y
        + 2 * (R.y * R.z - R.w * R.x) * v.z ∧
    (rotVec R v).z = 2 * (R.x * R.z - R.w * R.y) * v.x + 2 * (R.y * R.z + R.w * R.x) * v.y
        + (R.w ^ 2 - R.x ^ 2 - R.y ^ 2 + R.z ^ 2) * v.z :=
  ⟨rotVec_scalar R v, rotVec_matrix R v⟩

/-- With the weights `(w₋₁, w₀, w₁) = vector_as_ell_1_modes(v)` of a REAL vector v (`wAt · m` reads weight m in ℂ) and
    𝔇 = what `Wigner.D` computes for the CONJUGATE rotor R̄, the rotated weights `w'_m = Σ_{m'} w_{m'} 𝔇¹_{m',m}(R̄)`
    (`Wigner.rotate(modes, R̄)` is `f @ 𝔇`) are the weights of the rotated vector R v R̄:
    `vector_as_ell_1_modes(R v R̄)`.  Holds for any conversion constants with `sqrt4pi3 = √2·sqrt2pi3`. -/
theorem rotation_matrix_ell1 (L : ℕ) (hL : 1 ≤ L) (st : μ) (R : Quat ℝ)
    (hR : R.w ^ 2 + R.x ^ 2 + R.y ^ 2 + R.z ^ 2 = 1) (imsqrt : Cx ℝ → ℝ)
    (hs : ∀ w : Cx ℝ, w.re ^ 2 + w.im ^ 2 = 1 → 2 * (imsqrt w) ^ 2 = 1 - w.re)
    (K : ConvConsts ℝ) (hK : K.sqrt4pi3 = Real.sqrt 2 * K.sqrt2pi3) (v : Vec3 ℝ) (m : ℤ) (hm : m.natAbs ≤ 1) :
    ∑ mp ∈ Finset.Icc (-1 : ℤ) 1,
        wAt (vectorAsEll1R K v) mp
          * toC (objD L st (qconj R).w (qconj R).x (qconj R).y (qconj R).z imsqrt 1 mp m)
      = wAt (vectorAsEll1R K (rotVec R v)) m := by
  have hc := qconj_unit R hR
  rw [sum_Icc1, objD1_doc L hL st (qconj R) hc imsqrt hs (-1) m (by decide) hm,
    objD1_doc L hL st (qconj R) hc imsqrt hs 0 m (by decide) hm,
    objD1_doc L hL st (qconj R) hc imsqrt hs 1 m (by decide) hm,
    docD1_T _ _ (-1) m (by decide) hm, docD1_T _ _ 0 m (by decide) hm, docD1_T _ _ 1 m (by decide) hm,
    QA_conj, QB_conj]
  simp only [Complex.conj_conj, map_neg]
  exact rot_T1 K hK R v m hm

/-- the constants of the source, `(√(2π/3), √(4π/3))`, satisfy the hypothesis -/
theorem rotation_matrix_ell1_Kreal (L : ℕ) (hL : 1 ≤ L) (st : μ) (R : Quat ℝ)
    (hR : R.w ^ 2 + R.x ^ 2 + R.y ^ 2 + R.z ^ 2 = 1) (imsqrt : Cx ℝ → ℝ)
    (hs : ∀ w : Cx ℝ, w.re ^ 2 + w.im ^ 2 = 1 → 2 * (imsqrt w) ^ 2 = 1 - w.re)
    (v : Vec3 ℝ) (m : ℤ) (hm : m.natAbs ≤ 1) :
    ∑ mp ∈ Finset.Icc (-1 : ℤ) 1,
        wAt (vectorAsEll1R OpsL.Kreal v) mp
          * toC (objD L st (qconj R).w (qconj R).x (qconj R).y (qconj R).z imsqrt 1 mp m)
      = wAt (vectorAsEll1R OpsL.Kreal (rotVec R v)) m :=
  rotation_matrix_ell1 L hL st R hR imsqrt hs OpsL.Kreal Kreal_ratio v m hm

end

/-! ### instances: the hypotheses are satisfiable and the statements have content -/

/-- (1/2, 1/2, 1/2, 1/2)·(3/5, 0, 4/5, 0) = (−1/10, −1/10, 7/10, 7/10) -/
theorem qmul_example : qmul ⟨1/2, 1/2, 1/2, 1/2⟩ ⟨3/5, 0, 4/5, 0⟩ = ⟨-1/10, -1/10, 7/10, 7/10⟩ := by
  simp only [qmul, Quat.mk.injEq]; norm_num

/-- ℓ = 1, P = (1/2, 1/2, 1/2, 1/2), Q = (3/5, 0, 4/5, 0): the three calls on different calculators (sizes 2, 1, 3)
    and workspace contents (7's, 0's, −1's) -/
example (mp m : ℤ) (hmp : mp.natAbs ≤ 1) (hm : m.natAbs ≤ 1) :
    toC (objD 2 (fun _ : Loc => (7 : ℝ)) (-1/10) (-1/10) (7/10) (7/10) imsqrtR 1 mp m)
      = ∑ k ∈ Finset.Icc (-1 : ℤ) 1,
          toC (objD 1 (fun _ : Loc => (0 : ℝ)) (1/2) (1/2) (1/2) (1/2) imsqrtR 1 mp k)
            * toC (objD 3 (fun _ : Loc => (-1 : ℝ)) (3/5) 0 (4/5) 0 imsqrtR 1 k m) := by
  have h := D_hom_ell1 2 1 3 (by decide) (by decide) (by decide) (fun _ : Loc => (7 : ℝ))
    (fun _ : Loc => (0 : ℝ)) (fun _ : Loc => (-1 : ℝ)) ⟨1/2, 1/2, 1/2, 1/2⟩ ⟨3/5, 0, 4/5, 0⟩ (by norm_num)
    (by norm_num) imsqrtR imsqrtR imsqrtR imsqrtR_spec imsqrtR_spec imsqrtR_spec mp m hmp hm
  rw [qmul_example] at h
  exact h

/-- the same product, entry (1, 1), as a number: the matrix product
    𝔇(P)_{1,−1}𝔇(Q)_{−1,1} + 𝔇(P)_{1,0}𝔇(Q)_{0,1} + 𝔇(P)_{1,1}𝔇(Q)_{1,1} = (−i/2)(16/25) + (−√2/2)(12√2/25) + (i/2)(9/25)
    is R_a(PQ)² = (−1/10 + 7i/10)² = −12/25 − 7i/50 -/
example :
    ∑ k ∈ Finset.Icc (-1 : ℤ) 1,
        toC (objD 1 (fun _ : Loc => (0 : ℝ)) (1/2) (1/2) (1/2) (1/2) imsqrtR 1 1 k)
          * toC (objD 3 (fun _ : Loc => (-1 : ℝ)) (3/5) 0 (4/5) 0 imsqrtR 1 k 1)
      = -12/25 - 7/50 * Complex.I := by
  have h := D_hom_ell1 2 1 3 (by decide) (by decide) (by decide) (fun _ : Loc => (7 : ℝ))
    (fun _ : Loc => (0 : ℝ)) (fun _ : Loc => (-1 : ℝ)) ⟨1/2, 1/2, 1/2, 1/2⟩ ⟨3/5, 0, 4/5, 0⟩ (by norm_num)
    (by norm_num) imsqrtR imsqrtR imsqrtR imsqrtR_spec imsqrtR_spec imsqrtR_spec 1 1 (by decide) (by decide)
  rw [← h, qmul_example]
  have e := (D_ell1_entries 2 (by decide) (fun _ : Loc => (7 : ℝ)) (-1/10) (-1/10) (7/10) (7/10) (by norm_num)
    imsqrtR imsqrtR_spec).2.2.2.2.2.2.2.2
  simp only [] at e
  rw [e]
  have hA : Ra (-1/10) (7/10) = -1/10 + 7/10 * Complex.I := by apply Complex.ext <;> simp [Ra]
  rw [hA]
  have := Complex.I_sq
  grind

/-- ℓ = 2, same rotors, all 25 entries, calculators of sizes 2, 3, 4 -/
example (mp m : ℤ) (hmp : mp.natAbs ≤ 2) (hm : m.natAbs ≤ 2) :
    toC (objD 2 (fun _ : Loc => (7 : ℝ)) (-1/10) (-1/10) (7/10) (7/10) imsqrtR 2 mp m)
      = ∑ k ∈ Finset.Icc (-2 : ℤ) 2,
          toC (objD 3 (fun _ : Loc => (0 : ℝ)) (1/2) (1/2) (1/2) (1/2) imsqrtR 2 mp k)
            * toC (objD 4 (fun _ : Loc => (-1 : ℝ)) (3/5) 0 (4/5) 0 imsqrtR 2 k m) := by
  have h := D_hom_ell2 2 3 4 (by decide) (by decide) (by decide) (fun _ : Loc => (7 : ℝ))
    (fun _ : Loc => (0 : ℝ)) (fun _ : Loc => (-1 : ℝ)) ⟨1/2, 1/2, 1/2, 1/2⟩ ⟨3/5, 0, 4/5, 0⟩ (by norm_num)
    (by norm_num) imsqrtR imsqrtR imsqrtR imsqrtR_spec imsqrtR_spec imsqrtR_spec mp m hmp hm
  rw [qmul_example] at h
  exact h

/-- ℓ = 2 entry (2, 2) of the product as a number: R_a(PQ)⁴ = (−1/10 + 7i/10)⁴ = 527/2500 + 84i/625 -/
example :
    ∑ k ∈ Finset.Icc (-2 : ℤ) 2,
        toC (objD 3 (fun _ : Loc => (0 : ℝ)) (1/2) (1/2) (1/2) (1/2) imsqrtR 2 2 k)
          * toC (objD 4 (fun _ : Loc => (-1 : ℝ)) (3/5) 0 (4/5) 0 imsqrtR 2 k 2)
      = 527/2500 + 84/625 * Complex.I := by
  have h := D_hom_ell2 2 3 4 (by decide) (by decide) (by decide) (fun _ : Loc => (7 : ℝ))
    (fun _ : Loc => (0 : ℝ)) (fun _ : Loc => (-1 : ℝ)) ⟨1/2, 1/2, 1/2, 1/2⟩ ⟨3/5, 0, 4/5, 0⟩ (by norm_num)
    (by norm_num) imsqrtR imsqrtR imsqrtR imsqrtR_spec imsqrtR_spec imsqrtR_spec 2 2 (by decide) (by decide)
  rw [← h, qmul_example]
  rw [D2_p2_p2 2 (fun _ : Loc => (7 : ℝ)) (-1/10) (-1/10) (7/10) (7/10) (by norm_num) imsqrtR imsqrtR_spec
    (by decide)]
  have hA : Ra (-1/10) (7/10) = -1/10 + 7/10 * Complex.I := by apply Complex.ext <;> simp [Ra]
  rw [hA]
  have := Complex.I_sq
  grind

/-- unitarity at (3/5, 0, 4/5, 0), ℓ = 2: row 0 has norm 1 and is orthogonal to row 1;
    at (1/2, 1/2, 1/2, 1/2), ℓ = 1: row −1 has norm 1 -/
example :
    ∑ k ∈ Finset.Icc (-2 : ℤ) 2,
        toC (objD 2 (fun _ : Loc => (0 : ℝ)) (3/5) 0 (4/5) 0 imsqrtR 2 0 k)
          * conj (toC (objD 2 (fun _ : Loc => (0 : ℝ)) (3/5) 0 (4/5) 0 imsqrtR 2 0 k)) = 1 ∧
    ∑ k ∈ Finset.Icc (-2 : ℤ) 2,
        toC (objD 2 (fun _ : Loc => (0 : ℝ)) (3/5) 0 (4/5) 0 imsqrtR 2 0 k)
          * conj (toC (objD 2 (fun _ : Loc => (0 : ℝ)) (3/5) 0 (4/5) 0 imsqrtR 2 1 k)) = 0 ∧
    ∑ k ∈ Finset.Icc (-1 : ℤ) 1,
        toC (objD 1 (fun _ : Loc => (7 : ℝ)) (1/2) (1/2) (1/2) (1/2) imsqrtR 1 (-1) k)
          * conj (toC (objD 1 (fun _ : Loc => (7 : ℝ)) (1/2) (1/2) (1/2) (1/2) imsqrtR 1 (-1) k)) = 1 :=
  ⟨D_unitary_ell2 2 (by decide) _ ⟨3/5, 0, 4/5, 0⟩ (by norm_num) imsqrtR imsqrtR_spec 0 0 (by decide) (by decide),
   D_unitary_ell2 2 (by decide) _ ⟨3/5, 0, 4/5, 0⟩ (by norm_num) imsqrtR imsqrtR_spec 0 1 (by decide) (by decide),
   D_unitary_ell1 1 (by decide) _ ⟨1/2, 1/2, 1/2, 1/2⟩ (by norm_num) imsqrtR imsqrtR_spec (-1) (-1) (by decide)
     (by decide)⟩

/-- inverse and sign at (1/2, 1/2, 1/2, 1/2): 𝔇²(R̄)_{2,1} = conj 𝔇²(R)_{1,2}, 𝔇¹(−R)_{0,1} = 𝔇¹(R)_{0,1} -/
example :
    toC (objD 2 (fun _ : Loc => (7 : ℝ)) (1/2) (-(1/2)) (-(1/2)) (-(1/2)) imsqrtR 2 2 1)
      = conj (toC (objD 3 (fun _ : Loc => (0 : ℝ)) (1/2) (1/2) (1/2) (1/2) imsqrtR 2 1 2)) ∧
    toC (objD 2 (fun _ : Loc => (7 : ℝ)) (-(1/2)) (-(1/2)) (-(1/2)) (-(1/2)) imsqrtR 1 0 1)
      = toC (objD 3 (fun _ : Loc => (0 : ℝ)) (1/2) (1/2) (1/2) (1/2) imsqrtR 1 0 1) :=
  ⟨D_inverse_ell2 2 3 (by decide) (by decide) (fun _ : Loc => (7 : ℝ)) (fun _ : Loc => (0 : ℝ))
     ⟨1/2, 1/2, 1/2, 1/2⟩ (by norm_num) imsqrtR imsqrtR imsqrtR_spec imsqrtR_spec 2 1 (by decide) (by decide),
   D_neg_ell1 2 3 (by decide) (by decide) (fun _ : Loc => (7 : ℝ)) (fun _ : Loc => (0 : ℝ))
     ⟨1/2, 1/2, 1/2, 1/2⟩ (by norm_num) imsqrtR imsqrtR imsqrtR_spec imsqrtR_spec 0 1 (by decide) (by decide)⟩

/-- R = (1/2, 1/2, 1/2, 1/2) is the rotation by 2π/3 about (1,1,1): x → y → z → x, so (1, 2, 3) ↦ (3, 1, 2) -/
theorem rotVec_example : rotVec ⟨1/2, 1/2, 1/2, 1/2⟩ ⟨1, 2, 3⟩ = ⟨3, 1, 2⟩ := by
  simp only [rotVec, qmul, qconj, Vec3.mk.injEq]; norm_num

/-- the weights of (1, 2, 3) rotated with 𝔇¹(R̄), R̄ = (1/2, −1/2, −1/2, −1/2): the m = 0 weight becomes
    2·√(4π/3) — the z component of (3, 1, 2) — and the m = −1 weight (3 + i)·√(2π/3) -/
example :
    ∑ mp ∈ Finset.Icc (-1 : ℤ) 1,
        wAt (vectorAsEll1R OpsL.Kreal ⟨1, 2, 3⟩) mp
          * toC (objD 1 (fun _ : Loc => (7 : ℝ)) (1/2) (-(1/2)) (-(1/2)) (-(1/2)) imsqrtR 1 mp 0)
      = ((2 * Real.sqrt (4 * Real.pi / 3) : ℝ) : ℂ) ∧
    ∑ mp ∈ Finset.Icc (-1 : ℤ) 1,
        wAt (vectorAsEll1R OpsL.Kreal ⟨1, 2, 3⟩) mp
          * toC (objD 1 (fun _ : Loc => (7 : ℝ)) (1/2) (-(1/2)) (-(1/2)) (-(1/2)) imsqrtR 1 mp (-1))
      = (3 + Complex.I) * ((Real.sqrt (2 * Real.pi / 3) : ℝ) : ℂ) := by
  have h0 := rotation_matrix_ell1_Kreal 1 (by decide) (fun _ : Loc => (7 : ℝ)) ⟨1/2, 1/2, 1/2, 1/2⟩ (by norm_num)
    imsqrtR imsqrtR_spec ⟨1, 2, 3⟩ 0 (by decide)
  have h1 := rotation_matrix_ell1_Kreal 1 (by decide) (fun _ : Loc => (7 : ℝ)) ⟨1/2, 1/2, 1/2, 1/2⟩ (by norm_num)
    imsqrtR imsqrtR_spec ⟨1, 2, 3⟩ (-1) (by decide)
  rw [rotVec_example] at h0 h1
  obtain ⟨f1, f2, _⟩ := wAt_vec OpsL.Kreal ⟨3, 1, 2⟩
  constructor
  · refine h0.trans ?_
    rw [f2]
    show ((2 : ℝ) : ℂ) * ((Real.sqrt (4 * Real.pi / 3) : ℝ) : ℂ) = _
    push_cast; ring
  · refine h1.trans ?_
    rw [f1]
    show (((3 : ℝ) : ℂ) + Complex.I * ((1 : ℝ) : ℂ)) * ((Real.sqrt (2 * Real.pi / 3) : ℝ) : ℂ) = _
    push_cast; ring

end DHom
end
