import SphericalVerif.Model.Assemble
import SphericalVerif.Gen.Indexing
/-! The *matrix* strategies of spherical/wigner.py inside the model: `Wigner.evaluate(..., horner=False)`
    (slice the mode weights and the sYlm array, contract with `np.matmul`) and `Wigner.rotate(..., horner=False)`
    (`_rotate`: slice the weights and the flat 𝔇 array per ℓ, reshape, `@`).

    The slice bounds are computed with the *generated* index functions (`Gen.Yindex`, `Gen.Ysize`,
    `Gen.WignerDindex`), exactly as the Python source does; the arrays are laid out in the documented
    orderings (`Spec.yRange`, `Spec.dRange`), entry by entry the models of `_fill_sYlm` / `_fill_wigner_D`.

    Summation order: `np.matmul` / `@` hand the contraction to BLAS (or to numba's/NumPy's own loops), whose
    order of summation (blocking, pairwise, SIMD lanes, FMA) is *unspecified*.  The model fixes the left fold in
    index order k = 0, 1, …, n−1 so that the value is a definite expression at every scalar type; at `Float` it
    is therefore one admissible rounding of the contraction, not a bit-exact copy.  In exact arithmetic
    (`α := ℝ`, `Props/Matrix.lean`) the order is immaterial.

    Modes objects always have `ell_min = 0`, so the modes' `ell_min` is the literal 0 below.
    Core Lean only. -/
namespace Model
section
open Scalar
variable {α : Type} [Scalar α] {μ : Type} [Mem μ α]

/-- the left fold `Σ_{k<n} a[i1+k] * b[j1+k]` (k = 0 first), started from the literal 0:
    `np.matmul(a[i1:i1+n], b[j1:j1+n])` for two vectors, in one fixed summation order -/
def dotSlices (a b : Array (Cx α)) (i1 j1 : Int) (n : Nat) : Cx α :=
  loopN n (fun k (acc : Cx α) =>
    Cx.add acc (Cx.mul (cget a (i1 + (k : Int)).toNat) (cget b (j1 + (k : Int)).toNat))) ⟨zero, zero⟩

/-! ### `Wigner.evaluate(modes, R, horner=False)` -/

/-- `(i1, j1, n)` of `Wigner.evaluate`'s matrix branch, with the modes' `ell_min = 0`:
    ```
    ell_lo = max(self.ell_min, ell_min)
    i1 = Yindex(ell_lo, -ell_lo, ell_min)
    j1 = Yindex(ell_lo, -ell_lo, self.ell_min)
    n = max(Ysize(ell_lo, ell_max), 0)  # (no common ell at all when ell_max < ell_lo)
    ``` -/
def evalMatrixSlices (cal_ell_min modes_ell_max : Int) : Int × Int × Int :=
  let ell_min : Int := 0
  let ell_lo : Int := max cal_ell_min ell_min
  let i1 := Gen.Yindex ell_lo (-ell_lo) ell_min
  let j1 := Gen.Yindex ell_lo (-ell_lo) cal_ell_min
  let n := max (Gen.Ysize ell_lo modes_ell_max) 0
  (i1, j1, n)

/-- the array `Y` after `self.sYlm(spin_weight, R, out=Y)`: length `self.Ysize`, laid out in the calculator's
    ordering `[(ell, m) for ell in range(self.ell_min, self.ell_max+1) for m in range(-ell, ell+1)]`, each entry the
    model of `_fill_sYlm` (the literal 0 for ℓ < |s|) -/
def sYlmArray (st : μ) (za : Array (Cx α)) (zgpow : Cx α) (s : Int) (cal_ell_min cal_ell_max : Int) :
    Array (Cx α) :=
  ((Spec.yRange cal_ell_min cal_ell_max).map fun p =>
    sYlmEntry (α := α) st za zgpow s p.1.toNat p.2).toArray

/-- `np.matmul(mode_weights[row, i1:i1+n], Y[j1:j1+n])` for one row `f` of mode weights and one rotor.
    `st` is the H workspace after `self.H`, `za` the array of powers of zₐ, `zgpow` is `z[2]**abs(s)`.
    (`n ≥ 0` always, by the clamp; for `n = 0` both NumPy slices are empty — also when `i1` lies beyond the end of
    the weights — and the contraction is the empty sum: `Matrix.eval_slices_empty`, `Matrix.evaluateMatrix_empty`.) -/
def evaluateMatrix (st : μ) (f : Array (Cx α)) (za : Array (Cx α)) (zgpow : Cx α) (s : Int)
    (cal_ell_min cal_ell_max modes_ell_max : Int) : Cx α :=
  let sl := evalMatrixSlices cal_ell_min modes_ell_max
  let Y := sYlmArray (α := α) st za zgpow s cal_ell_min cal_ell_max
  dotSlices f Y sl.1 sl.2.1 sl.2.2.toNat

/-! ### `Wigner.rotate(modes, R, horner=False)` -/

/-- the flat array returned by `self.D(R)`: length `self.Dsize = WignerDsize(ell_min, mp_max, ell_max)`, laid out in
    the documented ordering, each entry the model of `_fill_wigner_D` -/
def DArray (st : μ) (za zg : Array (Cx α)) (cal_ell_min cal_mp_max cal_ell_max : Int) : Array (Cx α) :=
  ((Spec.dRange cal_ell_min cal_mp_max cal_ell_max).map fun p =>
    DEntry (α := α) st za zg p.1.toNat p.2.1 p.2.2).toArray

/-- the four slice bounds `_rotate` computes at one ℓ (modes' `ell_min = 0`; `WignerDindex` is called without
    `mp_max`, i.e. with its default `-1`):
    `(i1, i2, d1, d2) = (Yindex(ell,-ell,0), Yindex(ell,ell,0)+1, WignerDindex(ell,-ell,-ell,ell_min_w),
    WignerDindex(ell,ell,ell,ell_min_w)+1)` -/
def rotateSlices (cal_ell_min ell : Int) : Int × Int × Int × Int :=
  (Gen.Yindex ell (-ell) 0, Gen.Yindex ell ell 0 + 1,
   Gen.WignerDindex ell (-ell) (-ell) cal_ell_min (-1), Gen.WignerDindex ell ell ell cal_ell_min (-1) + 1)

/-- `_rotate`: output weight (ℓ, m) for one row `f` of mode weights,
    `(fₗₘ[i, i1:i2] @ 𝔇[d1:d2].reshape(2ℓ+1, 2ℓ+1))[m+ℓ]`: row `k` of the reshaped block starts at
    `d1 + k*(2ℓ+1)`, the column is `m+ℓ`; left fold over k = 0 … i2−i1−1. -/
def rotateMatrixEntry (st : μ) (f : Array (Cx α)) (za zg : Array (Cx α))
    (cal_ell_min cal_mp_max cal_ell_max : Int) (ell : Nat) (m : Int) : Cx α :=
  let l : Int := ell
  let sl := rotateSlices cal_ell_min l
  let D := DArray (α := α) st za zg cal_ell_min cal_mp_max cal_ell_max
  loopN (sl.2.1 - sl.1).toNat (fun k (acc : Cx α) =>
    Cx.add acc (Cx.mul (cget f (sl.1 + (k : Int)).toNat)
      (cget D (sl.2.2.1 + (k : Int) * (2 * l + 1) + (m + l)).toNat))) ⟨zero, zero⟩

end
end Model
