import SphericalVerif.Spec.ValH
/-! Refinement of `Model.runH` by the coordinate recursion `Spec.valW` / `Spec.valV`.
    Part 1: memory lemmas, unfolding equations of `valW`/`valV` in the syntax of the model,
    and step 3. -/
namespace HRefine
set_option linter.unusedSectionVars false
section
open Scalar Model Spec
variable {α : Type} [Scalar α] {μ : Type} [Mem μ α] [LawfulMem μ α]

/-! ### reads after writes -/

theorem rd_wr (st : μ) (l l' : Loc) (v : α) :
    rd (wr st l v) l' = if l' = l then v else rd st l' :=
  LawfulMem.get_set st l l' v

theorem rd_wr_same (st : μ) (l : Loc) (v : α) : rd (wr st l v) l = v := by
  rw [rd_wr, if_pos rfl]

theorem rd_wr_ne (st : μ) {l l' : Loc} (v : α) (h : l' ≠ l) :
    rd (α := α) (wr st l v) l' = rd st l' := by
  rw [rd_wr, if_neg h]

/-! ### distinct cells -/

theorem hw_ne_of_n {n n' m m' : Nat} {a b : Int} (h : n ≠ n') : Loc.hw n a m ≠ Loc.hw n' b m' := by
  intro e; injection e with e1 _ _; exact h e1
theorem hw_ne_of_col {n n' m m' : Nat} {a b : Int} (h : a ≠ b) : Loc.hw n a m ≠ Loc.hw n' b m' := by
  intro e; injection e with _ e2 _; exact h e2
theorem hw_ne_of_m {n n' m m' : Nat} {a b : Int} (h : m ≠ m') : Loc.hw n a m ≠ Loc.hw n' b m' := by
  intro e; injection e with _ _ e3; exact h e3
theorem hv_ne_of_n {n n' : Nat} {a b : Int} (h : n ≠ n') : Loc.hv n a ≠ Loc.hv n' b := by
  intro e; injection e with e1 _; exact h e1
theorem hv_ne_of_k {n n' : Nat} {a b : Int} (h : a ≠ b) : Loc.hv n a ≠ Loc.hv n' b := by
  intro e; injection e with _ e2; exact h e2
theorem hw_ne_hv {n n' m : Nat} {a b : Int} : Loc.hw n a m ≠ Loc.hv n' b := by intro e; cases e
theorem hv_ne_hw {n n' m : Nat} {a b : Int} : Loc.hv n' b ≠ Loc.hw n a m := by intro e; cases e
theorem hw_ne_hx {n m x : Nat} {a : Int} : Loc.hw n a m ≠ Loc.hx x := by intro e; cases e
theorem hx_ne_hw {n m x : Nat} {a : Int} : Loc.hx x ≠ Loc.hw n a m := by intro e; cases e
theorem hv_ne_hx {n x : Nat} {a : Int} : Loc.hv n a ≠ Loc.hx x := by intro e; cases e
theorem hx_ne_hv {n x : Nat} {a : Int} : Loc.hx x ≠ Loc.hv n a := by intro e; cases e
theorem hx_ne_of {x y : Nat} (h : x ≠ y) : Loc.hx x ≠ Loc.hx y := by
  intro e; injection e with e1; exact h e1

/-! ### `rowLoc` -/

theorem rowLoc_le {L n : Nat} (h : n ≤ L) (m : Nat) : rowLoc L n m = .hw n 0 m := by
  unfold rowLoc; rw [if_pos h]

theorem rowLoc_gt {L n : Nat} (h : ¬ n ≤ L) (m : Nat) : rowLoc L n m = .hx m := by
  unfold rowLoc; rw [if_neg h]

theorem rowLoc_inj {L n m m' : Nat} (h : rowLoc L n m = rowLoc L n m') : m = m' := by
  unfold rowLoc at h
  by_cases hn : n ≤ L
  · rw [if_pos hn, if_pos hn] at h; injection h
  · rw [if_neg hn, if_neg hn] at h; injection h

theorem rowLoc_eq_hw {L a x n : Nat} {mp : Int} {m : Nat} (h : rowLoc L a x = .hw n mp m) :
    a = n ∧ mp = 0 ∧ x = m ∧ a ≤ L := by
  unfold rowLoc at h
  by_cases hn : a ≤ L
  · rw [if_pos hn] at h; injection h with h1 h2 h3; exact ⟨h1, h2.symm, h3, hn⟩
  · rw [if_neg hn] at h; cases h

theorem rowLoc_ne_hv {L a x n : Nat} {k : Int} : rowLoc L a x ≠ .hv n k := by
  unfold rowLoc; intro h
  by_cases hn : a ≤ L
  · rw [if_pos hn] at h; cases h
  · rw [if_neg hn] at h; cases h

theorem rowLoc_eq_hx {L a x m : Nat} (h : rowLoc L a x = .hx m) : x = m ∧ ¬ a ≤ L := by
  unfold rowLoc at h
  by_cases hn : a ≤ L
  · rw [if_pos hn] at h; cases h
  · rw [if_neg hn] at h; injection h with h1; exact ⟨h1, hn⟩

/-! ### `valW` / `valV` at non-negative and non-positive columns -/

theorem valW_ofNat (c s : α) (n k m : Nat) : valW c s n (k : Int) m = valPos c s k n m := by
  unfold valW; rw [if_pos (Int.natCast_nonneg k), Int.toNat_natCast]

theorem valW_zero (c s : α) (n m : Nat) : valW c s n 0 m = col0 c s n m :=
  valW_ofNat c s n 0 m

theorem valW_one (c s : α) (n m : Nat) : valW c s n 1 m = valPos c s 1 n m :=
  valW_ofNat c s n 1 m

theorem valW_neg (c s : α) (n q m : Nat) : valW c s n (-(q : Int)) m = valNeg c s q n m := by
  cases q with
  | zero => exact valW_zero c s n m
  | succ q =>
    unfold valW
    have h : ¬ (0 ≤ -((q+1 : Nat) : Int)) := by omega
    rw [if_neg h, Int.natAbs_neg, Int.natAbs_natCast]

theorem valV_ofNat (c s : α) (n k : Nat) : valV c s n (k : Int) = valVPos c s n k := by
  unfold valV; rw [if_pos (Int.natCast_nonneg k), Int.toNat_natCast]

theorem valV_neg (c s : α) (n q : Nat) : valV c s n (-(q : Int)) = valVNeg c s n q := by
  cases q with
  | zero => exact valV_ofNat c s n 0
  | succ q =>
    unfold valV
    have h : ¬ (0 ≤ -((q+1 : Nat) : Int)) := by omega
    rw [if_neg h, Int.natAbs_neg, Int.natAbs_natCast]

theorem valV_zero (c s : α) (n : Nat) : valV c s n 0 = col0 c s n 1 := valV_ofNat c s n 0
theorem valV_one (c s : α) (n : Nat) : valV c s n 1 = col0 c s n 1 := valV_ofNat c s n 1

/-! ### step 3 -/

/-- recursion equation of `valW` on the m' = 1 column, in the shape of `_step_3` -/
theorem valW_step3 (c s : α) (n i : Nat) :
    valW c s n 1 (i+1) =
      f3 c s n i (valW c s (n+1) 0 (i+2)) (valW c s (n+1) 0 i) (valW c s (n+1) 0 (i+1)) := by
  rw [valW_one, valW_zero, valW_zero, valW_zero]; rfl

/-- one assignment of `_step_3` -/
def s3cell (L : Nat) (c s : α) (n : Nat) : Nat → μ → μ := fun i st =>
  wr st (.hw n 1 (i+1))
    (f3 c s n i (rd (α := α) st (rowLoc L (n+1) (i+2))) (rd (α := α) st (rowLoc L (n+1) i))
      (rd (α := α) st (rowLoc L (n+1) (i+1))))

/-- one row of `_step_3` -/
def s3row (L : Nat) (c s : α) : Nat → μ → μ := fun k st => loopN (k+1) (s3cell L c s (k+1)) st

theorem step3_eq (L P : Nat) (c s : α) (st : μ) :
    step3 L P c s st = if L = 0 ∨ P = 0 then st else loopN L (s3row L c s) st := rfl

theorem s3row_spec (L : Nat) (c s : α) (n : Nat) (st : μ)
    (hsrc : ∀ m, m ≤ n+1 → rd st (rowLoc L (n+1) m) = valW c s (n+1) 0 m) :
    (∀ m, 1 ≤ m → m ≤ n → rd (loopN n (s3cell L c s n) st) (.hw n 1 m) = valW c s n 1 m)
    ∧ (∀ l, (∀ m, 1 ≤ m → m ≤ n → l ≠ .hw n 1 m) → rd (α := α) (loopN n (s3cell L c s n) st) l = rd st l) := by
  let Q : Nat → μ → Prop := fun i st' =>
    (∀ m, 1 ≤ m → m ≤ i → rd st' (.hw n 1 m) = valW c s n 1 m)
    ∧ (∀ l, (∀ m, 1 ≤ m → m ≤ i → l ≠ .hw n 1 m) → rd (α := α) st' l = rd st l)
  have key : ∀ cnt, cnt ≤ n → Q cnt (loopN cnt (s3cell L c s n) st) := by
    intro cnt hcnt
    apply loopN_inv Q
    · exact ⟨fun m h1 h2 => by omega, fun l _ => rfl⟩
    · intro i st' hi ⟨qA, qB⟩
      have rdsrc : ∀ x, x ≤ n+1 → rd st' (rowLoc L (n+1) x) = valW c s (n+1) 0 x := by
        intro x hx
        rw [qB _ (fun m _ _ h => by have := rowLoc_eq_hw h; omega)]
        exact hsrc x hx
      refine ⟨?_, ?_⟩
      · intro m h1 h2
        by_cases hm : m = i + 1
        · subst hm
          unfold s3cell
          rw [rd_wr_same, rdsrc _ (by omega), rdsrc _ (by omega), rdsrc _ (by omega), valW_step3]
        · unfold s3cell
          rw [rd_wr_ne _ _ (by intro h; injection h with _ _ h3; exact hm h3)]
          exact qA m h1 (by omega)
      · intro l hl
        unfold s3cell
        rw [rd_wr_ne _ _ (hl (i+1) (by omega) (by omega))]
        exact qB l (fun m h1 h2 => hl m h1 (by omega))
  exact key n (Nat.le_refl n)

/-- Step 3 writes exactly the cells (n, 1, m), 1 ≤ m ≤ n ≤ L, with the values `valW c s n 1 m`, provided the
    m'=0 column (rows ≤ L in the wedge, row L+1 in `hx`) holds `valW c s n 0 m`; every other cell is unchanged. -/
theorem step3_refines (L P : Nat) (c s : α) (st : μ) (hL : 0 < L) (hP : 0 < P)
    (hcol : ∀ n m, 2 ≤ n → n ≤ L + 1 → m ≤ n → rd st (rowLoc L n m) = valW c s n 0 m) :
    (∀ n m, 1 ≤ n → n ≤ L → 1 ≤ m → m ≤ n → rd (step3 L P c s st) (.hw n 1 m) = valW c s n 1 m)
    ∧ (∀ l, (∀ n m, 1 ≤ n → n ≤ L → 1 ≤ m → m ≤ n → l ≠ .hw n 1 m) →
        rd (α := α) (step3 L P c s st) l = rd st l) := by
  rw [step3_eq, if_neg (by omega)]
  let Q : Nat → μ → Prop := fun k st' =>
    (∀ n m, 1 ≤ n → n ≤ k → 1 ≤ m → m ≤ n → rd st' (.hw n 1 m) = valW c s n 1 m)
    ∧ (∀ l, (∀ n m, 1 ≤ n → n ≤ k → 1 ≤ m → m ≤ n → l ≠ .hw n 1 m) → rd (α := α) st' l = rd st l)
  have key : ∀ cnt, cnt ≤ L → Q cnt (loopN cnt (s3row L c s) st) := by
    intro cnt hcnt
    apply loopN_inv Q
    · exact ⟨fun n m h1 h2 => by omega, fun l _ => rfl⟩
    · intro k st' hk ⟨qA, qB⟩
      have hsrc : ∀ m, m ≤ (k+1)+1 → rd st' (rowLoc L ((k+1)+1) m) = valW c s ((k+1)+1) 0 m := by
        intro m hm
        rw [qB _ (fun n' m' _ _ _ _ h => by have := rowLoc_eq_hw h; omega)]
        exact hcol _ _ (by omega) (by omega) hm
      obtain ⟨rA, rB⟩ := s3row_spec L c s (k+1) st' hsrc
      refine ⟨?_, ?_⟩
      · intro n m h1 h2 h3 h4
        by_cases hn : n = k + 1
        · subst hn; exact rA m h3 h4
        · show rd (loopN (k+1) (s3cell L c s (k+1)) st') _ = _
          rw [rB _ (fun m' _ _ h => by injection h with h1; exact hn h1)]
          exact qA n m h1 (by omega) h3 h4
      · intro l hl
        show rd (loopN (k+1) (s3cell L c s (k+1)) st') _ = _
        rw [rB _ (fun m' h1 h2 => hl (k+1) m' (by omega) (by omega) h1 h2)]
        exact qB l (fun n m h1 h2 h3 h4 => hl n m h1 (by omega) h3 h4)
  exact key L (Nat.le_refl L)

end
end HRefine
