import SphericalVerif.Gen.MulKern
import SphericalVerif.Lemmas.Frame
import SphericalVerif.Lemmas.GenFill
import SphericalVerif.Lemmas.Modes
import SphericalVerif.Props.C06
/-! GenMul — **`_multiplication_helper` as the Python text states it** is the in-order accumulation over the term list of C06.

    `Gen/MulKern.lean` is regenerated on every run from spherical/multiplication.py.  `calc.calculate(j2, j3, m2, m3)` is an external
    operation `w3jcalc` on the memory, about which only two things are assumed — it writes nothing but the calculator's own array
    (`hfoot`), and afterwards that array holds, at every index, a value `W j2 j3 m2 m3 j` that depends on the arguments alone (`hval`; this
    is what C05/C09 establish for the 3-j model: purity of `calculate`).  For pairwise distinct arrays `fg`, `s_calculator`,
    `m_calculator`, every arithmetic, every size, spin and content:

      the output row after the generated five-fold loop  =  `accumulate Cx.add (mulVal …) (terms L1 L2 Lfg)` of the row before it,

    i.e. exactly the object the theorems of `Props/C06` are about (`helper_in_bounds`, `truncation_drops_only_high_ell`,
    `truncated_product_is_cut`, `helper_entry`), with the term value `mulVal` read off the generated text.  The proof follows the nest: a
    result of `calculate` must still be in its array when the innermost loop reads it, which holds because the text uses two calculators
    (two arrays); with one calculator for both results the statement would be false and the proof does not go through. -/
namespace GenMul
open Gen Frame Model.Modes

section
variable {α : Type} [Scalar α] {φ : Type} [FMem φ α] [LawfulFMem φ α]

/-- a counted loop over `range(a, b+1)` is a left fold over that range -/
theorem loopN_irange {σ : Type} (a b : Int) (F : Int → σ → σ) (s : σ) :
    loopN ((b + 1) - a).toNat (fun k s => F (a + (k : Int)) s) s = (Spec.irange a b).foldl (fun s x => F x s) s := by
  unfold Spec.irange
  rw [List.foldl_map]
  generalize ((b + 1) - a).toNat = n
  induction n with
  | zero => rfl
  | succ n ih => rw [List.range_succ, List.foldl_append]; simp only [loopN, List.foldl_cons, List.foldl_nil]; rw [ih]

/-- the value the helper adds for a term, as the generated text computes it -/
def mulVal (f g : Int → Cx α) (W : Int → Int → Int → Int → Int → α) (s_f s_g s_fg : Int) (pi_ : α) (t : Term) : Cx α :=
  Cx.mul (Cx.rmul ((((Scalar.ofInt ((-1 : Int) ^ (Int.natAbs ((((t.1 + t.2.2.1) + t.2.2.2.2) + s_fg) + (t.2.1 + t.2.2.2.1)))) : α)
      *. (Scalar.sqrt (Scalar.ofInt (((2 : Int) * t.2.2.2.2) + (1 : Int)) : α))) *. (W t.1 t.2.2.1 s_f s_g t.2.2.2.2)) *. (W t.1 t.2.2.1 t.2.1 t.2.2.2.1 t.2.2.2.2))
    (Cx.rmul (Scalar.sqrt ((Scalar.ofInt (((2 : Int) * t.1) + (1 : Int)) : α) /. ((Scalar.ofInt (4 : Int) : α) *. pi_))) (f (Yindex t.1 t.2.1 0))))
    (Cx.rmul (Scalar.sqrt (Scalar.ofInt (((2 : Int) * t.2.2.1) + (1 : Int)) : α)) (g (Yindex t.2.2.1 t.2.2.2.1 0)))

/-- the output array, seen as a row -/
def Sim (FG : Nat) (st : φ) (row : Row (Cx α)) : Prop := ∀ p : Nat, frdC (α := α) st FG (p : Int) = row.get p

theorem sim_of_only (FG : Nat) (ids : List Nat) (st st' : φ) (row : Row (Cx α)) (h : Only α ids st st') (hn : FG ∉ ids) (hs : Sim FG st row) :
    Sim FG st' row := fun p => (Only.frdC ids st st' h FG p hn).trans (hs p)

/-- a left fold on memories simulates a left fold on rows, under an invariant of the memory -/
theorem fold_sim {X : Type} (FG : Nat) (I : φ → Prop) (xs : List X) (stepM : φ → X → φ) (stepR : Row (Cx α) → X → Row (Cx α))
    (h : ∀ x, x ∈ xs → ∀ st row, Sim FG st row → I st → Sim FG (stepM st x) (stepR row x) ∧ I (stepM st x))
    (st : φ) (row : Row (Cx α)) (hs : Sim FG st row) (hi : I st) :
    Sim FG (xs.foldl stepM st) (xs.foldl stepR row) ∧ I (xs.foldl stepM st) := by
  induction xs generalizing st row with
  | nil => exact ⟨hs, hi⟩
  | cons x xs ih =>
    rw [List.foldl_cons, List.foldl_cons]
    obtain ⟨a, b⟩ := h x (List.mem_cons_self) st row hs hi
    exact ih (fun y hy => h y (List.mem_cons_of_mem _ hy)) _ _ a b

/-! ### the nest, level by level -/

/-- the innermost statement `fg[..., LM_index(ell3, m3, 0)] += …` -/
def upd5 (f g : Int → Cx α) (FG sC mC : Nat) (s_fg : Int) (pi_ : α) (e1 m1 e2 m2 e3 : Int) (st : φ) : φ :=
  fwrC (α := α) st FG (Yindex e3 (m1 + m2) 0) (Cx.add (frdC (α := α) st FG (Yindex e3 (m1 + m2) 0))
    (Cx.mul (Cx.rmul ((((Scalar.ofInt ((-1 : Int) ^ (Int.natAbs ((((e1 + e2) + e3) + s_fg) + (m1 + m2)))) : α)
        *. (Scalar.sqrt (Scalar.ofInt (((2 : Int) * e3) + (1 : Int)) : α))) *. (frd (α := α) st sC e3)) *. (frd (α := α) st mC e3))
      (Cx.rmul (Scalar.sqrt ((Scalar.ofInt (((2 : Int) * e1) + (1 : Int)) : α) /. ((Scalar.ofInt (4 : Int) : α) *. pi_))) (f (Yindex e1 m1 0))))
      (Cx.rmul (Scalar.sqrt (Scalar.ofInt (((2 : Int) * e2) + (1 : Int)) : α)) (g (Yindex e2 m2 0)))))

variable (f g : Int → Cx α) (FG sC mC : Nat) (L1 L2 Lfg s_f s_g s_fg : Int) (pi_ : α) (w3jcalc : Nat → Int → Int → Int → Int → φ → φ)

def lvl4 (e1 m1 e2 m2 : Int) (st : φ) : φ :=
  (Spec.irange (max ((Int.natAbs (m1 + m2) : Nat) : Int) ((Int.natAbs (e1 - e2) : Nat) : Int)) (min (e1 + e2) Lfg)).foldl
    (fun st e3 => upd5 f g FG sC mC s_fg pi_ e1 m1 e2 m2 e3 st) (w3jcalc mC e1 e2 m1 m2 st)
def lvl3 (e1 m1 e2 : Int) (st : φ) : φ :=
  (Spec.irange (-e2) e2).foldl (fun st m2 => lvl4 f g FG sC mC Lfg s_fg pi_ w3jcalc e1 m1 e2 m2 st) (w3jcalc sC e1 e2 s_f s_g st)
def lvl2 (e1 m1 : Int) (st : φ) : φ :=
  (Spec.irange 0 L2).foldl (fun st e2 => lvl3 f g FG sC mC Lfg s_f s_g s_fg pi_ w3jcalc e1 m1 e2 st) st
def lvl1 (e1 : Int) (st : φ) : φ :=
  (Spec.irange (-e1) e1).foldl (fun st m1 => lvl2 f g FG sC mC L2 Lfg s_f s_g s_fg pi_ w3jcalc e1 m1 st) st
def lvl0 (st : φ) : φ :=
  (Spec.irange 0 L1).foldl (fun st e1 => lvl1 f g FG sC mC L2 Lfg s_f s_g s_fg pi_ w3jcalc e1 st) st

/-- the generated helper (all `ell_min = 0`, as every Modes has) is the nest of folds over the documented ranges -/
theorem gen_eq_nest (st : φ) :
    Gen.u_multiplication_helper (α := α) f 0 L1 s_f g 0 L2 s_g FG 0 Lfg s_fg sC mC pi_ w3jcalc st
      = lvl0 f g FG sC mC L1 L2 Lfg s_f s_g s_fg pi_ w3jcalc st := by
  unfold lvl0 lvl1 lvl2 lvl3 lvl4 upd5 Gen.u_multiplication_helper
  simp only [← loopN_irange]

/-- the row-level nest: `accumulate` over `terms`, level by level -/
theorem accumulate_terms_nest (val : Term → Cx α) (row : Row (Cx α)) :
    accumulate Cx.add val (terms L1 L2 Lfg) row
      = (Spec.irange 0 L1).foldl (fun r e1 => (Spec.irange (-e1) e1).foldl (fun r m1 => (Spec.irange 0 L2).foldl (fun r e2 =>
          (Spec.irange (-e2) e2).foldl (fun r m2 =>
            (Spec.irange (max ((Int.natAbs (m1 + m2) : Nat) : Int) ((Int.natAbs (e1 - e2) : Nat) : Int)) (min (e1 + e2) Lfg)).foldl
              (fun r e3 => r.upd (Term.widx (e1, m1, e2, m2, e3)) (Cx.add (r.get (Term.widx (e1, m1, e2, m2, e3))) (val (e1, m1, e2, m2, e3)))) r) r) r) r) row := by
  unfold accumulate terms
  simp only [List.foldl_flatMap, List.foldl_map]

theorem yindex_nonneg (e3 m : Int) (h : ((Int.natAbs m : Nat) : Int) ≤ e3) : 0 ≤ Yindex e3 m 0 := by
  unfold Yindex
  split_ifs with c
  · have : -e3 ≤ m := by omega
    nlinarith
  · omega

variable (W : Int → Int → Int → Int → Int → α)

/-- one innermost statement: the row gets the term's value added at the term's position; the calculators' arrays are not touched -/
theorem upd5_sim (hd1 : FG ≠ sC) (hd2 : FG ≠ mC) (e1 m1 e2 m2 e3 : Int) (he3 : ((Int.natAbs (m1 + m2) : Nat) : Int) ≤ e3)
    (st : φ) (row : Row (Cx α)) (hs : Sim FG st row)
    (hS : ∀ j, frd (α := α) st sC j = W e1 e2 s_f s_g j) (hM : ∀ j, frd (α := α) st mC j = W e1 e2 m1 m2 j) :
    Sim FG (upd5 f g FG sC mC s_fg pi_ e1 m1 e2 m2 e3 st)
        (row.upd (Term.widx (e1, m1, e2, m2, e3)) (Cx.add (row.get (Term.widx (e1, m1, e2, m2, e3))) (mulVal f g W s_f s_g s_fg pi_ (e1, m1, e2, m2, e3))))
    ∧ (∀ j, frd (α := α) (upd5 f g FG sC mC s_fg pi_ e1 m1 e2 m2 e3 st) sC j = W e1 e2 s_f s_g j)
    ∧ (∀ j, frd (α := α) (upd5 f g FG sC mC s_fg pi_ e1 m1 e2 m2 e3 st) mC j = W e1 e2 m1 m2 j) := by
  have hnn := yindex_nonneg e3 (m1 + m2) he3
  have hw : Term.widx (e1, m1, e2, m2, e3) = (Yindex e3 (m1 + m2) 0).toNat := rfl
  have hon : Only α [FG] st (upd5 f g FG sC mC s_fg pi_ e1 m1 e2 m2 e3 st) :=
    only_fwrC [FG] st st FG _ _ (by simp) (Only.refl _ _)
  refine ⟨?_, fun j => (hon sC j (by simp; exact fun h => hd1 h.symm)).trans (hS j), fun j => (hon mC j (by simp; exact fun h => hd2 h.symm)).trans (hM j)⟩
  intro p
  unfold upd5 Row.upd
  rw [hw]
  by_cases c : p = (Yindex e3 (m1 + m2) 0).toNat
  · have e : (p : Int) = Yindex e3 (m1 + m2) 0 := by omega
    rw [e, GenFill.frdC_fwrC_same]
    simp only [c, if_true]
    rw [← e, hs p, hS, hM, c]
    rfl
  · have e : (p : Int) ≠ Yindex e3 (m1 + m2) 0 := by omega
    rw [GenFill.frdC_fwrC_other _ _ _ _ _ e]
    simp only [c, if_false]
    exact hs p

/-- **The generated `_multiplication_helper` computes `accumulate` over `terms`.** -/
theorem gen_mul_row (hd1 : FG ≠ sC) (hd2 : FG ≠ mC) (hd3 : sC ≠ mC)
    (hfoot : ∀ id a b c d (st : φ), Only α [id] st (w3jcalc id a b c d st))
    (hval : ∀ id a b c d (st : φ) j, frd (α := α) (w3jcalc id a b c d st) id j = W a b c d j)
    (st : φ) (row : Row (Cx α)) (hs : Sim FG st row) :
    Sim FG (Gen.u_multiplication_helper (α := α) f 0 L1 s_f g 0 L2 s_g FG 0 Lfg s_fg sC mC pi_ w3jcalc st)
      (accumulate Cx.add (mulVal f g W s_f s_g s_fg pi_) (terms L1 L2 Lfg) row) := by
  rw [gen_eq_nest, accumulate_terms_nest]
  unfold lvl0
  refine (fold_sim FG (fun _ => True) _ _ _ (fun e1 _ st row hs _ => ⟨?_, trivial⟩) st row hs trivial).1
  unfold lvl1
  refine (fold_sim FG (fun _ => True) _ _ _ (fun m1 _ st row hs _ => ⟨?_, trivial⟩) st row hs trivial).1
  unfold lvl2
  refine (fold_sim FG (fun _ => True) _ _ _ (fun e2 _ st row hs _ => ⟨?_, trivial⟩) st row hs trivial).1
  unfold lvl3
  -- after `s_calculator.calculate(ell1, ell2, s_f, s_g)`: its array holds the result, the output row is as before
  have hs1 : Sim FG (w3jcalc sC e1 e2 s_f s_g st) row := sim_of_only FG [sC] _ _ row (hfoot _ _ _ _ _ _) (by simp; exact hd1) hs
  refine (fold_sim FG (fun st => ∀ j, frd (α := α) st sC j = W e1 e2 s_f s_g j) _ _ _ (fun m2 _ st row hs hS => ?_) _ row hs1 (hval _ _ _ _ _ _)).1
  unfold lvl4
  -- after `m_calculator.calculate(ell1, ell2, m1, m2)`: its array holds the result; the other calculator's array and the row are as before
  have hs2 : Sim FG (w3jcalc mC e1 e2 m1 m2 st) row := sim_of_only FG [mC] _ _ row (hfoot _ _ _ _ _ _) (by simp; exact hd2) hs
  have hS2 : ∀ j, frd (α := α) (w3jcalc mC e1 e2 m1 m2 st) sC j = W e1 e2 s_f s_g j :=
    fun j => ((hfoot mC e1 e2 m1 m2 st) sC j (by simp; exact hd3)).trans (hS j)
  have := fold_sim FG (fun st => (∀ j, frd (α := α) st sC j = W e1 e2 s_f s_g j) ∧ (∀ j, frd (α := α) st mC j = W e1 e2 m1 m2 j))
    (Spec.irange (max ((Int.natAbs (m1 + m2) : Nat) : Int) ((Int.natAbs (e1 - e2) : Nat) : Int)) (min (e1 + e2) Lfg))
    (fun st e3 => upd5 f g FG sC mC s_fg pi_ e1 m1 e2 m2 e3 st)
    (fun r e3 => r.upd (Term.widx (e1, m1, e2, m2, e3)) (Cx.add (r.get (Term.widx (e1, m1, e2, m2, e3))) (mulVal f g W s_f s_g s_fg pi_ (e1, m1, e2, m2, e3))))
    (fun e3 he3 st row hs hI => by
      have hb := (Lemmas.Modes.mem_irange _ _ _).1 he3
      obtain ⟨a, b, c⟩ := upd5_sim f g FG sC mC s_f s_g s_fg pi_ W hd1 hd2 e1 m1 e2 m2 e3 (by omega) st row hs hI.1 hI.2
      exact ⟨a, b, c⟩)
    (w3jcalc mC e1 e2 m1 m2 st) row hs2 ⟨hS2, hval _ _ _ _ _ _⟩
  exact ⟨this.1, this.2.1⟩

/-- each output entry of the generated helper is the in-order sum of exactly the terms that write to it (C06.helper_entry for the code) -/
theorem gen_mul_entry (hd1 : FG ≠ sC) (hd2 : FG ≠ mC) (hd3 : sC ≠ mC)
    (hfoot : ∀ id a b c d (st : φ), Only α [id] st (w3jcalc id a b c d st))
    (hval : ∀ id a b c d (st : φ) j, frd (α := α) (w3jcalc id a b c d st) id j = W a b c d j) (st : φ) (p : Nat) :
    frdC (α := α) (Gen.u_multiplication_helper (α := α) f 0 L1 s_f g 0 L2 s_g FG 0 Lfg s_fg sC mC pi_ w3jcalc st) FG (p : Int)
      = ((terms L1 L2 Lfg).filter (fun t => decide (t.widx = p))).foldl (fun a t => Cx.add a (mulVal f g W s_f s_g s_fg pi_ t)) (frdC (α := α) st FG (p : Int)) := by
  rw [gen_mul_row f g FG sC mC L1 L2 Lfg s_f s_g s_fg pi_ w3jcalc W hd1 hd2 hd3 hfoot hval st ⟨fun p => frdC (α := α) st FG (p : Int)⟩ (fun _ => rfl) p]
  exact C06.helper_entry Cx.add _ _ _ p

/-- truncation, for the code: with a smaller `ellmax_fg = L'` the generated helper leaves in every entry below `Ysize 0 L'` exactly what it
    leaves there with the larger one (same operations in the same order) — whatever the memories otherwise hold -/
theorem gen_mul_truncation (L' : Int) (h : L' ≤ Lfg) (hL : -1 ≤ L') (hd1 : FG ≠ sC) (hd2 : FG ≠ mC) (hd3 : sC ≠ mC)
    (hfoot : ∀ id a b c d (st : φ), Only α [id] st (w3jcalc id a b c d st))
    (hval : ∀ id a b c d (st : φ) j, frd (α := α) (w3jcalc id a b c d st) id j = W a b c d j) (st st' : φ)
    (h0 : ∀ p : Nat, frdC (α := α) st FG (p : Int) = frdC (α := α) st' FG (p : Int)) (p : Nat) (hp : (p : Int) < Ysize 0 L') :
    frdC (α := α) (Gen.u_multiplication_helper (α := α) f 0 L1 s_f g 0 L2 s_g FG 0 Lfg s_fg sC mC pi_ w3jcalc st) FG (p : Int)
      = frdC (α := α) (Gen.u_multiplication_helper (α := α) f 0 L1 s_f g 0 L2 s_g FG 0 L' s_fg sC mC pi_ w3jcalc st') FG (p : Int) := by
  rw [gen_mul_row f g FG sC mC L1 L2 Lfg s_f s_g s_fg pi_ w3jcalc W hd1 hd2 hd3 hfoot hval st ⟨fun p => frdC (α := α) st FG (p : Int)⟩ (fun _ => rfl) p,
    gen_mul_row f g FG sC mC L1 L2 L' s_f s_g s_fg pi_ w3jcalc W hd1 hd2 hd3 hfoot hval st' ⟨fun p => frdC (α := α) st FG (p : Int)⟩ (fun q => (h0 q).symm) p]
  exact C06.truncated_product_is_cut Cx.add _ L1 L2 Lfg L' h hL _ p hp
end

/-- the hypotheses on `calculate` are satisfiable: on the reference memory, the operation that stores a given pure table -/
example {α : Type} [Scalar α] (W : Int → Int → Int → Int → Int → α) :
    ∃ w3jcalc : Nat → Int → Int → Int → Int → (Nat → Int → α) → (Nat → Int → α),
      (∀ id a b c d (st : Nat → Int → α), Frame.Only α [id] st (w3jcalc id a b c d st))
      ∧ (∀ id a b c d (st : Nat → Int → α) j, frd (α := α) (w3jcalc id a b c d st) id j = W a b c d j) :=
  ⟨fun id a b c d st a' i => if a' = id then W a b c d i else st a' i,
   fun id a b c d st a' i h => by
     have : a' ≠ id := by simpa using h
     show (if a' = id then _ else _) = _; rw [if_neg this]; rfl,
   fun id a b c d st j => by show (if id = id then _ else _) = _; rw [if_pos rfl]⟩
end GenMul
