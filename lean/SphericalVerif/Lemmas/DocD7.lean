import SphericalVerif.Lemmas.DocD5
import SphericalVerif.Lemmas.DocD6
/-! Column m' = 0, conclusion: `Hdoc n 0 m = Spec.col0 (ch²−sh²) (2 ch sh) n m` for every n and 0 ≤ m ≤ n. -/
noncomputable section
namespace DocD
open Polynomial Nat Model Spec GDFamily
set_option linter.unusedVariables false

variable (ch sh : ℝ)

/-! ### `col0` in one formula (n ≥ 2) -/

theorem preS_eq (s p : ℝ) : ∀ i : ℕ, preS s p i = p * s ^ i
  | 0 => by simp [preS]
  | i + 1 => by
    have : preS s p (i + 1) = preS s p i * s := rfl
    rw [this, preS_eq s p i]; ring

theorem col0_eq_raw (c s : ℝ) (k m : ℕ) (h : m ≤ k + 2) :
    col0 c s (k + 2) m = rawD c s (k + 2) (k + 2 - m) * s ^ m * cnorm (k + 2) := by
  rw [col0]
  by_cases h0 : m = 0
  · subst h0
    rw [if_pos rfl, Nat.sub_zero, pow_zero, mul_one, rawD_succ2_real, sub_self]
    have e1 : k + 2 - 1 = k + 1 := by omega
    have e2 : k + 2 - 2 = k := by omega
    unfold bot0
    rw [e1, e2]
    rfl
  · rw [if_neg h0]
    by_cases h1 : m < k + 2
    · rw [if_pos h1]
      show rawD c s (k + 2) (k + 2 - m) * preS s (cnorm (k + 2)) m = _
      rw [preS_eq]; ring
    · rw [if_neg h1]
      have e : m = k + 2 := by omega
      subst e
      rw [Nat.sub_self, DDef.rawD_0, cnorm_real]
      unfold topN
      simp only [RealScalar.mul_def, RealScalar.div_def, RealScalar.sqrt_def, RealScalar.ofInt_def,
        RealScalar.one_def]
      rw [preS_eq]
      push_cast
      ring

/-! ### the poles s = 0 -/

theorem T_pole_zero (hch : ch ^ 2 = 1) (n j : ℕ) : T ch 0 n n j = if j = n then 1 else 0 := by
  unfold T genPoly
  have e : (C ch - C (0 : ℝ) * X) ^ n * (C (0 : ℝ) + C ch * X) ^ n = C ((ch ^ 2) ^ n) * X ^ n := by
    rw [C_0, zero_mul, sub_zero, zero_add, mul_pow, ← mul_assoc, ← C_pow, ← C_mul]
    congr 2; ring
  rw [e, hch, one_pow, coeff_C_mul_X_pow]

theorem T_pole_pi (hsh : sh ^ 2 = 1) (n j : ℕ) : T 0 sh n n j = if j = n then (-1) ^ n else 0 := by
  unfold T genPoly
  have e : (C (0 : ℝ) - C sh * X) ^ n * (C sh + C (0 : ℝ) * X) ^ n = C ((-1) ^ n * (sh ^ 2) ^ n) * X ^ n := by
    have e1 : (C ((-1) ^ n * (sh ^ 2) ^ n) : ℝ[X]) = (-1) ^ n * (C sh) ^ n * (C sh) ^ n := by
      simp only [C_mul, C_pow, C_neg, C_1]; ring
    rw [C_0, zero_mul, zero_sub, add_zero, neg_pow, mul_pow, e1]
    ring
  rw [e, hsh, one_pow, coeff_C_mul_X_pow, mul_one]

theorem nrm_diag (n : ℕ) : nrm n n n n = 1 := by
  rw [nrm_eq]; exact div_self (mul_ne_zero (w_ne n) (w_ne n))

/-! ### assembling -/

theorem Hdoc_col0_eq_dN (n m : ℕ) (h : m ≤ n) : Hdoc ch sh n 0 (m : ℤ) = dN ch sh n n (n + m) (n - m) := by
  unfold Hdoc
  rw [eps_nonpos 0 le_rfl, eps_nonpos (-(m : ℤ)) (by omega),
    docd_eq_dN ch sh n 0 m n n (n + m) (n - m) (by omega) (by omega) (by omega) (by omega)]
  norm_num

theorem col0_one_zero (c s : ℝ) : col0 c s 1 0 = c := by
  have := DDef.valW_1_0_0 c s
  simpa [valW, valPos] using this

theorem col0_one_one (c s : ℝ) : col0 c s 1 1 = s / Real.sqrt 2 := by
  have := DDef.valW_1_0_1 c s
  simpa [valW, valPos] using this

/-- (0) the m' = 0 column of the documented d is `Spec.col0` -/
theorem Hdoc_col0 (hcs : ch ^ 2 + sh ^ 2 = 1) (n m : ℕ) (h : m ≤ n) :
    Hdoc ch sh n 0 (m : ℤ) = col0 (ch ^ 2 - sh ^ 2) (2 * ch * sh) n m := by
  rw [Hdoc_col0_eq_dN ch sh n m h]
  by_cases hs : 2 * ch * sh = 0
  · rw [hs]
    have hor : ch = 0 ∨ sh = 0 := by
      rcases mul_eq_zero.mp hs with h1 | h1
      · left; linarith
      · right; exact h1
    rcases hor with h0 | h0
    · subst h0
      have hsh : sh ^ 2 = 1 := by linarith
      have hc : (0 : ℝ) ^ 2 - sh ^ 2 = -1 := by rw [hsh]; norm_num
      rw [hc, DDef.col0_pi n m h]
      unfold dN
      rw [T_pole_pi sh hsh]
      by_cases hm : m = 0
      · subst hm; simp [nrm_diag]
      · rw [if_neg (by omega), if_neg hm, mul_zero]
    · subst h0
      have hch : ch ^ 2 = 1 := by linarith
      have hc : ch ^ 2 - (0 : ℝ) ^ 2 = 1 := by rw [hch]; norm_num
      rw [hc, DDef.col0_id n m h]
      unfold dN
      rw [T_pole_zero ch hch]
      by_cases hm : m = 0
      · subst hm; simp [nrm_diag]
      · rw [if_neg (by omega), if_neg hm, mul_zero]
  · match n, h with
    | 0, h =>
      have : m = 0 := by omega
      subst this
      unfold dN
      rw [nrm_diag, T_zero_coeff]
      simp [col0]
    | 1, h =>
      have hm : m = 0 ∨ m = 1 := by omega
      rcases hm with rfl | rfl
      · rw [col0_one_zero]
        unfold dN
        rw [nrm_diag, T_a_succ, T_zero_a, T_zero_a]
        simp; ring
      · rw [col0_one_one]
        unfold dN
        rw [T_zero_coeff, nrm_eq]
        have hw1 : w 1 = 1 := by unfold w; simp
        have hw0 : w 0 = 1 := by unfold w; simp
        have hw2 : w 2 = Real.sqrt 2 := by unfold w; norm_num [Nat.factorial]
        have h2 := Real.mul_self_sqrt (show (0 : ℝ) ≤ 2 by norm_num)
        have hp : Real.sqrt 2 ≠ 0 := (Real.sqrt_pos.mpr (by norm_num)).ne'
        simp only [Nat.reduceAdd, Nat.sub_self, hw1, hw0, hw2]
        field_simp
        linear_combination (ch * sh) * h2
    | k + 2, h =>
      rw [col0_eq_raw _ _ k m h, dN_eq_rawD ch sh hcs hs (k + 1) (k + 2 - m) (k + 2 + m) (by omega) (by omega)]
      have e : k + 1 + 1 - (k + 2 - m) = m := by omega
      rw [e]

end DocD
end
