import SphericalVerif.Model.Modes
import SphericalVerif.Lemmas.IndexY
import Mathlib.Data.Nat.Sqrt
import Mathlib.Data.List.Nodup
import Mathlib.Data.List.Range
import Mathlib.Tactic.Ring
import Mathlib.Tactic.Linarith
import Mathlib.Tactic.NormNum
/-! Helper lemmas for the Modes model (`Model/Modes.lean`): closed forms of the generated `Ysize` / `Yindex` at
    `ell_min = 0`, the constructor's pad / zero counts, the size deduction, broadcasting facts, the conjugation
    loops, the term list of the multiplication helper, and the copy / pickle heap. -/
namespace Lemmas.Modes
open Gen Spec Model.Modes

/-! ### closed forms -/

theorem ysize0 (L : Int) : Ysize 0 L = (L + 1) ^ 2 := by unfold Ysize; ring

theorem ysize_eq (a L : Int) : Ysize a L = (L + 1) ^ 2 - a ^ 2 := by unfold Ysize; ring

theorem yindex0 (ell m : Int) (h : 0 ≤ ell) : Yindex ell m 0 = ell * (ell + 1) + m := by
  unfold Yindex
  split
  · ring
  · have : ell = 0 := by omega
    subst this; ring

theorem yindex_ge (ell m a : Int) (h : a ≤ ell) : Yindex ell m a = ell * (ell + 1) - a ^ 2 + m := by
  unfold Yindex
  split
  · ring
  · have : ell = a := by omega
    subst this; ring

theorem natAbs_sq (s : Int) : ((s.natAbs : Int)) ^ 2 = s ^ 2 := by
  rw [sq, sq, Int.natAbs_mul_self']

theorem zeroCount_eq (s : Int) : zeroCount s = s ^ 2 := by
  unfold zeroCount
  rw [ysize0, ← natAbs_sq s]; ring

theorem padCount_eq (a : Int) (h : 0 ≤ a) : (padCount a : Int) = a ^ 2 := by
  unfold padCount
  split
  · next h0 => subst h0; simp
  · rw [ysize0]
    have : 0 ≤ (a - 1 + 1) ^ 2 := by positivity
    rw [Int.toNat_of_nonneg this]; ring

theorem sq_le_sq_of_le {a b : Int} (h0 : 0 ≤ a) (h : a ≤ b) : a ^ 2 ≤ b ^ 2 := by nlinarith

/-- position of `(ell, m)`, `|m| ≤ ell`, lies in `[ell², (ell+1)²)` -/
theorem pos_bounds (ell m : Int) (h0 : 0 ≤ ell) (hm1 : -ell ≤ m) (hm2 : m ≤ ell) :
    ell ^ 2 ≤ Yindex ell m 0 ∧ Yindex ell m 0 < (ell + 1) ^ 2 := by
  rw [yindex0 ell m h0]
  constructor <;> nlinarith

/-! ### constructor layout -/

theorem storedLen_eq (ell_min ell_max : Int) (h0 : 0 ≤ ell_min) :
    storedLen ell_min ell_max = Ysize 0 ell_max := by
  unfold storedLen
  rw [padCount_eq ell_min h0, ysize0, ysize_eq]; ring

theorem stored_high {α : Type} (s ell_min ell_max ell m : Int) (input : Nat → α) (zero : α)
    (h0 : 0 ≤ ell_min) (hs : (s.natAbs : Int) ≤ ell) (hmin : ell_min ≤ ell)
    (hm1 : -ell ≤ m) (hm2 : m ≤ ell) :
    stored s ell_min ell_max input zero (Yindex ell m 0).toNat = input (Yindex ell m ell_min).toNat := by
  have hell : 0 ≤ ell := by omega
  obtain ⟨hb1, _⟩ := pos_bounds ell m hell hm1 hm2
  have hp : ((Yindex ell m 0).toNat : Int) = Yindex ell m 0 :=
    Int.toNat_of_nonneg (le_trans (by positivity) hb1)
  have hz : zeroCount s ≤ Yindex ell m 0 := by
    rw [zeroCount_eq, ← natAbs_sq s]
    exact le_trans (sq_le_sq_of_le (by omega) hs) hb1
  have hpad : (padCount ell_min : Int) ≤ Yindex ell m 0 := by
    rw [padCount_eq ell_min h0]
    exact le_trans (sq_le_sq_of_le h0 hmin) hb1
  unfold stored
  rw [if_neg (by rw [hp]; omega), if_neg (by omega)]
  congr 1
  have e1 := yindex0 ell m hell
  have e2 := yindex_ge ell m ell_min hmin
  have e3 := padCount_eq ell_min h0
  omega

theorem stored_low {α : Type} (s ell_min ell_max ell m : Int) (input : Nat → α) (zero : α)
    (h0 : 0 ≤ ell_min) (hell : 0 ≤ ell) (hlow : ell < (s.natAbs : Int) ∨ ell < ell_min)
    (hm1 : -ell ≤ m) (hm2 : m ≤ ell) :
    stored s ell_min ell_max input zero (Yindex ell m 0).toNat = zero := by
  obtain ⟨hb1, hb2⟩ := pos_bounds ell m hell hm1 hm2
  have hp : ((Yindex ell m 0).toNat : Int) = Yindex ell m 0 :=
    Int.toNat_of_nonneg (le_trans (by positivity) hb1)
  unfold stored
  rcases hlow with h | h
  · have : Yindex ell m 0 < zeroCount s := by
      rw [zeroCount_eq, ← natAbs_sq s]
      exact lt_of_lt_of_le hb2 (sq_le_sq_of_le (by omega) (by omega))
    rw [if_pos (by rw [hp]; exact this)]
  · have : Yindex ell m 0 < (padCount ell_min : Int) := by
      rw [padCount_eq ell_min h0]
      exact lt_of_lt_of_le hb2 (sq_le_sq_of_le (by omega) (by omega))
    split
    · rfl
    · rw [if_pos (by omega)]

/-! ### size deduction -/

theorem deduce_iff (n : Nat) (ell_min L : Int) (h : 0 ≤ ell_min) :
    deduceEllMax n ell_min = some L ↔ (ell_min - 1 ≤ L ∧ (n : Int) = Ysize ell_min L) := by
  unfold deduceEllMax
  simp only
  constructor
  · intro hd
    split at hd
    · next hy =>
      have hL : ((Nat.sqrt (n + ell_min.natAbs ^ 2) : Nat) : Int) - 1 = L := by simpa using hd
      subst hL
      refine ⟨?_, hy.symm⟩
      rw [ysize_eq] at hy
      have hk : (0 : Int) ≤ (Nat.sqrt (n + ell_min.natAbs ^ 2) : Nat) := Int.natCast_nonneg _
      have hn : (0 : Int) ≤ n := Int.natCast_nonneg _
      nlinarith
    · simp at hd
  · rintro ⟨h1, h2⟩
    have hsq : n + ell_min.natAbs ^ 2 = (L + 1).toNat ^ 2 := by
      have e : ((n + ell_min.natAbs ^ 2 : Nat) : Int) = (((L + 1).toNat ^ 2 : Nat) : Int) := by
        rw [Nat.cast_add, Nat.cast_pow, Nat.cast_pow, natAbs_sq, Int.toNat_of_nonneg (by omega), h2, ysize_eq]
        ring
      exact_mod_cast e
    rw [hsq, Nat.sqrt_eq', Int.toNat_of_nonneg (by omega)]
    have : L + 1 - 1 = L := by ring
    rw [this, if_pos h2.symm]

/-- a size strictly between two consecutive squares (after adding `ell_min²`) fits no range -/
theorem deduce_none (n : Nat) (ell_min k : Int) (h : 0 ≤ ell_min) (h1 : k ^ 2 < n + ell_min ^ 2)
    (h2 : (n : Int) + ell_min ^ 2 < (k + 1) ^ 2) : deduceEllMax n ell_min = none := by
  rw [Option.eq_none_iff_forall_ne_some]
  intro L hL
  obtain ⟨hl, hn⟩ := (deduce_iff n ell_min L h).1 hL
  rw [ysize_eq] at hn
  rcases le_or_gt (L + 1) k with hk | hk
  · have hk0 : 0 ≤ L + 1 := by omega
    have := sq_le_sq_of_le hk0 hk
    linarith
  · have hk0 : 0 ≤ k + 1 ∨ k + 1 < 0 := by omega
    rcases hk0 with hk0 | hk0
    · have := sq_le_sq_of_le hk0 (show k + 1 ≤ L + 1 by omega)
      linarith
    · have : (k + 1) ^ 2 ≤ k ^ 2 := by nlinarith
      linarith

/-! ### index guards -/

theorem index_ok_iff (ell m s ell_max : Int) :
    index_ok ell m s 0 ell_max = true ↔
      ((s.natAbs : Int) ≤ ell ∧ (m.natAbs : Int) ≤ ell ∧ 0 ≤ ell ∧ ell ≤ ell_max) := by
  unfold index_ok
  constructor
  · intro h
    split at h
    · simp at h
    · split at h
      · simp at h
      · omega
  · intro h
    rw [if_neg (by omega), if_neg (by omega)]

/-! ### truncate_ell -/

theorem truncate_len (n : Nat) (L ellMax : Int) (h0 : 0 ≤ L) (h1 : L < ellMax)
    (hn : n = (Ysize 0 ellMax).toNat) : pySliceStop n (Yindex L L 0 + 1) = (Ysize 0 L).toNat := by
  have e : Yindex L L 0 + 1 = Ysize 0 L := by rw [yindex0 L L h0, ysize0]; ring
  have hpos : 0 ≤ Ysize 0 L := by rw [ysize0]; positivity
  have hle : Ysize 0 L ≤ Ysize 0 ellMax := by
    rw [ysize0, ysize0]; exact sq_le_sq_of_le (by omega) (by omega)
  unfold pySliceStop
  rw [e, if_neg (by omega), hn]
  omega

/-! ### constructor outcomes -/

theorem ctor_keyword (s ell_min L : Int) (t : Option Trunc) (lead : List Nat) (size : Nat)
    (hsz : (size : Int) = Ysize ell_min L) :
    ctor { pos := [], kwSpin := some s, kwEllMin := some ell_min, kwEllMax := some L, kwTrunc := t,
           input := ⟨none, lead ++ [size], false⟩ }
      = .modes ⟨⟨s, L, t⟩, lead, size + padCount ell_min⟩ none := by
  simp [ctor, viewComplex, hsz]

theorem ctor_pos3 (s ell_min L : Int) (t : Option Trunc) (lead : List Nat) (size : Nat)
    (hsz : (size : Int) = Ysize ell_min L) (k1 k2 k3 : Option Int) :
    ctor { pos := [s, ell_min, L], kwSpin := k1, kwEllMin := k2, kwEllMax := k3, kwTrunc := t,
           input := ⟨none, lead ++ [size], false⟩ }
      = .modes ⟨⟨s, L, t⟩, lead, size + padCount ell_min⟩ none := by
  simp [ctor, viewComplex, hsz]

theorem ctor_pos1 (s ell_min L : Int) (t : Option Trunc) (lead : List Nat) (size : Nat)
    (hsz : (size : Int) = Ysize ell_min L) (k1 : Option Int) :
    ctor { pos := [s], kwSpin := k1, kwEllMin := some ell_min, kwEllMax := some L, kwTrunc := t,
           input := ⟨none, lead ++ [size], false⟩ }
      = .modes ⟨⟨s, L, t⟩, lead, size + padCount ell_min⟩ none := by
  simp [ctor, viewComplex, hsz]

theorem ctor_deduced (s ell_min L : Int) (t : Option Trunc) (lead : List Nat) (size : Nat)
    (h0 : 0 ≤ ell_min) (h1 : ell_min - 1 ≤ L) (hsz : (size : Int) = Ysize ell_min L) :
    ctor { pos := [], kwSpin := some s, kwEllMin := some ell_min, kwEllMax := none, kwTrunc := t,
           input := ⟨none, lead ++ [size], false⟩ }
      = .modes ⟨⟨s, L, t⟩, lead, size + padCount ell_min⟩ none := by
  have hd := (deduce_iff size ell_min L h0).2 ⟨h1, hsz⟩
  simp [ctor, viewComplex, hd, hsz]

/-- real pairs: `2·size` floats are the same input as `size` complex numbers -/
theorem ctor_real_pairs (c : CtorCall) (lead : List Nat) (size : Nat) (m : Option Meta)
    (h : c.input = ⟨m, lead ++ [2 * size], true⟩) :
    ctor c = ctor { c with input := ⟨m, lead ++ [size], false⟩ } := by
  simp [ctor, viewComplex, h]

theorem stored_n (ell_min L : Int) (size : Nat) (h0 : 0 ≤ ell_min) (hsz : (size : Int) = Ysize ell_min L) :
    size + padCount ell_min = (Ysize 0 L).toNat := by
  have := storedLen_eq ell_min L h0
  unfold storedLen at this
  omega

theorem ctor_badpos (c : CtorCall) (h : c.pos.length = 2 ∨ 4 ≤ c.pos.length) : ctor c = .err .valueError := by
  unfold ctor
  rw [if_pos (by omega)]

theorem ctor_nospin (c : CtorCall) (h1 : c.pos = []) (h2 : c.kwSpin = none) (h3 : c.input.md = none) :
    ctor c = .err .valueError := by
  simp [ctor, h1, h2, h3]

theorem ctor_size_mismatch (c : CtorCall) (ell_min L : Int) (lead : List Nat) (size : Nat) (m : Option Meta)
    (hp : c.pos = [] ∨ ∃ s, c.pos = [s]) (hmin : c.kwEllMin = some ell_min) (hmax : c.kwEllMax = some L)
    (hin : c.input = ⟨m, lead ++ [size], false⟩) (hne : (size : Int) ≠ Ysize ell_min L) :
    ctor c = .err .valueError := by
  rcases hp with hp | ⟨s, hp⟩
  · cases hs : c.kwSpin <;> cases m <;> simp [ctor, viewComplex, hp, hmin, hmax, hin, hne, hs]
  · simp [ctor, viewComplex, hp, hmin, hmax, hin, hne]

theorem ctor_size_mismatch_pos3 (c : CtorCall) (s ell_min L : Int) (lead : List Nat) (size : Nat) (m : Option Meta)
    (hp : c.pos = [s, ell_min, L])
    (hin : c.input = ⟨m, lead ++ [size], false⟩) (hne : (size : Int) ≠ Ysize ell_min L) :
    ctor c = .err .valueError := by
  simp [ctor, viewComplex, hp, hin, hne]

theorem ctor_undeducible (c : CtorCall) (ell_min : Int) (lead : List Nat) (size : Nat)
    (hp : c.pos = [] ∨ ∃ s, c.pos = [s]) (hmin : c.kwEllMin = some ell_min) (hmax : c.kwEllMax = none)
    (hin : c.input = ⟨none, lead ++ [size], false⟩) (hd : deduceEllMax size ell_min = none) :
    ctor c = .err .valueError := by
  rcases hp with hp | ⟨s, hp⟩
  · cases hs : c.kwSpin <;> simp [ctor, viewComplex, hp, hmin, hmax, hin, hd, hs]
  · simp [ctor, viewComplex, hp, hmin, hmax, hin, hd]

/-! ### metadata dicts on the heap -/

theorem lookup_append_isSome (es : List (String × Val)) (k k' : String) (v : Val) (h : (es.lookup k).isSome) :
    (es ++ [(k', v)]).lookup k = es.lookup k := by
  rw [List.lookup_append]
  cases hh : es.lookup k with
  | none => simp [hh] at h
  | some x => simp

theorem lookup_ensureKeys (es : List (String × Val)) (k : String) (h : (es.lookup k).isSome) :
    (ensureKeys es).lookup k = es.lookup k := by
  have step : ∀ (es' : List (String × Val)) (k' : String), (es'.lookup k).isSome →
      (if (es'.lookup k').isSome then es' else es' ++ [(k', Val.none)]).lookup k = es'.lookup k := by
    intro es' k' h'
    split
    · rfl
    · exact lookup_append_isSome _ _ _ _ h'
  unfold ensureKeys
  simp only
  have h1 := step es "spin_weight" h
  rw [step _ "ell_max" (by rw [h1]; exact h), h1]

theorem lookup_filter_ne (es : List (String × Val)) (k k' : String) (hne : k' ≠ k) :
    (es.filter (fun e => e.1 != k)).lookup k' = es.lookup k' := by
  induction es with
  | nil => rfl
  | cons e es ih =>
    obtain ⟨a, b⟩ := e
    by_cases ha : a = k
    · subst ha
      have : (k' == a) = false := by simpa using hne
      simp [List.filter, List.lookup, this, ih]
    · have : (a != k) = true := by simpa using ha
      simp only [List.filter, this, List.lookup]
      split <;> simp_all

theorem finalize_obj (h : Heap) (buf : Nat) (obj : PyObj) :
    (finalize h buf obj).2 = ⟨.modes, buf, h.nextDict⟩ := rfl

theorem finalize_dicts (h : Heap) (buf : Nat) (obj : PyObj) (i : Nat) :
    (finalize h buf obj).1.dicts i
      = if i = h.nextDict then ensureKeys (h.dicts obj.dict) else h.dicts i := by
  unfold finalize Heap.shallowCopyDict
  simp only
  split
  · next hi => subst hi; simp
  · simp

theorem finalize_rest (h : Heap) (buf : Nat) (obj : PyObj) :
    (finalize h buf obj).1.vals = h.vals ∧ (finalize h buf obj).1.bufs = h.bufs
      ∧ (finalize h buf obj).1.nextDict = h.nextDict + 1 ∧ (finalize h buf obj).1.nextVal = h.nextVal
      ∧ (finalize h buf obj).1.nextBuf = h.nextBuf := ⟨rfl, rfl, rfl, rfl, rfl⟩

theorem setKey_lookup_same (h : Heap) (d : Nat) (k : String) (v : Val) :
    (h.setKey d k v).lookup d k = some v := by
  simp [Heap.setKey, Heap.lookup]

theorem setKey_lookup_other_key (h : Heap) (d : Nat) (k k' : String) (v : Val) (hne : k' ≠ k) :
    (h.setKey d k v).lookup d k' = h.lookup d k' := by
  have : (k' == k) = false := by simpa using hne
  simp [Heap.setKey, Heap.lookup, List.lookup, this, lookup_filter_ne _ _ _ hne]

theorem setKey_lookup_other_dict (h : Heap) (d d' : Nat) (k k' : String) (v : Val) (hne : d' ≠ d) :
    (h.setKey d k v).lookup d' k' = h.lookup d' k' := by
  simp [Heap.setKey, Heap.lookup, hne]


/-! ### broadcasting -/

theorem bdim_self (a : Nat) : bdim a a = some a := by simp [bdim]

theorem bdim_comm (a b : Nat) : bdim a b = bdim b a := by
  unfold bdim
  by_cases h : a = b
  · subst h; rfl
  · have h' : ¬ b = a := fun e => h e.symm
    simp only [h, h', if_false]
    by_cases ha : a = 1 <;> by_cases hb : b = 1 <;> simp_all

theorem bdim_absorb {a b d : Nat} (h : bdim a b = some d) : bdim a d = some d := by
  unfold bdim at h ⊢
  by_cases h1 : a = b
  · simp [h1] at h; subst h1; subst h; simp
  · simp only [h1, if_false] at h
    by_cases h2 : a = 1
    · simp [h2] at h; subst h2; subst h
      by_cases h3 : 1 = b <;> simp [h3]
    · simp only [h2, if_false] at h
      by_cases h3 : b = 1
      · simp [h3] at h; subst h; simp
      · simp [h3] at h

theorem bcastRev_self (a : List Nat) : bcastRev a a = some a := by
  induction a with
  | nil => rfl
  | cons x xs ih => simp [bcastRev, bdim_self, ih]

theorem bcastRev_comm (a b : List Nat) : bcastRev a b = bcastRev b a := by
  induction a generalizing b with
  | nil => cases b <;> simp [bcastRev]
  | cons x xs ih =>
    cases b with
    | nil => simp [bcastRev]
    | cons y ys => simp only [bcastRev]; rw [bdim_comm x y, ih ys]

theorem bcastRev_absorb {a b r : List Nat} (h : bcastRev a b = some r) : bcastRev a r = some r := by
  induction a generalizing b r with
  | nil => simp [bcastRev]
  | cons x xs ih =>
    cases b with
    | nil => simp [bcastRev] at h; subst h; exact bcastRev_self _
    | cons y ys =>
      simp only [bcastRev] at h
      cases hd : bdim x y with
      | none => simp [hd] at h
      | some d =>
        cases hr : bcastRev xs ys with
        | none => simp [hd, hr] at h
        | some r' =>
          simp [hd, hr] at h; subst h
          simp [bcastRev, bdim_absorb hd, ih hr]

theorem bcast_self (a : List Nat) : bcast a a = some a := by simp [bcast, bcastRev_self]

theorem bcast_comm (a b : List Nat) : bcast a b = bcast b a := by simp [bcast, bcastRev_comm]

theorem bcast_absorb {a b r : List Nat} (h : bcast a b = some r) : bcast a r = some r := by
  unfold bcast at h ⊢
  cases hr : bcastRev a.reverse b.reverse with
  | none => simp [hr] at h
  | some r' =>
    simp [hr] at h; subst h
    simp [bcastRev_absorb hr]

theorem bcast_snoc (a b : List Nat) (x : Nat) : bcast (a ++ [x]) (b ++ [x]) = (bcast a b).map (· ++ [x]) := by
  unfold bcast
  simp only [List.reverse_append, List.reverse_cons, List.reverse_nil, List.nil_append, List.singleton_append,
    bcastRev, bdim_self]
  cases bcastRev a.reverse b.reverse <;> simp

theorem bcastTo_self (a : List Nat) : bcastTo a a = true := by simp [bcastTo, bcast_self]

theorem bcastTo_of_bcast {a b ld : List Nat} (h : bcast a b = some ld) (n : Nat) :
    bcastTo (a ++ [n]) (ld ++ [n]) = true ∧ bcastTo (b ++ [n]) (ld ++ [n]) = true := by
  have h' : bcast b a = some ld := by rw [bcast_comm]; exact h
  simp [bcastTo, bcast_snoc, bcast_absorb h, bcast_absorb h']

/-! ### outcomes of the ufunc branches -/

theorem ysize0_nonneg (L : Int) : 0 ≤ Ysize 0 L := by rw [ysize0]; positivity

theorem ysize0_cast (L : Int) : ((Ysize 0 L).toNat : Int) = Ysize 0 L := Int.toNat_of_nonneg (ysize0_nonneg L)

theorem ysize0_mono {a b : Int} (h0 : -1 ≤ a) (h : a ≤ b) : (Ysize 0 a).toNat ≤ (Ysize 0 b).toNat := by
  have := sq_le_sq_of_le (show (0:Int) ≤ a + 1 by omega) (show a + 1 ≤ b + 1 by omega)
  rw [← ysize0, ← ysize0] at this
  have h1 := ysize0_nonneg a
  omega

theorem construct_ok (m : Meta) (lead : List Nat) (n : Nat) (h : (n : Int) = Ysize 0 m.ellMax) :
    construct m (lead ++ [n]) = .modes ⟨m, lead, n⟩ none := by
  simp [construct, ctor, viewComplex, h, padCount]

theorem sliceAssign_ok (ld sl : List Nat) (N k : Nat) (hk : k ≤ N) (hb : bcastTo (sl ++ [k]) (ld ++ [k]) = true) :
    sliceAssign (ld ++ [N]) k (sl ++ [k]) = .ok () := by
  simp [sliceAssign, sliceShape, Nat.min_eq_left hk, hb]

theorem resultShape_ok (shape : List Nat) (out : Option Operand) (h : outShapeOk shape out = true) :
    resultShape shape out = shape := by
  cases out with
  | none => rfl
  | some o => simpa [outShapeOk, resultShape] using h

/-- the Modes result `o` together with the metadata written to a Modes held in `out` -/
theorem withOut_modes (out : Option Operand) (m : Meta) (o : Obj) :
    withOut out m (.modes o none) = .modes o (match out with
      | some (.modes _) => some m
      | _ => none) := rfl

theorem addCore_ok (self m1 m2 : Obj) (ld : List Nat) (out : Option Operand) (hb : bcast m1.lead m2.lead = some ld)
    (w1 : WellFormed m1) (w2 : WellFormed m2)
    (ho : outShapeOk (ld ++ [(Ysize 0 (max m1.md.ellMax m2.md.ellMax)).toNat]) out = true) :
    addCore self m1 m2 out
      = withOut out ⟨m1.md.spin, max m1.md.ellMax m2.md.ellMax, self.md.trunc⟩
          (.modes ⟨⟨m1.md.spin, max m1.md.ellMax m2.md.ellMax, self.md.trunc⟩, ld,
            (Ysize 0 (max m1.md.ellMax m2.md.ellMax)).toNat⟩ none) := by
  obtain ⟨h1, l1⟩ := w1
  obtain ⟨h2, l2⟩ := w2
  have b := bcastTo_of_bcast hb
  have s1 := sliceAssign_ok ld m1.lead (Ysize 0 (max m1.md.ellMax m2.md.ellMax)).toNat m1.n
    (by rw [h1]; exact ysize0_mono l1 (le_max_left _ _)) (b m1.n).1
  have s2 := sliceAssign_ok ld m2.lead (Ysize 0 (max m1.md.ellMax m2.md.ellMax)).toNat m2.n
    (by rw [h2]; exact ysize0_mono l2 (le_max_right _ _)) (b m2.n).2
  unfold addCore
  simp only [hb, ho, resultShape_ok _ _ ho, Bool.not_true, Bool.false_eq_true, if_false]
  rw [← h1, ← h2]
  unfold Obj.shape
  rw [s1, s2]
  simp only
  rw [construct_ok _ _ _ (ysize0_cast _)]

theorem addCore_badout (self m1 m2 : Obj) (ld : List Nat) (out : Option Operand) (hb : bcast m1.lead m2.lead = some ld)
    (ho : outShapeOk (ld ++ [(Ysize 0 (max m1.md.ellMax m2.md.ellMax)).toNat]) out = false) :
    addCore self m1 m2 out = .err .valueError := by
  simp [addCore, hb, ho]

theorem addCore_nobcast (self m1 m2 : Obj) (out : Option Operand) (hb : bcast m1.lead m2.lead = none) :
    addCore self m1 m2 out = .err .valueError := by
  simp [addCore, hb]

theorem selfOf_first (o : Obj) (rest : List Operand) (uf : UFunc) (out : Option Operand) (kw : Bool) :
    selfOf { uf := uf, args := .modes o :: rest, out := out, kwargs := kw } = some o := by
  simp [selfOf]

theorem selfOf_second (sh : List Nat) (nz : Bool) (o : Obj) (rest : List Operand) (uf : UFunc)
    (out : Option Operand) (kw : Bool) :
    selfOf { uf := uf, args := .arr sh nz :: .modes o :: rest, out := out, kwargs := kw } = some o := by
  simp [selfOf, List.findSome?]

/-- which ufunc spellings are the add / subtract, multiply, divide and conjugate branches -/
def IsAddSub (uf : UFunc) : Prop := uf = .add ∨ uf = .subtract
def IsDiv (uf : UFunc) : Prop := uf = .divide ∨ uf = .trueDivide
def IsConj (uf : UFunc) : Prop := uf = .conj ∨ uf = .conjugate

theorem ufunc_addsub_modes (uf : UFunc) (hu : IsAddSub uf) (m1 m2 : Obj) (out : Option Operand) :
    arrayUfunc { uf := uf, args := [.modes m1, .modes m2], out := out }
      = if m1.md.spin ≠ m2.md.spin then .err .notImplemented else addCore m1 m1 m2 out := by
  rcases hu with rfl | rfl <;>
    simp [arrayUfunc, selfOf_first, UFunc.passthrough, UFunc.allowed]

theorem ufunc_addsub_nonzero (uf : UFunc) (hu : IsAddSub uf) (m : Obj) (sh : List Nat) (out : Option Operand) :
    arrayUfunc { uf := uf, args := [.modes m, .arr sh true], out := out } = .err .notImplemented
    ∧ arrayUfunc { uf := uf, args := [.arr sh true, .modes m], out := out } = .err .notImplemented := by
  rcases hu with rfl | rfl <;>
    simp [arrayUfunc, selfOf_first, selfOf_second, UFunc.passthrough, UFunc.allowed, scalarBranch]

theorem ufunc_div_by_modes (uf : UFunc) (hu : IsDiv uf) (a : Operand) (m : Obj) (out : Option Operand) :
    arrayUfunc { uf := uf, args := [a, .modes m], out := out } = .err .notImplemented := by
  cases a with
  | modes o => rcases hu with rfl | rfl <;> simp [arrayUfunc, selfOf_first, UFunc.passthrough, UFunc.allowed]
  | arr sh nz =>
    rcases hu with rfl | rfl <;> simp [arrayUfunc, selfOf_second, UFunc.passthrough, UFunc.allowed]

theorem ufunc_not_allowed (c : Call) (o : Obj) (hs : selfOf c = some o) (h1 : c.uf.passthrough = false)
    (h2 : c.uf.allowed = false) : arrayUfunc c = .err .notImplemented := by
  simp [arrayUfunc, hs, h1, h2]

theorem ufunc_kwargs (c : Call) (o : Obj) (hs : selfOf c = some o) (h1 : c.uf.allowed = true)
    (hk : c.kwargs = true) : arrayUfunc c = .err .notImplementedError := by
  have h0 : c.uf.passthrough = false := by
    cases hu : c.uf <;> simp_all [UFunc.passthrough, UFunc.allowed]
  simp [arrayUfunc, hs, h0, h1, hk]

theorem pairLoopOk_wf (lo : Int) (o : Obj) (w : WellFormed o) :
    pairLoopOk lo o.md.ellMax o.n o.n o.lead o.lead = .ok () := by
  unfold pairLoopOk
  split
  · rfl
  · have := ysize0_cast o.md.ellMax
    rw [if_neg (by rw [w.1]; omega), if_pos (bcastTo_self _)]

theorem ufunc_conj (uf : UFunc) (hu : IsConj uf) (m : Obj) (w : WellFormed m) :
    arrayUfunc { uf := uf, args := [.modes m] }
      = .modes ⟨{ m.md with spin := -m.md.spin }, m.lead, m.n⟩ none := by
  have hp := pairLoopOk_wf (m.md.spin.natAbs : Int) m w
  rw [Int.natCast_natAbs] at hp
  have hc := construct_ok { m.md with spin := -m.md.spin } m.lead m.n (by rw [w.1]; exact ysize0_cast _)
  rcases hu with rfl | rfl <;>
    simp [arrayUfunc, selfOf_first, UFunc.passthrough, UFunc.allowed, resultShape, Obj.shape, hp, hc, withOut]

theorem method_conj (m : Obj) (w : WellFormed m) :
    methodConjugate m false = (.modes ⟨{ m.md with spin := -m.md.spin }, m.lead, m.n⟩ none, false)
    ∧ methodConjugate m true = (.modes ⟨{ m.md with spin := -m.md.spin }, m.lead, m.n⟩ none, true) := by
  have hp := pairLoopOk_wf (m.md.spin.natAbs : Int) m w
  rw [Int.natCast_natAbs] at hp
  have hc := construct_ok { m.md with spin := -m.md.spin } m.lead m.n (by rw [w.1]; exact ysize0_cast _)
  simp [methodConjugate, hp, Obj.shape, hc]

theorem method_realimag (m : Obj) (w : WellFormed m) :
    methodRealImag m = if m.md.spin ≠ 0 then .err .valueError else .modes m none := by
  have hp := pairLoopOk_wf (m.md.spin.natAbs : Int) m w
  rw [Int.natCast_natAbs] at hp
  have hc := construct_ok m.md m.lead m.n (by rw [w.1]; exact ysize0_cast _)
  unfold methodRealImag
  split
  · rfl
  · simp [hp, Obj.shape, hc]

/-! ### the conjugation loops -/

/-- a list of writes `c[i] = v` applied in order -/
def applyWrites {α : Type} (c : Row α) (ws : List (Nat × α)) : Row α := ws.foldl (fun c w => c.upd w.1 w.2) c

theorem applyWrites_get {α : Type} (F : Nat → α) (ws : List (Nat × α)) (hF : ∀ w ∈ ws, w.2 = F w.1)
    (c : Row α) (p : Nat) :
    (applyWrites c ws).get p = if p ∈ ws.map (·.1) then F p else c.get p := by
  induction ws generalizing c with
  | nil => simp [applyWrites]
  | cons w ws ih =>
    have ih' := ih (fun w' hw' => hF w' (List.mem_cons_of_mem _ hw')) (c.upd w.1 w.2)
    have hw := hF w List.mem_cons_self
    simp only [applyWrites, List.foldl_cons] at ih' ⊢
    rw [ih']
    by_cases h1 : p ∈ ws.map (·.1)
    · simp [h1]
    · by_cases h2 : p = w.1
      · subst h2; simp [Row.upd, hw]
      · simp [h1, h2, Row.upd]
theorem mem_irange (lo hi x : Int) : x ∈ irange lo hi ↔ lo ≤ x ∧ x ≤ hi := by
  unfold irange
  simp only [List.mem_map, List.mem_range]
  constructor
  · rintro ⟨k, hk, rfl⟩; omega
  · rintro ⟨h1, h2⟩
    exact ⟨(x - lo).toNat, by omega, by omega⟩

/-- the `m` of the position `p`: `p - ell(ell+1)` with `ell = ⌊√p⌋` -/
def mOf (p : Nat) : Int := (p : Int) - (Nat.sqrt p : Int) * ((Nat.sqrt p : Int) + 1)

theorem pos_cast (ell m : Int) (h0 : 0 ≤ ell) (hm1 : -ell ≤ m) : ((pos ell m : Nat) : Int) = ell * (ell + 1) + m := by
  unfold pos
  rw [yindex0 ell m h0, Int.toNat_of_nonneg (by nlinarith)]

theorem sqrt_pos (ell m : Int) (h0 : 0 ≤ ell) (hm1 : -ell ≤ m) (hm2 : m ≤ ell) :
    ((Nat.sqrt (pos ell m) : Nat) : Int) = ell := by
  have hc := pos_cast ell m h0 hm1
  have : ell.toNat = Nat.sqrt (pos ell m) := by
    rw [Nat.eq_sqrt]
    constructor
    · have : ((ell.toNat * ell.toNat : Nat) : Int) ≤ ((pos ell m : Nat) : Int) := by
        rw [hc]; push_cast; rw [Int.toNat_of_nonneg h0]; nlinarith
      exact_mod_cast this
    · have : ((pos ell m : Nat) : Int) < (((ell.toNat + 1) * (ell.toNat + 1) : Nat) : Int) := by
        rw [hc]; push_cast; rw [Int.toNat_of_nonneg h0]; nlinarith
      exact_mod_cast this
  rw [← this, Int.toNat_of_nonneg h0]

theorem mOf_pos (ell m : Int) (h0 : 0 ≤ ell) (hm1 : -ell ≤ m) (hm2 : m ≤ ell) : mOf (pos ell m) = m := by
  unfold mOf
  rw [sqrt_pos ell m h0 hm1 hm2, pos_cast ell m h0 hm1]; ring

/-- every position is the position of its decoded `(ell, m)`, and `|m| ≤ ell` -/
theorem decode (p : Nat) : -(Nat.sqrt p : Int) ≤ mOf p ∧ mOf p ≤ (Nat.sqrt p : Int) ∧ pos (Nat.sqrt p) (mOf p) = p := by
  have h1 := Nat.sqrt_le' p
  have h2 := Nat.lt_succ_sqrt' p
  have h1' : ((Nat.sqrt p : Nat) : Int) ^ 2 ≤ p := by exact_mod_cast h1
  have h2' : (p : Int) < ((Nat.sqrt p : Nat) + 1 : Int) ^ 2 := by exact_mod_cast h2
  have hA : -(Nat.sqrt p : Int) ≤ mOf p := by unfold mOf; nlinarith
  have hB : mOf p ≤ (Nat.sqrt p : Int) := by unfold mOf; nlinarith
  refine ⟨hA, hB, ?_⟩
  have := pos_cast (Nat.sqrt p) (mOf p) (Int.natCast_nonneg _) hA
  have e : ((pos (Nat.sqrt p) (mOf p) : Nat) : Int) = (p : Int) := by rw [this]; unfold mOf; ring
  exact_mod_cast e

section conj
variable {α : Type} (neg conj : α → α)

def conjWritesEll (s : Int) (src : Nat → α) (ell : Int) : List (Nat × α) :=
  (pos ell 0, sgn neg s (conj (src (pos ell 0)))) ::
    (irange 1 ell).flatMap fun m =>
      [(pos ell m, sgn neg (s + m) (conj (src (pos ell (-m))))),
       (pos ell (-m), sgn neg (s + m) (conj (src (pos ell m))))]

def conjWrites (s L : Int) (src : Nat → α) : List (Nat × α) :=
  (irange (s.natAbs : Int) L).flatMap (conjWritesEll neg conj s src)

theorem conjStepUfunc_eq (s : Int) (src : Nat → α) (c : Row α) (ell : Int) :
    conjStepUfunc neg conj s src c ell = applyWrites c (conjWritesEll neg conj s src ell) := by
  unfold conjStepUfunc applyWrites conjWritesEll
  simp only [List.foldl_cons, List.foldl_flatMap, List.foldl_nil]
  have h0 : (if s % 2 = 0 then c.upd (pos ell 0) (conj (src (pos ell 0)))
      else c.upd (pos ell 0) (neg (conj (src (pos ell 0)))))
      = c.upd (pos ell 0) (sgn neg s (conj (src (pos ell 0)))) := by
    unfold sgn; split <;> rfl
  rw [h0]
  congr 1
  funext c m
  unfold sgn
  split <;> rfl

theorem conjLoopUfunc_eq (s L : Int) (src : Nat → α) (c0 : Row α) :
    conjLoopUfunc neg conj s L src c0 = applyWrites c0 (conjWrites neg conj s L src) := by
  unfold conjLoopUfunc conjWrites applyWrites
  rw [List.foldl_flatMap]
  congr 1
  funext c ell
  exact conjStepUfunc_eq neg conj s src c ell

theorem conjStepMethod_eq (s : Int) (src : Nat → α) (c : Row α) (ell : Int) :
    conjStepMethod neg conj s false src c ell = conjStepUfunc neg conj s src c ell := by
  rw [conjStepUfunc_eq]
  unfold conjStepMethod applyWrites conjWritesEll
  simp only [List.foldl_cons, List.foldl_flatMap, List.foldl_nil, Bool.false_eq_true, if_false]

/-- the closed form: entry `p` of the conjugated row -/
def conjF (s : Int) (src : Nat → α) (p : Nat) : α :=
  sgn neg (s + mOf p) (conj (src (pos (Nat.sqrt p) (-(mOf p)))))

theorem sgn_congr (k k' : Int) (h : k % 2 = k' % 2) (x : α) : sgn neg k x = sgn neg k' x := by
  unfold sgn; rw [h]

theorem conjWrites_consistent (s L : Int) (src : Nat → α) :
    ∀ w ∈ conjWrites neg conj s L src, w.2 = conjF neg conj s src w.1 := by
  intro w hw
  unfold conjWrites at hw
  rw [List.mem_flatMap] at hw
  obtain ⟨ell, hell, hw⟩ := hw
  rw [mem_irange] at hell
  have h0 : 0 ≤ ell := by omega
  unfold conjWritesEll at hw
  rw [List.mem_cons] at hw
  rcases hw with rfl | hw
  · unfold conjF
    simp only
    rw [mOf_pos ell 0 h0 (by omega) (by omega), sqrt_pos ell 0 h0 (by omega) (by omega)]
    simp
  · rw [List.mem_flatMap] at hw
    obtain ⟨m, hm, hw⟩ := hw
    rw [mem_irange] at hm
    simp only [List.mem_cons, List.not_mem_nil, or_false] at hw
    rcases hw with rfl | rfl
    · unfold conjF
      simp only
      rw [mOf_pos ell m h0 (by omega) (by omega), sqrt_pos ell m h0 (by omega) (by omega)]
    · unfold conjF
      simp only
      rw [mOf_pos ell (-m) h0 (by omega) (by omega), sqrt_pos ell (-m) h0 (by omega) (by omega), neg_neg]
      exact sgn_congr neg _ _ (by omega) _

theorem conjWrites_mem (s L : Int) (src : Nat → α) (p : Nat) :
    p ∈ (conjWrites neg conj s L src).map (·.1) ↔ ((s.natAbs : Int) ≤ (Nat.sqrt p : Int) ∧ (Nat.sqrt p : Int) ≤ L) := by
  constructor
  · intro h
    rw [List.mem_map] at h
    obtain ⟨w, hw, rfl⟩ := h
    unfold conjWrites at hw
    rw [List.mem_flatMap] at hw
    obtain ⟨ell, hell, hw⟩ := hw
    rw [mem_irange] at hell
    have h0 : 0 ≤ ell := by omega
    unfold conjWritesEll at hw
    rw [List.mem_cons] at hw
    rcases hw with rfl | hw
    · simp only; rw [sqrt_pos ell 0 h0 (by omega) (by omega)]; exact hell
    · rw [List.mem_flatMap] at hw
      obtain ⟨m, hm, hw⟩ := hw
      rw [mem_irange] at hm
      simp only [List.mem_cons, List.not_mem_nil, or_false] at hw
      rcases hw with rfl | rfl
      · simp only; rw [sqrt_pos ell m h0 (by omega) (by omega)]; exact hell
      · simp only; rw [sqrt_pos ell (-m) h0 (by omega) (by omega)]; exact hell
  · intro ⟨h1, h2⟩
    obtain ⟨d1, d2, d3⟩ := decode p
    rw [List.mem_map]
    have hell : ((Nat.sqrt p : Nat) : Int) ∈ irange (s.natAbs : Int) L := (mem_irange _ _ _).2 ⟨h1, h2⟩
    by_cases hm0 : mOf p = 0
    · refine ⟨(p, sgn neg s (conj (src p))), ?_, rfl⟩
      unfold conjWrites
      rw [List.mem_flatMap]
      refine ⟨_, hell, ?_⟩
      unfold conjWritesEll
      rw [hm0] at d3
      rw [d3]
      exact List.mem_cons_self
    · by_cases hpos : 0 < mOf p
      · refine ⟨(pos (Nat.sqrt p) (mOf p), sgn neg (s + mOf p) (conj (src (pos (Nat.sqrt p) (-(mOf p)))))), ?_, d3⟩
        unfold conjWrites
        rw [List.mem_flatMap]
        refine ⟨_, hell, ?_⟩
        unfold conjWritesEll
        refine List.mem_cons_of_mem _ ?_
        rw [List.mem_flatMap]
        exact ⟨mOf p, (mem_irange _ _ _).2 ⟨by omega, d2⟩, List.mem_cons_self⟩
      · refine ⟨(pos (Nat.sqrt p) (-(-(mOf p))), sgn neg (s + -(mOf p)) (conj (src (pos (Nat.sqrt p) (-(mOf p)))))), ?_,
          by rw [neg_neg]; exact d3⟩
        unfold conjWrites
        rw [List.mem_flatMap]
        refine ⟨_, hell, ?_⟩
        unfold conjWritesEll
        refine List.mem_cons_of_mem _ ?_
        rw [List.mem_flatMap]
        exact ⟨-(mOf p), (mem_irange _ _ _).2 ⟨by omega, by omega⟩, List.mem_cons_of_mem _ List.mem_cons_self⟩

theorem conjLoopUfunc_get (s L : Int) (src : Nat → α) (c0 : Row α) (p : Nat) :
    (conjLoopUfunc neg conj s L src c0).get p
      = if ((s.natAbs : Int) ≤ (Nat.sqrt p : Int) ∧ (Nat.sqrt p : Int) ≤ L) then conjF neg conj s src p else c0.get p := by
  rw [conjLoopUfunc_eq, applyWrites_get (conjF neg conj s src) _ (conjWrites_consistent neg conj s L src)]
  simp only [conjWrites_mem]

end conj


section conj2
variable {α : Type} (neg conj : α → α)

theorem conjRow_get (s L : Int) (src : Nat → α) (c0 : Row α) (zero : α) (p : Nat) :
    conjRow neg conj s L src c0 zero p
      = if (Nat.sqrt p : Int) < (s.natAbs : Int) then zero
        else if (Nat.sqrt p : Int) ≤ L then conjF neg conj s src p else c0.get p := by
  unfold conjRow stored
  have hz : ((p : Int) < zeroCount (-s)) ↔ ((Nat.sqrt p : Int) < (s.natAbs : Int)) := by
    rw [zeroCount_eq, neg_sq, ← natAbs_sq s]
    have := @Nat.sqrt_lt' p s.natAbs
    constructor
    · intro h
      have : p < s.natAbs ^ 2 := by exact_mod_cast h
      exact_mod_cast (Nat.sqrt_lt'.2 this)
    · intro h
      have : Nat.sqrt p < s.natAbs := by exact_mod_cast h
      exact_mod_cast (Nat.sqrt_lt'.1 this)
  have hp0 : padCount 0 = 0 := by simp [padCount]
  by_cases h : (Nat.sqrt p : Int) < (s.natAbs : Int)
  · rw [if_pos (hz.2 h), if_pos h]
  · rw [if_neg (fun h' => h (hz.1 h')), if_neg h, hp0, if_neg (by omega), conjLoopUfunc_get]
    simp only [Nat.sub_zero]
    by_cases h2 : (Nat.sqrt p : Int) ≤ L
    · rw [if_pos ⟨by omega, h2⟩, if_pos h2]
    · rw [if_neg (fun h' => h2 h'.2), if_neg h2]

theorem sgn_sgn (hc : ∀ x, conj (conj x) = x) (hn : ∀ x, neg (neg x) = x) (hcn : ∀ x, conj (neg x) = neg (conj x))
    (k k' : Int) (h : k % 2 = k' % 2) (x : α) : sgn neg k (conj (sgn neg k' (conj x))) = x := by
  unfold sgn
  rw [h]
  split
  · exact hc x
  · rw [hcn, hn, hc]

theorem conj_involution_row (hc : ∀ x, conj (conj x) = x) (hn : ∀ x, neg (neg x) = x)
    (hcn : ∀ x, conj (neg x) = neg (conj x)) (s L : Int) (src : Nat → α) (c0 c0' : Row α) (zero : α) (p : Nat)
    (hp : (Nat.sqrt p : Int) ≤ L) :
    conjRow neg conj (-s) L (conjRow neg conj s L src c0 zero) c0' zero p
      = if (Nat.sqrt p : Int) < (s.natAbs : Int) then zero else src p := by
  rw [conjRow_get, Int.natAbs_neg]
  by_cases h : (Nat.sqrt p : Int) < (s.natAbs : Int)
  · rw [if_pos h, if_pos h]
  · rw [if_neg h, if_neg h, if_pos hp]
    obtain ⟨d1, d2, d3⟩ := decode p
    have e0 : (0 : Int) ≤ Nat.sqrt p := Int.natCast_nonneg _
    unfold conjF
    rw [conjRow_get, sqrt_pos _ _ e0 (by omega) (by omega), if_neg h, if_pos hp]
    unfold conjF
    rw [sqrt_pos _ _ e0 (by omega) (by omega), mOf_pos _ _ e0 (by omega) (by omega), neg_neg, d3]
    exact sgn_sgn neg conj hc hn hcn _ _ (by omega) _

end conj2


section inplace
variable {α : Type} (neg conj : α → α)

/-- the positions one step `(ell, m)` of the conjugation loop reads and writes -/
def touched (st : Int × Int) (p : Nat) : Prop := p = pos st.1 st.2 ∨ p = pos st.1 (-st.2)

/-- one step `(ell, m)` of `Modes.conjugate`: `m = 0` the single write, `m ≥ 1` the swap of `±m` -/
def stepM (s : Int) (inplace : Bool) (src : Nat → α) (c : Row α) (st : Int × Int) : Row α :=
  if st.2 = 0 then c.upd (pos st.1 0) (sgn neg s (conj (if inplace then c.get (pos st.1 0) else src (pos st.1 0))))
  else
    (c.upd (pos st.1 st.2) (sgn neg (s + st.2) (conj (if inplace then c.get (pos st.1 (-st.2)) else src (pos st.1 (-st.2)))))).upd
      (pos st.1 (-st.2)) (sgn neg (s + st.2) (conj (if inplace then c.get (pos st.1 st.2) else src (pos st.1 st.2))))

def stepsEll (ell : Int) : List (Int × Int) := (ell, 0) :: (irange 1 ell).map (fun m => (ell, m))

def steps (s L : Int) : List (Int × Int) := (irange (s.natAbs : Int) L).flatMap stepsEll

theorem conjStepMethod_steps (s : Int) (ip : Bool) (src : Nat → α) (c : Row α) (ell : Int) :
    conjStepMethod neg conj s ip src c ell = (stepsEll ell).foldl (stepM neg conj s ip src) c := by
  unfold conjStepMethod stepsEll
  rw [List.foldl_cons, List.foldl_map]
  have h0 : stepM neg conj s ip src c (ell, 0)
      = c.upd (pos ell 0) (sgn neg s (conj (if ip then c.get (pos ell 0) else src (pos ell 0)))) := by
    simp [stepM]
  rw [h0]
  apply List.foldl_ext
  intro c' m hm
  rw [mem_irange] at hm
  have : ¬ (m = 0) := by omega
  simp [stepM, this]

theorem conjLoopMethod_steps (s L : Int) (ip : Bool) (src : Nat → α) (c0 : Row α) :
    conjLoopMethod neg conj s L ip src c0 = (steps s L).foldl (stepM neg conj s ip src) c0 := by
  unfold conjLoopMethod steps
  rw [List.foldl_flatMap]
  congr 1
  funext c ell
  exact conjStepMethod_steps neg conj s ip src c ell

theorem stepM_agree (s : Int) (src : Nat → α) (c : Row α) (st : Int × Int)
    (h : ∀ p, touched st p → c.get p = src p) :
    stepM neg conj s true src c st = stepM neg conj s false src c st := by
  have h1 := h (pos st.1 st.2) (Or.inl rfl)
  have h2 := h (pos st.1 (-st.2)) (Or.inr rfl)
  unfold stepM
  split
  · next h0 => rw [h0] at h1; simp [h1]
  · simp [h1, h2]

theorem stepM_outside (s : Int) (ip : Bool) (src : Nat → α) (c : Row α) (st : Int × Int) (p : Nat)
    (h : ¬ touched st p) : (stepM neg conj s ip src c st).get p = c.get p := by
  unfold touched at h
  have h1 : p ≠ pos st.1 st.2 := fun e => h (Or.inl e)
  have h2 : p ≠ pos st.1 (-st.2) := fun e => h (Or.inr e)
  unfold stepM
  split
  · next h0 => rw [h0] at h1; simp [Row.upd, h1]
  · simp [Row.upd, h1, h2]

theorem foldl_agree (s : Int) (src : Nat → α) (l : List (Int × Int)) (c : Row α)
    (hp : l.Pairwise (fun a b => ∀ p, touched a p → ¬ touched b p))
    (h : ∀ st ∈ l, ∀ p, touched st p → c.get p = src p) :
    l.foldl (stepM neg conj s true src) c = l.foldl (stepM neg conj s false src) c := by
  induction l generalizing c with
  | nil => rfl
  | cons st rest ih =>
    rw [List.pairwise_cons] at hp
    rw [List.foldl_cons, List.foldl_cons, stepM_agree neg conj s src c st (h st List.mem_cons_self)]
    apply ih _ hp.2
    intro st' hst' p ht
    rw [stepM_outside neg conj s false src c st p (fun ht0 => hp.1 st' hst' p ht0 ht)]
    exact h st' (List.mem_cons_of_mem _ hst') p ht

theorem pos_inj (e1 m1 e2 m2 : Int) (h1 : 0 ≤ e1) (a1 : -e1 ≤ m1) (b1 : m1 ≤ e1) (h2 : 0 ≤ e2) (a2 : -e2 ≤ m2)
    (b2 : m2 ≤ e2) (h : pos e1 m1 = pos e2 m2) : e1 = e2 ∧ m1 = m2 := by
  have s1 := sqrt_pos e1 m1 h1 a1 b1
  have s2 := sqrt_pos e2 m2 h2 a2 b2
  have t1 := mOf_pos e1 m1 h1 a1 b1
  have t2 := mOf_pos e2 m2 h2 a2 b2
  rw [h] at s1 t1
  exact ⟨s1.symm.trans s2, t1.symm.trans t2⟩

theorem mem_steps (s L : Int) (st : Int × Int) :
    st ∈ steps s L ↔ ((s.natAbs : Int) ≤ st.1 ∧ st.1 ≤ L ∧ 0 ≤ st.2 ∧ st.2 ≤ st.1) := by
  unfold steps stepsEll
  rw [List.mem_flatMap]
  constructor
  · rintro ⟨ell, hell, hst⟩
    rw [mem_irange] at hell
    rw [List.mem_cons, List.mem_map] at hst
    rcases hst with rfl | ⟨m, hm, rfl⟩
    · simp only; omega
    · rw [mem_irange] at hm; simp only; omega
  · rintro ⟨h1, h2, h3, h4⟩
    refine ⟨st.1, (mem_irange _ _ _).2 ⟨h1, h2⟩, ?_⟩
    rw [List.mem_cons, List.mem_map]
    by_cases h0 : st.2 = 0
    · left; exact Prod.ext rfl h0
    · right; exact ⟨st.2, (mem_irange _ _ _).2 ⟨by omega, h4⟩, rfl⟩

theorem nodup_irange (lo hi : Int) : (irange lo hi).Nodup := by
  unfold irange
  apply List.Nodup.map _ List.nodup_range
  intro a b h
  simp only at h
  omega

theorem nodup_steps (s L : Int) : (steps s L).Nodup := by
  unfold steps
  rw [List.nodup_flatMap]
  constructor
  · intro ell _
    unfold stepsEll
    rw [List.nodup_cons]
    constructor
    · intro h
      rw [List.mem_map] at h
      obtain ⟨m, hm, e⟩ := h
      rw [mem_irange] at hm
      have : m = 0 := by simpa using congrArg Prod.snd e
      omega
    · apply List.Nodup.map _ (nodup_irange _ _)
      intro a b h
      simpa using congrArg Prod.snd h
  · apply List.Pairwise.imp_of_mem _ (nodup_irange _ _)
    intro a b _ _ hab
    show List.Disjoint (stepsEll a) (stepsEll b)
    rw [List.disjoint_left]
    intro st h1 h2
    have f1 : st.1 = a := by
      unfold stepsEll at h1
      rw [List.mem_cons, List.mem_map] at h1
      rcases h1 with rfl | ⟨m, _, rfl⟩ <;> rfl
    have f2 : st.1 = b := by
      unfold stepsEll at h2
      rw [List.mem_cons, List.mem_map] at h2
      rcases h2 with rfl | ⟨m, _, rfl⟩ <;> rfl
    exact hab (f1.symm.trans f2)

theorem steps_pairwise (s L : Int) :
    (steps s L).Pairwise (fun a b => ∀ p, touched a p → ¬ touched b p) := by
  apply List.Nodup.pairwise_of_forall_ne (nodup_steps s L)
  intro a ha b hb hab p ta tb
  rw [mem_steps] at ha hb
  apply hab
  have ha0 : 0 ≤ a.1 := by omega
  have hb0 : 0 ≤ b.1 := by omega
  unfold touched at ta tb
  rcases ta with rfl | rfl <;> rcases tb with e | e
  · obtain ⟨e1, e2⟩ := pos_inj _ _ _ _ ha0 (by omega) (by omega) hb0 (by omega) (by omega) e
    exact Prod.ext e1 e2
  · obtain ⟨e1, e2⟩ := pos_inj _ _ _ _ ha0 (by omega) (by omega) hb0 (by omega) (by omega) e
    exact Prod.ext e1 (by omega)
  · obtain ⟨e1, e2⟩ := pos_inj _ _ _ _ ha0 (by omega) (by omega) hb0 (by omega) (by omega) e
    exact Prod.ext e1 (by omega)
  · obtain ⟨e1, e2⟩ := pos_inj _ _ _ _ ha0 (by omega) (by omega) hb0 (by omega) (by omega) e
    exact Prod.ext e1 (by omega)

/-- conjugating in place (the loop reads the array it is writing) gives the same row as conjugating a copy -/
theorem conjLoopMethod_inplace (s L : Int) (src : Nat → α) :
    conjLoopMethod neg conj s L true src ⟨src⟩ = conjLoopMethod neg conj s L false src ⟨src⟩ := by
  rw [conjLoopMethod_steps, conjLoopMethod_steps]
  exact foldl_agree neg conj s src _ _ (steps_pairwise s L) (fun _ _ _ _ => rfl)

end inplace

/-! ### multiplication: outcomes -/

theorem bcast_snoc_one (a b : List Nat) (x : Nat) : bcast (a ++ [x]) (b ++ [1]) = (bcast a b).map (· ++ [x]) := by
  have hb : bdim x 1 = some x := by
    unfold bdim
    by_cases h : x = 1 <;> simp [h]
  unfold bcast
  simp only [List.reverse_append, List.reverse_cons, List.reverse_nil, List.nil_append, List.singleton_append,
    bcastRev, hb]
  cases bcastRev a.reverse b.reverse <;> simp

theorem mulCore_ok (self m1 m2 : Obj) (t : Option Trunc) (ld : List Nat) (out : Option Operand)
    (hb : bcast m1.lead m2.lead = some ld)
    (ho : outShapeOk (ld ++ [(Ysize 0 (productEllMax m1 m2 t)).toNat]) out = true) :
    mulCore self m1 m2 t out
      = withOut out ⟨m1.md.spin + m2.md.spin, productEllMax m1 m2 t, self.md.trunc⟩
          (.modes ⟨⟨m1.md.spin + m2.md.spin, productEllMax m1 m2 t, self.md.trunc⟩, ld,
            (Ysize 0 (productEllMax m1 m2 t)).toNat⟩ none) := by
  unfold mulCore
  simp only [hb, ho, resultShape_ok _ _ ho, Bool.not_true, Bool.false_eq_true, if_false]
  rw [construct_ok _ _ _ (ysize0_cast _)]

theorem mulCore_badout (self m1 m2 : Obj) (t : Option Trunc) (ld : List Nat) (out : Option Operand)
    (hb : bcast m1.lead m2.lead = some ld)
    (ho : outShapeOk (ld ++ [(Ysize 0 (productEllMax m1 m2 t)).toNat]) out = false) :
    mulCore self m1 m2 t out = .err .valueError := by
  simp [mulCore, hb, ho]

theorem mulCore_nobcast (self m1 m2 : Obj) (t : Option Trunc) (out : Option Operand)
    (hb : bcast m1.lead m2.lead = none) : mulCore self m1 m2 t out = .err .valueError := by
  simp [mulCore, hb]

theorem scalarBranch_ok (self m : Obj) (sh ld : List Nat) (nz z : Bool) (w : WellFormed self) (hz : (z && nz) = false)
    (hlen : sh.length ≤ m.lead.length) (hb : bcast m.lead sh = some ld) (hn : m.n = self.n) :
    scalarBranch self m sh nz z none = .modes ⟨self.md, ld, self.n⟩ none := by
  unfold scalarBranch
  rw [hz]
  have hc : checkBroadcasting m sh = .yes := by
    unfold checkBroadcasting Obj.shape
    rw [if_neg (by simp; omega), hb]; rfl
  have hi : innerScalarUfunc m sh none = .ok (ld ++ [m.n]) := by
    unfold innerScalarUfunc Obj.shape
    simp [bcast_snoc_one, hb]
  simp only [Bool.false_eq_true, if_false, hc, hi, withOut]
  rw [hn, construct_ok _ _ _ (by rw [w.1]; exact ysize0_cast _)]

/-! ### multiplication: the loop nest of the helper -/

theorem filter_irange_le (a hi L' : Int) :
    (irange a hi).filter (fun x => decide (x ≤ L')) = irange a (min hi L') := by
  by_cases hlt : hi < a
  · rw [irange_empty a hi hlt, irange_empty a _ (by omega)]; rfl
  · obtain ⟨k, hk⟩ : ∃ k : Nat, hi = a - 1 + k := ⟨(hi - a + 1).toNat, by omega⟩
    subst hk
    clear hlt
    induction k with
    | zero =>
      rw [irange_empty a _ (by omega), irange_empty a _ (by omega)]; rfl
    | succ k ih =>
      have e : a - 1 + ((k + 1 : Nat) : Int) = (a - 1 + k) + 1 := by push_cast; ring
      rw [e, irange_succ a (a - 1 + k) (by omega), List.filter_append, ih]
      by_cases h : a - 1 + k + 1 ≤ L'
      · have e1 : min (a - 1 + (k : Int)) L' = a - 1 + k := by omega
        have e2 : min (a - 1 + (k : Int) + 1) L' = a - 1 + k + 1 := by omega
        rw [e1, e2, irange_succ a (a - 1 + k) (by omega)]
        simp [h]
      · have e1 : min (a - 1 + (k : Int)) L' = min (a - 1 + (k : Int) + 1) L' := by omega
        rw [e1]
        simp [h]

theorem terms_filter (L1 L2 Lfg L' : Int) (h : L' ≤ Lfg) :
    (terms L1 L2 Lfg).filter (fun t => decide (t.ell3 ≤ L')) = terms L1 L2 L' := by
  unfold terms
  simp only [List.filter_flatMap, List.filter_map]
  congr 1; funext ell1; congr 1; funext m1; congr 1; funext ell2; congr 1; funext m2
  congr 1
  have : ((fun t : Term => decide (t.ell3 ≤ L')) ∘ fun ell3 => (ell1, m1, ell2, m2, ell3))
      = fun x => decide (x ≤ L') := by
    funext x; rfl
  rw [this, filter_irange_le]
  congr 1
  omega


theorem mem_terms (L1 L2 Lfg : Int) (t : Term) :
    t ∈ terms L1 L2 Lfg ↔
      (0 ≤ t.1 ∧ t.1 ≤ L1 ∧ -t.1 ≤ t.2.1 ∧ t.2.1 ≤ t.1 ∧ 0 ≤ t.2.2.1 ∧ t.2.2.1 ≤ L2 ∧ -t.2.2.1 ≤ t.2.2.2.1
        ∧ t.2.2.2.1 ≤ t.2.2.1
        ∧ max (((t.2.1 + t.2.2.2.1).natAbs : Nat) : Int) (((t.1 - t.2.2.1).natAbs : Nat) : Int) ≤ t.2.2.2.2
        ∧ t.2.2.2.2 ≤ min (t.1 + t.2.2.1) Lfg) := by
  obtain ⟨e1, m1, e2, m2, e3⟩ := t
  unfold terms
  simp only [List.mem_flatMap, List.mem_map, mem_irange, Prod.mk.injEq]
  constructor
  · rintro ⟨a, ha, b, hb, c, hc, d, hd, e, he, rfl, rfl, rfl, rfl, rfl⟩
    exact ⟨ha.1, ha.2, hb.1, hb.2, hc.1, hc.2, hd.1, hd.2, he.1, he.2⟩
  · rintro ⟨h1, h2, h3, h4, h5, h6, h7, h8, h9, h10⟩
    exact ⟨e1, ⟨h1, h2⟩, m1, ⟨h3, h4⟩, e2, ⟨h5, h6⟩, m2, ⟨h7, h8⟩, e3, ⟨h9, h10⟩, rfl, rfl, rfl, rfl, rfl⟩

theorem accumulate_get {β : Type} (add : β → β → β) (val : Term → β) (ts : List Term) (fg0 : Row β) (p : Nat) :
    (accumulate add val ts fg0).get p
      = (ts.filter (fun t => decide (t.widx = p))).foldl (fun a t => add a (val t)) (fg0.get p) := by
  induction ts generalizing fg0 with
  | nil => rfl
  | cons t ts ih =>
    unfold accumulate at ih ⊢
    rw [List.foldl_cons, ih]
    by_cases h : t.widx = p
    · rw [List.filter_cons_of_pos (by simpa using h), List.foldl_cons]
      subst h
      simp [Row.upd]
    · rw [List.filter_cons_of_neg (by simpa using h)]
      have : p ≠ t.widx := fun e => h e.symm
      simp [Row.upd, this]

/-- a term's write position determines that its `ell3` is small when the position is -/
theorem term_ell3_le (L1 L2 Lfg L' : Int) (t : Term) (ht : t ∈ terms L1 L2 Lfg) (p : Nat)
    (hp : (p : Int) < Ysize 0 L') (hw : t.widx = p) (hL : -1 ≤ L') : t.ell3 ≤ L' := by
  rw [mem_terms] at ht
  obtain ⟨h1, _, _, _, h5, _, _, _, h9, h10⟩ := ht
  have h3 : 0 ≤ t.ell3 := by unfold Term.ell3; omega
  have hm : ((t.m3.natAbs : Nat) : Int) ≤ t.ell3 := by unfold Term.ell3 Term.m3; omega
  obtain ⟨b1, _⟩ := pos_bounds t.ell3 t.m3 h3 (by omega) (by omega)
  have hc := pos_cast t.ell3 t.m3 h3 (by omega)
  unfold Term.widx at hw
  rw [ysize0] at hp
  have : t.ell3 ^ 2 < (L' + 1) ^ 2 := by
    have e := yindex0 t.ell3 t.m3 h3
    rw [← hw, hc] at hp
    rw [e] at b1
    omega
  by_contra hcon
  have := sq_le_sq_of_le (show (0:Int) ≤ L' + 1 by omega) (show L' + 1 ≤ t.ell3 by omega)
  omega

theorem accumulate_truncation {β : Type} (add : β → β → β) (val : Term → β) (L1 L2 Lfg L' : Int) (h : L' ≤ Lfg)
    (hL : -1 ≤ L') (fg0 : Row β) (p : Nat) (hp : (p : Int) < Ysize 0 L') :
    (accumulate add val (terms L1 L2 Lfg) fg0).get p = (accumulate add val (terms L1 L2 L') fg0).get p := by
  rw [accumulate_get, accumulate_get, ← terms_filter L1 L2 Lfg L' h, List.filter_filter]
  congr 1
  apply List.filter_congr
  intro t ht
  by_cases hw : t.widx = p
  · have := term_ell3_le L1 L2 Lfg L' t ht p hp hw hL
    simp [hw, this]
  · simp [hw]

/-! ### copy / pickle routes on the heap -/

/-- `v'` is a deep copy (made between heaps `h` and `h'`) of `v`: the same atom, or a *new* mutable object with the
    same content -/
def DeepRel (h : Heap) (v : Val) (h' : Heap) (v' : Val) : Prop :=
  match v with
  | .ref id => ∃ id', v' = .ref id' ∧ h.nextVal ≤ id' ∧ id' < h'.nextVal ∧ h'.vals id' = h.vals id
  | _ => v' = v

/-- nothing but fresh mutable values was touched between `h` and `h'` -/
structure ValFrame (h h' : Heap) : Prop where
  dicts : h'.dicts = h.dicts
  bufs : h'.bufs = h.bufs
  nextDict : h'.nextDict = h.nextDict
  nextBuf : h'.nextBuf = h.nextBuf
  mono : h.nextVal ≤ h'.nextVal
  old : ∀ i, i < h.nextVal → h'.vals i = h.vals i

theorem ValFrame.refl (h : Heap) : ValFrame h h := ⟨rfl, rfl, rfl, rfl, le_refl _, fun _ _ => rfl⟩

theorem ValFrame.trans {h1 h2 h3 : Heap} (a : ValFrame h1 h2) (b : ValFrame h2 h3) : ValFrame h1 h3 :=
  ⟨by rw [b.dicts, a.dicts], by rw [b.bufs, a.bufs], by rw [b.nextDict, a.nextDict], by rw [b.nextBuf, a.nextBuf],
   le_trans a.mono b.mono, fun i hi => by rw [b.old i (lt_of_lt_of_le hi a.mono), a.old i hi]⟩

theorem deepCopyVal_spec (h : Heap) (v : Val) (hv : ∀ id, v = .ref id → id < h.nextVal) :
    ValFrame h (h.deepCopyVal v).1 ∧ DeepRel h v (h.deepCopyVal v).1 (h.deepCopyVal v).2 := by
  cases v with
  | ref id =>
    have hid := hv id rfl
    refine ⟨⟨rfl, rfl, rfl, rfl, Nat.le_succ _, ?_⟩, ?_⟩
    · intro i hi
      simp only [Heap.deepCopyVal]
      rw [if_neg (by omega)]
    · refine ⟨h.nextVal, rfl, le_refl _, Nat.lt_succ_self _, ?_⟩
      simp [Heap.deepCopyVal]
  | int i => exact ⟨ValFrame.refl h, rfl⟩
  | fn n => exact ⟨ValFrame.refl h, rfl⟩
  | none => exact ⟨ValFrame.refl h, rfl⟩

theorem DeepRel.frame {h h1 h2 : Heap} {v v' : Val} (r : DeepRel h v h1 v') (f : ValFrame h1 h2) :
    DeepRel h v h2 v' := by
  cases v with
  | ref id =>
    obtain ⟨id', e, a, b, c⟩ := r
    exact ⟨id', e, a, lt_of_lt_of_le b f.mono, by rw [f.old id' b, c]⟩
  | int i => exact r
  | fn n => exact r
  | none => exact r

theorem DeepRel.pre {h0 h1 h2 : Heap} {v v' : Val} (f : ValFrame h0 h1) (r : DeepRel h1 v h2 v')
    (hv : ∀ id, v = .ref id → id < h0.nextVal) : DeepRel h0 v h2 v' := by
  cases v with
  | ref id =>
    obtain ⟨id', e, a, b, c⟩ := r
    exact ⟨id', e, le_trans f.mono a, b, by rw [c, f.old id (hv id rfl)]⟩
  | int i => exact r
  | fn n => exact r
  | none => exact r

theorem mem_of_lookup {es : List (String × Val)} {k : String} {v : Val} (h : es.lookup k = some v) :
    (k, v) ∈ es := by
  obtain ⟨l1, l2, e, _⟩ := List.lookup_eq_some_iff.1 h
  rw [e]; simp

def RefsBelow (es : List (String × Val)) (n : Nat) : Prop := ∀ k id, (k, Val.ref id) ∈ es → id < n

theorem deepCopyEntries_spec (h : Heap) (es : List (String × Val)) (hw : RefsBelow es h.nextVal) :
    ValFrame h (h.deepCopyEntries es).1
    ∧ (h.deepCopyEntries es).2.map (·.1) = es.map (·.1)
    ∧ (∀ k v, es.lookup k = some v → ∃ v', (h.deepCopyEntries es).2.lookup k = some v'
          ∧ DeepRel h v (h.deepCopyEntries es).1 v')
    ∧ RefsBelow (h.deepCopyEntries es).2 (h.deepCopyEntries es).1.nextVal
    ∧ (∀ k id, (k, Val.ref id) ∈ (h.deepCopyEntries es).2 → h.nextVal ≤ id) := by
  induction es generalizing h with
  | nil => exact ⟨ValFrame.refl h, rfl, fun k v hk => by simp at hk, fun k id hm => by simp [Heap.deepCopyEntries] at hm,
      fun k id hm => by simp [Heap.deepCopyEntries] at hm⟩
  | cons e es ih =>
    obtain ⟨k0, v0⟩ := e
    have hv0 : ∀ id, v0 = .ref id → id < h.nextVal := fun id e => hw k0 id (by rw [e]; exact List.mem_cons_self)
    obtain ⟨f1, r1⟩ := deepCopyVal_spec h v0 hv0
    have hw1 : RefsBelow es (h.deepCopyVal v0).1.nextVal :=
      fun k id hm => lt_of_lt_of_le (hw k id (List.mem_cons_of_mem _ hm)) f1.mono
    obtain ⟨f2, keys, look, below, fresh⟩ := ih (h.deepCopyVal v0).1 hw1
    have hfr : ∀ id, (h.deepCopyVal v0).2 = Val.ref id → h.nextVal ≤ id ∧ id < (h.deepCopyVal v0).1.nextVal := by
      intro id e
      cases v0 with
      | ref id0 =>
        obtain ⟨id', e', a, b, _⟩ := r1
        rw [e] at e'
        have : id = id' := by simpa using e'
        subst this; exact ⟨a, b⟩
      | int i => have : (h.deepCopyVal (.int i)).2 = .int i := r1; rw [this] at e; simp at e
      | fn n => have : (h.deepCopyVal (.fn n)).2 = .fn n := r1; rw [this] at e; simp at e
      | none => have : (h.deepCopyVal Val.none).2 = Val.none := r1; rw [this] at e; simp at e
    refine ⟨f1.trans f2, ?_, ?_, ?_, ?_⟩
    · simp only [Heap.deepCopyEntries, List.map_cons]
      rw [keys]
    · intro k v hk
      simp only [Heap.deepCopyEntries]
      rw [List.lookup_cons] at hk ⊢
      by_cases hkk : (k == k0) = true
      · rw [hkk] at hk ⊢
        have : v = v0 := by simpa using hk.symm
        subst this
        exact ⟨_, rfl, r1.frame f2⟩
      · have hkk' : (k == k0) = false := by simpa using hkk
        rw [hkk'] at hk ⊢
        obtain ⟨v', l', r'⟩ := look k v hk
        refine ⟨v', l', DeepRel.pre f1 r' ?_⟩
        intro id e
        subst e
        exact hw k id (List.mem_cons_of_mem _ (mem_of_lookup hk))
    · intro k id hm
      simp only [Heap.deepCopyEntries, List.mem_cons, Prod.mk.injEq] at hm
      rcases hm with ⟨_, e⟩ | hm
      · exact lt_of_lt_of_le (hfr id e.symm).2 f2.mono
      · exact below k id hm
    · intro k id hm
      simp only [Heap.deepCopyEntries, List.mem_cons, Prod.mk.injEq] at hm
      rcases hm with ⟨_, e⟩ | hm
      · exact (hfr id e.symm).1
      · exact le_trans f1.mono (fresh k id hm)

theorem deepCopyDict_spec (h : Heap) (d : Nat) (hw : RefsBelow (h.dicts d) h.nextVal) :
    (h.deepCopyDict d).2 = h.nextDict
    ∧ (∀ i, i ≠ h.nextDict → (h.deepCopyDict d).1.dicts i = h.dicts i)
    ∧ ((h.deepCopyDict d).1.dicts h.nextDict).map (·.1) = (h.dicts d).map (·.1)
    ∧ (∀ k v, h.lookup d k = some v → ∃ v', (h.deepCopyDict d).1.lookup h.nextDict k = some v'
          ∧ DeepRel h v (h.deepCopyDict d).1 v')
    ∧ RefsBelow ((h.deepCopyDict d).1.dicts h.nextDict) (h.deepCopyDict d).1.nextVal
    ∧ (∀ k id, (k, Val.ref id) ∈ (h.deepCopyDict d).1.dicts h.nextDict → h.nextVal ≤ id)
    ∧ (h.deepCopyDict d).1.bufs = h.bufs ∧ (h.deepCopyDict d).1.nextBuf = h.nextBuf
    ∧ (h.deepCopyDict d).1.nextDict = h.nextDict + 1
    ∧ h.nextVal ≤ (h.deepCopyDict d).1.nextVal
    ∧ (∀ i, i < h.nextVal → (h.deepCopyDict d).1.vals i = h.vals i) := by
  obtain ⟨f, keys, look, below, fresh⟩ := deepCopyEntries_spec h (h.dicts d) hw
  have hn : (h.deepCopyEntries (h.dicts d)).1.nextDict = h.nextDict := f.nextDict
  have hd : (h.deepCopyDict d).1.dicts h.nextDict = (h.deepCopyEntries (h.dicts d)).2 := by
    simp [Heap.deepCopyDict, hn]
  refine ⟨hn, ?_, ?_, ?_, ?_, ?_, f.bufs, f.nextBuf, ?_, f.mono, f.old⟩
  · intro i hi
    simp only [Heap.deepCopyDict, hn, if_neg hi]
    rw [f.dicts]
  · rw [hd, keys]
  · intro k v hk
    obtain ⟨v', l', r'⟩ := look k v hk
    exact ⟨v', by unfold Heap.lookup; rw [hd]; exact l', r'⟩
  · rw [hd]; exact below
  · rw [hd]; exact fresh
  · simp [Heap.deepCopyDict, hn]

theorem DeepRel.comp {h h1 h2 : Heap} {v v1 v2 : Val} (a : DeepRel h v h1 v1) (b : DeepRel h1 v1 h2 v2)
    (hm : h.nextVal ≤ h1.nextVal) : DeepRel h v h2 v2 := by
  cases v with
  | ref id =>
    obtain ⟨id1, e1, a1, a2, a3⟩ := a
    subst e1
    obtain ⟨id2, e2, b1, b2, b3⟩ := b
    exact ⟨id2, e2, le_trans hm b1, b2, by rw [b3, a3]⟩
  | int i => have : v1 = .int i := a; subst this; exact b
  | fn n => have : v1 = .fn n := a; subst this; exact b
  | none => have : v1 = Val.none := a; subst this; exact b

theorem DeepRel.sameValue {h h' : Heap} {v v' : Val} (r : DeepRel h v h' v') : sameValue h v h' v' := by
  cases v with
  | ref id => obtain ⟨id', e, _, _, c⟩ := r; subst e; exact c
  | int i => have : v' = .int i := r; subst this; rfl
  | fn n => have : v' = .fn n := r; subst this; rfl
  | none => have : v' = Val.none := r; subst this; rfl

/-- everything the pickle round trip guarantees -/
theorem pickle_spec (h : Heap) (obj : PyObj) (hl : h.Live obj) :
    (pickleRoundTrip h obj).2 = ⟨obj.cls, h.nextBuf, h.nextDict + 1⟩
    ∧ (pickleRoundTrip h obj).1.bufs h.nextBuf = h.bufs obj.buf
    ∧ (∀ i, i ≠ h.nextBuf → (pickleRoundTrip h obj).1.bufs i = h.bufs i)
    ∧ (∀ i, i < h.nextDict → (pickleRoundTrip h obj).1.dicts i = h.dicts i)
    ∧ ((pickleRoundTrip h obj).1.dicts (h.nextDict + 1)).map (·.1) = (h.dicts obj.dict).map (·.1)
    ∧ (∀ k v, h.lookup obj.dict k = some v → ∃ v', (pickleRoundTrip h obj).1.lookup (h.nextDict + 1) k = some v'
          ∧ DeepRel h v (pickleRoundTrip h obj).1 v')
    ∧ (∀ k id, (k, Val.ref id) ∈ (pickleRoundTrip h obj).1.dicts (h.nextDict + 1) → h.nextVal ≤ id)
    ∧ (∀ i, i < h.nextVal → (pickleRoundTrip h obj).1.vals i = h.vals i) := by
  obtain ⟨hb, hd, hr⟩ := hl
  -- step 1: the data
  have e0 : (h.copyBuf obj.buf).2 = h.nextBuf := rfl
  let h1 := (h.copyBuf obj.buf).1
  have h1d : h1.dicts = h.dicts := rfl
  have h1v : h1.vals = h.vals := rfl
  have h1nd : h1.nextDict = h.nextDict := rfl
  have h1nv : h1.nextVal = h.nextVal := rfl
  have h1b : h1.bufs h.nextBuf = h.bufs obj.buf := by simp [h1, Heap.copyBuf]
  have h1b' : ∀ i, i ≠ h.nextBuf → h1.bufs i = h.bufs i := by intro i hi; simp [h1, Heap.copyBuf, hi]
  -- step 2: serialisation
  obtain ⟨a1, a2, a3, a4, a5, a6, a7, a8, a9, a10, a11⟩ := deepCopyDict_spec h1 obj.dict (by rw [h1d, h1nv]; exact hr)
  let h2 := (h1.deepCopyDict obj.dict).1
  have a10' : h1.nextVal ≤ h2.nextVal := a10
  -- step 3: `__setstate__`
  obtain ⟨b1, b2, b3, b4, b5, b6, b7, b8, b9, b10, b11⟩ := deepCopyDict_spec h2 h1.nextDict a5
  have hobj : (pickleRoundTrip h obj).2 = ⟨obj.cls, h.nextBuf, h.nextDict + 1⟩ := by
    show PyObj.mk obj.cls (h.copyBuf obj.buf).2 (h2.deepCopyDict (h1.deepCopyDict obj.dict).2).2 = _
    rw [a1, b1, a9, h1nd]
    rfl
  have hheap : (pickleRoundTrip h obj).1 = (h2.deepCopyDict h1.nextDict).1 := by
    show (h2.deepCopyDict (h1.deepCopyDict obj.dict).2).1 = _
    rw [a1]
  rw [hheap]
  have hnd2 : h2.nextDict = h.nextDict + 1 := by rw [a9, h1nd]
  refine ⟨hobj, ?_, ?_, ?_, ?_, ?_, ?_, ?_⟩
  · rw [b7, a7, h1b]
  · intro i hi; rw [b7, a7, h1b' i hi]
  · intro i hi
    rw [b2 i (by omega), a2 i (by omega), h1d]
  · rw [← hnd2, b3, a3, h1d]
  · intro k v hk
    obtain ⟨v1, l1, r1⟩ := a4 k v (by unfold Heap.lookup at hk ⊢; rw [h1d]; exact hk)
    obtain ⟨v2, l2, r2⟩ := b4 k v1 l1
    refine ⟨v2, by rw [← hnd2]; exact l2, ?_⟩
    have r1' : DeepRel h v h2 v1 := by
      cases v with
      | ref id => exact r1
      | int i => exact r1
      | fn n => exact r1
      | none => exact r1
    exact r1'.comp r2 (by omega)
  · intro k id hm
    rw [← hnd2] at hm
    have := b6 k id hm
    omega
  · intro i hi
    rw [b11 i (by omega), a11 i (by omega), h1v]

/-- everything `Modes.__deepcopy__` guarantees (same shape as `pickle_spec`) -/
theorem deepcopy_spec (h : Heap) (obj : PyObj) (hl : h.Live obj) :
    (deepCopyHook h obj).2 = ⟨.modes, h.nextBuf, h.nextDict + 1⟩
    ∧ (deepCopyHook h obj).1.bufs h.nextBuf = h.bufs obj.buf
    ∧ (∀ i, i ≠ h.nextBuf → (deepCopyHook h obj).1.bufs i = h.bufs i)
    ∧ (∀ i, i < h.nextDict → (deepCopyHook h obj).1.dicts i = h.dicts i)
    ∧ ((deepCopyHook h obj).1.dicts (h.nextDict + 1)).map (·.1) = (h.dicts obj.dict).map (·.1)
    ∧ (∀ k v, h.lookup obj.dict k = some v → ∃ v', (deepCopyHook h obj).1.lookup (h.nextDict + 1) k = some v'
          ∧ DeepRel h v (deepCopyHook h obj).1 v')
    ∧ (∀ k id, (k, Val.ref id) ∈ (deepCopyHook h obj).1.dicts (h.nextDict + 1) → h.nextVal ≤ id)
    ∧ (∀ i, i < h.nextVal → (deepCopyHook h obj).1.vals i = h.vals i) := by
  obtain ⟨hb, hd, hr⟩ := hl
  let h1 := (h.copyBuf obj.buf).1
  have h1b : h1.bufs h.nextBuf = h.bufs obj.buf := by simp [h1, Heap.copyBuf]
  have h1b' : ∀ i, i ≠ h.nextBuf → h1.bufs i = h.bufs i := by intro i hi; simp [h1, Heap.copyBuf, hi]
  -- `super().__deepcopy__`: new data, `__array_finalize__`
  let h2 := (finalize h1 h.nextBuf obj).1
  have hne : obj.dict ≠ h.nextDict := by omega
  have h2d : ∀ i, i ≠ h.nextDict → h2.dicts i = h.dicts i := by
    intro i hi
    show (finalize h1 h.nextBuf obj).1.dicts i = _
    rw [finalize_dicts, if_neg (show ¬ i = h1.nextDict from hi)]
    rfl
  have h2v : h2.vals = h.vals := rfl
  have h2b : h2.bufs = h1.bufs := rfl
  have h2nd : h2.nextDict = h.nextDict + 1 := rfl
  have h2nv : h2.nextVal = h.nextVal := rfl
  -- `copy.deepcopy(self._metadata, memo)`
  obtain ⟨a1, a2, a3, a4, _, a6, a7, _, _, _, a11⟩ := deepCopyDict_spec h2 obj.dict
    (by rw [h2d _ hne, h2nv]; exact hr)
  have hobj : (deepCopyHook h obj).2 = ⟨.modes, h.nextBuf, h.nextDict + 1⟩ := by
    show PyObj.mk Cls.modes (h.copyBuf obj.buf).2 (h2.deepCopyDict obj.dict).2 = _
    rw [a1, h2nd]
    rfl
  have hheap : (deepCopyHook h obj).1 = (h2.deepCopyDict obj.dict).1 := rfl
  rw [hheap]
  refine ⟨hobj, ?_, ?_, ?_, ?_, ?_, ?_, ?_⟩
  · rw [a7, h2b, h1b]
  · intro i hi; rw [a7, h2b, h1b' i hi]
  · intro i hi
    rw [a2 i (by omega), h2d i (by omega)]
  · rw [← h2nd, a3, h2d _ hne]
  · intro k v hk
    obtain ⟨v1, l1, r1⟩ := a4 k v (by unfold Heap.lookup at hk ⊢; rw [h2d _ hne]; exact hk)
    refine ⟨v1, by rw [← h2nd]; exact l1, ?_⟩
    cases v with
    | ref id => exact r1
    | int i => exact r1
    | fn n => exact r1
    | none => exact r1
  · intro k id hm
    rw [← h2nd] at hm
    have := a6 k id hm
    omega
  · intro i hi
    rw [a11 i (by omega), h2v]

/-- the two deep routes (`copy.deepcopy`, pickle) on a Modes -/
theorem deep_route_spec (r : Route) (hr : r.deep = true) (h : Heap) (obj : PyObj) (hc : obj.cls = .modes)
    (hl : h.Live obj) :
    (copyRoute r h obj).2 = ⟨.modes, h.nextBuf, h.nextDict + 1⟩
    ∧ (copyRoute r h obj).1.bufs h.nextBuf = h.bufs obj.buf
    ∧ (∀ i, i ≠ h.nextBuf → (copyRoute r h obj).1.bufs i = h.bufs i)
    ∧ (∀ i, i < h.nextDict → (copyRoute r h obj).1.dicts i = h.dicts i)
    ∧ ((copyRoute r h obj).1.dicts (h.nextDict + 1)).map (·.1) = (h.dicts obj.dict).map (·.1)
    ∧ (∀ k v, h.lookup obj.dict k = some v → ∃ v', (copyRoute r h obj).1.lookup (h.nextDict + 1) k = some v'
          ∧ DeepRel h v (copyRoute r h obj).1 v')
    ∧ (∀ k id, (k, Val.ref id) ∈ (copyRoute r h obj).1.dicts (h.nextDict + 1) → h.nextVal ≤ id)
    ∧ (∀ i, i < h.nextVal → (copyRoute r h obj).1.vals i = h.vals i) := by
  cases r with
  | pickle p =>
    have e : copyRoute (.pickle p) h obj = pickleRoundTrip h obj := rfl
    rw [e]
    have := pickle_spec h obj hl
    rw [hc] at this
    exact this
  | deepCopy => exact deepcopy_spec h obj hl
  | copyMethod => simp [Route.deep] at hr
  | copyCopy => simp [Route.deep] at hr
  | npArray => simp [Route.deep] at hr

theorem finalize_route_eq (r : Route) (hr : r.deep = false) (h : Heap) (obj : PyObj) :
    copyRoute r h obj = finalize (h.copyBuf obj.buf).1 h.nextBuf obj := by
  cases r with
  | pickle p => simp [Route.deep] at hr
  | deepCopy => simp [Route.deep] at hr
  | copyMethod => rfl
  | copyCopy => rfl
  | npArray => rfl

theorem finalize_route_spec (r : Route) (hr : r.deep = false) (h : Heap) (obj : PyObj) :
    (copyRoute r h obj).2 = ⟨.modes, h.nextBuf, h.nextDict⟩
    ∧ (copyRoute r h obj).1.dicts h.nextDict = ensureKeys (h.dicts obj.dict)
    ∧ (∀ i, i ≠ h.nextDict → (copyRoute r h obj).1.dicts i = h.dicts i)
    ∧ (copyRoute r h obj).1.vals = h.vals
    ∧ (copyRoute r h obj).1.bufs h.nextBuf = h.bufs obj.buf
    ∧ (∀ i, i ≠ h.nextBuf → (copyRoute r h obj).1.bufs i = h.bufs i) := by
  rw [finalize_route_eq r hr]
  refine ⟨rfl, ?_, ?_, rfl, ?_, ?_⟩
  · rw [finalize_dicts]; simp [Heap.copyBuf]
  · intro i hi; rw [finalize_dicts]; simp [Heap.copyBuf, hi]
  · simp [finalize, Heap.shallowCopyDict, Heap.copyBuf]
  · intro i hi; simp [finalize, Heap.shallowCopyDict, Heap.copyBuf, hi]

theorem sameValue_refl_of_vals (h h' : Heap) (v : Val) (hv : h'.vals = h.vals) : sameValue h v h' v := by
  cases v <;> simp [sameValue, hv]

/-! ### entries with `out=` -/

theorem addEntries_out {β : Type} (comb : β → β → β) (zero : β) (k1 k2 : Nat) (mem : Nat → Row β)
    (b1 b2 fresh bo : Nat) :
    (addEntries comb zero k1 k2 mem b1 b2 fresh (some bo)).1 bo
      = (addEntries comb zero k1 k2 mem b1 b2 fresh none).1 fresh
    ∧ (addEntries comb zero k1 k2 mem b1 b2 fresh (some bo)).2 = bo
    ∧ ∀ i, i ≠ bo → (addEntries comb zero k1 k2 mem b1 b2 fresh (some bo)).1 i = mem i := by
  refine ⟨?_, rfl, ?_⟩
  · simp [addEntries]
  · intro i hi
    simp [addEntries, hi]

theorem mulEntries_out {β : Type} (add : β → β → β) (val : (Nat → β) → (Nat → β) → Term → β) (zero : β)
    (L1 L2 L : Int) (mem : Nat → Row β) (b1 b2 fresh bo : Nat) :
    (mulEntries add val zero L1 L2 L mem b1 b2 fresh (some bo)).1 bo
      = (mulEntries add val zero L1 L2 L mem b1 b2 fresh none).1 fresh
    ∧ (mulEntries add val zero L1 L2 L mem b1 b2 fresh (some bo)).2 = bo
    ∧ ∀ i, i ≠ bo → (mulEntries add val zero L1 L2 L mem b1 b2 fresh (some bo)).1 i = mem i := by
  refine ⟨?_, rfl, ?_⟩
  · simp [mulEntries]
  · intro i hi
    simp [mulEntries, hi]

end Lemmas.Modes
