import SphericalVerif.Gen.Indexing
/-! Flat index expressions of the recursion kernels `_step_2 … _step_5` of spherical/recursions/wignerH.py.

    The numba kernels address the FLAT arrays `Hwedge`, `Hextra`, `Hv` and the coefficient tables
    `a b d g h` with integer expressions built from a few `WignerHindex` / `nm_index` / `nabsm_index` base
    values and the loop variables.  This file transcribes every such expression, one definition per array
    access, as an `Int`-valued function of the loop variables exactly as the Python text computes it (same
    operands, same order).  `n`, `mp`, `i` are the Python loop variables, `P` is `mp_max`.

    `Props/FlatSteps.lean` proves that on the loop ranges each expression is the flat position of the
    coordinate the coordinate-level model (`Model/HKernels.lean`) reads or writes at that point.
    Hand-written; core Lean only. -/
namespace Model.FlatSteps
open Gen

/-! ## `_step_2(g, h, n_max, mp_max, Hwedge, Hextra, Hv, expiβ)` -/

/-! ### preamble `n = 1` -/
/-- `n0n_index = WignerHindex(1, 0, 1, mp_max)`; `Hwedge[n0n_index] = sqrt3` -/
def s2_pre_H1 (P : Int) : Int := WignerHindex 1 0 1 (some P)
/-- `Hwedge[n0n_index-1] = …` -/
def s2_pre_H0 (P : Int) : Int := WignerHindex 1 0 1 (some P) - 1
/-- `nn_index = nm_index(1, 1)`; `g[nn_index-1]` -/
def s2_pre_g : Int := nm_index 1 1 - 1

/-! ### body, `n in range(2, n_max+2)`; wedge case `n <= n_max` (`n0n_index = WignerHindex(n, 0, n, mp_max)`,
    `H = Hwedge`) -/
/-- `H[n0n_index-i]`  (also `H[n0n_index]` at `i = 0`, `H[n0n_index-1]` at `i = 1`, `H[n0n_index-n]` at `i = n`) -/
def s2_H (n i P : Int) : Int := WignerHindex n 0 n (some P) - i
/-- `H[n0n_index-i+1]`  (also `H[n0n_index-n+1]` at `i = n`) -/
def s2_H1 (n i P : Int) : Int := WignerHindex n 0 n (some P) - i + 1
/-- `H[n0n_index-i+2]`  (also `H[n0n_index-n+2]` at `i = n`) -/
def s2_H2 (n i P : Int) : Int := WignerHindex n 0 n (some P) - i + 2
/-- `H[n0n_index-n+i] *= prefactor` -/
def s2_Hnorm (n i P : Int) : Int := WignerHindex n 0 n (some P) - n + i

/-! ### body, extra case `n = n_max+1` (`n0n_index = n`, `H = Hextra`) -/
def s2_X (n i : Int) : Int := n - i
def s2_X1 (n i : Int) : Int := n - i + 1
def s2_X2 (n i : Int) : Int := n - i + 2
def s2_Xnorm (n i : Int) : Int := n - n + i

/-- `nm10nm1_index = WignerHindex(n-1, 0, n-1, mp_max)`; `Hwedge[nm10nm1_index]` -/
def s2_prev (n P : Int) : Int := WignerHindex (n - 1) 0 (n - 1) (some P)
/-- `nn_index = nm_index(n, n)`; `g[nn_index-i]`, `h[nn_index-i]`  (`g[nn_index-1]` at `i = 1`, `g[nn_index-n]` at `i = n`) -/
def s2_g (n i : Int) : Int := nm_index n n - i
/-- `Hv[nm_index(n, 1)] = …` -/
def s2_hv1 (n : Int) : Int := nm_index n 1
/-- `Hv[nm_index(n, 0)] = …` -/
def s2_hv0 (n : Int) : Int := nm_index n 0
/-- `… = Hwedge[WignerHindex(n, 0, 1, mp_max)]` -/
def s2_hvsrc (n P : Int) : Int := WignerHindex n 0 1 (some P)

/-! ### trailing normalisation -/
/-- `Hwedge[WignerHindex(n, 0, n, mp_max)] *= …`, `n in range(1, n_max+1)` -/
def s2_diag (n P : Int) : Int := WignerHindex n 0 n (some P)
/-- `Hextra[n] *= …`, `n in [n_max+1]` -/
def s2_xdiag (n : Int) : Int := n

/-! ## `_step_3(a, b, n_max, mp_max, Hwedge, Hextra, expiβ)`:  `n in range(1, n_max+1)`, `i in range(n)` -/

/-- `i1 = WignerHindex(n, 1, 1, mp_max)` -/
def s3_i1 (n P : Int) : Int := WignerHindex n 1 1 (some P)
/-- `i2 = WignerHindex(n+1, 0, 0, mp_max)` (case `n+1 <= n_max`, `H2 = Hwedge`) -/
def s3_i2 (n P : Int) : Int := WignerHindex (n + 1) 0 0 (some P)
/-- `i2 = 0` (case `n+1 > n_max`, `H2 = Hextra`) -/
def s3_i2x : Int := 0
/-- `i3 = nm_index(n+1, 0)` -/
def s3_i3 (n : Int) : Int := nm_index (n + 1) 0
/-- `i4 = nabsm_index(n, 1)` -/
def s3_i4 (n : Int) : Int := nabsm_index n 1

/-- `Hwedge[i+i1] = …` -/
def s3_write (n i P : Int) : Int := i + s3_i1 n P
/-- `H2[i+i2+2]` -/
def s3_src2 (n i P : Int) : Int := i + s3_i2 n P + 2
/-- `H2[i+i2]` -/
def s3_src0 (n i P : Int) : Int := i + s3_i2 n P
/-- `H2[i+i2+1]` -/
def s3_src1 (n i P : Int) : Int := i + s3_i2 n P + 1
/-- `H2[i+i2+2]`, `H2 = Hextra` -/
def s3_xsrc2 (i : Int) : Int := i + s3_i2x + 2
/-- `H2[i+i2]`, `H2 = Hextra` -/
def s3_xsrc0 (i : Int) : Int := i + s3_i2x
/-- `H2[i+i2+1]`, `H2 = Hextra` -/
def s3_xsrc1 (i : Int) : Int := i + s3_i2x + 1
/-- `inverse_b5 = 1.0 / b[i3]` -/
def s3_b5 (n : Int) : Int := s3_i3 n
/-- `b6 = b[-i+i3-2]` -/
def s3_b6 (n i : Int) : Int := -i + s3_i3 n - 2
/-- `b7 = b[i+i3]` -/
def s3_b7 (n i : Int) : Int := i + s3_i3 n
/-- `a8 = a[i+i4]` -/
def s3_a8 (n i : Int) : Int := i + s3_i4 n

/-! ## `_step_4(d, n_max, mp_max, Hwedge, Hv)`:  `n in range(2, n_max+1)`, `mp in range(1, min(n, mp_max))`,
    `i in [0]`, `range(1, n-mp)`, `[n-mp]` -/

/-- `i1 = WignerHindex(n, mp+1, mp+1, mp_max) - 1` -/
def s4_i1 (n mp P : Int) : Int := WignerHindex n (mp + 1) (mp + 1) (some P) - 1
/-- `i2 = WignerHindex(n, mp-1, mp, mp_max)` -/
def s4_i2 (n mp P : Int) : Int := WignerHindex n (mp - 1) mp (some P)
/-- `i3 = WignerHindex(n, mp, mp, mp_max) - 1` -/
def s4_i3 (n mp P : Int) : Int := WignerHindex n mp mp (some P) - 1
/-- `i4 = WignerHindex(n, mp, mp+1, mp_max)` -/
def s4_i4 (n mp P : Int) : Int := WignerHindex n mp (mp + 1) (some P)
/-- `i5 = nm_index(n, mp)` -/
def s4_i5 (n mp : Int) : Int := nm_index n mp
/-- `i6 = nm_index(n, mp-1)` -/
def s4_i6 (n mp : Int) : Int := nm_index n (mp - 1)

/-- `Hwedge[i+i1] = …`  (`i ≥ 1`) -/
def s4_write (n mp i P : Int) : Int := i + s4_i1 n mp P
/-- `Hwedge[i+i2]` -/
def s4_read2 (n mp i P : Int) : Int := i + s4_i2 n mp P
/-- `Hwedge[i+i3]`  (`i ≥ 1`) -/
def s4_read3 (n mp i P : Int) : Int := i + s4_i3 n mp P
/-- `Hwedge[i+i4]`  (`i < n-mp`) -/
def s4_read4 (n mp i P : Int) : Int := i + s4_i4 n mp P
/-- `inverse_d5 = 1.0 / d[i5]` -/
def s4_d5 (n mp : Int) : Int := s4_i5 n mp
/-- `d6 = d[i6]` -/
def s4_d6 (n mp : Int) : Int := s4_i6 n mp
/-- `d7 = d[i+i6]` -/
def s4_d7 (n mp i : Int) : Int := i + s4_i6 n mp
/-- `d8 = d[i+i5]` -/
def s4_d8 (n mp i : Int) : Int := i + s4_i5 n mp
/-- `Hv[i+nm_index(n, mp+1)] = …`  (`i = 0`) -/
def s4_hv_write (n mp i : Int) : Int := i + nm_index n (mp + 1)
/-- `Hv[i+nm_index(n, mp)]`  (`i = 0`) -/
def s4_hv_read (n mp i : Int) : Int := i + nm_index n mp

/-! ## `_step_5(d, n_max, mp_max, Hwedge, Hv)`:  `n in range(0, n_max+1)`, `mp in range(0, -min(n, mp_max), -1)`,
    `i in [0]`, `range(1, n+mp)`, `n+mp` -/

/-- `i1 = WignerHindex(n, mp-1, -mp+1, mp_max) - 1` -/
def s5_i1 (n mp P : Int) : Int := WignerHindex n (mp - 1) (-mp + 1) (some P) - 1
/-- `i2 = WignerHindex(n, mp+1, -mp+1, mp_max) - 1` -/
def s5_i2 (n mp P : Int) : Int := WignerHindex n (mp + 1) (-mp + 1) (some P) - 1
/-- `i3 = WignerHindex(n, mp, -mp, mp_max) - 1` -/
def s5_i3 (n mp P : Int) : Int := WignerHindex n mp (-mp) (some P) - 1
/-- `i4 = WignerHindex(n, mp, -mp+1, mp_max)` -/
def s5_i4 (n mp P : Int) : Int := WignerHindex n mp (-mp + 1) (some P)
/-- `i5 = nm_index(n, mp-1)` -/
def s5_i5 (n mp : Int) : Int := nm_index n (mp - 1)
/-- `i6 = nm_index(n, mp)` -/
def s5_i6 (n mp : Int) : Int := nm_index n mp
/-- `i7 = nm_index(n, -mp-1)` -/
def s5_i7 (n mp : Int) : Int := nm_index n (-mp - 1)
/-- `i8 = nm_index(n, -mp)` -/
def s5_i8 (n mp : Int) : Int := nm_index n (-mp)

/-- `Hwedge[i+i1] = …`  (`i ≥ 1`) -/
def s5_write (n mp i P : Int) : Int := i + s5_i1 n mp P
/-- `Hwedge[i+i2]`  (`i ≥ 1`, or `i = 0` and `mp != 0`) -/
def s5_read2 (n mp i P : Int) : Int := i + s5_i2 n mp P
/-- `Hwedge[i+i3]`  (`i ≥ 1`) -/
def s5_read3 (n mp i P : Int) : Int := i + s5_i3 n mp P
/-- `Hwedge[i+i4]`  (`i < n+mp`) -/
def s5_read4 (n mp i P : Int) : Int := i + s5_i4 n mp P
/-- `inverse_d5 = 1.0 / d[i5]` -/
def s5_d5 (n mp : Int) : Int := s5_i5 n mp
/-- `d6 = d[i6]` -/
def s5_d6 (n mp : Int) : Int := s5_i6 n mp
/-- `d7 = d[i+i7]` -/
def s5_d7 (n mp i : Int) : Int := i + s5_i7 n mp
/-- `d8 = d[i+i8]` -/
def s5_d8 (n mp i : Int) : Int := i + s5_i8 n mp
/-- `Hv[i+nm_index(n, mp-1)] = …`  (`i = 0`) -/
def s5_hv_write (n mp i : Int) : Int := i + nm_index n (mp - 1)
/-- `Hv[i+nm_index(n, mp+1)]`  (`i = 0`, only in the `mp == 0` branch) -/
def s5_hv_read1 (n mp i : Int) : Int := i + nm_index n (mp + 1)
/-- `Hv[i+nm_index(n, mp)]`  (`i = 0`) -/
def s5_hv_read0 (n mp i : Int) : Int := i + nm_index n mp

end Model.FlatSteps
