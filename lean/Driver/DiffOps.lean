import SphericalVerif.Model.Operators
import SphericalVerif.Gen.DiffKern
import SphericalVerif.Gen.AlgKern
/-! Line-protocol operations for the differential-operator / conversion model (`none` = unknown op).
    Tokens (after the leading `diff`); doubles are decimal UInt64 bit patterns, complex = `re im`:
      `coef <name> <s> <ell> <m>`                      → one double (or `skip` for `inv` outside its domain)
           name ∈ Lplus Lminus Lz L2 Rz Rplus Rminus eth ethbar  (s = spin of the INPUT of the operator)
                  ethGHP ethbarGHP ethNP ethbarNP inv             (array-level factor for (s, ell))
      `ellmax <len> <ell_min>`                          → inferred ell_max (decimal integer)
      `modesop <name> <s> <ell_max> <weights…>`         → `s=<new s> L=<new ell_max> <weights…>`  (storage order from ell = 0)
      `arrayop <name> <s> <ell_min> <n> <entries…>`     → `<entries…>` (n complex numbers)
      `conv <name> <sqrt4pi> <sqrt2pi3> <sqrt4pi3> <values…>` → values
           name ∈ cas (complex c) casR (float c) cfrom (complex w) cfromR (float w)
                  vas (3 complex) vasR (3 floats) vfrom (3 complex) -/
namespace DiffOps
open Model Model.Ops

def fb (x : Float) : String := toString x.toBits.toNat
def bf (s : String) : Float := Float.ofBits (UInt64.ofNat s.toNat!)
def cxs (z : Cx Float) : String := fb z.re ++ " " ++ fb z.im

def parseCx (toks : List String) : Array (Cx Float) := Id.run do
  let a := toks.toArray
  let mut out : Array (Cx Float) := #[]
  for i in [0:a.size/2] do
    out := out.push ⟨bf a[2*i]!, bf a[2*i+1]!⟩
  return out

def showCx (a : Array (Cx Float)) : String := String.intercalate " " (a.map cxs).toList

def coef (name : String) (s ell m : Int) : Option String :=
  match name with
  | "Lplus" => some (fb (cLplus (α := Float) ell m))
  | "Lminus" => some (fb (cLminus (α := Float) ell m))
  | "Lz" => some (fb (cLz (α := Float) m))
  | "L2" => some (fb (cL2 (α := Float) ell))
  | "Rz" => some (fb (cRz (α := Float) s))
  | "Rplus" => some (fb (cRplus (α := Float) ell (s - 1)))
  | "Rminus" => some (fb (cRminus (α := Float) ell (s + 1)))
  | "eth" => some (fb (cRminus (α := Float) ell (s + 1)))
  | "ethbar" => some (fb (Scalar.neg (cRplus (α := Float) ell (s - 1))))
  | "ethGHP" => some (fb (fEthGHP (α := Float) s ell))
  | "ethbarGHP" => some (fb (fEthbarGHP (α := Float) s ell))
  | "ethNP" => some (fb (fEthNP (α := Float) s ell))
  | "ethbarNP" => some (fb (fEthbarNP (α := Float) s ell))
  | "inv" => some (if Scalar.lt (zero : Float) (termInv (α := Float) s ell) then fb (fInv (α := Float) s ell) else "skip")
  | _ => none

def modesOp (name : String) (f : Modes Float) : Option (Modes Float) :=
  match name with
  | "Lsquared" => some (Lsquared f)
  | "Lz" => some (Lz f)
  | "Lplus" => some (Lplus f)
  | "Lminus" => some (Lminus f)
  | "Rsquared" => some (Rsquared f)
  | "Rz" => some (Rz f)
  | "Rplus" => some (Rplus f)
  | "Rminus" => some (Rminus f)
  | "eth" => some (eth f)
  | "ethbar" => some (ethbar f)
  | _ => none

/-- the GENERATED loop of a differential operator (Gen/DiffKern.lean, from the text of spherical/modes/derivatives.py) on the
    executable flat memory; array 7 is the copy the in-place operators work on / the zero-filled output of the others.
    Returns the new spin weight and the `(ell_max+1)²` cells of array 7. -/
def genModesOp (name : String) (s : Int) (L : Nat) (a : Array (Cx Float)) : Option (Int × Array (Cx Float)) :=
  let nanF := Float.ofBits 0x7FF8000000000BAD
  let sin : Int → Cx Float := fun i => if i < 0 then ⟨nanF, nanF⟩ else a.getD i.toNat ⟨nanF, nanF⟩
  let zeros : HFMem Float := { map := ∅, dflt := 0.0 }
  let copy : HFMem Float := Id.run do
    let mut st := zeros
    for i in [0:a.size] do
      st := fwrC (α := Float) st 7 (i : Int) (a.getD i ⟨nanF, nanF⟩)
    return st
  let LI : Int := L
  let out (st : HFMem Float) : Array (Cx Float) := (Array.range ((L+1)*(L+1))).map (fun (i : Nat) => frdC (α := Float) st 7 (i : Int))
  match name with
  | "Lsquared" => some (s, out (Gen.Modes_Lsquared_loop (α := Float) 7 LI 0 s copy))
  | "Rsquared" => some (s, out (Gen.Modes_Lsquared_loop (α := Float) 7 LI 0 s copy))
  | "Lz" => some (s, out (Gen.Modes_Lz_loop (α := Float) 7 LI 0 s copy))
  | "Lplus" => some (s, out (Gen.Modes_Lplus_loop (α := Float) sin 7 LI 0 s LI 0 s zeros))
  | "Lminus" => some (s, out (Gen.Modes_Lminus_loop (α := Float) sin 7 LI 0 s zeros))
  | "Rplus" => some (s - 1, out (Gen.Modes_Rplus_loop (α := Float) sin 7 LI 0 (s - 1) LI 0 s zeros))
  | "Rminus" => some (s + 1, out (Gen.Modes_Rminus_loop (α := Float) sin 7 LI 0 (s + 1) LI 0 s zeros))
  | "eth" => some (s + 1, out (Gen.Modes_Rminus_loop (α := Float) sin 7 LI 0 (s + 1) LI 0 s zeros))
  | _ => none

/-- the GENERATED loop of an array-level operator (Gen/DiffKern.lean, from spherical/utilities/operators.py) on the executable flat
    memory: array 7 is the `np.copy(modes)`; `ell_max` is the prelude's inferred value -/
def genArrayOp (name : String) (a : Array (Cx Float)) (s ellMin : Int) : Option (Array (Cx Float)) :=
  let nanF := Float.ofBits 0x7FF8000000000BAD
  let copy : HFMem Float := Id.run do
    let mut st : HFMem Float := { map := ∅, dflt := nanF }
    for i in [0:a.size] do
      st := fwrC (α := Float) st 7 (i : Int) (a.getD i ⟨nanF, nanF⟩)
    return st
  let ellMax := inferEllMax a.size ellMin
  let out (st : HFMem Float) : Array (Cx Float) := (Array.range a.size).map (fun (i : Nat) => frdC (α := Float) st 7 (i : Int))
  match name with
  | "eth_GHP" => some (out (Gen.arr_eth_GHP_loop (α := Float) 7 s ellMin ellMax copy))
  | "ethbar_GHP" => some (out (Gen.arr_ethbar_GHP_loop (α := Float) 7 s ellMin ellMax copy))
  | "eth_NP" => some (out (Gen.arr_eth_NP_loop (α := Float) 7 s ellMin ellMax copy))
  | "ethbar_NP" => some (out (Gen.arr_ethbar_NP_loop (α := Float) 7 s ellMin ellMax copy))
  | "ethbar_inverse_NP" => some (out (Gen.arr_ethbar_inverse_NP_loop (α := Float) 7 s ellMin ellMax copy))
  | _ => none

/-- the GENERATED loops of `Modes.conjugate` / `_real_func` / `_imag_func` (Gen/AlgKern.lean, from spherical/modes/algebra.py);
    array 7 is the zero-filled output `c`, or, in place, the array `s` itself -/
def genAlgOp (name : String) (s : Int) (L : Nat) (a : Array (Cx Float)) : Option (Array (Cx Float)) :=
  let nanF := Float.ofBits 0x7FF8000000000BAD
  let sin : Int → Cx Float := fun i => if i < 0 then ⟨nanF, nanF⟩ else a.getD i.toNat ⟨nanF, nanF⟩
  let zeros : HFMem Float := { map := ∅, dflt := 0.0 }
  let copy : HFMem Float := Id.run do
    let mut st := zeros
    for i in [0:a.size] do
      st := fwrC (α := Float) st 7 (i : Int) (a.getD i ⟨nanF, nanF⟩)
    return st
  let LI : Int := L
  let out (st : HFMem Float) : Array (Cx Float) := (Array.range ((L+1)*(L+1))).map (fun (i : Nat) => frdC (α := Float) st 7 (i : Int))
  match name with
  | "conjugate" => some (out (Gen.Modes_conjugate_loop (α := Float) sin 7 LI 0 s zeros))
  | "conjugate_inplace" => some (out (Gen.Modes_conjugate_inplace_loop (α := Float) 7 LI 0 s copy))
  | "real" => some (out (Gen.Modes_real_loop (α := Float) sin 7 LI 0 s zeros))
  | "real_inplace" => some (out (Gen.Modes_real_inplace_loop (α := Float) 7 LI 0 s copy))
  | "imag" => some (out (Gen.Modes_imag_loop (α := Float) sin 7 LI 0 s zeros))
  | "imag_inplace" => some (out (Gen.Modes_imag_inplace_loop (α := Float) 7 LI 0 s copy))
  | _ => none

def arrayOp (name : String) (a : Array (Cx Float)) (s ellMin : Int) : Option (Array (Cx Float)) :=
  match name with
  | "eth_GHP" => some (ethGHP a s ellMin)
  | "ethbar_GHP" => some (ethbarGHP a s ellMin)
  | "eth_NP" => some (ethNP a s ellMin)
  | "ethbar_NP" => some (ethbarNP a s ellMin)
  | "ethbar_inverse_NP" => some (ethbarInverseNP a s ellMin)
  | _ => none

def showV (v : Vec3 (Cx Float)) : String := cxs v.x ++ " " ++ cxs v.y ++ " " ++ cxs v.z

def conv (name : String) (K : ConvConsts Float) (v : List String) : Option String :=
  match name, v with
  | "cas", [re, im] => some (cxs (constantAsEll0 K ⟨bf re, bf im⟩))
  | "casR", [x] => some (fb (constantAsEll0R K (bf x)))
  | "cfrom", [re, im] => some (cxs (constantFromEll0 K ⟨bf re, bf im⟩))
  | "cfromR", [x] => some (fb (constantFromEll0R K (bf x)))
  | "vas", [a, b, c, d, e, f] => some (showV (vectorAsEll1 K ⟨⟨bf a, bf b⟩, ⟨bf c, bf d⟩, ⟨bf e, bf f⟩⟩))
  | "vasR", [a, b, c] => some (showV (vectorAsEll1R K ⟨bf a, bf b, bf c⟩))
  | "vfrom", [a, b, c, d, e, f] => some (showV (vectorFromEll1 K ⟨⟨bf a, bf b⟩, ⟨bf c, bf d⟩, ⟨bf e, bf f⟩⟩))
  | _, _ => none

def step (toks : List String) : Option String :=
  match toks with
  | ["coef", name, s, ell, m] => do
    let s ← s.toInt?; let ell ← ell.toInt?; let m ← m.toInt?
    coef name s ell m
  | ["ellmax", len, ellMin] => do
    let len ← len.toInt?; let ellMin ← ellMin.toInt?
    pure (toString (inferEllMax len ellMin))
  | "modesop" :: name :: s :: ellMax :: w => do
    let s ← s.toInt?; let ellMax ← ellMax.toNat?
    let g ← modesOp name (Modes.ofArray s ellMax (parseCx w))
    pure ("s=" ++ toString g.s ++ " L=" ++ toString g.ellMax ++ " " ++ showCx g.toArray)
  | "genmodesop" :: name :: s :: ellMax :: w => do
    let s ← s.toInt?; let ellMax ← ellMax.toNat?
    let (gs, cells) ← genModesOp name s ellMax (parseCx w)
    pure ("s=" ++ toString gs ++ " L=" ++ toString ellMax ++ " " ++ showCx cells)
  | "arrayop" :: name :: s :: ellMin :: n :: w => do
    let s ← s.toInt?; let ellMin ← ellMin.toInt?; let n ← n.toNat?
    let a := parseCx w
    if a.size ≠ n then none else
    let r ← arrayOp name a s ellMin
    pure (showCx r)
  | "genalgop" :: name :: s :: ellMax :: w => do
    let s ← s.toInt?; let ellMax ← ellMax.toNat?
    let r ← genAlgOp name s ellMax (parseCx w)
    pure (showCx r)
  | "genaddrows" :: name :: L1 :: L2 :: w => do
    -- the GENERATED row placement of `np.add` / `np.subtract` on two Modes (Gen/AlgKern.lean): w = (L1+1)² weights of m1, then (L2+1)² of m2
    let L1 ← L1.toNat?; let L2 ← L2.toNat?
    let a := parseCx w
    let n1 := (L1+1)*(L1+1)
    let n2 := (L2+1)*(L2+1)
    let nanF := Float.ofBits 0x7FF8000000000BAD
    let a1 : Int → Cx Float := fun i => if i < 0 then ⟨nanF, nanF⟩ else a.getD i.toNat ⟨nanF, nanF⟩
    let a2 : Int → Cx Float := fun i => if i < 0 then ⟨nanF, nanF⟩ else a.getD (n1 + i.toNat) ⟨nanF, nanF⟩
    let zeros : HFMem Float := { map := ∅, dflt := 0.0 }
    let st ← match name with
      | "add" => some (Gen.Modes_add_rows (α := Float) a1 a2 7 0 L1 0 L2 zeros)
      | "subtract" => some (Gen.Modes_subtract_rows (α := Float) a1 a2 7 0 L1 0 L2 zeros)
      | _ => none
    pure (showCx ((Array.range (max n1 n2)).map (fun (i : Nat) => frdC (α := Float) st 7 (i : Int))))
  | "genarrayop" :: name :: s :: ellMin :: n :: w => do
    let s ← s.toInt?; let ellMin ← ellMin.toInt?; let n ← n.toNat?
    let a := parseCx w
    if a.size ≠ n then none else
    let r ← genArrayOp name a s ellMin
    pure (showCx r)
  | "conv" :: name :: k0 :: k1 :: k2 :: v =>
    conv name ⟨bf k0, bf k1, bf k2⟩ v
  | _ => none
end DiffOps
