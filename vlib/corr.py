"""Correspondence between the hand-written Lean models (executed at Float by the compiled driver) and the
shipped numba kernels of /repo: bit-for-bit comparison helpers shared by several property checks."""
import math
import struct

import numpy as np

NAN = "nan"


def bits(x):
    x = float(x)
    if x != x:
        return NAN
    return str(struct.unpack(">Q", struct.pack(">d", x))[0])


def canon(tok):
    """canonicalise a driver token: any NaN -> 'nan'"""
    try:
        v = int(tok)
    except ValueError:
        return tok
    if (v & 0x7FF0000000000000) == 0x7FF0000000000000 and (v & 0x000FFFFFFFFFFFFF):
        return NAN
    return tok


def fbits(x):
    """decimal bit pattern for sending to the driver (NaN keeps its payload)"""
    return str(struct.unpack(">Q", struct.pack(">d", float(x)))[0])


def arr_bits(a):
    a = np.ascontiguousarray(a)
    if np.iscomplexobj(a):
        a = a.view(np.float64)
    return [bits(v) for v in a.ravel()]


def parse_bits(line):
    return [canon(t) for t in line.split()]


def first_diff(a, b):
    n = min(len(a), len(b))
    for i in range(n):
        if a[i] != b[i]:
            return i
    return n if len(a) != len(b) else None


def tofloat(tok):
    if tok == NAN:
        return float("nan")
    return struct.unpack(">d", struct.pack(">Q", int(tok)))[0]


POISONS = [0.0, float("nan"), 1e300, -7.25]


def expibeta_strata(rng, n):
    """(label, complex exp(iβ)) over the strata the properties name"""
    out = [("pole+", complex(1.0, 0.0)), ("pole-", complex(-1.0, 0.0)), ("equator", complex(0.0, 1.0)),
           ("pole+tiny", complex(math.cos(1e-9), math.sin(1e-9))), ("pole-tiny", complex(math.cos(math.pi - 1e-9), math.sin(math.pi - 1e-9))),
           ("near-equator", complex(math.cos(math.pi / 2 - 1e-7), math.sin(math.pi / 2 - 1e-7))),
           ("rational", complex(0.6, 0.8)), ("subnormal-sin", complex(1.0, 5e-324)), ("neg-sin", complex(0.6, -0.8))]
    for _ in range(n):
        b = rng.uniform(0, math.pi)
        out.append(("generic", complex(math.cos(b), math.sin(b))))
    return out


def rotor_strata(rng, n):
    """(label, 4 floats): unit quaternions incl. poles, near-poles down to subnormal, axis-aligned, rational"""
    s2 = math.sqrt(0.5)
    out = [("identity", (1.0, 0.0, 0.0, 0.0)), ("-identity", (-1.0, 0.0, 0.0, 0.0)), ("z-rot", (math.cos(0.3), 0.0, 0.0, math.sin(0.3))),
           ("pi-about-x", (0.0, 1.0, 0.0, 0.0)), ("pi-about-y", (0.0, 0.0, 1.0, 0.0)), ("pi-about-xy", (0.0, s2, s2, 0.0)),
           ("z-pi", (0.0, 0.0, 0.0, 1.0)), ("axis-x-90", (s2, s2, 0.0, 0.0)), ("axis-y-90", (s2, 0.0, s2, 0.0)),
           ("rational", (0.5, 0.5, 0.5, 0.5)), ("rational2", (0.6, 0.0, 0.8, 0.0)), ("rational3", (2 / 7, 3 / 7, 6 / 7, 0.0)),
           ("near-pole-1e-8", (1.0, 1e-8, 0.0, 0.0)), ("near-pole-1e-100", (1.0, 0.0, 1e-100, 0.0)),
           ("near-pole-1e-9", (math.cos(0.3), 0.6e-9, 0.8e-9, math.sin(0.3))), ("near-pole-1e-11", (1.0, 0.0, 1e-11, 0.0)),
           ("near-pole-1e-5", (1.0, 1e-5, -2e-5, 0.0)), ("near-antipole-1e-10", (0.6e-10, 0.6, 0.8, 0.8e-10)),
           ("near-pole-1e-160", (math.cos(0.2), 1e-160, 2e-160, math.sin(0.2))), ("near-pole-subnormal", (1.0, 5e-324, 0.0, 0.0)),
           ("near-antipole-1e-8", (1e-8, 1.0, 0.0, 0.0)), ("near-antipole-1e-100", (0.0, math.cos(1.1), math.sin(1.1), 1e-100)),
           ("near-antipole-subnormal", (0.0, 1.0, 0.0, 5e-324)), ("beta-pi/2", (s2 * math.cos(0.4), s2 * math.sin(0.1), s2 * math.cos(0.1), s2 * math.sin(0.4))),
           ("negzero", (-0.0, 0.0, -0.0, 1.0)), ("negzero2", (1.0, -0.0, -0.0, -0.0))]
    for _ in range(n):
        v = [rng.gauss(0, 1) for _ in range(4)]
        nrm = math.sqrt(sum(x * x for x in v))
        out.append(("generic", tuple(x / nrm for x in v)))
    return out
