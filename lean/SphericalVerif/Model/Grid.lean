/-! Executable model of the *decision logic* of `spherical.Grid`
    (spherical/grid/__init__.py, ufuncs.py, algebra.py, utilities.py): which branch is taken, what
    spin weight / grid shape / metadata dictionary the result carries, and what is raised.  Array
    *values* are outside this model (they are compared with numpy by the C16 gap monitor).

    The model is a branch-by-branch transcription; it is tied to the real class by the
    correspondence harness `vlib/glue_grid.py`, which executes generated operations on real
    `spherical.Grid` objects and on this model (through `Driver/GridOps.lean`) and compares outcomes.

    Scope / modelling decisions
    * Operands are `Grid` objects of ONE class carrying an *integer* spin weight (`G.spin : Int`)
      and complex data; they need NOT satisfy the constructor's size invariant (slicing a Grid
      yields a Grid that bypasses `__new__`), so the invariant appears as a hypothesis of theorems.
    * Everything that is not a Grid is a "scalar" described by what the code asks of it:
      `np.any(x)`, `np.shape(x)`, and whether `int(x)` succeeds with `int(x) == x`.
    * numpy's own behaviour that the code relies on is modelled only as far as outcomes need it:
      shape broadcasting (`broadcast`), the `out=` shape rule, and "returning `NotImplemented`
      from `__array_ufunc__`" is a result of the model (`Res.notImplemented`; numpy turns it into
      `TypeError`, the harness canonicalises that on the Python side).
    * Metadata-dictionary identity is explicit: every dict has an `MId`, either `pre i` (a dict that
      existed before the call; operands that share one dict carry the same `i`) or `fresh k` (the
      `k`-th dict allocated during the call by `copy.copy` / `__new__`). -/
namespace Model.Grid

/-! ### numpy shape broadcasting -/

/-- one axis: equal, or one of them is 1 -/
def bdim (a b : Nat) : Option Nat :=
  if a = b then some a else if a = 1 then some b else if b = 1 then some a else none

/-- broadcasting on shapes written last-axis-first -/
def broadcastRev : List Nat → List Nat → Option (List Nat)
  | [], ys => some ys
  | x :: xs, [] => some (x :: xs)
  | x :: xs, y :: ys =>
    match bdim x y, broadcastRev xs ys with
    | some d, some r => some (d :: r)
    | _, _ => none

/-- `np.broadcast_shapes(a, b)`; `none` = "operands could not be broadcast together" -/
def broadcast (a b : List Nat) : Option (List Nat) :=
  (broadcastRev a.reverse b.reverse).map List.reverse

def broadcastAll : List (List Nat) → Option (List Nat)
  | [] => some []
  | s :: ss => ss.foldl (fun acc t => acc.bind (fun a => broadcast a t)) (some s)

/-- shape of `ufunc(*ins, out=out)`: inputs broadcast together; an `out` array must have exactly
    the shape that inputs-and-out broadcast to (numpy never stretches `out`). -/
def ufuncShape (ins : List (List Nat)) (out : Option (List Nat)) : Option (List Nat) :=
  match broadcastAll ins, out with
  | none, _ => none
  | some b, none => some b
  | some b, some o => if broadcast b o = some o then some o else none

/-- `lead, n_theta, n_phi` from `shape[:-2], shape[-2:]`; `none` iff `ndim < 2` -/
def lastTwo (sh : List Nat) : Option (List Nat × Nat × Nat) :=
  match sh.reverse with
  | p :: t :: rest => some (rest.reverse, t, p)
  | _ => none

/-! ### vocabulary -/

/-- the ufuncs the code names, and everything else -/
inductive UF
  | greater | greater_equal | less | less_equal | not_equal | equal
  | logical_and | logical_or | isfinite | isinf | isnan
  | positive | negative | add | subtract | multiply | divide | true_divide
  | conj | conjugate | absolute | power | sqrt | square | reciprocal
  | other
  deriving DecidableEq, Repr

/-- first list in `__array_ufunc__`: passed through to ndarray, result is not a Grid -/
def UF.isPassthrough : UF → Bool
  | .greater | .greater_equal | .less | .less_equal | .not_equal | .equal
  | .logical_and | .logical_or | .isfinite | .isinf | .isnan => true
  | _ => false

/-- second list in `__array_ufunc__`: the ufuncs "we will support directly" -/
def UF.isAllowed : UF → Bool
  | .positive | .negative | .add | .subtract | .multiply | .divide | .true_divide
  | .conj | .conjugate | .absolute | .power | .sqrt | .square | .reciprocal => true
  | _ => false

/-- the `method` string numpy passes (`'__call__'`, `'at'`, anything else: reduce, outer, …) -/
inductive Meth | call | at | otherMeth
  deriving DecidableEq, Repr

/-- identity of a metadata dictionary -/
inductive MId
  | pre (i : Nat)     -- existed before the call
  | fresh (k : Nat)   -- k-th dictionary allocated during the call
  deriving DecidableEq, Repr

def MId.isFresh : MId → Bool
  | .fresh _ => true
  | .pre _ => false

/-- a metadata dictionary: identity, `get('spin_weight')` (`none` = absent or `None`), other keys -/
structure Meta where
  id : MId
  spin : Option Int
  extra : List String
  deriving DecidableEq, Repr

/-- a Grid operand -/
structure G where
  spin : Int
  nTheta : Nat
  nPhi : Nat
  lead : List Nat := []
  /-- identity of its `_metadata` dict among the dicts alive before the call -/
  metaId : Nat := 0
  /-- keys of `_metadata` other than `spin_weight` -/
  extra : List String := []
  deriving DecidableEq, Repr

def G.shape (g : G) : List Nat := g.lead ++ [g.nTheta, g.nPhi]
def G.meta (g : G) : Meta := ⟨.pre g.metaId, some g.spin, g.extra⟩
/-- the constructor's invariant for spin weight `s` on an `nt × np` grid -/
def enough (s : Int) (nt np : Nat) : Prop := 2 * s.natAbs + 1 ≤ nt ∧ 2 * s.natAbs + 1 ≤ np
instance (s : Int) (nt np : Nat) : Decidable (enough s nt np) := by unfold enough; infer_instance

/-- an input of a ufunc / argument of a method -/
inductive Arg
  | grid (g : G)
  /-- not a Grid: `nonzero = np.any(x)`, `shape = np.shape(x)`,
      `intValue = some k` iff `int(x)` succeeds with `int(x) == x` (then `k = int(x)`) -/
  | scalar (nonzero : Bool) (shape : List Nat) (intValue : Option Int)
  deriving DecidableEq, Repr

def Arg.shape : Arg → List Nat
  | .grid g => g.shape
  | .scalar _ sh _ => sh

def Arg.grid? : Arg → Option G
  | .grid g => some g
  | .scalar .. => none

/-- `out[0]` -/
inductive OutArg
  | grid (g : G)
  | plain (shape : List Nat)
  deriving DecidableEq, Repr

def OutArg.shape : OutArg → List Nat
  | .grid g => g.shape
  | .plain sh => sh

/-- why something raised (the reason identifies the `raise` statement / failing expression) -/
inductive Err
  | tooManyPositional       -- __new__: len(args) > 1
  | ndimLt2                 -- __new__: np.ndim(input_array) < 2
  | noSpin                  -- __new__: spin weight None / missing
  | tooSmall                -- __new__: n_theta or n_phi < 2|s|+1
  | kwargs                  -- __array_ufunc__: any extra keyword
  | spinMismatch            -- add/subtract ufunc, `add` method
  | spinMismatchSubtract    -- `subtract` method (its own raise statement)
  | shapeMismatch           -- n_theta / n_phi differ
  | scalarDims              -- _check_broadcasting: scalar array has too many dimensions
  | numpyBroadcast          -- numpy: operands/out could not be broadcast together
  | indexError              -- args[1] on a 1-tuple (method 'reduce', 'accumulate')
  | realImagSpin            -- .real / .imag of nonzero spin
  | scalarNonzero           -- add/subtract methods: nonzero scalar, nonzero spin
  | cannotBroadcast         -- multiply/divide methods: _check_broadcasting returned False
  deriving DecidableEq, Repr

inductive PyExc | ValueError | NameError | NotImplementedError | IndexError
  deriving DecidableEq, Repr

/-- exception class on the current tree.  `tooSmall` and `spinMismatchSubtract` are `raise
    ValueError(f"…{s}…")` statements whose f-string mentions an undefined name `s`, so evaluating
    the message raises `NameError` first. -/
def Err.pyClass : Err → PyExc
  | .tooSmall | .spinMismatchSubtract => .NameError
  | .kwargs => .NotImplementedError
  | .indexError => .IndexError
  | _ => .ValueError

/-- which Python object a returned Grid is -/
inductive Obj
  | new            -- a newly created object
  | self           -- the receiver itself (`conjugate(inplace=True)`)
  deriving DecidableEq, Repr

/-- a returned Grid -/
structure RGrid where
  spin : Int
  nTheta : Nat
  nPhi : Nat
  lead : List Nat
  extra : List String
  metaId : MId
  obj : Obj := .new
  deriving DecidableEq, Repr

inductive Res
  | grid (r : RGrid)
  /-- an ndarray / numpy scalar that is not a Grid (comparison pass-through) -/
  | plain
  /-- `return` (None) for `method == 'at'` -/
  | none
  | notImplemented
  | raises (e : Err)
  deriving DecidableEq, Repr

def Res.isRaise : Res → Bool
  | .raises _ => true
  | _ => false

/-! ### `Grid.__new__` -/

/-- `Grid.__new__(cls, input_array, *pos, **kwargs)`.
    `inMeta` = `getattr(input_array, '_metadata', None)`; `shape` = `np.shape(input_array)`;
    `pos` = the extra positional arguments (each an int or None); `kwSpin` = `kwargs.get('spin_weight')`
    if that key is passed (`some none` = passed as None); `kwExtra` = other keyword names;
    `newId` = identity of the dict created by `copy.copy(getattr(input_array,'_metadata',{}))`. -/
def new (newId : MId) (inMeta : Option Meta) (shape : List Nat) (pos : List (Option Int))
    (kwSpin : Option (Option Int)) (kwExtra : List String) : Except Err RGrid :=
  if pos.length > 1 then .error .tooManyPositional else
  let kwSpin := match pos with | [a] => some a | _ => kwSpin
  let base : Meta := match inMeta with | some m => { m with id := newId } | none => ⟨newId, none, []⟩
  let spin := match kwSpin with | some v => v | none => base.spin
  let extra := base.extra ++ kwExtra.filter (fun k => !base.extra.contains k)
  match lastTwo shape with
  | none => .error .ndimLt2
  | some (lead, nt, np) =>
    match spin with
    | none => .error .noSpin
    | some s =>
      if nt < 2 * s.natAbs + 1 ∨ np < 2 * s.natAbs + 1 then .error .tooSmall
      else .ok { spin := s, nTheta := nt, nPhi := np, lead := lead, extra := extra, metaId := newId }

/-- `type(self)(array, **md)` where `array` is a plain ndarray of shape `sh` (no `_metadata`):
    how every result of `__array_ufunc__` and of the non-in-place methods is built. -/
def construct (newId : MId) (sh : List Nat) (md : Meta) : Except Err RGrid :=
  new newId none sh [] (some md.spin) md.extra

/-! ### `_check_broadcasting` (non-Grid branch; the Grid branch is unreachable from its callers) -/

inductive Chk | raisesDims | no | yes
  deriving DecidableEq, Repr

/-- `grid._check_broadcasting(array[, reverse])` for a non-Grid `array` of shape `sh`
    (`reverse` only swaps the arguments of `np.broadcast`, which is symmetric) -/
def checkBroadcasting (g : G) (sh : List Nat) : Chk :=
  if sh.length > g.lead.length then .raisesDims
  else match broadcast g.lead sh with
    | none => .no
    | some _ => .yes

/-! ### `__array_ufunc__` -/

structure Call where
  uf : UF
  meth : Meth := .call
  args : List Arg
  /-- `out[0]` when `out=` was given (all ufuncs in the two lists have one output) -/
  out : Option OutArg := none
  /-- were any keyword arguments other than `out` passed -/
  kwargs : Bool := false
  deriving Repr

/-- the object whose `__array_ufunc__` numpy calls: first Grid among the inputs, then the outputs -/
def selfOf (c : Call) : Option G :=
  match c.args.findSome? Arg.grid?, c.out with
  | some g, _ => some g
  | none, some (.grid g) => some g
  | none, _ => none

/-- common tail of every supported branch:
    `out_view = out if out is None else out[0].view(np.ndarray)`
    `result = type(self)(ufunc(<views of shapes ins>, out=out_view), **md)`   (dict `newId`)
    `if out is not None and isinstance(out[0], type(self)): out[0]._metadata = outMd`
    Second component: the new `_metadata` of `out[0]`, if it was rebound. -/
def build (ins : List (List Nat)) (out : Option OutArg) (md : Meta) (newId : MId) (outMd : Meta) :
    Res × Option Meta :=
  match ufuncShape ins (out.map OutArg.shape) with
  | none => (.raises .numpyBroadcast, none)
  | some sh =>
    match construct newId sh md with
    | .error e => (.raises e, none)
    | .ok r => (.grid r, match out with | some (.grid _) => some outMd | _ => none)

/-- `copy.copy(m)` allocated as the `k`-th fresh dict, then `['spin_weight'] = s` -/
def Meta.copyWith (m : Meta) (k : Nat) (s : Int) : Meta := { m with id := .fresh k, spin := some s }

/-- add / subtract (lines 38–71) -/
def addSub (self : G) (args : List Arg) (out : Option OutArg) : Res × Option Meta :=
  match args with
  | .grid g1 :: .grid g2 :: _ =>
    if g1.spin ≠ g2.spin then (.raises .spinMismatch, none)
    else if g1.nTheta ≠ g2.nTheta ∨ g1.nPhi ≠ g2.nPhi then (.raises .shapeMismatch, none)
    else build [g1.shape, g2.shape] out self.meta (.fresh 0) { self.meta with id := .fresh 1 }
  | .grid g :: .scalar nz sh _ :: _ =>
    if g.spin ≠ 0 ∧ nz then (.notImplemented, none)
    else match checkBroadcasting g sh with
      | .raisesDims => (.raises .scalarDims, none)
      | .no => (.notImplemented, none)
      | .yes => build [g.shape, sh ++ [1, 1]] out self.meta (.fresh 0) { self.meta with id := .fresh 1 }
  | .scalar nz sh _ :: .grid g :: _ =>
    if g.spin ≠ 0 ∧ nz then (.notImplemented, none)
    else match checkBroadcasting g sh with
      | .raisesDims => (.raises .scalarDims, none)
      | .no => (.notImplemented, none)
      | .yes => build [sh ++ [1, 1], g.shape] out self.meta (.fresh 0) { self.meta with id := .fresh 1 }
  | .scalar .. :: .scalar .. :: _ => (.notImplemented, none)
  | _ => (.raises .indexError, none)      -- `args[1]` on a 1-tuple

/-- multiply / divide / true_divide (lines 73–110); `isMul` = `ufunc is np.multiply` -/
def mulDiv (isMul : Bool) (args : List Arg) (out : Option OutArg) : Res × Option Meta :=
  match args with
  | .grid g1 :: .grid g2 :: _ =>
    if g1.nTheta ≠ g2.nTheta ∨ g1.nPhi ≠ g2.nPhi then (.raises .shapeMismatch, none)
    else
      let md := g1.meta.copyWith 0 (if isMul then g1.spin + g2.spin else g1.spin - g2.spin)
      build [g1.shape, g2.shape] out md (.fresh 1) md
  | .grid g :: .scalar _ sh _ :: _ =>
    match checkBroadcasting g sh with
    | .raisesDims => (.raises .scalarDims, none)
    | .no => (.notImplemented, none)
    | .yes =>
      let md := g.meta.copyWith 0 g.spin
      build [g.shape, sh ++ [1, 1]] out md (.fresh 1) md
  | .scalar _ sh _ :: .grid g :: _ =>
    match checkBroadcasting g sh with
    | .raisesDims => (.raises .scalarDims, none)
    | .no => (.notImplemented, none)
    | .yes =>
      let md := g.meta.copyWith 0 (if isMul then g.spin else -g.spin)
      build [sh ++ [1, 1], g.shape] out md (.fresh 1) md
  | .scalar .. :: .scalar .. :: _ => (.notImplemented, none)
  | _ => (.raises .indexError, none)

/-- conj / conjugate / absolute / sqrt / square / reciprocal once the new spin is known -/
def unary (args : List Arg) (out : Option OutArg) (newSpin : Int → Option Int) : Res × Option Meta :=
  match args with
  | .grid g :: _ =>
    match newSpin g.spin with
    | none => (.notImplemented, none)
    | some s =>
      let md := g.meta.copyWith 0 s
      build [g.shape] out md (.fresh 1) md
  | _ => (.notImplemented, none)

/-- power (lines 134–149): the exponent must satisfy `int(x) == x`; any failure → NotImplemented -/
def power (args : List Arg) (out : Option OutArg) : Res × Option Meta :=
  match args with
  | .grid g :: .scalar _ _ (some k) :: _ =>
    let md := g.meta.copyWith 0 (k * g.spin)
    build [g.shape] out md (.fresh 1) md     -- `np.power(view, exponent)` with the Python int
  | _ => (.notImplemented, none)             -- non-Grid base; missing / non-integral / Grid exponent

/-- the final `if method == 'at': return` -/
def finish (m : Meth) (r : Res × Option Meta) : Res × Option Meta :=
  match m, r with
  | .at, (.grid _, o) => (.none, o)
  | _, r => r

/-- `Grid.__array_ufunc__(self, ufunc, method, *args, out=None, **kwargs)`:
    the value returned / exception raised, and the new `_metadata` of `out[0]` if it was rebound. -/
def arrayUfunc (self : G) (c : Call) : Res × Option Meta :=
  if c.uf.isPassthrough then
    -- views as ndarray, hands over to ndarray.__array_ufunc__ (kwargs included)
    match c.meth with
    | .call =>
      match ufuncShape (c.args.map Arg.shape) (c.out.map OutArg.shape) with
      | none => (.raises .numpyBroadcast, none)
      | some _ => (.plain, none)
    | _ => (.plain, none)
  else if !c.uf.isAllowed then (.notImplemented, none)
  else if c.kwargs then (.raises .kwargs, none)
  else
    match c.uf with
    | .positive | .negative =>
      -- note: operates on `self`, not on `args[0]`
      finish c.meth (build [self.shape] c.out self.meta (.fresh 0) { self.meta with id := .fresh 1 })
    | .add | .subtract => finish c.meth (addSub self c.args c.out)
    | .multiply => finish c.meth (mulDiv true c.args c.out)
    | .divide | .true_divide => finish c.meth (mulDiv false c.args c.out)
    | .conj | .conjugate => finish c.meth (unary c.args c.out (fun s => some (-s)))
    | .absolute => finish c.meth (unary c.args c.out (fun _ => some 0))
    | .power => finish c.meth (power c.args c.out)
    | .sqrt => finish c.meth (unary c.args c.out (fun s => if s % 2 ≠ 0 then none else some (s / 2)))
    | .square => finish c.meth (unary c.args c.out (fun s => some (s * 2)))
    | .reciprocal => finish c.meth (unary c.args c.out (fun s => some (-s)))
    | _ => (.notImplemented, none)   -- unreachable (not allowed)

/-- what numpy's override machinery does with a call; `none` = no Grid involved, not our business -/
def dispatch (c : Call) : Option (Res × Option Meta) :=
  (selfOf c).map (fun s => arrayUfunc s c)

/-! ### the method forms of algebra.py -/

inductive Method
  | conjugate (inplace : Bool) | bar | real | imag | absolute
  | add | subtract | multiply | divide
  deriving DecidableEq, Repr

def resOfExcept : Except Err RGrid → Res
  | .error e => .raises e
  | .ok r => .grid r

/-- `self.view(np.ndarray) <op> other` for a non-Grid `other` of shape `sh`, wrapped with `md`:
    plain numpy broadcasting of the FULL shapes (no `[..., newaxis, newaxis]` here) -/
def rawBinary (self : G) (sh : List Nat) (md : Meta) (newId : MId) : Res :=
  match broadcast self.shape sh with
  | none => .raises .numpyBroadcast
  | some rs => resOfExcept (construct newId rs md)

/-- `add` / `subtract` methods; `mismatch` = which raise statement a spin mismatch hits -/
def addSubMethod (mismatch : Err) (self : G) (other : Option Arg) : Res :=
  match other with
  | some (.grid o) =>
    if self.spin ≠ o.spin then .raises mismatch
    else if self.nTheta ≠ o.nTheta ∨ self.nPhi ≠ o.nPhi then .raises .shapeMismatch
    else rawBinary self o.shape self.meta (.fresh 0)
  | some (.scalar nz sh _) =>
    if self.spin ≠ 0 ∧ nz then .raises .scalarNonzero
    else rawBinary self sh self.meta (.fresh 0)
  | none => .raises .indexError      -- binary method without its argument: not a modelled call

/-- `multiply` / `divide` methods -/
def mulDivMethod (isMul : Bool) (self : G) (other : Option Arg) : Res :=
  match other with
  | some (.grid o) =>
    if self.nTheta ≠ o.nTheta ∨ self.nPhi ≠ o.nPhi then .raises .shapeMismatch
    else rawBinary self o.shape
      (self.meta.copyWith 0 (if isMul then self.spin + o.spin else self.spin - o.spin)) (.fresh 1)
  | some (.scalar _ sh _) =>
    match checkBroadcasting self sh with
    | .raisesDims => .raises .scalarDims
    | .no => .raises .cannotBroadcast   -- (multiply retries with reverse=True: same answer)
    | .yes => rawBinary self sh self.meta (.fresh 0)
  | none => .raises .indexError

def method (m : Method) (self : G) (other : Option Arg) : Res :=
  match m with
  | .conjugate true =>
    -- `self._metadata['spin_weight'] = -self.spin_weight; return self`  (no constructor check)
    .grid { spin := -self.spin, nTheta := self.nTheta, nPhi := self.nPhi, lead := self.lead,
            extra := self.extra, metaId := .pre self.metaId, obj := .self }
  | .conjugate false | .bar =>
    resOfExcept (construct (.fresh 1) self.shape (self.meta.copyWith 0 (-self.spin)))
  | .real | .imag =>
    if self.spin ≠ 0 then .raises .realImagSpin
    else resOfExcept (construct (.fresh 0) self.shape self.meta)
  | .absolute => resOfExcept (construct (.fresh 1) self.shape (self.meta.copyWith 0 0))
  | .add => addSubMethod .spinMismatch self other
  | .subtract => addSubMethod .spinMismatchSubtract self other
  | .multiply => mulDivMethod true self other
  | .divide => mulDivMethod false self other

/-! ### copy / pickle hooks

    A tiny object heap: metadata dicts, the (possibly mutable) objects stored as their values, and
    data buffers all have identities; a Grid object is a (class, buffer, optional `_metadata`)
    triple.  `copy.copy(dict)` = new dict, same value objects; `copy.deepcopy(dict)` and a pickle
    round trip = new dict, new value objects with equal contents. -/

/-- contents of a metadata dict: `spin_weight` entry and the other entries `key ↦ value-object id` -/
structure DictC where
  spin : Option Int
  extra : List (String × Nat)
  deriving DecidableEq, Repr

structure Heap where
  dict : Nat → Option DictC
  /-- contents of value objects (an opaque token per object) -/
  val : Nat → Option String
  /-- contents of data buffers (an opaque token per buffer) -/
  buf : Nat → Option Nat
  /-- every identity `≥ next` is unused -/
  next : Nat

inductive Cls | Grid | ndarray
  deriving DecidableEq, Repr

/-- an array object -/
structure AObj where
  cls : Cls
  buf : Nat
  /-- `_metadata` attribute (`none` = attribute missing) -/
  md : Option Nat
  deriving DecidableEq, Repr

def Heap.setDict (h : Heap) (i : Nat) (d : DictC) : Heap :=
  { h with dict := fun j => if j = i then some d else h.dict j }
def Heap.setVal (h : Heap) (i : Nat) (v : String) : Heap :=
  { h with val := fun j => if j = i then some v else h.val j }
def Heap.setBuf (h : Heap) (i : Nat) (v : Nat) : Heap :=
  { h with buf := fun j => if j = i then some v else h.buf j }

/-- allocate a new data buffer holding a copy of buffer `b` -/
def Heap.copyBuf (h : Heap) (b : Nat) : Nat × Heap :=
  (h.next, { (h.setBuf h.next ((h.buf b).getD 0)) with next := h.next + 1 })

/-- `copy.copy(d)` for a dict (or `{}` when `d = none`): new dict, same value objects -/
def Heap.shallowCopy (h : Heap) (d : Option Nat) : Nat × Heap :=
  let c : DictC := match d.bind h.dict with | some c => c | none => ⟨none, []⟩
  (h.next, { (h.setDict h.next c) with next := h.next + 1 })

/-- deep-copy the value objects of an entry list, allocating from `h.next` upward -/
def Heap.deepVals (h : Heap) : List (String × Nat) → List (String × Nat) × Heap
  | [] => ([], h)
  | (k, v) :: rest =>
    let h1 : Heap := { (h.setVal h.next ((h.val v).getD "")) with next := h.next + 1 }
    let (rest', h2) := h1.deepVals rest
    ((k, h.next) :: rest', h2)

/-- `copy.deepcopy(d)` (also: what a pickle round trip of `d` produces): new dict, new values -/
def Heap.deepCopy (h : Heap) (d : Nat) : Nat × Heap :=
  let c : DictC := match h.dict d with | some c => c | none => ⟨none, []⟩
  let (ex, h1) := h.deepVals c.extra
  (h1.next, { (h1.setDict h1.next ⟨c.spin, ex⟩) with next := h1.next + 1 })

/-- `Grid.__array_finalize__(self, obj)`; `obj = none` is Python `None`,
    `some o` an array object (possibly a plain ndarray without `_metadata`) -/
def arrayFinalize (h : Heap) (self : AObj) (obj : Option AObj) : AObj × Heap :=
  match obj with
  | none => (self, h)
  | some o =>
    let (d, h1) := h.shallowCopy o.md
    -- `if not 'spin_weight' in self._metadata: self._metadata['spin_weight'] = None`:
    -- absent and None are the same `none` in `DictC.spin`
    ({ self with md := some d }, h1)

/-- `Grid.__reduce__`: numpy's state tuple extended by the `_metadata` dict ITSELF (no copy).
    Returned: class to reconstruct, the data buffer the state refers to, the dict. -/
def reduce (self : AObj) : Cls × Nat × Option Nat := (self.cls, self.buf, self.md)

/-- `Grid.__setstate__(self, state)`: `self._metadata = copy.deepcopy(state[-1])`, then numpy's
    `__setstate__` installs the data (buffer `b`) -/
def setstate (h : Heap) (self : AObj) (b : Nat) (stateMd : Nat) : AObj × Heap :=
  let (d, h1) := h.deepCopy stateMd
  ({ self with md := some d, buf := b }, h1)

/-- `Grid.__deepcopy__(self, memo)`: `super().__deepcopy__(memo)` (a new array of the same class and
    `__array_finalize__(result, self)`, whose shallow dict copy is then dropped), followed by
    `result._metadata = copy.deepcopy(self._metadata, memo)` -/
def deepcopyHook (h : Heap) (o : AObj) : AObj × Heap :=
  let (b', h1) := h.copyBuf o.buf
  let (res, h2) := arrayFinalize h1 { cls := o.cls, buf := b', md := none } (some o)
  let (d', h3) := h2.deepCopy (o.md.getD h2.next)
  ({ res with md := some d' }, h3)

/-- the hook a copy route goes through (observed on numpy 2.x: `ndarray` defines `copy`, `__copy__`
    and `__deepcopy__`, all of which allocate a new array of the same subclass and call
    `__array_finalize__`; `Grid.__deepcopy__` adds a deep copy of the metadata on top; only pickling uses
    `__reduce__`/`__setstate__`) -/
inductive Route
  | objCopy            -- obj.copy()
  | copyCopy           -- copy.copy(obj)
  | copyDeepcopy       -- copy.deepcopy(obj)
  | npArraySubok       -- np.array(obj, copy=True, subok=True)
  | pickle (protocol : Nat)
  deriving DecidableEq, Repr

inductive Hook | finalizeFrom | finalizeNone | reduce | setstate | deepcopy
  deriving DecidableEq, Repr

/-- sequence of Grid hooks each route triggers -/
def Route.hooks : Route → List Hook
  | .pickle _ => [.reduce, .finalizeNone, .setstate]
  | .copyDeepcopy => [.deepcopy, .finalizeFrom]
  | _ => [.finalizeFrom]

/-- the routes that deep-copy the metadata values -/
def Route.deep : Route → Bool
  | .copyDeepcopy | .pickle _ => true
  | _ => false

/-- run a copy route on object `o` -/
def copyVia (r : Route) (h : Heap) (o : AObj) : AObj × Heap :=
  match r with
  | .pickle _ =>
    let (cls, b, md) := reduce o
    -- dumps/loads: the data bytes and the dict are serialised and rebuilt as new objects
    let (b', h1) := h.copyBuf b
    let (md', h2) := h1.deepCopy (md.getD h1.next)
    -- `_reconstruct(cls, (0,), b'b')`: empty array of class `cls`; `__array_finalize__(None)`
    let (blank, h3) := arrayFinalize h2 { cls := cls, buf := b', md := none } none
    setstate h3 blank b' md'
  | .copyDeepcopy => deepcopyHook h o
  | _ =>
    let (b', h1) := h.copyBuf o.buf
    arrayFinalize h1 { cls := o.cls, buf := b', md := none } (some o)

end Model.Grid
