"""C10 — calls given private workspaces are independent under every thread interleaving.

Obligations: Props/C10.lean / Props/Sched.lean (interleave_left, interleave_untouched: any interleaving of threads that
read only inside their private region and never write into another's region leaves each region as the thread alone
produces; + the wiring of each method's kernels to buffers satisfies the hypothesis).
Correspondence (traces_validated_against_impl): a footprint monitor records which buffer every kernel of every method
is handed; a cooperative scheduler drives two (three) real threads through interleavings at kernel granularity and
compares with the sequential reference bit for bit; default workspace and coefficient tables are byte-compared."""
import itertools
import math

import numpy as np

from .. import helpers, sched
from . import common


def schedules(rng, ka, kb, cap):
    """systematic + sampled interleavings of ka A-steps (0) and kb B-steps (1)"""
    out = []
    for i in range(ka + 1):           # B entirely inside A at position i
        out.append([0] * i + [1] * kb + [0] * (ka - i))
    for i in range(kb + 1):
        out.append([1] * i + [0] * ka + [1] * (kb - i))
    alt = []
    a, b = ka, kb
    while a or b:
        if a:
            alt.append(0); a -= 1
        if b:
            alt.append(1); b -= 1
    out.append(alt)
    out.append([1 - x for x in alt] if ka == kb else alt[::-1])
    total = math.comb(ka + kb, ka)
    if total <= cap:
        out = [list(s) for s in set(itertools.permutations([0] * ka + [1] * kb))] if ka + kb <= 10 else out
    seen = {tuple(s) for s in out}
    tries = 0
    while len(seen) < min(cap, total) and tries < 20 * cap:
        s = [0] * ka + [1] * kb
        rng.shuffle(s)
        seen.add(tuple(s))
        tries += 1
    return [list(s) for s in seen]


def method_table(w, L, seed):
    """the seven workspace-accepting entry points for the two threads (which = 0, 1), deterministic in `seed`"""
    import random
    import spherical
    import quaternionic
    rng = random.Random(seed)
    R1 = quaternionic.array(helpers.random_rotor(rng))
    R2 = quaternionic.array((0.0, 0.6, 0.8, 0.0))
    z1, z2 = np.exp(0.4j), np.exp(2.2j)
    mA = helpers.make_modes(rng, -1, 3)
    mB = helpers.make_modes(rng, 2, 4, (2,))

    def mk(which):
        R = R1 if which == 0 else R2
        z = z1 if which == 0 else z2
        m = mA if which == 0 else mB
        return {
            "d": lambda ws: (lambda: w.d(z, out=np.full(w.dsize, np.nan), workspace=ws)),
            "D": lambda ws: (lambda: w.D(R, out=np.full(w.Dsize, np.nan + 0j), workspace=ws)),
            "sYlm": lambda ws: (lambda: w.sYlm(-2 if which == 0 else 1, R, out=np.full(w.Ysize, np.nan + 0j), workspace=ws)),
            "evaluate-Horner": lambda ws: (lambda: np.asarray(w.evaluate(m, R, workspace=ws, horner=True))),
            "evaluate-matrix": lambda ws: (lambda: np.asarray(w.evaluate(spherical.Modes(helpers_pad(m.ndarray, L), spin_weight=m.spin_weight, ell_min=0, ell_max=L), R, workspace=ws, horner=False))),
            "rotate-Horner": lambda ws: (lambda: w.rotate(m, R, workspace=ws, horner=True).ndarray),
            "rotate-matrix": lambda ws: (lambda: w.rotate(m, R, workspace=ws, horner=False).ndarray),
        }
    return mk


def fresh_process_child(na, nb, pre, seed):
    """(runs in a NEW interpreter) the very first two library calls of the process, interleaved: thread A runs `pre` steps, then
    thread B runs to completion, then A finishes.  Afterwards the same calls are made alone; prints a JSON verdict."""
    import json
    import spherical
    L = 4
    w = spherical.Wigner(L)
    mk = method_table(w, L, seed)
    sched.install()
    try:
        wsA, wsB = w.new_workspace(), w.new_workspace()
        res = sched.run_threads([mk(0)[na](wsA), mk(1)[nb](wsB)], [0] * pre + [1] * 200 + [0] * 200)
    finally:
        sched.uninstall()
    out = {"A": na, "B": nb, "pre": pre, "bad": []}
    for i, (kind, val) in enumerate(res):
        name = (na, nb)[i]
        ref = mk(i)[name](w.new_workspace())()
        if kind == "raise":
            out["bad"].append({"thread": i, "what": "raised", "detail": repr(val)[:200]})
        else:
            ok = helpers.bits_equal(np.asarray(val), np.asarray(ref)) if "matrix" not in name else np.allclose(val, ref, rtol=1e-13, atol=1e-13, equal_nan=False)
            if not ok:
                out["bad"].append({"thread": i, "what": "differs", "max_abs_diff": float(np.nanmax(np.abs(np.asarray(val) - np.asarray(ref)))) if np.asarray(val).shape == np.asarray(ref).shape else None})
    print("C10FRESH " + json.dumps(out))


def fresh_process_stratum(run, quick):
    """state that is initialised lazily on first use lives outside every workspace: the FIRST calls of a process are interleaved
    too (each schedule in a new interpreter), and compared with the same calls made alone afterwards"""
    import json
    import os
    import subprocess
    import sys
    from concurrent.futures import ThreadPoolExecutor
    pairs = [("sYlm", "sYlm"), ("evaluate-Horner", "evaluate-matrix")] + ([] if quick else [("D", "D"), ("rotate-Horner", "sYlm"), ("evaluate-matrix", "evaluate-Horner"), ("d", "rotate-matrix")])
    jobs = [(na, nb, pre) for na, nb in pairs for pre in (range(0, 14) if quick else range(0, 24))]
    verif = os.path.dirname(os.path.dirname(os.path.dirname(os.path.abspath(__file__))))
    seed = run.rng.randrange(10 ** 6)

    def one(job):
        na, nb, pre = job
        code = f"import sys; sys.path.insert(0, {verif!r}); from vlib.props import C10; C10.fresh_process_child({na!r}, {nb!r}, {pre}, {seed})"
        r = subprocess.run([sys.executable, "-c", code], capture_output=True, text=True, timeout=900, cwd=verif, env=dict(os.environ))
        for line in r.stdout.splitlines():
            if line.startswith("C10FRESH "):
                return job, json.loads(line[9:]), None
        return job, None, (r.stdout + r.stderr)[-400:]
    with ThreadPoolExecutor(max_workers=8) as ex:
        results = list(ex.map(one, jobs))
    for (na, nb, pre), out, err in results:
        run.gap_case("first-calls-of-a-process", (na, nb, pre), f"{na}||{nb}")
        if out is None:
            run.corr_break("gap:fresh-process", {"A": na, "B": nb, "pre": pre, "child_output": err})
            continue
        for b in out["bad"]:
            name = (na, nb)[b["thread"]]
            cause = "concurrent-call-raised" if b["what"] == "raised" else "result-depends-on-interleaving"
            run.violation(cause, f"Wigner.{name}[workspace=]",
                          {"A": na, "B": nb, "schedule": f"first calls of a new process: A runs {pre} steps, B runs to completion, A finishes", "thread": b["thread"], "seed": seed},
                          "the result of the same call made alone", json.dumps(b))


def check(run):
    import spherical
    import quaternionic
    quick = run.tier == "quick"
    run.regenerate()
    run.lean_props(common.modules_for("C10"))
    rng = run.rng
    sched.install()
    try:
        L = 4
        w = spherical.Wigner(L)
        R1 = quaternionic.array(helpers.random_rotor(rng))
        R2 = quaternionic.array((0.0, 0.6, 0.8, 0.0))
        z1, z2 = np.exp(0.4j), np.exp(2.2j)
        mA = helpers.make_modes(rng, -1, 3)
        mB = helpers.make_modes(rng, 2, 4, (2,))
        # method table: name -> factory(ws, which) -> callable ; each call gets its own workspace (and output array where accepted)
        def mk(which):
            R = R1 if which == 0 else R2
            z = z1 if which == 0 else z2
            m = mA if which == 0 else mB
            return {
                "d": lambda ws: (lambda: w.d(z, out=np.full(w.dsize, np.nan), workspace=ws)),
                "D": lambda ws: (lambda: w.D(R, out=np.full(w.Dsize, np.nan + 0j), workspace=ws)),
                "sYlm": lambda ws: (lambda: w.sYlm(-2 if which == 0 else 1, R, out=np.full(w.Ysize, np.nan + 0j), workspace=ws)),
                "evaluate-Horner": lambda ws: (lambda: np.asarray(w.evaluate(m, R, workspace=ws, horner=True))),
                "evaluate-matrix": lambda ws: (lambda: np.asarray(w.evaluate(spherical.Modes(helpers_pad(m.ndarray, L), spin_weight=m.spin_weight, ell_min=0, ell_max=L), R, workspace=ws, horner=False))),
                "rotate-Horner": lambda ws: (lambda: w.rotate(m, R, workspace=ws, horner=True).ndarray),
                "rotate-matrix": lambda ws: (lambda: w.rotate(m, R, workspace=ws, horner=False).ndarray),
            }
        methods = list(mk(0).keys())
        default_ws = w.Hwedge.base if w.Hwedge.base is not None else w.Hwedge
        tables = [w._a, w._b, w._d, w._g, w._h]
        # 1. every workspace-accepting method works with a private workspace, alone, and touches neither default ws nor tables
        alone = {}
        steps = {}
        for which in (0, 1):
            for name in methods:
                ws = w.new_workspace()
                ws[:] = np.nan
                snap_d = default_ws.copy()
                snap_t = [t.copy() for t in tables]
                bufs = [("default-workspace", default_ws), ("private-workspace", ws)] + [(f"table", t) for t in tables]
                call = mk(which)[name](ws)
                r, n, log = sched.count_steps(call, bufs)
                run.gap_case("private-workspace-alone", (name, which), name, {"method": name, "kernel_steps": n, "footprint": [list(x[1:]) for x in log][:6]})
                if r[0] == "raise":
                    run.violation("method-unusable-with-private-workspace", f"Wigner.{name}[workspace=]", {"method": name}, "result", repr(r[1]))
                    continue
                alone[(name, which)] = np.array(r[1], copy=True)
                steps[(name, which)] = 2 * n + 1   # Python code / kernel alternate: n kernels, n stretches of Python before them, and the tail
                used_default = [x for x in log if "default-workspace" in x[2]]
                if used_default:
                    run.violation("private-call-uses-default-workspace", f"Wigner.{name}[workspace=]", {"method": name, "kernels": [x[1] for x in used_default]}, "no access", "kernel handed the default workspace")
                if not np.array_equal(default_ws, snap_d, equal_nan=True) or any(not np.array_equal(a, b, equal_nan=True) for a, b in zip(tables, snap_t)):
                    run.violation("private-call-modifies-shared-state", f"Wigner.{name}[workspace=]", {"method": name}, "default workspace and tables unchanged", "changed")
                # the same call with the default workspace must agree (reference for the value)
        # 1b. correspondence: observed footprints (monitor) vs the Lean model's wiring `Model.Sched.callSteps`
        model_lines = [f"sched {name} {priv}" for name in methods for priv in (1, 0)]
        out = run.driver(model_lines)
        if out is not None:
            for line, o in zip(model_lines, out):
                _, name, priv = line.split()
                ws = w.new_workspace() if priv == "1" else None
                bufs = [("default-workspace", default_ws)] + ([("private-workspace", ws)] if ws is not None else []) + [("table", t) for t in tables]
                call = mk(0)[name](ws)
                r, n, log = sched.count_steps(call, bufs)
                obs = ";".join(k + ":" + ",".join(sorted(set(c for c in cls if c != "other"))) for (_, k, cls) in log)
                mod = ";".join(part for part in o.split(";") if not part.startswith("matmul"))
                run.corr_case("footprints-vs-model-wiring", line, name, {"op": line, "footprint": obs})
                if r[0] == "ok" and obs != mod:
                    run.corr_break("corr:footprints", {"op": line, "model": mod, "impl": obs})
        # 2. interleavings of two concurrent calls
        cap = 40 if quick else 300
        nsched = 0
        for na in methods:
            for nb in methods:
                if (na, 0) not in alone or (nb, 1) not in alone:
                    continue
                for sc in schedules(rng, steps[(na, 0)], steps[(nb, 1)], cap if (na == nb or not quick) else 12):
                    wsA, wsB = w.new_workspace(), w.new_workspace()
                    wsA[:] = rng.choice([0.0, np.nan])
                    wsB[:] = rng.choice([0.0, 1e300])
                    snap_d = default_ws.copy()
                    res = sched.run_threads([mk(0)[na](wsA), mk(1)[nb](wsB)], sc)
                    nsched += 1
                    run.gap_case("interleavings", (na, nb, tuple(sc)), f"{na}||{nb}", {"A": na, "B": nb, "schedule": "".join(map(str, sc))} if nsched % 50 == 1 else None)
                    for (kind, val), key in zip(res, [(na, 0), (nb, 1)]):
                        if kind == "raise":
                            run.violation("concurrent-call-raised", f"Wigner.{key[0]}[workspace=]", {"A": na, "B": nb, "schedule": sc}, "result", repr(val))
                        elif not (helpers.bits_equal(np.asarray(val), alone[key]) if "matrix" not in key[0] else np.allclose(val, alone[key], rtol=1e-13, atol=1e-13)):
                            run.violation("result-depends-on-interleaving", f"Wigner.{key[0]}[workspace=]", {"A": na, "B": nb, "schedule": sc, "thread": key[1]}, "sequential result", "differs")
                    if not np.array_equal(default_ws, snap_d, equal_nan=True):
                        run.violation("private-call-modifies-shared-state", "default-workspace", {"A": na, "B": nb, "schedule": sc}, "unchanged", "changed")
        run.notes["schedules_run"] = nsched
        # 3. three threads (thorough)
        if not quick:
            for _ in range(150):
                names = [rng.choice([m for m in methods if (m, 0) in alone]) for _ in range(3)]
                which = [0, 1, 0]
                ks = [steps[(n, wch)] for n, wch in zip(names, which)]
                sc = [0] * ks[0] + [1] * ks[1] + [2] * ks[2]
                rng.shuffle(sc)
                wss = [w.new_workspace() for _ in range(3)]
                res = sched.run_threads([mk(wch)[n](ws) for n, wch, ws in zip(names, which, wss)], sc)
                run.gap_case("interleavings-3-threads", (tuple(names), tuple(sc)), "3-threads")
                for (kind, val), n, wch in zip(res, names, which):
                    if kind == "raise" or not (helpers.bits_equal(np.asarray(val), alone[(n, wch)]) if "matrix" not in n else np.allclose(val, alone[(n, wch)], rtol=1e-13, atol=1e-13)):
                        run.violation("result-depends-on-interleaving", f"Wigner.{n}[workspace=]", {"methods": names, "schedule": sc}, "sequential result", "differs or raised")
    finally:
        sched.uninstall()
    run.attempt("gap:fresh_process", fresh_process_stratum, run, quick)
    run.assumptions += ["a compiled kernel is atomic w.r.t. other Python threads (numba kernels here do not release the GIL)",
                        "interleavings beyond the cap are sampled; the theorem (Props/Sched) covers all of them for the modelled footprints"]


def helpers_pad(arr, L):
    out = np.zeros(arr.shape[:-1] + ((L + 1) ** 2,), dtype=complex)
    out[..., :arr.shape[-1]] = arr
    return out


def replay(body):
    print(body["input"], body["expected"], body["got"])
    return 0
