import SphericalVerif.Lemmas.HRefine
/-! Refinement of `Model.runH`, part: step 4 (columns m' = 2 … min(n,P)). -/
namespace HRefine
set_option linter.unusedSectionVars false
section
open Scalar Model Spec
variable {α : Type} [Scalar α] {μ : Type} [Mem μ α] [LawfulMem μ α]

/-! ### recursion equations of `valW` / `valV` in the shape of `_step_4` -/

theorem valV_step4 (c s : α) (n mp : Nat) (h1 : 1 ≤ mp) :
    valV c s n ((mp : Int) + 1) =
      f4v n mp (valW c s n ((mp : Int) - 1) mp) (valV c s n (mp : Int)) (valW c s n (mp : Int) (mp+1)) := by
  obtain ⟨k, rfl⟩ : ∃ k, mp = k + 1 := ⟨mp - 1, by omega⟩
  rw [show ((k+1 : Nat) : Int) + 1 = ((k+2 : Nat) : Int) by omega,
      show ((k+1 : Nat) : Int) - 1 = (k : Int) by omega,
      valV_ofNat, valV_ofNat, valW_ofNat, valW_ofNat]
  rfl

theorem valW_step4mid (c s : α) (n mp i : Nat) (h1 : 1 ≤ mp) (h2 : mp + i < n) :
    valW c s n ((mp : Int) + 1) (mp + i) =
      f4mid n mp i (valW c s n ((mp : Int) - 1) (mp + i)) (valW c s n (mp : Int) (mp + i - 1))
        (valW c s n (mp : Int) (mp + i + 1)) := by
  obtain ⟨k, rfl⟩ : ∃ k, mp = k + 1 := ⟨mp - 1, by omega⟩
  rw [show ((k+1 : Nat) : Int) + 1 = ((k+2 : Nat) : Int) by omega,
      show ((k+1 : Nat) : Int) - 1 = (k : Int) by omega,
      valW_ofNat, valW_ofNat, valW_ofNat, valW_ofNat]
  show (if k + 1 + i < n then _ else _) = _
  rw [if_pos h2, Nat.add_sub_cancel_left]

theorem valW_step4top (c s : α) (n mp : Nat) (h1 : 1 ≤ mp) :
    valW c s n ((mp : Int) + 1) n =
      f4top n mp (valW c s n ((mp : Int) - 1) n) (valW c s n (mp : Int) (n - 1)) := by
  obtain ⟨k, rfl⟩ : ∃ k, mp = k + 1 := ⟨mp - 1, by omega⟩
  rw [show ((k+1 : Nat) : Int) + 1 = ((k+2 : Nat) : Int) by omega,
      show ((k+1 : Nat) : Int) - 1 = (k : Int) by omega,
      valW_ofNat, valW_ofNat, valW_ofNat]
  show (if n < n then _ else _) = _
  rw [if_neg (Nat.lt_irrefl n)]

/-! ### decomposition of `step4` into its loop levels -/

/-- i = 0: the sub-diagonal cell goes to `hv` -/
def s4v (n mp : Nat) (st : μ) : μ :=
  wr st (.hv n ((mp : Int) + 1))
    (f4v n mp (rd (α := α) st (.hw n ((mp : Int) - 1) mp)) (rd (α := α) st (.hv n (mp : Int)))
      (rd (α := α) st (.hw n (mp : Int) (mp+1))))

/-- 1 ≤ i = t+1 < n - mp -/
def s4cell (n mp : Nat) : Nat → μ → μ := fun t st =>
  wr st (.hw n ((mp : Int) + 1) (mp + (t+1)))
    (f4mid n mp (t+1) (rd (α := α) st (.hw n ((mp : Int) - 1) (mp + (t+1))))
      (rd (α := α) st (.hw n (mp : Int) (mp + (t+1) - 1))) (rd (α := α) st (.hw n (mp : Int) (mp + (t+1) + 1))))

/-- i = n - mp: the cell m = n -/
def s4top (n mp : Nat) (st : μ) : μ :=
  wr st (.hw n ((mp : Int) + 1) n)
    (f4top n mp (rd (α := α) st (.hw n ((mp : Int) - 1) n)) (rd (α := α) st (.hw n (mp : Int) (n - 1))))

/-- column m' = mp + 1 of row n from columns mp - 1 and mp -/
def s4col (n mp : Nat) (st : μ) : μ :=
  s4top (α := α) n mp (loopN (n - mp - 1) (s4cell (α := α) n mp) (s4v (α := α) n mp st))

def s4row (P : Nat) : Nat → μ → μ := fun k st =>
  loopN (min (k+2) P - 1) (fun j st => s4col (α := α) (k+2) (j+1) st) st

theorem step4_eq (L P : Nat) (st : μ) :
    step4 (α := α) L P st = if L = 0 ∨ P = 0 then st else loopN (L-1) (s4row (α := α) P) st := rfl

/-! ### one column -/

theorem s4col_spec (c s : α) (n mp : Nat) (h1 : 1 ≤ mp) (h2 : mp + 1 ≤ n) (st : μ)
    (hA : ∀ m, mp ≤ m → m ≤ n → rd st (.hw n ((mp : Int) - 1) m) = valW c s n ((mp : Int) - 1) m)
    (hB : ∀ m, mp ≤ m → m ≤ n → rd st (.hw n (mp : Int) m) = valW c s n (mp : Int) m)
    (hV : rd st (.hv n (mp : Int)) = valV c s n (mp : Int)) :
    (∀ m, mp + 1 ≤ m → m ≤ n →
        rd (s4col (α := α) n mp st) (.hw n ((mp : Int) + 1) m) = valW c s n ((mp : Int) + 1) m)
    ∧ rd (s4col (α := α) n mp st) (.hv n ((mp : Int) + 1)) = valV c s n ((mp : Int) + 1)
    ∧ (∀ l, l ≠ .hv n ((mp : Int) + 1) → (∀ m, mp + 1 ≤ m → m ≤ n → l ≠ .hw n ((mp : Int) + 1) m) →
        rd (α := α) (s4col (α := α) n mp st) l = rd st l) := by
  -- after the i = 0 assignment
  have f1 : ∀ l, l ≠ .hv n ((mp : Int) + 1) → rd (α := α) (s4v (α := α) n mp st) l = rd st l :=
    fun l hl => rd_wr_ne _ _ hl
  have f1v : rd (s4v (α := α) n mp st) (.hv n ((mp : Int) + 1)) = valV c s n ((mp : Int) + 1) := by
    unfold s4v
    rw [rd_wr_same, hA mp (Nat.le_refl _) (by omega), hV, hB (mp+1) (by omega) h2, valV_step4 c s n mp h1]
  -- the i loop
  let Q : Nat → μ → Prop := fun t st' =>
    (∀ m, mp + 1 ≤ m → m ≤ mp + t → rd st' (.hw n ((mp : Int) + 1) m) = valW c s n ((mp : Int) + 1) m)
    ∧ (∀ l, (∀ m, mp + 1 ≤ m → m ≤ mp + t → l ≠ .hw n ((mp : Int) + 1) m) →
        rd (α := α) st' l = rd (s4v (α := α) n mp st) l)
  have key : ∀ cnt, cnt ≤ n - mp - 1 → Q cnt (loopN cnt (s4cell (α := α) n mp) (s4v (α := α) n mp st)) := by
    intro cnt hcnt
    apply loopN_inv Q
    · exact ⟨fun m h1 h2 => by omega, fun l _ => rfl⟩
    · intro t st' ht ⟨qA, qB⟩
      have rA : ∀ m, mp ≤ m → m ≤ n → rd st' (.hw n ((mp : Int) - 1) m) = valW c s n ((mp : Int) - 1) m := by
        intro m hm1 hm2
        rw [qB _ (fun _ _ _ => hw_ne_of_col (by omega)), f1 _ hw_ne_hv]; exact hA m hm1 hm2
      have rB : ∀ m, mp ≤ m → m ≤ n → rd st' (.hw n (mp : Int) m) = valW c s n (mp : Int) m := by
        intro m hm1 hm2
        rw [qB _ (fun _ _ _ => hw_ne_of_col (by omega)), f1 _ hw_ne_hv]; exact hB m hm1 hm2
      refine ⟨?_, ?_⟩
      · intro m hm1 hm2
        by_cases hm : m = mp + (t+1)
        · subst hm
          unfold s4cell
          rw [rd_wr_same, rA _ (by omega) (by omega), rB _ (by omega) (by omega), rB _ (by omega) (by omega),
            valW_step4mid c s n mp (t+1) h1 (by omega)]
        · unfold s4cell
          rw [rd_wr_ne _ _ (hw_ne_of_m hm)]
          exact qA m hm1 (by omega)
      · intro l hl
        unfold s4cell
        rw [rd_wr_ne _ _ (hl _ (by omega) (by omega))]
        exact qB l (fun m hm1 hm2 => hl m hm1 (by omega))
  obtain ⟨kA, kB⟩ := key (n - mp - 1) (Nat.le_refl _)
  -- reads of the final assignment
  have tA : rd (loopN (n - mp - 1) (s4cell (α := α) n mp) (s4v (α := α) n mp st)) (.hw n ((mp : Int) - 1) n)
      = valW c s n ((mp : Int) - 1) n := by
    rw [kB _ (fun _ _ _ => hw_ne_of_col (by omega)), f1 _ hw_ne_hv]; exact hA n (by omega) (Nat.le_refl _)
  have tB : rd (loopN (n - mp - 1) (s4cell (α := α) n mp) (s4v (α := α) n mp st)) (.hw n (mp : Int) (n - 1))
      = valW c s n (mp : Int) (n - 1) := by
    rw [kB _ (fun _ _ _ => hw_ne_of_col (by omega)), f1 _ hw_ne_hv]; exact hB (n-1) (by omega) (by omega)
  refine ⟨?_, ?_, ?_⟩
  · intro m hm1 hm2
    unfold s4col s4top
    by_cases hm : m = n
    · subst hm
      rw [rd_wr_same, tA, tB, valW_step4top c s m mp h1]
    · rw [rd_wr_ne _ _ (hw_ne_of_m hm)]
      exact kA m hm1 (by omega)
  · unfold s4col s4top
    rw [rd_wr_ne _ _ hv_ne_hw, kB _ (fun _ _ _ => hv_ne_hw)]
    exact f1v
  · intro l hl1 hl2
    unfold s4col s4top
    rw [rd_wr_ne _ _ (hl2 n (by omega) (Nat.le_refl _)), kB _ (fun m hm1 hm2 => hl2 m hm1 (by omega))]
    exact f1 l hl1

/-! ### one row -/

theorem s4row_spec (c s : α) (n P : Nat) (st : μ)
    (h0 : ∀ m, 1 ≤ m → m ≤ n → rd st (.hw n 0 m) = valW c s n 0 m)
    (h1 : ∀ m, 1 ≤ m → m ≤ n → rd st (.hw n 1 m) = valW c s n 1 m)
    (hv : rd st (.hv n 1) = valV c s n 1) :
    (∀ k m, 2 ≤ k → k ≤ min n P → k ≤ m → m ≤ n →
        rd (loopN (min n P - 1) (fun j st => s4col (α := α) n (j+1) st) st) (.hw n (k : Int) m) = valW c s n (k : Int) m)
    ∧ (∀ k, 2 ≤ k → k ≤ min n P →
        rd (loopN (min n P - 1) (fun j st => s4col (α := α) n (j+1) st) st) (.hv n (k : Int)) = valV c s n (k : Int))
    ∧ (∀ l, (∀ k, 2 ≤ k → k ≤ min n P → l ≠ .hv n (k : Int) ∧ ∀ m, k ≤ m → m ≤ n → l ≠ .hw n (k : Int) m) →
        rd (α := α) (loopN (min n P - 1) (fun j st => s4col (α := α) n (j+1) st) st) l = rd st l) := by
  let R : Nat → μ → Prop := fun j st' =>
    (∀ k m, k ≤ j + 1 → k ≤ m → 1 ≤ m → m ≤ n → rd st' (.hw n (k : Int) m) = valW c s n (k : Int) m)
    ∧ (∀ k, 1 ≤ k → k ≤ j + 1 → rd st' (.hv n (k : Int)) = valV c s n (k : Int))
    ∧ (∀ l, (∀ k, 2 ≤ k → k ≤ j + 1 → l ≠ .hv n (k : Int) ∧ ∀ m, k ≤ m → m ≤ n → l ≠ .hw n (k : Int) m) →
        rd (α := α) st' l = rd st l)
  have key : ∀ cnt, cnt ≤ min n P - 1 → R cnt (loopN cnt (fun j st => s4col (α := α) n (j+1) st) st) := by
    intro cnt hcnt
    apply loopN_inv R
    · refine ⟨?_, ?_, fun l _ => rfl⟩
      · intro k m hk hkm hm1 hm2
        have : k = 0 ∨ k = 1 := by omega
        rcases this with rfl | rfl
        · exact h0 m hm1 hm2
        · exact h1 m hm1 hm2
      · intro k hk1 hk2
        have : k = 1 := by omega
        subst this; exact hv
    · intro j st' hj ⟨rA, rV, rF⟩
      have e1 : ((j+1 : Nat) : Int) - 1 = (j : Int) := by omega
      have e2 : ((j+1 : Nat) : Int) + 1 = ((j+2 : Nat) : Int) := by omega
      have hn : j + 2 ≤ n := by omega
      obtain ⟨cA, cV, cF⟩ := s4col_spec c s n (j+1) (by omega) (by omega) st'
        (fun m hm1 hm2 => by rw [e1]; exact rA j m (by omega) (by omega) (by omega) hm2)
        (fun m hm1 hm2 => rA (j+1) m (by omega) hm1 (by omega) hm2)
        (rV (j+1) (by omega) (by omega))
      rw [e2] at cA cV cF
      refine ⟨?_, ?_, ?_⟩
      · intro k m hk hkm hm1 hm2
        by_cases hk2 : k = j + 2
        · subst hk2; exact cA m hkm hm2
        · rw [cF _ hw_ne_hv (fun _ _ _ => hw_ne_of_col (by omega))]
          exact rA k m (by omega) hkm hm1 hm2
      · intro k hk1 hk
        by_cases hk2 : k = j + 2
        · subst hk2; exact cV
        · rw [cF _ (hv_ne_of_k (by omega)) (fun _ _ _ => hv_ne_hw)]
          exact rV k hk1 (by omega)
      · intro l hl
        rw [cF l (hl (j+2) (by omega) (by omega)).1 (fun m hm1 hm2 => (hl (j+2) (by omega) (by omega)).2 m hm1 hm2)]
        exact rF l (fun k hk1 hk2 => hl k hk1 (by omega))
  obtain ⟨kA, kV, kF⟩ := key (min n P - 1) (Nat.le_refl _)
  exact ⟨fun k m hk1 hk2 hkm hm => kA k m (by omega) hkm (by omega) hm,
         fun k hk1 hk2 => kV k (by omega) (by omega),
         fun l hl => kF l (fun k hk1 hk2 => hl k hk1 (by omega))⟩

/-! ### the whole step -/

/-- Step 4 writes exactly the cells (n, k, m) with 2 ≤ n ≤ L, 2 ≤ k ≤ min(n,P), k ≤ m ≤ n (value `valW c s n k m`)
    and the scratch cells `hv n k` for the same n, k (value `valV c s n k`), provided the columns m' = 0, 1
    and `hv n 1` hold their `valW`/`valV` values; every other cell is unchanged. -/
theorem step4_refines (L P : Nat) (c s : α) (st : μ) (hL : 0 < L) (hP : 0 < P)
    (h0 : ∀ n m, 2 ≤ n → n ≤ L → 1 ≤ m → m ≤ n → rd st (.hw n 0 m) = valW c s n 0 m)
    (h1 : ∀ n m, 2 ≤ n → n ≤ L → 1 ≤ m → m ≤ n → rd st (.hw n 1 m) = valW c s n 1 m)
    (hv : ∀ n, 2 ≤ n → n ≤ L → rd st (.hv n 1) = valV c s n 1) :
    (∀ n k m, 2 ≤ n → n ≤ L → 2 ≤ k → k ≤ min n P → k ≤ m → m ≤ n →
        rd (step4 (α := α) L P st) (.hw n (k : Int) m) = valW c s n (k : Int) m)
    ∧ (∀ n k, 2 ≤ n → n ≤ L → 2 ≤ k → k ≤ min n P →
        rd (step4 (α := α) L P st) (.hv n (k : Int)) = valV c s n (k : Int))
    ∧ (∀ l, (∀ n k, 2 ≤ n → n ≤ L → 2 ≤ k → k ≤ min n P →
              l ≠ .hv n (k : Int) ∧ ∀ m, k ≤ m → m ≤ n → l ≠ .hw n (k : Int) m) →
        rd (α := α) (step4 (α := α) L P st) l = rd st l) := by
  rw [step4_eq, if_neg (by omega)]
  let S : Nat → μ → Prop := fun r st' =>
    (∀ n k m, 2 ≤ n → n ≤ r + 1 → 2 ≤ k → k ≤ min n P → k ≤ m → m ≤ n →
        rd st' (.hw n (k : Int) m) = valW c s n (k : Int) m)
    ∧ (∀ n k, 2 ≤ n → n ≤ r + 1 → 2 ≤ k → k ≤ min n P → rd st' (.hv n (k : Int)) = valV c s n (k : Int))
    ∧ (∀ l, (∀ n k, 2 ≤ n → n ≤ r + 1 → 2 ≤ k → k ≤ min n P →
              l ≠ .hv n (k : Int) ∧ ∀ m, k ≤ m → m ≤ n → l ≠ .hw n (k : Int) m) →
        rd (α := α) st' l = rd st l)
  have key : ∀ cnt, cnt ≤ L - 1 → S cnt (loopN cnt (s4row (α := α) P) st) := by
    intro cnt hcnt
    apply loopN_inv S
    · exact ⟨fun n k m h1 h2 => by omega, fun n k h1 h2 => by omega, fun l _ => rfl⟩
    · intro r st' hr ⟨sA, sV, sF⟩
      obtain ⟨wA, wV, wF⟩ := s4row_spec c s (r+2) P st'
        (fun m hm1 hm2 => by
          rw [sF _ (fun n k _ _ _ _ => ⟨hw_ne_hv, fun _ _ _ => hw_ne_of_col (by omega)⟩)]
          exact h0 (r+2) m (by omega) (by omega) hm1 hm2)
        (fun m hm1 hm2 => by
          rw [sF _ (fun n k _ _ _ _ => ⟨hw_ne_hv, fun _ _ _ => hw_ne_of_col (by omega)⟩)]
          exact h1 (r+2) m (by omega) (by omega) hm1 hm2)
        (by
          rw [sF _ (fun n k _ _ _ _ => ⟨hv_ne_of_k (by omega), fun _ _ _ => hv_ne_hw⟩)]
          exact hv (r+2) (by omega) (by omega))
      refine ⟨?_, ?_, ?_⟩
      · intro n k m hn1 hn2 hk1 hk2 hkm hm
        by_cases hn : n = r + 2
        · subst hn; exact wA k m hk1 hk2 hkm hm
        · show rd (loopN (min (r+2) P - 1) (fun j st => s4col (α := α) (r+2) (j+1) st) st') _ = _
          rw [wF _ (fun _ _ _ => ⟨hw_ne_hv, fun _ _ _ => hw_ne_of_n hn⟩)]
          exact sA n k m hn1 (by omega) hk1 hk2 hkm hm
      · intro n k hn1 hn2 hk1 hk2
        by_cases hn : n = r + 2
        · subst hn; exact wV k hk1 hk2
        · show rd (loopN (min (r+2) P - 1) (fun j st => s4col (α := α) (r+2) (j+1) st) st') _ = _
          rw [wF _ (fun _ _ _ => ⟨hv_ne_of_n hn, fun _ _ _ => hv_ne_hw⟩)]
          exact sV n k hn1 (by omega) hk1 hk2
      · intro l hl
        show rd (loopN (min (r+2) P - 1) (fun j st => s4col (α := α) (r+2) (j+1) st) st') _ = _
        rw [wF l (fun k hk1 hk2 => hl (r+2) k (by omega) (by omega) hk1 hk2)]
        exact sF l (fun n k hn1 hn2 hk1 hk2 => hl n k hn1 (by omega) hk1 hk2)
  obtain ⟨kA, kV, kF⟩ := key (L - 1) (Nat.le_refl _)
  exact ⟨fun n k m hn1 hn2 => kA n k m hn1 (by omega),
         fun n k hn1 hn2 => kV n k hn1 (by omega),
         fun l hl => kF l (fun n k hn1 hn2 => hl n k hn1 (by omega))⟩

end
end HRefine
