#!/bin/sh
# tools/keep_mut.sh Cxx <seed-name> : confirm in the scratch worktree, copy into seeded/<seed-name>/
pid=$1; name=$2
/verif/tools/confirm_mut.py $pid ${3:-} > /tmp/mutwork/$pid/confirm.out 2>&1
if grep -q '"confirmed": true' /tmp/mutwork/$pid/confirm.json; then
  mkdir -p /verif/seeded/$name
  cp /tmp/mutwork/$pid/patch.diff /tmp/mutwork/$pid/demo.py /tmp/mutwork/$pid/meta.json /tmp/mutwork/$pid/confirm.json /verif/seeded/$name/
  echo "kept $name"
else
  echo "NOT confirmed: $pid"; cat /tmp/mutwork/$pid/confirm.json
fi
