"""C15 — every call is correct or raises; out-of-range requests are rejected.

Obligations: Props/C15.lean about the *generated* guards (Gen.Wigner_*_ok, re-extracted from wigner.py every run):
guards sound/complete w.r.t. the documented servable predicate.  Correspondence: guard functions (driver) vs the
outcome class of the real methods on the full lattice.  Search/gap: lattice of (ell_min, ell_max, mp_max) x (s,
modes ell_max) x method x strategy; values against a generously sized calculator; malformed constructor args."""
import itertools

import numpy as np

from .. import corr, helpers
from . import common

EPS = 2.0 ** -52


def outcome(f):
    try:
        return "ok", f()
    except Exception as e:
        return "raise", e


def check(run):
    import spherical
    import quaternionic
    quick = run.tier == "quick"
    rep = run.regenerate()
    run.lean_props(common.modules_for("C15"))
    rng = run.rng
    LM = 4 if quick else 6
    R = (0.5, -0.1, 0.7, 0.2)
    nrm = sum(x * x for x in R) ** 0.5
    R = tuple(x / nrm for x in R)
    Rq = quaternionic.array(R)
    big = spherical.Wigner(LM + 2)
    Dbig = big.D(Rq)
    dbig = big.d(np.exp(0.6j))
    Ybig = {s: big.sYlm(s, Rq) for s in range(-LM - 1, LM + 2)}
    guard_lines, guard_expect = [], []

    def v(cause, site, inp, exp, got):
        run.violation(cause, site, inp, exp, got)

    modes_cache = {}

    def modes_for(s, Lm):
        if (s, Lm) not in modes_cache:
            modes_cache[(s, Lm)] = helpers.make_modes(rng, s, Lm)
        return modes_cache[(s, Lm)]

    n_lattice = 0
    for ell_max in range(0, LM + 1):
        for ell_min in range(0, ell_max + 1):
            for mp_max in sorted({0, 1, ell_min, ell_min + 1, ell_max - 1, ell_max, ell_max + 3} & set(range(0, ell_max + 4))):
                cfg = {"ell_min": ell_min, "ell_max": ell_max, "mp_max": mp_max}
                w = spherical.Wigner(ell_max, ell_min, mp_max)
                P = w.mp_max
                # ---- d, D
                for name, call, refarr in (("d", lambda: w.d(np.exp(0.6j)), dbig), ("D", lambda: w.D(Rq), Dbig)):
                    kind, res = outcome(call)
                    must_raise = P < ell_max
                    n_lattice += 1
                    run.gap_case("lattice", (name, ell_min, ell_max, mp_max), f"{name}:{'must-raise' if must_raise else 'must-succeed'}", {"method": name, **cfg})
                    guard_lines.append(f"gen Wigner_{name}_ok {P} {ell_max}" + (" 0 0 0 0 0" if name == "D" else ""))
                    guard_expect.append((name, cfg, kind))
                    if must_raise and kind == "ok":
                        v("out-of-range-request-not-rejected", f"Wigner.{name}", cfg, "raise", "returned values")
                    elif not must_raise and kind == "raise":
                        v("in-range-request-raised", f"Wigner.{name}", cfg, "values", repr(res))
                    elif kind == "ok":
                        for ell in range(ell_min, ell_max + 1):
                            i1, j1 = w.Dindex(ell, -ell, -ell), big.Dindex(ell, -ell, -ell)
                            n = (2 * ell + 1) ** 2
                            if not np.allclose(res[i1:i1 + n], refarr[j1:j1 + n], rtol=0, atol=64 * (ell + 1) * EPS):
                                v("wrong-values", f"Wigner.{name}", {**cfg, "ell": ell}, "values of a generously sized calculator", "differs")
                                break
                # ---- sYlm
                for s in range(-min(ell_max, 3) - 1, min(ell_max, 3) + 2):
                    kind, res = outcome(lambda: w.sYlm(s, Rq))
                    must_raise = abs(s) > P
                    n_lattice += 1
                    run.gap_case("lattice", ("sYlm", ell_min, ell_max, mp_max, s), f"sYlm:{'must-raise' if must_raise else 'must-succeed'}")
                    guard_lines.append(f"gen Wigner_sYlm_ok {s} {P} 0 0 0 0 0")
                    guard_expect.append(("sYlm", {**cfg, "s": s}, kind))
                    if must_raise and kind == "ok":
                        v("out-of-range-request-not-rejected", "Wigner.sYlm", {**cfg, "s": s}, "raise", "returned values")
                    elif not must_raise and kind == "raise":
                        v("in-range-request-raised", "Wigner.sYlm", {**cfg, "s": s}, "values", repr(res))
                    elif kind == "ok":
                        ref = Ybig[s][ell_min ** 2:(ell_max + 1) ** 2]
                        if res.shape != ref.shape or not np.allclose(res, ref, rtol=0, atol=64 * (ell_max + 1) * EPS):
                            v("wrong-values", "Wigner.sYlm", {**cfg, "s": s}, "values of a generously sized calculator", "differs")
                # ---- evaluate / rotate
                for s in ([-2, 0, 1, 3] if quick else [-3, -2, -1, 0, 1, 2, 4]):
                    # (modes with ell_max below |s| describe the zero function: still a legitimate request)
                    for Lm in sorted(({abs(s), ell_max - 1, ell_max, ell_max + 1} & set(range(abs(s), LM + 2))) | ({0, abs(s) - 2, abs(s) - 1} & set(range(0, LM + 2)))):
                        modes = modes_for(s, Lm)
                        arr = modes.ndarray
                        ref_eval = np.tensordot(arr, Ybig[s][:(Lm + 1) ** 2] if Lm <= LM + 2 else None, axes=([-1], [0])) if abs(s) <= LM + 1 and Lm <= LM + 2 else None
                        ref_rot = np.zeros_like(arr)
                        if Lm <= LM + 2:
                            for ell in range(abs(s), Lm + 1):
                                j1 = big.Dindex(ell, -ell, -ell)
                                ref_rot[ell * ell:(ell + 1) ** 2] = arr[ell * ell:(ell + 1) ** 2] @ Dbig[j1:j1 + (2 * ell + 1) ** 2].reshape(2 * ell + 1, 2 * ell + 1)
                        scale = max(float(np.sum(np.abs(arr))), 1e-300)
                        for horner in (True, False):
                            inp = {**cfg, "s": s, "ell_max_modes": Lm, "horner": horner}
                            # evaluate
                            kind, res = outcome(lambda: w.evaluate(modes, Rq, horner=horner))
                            must_raise = abs(s) > P or Lm > ell_max or ell_min > abs(s)
                            n_lattice += 1
                            run.gap_case("lattice", ("evaluate", ell_min, ell_max, mp_max, s, Lm, horner), f"evaluate:{'must-raise' if must_raise else 'must-succeed'}|horner={horner}")
                            if horner:
                                guard_lines.append(f"gen Wigner_evaluate_ok {s} 0 {Lm} {P} {ell_min} {ell_max}")
                                guard_expect.append(("evaluate", inp, kind))
                            if must_raise and kind == "ok":
                                v("out-of-range-request-not-rejected", f"Wigner.evaluate[horner={horner}]", inp, "raise", "returned values")
                            elif not must_raise and kind == "raise":
                                v("in-range-request-raised", f"Wigner.evaluate[horner={horner}]", {**inp, "calc_equals_modes_range": (ell_min == 0 and ell_max == Lm)}, "values", repr(res))
                            elif kind == "ok" and ref_eval is not None:
                                if not (abs(complex(res) - complex(ref_eval)) <= 64 * (Lm + 2) ** 1.5 * EPS * scale):
                                    v("wrong-values", f"Wigner.evaluate[horner={horner}]", inp, complex(ref_eval), complex(res))
                            # rotate
                            kind, res = outcome(lambda: w.rotate(modes, Rq, horner=horner))
                            must_raise = P < ell_max or Lm > ell_max
                            must_succeed = (not must_raise) and ell_min <= abs(s)
                            n_lattice += 1
                            cls = "must-raise" if must_raise else ("must-succeed" if must_succeed else "correct-or-raise")
                            run.gap_case("lattice", ("rotate", ell_min, ell_max, mp_max, s, Lm, horner), f"rotate:{cls}|horner={horner}")
                            if horner:
                                guard_lines.append(f"gen Wigner_rotate_ok {P} {ell_max} 0 {Lm} {s}")
                                guard_expect.append(("rotate", inp, kind))
                            if must_raise and kind == "ok":
                                v("out-of-range-request-not-rejected", f"Wigner.rotate[horner={horner}]", inp, "raise", "returned values")
                            elif must_succeed and kind == "raise":
                                v("in-range-request-raised", f"Wigner.rotate[horner={horner}]", inp, "values", repr(res))
                            elif kind == "ok":
                                if not np.allclose(res.ndarray, ref_rot, rtol=0, atol=64 * (Lm + 2) ** 1.5 * EPS * max(float(np.max(np.abs(arr))), 1e-300)):
                                    v("wrong-values", f"Wigner.rotate[horner={horner}]", {**inp, "calc_ell_min_above_lowest_mode": ell_min > abs(s)}, "f.D of a generously sized calculator", "differs (silently wrong numbers)")
    run.notes["lattice_points"] = n_lattice
    # ---- guards extracted from the source (Gen) agree with the real methods' outcome class
    if rep is not None:
        out = run.driver(guard_lines)
        if out is not None:
            nb = 0
            for l, o, (name, inp, kind) in zip(guard_lines, out, guard_expect):
                run.corr_case("generated-guards-vs-outcome", l, name, {"line": l, "ok": o} if nb == 0 else None)
                # guard passes (1) but method raised later, or guard fails (0) but method returned -> guard model wrong
                if (o == "0" and kind == "ok") or (o == "1" and kind == "raise" and name in ("d", "D", "sYlm")):
                    nb += 1
                    if nb <= 3:
                        run.corr_break("corr:generated-guards", {"line": l, "guard_ok": o, "method": kind, "input": inp})
    # ---- out= of wrong size / dtype ; workspace too small ; constructor arguments
    w = spherical.Wigner(3)
    checks = [
        ("D-out-wrong-size", lambda: w.D(Rq, out=np.zeros(w.Dsize + 1, dtype=complex))),
        ("D-out-wrong-dtype", lambda: w.D(Rq, out=np.zeros(w.Dsize, dtype=float))),
        ("sYlm-out-wrong-size", lambda: w.sYlm(0, Rq, out=np.zeros(w.Ysize - 1, dtype=complex))),
        ("sYlm-out-wrong-dtype", lambda: w.sYlm(0, Rq, out=np.zeros(w.Ysize, dtype=np.complex64))),
        ("workspace-too-small-d", lambda: w.d(np.exp(0.3j), workspace=np.zeros(w.new_workspace().size - 1))),
        ("workspace-too-small-D", lambda: w.D(Rq, workspace=np.zeros(w.new_workspace().size - 1))),
        ("workspace-too-small-sYlm", lambda: w.sYlm(1, Rq, workspace=np.zeros(5))),
        ("workspace-too-small-evaluate", lambda: w.evaluate(modes_for(0, 3) if (0, 3) in modes_cache else helpers.make_modes(rng, 0, 3), Rq, workspace=np.zeros(5), horner=True)),
        ("workspace-too-small-rotate", lambda: w.rotate(helpers.make_modes(rng, 0, 3), Rq, workspace=np.zeros(5), horner=True)),
        ("Wigner-negative-ell_min", lambda: spherical.Wigner(3, -1)),
        ("Wigner-ell_min>ell_max", lambda: spherical.Wigner(3, 4)),
        ("Wigner-negative-ell_max", lambda: spherical.Wigner(-1)),
        ("Modes-length-fits-no-ell-range", lambda: spherical.Modes(np.zeros(10, dtype=complex), spin_weight=0)),
        ("Modes-length-mismatch-explicit", lambda: spherical.Modes(np.zeros(9, dtype=complex), spin_weight=0, ell_min=0, ell_max=3)),
        ("Modes-missing-spin", lambda: spherical.Modes(np.zeros(9, dtype=complex))),
        ("Modes-two-positional", lambda: spherical.Modes(np.zeros(9, dtype=complex), 0, 0)),
        ("Grid-too-small-for-spin", lambda: spherical.Grid(np.zeros((4, 4), dtype=complex), spin_weight=2)),
        ("Grid-missing-spin", lambda: spherical.Grid(np.zeros((5, 5), dtype=complex))),
        ("Grid-1d", lambda: spherical.Grid(np.zeros(5, dtype=complex), spin_weight=0)),
    ]
    for name, f in checks:
        kind, res = outcome(f)
        run.gap_case("must-raise-requests", name, "must-raise", {"request": name, "outcome": kind})
        if kind == "ok":
            v("out-of-range-request-not-rejected", name, {"request": name}, "raise", "returned a value")
    for size in range(0, 60):
        for ell_min in range(0, 4):
            perfect = any(size == (L + 1) ** 2 - ell_min ** 2 for L in range(ell_min, 12))
            kind, res = outcome(lambda: spherical.Modes(np.zeros(size, dtype=complex), spin_weight=0, ell_min=ell_min))
            run.gap_case("Modes-size-deduction", (size, ell_min), "perfect" if perfect else "imperfect")
            if size > 0 and perfect != (kind == "ok"):
                v("Modes-size-deduction", "Modes.__new__", {"size": size, "ell_min": ell_min}, "accept exactly perfect sizes", kind)
    # ---- objects with a history: deriving other objects from a Modes (truncation, views, copies, conjugates, in-place changes
    # of the DERIVED object) must leave the parent a consistent object: same label, same answers, same rejections
    import copy as _copy
    import pickle as _pickle
    for s_ in ((0, -2) if quick else (-2, -1, 0, 1, 3)):
        Lp = 6
        m = helpers.make_modes(rng, s_, Lp, (2,))
        w6, w2 = spherical.Wigner(Lp), spherical.Wigner(max(abs(s_), 2))
        ref = {h: np.array(w6.evaluate(m, Rq, horner=h)) for h in (True, False)}
        data0 = m.ndarray.copy()
        derivations = [("truncate_ell", lambda: m.truncate_ell(max(abs(s_), 2))), ("slice", lambda: m[0]), ("copy-then-inplace-conjugate", lambda: m.copy().conjugate(inplace=True)),
                       ("bar", lambda: m.bar), ("np.conjugate", lambda: np.conjugate(m)),
                       ("product", lambda: m * m), ("copy.copy-then-truncate", lambda: _copy.copy(m).truncate_ell(max(abs(s_), 2))), ("pickle", lambda: _pickle.loads(_pickle.dumps(m))),
                       ("sum", lambda: m + m), ("slice-then-truncate", lambda: m[1].truncate_ell(max(abs(s_), 2)))]
        for dname, dfn in derivations:
            inp = {"s": s_, "ell_max": Lp, "lead": [2], "derivation": dname}
            run.gap_case("parent-after-derivation", (s_, dname), dname)
            try:
                derived = dfn()
            except Exception as e:
                v("in-range-request-raised", f"Modes.{dname}", inp, "a Modes object", repr(e))
                continue
            if m.ell_max != Lp or m.spin_weight != s_ or m.shape != data0.shape or not np.array_equal(m.ndarray, data0):
                v("derivation-altered-parent", f"Modes.{dname}", inp, f"parent unchanged (ell_max={Lp}, s={s_})", f"ell_max={m.ell_max}, s={m.spin_weight}, data {'equal' if np.array_equal(m.ndarray, data0) else 'changed'}")
                m._metadata["ell_max"], m._metadata["spin_weight"] = Lp, s_
                continue
            for h in (True, False):
                kind, res = outcome(lambda: w6.evaluate(m, Rq, horner=h))
                if kind != "ok" or not np.allclose(np.asarray(res), ref[h], rtol=1e-13, atol=1e-13):
                    v("wrong-values", f"Wigner.evaluate[horner={h}] after {dname}", inp, "same values as before the derivation", "raised" if kind != "ok" else "differs")
                kind, res = outcome(lambda: w2.evaluate(m, Rq, horner=h))
                if kind == "ok":
                    v("out-of-range-request-not-rejected", f"Wigner.evaluate[horner={h}] after {dname}", {**inp, "calculator_ell_max": w2.ell_max}, "raise (modes exceed the calculator)", "returned values")
    run.assumptions += ["reference predicate written from the docstrings (see module text); values compared with Wigner(LM+2)"]


def replay(body):
    import spherical
    import quaternionic
    inp = body["input"]
    print(body["cause"], body["site"], inp, "expected:", body["expected"], "recorded:", body["got"])
    return 0
