import SphericalVerif.Lemmas.DDef
/-! DDef — the object-level model of `Wigner.D` / `Wigner.d` computes the DOCUMENTED matrices
    (docs/WignerDMatrices.md of the library), in exact arithmetic.

    Property theorems only; helpers live in `Lemmas/DDef.lean`.  Everything is about the hand-written models
    `Model.eulerPhases`, `Model.runH`, `Model.cpowers`, `Model.objD`, `Model.objd` (validated bit for bit against
    the compiled kernels at `Float`) run at the exact scalar `α := ℝ`, for

      * EVERY real unit quaternion R = (R0, R1, R2, R3) = (w, x, y, z) — both degenerate branches of
        `to_euler_phases` included (R0² + R3² = 0, i.e. `sqrta = 0`, and R1² + R2² = 0);
      * every lawful workspace memory `μ` and every initial content `st` of it;
      * every calculator size `L = ell_max ≥ ℓ`;
      * every `imsqrt` (model of `np.sqrt(z).imag`) with `2·imsqrt(w)² = 1 − Re w` on the unit circle.

    With R_a = w + i z = `Ra R0 R3` and R_b = y + i x = `Rb R1 R2`, the documented definition is

      D^ℓ_{m',m}(R) = √[(ℓ+m)!(ℓ−m)!/((ℓ+m')!(ℓ−m')!)] Σ_ρ C(ℓ+m',ρ) C(ℓ−m',ℓ−ρ−m) (−1)^ρ
                        R_a^{ℓ+m'−ρ} conj(R_a)^{ℓ−ρ−m} R_b^{ρ−m'+m} conj(R_b)^ρ        (`docD`).

    Results are read in Mathlib's `ℂ` through `Horner.toC w = ⟨w.re, w.im⟩`; `Horner.pw z m` is z^m for m ≥ 0 and
    conj(z)^{−m} for m < 0.

    What is proved: ℓ = 0 and ℓ = 1 against the documented sum for every unit quaternion (this pins every sign,
    phase and index convention: the ϵ factors, the roles of z_α and z_γ, the conjugations for negative indices, the
    wedge folding); and, for EVERY ℓ ≤ ell_max, the three one-parameter families where the H recursion collapses:
    the identity, rotations about z (β = 0: `sqrtb = 0` branch) and rotations by π about an axis in the x-y plane
    (β = π: `sqrta = 0` branch).  Agreement with `docD ℓ` for every ℓ and every unit quaternion is proved later, in `Props/DAll.lean` (`DAll.D_all`), on top of `Props/DocD.lean`. -/
noncomputable section
namespace DDef
open Model Spec Horner
open scoped ComplexConjugate

/-! ### 1. the Euler phases -/

/-- For a unit quaternion the three phases returned by `to_euler_phases` have unit modulus, and
    `z[1] = exp(iβ) = (a − b) + 2√a√b i` with a = R0² + R3², b = R1² + R2²: cos β = a − b, sin β = 2√(ab) ≥ 0. -/
theorem euler_unit (R0 R1 R2 R3 : ℝ) (hR : R0 ^ 2 + R1 ^ 2 + R2 ^ 2 + R3 ^ 2 = 1) :
    let z := eulerPhases R0 R1 R2 R3
    (z.1.re ^ 2 + z.1.im ^ 2 = 1) ∧ (z.2.1.re ^ 2 + z.2.1.im ^ 2 = 1) ∧ (z.2.2.re ^ 2 + z.2.2.im ^ 2 = 1) ∧
    z.2.1 = ⟨(R0 * R0 + R3 * R3) - (R1 * R1 + R2 * R2),
             2 * Real.sqrt (R0 * R0 + R3 * R3) * Real.sqrt (R1 * R1 + R2 * R2)⟩ ∧
    0 ≤ z.2.1.im := by
  simp only []
  rw [eulerPhases_unit R0 R1 R2 R3 hR]
  have up := (zpR_spec R0 R3).2
  have um := (zmR_spec R1 R2).2
  refine ⟨mul_unit _ _ up um, cos_sin_unit R0 R1 R2 R3 hR, mul_unit _ _ up (conj_unit _ um), rfl, ?_⟩
  show 0 ≤ sinB R0 R1 R2 R3
  unfold sinB
  positivity

/-- The exact relation between the phases and R_a, R_b, valid in EVERY branch:
    z_α = Zp·Zm and z_γ = Zp·conj(Zm) with unit-modulus Zp, Zm such that √a·Zp = R_a and √b·Zm = conj(R_b);
    in the degenerate branches the undetermined factor is set to 1 (a = 0 ⇒ Zp = 1, b = 0 ⇒ Zm = 1). -/
theorem euler_relations (R0 R1 R2 R3 : ℝ) :
    ∃ Zp Zm : ℂ, Zp * conj Zp = 1 ∧ Zm * conj Zm = 1 ∧
      toC (eulerPhases R0 R1 R2 R3).1 = Zp * Zm ∧ toC (eulerPhases R0 R1 R2 R3).2.2 = Zp * conj Zm ∧
      (Real.sqrt (R0 * R0 + R3 * R3) : ℂ) * Zp = Ra R0 R3 ∧
      (Real.sqrt (R1 * R1 + R2 * R2) : ℂ) * Zm = conj (Rb R1 R2) ∧
      (R0 * R0 + R3 * R3 = 0 → Zp = 1) ∧ (R1 * R1 + R2 * R2 = 0 → Zm = 1) := by
  refine ⟨toC (zpR R0 R3), toC (zmR R1 R2), unit_mul_conj _ (zpR_spec R0 R3).2,
    unit_mul_conj _ (zmR_spec R1 R2).2, ?_, ?_, (zpR_spec R0 R3).1, ?_, ?_, ?_⟩
  · rw [eulerPhases_eq, toC_mul]
  · rw [eulerPhases_eq, toC_mul, toC_conj]
  · rw [(zmR_spec R1 R2).1]; apply Complex.ext <;> simp [Rb]
  · intro h; rw [zpR_degenerate R0 R3 h]; apply Complex.ext <;> simp
  · intro h; rw [zmR_degenerate R1 R2 h]; apply Complex.ext <;> simp

/-- generic branch (a, b > 0): z_α = R_a conj(R_b)/√(ab), z_γ = R_a R_b/√(ab) -/
theorem euler_generic (R0 R1 R2 R3 : ℝ) (ha : 0 < R0 * R0 + R3 * R3) (hb : 0 < R1 * R1 + R2 * R2) :
    toC (eulerPhases R0 R1 R2 R3).1
      = Ra R0 R3 * conj (Rb R1 R2) / ((Real.sqrt (R0 * R0 + R3 * R3) : ℂ) * (Real.sqrt (R1 * R1 + R2 * R2) : ℂ)) ∧
    toC (eulerPhases R0 R1 R2 R3).2.2
      = Ra R0 R3 * Rb R1 R2 / ((Real.sqrt (R0 * R0 + R3 * R3) : ℂ) * (Real.sqrt (R1 * R1 + R2 * R2) : ℂ)) := by
  obtain ⟨Zp, Zm, _, _, h0, h2, hA, hB, _, _⟩ := euler_relations R0 R1 R2 R3
  have hsa : (Real.sqrt (R0 * R0 + R3 * R3) : ℂ) ≠ 0 := by
    rw [Ne, Complex.ofReal_eq_zero]; exact (Real.sqrt_pos.mpr ha).ne'
  have hsb : (Real.sqrt (R1 * R1 + R2 * R2) : ℂ) ≠ 0 := by
    rw [Ne, Complex.ofReal_eq_zero]; exact (Real.sqrt_pos.mpr hb).ne'
  have hB' : Rb R1 R2 = (Real.sqrt (R1 * R1 + R2 * R2) : ℂ) * conj Zm := by
    have := congrArg conj hB
    rw [map_mul, Complex.conj_ofReal, Complex.conj_conj] at this
    exact this.symm
  rw [h0, h2, ← hA, ← hB, hB']
  constructor
  · rw [eq_div_iff (mul_ne_zero hsa hsb)]; ring
  · rw [eq_div_iff (mul_ne_zero hsa hsb)]; ring

/-! ### 2. ℓ = 0 -/

section
variable {μ : Type} [Mem μ ℝ] [LawfulMem μ ℝ]

/-- D⁰₀₀(R) = 1 -/
theorem D_ell0 (L : ℕ) (st : μ) (R0 R1 R2 R3 : ℝ) (hR : R0 ^ 2 + R1 ^ 2 + R2 ^ 2 + R3 ^ 2 = 1)
    (imsqrt : Cx ℝ → ℝ) (hs : ∀ w : Cx ℝ, w.re ^ 2 + w.im ^ 2 = 1 → 2 * (imsqrt w) ^ 2 = 1 - w.re) :
    toC (objD L st R0 R1 R2 R3 imsqrt 0 0 0) = 1 ∧
    toC (objD L st R0 R1 R2 R3 imsqrt 0 0 0) = docD 0 (Ra R0 R3) (Rb R1 R2) 0 0 := by
  rw [docD_zero]
  exact ⟨objD_zero L st R0 R1 R2 R3 hR imsqrt hs, objD_zero L st R0 R1 R2 R3 hR imsqrt hs⟩

/-! ### 3. ℓ = 1 -/

/-- Every entry of D¹(R) computed by the model equals the documented sum. -/
theorem D_ell1 (L : ℕ) (hL : 1 ≤ L) (st : μ) (R0 R1 R2 R3 : ℝ) (hR : R0 ^ 2 + R1 ^ 2 + R2 ^ 2 + R3 ^ 2 = 1)
    (imsqrt : Cx ℝ → ℝ) (hs : ∀ w : Cx ℝ, w.re ^ 2 + w.im ^ 2 = 1 → 2 * (imsqrt w) ^ 2 = 1 - w.re)
    (mp m : ℤ) (hmp : mp.natAbs ≤ 1) (hm : m.natAbs ≤ 1) :
    toC (objD L st R0 R1 R2 R3 imsqrt 1 mp m) = docD 1 (Ra R0 R3) (Rb R1 R2) mp m := by
  rw [docD_one _ _ mp m hmp hm]
  exact objD_one_eq_table L st R0 R1 R2 R3 hR imsqrt hs hL mp m hmp hm

/-- The nine entries written out (rows m' = −1, 0, 1; columns m = −1, 0, 1), A = R_a, B = R_b:
    ```
      conj(A)²          √2 conj(A) B        B²
     −√2 conj(A)conj(B)  |A|² − |B|²        √2 A B
      conj(B)²         −√2 A conj(B)        A²
    ``` -/
theorem D_ell1_entries (L : ℕ) (hL : 1 ≤ L) (st : μ) (R0 R1 R2 R3 : ℝ)
    (hR : R0 ^ 2 + R1 ^ 2 + R2 ^ 2 + R3 ^ 2 = 1)
    (imsqrt : Cx ℝ → ℝ) (hs : ∀ w : Cx ℝ, w.re ^ 2 + w.im ^ 2 = 1 → 2 * (imsqrt w) ^ 2 = 1 - w.re) :
    let D := fun mp m => toC (objD L st R0 R1 R2 R3 imsqrt 1 mp m)
    let A := Ra R0 R3
    let B := Rb R1 R2
    D (-1) (-1) = conj A ^ 2 ∧ D (-1) 0 = (Real.sqrt 2 : ℂ) * conj A * B ∧ D (-1) 1 = B ^ 2 ∧
    D 0 (-1) = -(Real.sqrt 2 : ℂ) * conj A * conj B ∧ D 0 0 = A * conj A - B * conj B ∧
    D 0 1 = (Real.sqrt 2 : ℂ) * A * B ∧
    D 1 (-1) = conj B ^ 2 ∧ D 1 0 = -(Real.sqrt 2 : ℂ) * A * conj B ∧ D 1 1 = A ^ 2 :=
  ⟨D1_m1_m1 L st R0 R1 R2 R3 hR imsqrt hs hL, D1_m1_z L st R0 R1 R2 R3 hR imsqrt hs hL,
   D1_m1_p1 L st R0 R1 R2 R3 hR imsqrt hs hL, D1_z_m1 L st R0 R1 R2 R3 hR imsqrt hs hL,
   D1_z_z L st R0 R1 R2 R3 hR imsqrt hs hL, D1_z_p1 L st R0 R1 R2 R3 hR imsqrt hs hL,
   D1_p1_m1 L st R0 R1 R2 R3 hR imsqrt hs hL, D1_p1_z L st R0 R1 R2 R3 hR imsqrt hs hL,
   D1_p1_p1 L st R0 R1 R2 R3 hR imsqrt hs hL⟩

/-! ### 4. the real d¹(β) -/

/-- `Wigner.d(exp iβ)` for ℓ = 1, with c = cos β, s = sin β (only c² + s² = 1 is used; s may be negative):
    ```
      (1+c)/2    s/√2    (1−c)/2
      −s/√2       c       s/√2
      (1−c)/2   −s/√2    (1+c)/2
    ```
    (rows m' = −1, 0, 1; columns m = −1, 0, 1), which is D¹ of the rotor (cos β/2, 0, sin β/2, 0). -/
theorem d_ell1 (L : ℕ) (hL : 1 ≤ L) (st : μ) (c s : ℝ) (hcs : c ^ 2 + s ^ 2 = 1) :
    let d := fun mp m => objd L st c s 1 mp m
    d (-1) (-1) = (1 + c) / 2 ∧ d (-1) 0 = s / Real.sqrt 2 ∧ d (-1) 1 = (1 - c) / 2 ∧
    d 0 (-1) = -(s / Real.sqrt 2) ∧ d 0 0 = c ∧ d 0 1 = s / Real.sqrt 2 ∧
    d 1 (-1) = (1 - c) / 2 ∧ d 1 0 = -(s / Real.sqrt 2) ∧ d 1 1 = (1 + c) / 2 := by
  have h := fun mp m a b => objd_one_eq_table L st c s hcs hL mp m a b
  simp only []
  refine ⟨?_, ?_, ?_, ?_, ?_, ?_, ?_, ?_, ?_⟩ <;> (rw [h _ _ (by decide) (by decide)]; simp [d1doc])

/-- consistency of the two tables: with c = x² − y², s = 2xy (x = cos β/2, y = sin β/2) the d table is the documented
    D table at R_a = x, R_b = y -/
theorem d_ell1_is_D (x y : ℝ) (h : x ^ 2 + y ^ 2 = 1) (mp m : ℤ) (hmp : mp.natAbs ≤ 1) (hm : m.natAbs ≤ 1) :
    ((d1doc (x ^ 2 - y ^ 2) (2 * x * y) mp m : ℝ) : ℂ) = docD 1 (x : ℂ) (y : ℂ) mp m := by
  rw [docD_one _ _ mp m hmp hm]
  exact d1doc_eq_D1doc x y h mp m hmp hm

/-! ### 5. every ℓ: the identity, rotations about z, rotations by π about an axis in the x-y plane -/

/-- `Wigner.D` of the identity rotor is the identity matrix, for every ℓ ≤ ell_max. -/
theorem D_identity (L : ℕ) (st : μ) (imsqrt : Cx ℝ → ℝ)
    (hs : ∀ w : Cx ℝ, w.re ^ 2 + w.im ^ 2 = 1 → 2 * (imsqrt w) ^ 2 = 1 - w.re)
    (ell : ℕ) (hl : ell ≤ L) (mp m : ℤ) (hmp : mp.natAbs ≤ ell) (hm : m.natAbs ≤ ell) :
    toC (objD L st 1 0 0 0 imsqrt ell mp m) = if mp = m then 1 else 0 :=
  objD_identity L st imsqrt hs ell hl mp m hmp hm

/-- `Wigner.d` at β = 0 is the identity matrix, for every ℓ ≤ ell_max. -/
theorem d_identity (L : ℕ) (st : μ) (ell : ℕ) (hl : ell ≤ L) (mp m : ℤ)
    (hmp : mp.natAbs ≤ ell) (hm : m.natAbs ≤ ell) :
    objd L st (1 : ℝ) 0 ell mp m = if mp = m then 1 else 0 :=
  objd_identity L st ell hl mp m hmp hm

/-- Rotation about z, rotor (R0, 0, 0, R3) (the `sqrtb = 0` branch): D^ℓ_{m',m} = δ_{m',m} R_a^{2m}
    — which is what the documented sum gives (only ρ = 0 survives) — for every ℓ ≤ ell_max. -/
theorem D_zrot (L : ℕ) (st : μ) (R0 R3 : ℝ) (hR : R0 ^ 2 + R3 ^ 2 = 1) (imsqrt : Cx ℝ → ℝ)
    (hs : ∀ w : Cx ℝ, w.re ^ 2 + w.im ^ 2 = 1 → 2 * (imsqrt w) ^ 2 = 1 - w.re)
    (ell : ℕ) (hl : ell ≤ L) (mp m : ℤ) (hmp : mp.natAbs ≤ ell) (hm : m.natAbs ≤ ell) :
    toC (objD L st R0 0 0 R3 imsqrt ell mp m) = if mp = m then pw (Ra R0 R3) m * pw (Ra R0 R3) m else 0 :=
  objD_zrot L st R0 R3 hR imsqrt hs ell hl mp m hmp hm

/-- Rotation by π about an axis in the x-y plane, rotor (0, R1, R2, 0) (the `sqrta = 0` branch):
    D^ℓ_{m',m} = δ_{m',−m} (−1)^{ℓ+m} R_b^{2m} — which is what the documented sum gives (only ρ = ℓ+m' survives) —
    for every ℓ ≤ ell_max. -/
theorem D_pi (L : ℕ) (st : μ) (R1 R2 : ℝ) (hR : R1 ^ 2 + R2 ^ 2 = 1) (imsqrt : Cx ℝ → ℝ)
    (hs : ∀ w : Cx ℝ, w.re ^ 2 + w.im ^ 2 = 1 → 2 * (imsqrt w) ^ 2 = 1 - w.re)
    (ell : ℕ) (hl : ell ≤ L) (mp m : ℤ) (hmp : mp.natAbs ≤ ell) (hm : m.natAbs ≤ ell) :
    toC (objD L st 0 R1 R2 0 imsqrt ell mp m) =
      if mp = -m then (-1) ^ (ell + m.natAbs) * (pw (Rb R1 R2) m * pw (Rb R1 R2) m) else 0 :=
  objD_pi L st R1 R2 hR imsqrt hs ell hl mp m hmp hm

/-- the two special cases exactly as docs/WignerDMatrices.md prints them (integer powers of a unit-modulus number):
    eq. (D_RbApprox0)  D^ℓ_{m',m} = R_a^{2m} δ_{m',m}   and   eq. (D_RaApprox0)  D^ℓ_{m',m} = (−1)^{ℓ+m} R_b^{2m} δ_{−m',m} -/
theorem D_special_cases_doc (L : ℕ) (st : μ) (x y : ℝ) (hR : x ^ 2 + y ^ 2 = 1) (imsqrt : Cx ℝ → ℝ)
    (hs : ∀ w : Cx ℝ, w.re ^ 2 + w.im ^ 2 = 1 → 2 * (imsqrt w) ^ 2 = 1 - w.re)
    (ell : ℕ) (hl : ell ≤ L) (mp m : ℤ) (hmp : mp.natAbs ≤ ell) (hm : m.natAbs ≤ ell) :
    toC (objD L st x 0 0 y imsqrt ell mp m) = (if mp = m then Ra x y ^ (2 * m) else 0) ∧
    toC (objD L st 0 x y 0 imsqrt ell mp m) = (if -mp = m then (-1) ^ ((ell : ℤ) + m) * Rb x y ^ (2 * m) else 0) := by
  have na : Complex.normSq (Ra x y) = 1 := by rw [Complex.normSq_apply]; simp only [Ra]; linarith
  have nb : Complex.normSq (Rb x y) = 1 := by rw [Complex.normSq_apply]; simp only [Rb]; linarith
  have ha : Ra x y ≠ 0 := by intro h; rw [h] at na; simp at na
  have hb : Rb x y ≠ 0 := by intro h; rw [h] at nb; simp at nb
  constructor
  · rw [D_zrot L st x y hR imsqrt hs ell hl mp m hmp hm, pw_eq_zpow na, ← zpow_add₀ ha, two_mul]
  · rw [D_pi L st x y hR imsqrt hs ell hl mp m hmp hm, pw_eq_zpow nb, ← zpow_add₀ hb, two_mul]
    by_cases h : mp = -m
    · rw [if_pos h, if_pos (by omega)]
      congr 1
      rw [zpow_add₀ (by norm_num : (-1 : ℂ) ≠ 0), zpow_natCast, pow_add, neg_one_pow_natAbs]
    · rw [if_neg h, if_neg (by omega)]

/-- `Wigner.d` at β = π: d^ℓ_{m',m} = δ_{m',−m} (−1)^{ℓ+m}, for every ℓ ≤ ell_max. -/
theorem d_pi (L : ℕ) (st : μ) (ell : ℕ) (hl : ell ≤ L) (mp m : ℤ)
    (hmp : mp.natAbs ≤ ell) (hm : m.natAbs ≤ ell) :
    objd L st (-1 : ℝ) 0 ell mp m = if mp = -m then (-1) ^ (ell + m.natAbs) else 0 :=
  objd_pi L st ell hl mp m hmp hm

/-- The H wedge itself at the two poles, for every n (no size, no memory):
    H(n, m', m)(β = 0) = (−1)^m δ_{m',m} and H(n, m', m)(β = π) = (−1)^{n+m} δ_{m',−m}. -/
theorem H_poles (n : ℕ) (mp : ℤ) (m : ℕ) (h1 : mp.natAbs ≤ m) (h2 : m ≤ n) :
    valW (1 : ℝ) 0 n mp m = (if mp = (m : ℤ) then (-1) ^ m else 0) ∧
    valW (-1 : ℝ) 0 n mp m = (if mp = -(m : ℤ) then (-1) ^ (n + m) else 0) :=
  ⟨valW_id n mp m h1 h2, valW_pi n mp m h1 h2⟩

end

/-! ### instances: the hypotheses are satisfiable and the statements have content -/

/-- (1/2, 1/2, 1/2, 1/2), workspace initially all 7's, ell_max = 2: D¹_{1,−1} = conj(R_b)² = −i/2 -/
example : toC (objD 2 (fun _ : Loc => (7 : ℝ)) (1/2) (1/2) (1/2) (1/2) imsqrtR 1 1 (-1)) = -Complex.I / 2 := by
  have h := (D_ell1_entries 2 (by decide) (fun _ : Loc => (7 : ℝ)) (1/2) (1/2) (1/2) (1/2) (by norm_num) imsqrtR
    imsqrtR_spec).2.2.2.2.2.2.1
  simp only [] at h
  rw [h]
  apply Complex.ext
  · simp [Rb, pow_two]
  · simp [Rb, pow_two]; norm_num

/-- (3/5, 0, 4/5, 0): a rotation about y; D¹_{0,0} = |R_a|² − |R_b|² = 9/25 − 16/25 = −7/25 = cos β -/
example : toC (objD 3 (fun _ : Loc => (0 : ℝ)) (3/5) 0 (4/5) 0 imsqrtR 1 0 0) = (-7/25 : ℝ) := by
  have h := (D_ell1_entries 3 (by decide) (fun _ : Loc => (0 : ℝ)) (3/5) 0 (4/5) 0 (by norm_num) imsqrtR
    imsqrtR_spec).2.2.2.2.1
  simp only [] at h
  rw [h]
  apply Complex.ext
  · simp [Ra, Rb]; norm_num
  · simp [Ra, Rb]

/-- the same entry through the documented sum -/
example : toC (objD 3 (fun _ : Loc => (0 : ℝ)) (3/5) 0 (4/5) 0 imsqrtR 1 0 0)
    = docD 1 (Ra (3/5) 0) (Rb 0 (4/5)) 0 0 :=
  D_ell1 3 (by decide) _ (3/5) 0 (4/5) 0 (by norm_num) imsqrtR imsqrtR_spec 0 0 (by decide) (by decide)

example : toC (objD 3 (fun _ : Loc => (0 : ℝ)) (1/2) (1/2) (1/2) (1/2) imsqrtR 0 0 0) = 1 :=
  (D_ell0 3 _ (1/2) (1/2) (1/2) (1/2) (by norm_num) imsqrtR imsqrtR_spec).1

/-- the phases of (1/2, 1/2, 1/2, 1/2): β = π/2 -/
example : (eulerPhases (1/2 : ℝ) (1/2) (1/2) (1/2)).2.1.re = 0 := by
  have h := (euler_unit (1/2) (1/2) (1/2) (1/2) (by norm_num)).2.2.2.1
  rw [h]; norm_num

/-- d¹ at β with (cos β, sin β) = (3/5, −4/5): negative sin β is allowed -/
example : objd 1 (fun _ : Loc => (0 : ℝ)) (3/5 : ℝ) (-4/5) 1 1 1 = 4/5 := by
  have h := (d_ell1 1 (by decide) (fun _ : Loc => (0 : ℝ)) (3/5) (-4/5) (by norm_num)).2.2.2.2.2.2.2.2
  simp only [] at h
  rw [h]; norm_num

/-- ℓ = 5 on a size-7 calculator: identity rotor, a diagonal and an off-diagonal entry -/
example : toC (objD 7 (fun _ : Loc => (3 : ℝ)) 1 0 0 0 imsqrtR 5 (-4) (-4)) = 1 ∧
    toC (objD 7 (fun _ : Loc => (3 : ℝ)) 1 0 0 0 imsqrtR 5 (-4) 2) = 0 :=
  ⟨by rw [D_identity 7 _ imsqrtR imsqrtR_spec 5 (by decide) (-4) (-4) (by decide) (by decide)]; simp,
   by rw [D_identity 7 _ imsqrtR imsqrtR_spec 5 (by decide) (-4) 2 (by decide) (by decide)]; simp⟩

/-- rotor (3/5, 0, 0, 4/5), ℓ = 2, m' = m = −1: conj(R_a)² -/
example : toC (objD 2 (fun _ : Loc => (0 : ℝ)) (3/5) 0 0 (4/5) imsqrtR 2 (-1) (-1)) = conj (Ra (3/5) (4/5)) ^ 2 := by
  rw [D_zrot 2 _ (3/5) (4/5) (by norm_num) imsqrtR imsqrtR_spec 2 (by decide) (-1) (-1) (by decide) (by decide)]
  simp [pw, pow_two]

/-- rotor (0, 3/5, 4/5, 0) (`sqrta = 0`), ℓ = 2, (m', m) = (−1, 1): (−1)³ R_b² -/
example : toC (objD 2 (fun _ : Loc => (0 : ℝ)) 0 (3/5) (4/5) 0 imsqrtR 2 (-1) 1) = -(Rb (3/5) (4/5)) ^ 2 := by
  rw [D_pi 2 _ (3/5) (4/5) (by norm_num) imsqrtR imsqrtR_spec 2 (by decide) (-1) 1 (by decide) (by decide)]
  simp [pw, pow_two]
  norm_num

end DDef
end
