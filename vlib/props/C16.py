"""C16 — Grid arithmetic is pointwise with correct spin-weight bookkeeping.

Obligations: Props/C16.lean (model of the ufunc dispatcher: spin rule per ufunc for all spins, rejections, metadata fresh).
Gap/search: every allow-listed ufunc in binary / reflected / in-place / out= / method form on real Grid objects vs the
same numpy operation on the raw arrays; spin of the result; rejections; metadata identity."""
import itertools

import numpy as np

from . import common


def mkgrid(rng, s, lead=(), nt=None, nph=None, **kw):
    import spherical
    nt = nt or 2 * abs(s) + 1 + rng.randint(0, 3)
    nph = nph or 2 * abs(s) + 1 + rng.randint(0, 3)
    nprng = np.random.default_rng(rng.randint(0, 2 ** 31))
    a = nprng.normal(size=lead + (nt, nph)) + 1j * nprng.normal(size=lead + (nt, nph))
    return spherical.Grid(a, spin_weight=s, **kw)


def rng_np(rng, shape):
    nprng = np.random.default_rng(rng.randint(0, 2 ** 31))
    return nprng.normal(size=shape) + 1j * nprng.normal(size=shape)


def check(run):
    import spherical
    quick = run.tier == "quick"
    run.regenerate()
    run.lean_props(common.modules_for("C16"))
    from .. import glue_grid
    run.attempt("corr:glue_grid.corr_dispatch", glue_grid.corr_dispatch, run, quick)   # Lean model of the dispatcher vs the real class, op by op
    rng = run.rng
    Grid = spherical.Grid

    def v(cause, site, inp, exp, got):
        run.violation(cause, site, inp, exp, got)

    def expect_grid(site, inp, r, spin, values, operands):
        if not isinstance(r, Grid):
            v("result-not-a-Grid", site, inp, "Grid", type(r).__name__)
            return
        if r.spin_weight != spin:
            v("wrong-spin-weight", site, inp, spin, r.spin_weight)
        ra = np.asarray(r.view(np.ndarray))
        if ra.shape != values.shape or not np.array_equal(ra, values, equal_nan=True):
            v("values-differ-from-numpy", site, inp, "same numpy operation on the raw arrays", "differs")
        for o in operands:
            if isinstance(o, Grid) and o is not r and r._metadata is o._metadata:
                v("result-shares-metadata-dict", site, inp, "fresh dict", "shared with operand")

    # grids of exactly the minimal size 2|s|+1 (for the operand and for the RESULT's spin weight) are valid
    for s1 in range(-3, 4):
        n1 = 2 * abs(s1) + 1
        try:
            g = Grid(np.ones((n1, n1), dtype=complex), spin_weight=s1)
            run.gap_case("minimal-size", (s1, "construct"), "minimal")
            for name, op, sp in (("conjugate", lambda: np.conjugate(g), -s1), ("g+g", lambda: g + g, s1), ("negative", lambda: -g, s1), ("reciprocal", lambda: np.reciprocal(g), -s1)):
                r = op()
                if not isinstance(r, Grid) or r.spin_weight != sp:
                    v("wrong-spin-weight", f"Grid.{name}[minimal-size]", {"s": s1, "grid": [n1, n1]}, sp, getattr(r, "spin_weight", None))
        except Exception as e:
            v("supported-operation-raised", "Grid[minimal-size]", {"s": s1, "grid": [n1, n1]}, "Grid", repr(e))
        for s2 in range(-3, 4):
            n2 = 2 * abs(s1 + s2) + 1
            if n2 < max(2 * abs(s1) + 1, 2 * abs(s2) + 1):
                continue
            try:
                ga = Grid(np.ones((n2, n2), dtype=complex), spin_weight=s1)
                gb = Grid(np.full((n2, n2), 2.0 + 0j), spin_weight=s2)
                r = ga * gb
                run.gap_case("minimal-size", (s1, s2, "product"), "minimal-result")
                if not isinstance(r, Grid) or r.spin_weight != s1 + s2:
                    v("wrong-spin-weight", "Grid.multiply[minimal-size result]", {"s1": s1, "s2": s2, "grid": [n2, n2]}, s1 + s2, getattr(r, "spin_weight", None))
            except Exception as e:
                v("supported-operation-raised", "Grid.multiply[minimal-size result]", {"s1": s1, "s2": s2, "grid": [n2, n2]}, f"Grid spin {s1 + s2}", repr(e))
    spins = list(range(-3, 4))
    pairs = list(itertools.product(spins, spins))
    if quick:
        pairs = rng.sample(pairs, 16) + [(0, 0), (2, 2), (-1, -1), (2, -2)]
    for lead in [(), (2,)]:
        for (s1, s2) in pairs:
            nt = 2 * max(abs(s1), abs(s2), abs(s1 + s2), abs(s1 - s2)) + 1 + rng.randint(0, 2)
            nph = nt + rng.randint(0, 2)
            try:
                g1 = mkgrid(rng, s1, lead, nt, nph, extra="meta1")
                g2 = mkgrid(rng, s2, lead if rng.random() < 0.7 else (), nt, nph)
            except Exception as e:
                v("supported-operation-raised", "Grid.__new__", {"s1": s1, "s2": s2, "grid": [nt, nph]}, "Grid", repr(e))
                continue
            a1, a2 = g1.view(np.ndarray).copy(), g2.view(np.ndarray).copy()
            inp = {"s1": s1, "s2": s2, "lead": list(lead), "grid": [nt, nph]}
            binops = [("multiply", np.multiply, s1 + s2), ("divide", np.divide, s1 - s2), ("true_divide", np.true_divide, s1 - s2)]
            for name, uf, sp in binops:
                for form in ("ufunc", "operator", "method", "out=", "in-place", "out=second-operand"):
                    site = f"Grid.{name}[{form}]"
                    want = uf(a1, a2)
                    try:
                        if form == "ufunc":
                            r = uf(g1, g2)
                        elif form == "operator":
                            r = (g1 * g2) if name == "multiply" else (g1 / g2)
                        elif form == "method":
                            r = g1.multiply(g2) if name == "multiply" else g1.divide(g2)
                        elif form == "out=":
                            o = Grid(np.zeros(np.broadcast_shapes(a1.shape, a2.shape), dtype=complex), spin_weight=0) if abs(0) >= 0 else None
                            r = uf(g1, g2, out=o)
                            if r is not o and not np.shares_memory(r, o):
                                v("out-not-returned", site, inp, "out", "other array")
                        elif form == "out=second-operand":
                            if a2.shape != np.broadcast_shapes(a1.shape, a2.shape):
                                continue
                            h2 = g2.copy()
                            r = uf(g1, h2, out=h2)
                            if h2.spin_weight != sp:
                                v("wrong-spin-weight", site, inp, sp, h2.spin_weight)
                        else:
                            if a1.shape != np.broadcast_shapes(a1.shape, a2.shape):
                                continue
                            h = g1.copy()
                            if name == "multiply":
                                h *= g2
                            else:
                                h /= g2
                            r = h
                    except Exception as e:
                        v("supported-operation-raised", site, inp, f"Grid spin {sp}", repr(e))
                        continue
                    run.gap_case("binary-ufuncs", (name, form, s1, s2, lead), f"{name}|{form}", {**inp, "op": site})
                    expect_grid(site, inp, r, sp, want, (g1, g2))
            for name, uf in (("add", np.add), ("subtract", np.subtract)):
                for form in ("ufunc", "operator", "method", "in-place"):
                    site = f"Grid.{name}[{form}]"
                    def do():
                        if form == "ufunc":
                            return uf(g1, g2)
                        if form == "operator":
                            return (g1 + g2) if name == "add" else (g1 - g2)
                        if form == "method":
                            return g1.add(g2) if name == "add" else g1.subtract(g2)
                        h = g1.copy()
                        if name == "add":
                            h += g2
                        else:
                            h -= g2
                        return h
                    if form == "in-place" and a1.shape != np.broadcast_shapes(a1.shape, a2.shape):
                        continue
                    run.gap_case("add-sub", (name, form, s1, s2, lead), f"{name}|{form}|{'equal' if s1 == s2 else 'mismatch'}")
                    try:
                        r = do()
                    except Exception as e:
                        if s1 == s2:
                            v("supported-operation-raised", site, inp, "Grid", repr(e))
                        continue
                    if s1 != s2:
                        v("mismatched-spin-sum-returned", site, inp, "raise", "returned")
                    else:
                        expect_grid(site, inp, r, s1, uf(a1, a2), (g1, g2))
            # unary
            for name, op, sp, want in (("conjugate-ufunc", lambda: np.conjugate(g1), -s1, np.conjugate(a1)), ("conj-method", lambda: g1.conjugate(), -s1, np.conjugate(a1)),
                                       ("bar", lambda: g1.bar, -s1, np.conjugate(a1)), ("reciprocal", lambda: np.reciprocal(g1), -s1, np.reciprocal(a1)),
                                       ("absolute", lambda: np.absolute(g1), 0, np.absolute(a1)), ("abs()", lambda: abs(g1), 0, np.absolute(a1)), ("absolute-method", lambda: g1.absolute(), 0, np.abs(a1)),
                                       ("square", lambda: np.square(g1), 2 * s1, np.square(a1)), ("negative", lambda: -g1, s1, -a1), ("positive", lambda: +g1, s1, +a1),
                                       ("power-int", lambda: np.power(g1, 3), 3 * s1, np.power(a1, 3)), ("**-2", lambda: g1 ** -2, -2 * s1, np.power(a1, -2)), ("power-0", lambda: g1 ** 0, 0, np.power(a1, 0)),
                                       ("scalar*g", lambda: 2.5 * g1, s1, 2.5 * a1), ("g*scalar", lambda: g1 * (1 - 2j), s1, a1 * (1 - 2j)), ("g/scalar", lambda: g1 / 4.0, s1, a1 / 4.0),
                                       ("scalar/g", lambda: 3.0 / g1, -s1, 3.0 / a1), ("multiply-method-scalar", lambda: g1.multiply(2), s1, a1 * 2), ("divide-method-scalar", lambda: g1.divide(2), s1, a1 / 2)):
                nt1, np1 = a1.shape[-2:]
                if min(nt1, np1) < 2 * abs(sp) + 1:
                    continue
                try:
                    r = op()
                except Exception as e:
                    v("supported-operation-raised", f"Grid.{name}", inp, f"Grid spin {sp}", repr(e))
                    continue
                run.gap_case("unary-and-scalar", (name, s1, lead), name)
                expect_grid(f"Grid.{name}", inp, r, sp, want, (g1,))
            # the same scalar and unary operations written into ANOTHER Grid (out=h, h is not the operand): h takes the result's spin weight and
            # values, is returned, and neither h nor the result ends up holding the operand's metadata dictionary
            for name, uf, args, sp, want in (("multiply-scalar", np.multiply, (2.5,), s1, a1 * 2.5), ("divide-scalar", np.divide, (4.0,), s1, a1 / 4.0),
                                             ("true_divide-scalar", np.true_divide, (1 - 2j,), s1, a1 / (1 - 2j)), ("conjugate", np.conjugate, (), -s1, np.conjugate(a1)),
                                             ("negative", np.negative, (), s1, -a1), ("reciprocal", np.reciprocal, (), -s1, np.reciprocal(a1)),
                                             ("square", np.square, (), 2 * s1, np.square(a1)), ("power-int", np.power, (2,), 2 * s1, np.power(a1, 2))):
                nt1, np1 = a1.shape[-2:]
                if min(nt1, np1) < 2 * abs(sp) + 1:
                    continue
                site = f"Grid.{name}[out=other-grid]"
                try:
                    h = Grid(np.zeros(a1.shape, dtype=complex), spin_weight=0, other_note=["h"])
                    r = uf(g1, *args, out=h)
                except Exception as e:
                    v("supported-operation-raised", site, inp, f"Grid spin {sp}", repr(e))
                    continue
                run.gap_case("unary-and-scalar", (name, "out=other", s1, lead), name + "|out=other-grid")
                if r is not h and not np.shares_memory(r, h):
                    v("out-not-returned", site, inp, "out", "other array")
                expect_grid(site, inp, r, sp, want, (g1,))
                expect_grid(site + "[the out array]", inp, h, sp, want, (g1,))
                if g1.spin_weight != s1:
                    v("operand-spin-weight-changed", site, inp, s1, g1.spin_weight)
            # sqrt: even weights only
            try:
                r = np.sqrt(g1)
                if s1 % 2:
                    v("sqrt-of-odd-spin-returned", "Grid.sqrt", inp, "raise", "returned")
                else:
                    expect_grid("Grid.sqrt", inp, r, s1 // 2, np.sqrt(a1), (g1,))
            except Exception as e:
                if s1 % 2 == 0:
                    v("supported-operation-raised", "Grid.sqrt", inp, "Grid", repr(e))
            # non-integer power must not silently truncate
            for ex in (2.5, -0.5, 1.000001):
                try:
                    r = np.power(g1, ex)
                    ra = np.asarray(r.view(np.ndarray)) if isinstance(r, np.ndarray) else None
                    if ra is not None and not np.allclose(ra, np.power(a1, ex), equal_nan=True):
                        v("values-differ-from-numpy", "Grid.power[non-integer]", {**inp, "exponent": ex}, "numpy power with that exponent or raise", "computed a different power")
                    elif isinstance(r, Grid) and s1 != 0 and r.spin_weight != ex * s1:
                        v("wrong-spin-weight", "Grid.power[non-integer]", {**inp, "exponent": ex}, "raise", r.spin_weight)
                except Exception:
                    pass
                run.gap_case("non-integer-power", (s1, ex), "power")
            # scalars added
            for name, op in (("g+1.0", lambda: g1 + 1.0), ("1.0+g", lambda: 1.0 + g1), ("g-2", lambda: g1 - 2), ("g.add(1)", lambda: g1.add(1)), ("g.subtract(1)", lambda: g1.subtract(1))):
                run.gap_case("scalar-add", (name, s1), "zero-spin" if s1 == 0 else "nonzero-spin")
                try:
                    r = op()
                    if s1 != 0:
                        v("nonzero-scalar-added-to-nonzero-spin", f"Grid.{name}", inp, "raise", "returned")
                    elif not isinstance(r, Grid) or r.spin_weight != 0:
                        v("wrong-spin-weight", f"Grid.{name}", inp, 0, getattr(r, "spin_weight", None))
                except Exception as e:
                    if s1 == 0:
                        v("supported-operation-raised", f"Grid.{name}", inp, "Grid", repr(e))
            # real / imag
            for name, op in (("real", lambda: g1.real), ("imag", lambda: g1.imag)):
                try:
                    r = op()
                    if s1 != 0:
                        v("real-imag-of-nonzero-spin-returned", f"Grid.{name}", inp, "raise", "returned")
                except Exception as e:
                    if s1 == 0:
                        v("supported-operation-raised", f"Grid.{name}", inp, "Grid", repr(e))
        # shape mismatch
        for (sa, sb) in [((5, 5), (5, 6)), ((5, 5), (1, 5)), ((5, 5), (5, 1)), ((5, 5), (1, 1)), ((1, 7), (7, 7)), ((3, 1), (3, 4))]:
          ga, gb = mkgrid(rng, 0, lead, *sa), mkgrid(rng, 0, lead, *sb)
          for name, op in (("add", lambda: ga + gb), ("multiply", lambda: ga * gb), ("divide", lambda: ga / gb), ("subtract", lambda: ga - gb), ("add-method", lambda: ga.add(gb)), ("multiply-method", lambda: ga.multiply(gb)),
                         ("np.multiply-out", lambda: np.multiply(ga, gb, out=mkgrid(rng, 0, lead, *sa))), ("reflected-add", lambda: gb + ga), ("in-place-multiply", lambda: _imul(ga.copy(), gb))):
            run.gap_case("shape-mismatch", (name, lead, sa, sb), "must-raise" + ("|broadcastable" if 1 in sa + sb else ""))
            try:
                op()
                v("mismatched-grid-shapes-returned", f"Grid.{name}", {"lead": list(lead), "grid_a": list(sa), "grid_b": list(sb)}, "raise", "returned")
            except Exception:
                pass
    # outside the allow-list
    g = mkgrid(rng, 1)
    for uf in (np.exp, np.log, np.sin, np.arctan2, np.maximum, np.floor, np.sign, np.tanh, np.hypot, np.cbrt, np.exp2):
        run.gap_case("outside-allow-list", uf.__name__, "must-raise")
        try:
            r = uf(g) if uf.nin == 1 else uf(g, g)
            v("unsupported-ufunc-returned", f"np.{uf.__name__}", {"ufunc": uf.__name__}, "raise", type(r).__name__)
        except Exception:
            pass
    # comparisons pass through
    g0 = mkgrid(rng, 0, (), 3, 3)
    try:
        r = np.isfinite(g0)
        if r.dtype != bool or not np.all(r):
            v("comparison-ufunc", "np.isfinite", {}, "bool array", str(r.dtype))
    except Exception as e:
        v("supported-operation-raised", "np.isfinite", {}, "bool array", repr(e))
    # element types: real, integer and single-precision grids obey the same spin rules (a real grid of non-zero spin is
    # ordinary: e.g. the values of a spin-2 harmonic with m = 0), by every spelling
    for dt in (np.float64, np.int64, np.float32, np.complex64):
        for s1 in ((-2, 1, 3) if quick else range(-3, 4)):
            n1 = 6 * abs(s1) + 3
            raw = (np.arange(n1 * (n1 + 1)).reshape(n1, n1 + 1) % 7 + 1).astype(dt)
            if np.issubdtype(dt, np.complexfloating):
                raw = raw + 1j * raw[::-1]
            try:
                g1 = Grid(raw.copy(), spin_weight=s1)
            except Exception as e:
                v("valid-grid-rejected", "Grid.__new__", {"s": s1, "dtype": dt.__name__}, "Grid", repr(e))
                continue
            cases = [("conjugate-ufunc", lambda: np.conjugate(g1), -s1, np.conjugate(raw)), ("conjugate-method", lambda: g1.conjugate(), -s1, np.conjugate(raw)),
                     ("conj-method", lambda: g1.conj(), -s1, np.conjugate(raw)), ("bar", lambda: g1.bar, -s1, np.conjugate(raw)),
                     ("conjugate-inplace", lambda: g1.copy().conjugate(inplace=True), -s1, np.conjugate(raw)),
                     ("absolute", lambda: np.absolute(g1), 0, np.absolute(raw)), ("square", lambda: np.square(g1), 2 * s1, np.square(raw)),
                     ("negative", lambda: -g1, s1, -raw), ("g*g", lambda: g1 * g1, 2 * s1, raw * raw), ("g*gbar", lambda: g1 * g1.conjugate(), 0, raw * np.conjugate(raw)),
                     ("g+g", lambda: g1 + g1, s1, raw + raw), ("power-int", lambda: g1 ** 2, 2 * s1, raw ** 2), ("scalar*g", lambda: 2 * g1, s1, 2 * raw)]
            for name, op, sp, want in cases:
                inp = {"s": s1, "dtype": dt.__name__, "grid": [n1, n1 + 1], "op": name}
                run.gap_case("element-types", (dt.__name__, s1, name), f"dtype|{dt.__name__}")
                try:
                    r = op()
                except Exception as e:
                    v("supported-operation-raised", f"Grid.{name}", inp, f"Grid spin {sp}", repr(e))
                    continue
                expect_grid(f"Grid.{name}", inp, r, sp, want, (g1,))
    # memory layouts: the same grid values in Fortran order / as axis-moved or strided views
    from .. import layouts
    for s1, s2 in ([(0, 0), (1, -2), (2, 2)] if quick else [(a, b) for a in range(-2, 3) for b in range(-2, 3)]):
        big_ = max(3 * abs(s1), abs(s1) + abs(s2))      # largest |spin| any result below carries
        nt, nph = 2 * big_ + 1, 2 * big_ + 2
        for lead in ((), (2,)):
            A = rng_np(rng, lead + (nt, nph))
            B = rng_np(rng, lead + (nt, nph))
            gB = spherical.Grid(B.copy(), spin_weight=s2)
            OPS = [("multiply", lambda g: g * gB, lambda a: a * B, s1 + s2), ("rmultiply", lambda g: gB * g, lambda a: B * a, s1 + s2), ("conjugate", lambda g: np.conjugate(g), np.conjugate, -s1),
                   ("square", lambda g: np.square(g), np.square, 2 * s1), ("absolute", lambda g: np.absolute(g), np.absolute, 0), ("power3", lambda g: g ** 3, lambda a: a ** 3, 3 * s1),
                   ("negative", lambda g: -g, np.negative, s1), ("scalar", lambda g: 2.5 * g, lambda a: 2.5 * a, s1)]
            if s1 == s2:
                OPS += [("add", lambda g: g + gB, lambda a: a + B, s1), ("subtract", lambda g: gB - g, lambda a: B - a, s1)]
            for lab, V in [("C", A.copy())] + list(layouts.variants(A)):
                inp = {"s1": s1, "s2": s2, "grid_shape": [nt, nph], "lead": list(lead), "layout": lab}
                try:
                    g = spherical.Grid(V, spin_weight=s1)
                except Exception as e:
                    run.violation("valid-grid-rejected", "Grid.__new__", inp, "Grid", repr(e))
                    continue
                for nm, op, ref, sw in OPS:
                    run.gap_case("memory-layouts", (s1, s2, lead, lab, nm), f"layout|{lab}")
                    try:
                        r = op(g)
                    except Exception as e:
                        run.violation("supported-operation-raised", nm, {**inp, "op": nm}, "Grid", repr(e))
                        continue
                    want = ref(A)
                    if not isinstance(r, spherical.Grid) or r.spin_weight != sw or not layouts.same(r.view(np.ndarray), want):
                        run.violation("result-depends-on-memory-layout" if lab != "C" else "values-differ-from-numpy", nm, {**inp, "op": nm}, f"numpy values, spin {sw}",
                                      f"spin {getattr(r, 'spin_weight', None)}, values {'equal' if np.array_equal(np.asarray(r), want) else 'differ'}")
    run.assumptions += ["values compared with the same numpy ufunc applied to the raw ndarray views"]


def _imul(a, b):
    a *= b
    return a


def replay(body):
    print(body["input"], body["expected"], body["got"])
    return 0
