import SphericalVerif.Gen.RotMKern
import SphericalVerif.Lemmas.GenDiff
import SphericalVerif.Lemmas.GenAlg
import SphericalVerif.Model.Matrix
import SphericalVerif.Lemmas.Matrix
import SphericalVerif.Props.GenMethod
import SphericalVerif.Props.Matrix
import SphericalVerif.Lemmas.Frame
/-! GenRotM — **`_rotate` (the matrix route, the DEFAULT strategy of `Wigner.rotate` / `Modes.rotate`) as the Python text states it** is the
    model's `rotateMatrixEntry`.

    `Gen/RotMKern.lean` is regenerated on every run from `_rotate` in spherical/wigner.py: per ℓ the slice bounds `i1, i2` of the weights, the
    start `d1 = WignerDindex(ℓ, −ℓ, −ℓ, ell_min_w)` of the ℓ-block in the flat 𝔇 array, and `fₗₙ[i, i1:i2] = fₗₘ[i, i1:i2] @ 𝔇ˡ` with the
    reshaped block read in C order and the contraction written as a left fold in index order (BLAS fixes no order: at `Float` one admissible
    rounding, compared numerically; over exact reals the order is immaterial).  `gen_rotate_matrix_cell`: for one row of weights stored
    from ℓ = 0, every spin weight, size and arithmetic, output weight (ℓ, m) after the generated kernel is exactly that fold — which is,
    definitionally, `Model.rotateMatrixEntry` when the weights and the 𝔇 array are the model's arrays (`gen_rotate_matrix_is_model`).  Hence
    `Props/Matrix` (`rotateMatrix_eq_sum`, `rotateMatrix_eq_horner`, `rotate_block_contiguous`: the slices are aligned, the matrix route equals
    the Horner route and Σ_n f_{ℓn} 𝔇^ℓ_{nm} in exact arithmetic) speaks about the code as written: a wrong slice bound, block offset, stride
    or transposition in the text changes the fold proved here.  The matrix branch of `Wigner.evaluate` (slice bounds `ell_lo, i1, j1, n` and
    `np.matmul(mode_weights[:, i1:i1+n], Y[j1:j1+n], …)`) is generated and identified with `Model.evaluateMatrix` the same way
    (`gen_evaluate_matrix_cell`, `gen_evaluate_matrix_is_model`; `Props/Matrix.evaluateMatrix_eq_sum / _eq_horner / eval_slices_*`). -/
namespace GenRotM
open Gen GenDiff Model

section
variable {α : Type} [Scalar α] {φ : Type} [FMem φ α] [LawfulFMem φ α]

/-- the contraction the text performs for output column `c` of block `e` -/
def colSum (flm D : Int → Cx α) (emin_w : Int) (e c : Int) : Cx α :=
  loopN ((((Yindex e e 0) + (1 : Int)) - (Yindex e (-e) 0)) - (0 : Int)).toNat (fun k4 (acc : Cx α) =>
    Cx.add acc (Cx.mul (flm (((0 : Int) + (0 : Int)) * (0 : Int) + ((Yindex e (-e) 0) + ((0 : Int) + (k4 : Int)))))
      (D (((WignerDindex e (-e) (-e) emin_w (-1 : Int)) + (((0 : Int) + (k4 : Int)) * (((2 : Int) * e) + (1 : Int)))) + c))))
    (Cx.mk (Scalar.ofInt (0 : Int) : α) (Scalar.ofInt (0 : Int) : α))

/-- block `e` of the generated kernel, one row -/
def BM (A : Nat) (flm D : Int → Cx α) (emin_w : Int) (e : Int) (s : φ) : φ :=
  loopN (2 * e + 1).toNat (fun c s => fwrC (α := α) s A ((e * (e + 1) - e) + (c : Int)) (colSum flm D emin_w e ((0 : Int) + (c : Int)))) s

theorem BM_cell (A : Nat) (flm D : Int → Cx α) (emin_w : Int) (e : Int) (s : φ) (i : Int) :
    frdC (α := α) (BM A flm D emin_w e s) A i
      = if e * (e + 1) - e ≤ i ∧ i < e * (e + 1) - e + (2 * e + 1).toNat then colSum flm D emin_w e ((0 : Int) + (((i - (e * (e + 1) - e)).toNat : Nat) : Int))
        else frdC (α := α) s A i := by
  unfold BM
  rw [run_set]

/-- the generated `_rotate` for one row of weights stored from ℓ = 0 (row stride 0 for the single row) is the block loop -/
theorem rotate_canon (flm D : Int → Cx α) (A : Nat) (emin_w emax_w mp_w : Int) (L : Int) (sw : Int) (st : φ) :
    Gen.u_rotate (α := α) flm A emin_w emax_w mp_w 0 L sw D 1 0 0 st
      = loopN ((L + 1) - ((sw.natAbs : Nat) : Int)).toNat (fun k s => BM A flm D emin_w (((sw.natAbs : Nat) : Int) + (k : Int)) s) st := by
  unfold Gen.u_rotate
  have hmax : max ((Int.natAbs sw : Nat) : Int) (0 : Int) = ((sw.natAbs : Nat) : Int) := by omega
  simp only [hmax]
  refine Lemmas.Object.loopN_congr _ _ _ st (fun k1 hk1 s => ?_)
  have e1 : ((1 : Int) - 0).toNat = 1 := rfl
  rw [e1]
  simp only [loopN]
  unfold BM
  have ec : ((((Yindex (((sw.natAbs : Nat) : Int) + (k1 : Int)) (((sw.natAbs : Nat) : Int) + (k1 : Int)) 0) + 1) - (Yindex (((sw.natAbs : Nat) : Int) + (k1 : Int)) (-(((sw.natAbs : Nat) : Int) + (k1 : Int))) 0)) - 0).toNat
      = (2 * (((sw.natAbs : Nat) : Int) + (k1 : Int)) + 1).toNat := by
    rw [GenAlg.yidx0 _ _ (by omega), GenAlg.yidx0 _ _ (by omega)]; congr 1; ring
  rw [ec]
  refine Lemmas.Object.loopN_congr _ _ _ s (fun k3 hk3 s3 => ?_)
  have ei : ((0 : Int) + ((0 : Nat) : Int)) * (0 : Int) + ((Yindex (((sw.natAbs : Nat) : Int) + (k1 : Int)) (-(((sw.natAbs : Nat) : Int) + (k1 : Int))) 0) + ((0 : Int) + (k3 : Int)))
      = ((((sw.natAbs : Nat) : Int) + (k1 : Int)) * ((((sw.natAbs : Nat) : Int) + (k1 : Int)) + 1) - (((sw.natAbs : Nat) : Int) + (k1 : Int))) + (k3 : Int) := by
    rw [GenAlg.yidx0 _ _ (by omega)]; push_cast; ring
  rw [ei]
  unfold colSum
  simp only [ec, Nat.cast_zero]

/-- **`_rotate` from the Python text**: output weight (ℓ, m) of the single row is the left fold of the text's contraction -/
theorem gen_rotate_matrix_cell (flm D : Int → Cx α) (A : Nat) (emin_w emax_w mp_w : Int) (L : Nat) (sw : Int) (st : φ)
    (ell : Nat) (m : Int) (hm : m.natAbs ≤ ell) (hl : ell ≤ L) (hs : sw.natAbs ≤ ell) :
    frdC (α := α) (Gen.u_rotate (α := α) flm A emin_w emax_w mp_w 0 (L : Int) sw D 1 0 0 st) A ((ell : Int) * ((ell : Int) + 1) + m)
      = colSum flm D emin_w (ell : Int) ((0 : Int) + (m + (ell : Int))) := by
  rw [rotate_canon]
  rw [set_blocks_cell A sw.natAbs L (BM A flm D emin_w) (fun e k => colSum flm D emin_w e ((0 : Int) + (k + e))) st ?_ ?_ ell m hm hl, if_pos hs]
  · intro e s i he hni
    rw [BM_cell, if_neg (by omega)]
  · intro e s k h1 h2 h3 h4
    rw [BM_cell, if_pos (by omega)]
    have : (((e * (e + 1) + k - (e * (e + 1) - e)).toNat : Nat) : Int) = k + e := by omega
    rw [this]

/-- with the model's arrays as arguments the fold of the text IS `Model.rotateMatrixEntry` -/
theorem colSum_is_model {μ : Type} [Mem μ α] (stm : μ) (f za zg : Array (Cx α)) (cmin cmp cmax : Int) (ell : Nat) (m : Int) :
    colSum (fun i => cget f i.toNat) (fun i => cget (DArray (α := α) stm za zg cmin cmp cmax) i.toNat) cmin (ell : Int) ((0 : Int) + (m + (ell : Int)))
      = rotateMatrixEntry (α := α) stm f za zg cmin cmp cmax ell m := by
  unfold colSum rotateMatrixEntry rotateSlices
  simp only [Int.zero_add, Int.sub_zero, Int.zero_mul]
  rfl

/-- **the generated `_rotate` writes `Model.rotateMatrixEntry`**: for one row of weights `f` (stored from ℓ = 0) and the flat 𝔇 array of a
    calculator `(ell_min, mp_max, ell_max) = (cmin, cmp, cmax)`, every spin weight, arithmetic and memory content -/
theorem gen_rotate_matrix_is_model {μ : Type} [Mem μ α] (stm : μ) (f za zg : Array (Cx α)) (cmin cmp cmax : Int) (A : Nat) (L : Nat) (sw : Int) (st : φ)
    (ell : Nat) (m : Int) (hm : m.natAbs ≤ ell) (hl : ell ≤ L) (hs : sw.natAbs ≤ ell) :
    frdC (α := α) (Gen.u_rotate (α := α) (fun i => cget f i.toNat) A cmin cmax cmp 0 (L : Int) sw
        (fun i => cget (DArray (α := α) stm za zg cmin cmp cmax) i.toNat) 1 0 0 st) A ((ell : Int) * ((ell : Int) + 1) + m)
      = rotateMatrixEntry (α := α) stm f za zg cmin cmp cmax ell m := by
  rw [gen_rotate_matrix_cell _ _ A cmin cmax cmp L sw st ell m hm hl hs, colSum_is_model]

/-! ### the matrix branch of `Wigner.evaluate` (the default strategy of `evaluate`), from the source -/

/-- the generated contraction for one row of weights (row 0) writes `Model.dotSlices` over the slices `Model.evalMatrixSlices` computes — the
    slice bounds `ell_lo, i1, j1, n` are the text's own expressions (modes stored from ℓ = 0) -/
theorem gen_evaluate_matrix_cell (f Y : Array (Cx α)) (fv : Nat) (cmin modesL : Int) (st : φ) :
    frdC (α := α) (Gen.Wigner_evaluate_matrix_contract (α := α) (fun i => cget f i.toNat) (fun i => cget Y i.toNat) fv cmin 0 modesL 1 0 st) fv 0
      = dotSlices (α := α) f Y (evalMatrixSlices cmin modesL).1 (evalMatrixSlices cmin modesL).2.1 (evalMatrixSlices cmin modesL).2.2.toNat := by
  unfold Gen.Wigner_evaluate_matrix_contract dotSlices evalMatrixSlices
  have e1 : ((1 : Int) - 0).toNat = 1 := rfl
  have e2 : Int.toNat 1 = 1 := rfl
  simp only [e1, e2, loopN, Nat.cast_zero, Int.zero_add, Int.add_zero, Int.zero_mul, Int.sub_zero, GenFill.frdC_fwrC_same]
  rfl

/-- hence, with `Y` the array `self.sYlm(…, out=Y)` leaves (the model's `sYlmArray`), the generated matrix branch computes `Model.evaluateMatrix` -/
theorem gen_evaluate_matrix_is_model {μ : Type} [Mem μ α] (stm : μ) (f za : Array (Cx α)) (zgpow : Cx α) (sw : Int) (fv : Nat) (cmin cmax modesL : Int) (st : φ) :
    frdC (α := α) (Gen.Wigner_evaluate_matrix_contract (α := α) (fun i => cget f i.toNat)
        (fun i => cget (sYlmArray (α := α) stm za zgpow sw cmin cmax) i.toNat) fv cmin 0 modesL 1 0 st) fv 0
      = evaluateMatrix (α := α) stm f za zgpow sw cmin cmax modesL := by
  rw [gen_evaluate_matrix_cell]
  rfl
end

/-! ### what `_rotate` computes, in exact arithmetic, for ANY arrays: the row of weights times the ℓ-block of the flat 𝔇 array -/
section
open MatrixLemmas Horner
variable {φ : Type} [FMem φ ℝ] [LawfulFMem φ ℝ]

/-- **`_rotate` from the Python text, exact reals**: output weight (ℓ, m) of the row is `Σ_n flm[ℓ(ℓ+1)+n] · 𝔇[WignerDindex(ℓ, n, m, ell_min_w)]` — the block
    of the flat array is read at exactly the positions the calculator's own index function gives to `(ℓ, n, m)`, whatever the arrays hold.
    (With the arrays of `Wigner.D` this is the documented `f · 𝔇`; `Props/Matrix`, `GenChain`.) -/
theorem gen_rotate_matrix_sum (flm D : Int → Cx ℝ) (A : Nat) (cmin cmax cmp : Int) (L : Nat) (sw : Int) (st : φ)
    (ell : Nat) (m : Int) (hm : m.natAbs ≤ ell) (hl : ell ≤ L) (hs : sw.natAbs ≤ ell) :
    toC (frdC (α := ℝ) (Gen.u_rotate (α := ℝ) flm A cmin cmax cmp 0 (L : Int) sw D 1 0 0 st) A ((ell : Int) * ((ell : Int) + 1) + m))
      = ∑ n ∈ Finset.Icc (-(ell : ℤ)) ell, toC (flm ((ell : Int) * ((ell : Int) + 1) + n)) * toC (D (WignerDindex (ell : Int) n m cmin (-1))) := by
  rw [gen_rotate_matrix_cell flm D A cmin cmax cmp L sw st ell m hm hl hs]
  unfold colSum
  have hlen : ((((Yindex (ell : Int) (ell : Int) 0) + (1 : Int)) - (Yindex (ell : Int) (-(ell : Int)) 0)) - (0 : Int)).toNat = 2 * ell + 1 := by
    rw [GenAlg.yidx0 _ _ (by omega), GenAlg.yidx0 _ _ (by omega)]; omega
  have hz : (Cx.mk (Scalar.ofInt (0 : Int) : ℝ) (Scalar.ofInt (0 : Int) : ℝ) : Cx ℝ) = ⟨zero, zero⟩ := rfl
  rw [hlen, hz, toC_dotLoop (fun k => flm (((0 : Int) + (0 : Int)) * (0 : Int) + ((Yindex (ell : Int) (-(ell : Int)) 0) + ((0 : Int) + (k : Int)))))
    (fun k => D (((WignerDindex (ell : Int) (-(ell : Int)) (-(ell : Int)) cmin (-1 : Int)) + (((0 : Int) + (k : Int)) * (((2 : Int) * (ell : Int)) + (1 : Int)))) + ((0 : Int) + (m + (ell : Int))))),
    sum_Icc_int_eq_range]
  apply Finset.sum_congr rfl
  intro j hj
  have hidx : ((0 : Int) + (0 : Int)) * (0 : Int) + ((Yindex (ell : Int) (-(ell : Int)) 0) + ((0 : Int) + (j : Int))) = (ell : Int) * ((ell : Int) + 1) + ((j : Int) - ell) := by
    rw [GenAlg.yidx0 _ _ (by omega)]; ring
  have hD : ((WignerDindex (ell : Int) (-(ell : Int)) (-(ell : Int)) cmin (-1 : Int)) + (((0 : Int) + (j : Int)) * (((2 : Int) * (ell : Int)) + (1 : Int)))) + ((0 : Int) + (m + (ell : Int)))
      = WignerDindex (ell : Int) ((j : Int) - ell) m cmin (-1) := by
    rw [dindex_default_affine (ell : Int) ((j : Int) - ell) m cmin]; ring
  rw [hidx, hD]

/-- the generated contraction for one row, arbitrary (function) arrays: the fold over the slices the text computes -/
theorem gen_evaluate_matrix_fold (mw Y : Int → Cx ℝ) (fv : Nat) (cmin modesL : Int) (st : φ) :
    frdC (α := ℝ) (Gen.Wigner_evaluate_matrix_contract (α := ℝ) mw Y fv cmin 0 modesL 1 0 st) fv 0
      = loopN (evalMatrixSlices cmin modesL).2.2.toNat (fun k (acc : Cx ℝ) =>
          Cx.add acc (Cx.mul (mw ((evalMatrixSlices cmin modesL).1 + (k : Int))) (Y ((evalMatrixSlices cmin modesL).2.1 + (k : Int))))) ⟨zero, zero⟩ := by
  unfold Gen.Wigner_evaluate_matrix_contract evalMatrixSlices
  have e1 : ((1 : Int) - 0).toNat = 1 := rfl
  have e2 : Int.toNat 1 = 1 := rfl
  simp only [e1, e2, loopN, Nat.cast_zero, Int.zero_add, Int.add_zero, Int.zero_mul, Int.sub_zero, GenFill.frdC_fwrC_same]
  rfl

/-- **the matrix branch of `Wigner.evaluate` from the Python text, exact reals, ANY arrays**: the value is
    `Σ_{ℓ=c}^{L} Σ_m mw[ℓ(ℓ+1)+m] · Y[Yindex(ℓ, m, c)]` — each weight meets the entry of `Y` that the calculator's own `Yindex` gives to the same
    `(ℓ, m)` (`c` the calculator's `ell_min`, `L` the modes' `ell_max`, `c ≤ L + 1`) -/
theorem gen_evaluate_matrix_sum (mw Y : Int → Cx ℝ) (fv : Nat) (c L : Nat) (hn : (c : Int) ≤ L + 1) (st : φ) :
    toC (frdC (α := ℝ) (Gen.Wigner_evaluate_matrix_contract (α := ℝ) mw Y fv (c : Int) 0 (L : Int) 1 0 st) fv 0)
      = ∑ ell ∈ Finset.Icc c L, ∑ m ∈ Finset.Icc (-(ell : ℤ)) ell, toC (mw ((ell : Int) * ((ell : Int) + 1) + m)) * toC (Y (Yindex (ell : Int) m (c : Int))) := by
  rw [gen_evaluate_matrix_fold, Matrix.eval_slices_closed_pos (c : ℤ) L (by omega) hn]
  simp only
  obtain ⟨d, hd⟩ : ∃ d : ℕ, L + 1 = c + d := ⟨L + 1 - c, by omega⟩
  have hnat : (((L : ℤ) + 1) ^ 2 - (c : ℤ) ^ 2).toNat = d * (2 * c + d) := by
    have : ((L : ℤ) + 1) = c + d := by exact_mod_cast hd
    rw [this]
    have : ((c : ℤ) + d) ^ 2 - (c : ℤ) ^ 2 = ((d * (2 * c + d) : ℕ) : ℤ) := by push_cast; ring
    rw [this, Int.toNat_natCast]
  rw [hnat, toC_dotLoop (fun k => mw ((c : ℤ) ^ 2 + (k : ℤ))) (fun k => Y (0 + (k : ℤ)))]
  rw [sum_range_eq_sum_yindex (fun x => toC (mw ((c : ℤ) ^ 2 + x)) * toC (Y (0 + x))) c d]
  rw [← hd, Finset.Ico_add_one_right_eq_Icc]
  apply Finset.sum_congr rfl
  intro ell hell
  rw [Finset.mem_Icc] at hell
  apply Finset.sum_congr rfl
  intro m hm
  have hcl : (c : ℤ) ≤ ell := by exact_mod_cast hell.1
  have hidx : (c : ℤ) ^ 2 + Yindex ell m c = (ell : ℤ) * (ell + 1) + m := by
    rw [yindex_closed _ _ _ hcl]; ring
  rw [hidx, zero_add]

/-- below `|s|` the generated body of `Wigner.sYlm` stores the literal zero -/
theorem sYlm_rotor_low (L P : Nat) (ell_min sw : Int) (zI aI YI : Nat) (a b d g h : Int → ℝ) (ht : GenH.TabOK L a b d g h) (imsqrt : Cx ℝ → ℝ)
    (cpowi : Cx ℝ → Int → Cx ℝ) (R : Int → ℝ) (F : φ) (h0 : 0 ≤ ell_min) (hz : 2 < zI) (ha : 2 < aI) (hza : zI ≠ aI) (hsP : sw.natAbs ≤ P)
    (hsL : max ((sw.natAbs : Nat) : Int) ell_min ≤ (L : Int) + 1)
    (ell : Nat) (m : Int) (h1 : ell_min ≤ ell) (hl : ell ≤ L) (hlow : ell < sw.natAbs) (hm : m.natAbs ≤ ell) :
    frdC (α := ℝ) (Gen.Wigner_sYlm_rotor (α := ℝ) R zI g h (L : Int) (P : Int) a b d GenH.idW GenH.idV GenH.idX YI aI imsqrt cpowi sw ell_min F) YI
        (Yindex (ell : Int) m ell_min) = ⟨zero, zero⟩ := by
  rw [GenMethod.sYlm_rotor_eq L P ell_min sw zI aI YI a b d g h imsqrt cpowi R F hz ha hza,
    GenChain.gen_Y_chain L P ell_min sw zI aI YI a b d g h ht imsqrt _ R F (fun _ => R 0) h0 hsP hsL ell m h1 hl (by omega) (by omega)]
  unfold Model.objY Model.sYlmEntry
  simp only []
  rw [if_pos (by exact_mod_cast hlow)]

/-- **The default route of `Wigner.evaluate`, method body and kernels from the source, is `Σ_{ℓ,m} f_{ℓm} ₛY_{ℓm}(R)`** with the documented harmonics:
    the generated body of `Wigner.sYlm` fills `Y`, the generated slice bounds and contraction pair every weight with the harmonic of the same
    `(ℓ, m)`; terms with `ℓ < |s|` vanish (the array holds the literal zero there).  Exact reals, every unit quaternion, every calculator with
    `ell_min = c ≤ L + 1`, `modes.ell_max = L ≤ ell_max`, `|s| ≤ mp_max`. -/
theorem evaluate_matrix_route_doc (Lc P : Nat) (c : Nat) (sw : Int) (zI aI YI fv : Nat) (a b d g h : Int → ℝ) (ht : GenH.TabOK Lc a b d g h) (imsqrt : Cx ℝ → ℝ)
    (hsq : ∀ w : Cx ℝ, w.re ^ 2 + w.im ^ 2 = 1 → 2 * (imsqrt w) ^ 2 = 1 - w.re) (cpowi : Cx ℝ → Int → Cx ℝ)
    (R : Int → ℝ) (hR : R 0 ^ 2 + R 1 ^ 2 + R 2 ^ 2 + R 3 ^ 2 = 1)
    (hY : CPow.toC (cpowi (Model.eulerPhases (R 0) (R 1) (R 2) (R 3)).2.2 ((Int.natAbs sw : Nat) : Int))
        = CPow.toC (Model.eulerPhases (R 0) (R 1) (R 2) (R 3)).2.2 ^ sw.natAbs) (F : φ)
    (hz : 2 < zI) (ha : 2 < aI) (hza : zI ≠ aI) (hsP : sw.natAbs ≤ P) (hsLc : (sw.natAbs : Int) ≤ (Lc : Int) + 1)
    (mw : Int → Cx ℝ) (L : Nat) (hL : L ≤ Lc) (hn : (c : Int) ≤ L + 1) :
    toC (frdC (α := ℝ) (Gen.Wigner_evaluate_matrix_contract (α := ℝ) mw
        (fun i => frdC (α := ℝ) (Gen.Wigner_sYlm_rotor (α := ℝ) R zI g h (Lc : Int) (P : Int) a b d GenH.idW GenH.idV GenH.idX YI aI imsqrt cpowi sw (c : Int) F) YI i)
        fv (c : Int) 0 (L : Int) 1 0
        (Gen.Wigner_sYlm_rotor (α := ℝ) R zI g h (Lc : Int) (P : Int) a b d GenH.idW GenH.idV GenH.idX YI aI imsqrt cpowi sw (c : Int) F)) fv 0)
      = ∑ ell ∈ Finset.Icc c L, ∑ m ∈ Finset.Icc (-(ell : ℤ)) ell, toC (mw ((ell : Int) * ((ell : Int) + 1) + m)) *
          (if sw.natAbs ≤ ell then (((-1) ^ sw.natAbs * Real.sqrt ((2 * (ell : ℝ) + 1) / (4 * Real.pi)) : ℝ) : ℂ)
              * DDef.docD ell (DDef.Ra (R 0) (R 3)) (DDef.Rb (R 1) (R 2)) m (-sw) else 0) := by
  rw [gen_evaluate_matrix_sum mw _ fv c L hn]
  apply Finset.sum_congr rfl
  intro ell hell
  rw [Finset.mem_Icc] at hell
  apply Finset.sum_congr rfl
  intro m hm
  rw [Finset.mem_Icc] at hm
  congr 1
  by_cases hs : sw.natAbs ≤ ell
  · rw [if_pos hs]
    have := GenMethod.sYlm_rotor_doc Lc P (c : Int) sw zI aI YI a b d g h ht imsqrt hsq cpowi R hR hY F (by omega) hz ha hza hsP ell m
      (by exact_mod_cast hell.1) (by omega) hs (by omega)
    rw [show CPow.toC = toC from rfl] at this
    exact this
  · rw [if_neg hs, sYlm_rotor_low Lc P (c : Int) sw zI aI YI a b d g h ht imsqrt cpowi R F (by omega) hz ha hza hsP (by omega) ell m
      (by exact_mod_cast hell.1) (by omega) (by omega) (by omega)]
    exact toC_zero

/-- **The default route of `Wigner.rotate`, method body and kernels from the source, realises the documented rotation law**: the generated body
    of `Wigner.D` fills the flat array, the generated `_rotate` contracts the row of weights with it, and output weight (ℓ, m) is
    `Σ_n f_{ℓn} 𝔇^ℓ_{nm}(R)` with the documented 𝔇 — exact reals, every unit quaternion, every calculator `ell_min ≤ ℓ ≤ ell_max`, every
    spin weight `|s| ≤ ℓ`, every content of the memory before the call. -/
theorem rotate_matrix_route_doc (L : Nat) (cmin : Int) (zI aI gI DI A : Nat) (a b d g h : Int → ℝ) (ht : GenH.TabOK L a b d g h) (imsqrt : Cx ℝ → ℝ)
    (hsq : ∀ w : Cx ℝ, w.re ^ 2 + w.im ^ 2 = 1 → 2 * (imsqrt w) ^ 2 = 1 - w.re)
    (R : Int → ℝ) (hR : R 0 ^ 2 + R 1 ^ 2 + R 2 ^ 2 + R 3 ^ 2 = 1) (F : φ) (h0 : 0 ≤ cmin)
    (hz : 2 < zI) (ha : 2 < aI) (hg : 2 < gI) (hza : zI ≠ aI) (hzg : zI ≠ gI) (hag : aI ≠ gI)
    (flm : Int → Cx ℝ) (eM : Nat) (sw : Int) (ell : Nat) (m : Int) (hm : m.natAbs ≤ ell) (hl : ell ≤ eM) (hL : eM ≤ L) (hs : sw.natAbs ≤ ell) (h1 : cmin ≤ ell) :
    toC (frdC (α := ℝ) (Gen.u_rotate (α := ℝ) flm A cmin (L : Int) (L : Int) 0 (eM : Int) sw
        (fun i => frdC (α := ℝ) (Gen.Wigner_D_rotor (α := ℝ) R zI g h (L : Int) (L : Int) a b d GenH.idW GenH.idV GenH.idX DI aI imsqrt gI cmin F) DI i) 1 0 0
        (Gen.Wigner_D_rotor (α := ℝ) R zI g h (L : Int) (L : Int) a b d GenH.idW GenH.idV GenH.idX DI aI imsqrt gI cmin F)) A ((ell : Int) * ((ell : Int) + 1) + m))
      = ∑ n ∈ Finset.Icc (-(ell : ℤ)) ell, toC (flm ((ell : Int) * ((ell : Int) + 1) + n)) * DDef.docD ell (DDef.Ra (R 0) (R 3)) (DDef.Rb (R 1) (R 2)) n m := by
  rw [gen_rotate_matrix_sum flm _ A cmin (L : Int) (L : Int) eM sw _ ell m hm hl hs]
  apply Finset.sum_congr rfl
  intro n hn
  rw [Finset.mem_Icc] at hn
  have := GenMethod.D_rotor_doc L cmin zI aI gI DI a b d g h ht imsqrt hsq R hR F h0 hz ha hg hza hzg hag ell n m h1 (by omega) (by omega) hm
  rw [show CPow.toC = toC from rfl] at this
  rw [this]

/-- … stated for the GENERATED matrix branch of the method (`Gen.Wigner_rotate_matrix_body`: `D = self.D(R, …)` then `_rotate(…, D)`, from the text) -/
theorem rotate_matrix_body_doc (L : Nat) (cmin : Int) (zI aI gI DI A : Nat) (a b d g h : Int → ℝ) (ht : GenH.TabOK L a b d g h) (imsqrt : Cx ℝ → ℝ)
    (hsq : ∀ w : Cx ℝ, w.re ^ 2 + w.im ^ 2 = 1 → 2 * (imsqrt w) ^ 2 = 1 - w.re)
    (R : Int → ℝ) (hR : R 0 ^ 2 + R 1 ^ 2 + R 2 ^ 2 + R 3 ^ 2 = 1) (F : φ) (h0 : 0 ≤ cmin)
    (hz : 2 < zI) (ha : 2 < aI) (hg : 2 < gI) (hza : zI ≠ aI) (hzg : zI ≠ gI) (hag : aI ≠ gI)
    (flm : Int → Cx ℝ) (eM : Nat) (sw : Int) (ell : Nat) (m : Int) (hm : m.natAbs ≤ ell) (hl : ell ≤ eM) (hL : eM ≤ L) (hs : sw.natAbs ≤ ell) (h1 : cmin ≤ ell) :
    toC (frdC (α := ℝ) (Gen.Wigner_rotate_matrix_body (α := ℝ) R zI g h (L : Int) (L : Int) a b d GenH.idW GenH.idV GenH.idX DI aI imsqrt gI cmin
        flm A 0 (eM : Int) sw 1 0 0 F) A ((ell : Int) * ((ell : Int) + 1) + m))
      = ∑ n ∈ Finset.Icc (-(ell : ℤ)) ell, toC (flm ((ell : Int) * ((ell : Int) + 1) + n)) * DDef.docD ell (DDef.Ra (R 0) (R 3)) (DDef.Rb (R 1) (R 2)) n m :=
  rotate_matrix_route_doc L cmin zI aI gI DI A a b d g h ht imsqrt hsq R hR F h0 hz ha hg hza hzg hag flm eM sw ell m hm hl hL hs h1

/-- the premises of `rotate_matrix_body_doc` are satisfiable: the rotor (1/2, 1/2, 1/2, 1/2), a calculator with `ell_max = 3` and the tables listed in
    the documented orderings, the real `imsqrt`, arrays 6 (z), 4, 5 (powers), 3 (𝔇), 8 (output), modes up to ℓ = 2 of spin weight 1, entry (2, −1) -/
example (flm : Int → Cx ℝ) (F : φ) :
    toC (frdC (α := ℝ) (Gen.Wigner_rotate_matrix_body (α := ℝ) (fun _ => (1 / 2 : ℝ)) 6
        (GenH.tabOfRange Scalar.half (Spec.nmRange 4) Gen.tab_g) (GenH.tabOfRange Scalar.half (Spec.nmRange 4) Gen.tab_h) ((3 : Nat) : Int) ((3 : Nat) : Int)
        (GenH.tabOfRange Scalar.half (Spec.nabsmRange 4) Gen.tab_a) (GenH.tabOfRange Scalar.half (Spec.nmRange 4) Gen.tab_b)
        (GenH.tabOfRange Scalar.half (Spec.nmRange 4) Gen.tab_d) GenH.idW GenH.idV GenH.idX 3 4 DDef.imsqrtR 5 0 flm 8 0 ((2 : Nat) : Int) 1 1 0 0 F) 8
        (((2 : Nat) : Int) * (((2 : Nat) : Int) + 1) + (-1)))
      = ∑ n ∈ Finset.Icc (-((2 : Nat) : ℤ)) (2 : Nat), toC (flm (((2 : Nat) : Int) * (((2 : Nat) : Int) + 1) + n))
          * DDef.docD 2 (DDef.Ra (1 / 2) (1 / 2)) (DDef.Rb (1 / 2) (1 / 2)) n (-1) :=
  rotate_matrix_body_doc 3 0 6 4 5 3 8 _ _ _ _ _ (GenH.tabOK_ranges 3) DDef.imsqrtR DDef.imsqrtR_spec (fun _ => (1 / 2 : ℝ)) (by norm_num) F (by decide)
    (by decide) (by decide) (by decide) (by decide) (by decide) (by decide) flm 2 1 2 (-1) (by decide) (by decide) (by decide) (by decide) (by decide)

/-- … and for the GENERATED loop body of the matrix branch of `Wigner.evaluate` (`Gen.Wigner_evaluate_matrix_rotor`: `self.sYlm(…, out=Y)` then `np.matmul`) -/
theorem evaluate_matrix_rotor_doc (Lc P : Nat) (c : Nat) (sw : Int) (zI aI YI fv : Nat) (a b d g h : Int → ℝ) (ht : GenH.TabOK Lc a b d g h) (imsqrt : Cx ℝ → ℝ)
    (hsq : ∀ w : Cx ℝ, w.re ^ 2 + w.im ^ 2 = 1 → 2 * (imsqrt w) ^ 2 = 1 - w.re) (cpowi : Cx ℝ → Int → Cx ℝ)
    (R : Int → ℝ) (hR : R 0 ^ 2 + R 1 ^ 2 + R 2 ^ 2 + R 3 ^ 2 = 1)
    (hY : CPow.toC (cpowi (Model.eulerPhases (R 0) (R 1) (R 2) (R 3)).2.2 ((Int.natAbs sw : Nat) : Int))
        = CPow.toC (Model.eulerPhases (R 0) (R 1) (R 2) (R 3)).2.2 ^ sw.natAbs) (F : φ)
    (hz : 2 < zI) (ha : 2 < aI) (hza : zI ≠ aI) (hsP : sw.natAbs ≤ P) (hsLc : (sw.natAbs : Int) ≤ (Lc : Int) + 1)
    (mw : Int → Cx ℝ) (L : Nat) (hL : L ≤ Lc) (hn : (c : Int) ≤ L + 1) :
    toC (frdC (α := ℝ) (Gen.Wigner_evaluate_matrix_rotor (α := ℝ) R zI g h (Lc : Int) (P : Int) a b d GenH.idW GenH.idV GenH.idX YI aI imsqrt cpowi sw (c : Int)
        mw fv 0 (L : Int) 1 0 F) fv 0)
      = ∑ ell ∈ Finset.Icc c L, ∑ m ∈ Finset.Icc (-(ell : ℤ)) ell, toC (mw ((ell : Int) * ((ell : Int) + 1) + m)) *
          (if sw.natAbs ≤ ell then (((-1) ^ sw.natAbs * Real.sqrt ((2 * (ell : ℝ) + 1) / (4 * Real.pi)) : ℝ) : ℂ)
              * DDef.docD ell (DDef.Ra (R 0) (R 3)) (DDef.Rb (R 1) (R 2)) m (-sw) else 0) :=
  evaluate_matrix_route_doc Lc P c sw zI aI YI fv a b d g h ht imsqrt hsq cpowi R hR hY F hz ha hza hsP hsLc mw L hL hn
end

/-! ### footprints of the matrix routes -/
section
open Frame
variable {α : Type} [Scalar α] {φ : Type} [FMem φ α] [LawfulFMem φ α]

theorem rotate_only (flm : Int → Cx α) (A : Nat) (a1 a2 a3 a4 a5 a6 : Int) (D : Int → Cx α) (n0 n1 n2 : Int) (st : φ) :
    Only α [A] st (Gen.u_rotate (α := α) flm A a1 a2 a3 a4 a5 a6 D n0 n1 n2 st) := by
  unfold Gen.u_rotate; simp only []; repeat frame_step

theorem contract_only (mw Y : Int → Cx α) (fv : Nat) (a1 a2 a3 n0 n1 : Int) (st : φ) :
    Only α [fv] st (Gen.Wigner_evaluate_matrix_contract (α := α) mw Y fv a1 a2 a3 n0 n1 st) := by
  unfold Gen.Wigner_evaluate_matrix_contract; simp only []; repeat frame_step

/-- the default route of `Wigner.rotate` writes its workspace parts, the fresh 𝔇 array and its output, nothing else -/
theorem rotate_matrix_body_only (R : Int → α) (zI : Nat) (g h : Int → α) (L P : Int) (a b d : Int → α) (Hw Hv Hx DI aI : Nat) (imsqrt : Cx α → α) (gI : Nat)
    (cmin : Int) (flm : Int → Cx α) (A : Nat) (e1 e2 sw n0 n1 n2 : Int) (st : φ) :
    Only α [Hw, Hv, Hx, zI, aI, gI, DI, A] st
      (Gen.Wigner_rotate_matrix_body (α := α) R zI g h L P a b d Hw Hv Hx DI aI imsqrt gI cmin flm A e1 e2 sw n0 n1 n2 st) := by
  unfold Gen.Wigner_rotate_matrix_body
  simp only []
  refine Only.trans _ _ _ _ ?_ (Only.mono _ _ _ _ (by intro x hx; simp only [List.mem_cons, List.mem_singleton, List.not_mem_nil, or_false] at hx ⊢; tauto) (rotate_only _ A _ _ _ _ _ _ _ _ _ _ _))
  exact Only.mono _ _ _ _ (by intro x hx; simp only [List.mem_cons, List.mem_singleton, List.not_mem_nil, or_false] at hx ⊢; tauto)
    (GenMethod.D_rotor_only R zI g h L P a b d Hw Hv Hx DI aI imsqrt gI cmin st)

/-- the default route of `Wigner.evaluate`, one rotor: workspace parts, the array `Y`, the output column -/
theorem evaluate_matrix_rotor_only (R : Int → α) (zI : Nat) (g h : Int → α) (L P : Int) (a b d : Int → α) (Hw Hv Hx YI aI : Nat) (imsqrt : Cx α → α)
    (cpowi : Cx α → Int → Cx α) (sw cmin : Int) (mw : Int → Cx α) (fv : Nat) (e1 e2 n0 n1 : Int) (st : φ) :
    Only α [Hw, Hv, Hx, zI, aI, YI, fv] st
      (Gen.Wigner_evaluate_matrix_rotor (α := α) R zI g h L P a b d Hw Hv Hx YI aI imsqrt cpowi sw cmin mw fv e1 e2 n0 n1 st) := by
  unfold Gen.Wigner_evaluate_matrix_rotor
  simp only []
  refine Only.trans _ _ _ _ ?_ (Only.mono _ _ _ _ (by intro x hx; simp only [List.mem_cons, List.mem_singleton, List.not_mem_nil, or_false] at hx ⊢; tauto) (contract_only _ _ fv _ _ _ _ _ _))
  exact Only.mono _ _ _ _ (by intro x hx; simp only [List.mem_cons, List.mem_singleton, List.not_mem_nil, or_false] at hx ⊢; tauto)
    (GenMethod.sYlm_rotor_only R zI g h L P a b d Hw Hv Hx YI aI imsqrt cpowi sw cmin st)
end
end GenRotM
