import SphericalVerif.Model.Modes
import SphericalVerif.Lemmas.Modes
import SphericalVerif.Props.C11
/-! C06 — multiplying Modes objects: metadata rules of every spelling, and the loop nest of
    `_multiplication_helper` (in-bounds indices; truncation = cut of the full product, term for term).

    Property theorems only (helpers in `Lemmas/Modes.lean`), about the executable model `Model.Modes`
    (validated against the real class, and the term list against the helper's own sequence of reads and writes,
    by `vlib/glue_modes.py`).  For every spin weight and every size. -/
namespace C06
open Gen Spec Model.Modes

/-- what the truncators compute from `(L1, L2)` -/
theorem truncators (a b k : Int) :
    Trunc.sum.apply a b = a + b ∧ Trunc.max.apply a b = max a b ∧ Trunc.min.apply a b = min a b
    ∧ (Trunc.const k).apply a b = k := ⟨rfl, rfl, rfl, rfl⟩

/-- Modes × Modes with broadcastable leading shapes: the spin weights add; the operator / ufunc form takes
    `ell_max` = the greater of what the two operands' metadata truncators (default `sum`) return for `(L1, L2)`,
    i.e. `L1 + L2` when neither operand carries one; `Modes.multiply(other, truncator)` takes what the given
    truncator returns.  The result has `Ysize 0 ell_max` entries and inherits the first operand's truncator. -/
theorem mul_meta (m1 m2 : Obj) (ld : List Nat) (t : Trunc) (hb : bcast m1.lead m2.lead = some ld) :
    let L1 := m1.md.ellMax
    let L2 := m2.md.ellMax
    let Lop := max ((m1.md.trunc.getD .sum).apply L1 L2) ((m2.md.trunc.getD .sum).apply L1 L2)
    arrayUfunc { uf := .multiply, args := [.modes m1, .modes m2] }
        = .modes ⟨⟨m1.md.spin + m2.md.spin, Lop, m1.md.trunc⟩, ld, (Ysize 0 Lop).toNat⟩ none
    ∧ methodMultiply m1 (.modes m2) (some t)
        = .modes ⟨⟨m1.md.spin + m2.md.spin, t.apply L1 L2, m1.md.trunc⟩, ld, (Ysize 0 (t.apply L1 L2)).toNat⟩ none
    ∧ (m1.md.trunc = none → m2.md.trunc = none → Lop = L1 + L2) := by
  intro L1 L2 Lop
  refine ⟨?_, ?_, ?_⟩
  · have h := Lemmas.Modes.mulCore_ok m1 m1 m2 none ld none hb rfl
    simp only [arrayUfunc, Lemmas.Modes.selfOf_first, UFunc.passthrough, UFunc.allowed]
    exact h
  · exact Lemmas.Modes.mulCore_ok m1 m1 m2 (some t) ld none hb rfl
  · intro h1 h2
    show max _ _ = _
    rw [h1, h2]
    simp [Trunc.apply]

example : ∃ m1 m2 : Obj, ∃ ld, bcast m1.lead m2.lead = some ld ∧ m1.md.trunc = none ∧ m2.md.trunc = none :=
  ⟨⟨⟨-2, 2, none⟩, [2, 1], 9⟩, ⟨⟨1, 3, none⟩, [3], 16⟩, [2, 3], by decide⟩

/-- `f * g`, `np.multiply(f, g)` and `f.multiply(g)` (no truncator) are the same computation; non-broadcastable
    leading shapes raise ValueError in each. -/
theorem mul_spellings_agree (m1 m2 : Obj) :
    binop .mul (.modes m1) (.modes m2) = arrayUfunc { uf := .multiply, args := [.modes m1, .modes m2] }
    ∧ methodMultiply m1 (.modes m2) none = arrayUfunc { uf := .multiply, args := [.modes m1, .modes m2] }
    ∧ (bcast m1.lead m2.lead = none →
        arrayUfunc { uf := .multiply, args := [.modes m1, .modes m2] } = .err .valueError) := by
  have h : arrayUfunc { uf := .multiply, args := [.modes m1, .modes m2] } = mulCore m1 m1 m2 none none := by
    simp [arrayUfunc, Lemmas.Modes.selfOf_first, UFunc.passthrough, UFunc.allowed]
  refine ⟨rfl, ?_, ?_⟩
  · rw [h]; rfl
  · intro hb
    rw [h, Lemmas.Modes.mulCore_nobcast _ _ _ _ _ hb]

example : ∃ m1 m2 : Obj, bcast m1.lead m2.lead = none := ⟨⟨⟨0, 1, none⟩, [2], 4⟩, ⟨⟨0, 1, none⟩, [3], 4⟩, by decide⟩

/-- `np.multiply(f, g, out=o)` and `f *= g` with an output of exactly the product's shape return the same Modes (a
    view of `o`) as the call without `out`; a Modes held in `out` receives the product's metadata. -/
theorem mul_out_outcome (m1 m2 : Obj) (ld : List Nat) (out : Operand) (hb : bcast m1.lead m2.lead = some ld) :
    let L := productEllMax m1 m2 none
    let mt : Meta := ⟨m1.md.spin + m2.md.spin, L, m1.md.trunc⟩
    out.shape = ld ++ [(Ysize 0 L).toNat] →
      arrayUfunc { uf := .multiply, args := [.modes m1, .modes m2], out := some out }
        = .modes ⟨mt, ld, (Ysize 0 L).toNat⟩ (if out.isModes then some mt else none) := by
  intro L mt ho
  have ho' : outShapeOk (ld ++ [(Ysize 0 L).toNat]) (some out) = true := by simp [outShapeOk, ho]
  have h := Lemmas.Modes.mulCore_ok m1 m1 m2 none ld (some out) hb ho'
  simp only [arrayUfunc, Lemmas.Modes.selfOf_first, UFunc.passthrough, UFunc.allowed]
  rw [h]
  cases out <;> rfl

example : ∃ (m1 m2 : Obj) (ld : List Nat) (out : Operand), bcast m1.lead m2.lead = some ld
    ∧ out.shape = ld ++ [(Ysize 0 (productEllMax m1 m2 none)).toNat] :=
  ⟨⟨⟨0, 1, none⟩, [], 4⟩, ⟨⟨0, 0, none⟩, [], 1⟩, [], .modes ⟨⟨0, 1, none⟩, [], 4⟩, by decide⟩

/-- An output of any other shape is rejected with ValueError before anything is written — in particular
    `f *= g` whenever the product needs a different number of modes than `f` holds (formerly out-of-bounds writes). -/
theorem mul_out_wrong_shape_rejected (m1 m2 : Obj) (ld : List Nat) (out : Operand)
    (hb : bcast m1.lead m2.lead = some ld)
    (ho : out.shape ≠ ld ++ [(Ysize 0 (productEllMax m1 m2 none)).toNat]) :
    arrayUfunc { uf := .multiply, args := [.modes m1, .modes m2], out := some out } = .err .valueError
    ∧ (out = .modes m1 → inplaceOp .mul (.modes m1) (.modes m2) = .err .valueError) := by
  have ho' : outShapeOk (ld ++ [(Ysize 0 (productEllMax m1 m2 none)).toNat]) (some out) = false := by
    simp [outShapeOk, ho]
  have h := Lemmas.Modes.mulCore_badout m1 m1 m2 none ld (some out) hb ho'
  have e : arrayUfunc { uf := .multiply, args := [.modes m1, .modes m2], out := some out } = .err .valueError := by
    simp only [arrayUfunc, Lemmas.Modes.selfOf_first, UFunc.passthrough, UFunc.allowed]
    exact h
  refine ⟨e, ?_⟩
  intro hout
  subst hout
  exact e

example : ∃ (m1 m2 : Obj) (ld : List Nat) (out : Operand), bcast m1.lead m2.lead = some ld
    ∧ out.shape ≠ ld ++ [(Ysize 0 (productEllMax m1 m2 none)).toNat] ∧ out = .modes m1 :=
  ⟨⟨⟨0, 1, none⟩, [], 4⟩, ⟨⟨0, 2, none⟩, [], 9⟩, [], .modes ⟨⟨0, 1, none⟩, [], 4⟩, by decide⟩

/-- The entries: with `out=` (any buffer `bo`, whatever it held before, also when it is an operand's buffer, as in
    `f *= g`) the output row is exactly the row the call without `out` accumulates in a fresh array of zeros from
    the operands' content before the call; no other buffer is changed. -/
theorem mul_out_overwrites {β : Type} (add : β → β → β) (val : (Nat → β) → (Nat → β) → Term → β) (zero : β)
    (L1 L2 L : Int) (mem : Nat → Row β) (b1 b2 fresh bo : Nat) :
    (mulEntries add val zero L1 L2 L mem b1 b2 fresh (some bo)).1 bo
      = (mulEntries add val zero L1 L2 L mem b1 b2 fresh none).1 fresh
    ∧ (mulEntries add val zero L1 L2 L mem b1 b2 fresh (some bo)).2 = bo
    ∧ (∀ i, i ≠ bo → (mulEntries add val zero L1 L2 L mem b1 b2 fresh (some bo)).1 i = mem i)
    ∧ (mulEntries add val zero L1 L2 L mem b1 b2 fresh none).1 fresh
        = accumulate add (val (mem b1).get (mem b2).get) (terms L1 L2 L) ⟨fun _ => zero⟩ := by
  obtain ⟨a, b, c⟩ := Lemmas.Modes.mulEntries_out add val zero L1 L2 L mem b1 b2 fresh bo
  refine ⟨a, b, c, ?_⟩
  simp [mulEntries]

/-- Multiplying by a scalar or by an array that broadcasts against the leading shape (no more dimensions than
    it): spin weight, `ell_max`, truncator and the mode axis are kept, in every spelling and on either side. -/
theorem scalar_mul_keeps_meta (m : Obj) (sh ld : List Nat) (nz : Bool) (w : WellFormed m)
    (hlen : sh.length ≤ m.lead.length) (hb : bcast m.lead sh = some ld) :
    let good : Outcome := .modes ⟨m.md, ld, m.n⟩ none
    arrayUfunc { uf := .multiply, args := [.modes m, .arr sh nz] } = good
    ∧ arrayUfunc { uf := .multiply, args := [.arr sh nz, .modes m] } = good
    ∧ binop .mul (.modes m) (.arr sh nz) = good ∧ binop .mul (.arr sh nz) (.modes m) = good
    ∧ methodMultiply m (.arr sh nz) none = good := by
  intro good
  have hs := Lemmas.Modes.scalarBranch_ok m m sh ld nz false w (by simp) hlen hb rfl
  have h1 : arrayUfunc { uf := .multiply, args := [.modes m, .arr sh nz] } = good := by
    simp only [arrayUfunc, Lemmas.Modes.selfOf_first, UFunc.passthrough, UFunc.allowed]
    exact hs
  have h2 : arrayUfunc { uf := .multiply, args := [.arr sh nz, .modes m] } = good := by
    simp only [arrayUfunc, Lemmas.Modes.selfOf_second, UFunc.passthrough, UFunc.allowed]
    exact hs
  refine ⟨h1, h2, h1, h2, ?_⟩
  have hc : checkBroadcasting m sh = .yes := by
    unfold checkBroadcasting Obj.shape
    rw [if_neg (by simp; omega), hb]; rfl
  unfold methodMultiply
  simp only [hc]
  exact h1

example : ∃ (m : Obj) (sh ld : List Nat), WellFormed m ∧ sh.length ≤ m.lead.length ∧ bcast m.lead sh = some ld :=
  ⟨⟨⟨1, 2, none⟩, [2, 1], 9⟩, [3], [2, 3], by decide⟩

/-- An array with more dimensions than the leading shape (one that would act on individual modes) raises
    ValueError in every spelling; one that does not broadcast gives NotImplemented (TypeError) from the ufunc and
    ValueError from the method. -/
theorem per_mode_mul_rejected (m : Obj) (sh : List Nat) (nz : Bool) :
    (m.lead.length < sh.length →
      arrayUfunc { uf := .multiply, args := [.modes m, .arr sh nz] } = .err .valueError
      ∧ arrayUfunc { uf := .multiply, args := [.arr sh nz, .modes m] } = .err .valueError
      ∧ methodMultiply m (.arr sh nz) none = .err .valueError)
    ∧ (sh.length ≤ m.lead.length → bcast m.lead sh = none →
      arrayUfunc { uf := .multiply, args := [.modes m, .arr sh nz] } = .err .notImplemented
      ∧ methodMultiply m (.arr sh nz) none = .err .valueError) := by
  constructor
  · intro h
    have hc : checkBroadcasting m sh = .raise := by
      unfold checkBroadcasting Obj.shape
      rw [if_pos (by simp; omega)]
    simp [arrayUfunc, Lemmas.Modes.selfOf_first, Lemmas.Modes.selfOf_second, UFunc.passthrough, UFunc.allowed,
      scalarBranch, methodMultiply, hc]
  · intro h hb
    have hc : checkBroadcasting m sh = .no := by
      unfold checkBroadcasting Obj.shape
      rw [if_neg (by simp; omega), hb]; rfl
    simp [arrayUfunc, Lemmas.Modes.selfOf_first, UFunc.passthrough, UFunc.allowed, scalarBranch, methodMultiply, hc]

example : ∃ (m : Obj) (sh : List Nat), m.lead.length < sh.length := ⟨⟨⟨1, 2, none⟩, [], 9⟩, [9], by decide⟩
example : ∃ (m : Obj) (sh : List Nat), sh.length ≤ m.lead.length ∧ bcast m.lead sh = none :=
  ⟨⟨⟨1, 2, none⟩, [2], 9⟩, [3], by decide⟩

/-- Dividing by a scalar or an array broadcasting against the leading shape keeps all metadata (`np.divide`,
    `np.true_divide`, `/`, `Modes.divide`). -/
theorem div_scalar_keeps_meta (uf : UFunc) (hu : uf = .divide ∨ uf = .trueDivide) (m : Obj) (sh ld : List Nat)
    (nz : Bool) (w : WellFormed m) (hlen : sh.length ≤ m.lead.length) (hb : bcast m.lead sh = some ld) :
    let good : Outcome := .modes ⟨m.md, ld, m.n⟩ none
    arrayUfunc { uf := uf, args := [.modes m, .arr sh nz] } = good
    ∧ binop .div (.modes m) (.arr sh nz) = good
    ∧ methodDivide m (.arr sh nz) = good := by
  intro good
  have hs := Lemmas.Modes.scalarBranch_ok m m sh ld nz false w (by simp) hlen hb rfl
  have h1 : ∀ uf', uf' = UFunc.divide ∨ uf' = UFunc.trueDivide →
      arrayUfunc { uf := uf', args := [.modes m, .arr sh nz] } = good := by
    intro uf' hu'
    rcases hu' with rfl | rfl <;>
      (simp only [arrayUfunc, Lemmas.Modes.selfOf_first, UFunc.passthrough, UFunc.allowed]; exact hs)
  exact ⟨h1 uf hu, h1 .trueDivide (Or.inr rfl), h1 .trueDivide (Or.inr rfl)⟩

/-! ### the helper's loop nest -/

/-- Every term `(ell1, m1, ell2, m2, ell3)` the helper visits (for operands with `ell_max` `L1`, `L2` and an output
    with `ellmax_fg`) writes at an index inside the output row and reads inside the two input rows; the indices
    are the documented positions of `(ell3, m1+m2)`, `(ell1, m1)`, `(ell2, m2)` (C11); and `ell3 ≤ ell1 + ell2`
    (inside the 3-j vectors). -/
theorem helper_in_bounds (L1 L2 Lfg : Int) (t : Term) (ht : t ∈ terms L1 L2 Lfg) :
    let ell1 := t.1
    let m1 := t.2.1
    let ell2 := t.2.2.1
    let m2 := t.2.2.2.1
    let ell3 := t.2.2.2.2
    (0 ≤ Yindex ell3 (m1 + m2) 0 ∧ Yindex ell3 (m1 + m2) 0 < Ysize 0 Lfg
      ∧ (yRange 0 Lfg)[(Yindex ell3 (m1 + m2) 0).toNat]? = some (ell3, m1 + m2))
    ∧ (0 ≤ Yindex ell1 m1 0 ∧ Yindex ell1 m1 0 < Ysize 0 L1 ∧ (yRange 0 L1)[(Yindex ell1 m1 0).toNat]? = some (ell1, m1))
    ∧ (0 ≤ Yindex ell2 m2 0 ∧ Yindex ell2 m2 0 < Ysize 0 L2 ∧ (yRange 0 L2)[(Yindex ell2 m2 0).toNat]? = some (ell2, m2))
    ∧ (0 ≤ ell3 ∧ ell3 ≤ ell1 + ell2 ∧ ell3 ≤ L1 + L2) := by
  rw [Lemmas.Modes.mem_terms] at ht
  obtain ⟨h1, h2, h3, h4, h5, h6, h7, h8, h9, h10⟩ := ht
  intro ell1 m1 ell2 m2 ell3
  refine ⟨?_, ?_, ?_, ?_⟩
  · exact C11.yindex_get 0 Lfg ell3 (m1 + m2) (le_refl 0) (by omega) (by omega) (by omega) (by omega)
  · exact C11.yindex_get 0 L1 ell1 m1 (le_refl 0) h1 h2 h3 h4
  · exact C11.yindex_get 0 L2 ell2 m2 (le_refl 0) h5 h6 h7 h8
  · omega

example : ∃ (L1 L2 Lfg : Int) (t : Term), t ∈ terms L1 L2 Lfg :=
  ⟨1, 1, 2, (1, -1, 1, 0, 1), (Lemmas.Modes.mem_terms 1 1 2 _).2 (by decide)⟩

/-- Truncation drops only high `ell3`: the terms the helper visits for `ellmax_fg = L'` are exactly, and in the
    same order, those it visits for any larger `ellmax_fg` that have `ell3 ≤ L'`. -/
theorem truncation_drops_only_high_ell (L1 L2 Lfg L' : Int) (h : L' ≤ Lfg) :
    (terms L1 L2 Lfg).filter (fun t => decide (t.ell3 ≤ L')) = terms L1 L2 L' :=
  Lemmas.Modes.terms_filter L1 L2 Lfg L' h

example : ∃ Lfg L' : Int, L' ≤ Lfg := ⟨5, 2, by decide⟩

/-- Hence the truncated product is the cut full product, entry by entry and operation by operation: for any
    accumulation `add`, any term values `val` (which do not depend on `ellmax_fg`) and any initial content, every
    entry below `Ysize 0 L'` is the same accumulation whether the helper runs with `ellmax_fg = L'` or larger. -/
theorem truncated_product_is_cut {β : Type} (add : β → β → β) (val : Term → β) (L1 L2 Lfg L' : Int)
    (h : L' ≤ Lfg) (hL : -1 ≤ L') (fg0 : Row β) (p : Nat) (hp : (p : Int) < Ysize 0 L') :
    (accumulate add val (terms L1 L2 Lfg) fg0).get p = (accumulate add val (terms L1 L2 L') fg0).get p :=
  Lemmas.Modes.accumulate_truncation add val L1 L2 Lfg L' h hL fg0 p hp

example : ∃ (Lfg L' : Int) (p : Nat), L' ≤ Lfg ∧ -1 ≤ L' ∧ (p : Int) < Ysize 0 L' := ⟨5, 2, 8, by decide⟩

/-- …and each entry is the in-order accumulation of exactly the terms writing to it. -/
theorem helper_entry {β : Type} (add : β → β → β) (val : Term → β) (ts : List Term) (fg0 : Row β) (p : Nat) :
    (accumulate add val ts fg0).get p
      = (ts.filter (fun t => decide (t.widx = p))).foldl (fun a t => add a (val t)) (fg0.get p) :=
  Lemmas.Modes.accumulate_get add val ts fg0 p

end C06
