import SphericalVerif.Lemmas.Operators
/-! C19 (exact-arithmetic part) — the constant/vector conversions of spherical/utilities/mode_conversions.py are the
    `ell = 0` and `ell = 1` scalar harmonics.

    Property theorems only; helpers live in `Lemmas/Operators.lean`.  Statements are about the hand-written model
    `Model/Operators.lean` (`constantAsEll0`, `constantFromEll0`, `vectorAsEll1`, `vectorFromEll1`, validated bit for
    bit against the numba functions at `Float`, vlib/glue_diff.py) run at `α := ℝ`.  The three constants of the
    source are parameters `K` of the model; the round trips hold for ANY nonzero constants, the harmonic identities
    for the exact values `Kreal = (√(4π), √(2π/3), √(4π/3))`.
    A conversion acts on one constant / one 3-vector: arrays are converted entry by entry along the last axis
    (checked bit for bit by the harness), so the statements below are the componentwise statements.

    Ordering convention of the code: the weights are `(w₋₁, w₀, w₁) = ((vx + i vy)·√(2π/3), vz·√(4π/3), (-vx + i vy)·√(2π/3))`. -/
namespace C19
open Model Model.Ops OpsL

/-! ### round trips -/

/-- `constant_from_ell_0_mode(constant_as_ell_0_mode(c)) = c` and the other order, for every complex `c` -/
theorem constant_round_trip (K : ConvConsts ℝ) (hk : K.sqrt4pi ≠ 0) (c : Cx ℝ) :
    constantFromEll0 K (constantAsEll0 K c) = c ∧ constantAsEll0 K (constantFromEll0 K c) = c := by
  simp only [constantFromEll0, constantAsEll0, div_ofRe, mulr_eq]
  constructor <;> apply cx_ext <;> simp <;> field_simp

/-- the float (real-constant) variants are the complex ones restricted to real input -/
theorem constant_real_variant (K : ConvConsts ℝ) (c : ℝ) :
    constantAsEll0 K (Cx.ofRe c) = Cx.ofRe (constantAsEll0R K c) ∧
    constantFromEll0 K (Cx.ofRe c) = Cx.ofRe (constantFromEll0R K c) := by
  simp only [constantFromEll0, constantAsEll0, constantAsEll0R, constantFromEll0R, div_ofRe, mulr_eq]
  constructor <;> apply cx_ext <;> simp

/-- `vector_from_ell_1_modes(vector_as_ell_1_modes(v)) = v` for every COMPLEX 3-vector, component by component -/
theorem vector_round_trip (K : ConvConsts ℝ) (h2 : K.sqrt2pi3 ≠ 0) (h4 : K.sqrt4pi3 ≠ 0) (v : Vec3 (Cx ℝ)) :
    (vectorFromEll1 K (vectorAsEll1 K v)).x = v.x ∧ (vectorFromEll1 K (vectorAsEll1 K v)).y = v.y ∧
    (vectorFromEll1 K (vectorAsEll1 K v)).z = v.z := by
  have h22 : (2 : ℝ) * K.sqrt2pi3 ≠ 0 := mul_ne_zero two_ne_zero h2
  have e : Cx.mul (⟨zero, Scalar.ofInt 2⟩ : Cx ℝ) (Cx.ofRe K.sqrt2pi3) = ⟨0, 2 * K.sqrt2pi3⟩ := by
    apply cx_ext <;> simp
  simp only [vectorFromEll1, vectorAsEll1, e, div_imag _ _ h22, div_ofRe]
  refine ⟨?_, ?_, ?_⟩ <;> apply cx_ext <;> simp <;> field_simp <;> ring

/-- `vector_as_ell_1_modes(vector_from_ell_1_modes(w)) = w` for every triple of complex weights -/
theorem vector_round_trip' (K : ConvConsts ℝ) (h2 : K.sqrt2pi3 ≠ 0) (h4 : K.sqrt4pi3 ≠ 0) (w : Vec3 (Cx ℝ)) :
    (vectorAsEll1 K (vectorFromEll1 K w)).x = w.x ∧ (vectorAsEll1 K (vectorFromEll1 K w)).y = w.y ∧
    (vectorAsEll1 K (vectorFromEll1 K w)).z = w.z := by
  have h22 : (2 : ℝ) * K.sqrt2pi3 ≠ 0 := mul_ne_zero two_ne_zero h2
  have e : Cx.mul (⟨zero, Scalar.ofInt 2⟩ : Cx ℝ) (Cx.ofRe K.sqrt2pi3) = ⟨0, 2 * K.sqrt2pi3⟩ := by
    apply cx_ext <;> simp
  simp only [vectorFromEll1, vectorAsEll1, e, div_imag _ _ h22, div_ofRe]
  refine ⟨?_, ?_, ?_⟩ <;> apply cx_ext <;> simp <;> field_simp <;> ring

/-- the float-vector variant is the complex one on a real vector -/
theorem vector_real_variant (K : ConvConsts ℝ) (v : Vec3 ℝ) :
    (vectorAsEll1R K v).x = (vectorAsEll1 K ⟨Cx.ofRe v.x, Cx.ofRe v.y, Cx.ofRe v.z⟩).x ∧
    (vectorAsEll1R K v).y = (vectorAsEll1 K ⟨Cx.ofRe v.x, Cx.ofRe v.y, Cx.ofRe v.z⟩).y ∧
    (vectorAsEll1R K v).z = (vectorAsEll1 K ⟨Cx.ofRe v.x, Cx.ofRe v.y, Cx.ofRe v.z⟩).z := by
  refine ⟨rfl, ?_, ?_⟩ <;> apply cx_ext <;> simp [vectorAsEll1R, vectorAsEll1]

/-- the round trips with the constants of the source, `(√(4π), √(2π/3), √(4π/3))` -/
theorem round_trips_Kreal (c : Cx ℝ) (v : Vec3 (Cx ℝ)) :
    constantFromEll0 Kreal (constantAsEll0 Kreal c) = c ∧
    (vectorFromEll1 Kreal (vectorAsEll1 Kreal v)).x = v.x ∧ (vectorFromEll1 Kreal (vectorAsEll1 Kreal v)).y = v.y ∧
    (vectorFromEll1 Kreal (vectorAsEll1 Kreal v)).z = v.z ∧
    (vectorAsEll1 Kreal (vectorFromEll1 Kreal v)).x = v.x ∧ (vectorAsEll1 Kreal (vectorFromEll1 Kreal v)).y = v.y ∧
    (vectorAsEll1 Kreal (vectorFromEll1 Kreal v)).z = v.z := by
  obtain ⟨a1, a2, a3⟩ := vector_round_trip Kreal Kreal_sqrt2pi3_pos.ne' Kreal_sqrt4pi3_pos.ne' v
  obtain ⟨b1, b2, b3⟩ := vector_round_trip' Kreal Kreal_sqrt2pi3_pos.ne' Kreal_sqrt4pi3_pos.ne' v
  exact ⟨(constant_round_trip Kreal Kreal_sqrt4pi_pos.ne' c).1, a1, a2, a3, b1, b2, b3⟩

/-! ### the weights are the coefficients of the `ell = 0`, `ell = 1` scalar harmonics -/

/-- `ell = 0`: with `Y₀₀ = 1/√(4π)`, the weight `constant_as_ell_0_mode(c)` times `Y₀₀` is `c` (at every point) -/
theorem constant_is_Y00 (c : Cx ℝ) : Cx.mul (constantAsEll0 Kreal c) Y00 = c := by
  have h := Kreal_sqrt4pi_pos.ne'
  have e : Kreal.sqrt4pi = Real.sqrt (4 * Real.pi) := rfl
  simp only [constantAsEll0, Y00, mulr_eq, mul_eq, ← e]
  apply cx_ext <;> simp <;> field_simp

/-- `ell = 1`: with `Y₁,₋₁ = √(3/8π) sin θ e^{-iφ}`, `Y₁,₀ = √(3/4π) cos θ`, `Y₁,₁ = -√(3/8π) sin θ e^{iφ}`
    (definitions `OpsL.Y1m1`, `Y10`, `Y1p1`, in components), the weights `(w₋₁, w₀, w₁) = vector_as_ell_1_modes(v)` of a
    complex vector `v` satisfy `Σₘ wₘ Y₁ₘ(θ, φ) = v · n̂(θ, φ)`, `n̂ = (sin θ cos φ, sin θ sin φ, cos θ)`,
    for all real `θ`, `φ` (poles included) -/
theorem vector_is_Y1 (v : Vec3 (Cx ℝ)) (θ φ : ℝ) :
    Cx.add (Cx.add (Cx.mul (vectorAsEll1 Kreal v).x (Y1m1 θ φ)) (Cx.mul (vectorAsEll1 Kreal v).y (Y10 θ φ)))
        (Cx.mul (vectorAsEll1 Kreal v).z (Y1p1 θ φ)) = dot v (nhat θ φ) :=
  y1_sum Kreal (Real.sqrt (3 / (8 * Real.pi))) (Real.sqrt (3 / (4 * Real.pi))) (Real.sin θ) (Real.cos θ)
    (Real.cos φ) (Real.sin φ) k_half k_one v

/-- the same identity for a real (float) vector through the float variant of the code -/
theorem real_vector_is_Y1 (v : Vec3 ℝ) (θ φ : ℝ) :
    Cx.add (Cx.add (Cx.mul (vectorAsEll1R Kreal v).x (Y1m1 θ φ)) (Cx.mul (vectorAsEll1R Kreal v).y (Y10 θ φ)))
        (Cx.mul (vectorAsEll1R Kreal v).z (Y1p1 θ φ)) =
      ⟨v.x * (Real.sin θ * Real.cos φ) + v.y * (Real.sin θ * Real.sin φ) + v.z * Real.cos θ, 0⟩ := by
  obtain ⟨e1, e2, e3⟩ := vector_real_variant Kreal v
  rw [e1, e2, e3, vector_is_Y1]
  apply cx_ext <;> simp [dot, nhat]

/-- the component definitions of `Y₁,±1` are the usual `∓√(3/8π) sin θ e^{±iφ}` in Mathlib's `ℂ` -/
theorem Y1_standard_form (θ φ : ℝ) :
    toC (Y1p1 θ φ) = -((Real.sqrt (3 / (8 * Real.pi)) * Real.sin θ : ℝ) : ℂ) * Complex.exp (φ * Complex.I) ∧
    toC (Y1m1 θ φ) = ((Real.sqrt (3 / (8 * Real.pi)) * Real.sin θ : ℝ) : ℂ) * Complex.exp (-(φ * Complex.I)) :=
  toC_Y1 θ φ

/-- what the dot product is, in components (complex-bilinear, no conjugation) -/
theorem dot_components (v : Vec3 (Cx ℝ)) (n : Vec3 ℝ) :
    dot v n = ⟨v.x.re * n.x + v.y.re * n.y + v.z.re * n.z, v.x.im * n.x + v.y.im * n.y + v.z.im * n.z⟩ := by
  apply cx_ext <;> simp [dot]

/-- for a REAL vector the weights satisfy the reality condition of a real scalar field: `w₁ = -conj(w₋₁)`, `w₀` real -/
theorem real_vector_reality (K : ConvConsts ℝ) (v : Vec3 ℝ) :
    (vectorAsEll1R K v).z = cneg (Cx.conj (vectorAsEll1R K v).x) ∧ (vectorAsEll1R K v).y.im = 0 := by
  simp only [vectorAsEll1R]
  refine ⟨?_, by simp⟩
  apply cx_ext <;> simp [Cx.conj]

/-! ### the hypotheses are satisfiable -/

/-- the hypotheses of the round-trip theorems hold for the constants of the source -/
example : ∃ K : ConvConsts ℝ, K.sqrt4pi ≠ 0 ∧ K.sqrt2pi3 ≠ 0 ∧ K.sqrt4pi3 ≠ 0 ∧ K.sqrt4pi = Real.sqrt (4 * Real.pi) :=
  ⟨Kreal, Kreal_sqrt4pi_pos.ne', Kreal_sqrt2pi3_pos.ne', Kreal_sqrt4pi3_pos.ne', rfl⟩

end C19
