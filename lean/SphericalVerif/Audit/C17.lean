import SphericalVerif.Props.C17
import SphericalVerif.Props.HKernel
#print axioms C17.objDvec_eq_map
#print axioms C17.objYvec_eq_map
#print axioms C17.objDvec_getElem
#print axioms C17.objDloop_mem
#print axioms C17.evaluateHornerK_out_indep
#print axioms C17.evaluateHornerK_eq
#print axioms HKernel.runH_pure
#print axioms HKernel.runH_size_indep
