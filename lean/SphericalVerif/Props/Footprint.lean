import SphericalVerif.Lemmas.Frame
import SphericalVerif.Props.GenChain
/-! Footprint — **what each kernel writes, from the source of each kernel**.

    For every generated kernel (regenerated from the Python text on every run) and for every size, arithmetic and memory
    content: the memory after the call differs from the memory before it at most on the arrays the kernel is handed *for
    writing* — `Wigner.H` on `Hwedge, Hv, Hextra`; the fill kernels on their output; `_evaluate_Horner` on `function_values`;
    `_rotate_Horner` on `fₗₙ` and its two scratch rows; `_complex_powers` on `zpowers`; the Euler-phase kernel on `z`.  In
    particular no kernel ever writes a coefficient table, an input, or an array of another call: this is the kernel-level
    content of C10 ("a call with a private workspace and output touches nothing else"), C09 (inputs are never written) and
    the frame assumption of `GenChain` — which `gen_D_chain_inplace` now discharges: the chain that re-reads its inputs from
    the current memory, exactly as `Wigner.D` does, equals the chain with captured values, for pairwise distinct arrays.

    Proved by `frame_step`, a tactic that decomposes the generated text with the closure rules of `Lemmas/Frame` (stores,
    conditionals, loops): it succeeds iff every `fwr`/`fwrC` of the text names one of the listed arrays, so a change that makes a
    kernel write elsewhere breaks the proof. -/
namespace Footprint
open Gen Frame

section
variable {α : Type} [Scalar α] {φ : Type} [FMem φ α] [LawfulFMem φ α]

theorem step3_only (a b : Int → α) (n_max mp_max : Int) (Hw Hx : Nat) (z : Cx α) (st : φ) :
    Only α [Hw, Hx] st (Gen.u_step_3 (α := α) a b n_max mp_max Hw Hx z st) := by
  unfold Gen.u_step_3
  simp only []
  repeat frame_step

theorem step1_only (Hw : Nat) (st : φ) : Only α [Hw] st (Gen.u_step_1 (α := α) Hw st) := by
  unfold Gen.u_step_1; simp only []; repeat frame_step

theorem step2_only (g h : Int → α) (n_max mp_max : Int) (Hw Hx Hv : Nat) (z : Cx α) (st : φ) :
    Only α [Hw, Hx, Hv] st (Gen.u_step_2 (α := α) g h n_max mp_max Hw Hx Hv z st) := by
  unfold Gen.u_step_2; simp only []; repeat frame_step

theorem step4_only (d : Int → α) (n_max mp_max : Int) (Hw Hv : Nat) (st : φ) :
    Only α [Hw, Hv] st (Gen.u_step_4 (α := α) d n_max mp_max Hw Hv st) := by
  unfold Gen.u_step_4; simp only []; repeat frame_step

theorem step5_only (d : Int → α) (n_max mp_max : Int) (Hw Hv : Nat) (st : φ) :
    Only α [Hw, Hv] st (Gen.u_step_5 (α := α) d n_max mp_max Hw Hv st) := by
  unfold Gen.u_step_5; simp only []; repeat frame_step

theorem fill_d_only (ell_min ell_max mp_max : Int) (d : Nat) (Hw : Int → α) (st : φ) :
    Only α [d] st (Gen.u_fill_wigner_d (α := α) ell_min ell_max mp_max d Hw st) := by
  unfold Gen.u_fill_wigner_d; simp only []; repeat frame_step

theorem fill_D_only (ell_min ell_max mp_max : Int) (D : Nat) (Hw : Int → α) (za zg : Int → Cx α) (st : φ) :
    Only α [D] st (Gen.u_fill_wigner_D (α := α) ell_min ell_max mp_max D Hw za zg st) := by
  unfold Gen.u_fill_wigner_D; simp only []; repeat frame_step

theorem fill_sYlm_only (ell_min ell_max mp_max s : Int) (Y : Nat) (Hw : Int → α) (za : Int → Cx α) (zg : Cx α) (st : φ) :
    Only α [Y] st (Gen.u_fill_sYlm (α := α) ell_min ell_max mp_max s Y Hw za zg st) := by
  unfold Gen.u_fill_sYlm; simp only []; repeat frame_step

theorem euler_only (R : Int → α) (z : Nat) (st : φ) : Only α [z] st (Gen.u_to_euler_phases (α := α) R z st) := by
  unfold Gen.u_to_euler_phases; simp only []; repeat frame_step

theorem cpow_only (zr : Int → Cx α) (M : Int) (zp : Nat) (n nc : Int) (imsqrt : Cx α → α) (fuel : Nat) (st : φ) :
    Only α [zp] st (Gen.u_complex_powers (α := α) zr M zp n nc imsqrt fuel st) := by
  unfold Gen.u_complex_powers; simp only []; repeat frame_step

theorem evalH_only (mw : Int → Cx α) (fv : Nat) (a1 a2 a3 a4 a5 a6 : Int) (Hw : Int → α) (za zg : Cx α) (n nc : Int)
    (cpowi : Cx α → Int → Cx α) (st : φ) :
    Only α [fv] st (Gen.u_evaluate_Horner (α := α) mw fv a1 a2 a3 a4 a5 a6 Hw za zg n nc cpowi st) := by
  unfold Gen.u_evaluate_Horner; simp only []; repeat frame_step

theorem rotH_only (flm : Int → Cx α) (fln : Nat) (a1 a2 a3 a4 a5 a6 : Int) (Hw : Int → α) (za zg : Cx α) (nT pT : Nat)
    (n1 n2 n3 n4 : Int) (cpowi : Cx α → Int → Cx α) (st : φ) :
    Only α [fln, nT, pT] st (Gen.u_rotate_Horner (α := α) flm fln a1 a2 a3 a4 a5 a6 Hw za zg nT pT n1 n2 n3 n4 cpowi st) := by
  unfold Gen.u_rotate_Horner; simp only []; repeat frame_step

/-- `Wigner.H` writes only its three workspace parts -/
theorem wigner_H_only (g h : Int → α) (L P : Int) (a b d : Int → α) (z : Cx α) (Hw Hv Hx : Nat) (st : φ) :
    Only α [Hw, Hv, Hx] st (Gen.Wigner_H (α := α) g h L P a b d z Hw Hv Hx st) := by
  unfold Gen.Wigner_H
  simp only []
  refine Only.trans _ _ _ _ ?_ (Only.mono _ _ _ _ (by simp) (step5_only d L P Hw Hv _))
  refine Only.trans _ _ _ _ ?_ (Only.mono _ _ _ _ (by simp) (step4_only d L P Hw Hv _))
  refine Only.trans _ _ _ _ ?_ (Only.mono _ _ _ _ (by simp) (step3_only a b L P Hw Hx z _))
  refine Only.trans _ _ _ _ ?_ (Only.mono _ _ _ _ (by intro a ha; simp at ha ⊢; tauto) (step2_only g h L P Hw Hx Hv z _))
  exact Only.mono _ _ _ _ (by simp) (step1_only Hw st)

/-- the `Wigner.D` chain re-reading every input from the current memory, as the method does -/
def wignerD' (L : Nat) (ell_min : Int) (zI aI gI DI : Nat) (a b d g h : Int → α) (imsqrt : Cx α → α) (R : Int → α) (st : φ) : φ :=
  let st1 := Gen.u_to_euler_phases (α := α) R zI st
  let stH := Gen.Wigner_H (α := α) g h (L : Int) (L : Int) a b d (frdC (α := α) st1 zI 1) GenH.idW GenH.idV GenH.idX st1
  let st2 := Gen.u_complex_powers (α := α) (fun _ => frdC (α := α) stH zI 0) (L : Int) aI 1 ((L : Int) + 1) imsqrt 4 stH
  let st3 := Gen.u_complex_powers (α := α) (fun _ => frdC (α := α) st2 zI 2) (L : Int) gI 1 ((L : Int) + 1) imsqrt 4 st2
  Gen.u_fill_wigner_D (α := α) ell_min (L : Int) (L : Int) DI (fun i => frd (α := α) st3 GenH.idW i)
    (fun i => frdC (α := α) st3 aI i) (fun i => frdC (α := α) st3 gI i) st3

/-- … is the chain of `GenChain` (inputs captured where the method passes them), whenever the arrays are distinct -/
theorem gen_D_chain_inplace (L : Nat) (ell_min : Int) (zI aI gI DI : Nat) (a b d g h : Int → α) (imsqrt : Cx α → α) (R : Int → α) (st : φ)
    (hz : 2 < zI) (ha : 2 < aI) (hg : 2 < gI) (hza : zI ≠ aI) (hzg : zI ≠ gI) (hag : aI ≠ gI) :
    wignerD' L ell_min zI aI gI DI a b d g h imsqrt R st = GenChain.wignerD L ell_min zI aI gI DI a b d g h imsqrt R st := by
  unfold wignerD' GenChain.wignerD
  simp only []
  have fH := wigner_H_only g h (L : Int) (L : Int) a b d (frdC (α := α) (Gen.u_to_euler_phases (α := α) R zI st) zI 1) GenH.idW GenH.idV GenH.idX
    (Gen.u_to_euler_phases (α := α) R zI st)
  have e0 := Only.frdC _ _ _ fH zI 0 (by simp [GenH.idW, GenH.idV, GenH.idX]; omega)
  rw [e0]
  have fa := cpow_only (fun _ => frdC (α := α) (Gen.u_to_euler_phases (α := α) R zI st) zI 0) (L : Int) aI 1 ((L : Int) + 1) imsqrt 4
    (Gen.Wigner_H (α := α) g h (L : Int) (L : Int) a b d (frdC (α := α) (Gen.u_to_euler_phases (α := α) R zI st) zI 1) GenH.idW GenH.idV GenH.idX
      (Gen.u_to_euler_phases (α := α) R zI st))
  have e2 : frdC (α := α) _ zI 2 = frdC (α := α) (Gen.u_to_euler_phases (α := α) R zI st) zI 2 :=
    (Only.frdC _ _ _ fa zI 2 (by simp; exact hza)).trans (Only.frdC _ _ _ fH zI 2 (by simp [GenH.idW, GenH.idV, GenH.idX]; omega))
  rw [e2]
  generalize hst2 : Gen.u_complex_powers (α := α) (φ := φ) (fun _ => frdC (α := α) (Gen.u_to_euler_phases (α := α) R zI st) zI 0) (L : Int) aI 1 ((L : Int) + 1) imsqrt 4 _ = st2 at fa
  have fg := cpow_only (fun _ => frdC (α := α) (Gen.u_to_euler_phases (α := α) R zI st) zI 2) (L : Int) gI 1 ((L : Int) + 1) imsqrt 4 st2
  have eW : ∀ i, frd (α := α) (Gen.u_complex_powers (α := α) (fun _ => frdC (α := α) (Gen.u_to_euler_phases (α := α) R zI st) zI 2) (L : Int) gI 1 ((L : Int) + 1) imsqrt 4 st2) GenH.idW i
      = frd (α := α) (Gen.Wigner_H (α := α) g h (L : Int) (L : Int) a b d (frdC (α := α) (Gen.u_to_euler_phases (α := α) R zI st) zI 1) GenH.idW GenH.idV GenH.idX
          (Gen.u_to_euler_phases (α := α) R zI st)) GenH.idW i := by
    intro i
    rw [fg GenH.idW i (by simp [GenH.idW]; omega), fa GenH.idW i (by simp [GenH.idW]; omega)]
  have eA : ∀ i, frdC (α := α) (Gen.u_complex_powers (α := α) (fun _ => frdC (α := α) (Gen.u_to_euler_phases (α := α) R zI st) zI 2) (L : Int) gI 1 ((L : Int) + 1) imsqrt 4 st2) aI i
      = frdC (α := α) st2 aI i := fun i => Only.frdC _ _ _ fg aI i (by simp; exact hag)
  simp only [eW, eA]
end
end Footprint
