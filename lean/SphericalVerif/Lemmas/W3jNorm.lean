import SphericalVerif.Lemmas.W3jBounds
import SphericalVerif.Lemmas.RealScalar
import Mathlib.Data.Int.Interval
import Mathlib.Algebra.BigOperators.Intervals
import Mathlib.Tactic.Ring
import Mathlib.Tactic.Linarith
import Mathlib.Tactic.NormNum
import Mathlib.Tactic.FieldSimp
import Mathlib.Tactic.Positivity
import Mathlib.Tactic.LinearCombination
/-! Values of the Wigner 3-j calculator at `α := ℝ`: normalisation, sign convention, single-cell
    closed form, three-term recurrence.  Helper lemmas for `Props/W3jNorm.lean`.

    Contents
    * arrays addressed by integers (`geti`/`seti`, `mapRange` = the shape of `divRange`, `mulRange`,
      `copyRange`), every arithmetic;
    * `calculateP_isFinish`: every multi-cell run that does not hit `Zf(j_max) == 0.0` ends in
      `finish` (= `normalize`, `determine_signs`) of an array of `size` cells — `mvcgen` over the phases
      of `Lemmas/W3jBounds.lean` in the monad `Id`, every arithmetic;
    * `normalize`, `determineSigns`, `finish` in exact arithmetic (`wsum`, `finish_spec`), the
      coefficient facts (`A_pos`, `A_jmin`, `A_top`, `Zf_ne`), the single-cell closed form;
    * the run as a pipeline: one function per `for` loop (same text) + loop-free glue, equal to the
      phases by case split and `rfl` (`calculateP_eq`, `afterFwd_eq`, `threeTerm_eq`, `meet_eq`);
    * Hoare triples of the loops (`mvcgen`, cursor invariants): data flow for the two fill loops and
      the copy loop (every arithmetic); at `ℝ` the ratio loops (`SfOK`, `RfOK`: continued-fraction
      steps with non-zero denominators) and the three-term sweeps (`FwdInv`, `BwdInv`: the recurrence
      holds on the part swept so far; preserved by the step and by the rescaling);
    * the phases at `ℝ` (`fwdPhase_ok`, `revPhase_ok`, `meet_ok`, `threeTerm_ok`, `afterFwd_ok`,
      `calculate_good`) and the results (`recurrence_out`, `normalized_regular`, `regular_of_*`). -/
namespace Lemmas.W3jNorm
open Model.W3j Scalar
open Lemmas.W3jBounds (finish meet threeTerm afterFwd calculateP calculate_phased)

/-! ### arrays addressed by integers (every arithmetic) -/
section arrays
variable {α : Type} [Scalar α]

omit [Scalar α] in
theorem size_seti (a : Array α) (i : Int) (v : α) : (seti a i v).size = a.size := by
  simp [seti]

theorem geti_seti_same (a : Array α) (i : Int) (v : α) (h : i.toNat < a.size) :
    geti (seti a i v) i = v := by
  simp [geti, seti, Array.getD_eq_getD_getElem?, h]

theorem geti_seti_ne (a : Array α) (i j : Int) (v : α) (h : i.toNat ≠ j.toNat) :
    geti (seti a i v) j = geti a j := by
  simp [geti, seti, Array.getD_eq_getD_getElem?, h]

theorem geti_oob (a : Array α) (i : Int) (h : a.size ≤ i.toNat) : geti a i = zero := by
  simp [geti, Array.getD_eq_getD_getElem?, h]

/-- the common shape of `divRange`, `mulRange`, `copyRange` -/
def mapRange (g : Int → α → α) (a : Array α) (lo hi : Int) : Array α :=
  loopN (hi + 1 - lo).toNat (fun k a => seti a (lo + k) (g (lo + k) (geti a (lo + k)))) a

theorem divRange_eq (a : Array α) (lo hi : Int) (x : α) :
    divRange a lo hi x = mapRange (fun _ v => v /. x) a lo hi := rfl
theorem mulRange_eq (a : Array α) (lo hi : Int) (x : α) :
    mulRange a lo hi x = mapRange (fun _ v => v *. x) a lo hi := rfl
theorem copyRange_eq (d s : Array α) (lo hi : Int) :
    copyRange d s lo hi = mapRange (fun i _ => geti s i) d lo hi := rfl

theorem mapRange_spec (g : Int → α → α) (a : Array α) (lo hi : Int) (h0 : 0 ≤ lo)
    (hs : hi < a.size) :
    (mapRange g a lo hi).size = a.size ∧
    ∀ j : Int, 0 ≤ j → geti (mapRange g a lo hi) j =
      if lo ≤ j ∧ j ≤ hi then g j (geti a j) else geti a j := by
  unfold mapRange
  have key := loopN_inv (fun k (s : Array α) => s.size = a.size ∧ ∀ j : Int, 0 ≤ j →
      geti s j = if lo ≤ j ∧ j < lo + k then g j (geti a j) else geti a j)
    (hi + 1 - lo).toNat (fun k a => seti a (lo + k) (g (lo + k) (geti a (lo + k)))) a
    ⟨rfl, fun j hj => by rw [if_neg (by omega)]⟩
    (by
      intro k s hk ⟨hsz, hg⟩
      refine ⟨by rw [size_seti, hsz], fun j hj => ?_⟩
      by_cases hjk : j = lo + k
      · subst hjk
        rw [geti_seti_same _ _ _ (by rw [hsz]; omega), hg _ hj, if_neg (by omega), if_pos (by omega)]
      · rw [geti_seti_ne _ _ _ _ (by omega), hg _ hj]
        by_cases hc : lo ≤ j ∧ j < lo + k
        · rw [if_pos hc, if_pos (by omega)]
        · rw [if_neg hc, if_neg (by omega)])
  refine ⟨key.1, fun j hj => ?_⟩
  rw [key.2 j hj]
  by_cases hc : lo ≤ j ∧ j ≤ hi
  · rw [if_pos hc, if_pos (by omega)]
  · rw [if_neg hc, if_neg (by omega)]

theorem size_mapRange (g : Int → α → α) (a : Array α) (lo hi : Int) :
    (mapRange g a lo hi).size = a.size := by
  unfold mapRange
  exact loopN_inv (fun _ (s : Array α) => s.size = a.size) _ _ a rfl
    (fun k s _ h => by rw [size_seti, h])

theorem size_copyRange (d s : Array α) (lo hi : Int) : (copyRange d s lo hi).size = d.size := by
  rw [copyRange_eq, size_mapRange]
theorem size_divRange (a : Array α) (lo hi : Int) (x : α) : (divRange a lo hi x).size = a.size := by
  rw [divRange_eq, size_mapRange]
theorem size_mulRange (a : Array α) (lo hi : Int) (x : α) : (mulRange a lo hi x).size = a.size := by
  rw [mulRange_eq, size_mapRange]

end arrays

/-! ### every non-trivial run ends in `normalize`, `determine_signs` (every arithmetic) -/
section structure_
open Std.Do
variable {α : Type} [Scalar α]

/-- a Hoare triple in `Id` with pure pre- and postcondition is an implication -/
theorem id_triple {β} (x : Id β) (P : Prop) (Q : β → Prop) :
    (⦃⌜P⌝⦄ x ⦃⇓ r => ⌜Q r⌝⦄) ↔ (P → Q x.run) := by
  simp [Triple, wp, PredTrans.apply, Id.run]
  exact Iff.rfl

/-- the result is `normalize`, `determine_signs` applied to an array of `n` cells -/
def IsFinish (n : Nat) (j2 j3 m2 m3 jmin jmax : Int) (r : Out α) : Prop :=
  ∃ f : Array α, f.size = n ∧ r = finish j2 j3 m2 m3 jmin jmax f

@[spec] theorem finish_spec0 (n : Nat) (j2 j3 m2 m3 jmin jmax : Int) (f : Array α) :
    ⦃⌜f.size = n⌝⦄ finish j2 j3 m2 m3 jmin jmax f ⦃⇓ r => ⌜IsFinish n j2 j3 m2 m3 jmin jmax r⌝⦄ :=
  (id_triple _ _ _).2 fun h => ⟨f, h, rfl⟩

@[spec] theorem meet_spec0 (n : Nat) (j2 j3 m1 m2 m3 jmin jmax : Int) (scale : α) (f Fm Fp : Array α)
    (jplus jmid : Int) (FmMid : α) :
    ⦃⌜f.size = n⌝⦄ meet j2 j3 m1 m2 m3 jmin jmax scale f Fm Fp jplus jmid FmMid
    ⦃⇓ r => ⌜IsFinish n j2 j3 m2 m3 jmin jmax r⌝⦄ := by
  mvcgen [meet] invariants
    · ⇓⟨xs, s⟩ => ⌜True⌝
    · ⇓⟨xs, s⟩ => ⌜s.size = n⌝
  all_goals simp_all +zetaDelta [size_copyRange, size_seti]

@[spec] theorem threeTerm_spec0 (n : Nat) (j2 j3 m1 m2 m3 jmin jmax : Int) (scale : α)
    (f Fm Fp : Array α) (undefMin undefMax : Bool) (jminus jplus : Int) :
    ⦃⌜f.size = n ∧ undefMax = false⌝⦄
      threeTerm j2 j3 m1 m2 m3 jmin jmax scale f Fm Fp undefMin undefMax jminus jplus
    ⦃⇓ r => ⌜IsFinish n j2 j3 m2 m3 jmin jmax r⌝⦄ := by
  mvcgen [threeTerm] invariants
    · ⇓⟨xs, s⟩ => ⌜True⌝
    · ⇓⟨xs, s⟩ => ⌜True⌝
    · ⇓⟨xs, s⟩ => ⌜True⌝
  all_goals simp_all +zetaDelta [size_copyRange]

/-- `Zf(j_max) ≠ 0.0` rules out the `ValueError` -/
@[spec] theorem afterFwd_spec0 (n : Nat) (j2 j3 m1 m2 m3 jmin jmax : Int) (scale : α)
    (f sf Fm Fp : Array α) (undefMin : Bool) (jminus : Int) :
    ⦃⌜f.size = n ∧ isZero (Zf jmax j2 j3 m1 : α) = false⌝⦄
      afterFwd j2 j3 m1 m2 m3 jmin jmax scale f sf Fm Fp undefMin jminus
    ⦃⇓ r => ⌜IsFinish n j2 j3 m2 m3 jmin jmax r⌝⦄ := by
  mvcgen [afterFwd] invariants
    · ⇓⟨xs, s⟩ => ⌜True⌝
    · ⇓⟨xs, s⟩ => ⌜True⌝
  all_goals first
    | (simp_all +zetaDelta; done)
    | exact ⟨_, by simp_all +zetaDelta [size_copyRange], rfl⟩

/-- with more than one cell (`j_min < j_max`) and `Zf(j_max) ≠ 0.0`, the run does not raise and its
    result is `finish` (i.e. `normalize` then `determine_signs`) of an array `f` of `size` cells: the
    *pre-normalisation array* -/
theorem calculateP_isFinish (size : Nat) (ws : Array α) (j2 j3 m2 m3 : Int)
    (h2 : (m2.natAbs : Int) ≤ j2) (h3 : (m3.natAbs : Int) ≤ j3)
    (hlt : max ((j2 - j3).natAbs : Int) ((m2 + m3).natAbs : Int) < j2 + j3)
    (hws : size ≤ ws.size)
    (hZ : isZero (Zf (j2 + j3) j2 j3 (-(m2 + m3)) : α) = false) :
    IsFinish size j2 j3 m2 m3 (max ((j2 - j3).natAbs : Int) ((m2 + m3).natAbs : Int)) (j2 + j3)
      (calculateP size ws j2 j3 m2 m3) := by
  apply Id.of_wp_run_eq (prog := _) rfl
  mvcgen [calculateP] invariants
    · ⇓⟨xs, s⟩ => ⌜True⌝
    · ⇓⟨xs, s⟩ => ⌜True⌝
  all_goals first
    | (simp_all +zetaDelta [Array.size_extract, Array.size_map]; done)
    | (exfalso; simp_all +zetaDelta; omega)

end structure_

/-! ### `normalize`, `determine_signs` in exact arithmetic -/
noncomputable section real

/-- `Σ_{j=jmin}^{jmax} (2j+1) f[j]²`, as the model's loop sums it -/
def wsum (f : Array ℝ) (jmin jmax : Int) : ℝ :=
  ∑ k ∈ Finset.range (jmax + 1 - jmin).toNat,
    (((2 * (jmin + (k : ℤ)) + 1 : ℤ) : ℝ) * (geti f (jmin + (k : ℤ)) * geti f (jmin + (k : ℤ))))

theorem loopN_sum (g : Nat → ℝ) (n : Nat) :
    loopN n (fun k (acc : ℝ) => acc + g k) 0 = ∑ k ∈ Finset.range n, g k := by
  induction n with
  | zero => simp [loopN]
  | succ n ih => simp only [loopN, Finset.sum_range_succ, ih]

theorem normalize_eq (f : Array ℝ) (jmin jmax : Int) :
    Model.W3j.normalize f jmin jmax = divRange f jmin jmax (Real.sqrt (wsum f jmin jmax)) := by
  unfold Model.W3j.normalize wsum
  simp only [RealScalar.add_def, RealScalar.mul_def, RealScalar.ofInt_def, RealScalar.zero_def,
    RealScalar.sqrt_def]
  rw [loopN_sum]

theorem wsum_Icc (f : Array ℝ) (jmin jmax : Int) :
    wsum f jmin jmax = ∑ j ∈ Finset.Icc jmin jmax, (2 * (j : ℝ) + 1) * geti f j ^ 2 := by
  unfold wsum
  rw [Int.Icc_eq_finset_map, Finset.sum_map]
  apply Finset.sum_congr rfl
  intro k _
  simp only [Function.Embedding.trans_apply, Nat.castEmbedding_apply, addLeftEmbedding_apply]
  push_cast
  ring

theorem wsum_nonneg (f : Array ℝ) (jmin jmax : Int) (h0 : 0 ≤ jmin) : 0 ≤ wsum f jmin jmax := by
  unfold wsum
  apply Finset.sum_nonneg
  intro k _
  apply mul_nonneg
  · exact_mod_cast (by omega : (0 : ℤ) ≤ 2 * (jmin + (k : ℤ)) + 1)
  · exact mul_self_nonneg _

theorem wsum_scale (f g : Array ℝ) (jmin jmax : Int) (c : ℝ)
    (h : ∀ j, jmin ≤ j → j ≤ jmax → geti g j = c * geti f j) :
    wsum g jmin jmax = c ^ 2 * wsum f jmin jmax := by
  unfold wsum
  rw [Finset.mul_sum]
  apply Finset.sum_congr rfl
  intro k hk
  rw [Finset.mem_range] at hk
  rw [h _ (by omega) (by omega)]
  ring

/-- a cell with non-zero content makes the weighted sum positive -/
theorem wsum_pos (f : Array ℝ) (jmin jmax : Int) (h0 : 0 ≤ jmin) (j : Int) (hj : jmin ≤ j ∧ j ≤ jmax)
    (hne : geti f j ≠ 0) : 0 < wsum f jmin jmax := by
  rw [wsum_Icc]
  have hmem : j ∈ Finset.Icc jmin jmax := Finset.mem_Icc.2 hj
  have hnn : ∀ i ∈ Finset.Icc jmin jmax, 0 ≤ (2 * (i : ℝ) + 1) * geti f i ^ 2 := by
    intro i hi
    rw [Finset.mem_Icc] at hi
    have : (0 : ℝ) ≤ (i : ℝ) := by exact_mod_cast (by omega : (0 : ℤ) ≤ i)
    positivity
  have hj0 : (0 : ℝ) ≤ (j : ℝ) := by exact_mod_cast (by omega : (0 : ℤ) ≤ j)
  have hpos : 0 < (2 * (j : ℝ) + 1) * geti f j ^ 2 := by positivity
  exact lt_of_lt_of_le hpos (Finset.single_le_sum hnn hmem)

theorem normalize_spec (f : Array ℝ) (jmin jmax : Int) (h0 : 0 ≤ jmin) (hs : jmax < f.size) :
    (Model.W3j.normalize f jmin jmax).size = f.size ∧
    ∀ j : Int, 0 ≤ j → geti (Model.W3j.normalize f jmin jmax) j =
      if jmin ≤ j ∧ j ≤ jmax then geti f j / Real.sqrt (wsum f jmin jmax) else geti f j := by
  rw [normalize_eq, divRange_eq]
  exact mapRange_spec _ f jmin jmax h0 hs

theorem wsum_normalize (f : Array ℝ) (jmin jmax : Int) (h0 : 0 ≤ jmin) (hs : jmax < f.size)
    (hne : wsum f jmin jmax ≠ 0) : wsum (Model.W3j.normalize f jmin jmax) jmin jmax = 1 := by
  have hpos : 0 < wsum f jmin jmax := lt_of_le_of_ne (wsum_nonneg f jmin jmax h0) (Ne.symm hne)
  rw [wsum_scale f _ jmin jmax (1 / Real.sqrt (wsum f jmin jmax))]
  · rw [div_pow, Real.sq_sqrt hpos.le]
    field_simp
  · intro j h1 h2
    rw [(normalize_spec f jmin jmax h0 hs).2 j (by omega), if_pos ⟨h1, h2⟩]
    ring

/-- `(-1)**k` of the model is the real `(-1)^k` -/
theorem parity_zpow (k : Int) : ((parity k : ℤ) : ℝ) = (-1 : ℝ) ^ k := by
  unfold parity
  split
  · rw [Even.neg_one_zpow (Int.even_iff.2 ‹_›)]; simp
  · rw [Odd.neg_one_zpow (Int.odd_iff.2 (by omega))]; simp

theorem parity_cases (k : Int) : parity k = 1 ∨ parity k = -1 := by
  unfold parity; split <;> simp

/-- `determine_signs`: a global factor `±1`, chosen so that the last cell has the sign of `(-1)**k` -/
theorem determineSigns_spec (f : Array ℝ) (jmin jmax j2 j3 m2 m3 : Int) (h0 : 0 ≤ jmin)
    (hle : jmin ≤ jmax) (hs : jmax < f.size) :
    ∃ s : ℝ, (s = 1 ∨ s = -1) ∧ (determineSigns f jmin jmax j2 j3 m2 m3).size = f.size ∧
      (∀ j : Int, 0 ≤ j → geti (determineSigns f jmin jmax j2 j3 m2 m3) j =
        if jmin ≤ j ∧ j ≤ jmax then s * geti f j else geti f j) ∧
      0 ≤ geti (determineSigns f jmin jmax j2 j3 m2 m3) jmax * ((parity (j2 - j3 + m2 + m3) : ℤ) : ℝ) := by
  unfold determineSigns
  simp only [lt0, gt0, RealScalar.lt_def, RealScalar.zero_def, RealScalar.ofInt_def]
  split
  · rename_i hc
    obtain ⟨hsz, hg⟩ := mapRange_spec (fun _ (v : ℝ) => v *. ((-1 : ℤ) : ℝ)) f jmin jmax h0 hs
    rw [← mulRange_eq] at hsz hg
    refine ⟨-1, Or.inr rfl, hsz, fun j hj => ?_, ?_⟩
    · rw [hg j hj]; split <;> simp
    · rw [hg jmax (by omega), if_pos ⟨hle, le_refl _⟩]
      simp only [Bool.or_eq_true, Bool.and_eq_true, decide_eq_true_eq] at hc
      rcases parity_cases (j2 - j3 + m2 + m3) with hp | hp <;> rw [hp] at hc ⊢ <;>
        rcases hc with ⟨h1, h2⟩ | ⟨h1, h2⟩ <;> simp at h2 ⊢ <;> linarith
  · rename_i hc
    refine ⟨1, Or.inl rfl, rfl, fun j hj => by split <;> simp, ?_⟩
    simp only [Bool.or_eq_true, Bool.and_eq_true, decide_eq_true_eq, not_or, not_and] at hc
    rcases parity_cases (j2 - j3 + m2 + m3) with hp | hp <;> rw [hp] at hc ⊢
    · have := hc.1; simp at this ⊢; linarith
    · have := hc.2; simp at this ⊢; linarith

/-- domain of the calculator: `|m2| ≤ j2`, `|m3| ≤ j3` (the model's guard) and `j2 + j3 ≤ 1989` (int64
    exactness of the radicand of `A`, sharp: `C05.A_radicand_overflows_at_1990`) -/
structure Adm (j2 j3 m2 m3 : Int) : Prop where
  hm2 : (m2.natAbs : Int) ≤ j2
  hm3 : (m3.natAbs : Int) ≤ j3
  hs : j2 + j3 ≤ 1989

abbrev jminOf := Lemmas.W3jBounds.jminOf

theorem A_radicand_pos (j j2 j3 m1 : Int) (h1 : ((j2 - j3).natAbs : Int) < j) (h2 : j < j2 + j3 + 1)
    (h3 : (m1.natAbs : Int) < j) : 0 < Gen.A_radicand j j2 j3 m1 := by
  have a1 : -j < j2 - j3 ∧ j2 - j3 < j := by omega
  have a2 : -j < m1 ∧ m1 < j := by omega
  have hj : 0 < j := by omega
  unfold Gen.A_radicand
  simp only [pow_two]
  apply mul_pos (mul_pos _ _) _ <;> nlinarith

theorem A_real (j j2 j3 m1 : Int) : (A j j2 j3 m1 : ℝ) = Real.sqrt ((Gen.A_radicand_w j j2 j3 m1 : ℤ) : ℝ) := rfl

theorem A_pos (j j2 j3 m2 m3 : Int) (ha : Adm j2 j3 m2 m3)
    (hlo : jminOf j2 j3 m2 m3 < j) (hhi : j ≤ j2 + j3) : 0 < (A j j2 j3 (-(m2 + m3)) : ℝ) := by
  obtain ⟨h2, h3, hs⟩ := ha
  unfold jminOf Lemmas.W3jBounds.jminOf at hlo
  rw [A_real, Lemmas.W3j.A_radicand_w_adm j j2 j3 _ (by omega) (by omega) hs (by omega) (by omega) (by omega)]
  apply Real.sqrt_pos.2
  exact_mod_cast A_radicand_pos j j2 j3 _ (by omega) (by omega) (by omega)

theorem A_jmin (j2 j3 m2 m3 : Int) (ha : Adm j2 j3 m2 m3) (hle : jminOf j2 j3 m2 m3 ≤ j2 + j3) :
    (A (jminOf j2 j3 m2 m3) j2 j3 (-(m2 + m3)) : ℝ) = 0 := by
  obtain ⟨h2, h3, hs⟩ := ha
  unfold jminOf Lemmas.W3jBounds.jminOf at hle ⊢
  rw [A_real, Lemmas.W3j.A_radicand_w_adm _ j2 j3 _ (by omega) (by omega) hs (by omega) (by omega) (by omega)]
  have : Gen.A_radicand (max ((j2 - j3).natAbs : Int) ((m2 + m3).natAbs : Int)) j2 j3 (-(m2 + m3)) = 0 := by
    unfold Gen.A_radicand
    rcases le_total ((j2 - j3).natAbs : Int) ((m2 + m3).natAbs : Int) with h | h
    · rw [max_eq_right h]
      have : ((m2 + m3).natAbs : Int) ^ 2 - (-(m2 + m3)) ^ 2 = 0 := by
        rw [Int.natAbs_sq]; ring
      rw [this, mul_zero]
    · rw [max_eq_left h]
      have : ((j2 - j3).natAbs : Int) ^ 2 - (j2 - j3) ^ 2 = 0 := by
        rw [Int.natAbs_sq]; ring
      rw [this, zero_mul, zero_mul]
  rw [this]; simp

theorem A_top (j2 j3 m2 m3 : Int) (ha : Adm j2 j3 m2 m3) :
    (A (j2 + j3 + 1) j2 j3 (-(m2 + m3)) : ℝ) = 0 := by
  obtain ⟨h2, h3, hs⟩ := ha
  rw [A_real, Lemmas.W3j.A_radicand_w_adm _ j2 j3 _ (by omega) (by omega) hs (by omega) (by omega) (by omega)]
  have : Gen.A_radicand (j2 + j3 + 1) j2 j3 (-(m2 + m3)) = 0 := by
    unfold Gen.A_radicand
    rw [sub_self, mul_zero, zero_mul]
  rw [this]; simp

theorem Zf_real (j j2 j3 m1 : Int) : (Zf j j2 j3 m1 : ℝ) = ((j + 1 : ℤ) : ℝ) * A j j2 j3 m1 := rfl
theorem Xf_real (j j2 j3 m1 : Int) : (Xf j j2 j3 m1 : ℝ) = ((j : ℤ) : ℝ) * A (j + 1) j2 j3 m1 := rfl


theorem Zf_ne (j j2 j3 m2 m3 : Int) (ha : Adm j2 j3 m2 m3)
    (hlo : jminOf j2 j3 m2 m3 < j) (hhi : j ≤ j2 + j3) : (Zf j j2 j3 (-(m2 + m3)) : ℝ) ≠ 0 := by
  rw [Zf_real]
  have h0 : 0 ≤ jminOf j2 j3 m2 m3 := by unfold jminOf Lemmas.W3jBounds.jminOf; omega
  have : (0 : ℝ) < ((j + 1 : ℤ) : ℝ) := by exact_mod_cast (by omega : (0 : ℤ) < j + 1)
  exact (mul_pos this (A_pos j j2 j3 m2 m3 ha hlo hhi)).ne'

theorem finish_eq (j2 j3 m2 m3 jmin jmax : Int) (f : Array ℝ) :
    finish j2 j3 m2 m3 jmin jmax f =
      ⟨determineSigns (Model.W3j.normalize f jmin jmax) jmin jmax j2 j3 m2 m3, false⟩ := rfl

/-- what `normalize` + `determine_signs` do to an array, in exact arithmetic -/
theorem finish_spec (j2 j3 m2 m3 jmin jmax : Int) (f : Array ℝ) (h0 : 0 ≤ jmin) (hle : jmin ≤ jmax)
    (hs : jmax < f.size) :
    let out := (finish j2 j3 m2 m3 jmin jmax f).f
    out.size = f.size ∧
    (wsum f jmin jmax ≠ 0 → wsum out jmin jmax = 1) ∧
    0 ≤ geti out jmax * (-1 : ℝ) ^ (j2 - j3 + m2 + m3) ∧
    (∃ c : ℝ, (wsum f jmin jmax ≠ 0 → c ≠ 0) ∧ ∀ j, jmin ≤ j → j ≤ jmax → geti out j = c * geti f j) ∧
    (∀ j, 0 ≤ j → ¬ (jmin ≤ j ∧ j ≤ jmax) → geti out j = geti f j) := by
  intro out
  obtain ⟨nsz, ng⟩ := normalize_spec f jmin jmax h0 hs
  obtain ⟨s, hs1, dsz, dg, dsgn⟩ := determineSigns_spec (Model.W3j.normalize f jmin jmax) jmin jmax j2 j3 m2 m3
    h0 hle (by rw [nsz]; exact hs)
  have hout : out = determineSigns (Model.W3j.normalize f jmin jmax) jmin jmax j2 j3 m2 m3 := rfl
  have hs2 : s ^ 2 = 1 := by rcases hs1 with h | h <;> rw [h] <;> norm_num
  have hs0 : s ≠ 0 := by rcases hs1 with h | h <;> rw [h] <;> norm_num
  refine ⟨by rw [hout, dsz, nsz], fun hne => ?_, ?_, ⟨s / Real.sqrt (wsum f jmin jmax), fun hne => ?_, fun j h1 h2 => ?_⟩,
    fun j hj hn => ?_⟩
  · rw [hout, wsum_scale (Model.W3j.normalize f jmin jmax) _ jmin jmax s, hs2, one_mul,
      wsum_normalize f jmin jmax h0 hs hne]
    intro j h1 h2
    rw [dg j (by omega), if_pos ⟨h1, h2⟩]
  · rw [← parity_zpow]; exact dsgn
  · have hpos : 0 < wsum f jmin jmax := lt_of_le_of_ne (wsum_nonneg f jmin jmax h0) (Ne.symm hne)
    exact div_ne_zero hs0 (Real.sqrt_pos.2 hpos).ne'
  · rw [hout, dg j (by omega), if_pos ⟨h1, h2⟩, ng j (by omega), if_pos ⟨h1, h2⟩]
    ring
  · rw [hout, dg j hj, if_neg hn, ng j hj, if_neg hn]

/-- the zeroed first view -/
def f0 (size : Nat) (ws : Array ℝ) : Array ℝ := (ws.map (fun _ => (zero : ℝ))).extract 0 size

theorem geti_f0 (size : Nat) (ws : Array ℝ) (j : Int) : geti (f0 size ws) j = 0 := by
  unfold geti f0
  rw [Array.getD_eq_getD_getElem?]
  simp only [Array.getElem?_extract, Array.getElem?_map]
  split
  · cases h : ws[0 + j.toNat]? <;> simp [zero]
  · simp [zero]

theorem size_f0 (size : Nat) (ws : Array ℝ) (h : size ≤ ws.size) : (f0 size ws).size = size := by
  simp [f0, Array.size_extract]; omega

theorem calculate_single_eq (size : Nat) (ws : Array ℝ) (j2 j3 m2 m3 : Int)
    (h2 : (m2.natAbs : Int) ≤ j2) (h3 : (m3.natAbs : Int) ≤ j3)
    (heq : j2 + j3 = jminOf j2 j3 m2 m3) :
    calculate size ws j2 j3 m2 m3 =
      ⟨seti (f0 size ws) (j2 + j3)
        ((-1 : ℝ) ^ (j2 - j3 + m2 + m3) / Real.sqrt (2 * ((j2 + j3 : ℤ) : ℝ) + 1)), false⟩ := by
  unfold jminOf Lemmas.W3jBounds.jminOf at heq
  have g1 : (decide ((m2.natAbs : Int) > j2) || decide ((m3.natAbs : Int) > j3)) = false := by
    simp only [Bool.or_eq_false_iff, decide_eq_false_iff_not]; omega
  have g2 : ¬ (j2 + j3 < max ((j2 - j3).natAbs : Int) ((m2 + m3).natAbs : Int)) := by omega
  have hv : 0 < (1 : ℝ) / Real.sqrt (2 * ((j2 + j3 : ℤ) : ℝ) + 1) := by
    have : (0 : ℝ) ≤ ((j2 + j3 : ℤ) : ℝ) := by exact_mod_cast (by omega : (0 : ℤ) ≤ j2 + j3)
    positivity
  unfold calculate
  simp only [g1, heq.symm, ↓reduceIte, Bool.false_eq_true, lt_self_iff_false]
  show (⟨seti _ _ _, false⟩ : Out ℝ) = _
  congr 1
  congr 1
  simp only [lt0, gt0, RealScalar.lt_def, RealScalar.zero_def, RealScalar.ofInt_def,
    RealScalar.one_def, RealScalar.div_def, RealScalar.mul_def, RealScalar.add_def, RealScalar.sqrt_def]
  rw [← parity_zpow]
  push_cast at hv ⊢
  have hnlt : ¬ (1 / Real.sqrt (2 * ((j2 : ℝ) + (j3 : ℝ)) + 1) < 0) := not_lt.2 hv.le
  have hpos : (0 : ℝ) < 2 * ((j2 : ℝ) + (j3 : ℝ)) + 1 := by
    have : (0 : ℝ) ≤ (j2 : ℝ) + (j3 : ℝ) := by exact_mod_cast (by omega : (0 : ℤ) ≤ j2 + j3)
    linarith
  rcases parity_cases (j2 - j3 + m2 + m3) with hp | hp <;> rw [hp] <;> simp [hpos]
  ring

/-- `f` is the array handed to `normalize` in the run `calculate size ws j2 j3 m2 m3` -/
def PreNorm (size : Nat) (ws : Array ℝ) (j2 j3 m2 m3 : Int) (f : Array ℝ) : Prop :=
  f.size = size ∧
    calculate size ws j2 j3 m2 m3 = finish j2 j3 m2 m3 (jminOf j2 j3 m2 m3) (j2 + j3) f

/-- more than one cell: the run does not raise and ends in `normalize`, `determine_signs` -/
theorem prenorm_exists (size : Nat) (ws : Array ℝ) (j2 j3 m2 m3 : Int) (ha : Adm j2 j3 m2 m3)
    (hlt : jminOf j2 j3 m2 m3 < j2 + j3) (hws : size ≤ ws.size) :
    ∃ f, PreNorm size ws j2 j3 m2 m3 f := by
  have hZ : isZero (Zf (j2 + j3) j2 j3 (-(m2 + m3)) : ℝ) = false := by
    simp only [isZero, RealScalar.beq_def, RealScalar.zero_def, decide_eq_false_iff_not]
    exact Zf_ne _ j2 j3 m2 m3 ha hlt (le_refl _)
  rw [show PreNorm size ws j2 j3 m2 m3 = fun f => f.size = size ∧
    calculate size ws j2 j3 m2 m3 = finish j2 j3 m2 m3 (jminOf j2 j3 m2 m3) (j2 + j3) f from rfl]
  rw [calculate_phased]
  exact calculateP_isFinish size ws j2 j3 m2 m3 ha.hm2 ha.hm3 hlt hws hZ

theorem jminOf_nonneg (j2 j3 m2 m3 : Int) : 0 ≤ jminOf j2 j3 m2 m3 := by
  unfold jminOf Lemmas.W3jBounds.jminOf; omega

theorem normalized (size : Nat) (ws : Array ℝ) (j2 j3 m2 m3 : Int)
    (hlt : jminOf j2 j3 m2 m3 < j2 + j3) (hs : j2 + j3 + 1 ≤ size)
    (f : Array ℝ) (hpre : PreNorm size ws j2 j3 m2 m3 f)
    (hne : ∑ j ∈ Finset.Icc (jminOf j2 j3 m2 m3) (j2 + j3), (2 * (j : ℝ) + 1) * geti f j ^ 2 ≠ 0) :
    ∑ j ∈ Finset.Icc (jminOf j2 j3 m2 m3) (j2 + j3),
      (2 * (j : ℝ) + 1) * geti (calculate size ws j2 j3 m2 m3).f j ^ 2 = 1 := by
  obtain ⟨hsz, hcalc⟩ := hpre
  rw [← wsum_Icc] at hne ⊢
  rw [hcalc]
  exact (finish_spec j2 j3 m2 m3 _ _ f (jminOf_nonneg _ _ _ _) hlt.le (by rw [hsz]; omega)).2.1 hne

theorem single_cell (size : Nat) (ws : Array ℝ) (j2 j3 m2 m3 : Int) (ha : Adm j2 j3 m2 m3)
    (heq : j2 + j3 = jminOf j2 j3 m2 m3) (hs : j2 + j3 + 1 ≤ size) (hws : size ≤ ws.size) :
    (calculate size ws j2 j3 m2 m3).raised = false ∧
    geti (calculate size ws j2 j3 m2 m3).f (j2 + j3) =
      (-1 : ℝ) ^ (j2 - j3 + m2 + m3) / Real.sqrt (2 * ((j2 + j3 : ℤ) : ℝ) + 1) ∧
    ∀ j : Int, 0 ≤ j → j ≠ j2 + j3 → geti (calculate size ws j2 j3 m2 m3).f j = 0 := by
  have h0 := jminOf_nonneg j2 j3 m2 m3
  rw [calculate_single_eq size ws j2 j3 m2 m3 ha.hm2 ha.hm3 heq]
  refine ⟨rfl, ?_, fun j hj hne => ?_⟩
  · exact geti_seti_same _ _ _ (by rw [size_f0 size ws hws]; omega)
  · show geti (seti _ _ _) j = 0
    rw [geti_seti_ne _ _ _ _ (by omega), geti_f0]

theorem normalized_single (size : Nat) (ws : Array ℝ) (j2 j3 m2 m3 : Int) (ha : Adm j2 j3 m2 m3)
    (heq : j2 + j3 = jminOf j2 j3 m2 m3) (hs : j2 + j3 + 1 ≤ size) (hws : size ≤ ws.size) :
    ∑ j ∈ Finset.Icc (jminOf j2 j3 m2 m3) (j2 + j3),
      (2 * (j : ℝ) + 1) * geti (calculate size ws j2 j3 m2 m3).f j ^ 2 = 1 := by
  have h0 := jminOf_nonneg j2 j3 m2 m3
  rw [← heq, Finset.Icc_self, Finset.sum_singleton,
    (single_cell size ws j2 j3 m2 m3 ha heq hs hws).2.1, div_pow, ← zpow_natCast, ← zpow_mul]
  have hpos : (0 : ℝ) < 2 * ((j2 + j3 : ℤ) : ℝ) + 1 := by
    have : (0 : ℝ) ≤ ((j2 + j3 : ℤ) : ℝ) := by exact_mod_cast (by omega : (0 : ℤ) ≤ j2 + j3)
    linarith
  rw [Real.sq_sqrt hpos.le, Even.neg_one_zpow (by simp)]
  field_simp

theorem sign_convention (size : Nat) (ws : Array ℝ) (j2 j3 m2 m3 : Int) (ha : Adm j2 j3 m2 m3)
    (hs : j2 + j3 + 1 ≤ size) (hws : size ≤ ws.size) :
    0 ≤ geti (calculate size ws j2 j3 m2 m3).f (j2 + j3) * (-1 : ℝ) ^ (j2 - j3 + m2 + m3) := by
  have h0 := jminOf_nonneg j2 j3 m2 m3
  rcases lt_trichotomy (j2 + j3) (jminOf j2 j3 m2 m3) with h | h | h
  · rw [Lemmas.W3j.calculate_out_of_range size ws j2 j3 m2 m3 (Or.inr (Or.inr h))]
    show 0 ≤ geti (f0 size ws) _ * _
    rw [geti_f0, zero_mul]
  · rw [(single_cell size ws j2 j3 m2 m3 ha h hs hws).2.1, div_mul_eq_mul_div, ← zpow_add₀ (by norm_num)]
    rw [Even.neg_one_zpow (by exact ⟨_, rfl⟩)]
    positivity
  · obtain ⟨f, hsz, hcalc⟩ := prenorm_exists size ws j2 j3 m2 m3 ha h hws
    rw [hcalc]
    exact (finish_spec j2 j3 m2 m3 _ _ f h0 h.le (by rw [hsz]; omega)).2.2.1

theorem wigner3j_single_cell (j1 j2 j3 m1 m2 m3 : Int) (hs : m1 + m2 + m3 = 0)
    (h1 : (m1.natAbs : Int) ≤ j1) (h2 : (m2.natAbs : Int) ≤ j2) (h3 : (m3.natAbs : Int) ≤ j3)
    (ht : 2 * max (max j1 j2) j3 ≤ j1 + j2 + j3) (hb : j1 + j2 + j3 ≤ 3978) :
    let p := Lemmas.W3j.perm j1 j2 j3 m1 m2 m3
    p.a2 + p.a3 = jminOf p.a2 p.a3 p.b2 p.b3 →
    wigner3j (α := ℝ) j1 j2 j3 m1 m2 m3 =
      some ((-1 : ℝ) ^ (p.a2 - p.a3 + p.b2 + p.b3) / Real.sqrt (2 * (p.a1 : ℝ) + 1)) := by
  intro p heq
  have hd : ((p.b2.natAbs : Int) ≤ p.a2 ∧ (p.b3.natAbs : Int) ≤ p.a3 ∧ p.b1 + p.b2 + p.b3 = 0) ∧
      max ((p.a2 - p.a3).natAbs : Int) ((p.b2 + p.b3).natAbs : Int) ≤ p.a1 ∧ p.a1 ≤ p.a2 + p.a3 ∧
      p.a1.toNat < (p.a2 + p.a3 + 1).toNat :=
    Lemmas.W3j.perm_call_in_domain j1 j2 j3 m1 m2 m3 hs h1 h2 h3 ht
  obtain ⟨⟨d1, d2, _⟩, d3, d4, _⟩ := hd
  have hsum : p.a1 + p.a2 + p.a3 = j1 + j2 + j3 := Lemmas.W3j.perm_sum j1 j2 j3 m1 m2 m3
  have ha1 : p.a1 = p.a2 + p.a3 := by
    unfold jminOf Lemmas.W3jBounds.jminOf at heq; omega
  have ha : Adm p.a2 p.a3 p.b2 p.b3 := ⟨d1, d2, by show p.a2 + p.a3 ≤ 1989; omega⟩
  rw [Lemmas.W3j.wigner3j_perm j1 j2 j3 m1 m2 m3 hs h1 h2 h3 ht]
  obtain ⟨r1, r2, _⟩ := single_cell (p.a2 + p.a3 + 1).toNat
    (Array.replicate (4 * (p.a2 + p.a3 + 1).toNat) zero) p.a2 p.a3 p.b2 p.b3 ha heq (by omega)
    (by rw [Array.size_replicate]; omega)
  show (if (calculate _ _ p.a2 p.a3 p.b2 p.b3).raised = true then none
    else some (geti (calculate _ _ p.a2 p.a3 p.b2 p.b3).f p.a1)) = _
  rw [r1, ha1, r2]
  simp

theorem wigner3j_jj0 (j m : Int) (hm : (m.natAbs : Int) ≤ j) (hj : j ≤ 1989) :
    wigner3j (α := ℝ) j j 0 m (-m) 0 = some ((-1 : ℝ) ^ (j - m) / Real.sqrt (2 * (j : ℝ) + 1)) := by
  have hp : Lemmas.W3j.perm j j 0 m (-m) 0 = ⟨j, j, 0, m, -m, 0⟩ := by
    unfold Lemmas.W3j.perm
    rw [if_pos (by omega)]
  have h := wigner3j_single_cell j j 0 m (-m) 0 (by omega) hm (by omega) (by simp) (by omega) (by omega)
  rw [hp] at h
  have := h (by unfold jminOf Lemmas.W3jBounds.jminOf; simp only; omega)
  simpa [sub_eq_add_neg] using this

end real

/-! ### the run as a pipeline of loops and loop-free glue (every arithmetic)

    Every `for` loop of `calculate` becomes a function of its own (same text), the code between the
    loops becomes plain `if … then … else` (`fwdPhase`, `revPhase`), and the phases of
    `Lemmas/W3jBounds.lean` are shown equal to the composition (`calculateP_eq`, `afterFwd_eq`,
    `threeTerm_eq`, `meet_eq`; all by case split + `rfl`). -/
section pipeline
variable {α : Type} [Scalar α]

/-- forward ratio loop `s(j) = -X(j) / (Y(j) + Z(j) s(j-1))`, stops when leaving the non-classical region -/
def fwdRatioLoop (j2 j3 m1 m2 m3 jmin jmax : Int) (sf : Array α) : Id (Array α × Int) := do
  let mut sf := sf
  let mut jminus : Int := jmax
  for k in [0:(jmax - (jmin+1)).toNat] do
    let j : Int := jmin + 1 + k
    let denominator : α := Yf j j2 j3 m2 m3 +. (Zf j j2 j3 m1 *. geti sf (j-1))
    let Xfj : α := Xf j j2 j3 m1
    if lt (abs denominator) (abs Xfj) || ge0 (Xfj *. denominator) || isZero denominator then
      jminus := j - 1
      break
    else
      sf := seti sf j ((neg Xfj) /. denominator)
  return (sf, jminus)

def fwdFillLoop (jmin jminus : Int) (sf Fm : Array α) : Id (Array α) := do
  let mut Fm := Fm
  for k in [1:(jminus - jmin + 1).toNat] do
    Fm := seti Fm (jminus - k) (geti Fm (jminus - k + 1) *. geti sf (jminus - k))
  return Fm

/-- state after the forward phase -/
structure Fwd (α : Type) where
  sf : Array α
  Fm : Array α
  undefMin : Bool
  jminus : Int

def fwdPhase (j2 j3 m1 m2 m3 jmin jmax : Int) (sf Fm : Array α) : Fwd α :=
  let XfMin : α := Xf jmin j2 j3 m1
  let YfMin : α := Yf jmin j2 j3 m2 m3
  if m1 = 0 && m2 = 0 && m3 = 0 then
    ⟨sf, seti (seti Fm jmin one) (jmin+1) zero, false, jmin + 1⟩
  else if isZero YfMin then
    if isZero XfMin then ⟨sf, Fm, true, jmin⟩
    else ⟨sf, seti (seti Fm jmin one) (jmin+1) zero, false, jmin + 1⟩
  else if ge0 (XfMin *. YfMin) then
    ⟨sf, seti (seti Fm jmin one) (jmin+1) ((negYf jmin j2 j3 m2 m3 : α) /. XfMin), false, jmin + 1⟩
  else
    let r := (fwdRatioLoop j2 j3 m1 m2 m3 jmin jmax (seti sf jmin ((neg XfMin) /. YfMin))).run
    let Fm := (fwdFillLoop jmin r.2 r.1 (seti Fm r.2 one)).run
    if r.2 = jmin then ⟨r.1, seti Fm (jmin+1) ((negYf jmin j2 j3 m2 m3 : α) /. XfMin), false, jmin + 1⟩
    else ⟨r.1, Fm, false, r.2⟩

theorem calculateP_eq (size : Nat) (ws : Array α) (j2 j3 m2 m3 : Int)
    (h2 : (m2.natAbs : Int) ≤ j2) (h3 : (m3.natAbs : Int) ≤ j3)
    (hlt : max ((j2 - j3).natAbs : Int) ((m2 + m3).natAbs : Int) < j2 + j3) :
    calculateP size ws j2 j3 m2 m3 =
      let m1 : Int := -(m2 + m3)
      let w0 : Array α := ws.map (fun _ => zero)
      let jmin : Int := max ((j2 - j3).natAbs : Int) ((m2 + m3).natAbs : Int)
      let jmax : Int := j2 + j3
      let fw := fwdPhase j2 j3 m1 m2 m3 jmin jmax (w0.extract size (2*size)) (w0.extract (2*size) (3*size))
      afterFwd j2 j3 m1 m2 m3 jmin jmax (ofInt 1000) (w0.extract 0 size) fw.sf fw.Fm
        (w0.extract (3*size) (4*size)) fw.undefMin fw.jminus := by
  have g1 : (decide ((m2.natAbs : Int) > j2) || decide ((m3.natAbs : Int) > j3)) = false := by
    simp only [Bool.or_eq_false_iff, decide_eq_false_iff_not]; omega
  have g2 : ¬ (j2 + j3 < max ((j2 - j3).natAbs : Int) ((m2 + m3).natAbs : Int)) := by omega
  have g3 : ¬ (j2 + j3 = max ((j2 - j3).natAbs : Int) ((m2 + m3).natAbs : Int)) := by omega
  unfold calculateP fwdPhase
  simp only [g1, g2, g3, ↓reduceIte, Bool.false_eq_true]
  split
  · rfl
  · split
    · split <;> rfl
    · split
      · rfl
      · split
        · exact Eq.trans (if_pos ‹_›) rfl
        · exact Eq.trans (if_neg ‹_›) rfl

/-- reverse ratio loop `r(j) = -Z(j) / (Y(j) + X(j) r(j+1))` -/
def revRatioLoop (j2 j3 m1 m2 m3 jmin jmax jminus : Int) (sf : Array α) : Id (Array α × Int) := do
  let mut sf := sf
  let mut jplus : Int := jmin
  for k in [0:(jmax - 1 - (jminus - 1)).toNat] do
    let j : Int := jmax - 1 - k
    let denominator : α := Yf j j2 j3 m2 m3 +. (Xf j j2 j3 m1 *. geti sf (j+1))
    let Zfj : α := Zf j j2 j3 m1
    if isZero denominator || lt (abs denominator) (abs Zfj) || ge0 (Zfj *. denominator) then
      jplus := j + 1
      break
    else
      sf := seti sf j ((neg Zfj) /. denominator)
  return (sf, jplus)

def revFillLoop (jmax jplus : Int) (sf Fp : Array α) : Id (Array α) := do
  let mut Fp := Fp
  for k in [1:(jmax - jplus + 1).toNat] do
    Fp := seti Fp (jplus + k) (geti Fp (jplus + k - 1) *. geti sf (jplus + k))
  return Fp

/-- state after the reverse phase -/
structure Rev (α : Type) where
  sf : Array α
  Fp : Array α
  undefMax : Bool
  jplus : Int

def revPhase (j2 j3 m1 m2 m3 jmin jmax : Int) (sf Fp : Array α) (jminus : Int) : Rev α :=
  let YfMax : α := Yf jmax j2 j3 m2 m3
  let ZfMax : α := Zf jmax j2 j3 m1
  if m1 = 0 && m2 = 0 && m3 = 0 then
    ⟨sf, seti (seti Fp jmax one) (jmax-1) zero, false, jmax - 1⟩
  else if isZero YfMax then
    if isZero ZfMax then ⟨sf, Fp, true, jmax⟩
    else ⟨sf, seti (seti Fp jmax one) (jmax-1) ((negYf jmax j2 j3 m2 m3 : α) /. ZfMax), false, jmax - 1⟩
  else if ge0 (YfMax *. ZfMax) then
    ⟨sf, seti (seti Fp jmax one) (jmax-1) ((negYf jmax j2 j3 m2 m3 : α) /. ZfMax), false, jmax - 1⟩
  else
    let r := (revRatioLoop j2 j3 m1 m2 m3 jmin jmax jminus (seti sf jmax ((neg ZfMax) /. YfMax))).run
    let Fp := (revFillLoop jmax r.2 r.1 (seti Fp r.2 one)).run
    if r.2 = jmax then ⟨r.1, seti Fp (jmax-1) ((negYf jmax j2 j3 m2 m3 : α) /. ZfMax), false, jmax - 1⟩
    else ⟨r.1, Fp, false, r.2⟩

theorem afterFwd_eq (j2 j3 m1 m2 m3 jmin jmax : Int) (scale : α) (f sf Fm Fp : Array α)
    (undefMin : Bool) (jminus : Int) :
    afterFwd j2 j3 m1 m2 m3 jmin jmax scale f sf Fm Fp undefMin jminus =
      if jminus = jmax then finish j2 j3 m2 m3 jmin jmax (copyRange f Fm jmin jmax)
      else
        let rv := revPhase j2 j3 m1 m2 m3 jmin jmax sf Fp jminus
        threeTerm j2 j3 m1 m2 m3 jmin jmax scale f Fm rv.Fp undefMin rv.undefMax jminus rv.jplus := by
  unfold afterFwd revPhase
  split
  · rfl
  · simp only []
    split
    · rfl
    · split
      · split <;> rfl
      · split
        · rfl
        · split
          · exact Eq.trans (if_pos ‹_›) rfl
          · exact Eq.trans (if_neg ‹_›) rfl

/-- upward three-term recurrence from `j_minus`, with rescaling, until the values start to decrease -/
def fwdThreeLoop (j2 j3 m1 m2 m3 jmin : Int) (scale : α) (jminus jmid0 : Int) (Fm : Array α) :
    Id (Array α × Int) := do
  let mut Fm := Fm
  let mut jmid : Int := jmid0
  for k in [0:(jmid - jminus).toNat] do
    let j : Int := jminus + k
    Fm := seti Fm (j+1) ((neg ((Yf j j2 j3 m2 m3 *. geti Fm j) +. (Zf j j2 j3 m1 *. geti Fm (j-1)))) /. Xf j j2 j3 m1)
    if lt one (abs (geti Fm (j+1))) then
      Fm := divRange Fm jmin (j+1) scale
    if lt (abs (geti Fm (j+1) /. geti Fm (j-1))) one && !(isZero (geti Fm (j+1))) then
      jmid := j + 1
      break
  return (Fm, jmid)

/-- downward three-term recurrence from `j_plus` to `jlow + 1`, with rescaling -/
def bwdThreeLoop (j2 j3 m1 m2 m3 jmax : Int) (scale : α) (jplus jlow : Int) (Fp : Array α) :
    Id (Array α) := do
  let mut Fp := Fp
  for k in [0:(jplus - jlow).toNat] do
    let j : Int := jplus - k
    Fp := seti Fp (j-1) ((neg ((Xf j j2 j3 m1 *. geti Fp (j+1)) +. (Yf j j2 j3 m2 m3 *. geti Fp j))) /. Zf j j2 j3 m1)
    if lt one (abs (geti Fp (j-1))) then
      Fp := divRange Fp (j-1) jmax scale
  return Fp

/-- upward only (`undefined_max`) -/
def fwdOnlyLoop (j2 j3 m1 m2 m3 jmin : Int) (scale : α) (jminus jplus : Int) (Fm : Array α) :
    Id (Array α) := do
  let mut Fm := Fm
  for k in [0:(jplus - jminus).toNat] do
    let j : Int := jminus + k
    Fm := seti Fm (j+1) ((neg ((Zf j j2 j3 m1 *. geti Fm (j-1)) +. (Yf j j2 j3 m2 m3 *. geti Fm j))) /. Xf j j2 j3 m1)
    if lt one (abs (geti Fm (j+1))) then
      Fm := divRange Fm jmin (j+1) scale
  return Fm

/-- `f[jmin:jmid+1] = F_minus[jmin:jmid+1] * F_plus_j_mid / F_minus_j_mid` -/
def scaleCopyLoop (jmin jmid : Int) (FpMid FmMid : α) (Fm f : Array α) : Id (Array α) := do
  let mut f := f
  for k in [0:(jmid + 1 - jmin).toNat] do
    let j : Int := jmin + k
    f := seti f j ((geti Fm j *. FpMid) /. FmMid)
  return f

theorem meet_eq (j2 j3 m1 m2 m3 jmin jmax : Int) (scale : α) (f Fm Fp : Array α)
    (jplus jmid : Int) (FmMid : α) :
    meet j2 j3 m1 m2 m3 jmin jmax scale f Fm Fp jplus jmid FmMid =
      let Fp' := (bwdThreeLoop j2 j3 m1 m2 m3 jmax scale jplus jmid Fp).run
      finish j2 j3 m2 m3 jmin jmax
        (if jmid = jmax then copyRange f Fm jmin jmax
         else if jmid = jmin then copyRange f Fp' jmin jmax
         else copyRange (scaleCopyLoop jmin jmid (geti Fp' jmid) FmMid Fm f).run Fp' (jmid+1) jmax) := by
  unfold meet
  simp only []
  split
  · rfl
  · split <;> rfl

theorem threeTerm_eq (j2 j3 m1 m2 m3 jmin jmax : Int) (scale : α) (f Fm Fp : Array α)
    (undefMin undefMax : Bool) (jminus jplus : Int) :
    threeTerm j2 j3 m1 m2 m3 jmin jmax scale f Fm Fp undefMin undefMax jminus jplus =
      if undefMin && undefMax then ⟨f, true⟩
      else if !undefMin && !undefMax then
        let r := (fwdThreeLoop j2 j3 m1 m2 m3 jmin scale jminus ((jminus + jplus) / 2) Fm).run
        let jmid : Int :=
          if !(isZero (geti r.1 (r.2 - 1))) &&
              lt (abs (geti r.1 r.2 /. geti r.1 (r.2 - 1))) ((ofInt 1 : α) /. ofInt 1000000)
          then r.2 - 1 else r.2
        meet j2 j3 m1 m2 m3 jmin jmax scale f r.1 Fp jplus jmid (geti r.1 jmid)
      else if !undefMin && undefMax then
        finish j2 j3 m2 m3 jmin jmax
          (copyRange f (fwdOnlyLoop j2 j3 m1 m2 m3 jmin scale jminus jplus Fm).run jmin jmax)
      else
        finish j2 j3 m2 m3 jmin jmax
          (copyRange f (bwdThreeLoop j2 j3 m1 m2 m3 jmax scale jplus jmin Fp).run jmin jmax) := by
  unfold threeTerm
  split
  · rfl
  · split
    · simp only []
      split
      · exact Eq.trans (if_pos ‹_›) rfl
      · exact Eq.trans (if_neg ‹_›) rfl
    · split <;> rfl
end pipeline

/-! ### loop cursors -/
theorem range_cur {a b : Nat} {pref suff : List Nat} {cur : Nat}
    (h : ([a:b] : Std.Legacy.Range).toList = pref ++ cur :: suff) :
    cur = a + pref.length ∧ cur < b ∧ pref.length + suff.length + 1 = b - a := by
  simp only [Std.Legacy.Range.toList] at h
  have hn : (b - a + 1 - 1) / 1 = b - a := by simp
  rw [hn] at h
  have hlen : pref.length + (suff.length + 1) = b - a := by
    have := congrArg List.length h
    simpa using this.symm
  have hget : (List.range' a (b - a))[pref.length]? = some cur := by
    rw [h]; simp
  rw [List.getElem?_range' (by omega)] at hget
  simp at hget
  omega

theorem range_length (a b : Nat) : ([a:b] : Std.Legacy.Range).toList.length = b - a := by
  simp [Std.Legacy.Range.toList]


/-! ### the loops: data flow (every arithmetic) -/
section loops_generic
open Std.Do
variable {α : Type} [Scalar α]

theorem fwdFillLoop_triple (jmin jminus : Int) (sf Fm : Array α) :
    ⦃⌜0 ≤ jmin ∧ jmin ≤ jminus ∧ jminus < Fm.size⌝⦄ fwdFillLoop jmin jminus sf Fm
    ⦃⇓ Fm' => ⌜Fm'.size = Fm.size ∧
      (∀ j, jmin ≤ j → j < jminus → geti Fm' j = geti Fm' (j+1) *. geti sf j) ∧
      (∀ j, 0 ≤ j → (j < jmin ∨ jminus ≤ j) → geti Fm' j = geti Fm j)⌝⦄ := by
  mvcgen [fwdFillLoop] invariants
    · ⇓⟨xs, F⟩ => ⌜F.size = Fm.size ∧
        (∀ j, jminus - xs.prefix.length ≤ j → j < jminus → geti F j = geti F (j+1) *. geti sf j) ∧
        (∀ j, 0 ≤ j → (j < jminus - xs.prefix.length ∨ jminus ≤ j) → geti F j = geti Fm j)⌝
  case vc1.step =>
    rename_i hpre pref cur suff hr b F' hinv
    obtain ⟨hc, hlt, _⟩ := range_cur hr
    obtain ⟨hsz, hrec, hout⟩ := hinv
    simp only [List.length_append, List.length_singleton, Nat.cast_add, Nat.cast_one]
    have hidx : (jminus - cur).toNat < b.size := by omega
    simp only [F']
    refine ⟨by rw [size_seti, hsz], fun j h1 h2 => ?_, fun j hj h => ?_⟩
    · by_cases hj : j = jminus - cur
      · subst hj
        rw [geti_seti_same _ _ _ hidx, geti_seti_ne _ _ _ _ (by omega)]
      · rw [geti_seti_ne _ _ _ _ (by omega), geti_seti_ne _ _ _ _ (by omega)]
        exact hrec j (by omega) h2
    · rw [geti_seti_ne _ _ _ _ (by omega)]
      exact hout j hj (by omega)
  case vc2.pre =>
    refine ⟨trivial, fun j h1 h2 => ?_, fun _ _ _ => trivial⟩
    simp at h1; omega
  case vc3.post.success =>
    rename_i hpre r hinv
    obtain ⟨hsz, hrec, hout⟩ := hinv
    rw [range_length] at hrec hout
    exact ⟨hsz, fun j h1 h2 => hrec j (by omega) h2, fun j hj h => hout j hj (by omega)⟩

theorem revFillLoop_triple (jmax jplus : Int) (sf Fp : Array α) :
    ⦃⌜0 ≤ jplus ∧ jplus ≤ jmax ∧ jmax < Fp.size⌝⦄ revFillLoop jmax jplus sf Fp
    ⦃⇓ Fp' => ⌜Fp'.size = Fp.size ∧
      (∀ j, jplus < j → j ≤ jmax → geti Fp' j = geti Fp' (j-1) *. geti sf j) ∧
      (∀ j, 0 ≤ j → (j ≤ jplus ∨ jmax < j) → geti Fp' j = geti Fp j)⌝⦄ := by
  mvcgen [revFillLoop] invariants
    · ⇓⟨xs, F⟩ => ⌜F.size = Fp.size ∧
        (∀ j, jplus < j → j ≤ jplus + xs.prefix.length → geti F j = geti F (j-1) *. geti sf j) ∧
        (∀ j, 0 ≤ j → (j ≤ jplus ∨ jplus + xs.prefix.length < j) → geti F j = geti Fp j)⌝
  case vc1.step =>
    rename_i hpre pref cur suff hr b F' hinv
    obtain ⟨hc, hlt, _⟩ := range_cur hr
    obtain ⟨hsz, hrec, hout⟩ := hinv
    simp only [List.length_append, List.length_singleton, Nat.cast_add, Nat.cast_one]
    have hidx : (jplus + cur).toNat < b.size := by omega
    simp only [F']
    refine ⟨by rw [size_seti, hsz], fun j h1 h2 => ?_, fun j hj h => ?_⟩
    · by_cases hj : j = jplus + cur
      · subst hj
        rw [geti_seti_same _ _ _ hidx, geti_seti_ne _ _ _ _ (by omega)]
      · rw [geti_seti_ne _ _ _ _ (by omega), geti_seti_ne _ _ _ _ (by omega)]
        exact hrec j h1 (by omega)
    · rw [geti_seti_ne _ _ _ _ (by omega)]
      exact hout j hj (by omega)
  case vc2.pre =>
    refine ⟨trivial, fun j h1 h2 => ?_, fun _ _ _ => trivial⟩
    simp at h2; omega
  case vc3.post.success =>
    rename_i hpre r hinv
    obtain ⟨hsz, hrec, hout⟩ := hinv
    rw [range_length] at hrec hout
    exact ⟨hsz, fun j h1 h2 => hrec j h1 (by omega), fun j hj h => hout j hj (by omega)⟩

theorem scaleCopyLoop_triple (jmin jmid : Int) (FpMid FmMid : α) (Fm f : Array α) :
    ⦃⌜0 ≤ jmin ∧ jmid < f.size⌝⦄ scaleCopyLoop jmin jmid FpMid FmMid Fm f
    ⦃⇓ f' => ⌜f'.size = f.size ∧
      (∀ j, jmin ≤ j → j ≤ jmid → geti f' j = (geti Fm j *. FpMid) /. FmMid) ∧
      (∀ j, 0 ≤ j → (j < jmin ∨ jmid < j) → geti f' j = geti f j)⌝⦄ := by
  mvcgen [scaleCopyLoop] invariants
    · ⇓⟨xs, F⟩ => ⌜F.size = f.size ∧
        (∀ j, jmin ≤ j → j < jmin + xs.prefix.length → geti F j = (geti Fm j *. FpMid) /. FmMid) ∧
        (∀ j, 0 ≤ j → (j < jmin ∨ jmin + xs.prefix.length ≤ j) → geti F j = geti f j)⌝
  case vc1.step =>
    rename_i hpre pref cur suff hr b j0 F' hinv
    obtain ⟨hc, hlt, _⟩ := range_cur hr
    obtain ⟨hsz, hrec, hout⟩ := hinv
    simp only [List.length_append, List.length_singleton, Nat.cast_add, Nat.cast_one]
    have hidx : (jmin + cur).toNat < b.size := by omega
    simp only [F', j0]
    refine ⟨by rw [size_seti, hsz], fun j h1 h2 => ?_, fun j hj h => ?_⟩
    · by_cases hj : j = jmin + cur
      · subst hj
        rw [geti_seti_same _ _ _ hidx]
      · rw [geti_seti_ne _ _ _ _ (by omega)]
        exact hrec j h1 (by omega)
    · rw [geti_seti_ne _ _ _ _ (by omega)]
      exact hout j hj (by omega)
  case vc2.pre =>
    refine ⟨trivial, fun j h1 h2 => ?_, fun _ _ _ => trivial⟩
    simp at h2; omega
  case vc3.post.success =>
    rename_i hpre r hinv
    obtain ⟨hsz, hrec, hout⟩ := hinv
    rw [range_length] at hrec hout
    exact ⟨hsz, fun j h1 h2 => hrec j h1 (by omega), fun j hj h => hout j hj (by omega)⟩

end loops_generic

/-! ### the loops in exact arithmetic: recurrence invariants -/
noncomputable section recurrence
open Std.Do
variable (j2 j3 m1 m2 m3 : Int)

/-- three-term recurrence at `j`, with the coefficient functions of the model -/
def Rec (F : Array ℝ) (j : Int) : Prop :=
  (Xf j j2 j3 m1 : ℝ) * geti F (j+1) + (Yf j j2 j3 m2 m3 : ℝ) * geti F j
    + (Zf j j2 j3 m1 : ℝ) * geti F (j-1) = 0

variable {j2 j3 m1 m2 m3} in
theorem Rec_of_scaled {F G : Array ℝ} {j : Int} (c : ℝ)
    (h1 : (Xf j j2 j3 m1 : ℝ) = 0 ∨ geti G (j+1) = c * geti F (j+1))
    (h2 : geti G j = c * geti F j)
    (h3 : (Zf j j2 j3 m1 : ℝ) = 0 ∨ geti G (j-1) = c * geti F (j-1))
    (hF : Rec j2 j3 m1 m2 m3 F j) : Rec j2 j3 m1 m2 m3 G j := by
  unfold Rec at hF ⊢
  rcases h1 with h1 | h1 <;> rcases h3 with h3 | h3 <;> rw [h2] <;>
    simp only [h1, h3, zero_mul, add_zero, zero_add] at hF ⊢ <;> linear_combination c * hF

theorem geti_divRange (a : Array ℝ) (lo hi : Int) (x : ℝ) (h0 : 0 ≤ lo) (hs : hi < a.size)
    (j : Int) (hj : 0 ≤ j) :
    geti (divRange a lo hi x) j = if lo ≤ j ∧ j ≤ hi then geti a j / x else geti a j := by
  rw [divRange_eq]
  exact (mapRange_spec _ a lo hi h0 hs).2 j hj

theorem geti_copyRange (d s : Array ℝ) (lo hi : Int) (h0 : 0 ≤ lo) (hs : hi < d.size)
    (j : Int) (hj : 0 ≤ j) :
    geti (copyRange d s lo hi) j = if lo ≤ j ∧ j ≤ hi then geti s j else geti d j := by
  rw [copyRange_eq]
  exact (mapRange_spec _ d lo hi h0 hs).2 j hj

/-- invariant of the upward sweep: `n` cells, non-zero first cell, zeros below `j_min`, recurrence at
    `j_min ≤ j < hi` -/
def FwdInv (jmin : Int) (n : Nat) (Fm : Array ℝ) (hi : Int) : Prop :=
  Fm.size = n ∧ geti Fm jmin ≠ 0 ∧ (∀ j, 0 ≤ j → j < jmin → geti Fm j = 0) ∧
    ∀ j, jmin ≤ j → j < hi → Rec j2 j3 m1 m2 m3 Fm j

variable {j2 j3 m1 m2 m3} in
theorem fwd_step {jmin : Int} {n : Nat} {Fm : Array ℝ} {j0 : Int}
    (h : FwdInv j2 j3 m1 m2 m3 jmin n Fm j0) (h1 : jmin + 1 ≤ j0) (h0 : 0 ≤ jmin) (hn : j0 + 1 < n)
    (hX : (Xf j0 j2 j3 m1 : ℝ) ≠ 0) :
    FwdInv j2 j3 m1 m2 m3 jmin n
      (seti Fm (j0 + 1) (-((Yf j0 j2 j3 m2 m3 : ℝ) * geti Fm j0 + (Zf j0 j2 j3 m1 : ℝ) * geti Fm (j0 - 1))
        / (Xf j0 j2 j3 m1 : ℝ))) (j0 + 1) := by
  obtain ⟨hsz, hne, hz, hrec⟩ := h
  have hu : ∀ j : Int, 0 ≤ j → j ≤ j0 → geti (seti Fm (j0 + 1) (-((Yf j0 j2 j3 m2 m3 : ℝ) * geti Fm j0
      + (Zf j0 j2 j3 m1 : ℝ) * geti Fm (j0 - 1)) / (Xf j0 j2 j3 m1 : ℝ))) j = geti Fm j :=
    fun j hj hle => geti_seti_ne _ _ _ _ (by omega)
  refine ⟨by rw [size_seti, hsz], by rw [hu _ h0 (by omega)]; exact hne,
    fun j hj hlt => by rw [hu _ hj (by omega)]; exact hz j hj hlt, fun j hj hlt => ?_⟩
  by_cases hjj : j = j0
  · rw [hjj]
    unfold Rec
    rw [geti_seti_same _ _ _ (by omega), hu _ (by omega) (le_refl _), hu _ (by omega) (by omega)]
    field_simp
    ring
  · have := hrec j hj (by omega)
    unfold Rec at this ⊢
    by_cases hj0 : j = 0
    · -- then `j = jmin = 0` and the cell `j - 1` is read at index 0
      have e1 : geti (seti Fm (j0 + 1) (-((Yf j0 j2 j3 m2 m3 : ℝ) * geti Fm j0
          + (Zf j0 j2 j3 m1 : ℝ) * geti Fm (j0 - 1)) / (Xf j0 j2 j3 m1 : ℝ))) (j - 1) = geti Fm (j - 1) :=
        geti_seti_ne _ _ _ _ (by omega)
      rw [hu _ (by omega) (by omega), hu _ (by omega) (by omega), e1]
      exact this
    · rw [hu _ (by omega) (by omega), hu _ (by omega) (by omega), hu _ (by omega) (by omega)]
      exact this

variable {j2 j3 m1 m2 m3} in
theorem fwd_rescale {jmin : Int} {n : Nat} {Fm : Array ℝ} {hi : Int} {c : ℝ}
    (h : FwdInv j2 j3 m1 m2 m3 jmin n Fm hi) (h0 : 0 ≤ jmin) (hlo : jmin < hi) (hn : hi < n) (hc : c ≠ 0)
    (hZ0 : (Zf jmin j2 j3 m1 : ℝ) = 0) :
    FwdInv j2 j3 m1 m2 m3 jmin n (divRange Fm jmin hi c) hi := by
  obtain ⟨hsz, hne, hz, hrec⟩ := h
  have hg := fun j hj => geti_divRange Fm jmin hi c h0 (by rw [hsz]; exact_mod_cast hn) j hj
  refine ⟨by rw [size_divRange, hsz], ?_, fun j hj hlt => ?_, fun j hj hlt => ?_⟩
  · rw [hg _ h0, if_pos ⟨le_refl _, hlo.le⟩]; exact div_ne_zero hne hc
  · rw [hg _ hj, if_neg (by omega)]; exact hz j hj hlt
  · refine Rec_of_scaled (1 / c) (Or.inr ?_) ?_ ?_ (hrec j hj hlt)
    · rw [hg _ (by omega), if_pos ⟨by omega, by omega⟩]; ring
    · rw [hg _ (by omega), if_pos ⟨by omega, by omega⟩]; ring
    · by_cases hjj : j = jmin
      · left; rw [hjj]; exact hZ0
      · right; rw [hg _ (by omega), if_pos ⟨by omega, by omega⟩]; ring


variable {j2 j3 m1 m2 m3} in
theorem FwdInv.mono {jmin : Int} {n : Nat} {Fm : Array ℝ} {hi hi' : Int}
    (h : FwdInv j2 j3 m1 m2 m3 jmin n Fm hi) (hle : hi' ≤ hi) : FwdInv j2 j3 m1 m2 m3 jmin n Fm hi' :=
  ⟨h.1, h.2.1, h.2.2.1, fun j h1 h2 => h.2.2.2 j h1 (by omega)⟩

theorem fwdThreeLoop_triple (jmin : Int) (n : Nat) (scale : ℝ) (jminus jmid0 : Int) (Fm : Array ℝ) :
    ⦃⌜0 ≤ jmin ∧ jmin + 1 ≤ jminus ∧ jmid0 + 1 < n ∧ scale ≠ 0 ∧ (Zf jmin j2 j3 m1 : ℝ) = 0 ∧
       (∀ j, jminus ≤ j → j < jmid0 → (Xf j j2 j3 m1 : ℝ) ≠ 0) ∧
       FwdInv j2 j3 m1 m2 m3 jmin n Fm jminus⌝⦄
      fwdThreeLoop j2 j3 m1 m2 m3 jmin scale jminus jmid0 Fm
    ⦃⇓ r => ⌜r.2 ≤ jmid0 ∧ (r.2 = jmid0 ∨ (jminus + 1 ≤ r.2 ∧ geti r.1 r.2 ≠ 0)) ∧
      FwdInv j2 j3 m1 m2 m3 jmin n r.1 (max jminus r.2)⌝⦄ := by
  mvcgen [fwdThreeLoop] invariants
    · ⇓⟨xs, s⟩ => ⌜s.2 ≤ jmid0 ∧
        ((s.2 = jmid0 ∧ FwdInv j2 j3 m1 m2 m3 jmin n s.1 (jminus + xs.prefix.length)) ∨
         (xs.suffix = [] ∧ jminus + 1 ≤ s.2 ∧ geti s.1 s.2 ≠ 0 ∧ FwdInv j2 j3 m1 m2 m3 jmin n s.1 s.2))⌝
  case vc1.step.isTrue.isTrue =>
    rename_i hpre pref cur suff hr b F0 jm j0 F1 jp hsc F2 hbrk jm' hinv
    obtain ⟨hcur, hlt, _⟩ := range_cur hr
    obtain ⟨h0, h1, hn, hc, hZ0, hX, _⟩ := hpre
    obtain ⟨hle, ⟨hjm, hA⟩ | ⟨hab, _⟩⟩ := hinv
    · have hF1 : FwdInv j2 j3 m1 m2 m3 jmin n F1 (j0 + 1) :=
        fwd_step (hA.mono (by simp only [j0]; omega)) (by simp only [j0]; omega) h0 (by simp only [j0]; omega)
          (hX j0 (by simp only [j0]; omega) (by simp only [j0]; omega))
      have hF2 : FwdInv j2 j3 m1 m2 m3 jmin n F2 (j0 + 1) :=
        fwd_rescale hF1 h0 (by simp only [j0]; omega) (by simp only [j0]; omega) hc hZ0
      have hnz : geti F2 (j0 + 1) ≠ 0 := by
        simp only [Bool.and_eq_true, Bool.not_eq_true', isZero, RealScalar.beq_def,
          RealScalar.zero_def, decide_eq_false_iff_not] at hbrk
        exact hbrk.2
      exact ⟨by simp only [jm', j0]; omega, Or.inr ⟨trivial, by simp only [jm', j0]; omega, hnz, hF2⟩⟩
    · exact absurd hab (by simp)
  case vc2.step.isTrue.isFalse =>
    rename_i hpre pref cur suff hr b F0 jm j0 F1 jp hsc F2 hbrk hinv
    obtain ⟨hcur, hlt, _⟩ := range_cur hr
    obtain ⟨h0, h1, hn, hc, hZ0, hX, _⟩ := hpre
    obtain ⟨hle, ⟨hjm, hA⟩ | ⟨hab, _⟩⟩ := hinv
    · have hF1 : FwdInv j2 j3 m1 m2 m3 jmin n F1 (j0 + 1) :=
        fwd_step (hA.mono (by simp only [j0]; omega)) (by simp only [j0]; omega) h0 (by simp only [j0]; omega)
          (hX j0 (by simp only [j0]; omega) (by simp only [j0]; omega))
      have hF2 : FwdInv j2 j3 m1 m2 m3 jmin n F2 (j0 + 1) :=
        fwd_rescale hF1 h0 (by simp only [j0]; omega) (by simp only [j0]; omega) hc hZ0
      refine ⟨hle, Or.inl ⟨hjm, ?_⟩⟩
      simp only [List.length_append, List.length_singleton, Nat.cast_add, Nat.cast_one]
      exact hF2.mono (by simp only [j0]; omega)
    · exact absurd hab (by simp)
  case vc3.step.isFalse.isTrue =>
    rename_i hpre pref cur suff hr b F0 jm j0 F1 jp hsc hbrk jm' hinv
    obtain ⟨hcur, hlt, _⟩ := range_cur hr
    obtain ⟨h0, h1, hn, hc, hZ0, hX, _⟩ := hpre
    obtain ⟨hle, ⟨hjm, hA⟩ | ⟨hab, _⟩⟩ := hinv
    · have hF1 : FwdInv j2 j3 m1 m2 m3 jmin n F1 (j0 + 1) :=
        fwd_step (hA.mono (by simp only [j0]; omega)) (by simp only [j0]; omega) h0 (by simp only [j0]; omega)
          (hX j0 (by simp only [j0]; omega) (by simp only [j0]; omega))
      have hnz : geti F1 (j0 + 1) ≠ 0 := by
        simp only [Bool.and_eq_true, Bool.not_eq_true', isZero, RealScalar.beq_def,
          RealScalar.zero_def, decide_eq_false_iff_not] at hbrk
        exact hbrk.2
      exact ⟨by simp only [jm', j0]; omega, Or.inr ⟨trivial, by simp only [jm', j0]; omega, hnz, hF1⟩⟩
    · exact absurd hab (by simp)
  case vc4.step.isFalse.isFalse =>
    rename_i hpre pref cur suff hr b F0 jm j0 F1 jp hsc hbrk hinv
    obtain ⟨hcur, hlt, _⟩ := range_cur hr
    obtain ⟨h0, h1, hn, hc, hZ0, hX, _⟩ := hpre
    obtain ⟨hle, ⟨hjm, hA⟩ | ⟨hab, _⟩⟩ := hinv
    · have hF1 : FwdInv j2 j3 m1 m2 m3 jmin n F1 (j0 + 1) :=
        fwd_step (hA.mono (by simp only [j0]; omega)) (by simp only [j0]; omega) h0 (by simp only [j0]; omega)
          (hX j0 (by simp only [j0]; omega) (by simp only [j0]; omega))
      refine ⟨hle, Or.inl ⟨hjm, ?_⟩⟩
      simp only [List.length_append, List.length_singleton, Nat.cast_add, Nat.cast_one]
      exact hF1.mono (by simp only [j0]; omega)
    · exact absurd hab (by simp)
  case vc5.pre =>
    rename_i hpre
    exact ⟨le_refl _, Or.inl ⟨trivial, by simpa using hpre.2.2.2.2.2.2⟩⟩
  case vc6.post.success =>
    rename_i hpre r F' jm hinv
    obtain ⟨hle, ⟨hjm, hA⟩ | ⟨_, h1, h2, hB⟩⟩ := hinv
    · rw [range_length] at hA
      exact ⟨hle, Or.inl hjm, hA.mono (by simp only [jm]; omega)⟩
    · exact ⟨hle, Or.inr ⟨h1, h2⟩, hB.mono (by simp only [jm]; omega)⟩

/-- invariant of the downward sweep: `n` cells, a non-zero cell `s`, recurrence at `lo < j ≤ j_max` -/
def BwdInv (jmax : Int) (n : Nat) (s : Int) (Fp : Array ℝ) (lo : Int) : Prop :=
  Fp.size = n ∧ geti Fp s ≠ 0 ∧ ∀ j, lo < j → j ≤ jmax → Rec j2 j3 m1 m2 m3 Fp j

variable {j2 j3 m1 m2 m3} in
theorem BwdInv.mono {jmax : Int} {n : Nat} {s : Int} {Fp : Array ℝ} {lo lo' : Int}
    (h : BwdInv j2 j3 m1 m2 m3 jmax n s Fp lo) (hle : lo ≤ lo') :
    BwdInv j2 j3 m1 m2 m3 jmax n s Fp lo' :=
  ⟨h.1, h.2.1, fun j h1 h2 => h.2.2 j (by omega) h2⟩

variable {j2 j3 m1 m2 m3} in
theorem bwd_step {jmax : Int} {n : Nat} {s : Int} {Fp : Array ℝ} {j0 : Int}
    (h : BwdInv j2 j3 m1 m2 m3 jmax n s Fp j0) (h1 : 1 ≤ j0) (hs : j0 ≤ s) (hn : jmax < n)
    (hZ : (Zf j0 j2 j3 m1 : ℝ) ≠ 0) :
    BwdInv j2 j3 m1 m2 m3 jmax n s
      (seti Fp (j0 - 1) (-((Xf j0 j2 j3 m1 : ℝ) * geti Fp (j0 + 1) + (Yf j0 j2 j3 m2 m3 : ℝ) * geti Fp j0)
        / (Zf j0 j2 j3 m1 : ℝ))) (j0 - 1) := by
  obtain ⟨hsz, hne, hrec⟩ := h
  have hu : ∀ j : Int, j0 ≤ j → geti (seti Fp (j0 - 1) (-((Xf j0 j2 j3 m1 : ℝ) * geti Fp (j0 + 1)
      + (Yf j0 j2 j3 m2 m3 : ℝ) * geti Fp j0) / (Zf j0 j2 j3 m1 : ℝ))) j = geti Fp j :=
    fun j hle => geti_seti_ne _ _ _ _ (by omega)
  refine ⟨by rw [size_seti, hsz], by rw [hu _ hs]; exact hne, fun j hlo hhi => ?_⟩
  by_cases hjj : j = j0
  · rw [hjj]
    unfold Rec
    rw [geti_seti_same _ _ _ (by omega), hu _ (le_refl _), hu _ (by omega)]
    field_simp
    ring
  · have := hrec j (by omega) hhi
    unfold Rec at this ⊢
    rw [hu _ (by omega), hu _ (by omega), hu _ (by omega)]
    exact this

variable {j2 j3 m1 m2 m3} in
theorem bwd_rescale {jmax : Int} {n : Nat} {s : Int} {Fp : Array ℝ} {lo : Int} {c : ℝ}
    (h : BwdInv j2 j3 m1 m2 m3 jmax n s Fp lo) (h0 : 0 ≤ lo) (hs : lo ≤ s) (hs' : s ≤ jmax)
    (hn : jmax < n) (hc : c ≠ 0) (hX : (Xf jmax j2 j3 m1 : ℝ) = 0) :
    BwdInv j2 j3 m1 m2 m3 jmax n s (divRange Fp lo jmax c) lo := by
  obtain ⟨hsz, hne, hrec⟩ := h
  have hg := fun j hj => geti_divRange Fp lo jmax c h0 (by rw [hsz]; exact_mod_cast hn) j hj
  refine ⟨by rw [size_divRange, hsz], ?_, fun j hlo hhi => ?_⟩
  · rw [hg _ (by omega), if_pos ⟨hs, hs'⟩]; exact div_ne_zero hne hc
  · refine Rec_of_scaled (1 / c) ?_ ?_ (Or.inr ?_) (hrec j hlo hhi)
    · by_cases hjj : j = jmax
      · left; rw [hjj]; exact hX
      · right; rw [hg _ (by omega), if_pos ⟨by omega, by omega⟩]; ring
    · rw [hg _ (by omega), if_pos ⟨by omega, by omega⟩]; ring
    · rw [hg _ (by omega), if_pos ⟨by omega, by omega⟩]; ring

theorem bwdThreeLoop_triple (jmax : Int) (n : Nat) (scale : ℝ) (jplus jlow s : Int) (Fp : Array ℝ) :
    ⦃⌜0 ≤ jlow ∧ jplus ≤ s ∧ s ≤ jmax ∧ jmax < n ∧ scale ≠ 0 ∧ (Xf jmax j2 j3 m1 : ℝ) = 0 ∧
       (∀ j, jlow < j → j ≤ jplus → (Zf j j2 j3 m1 : ℝ) ≠ 0) ∧
       BwdInv j2 j3 m1 m2 m3 jmax n s Fp jplus⌝⦄
      bwdThreeLoop j2 j3 m1 m2 m3 jmax scale jplus jlow Fp
    ⦃⇓ r => ⌜BwdInv j2 j3 m1 m2 m3 jmax n s r (min jplus jlow)⌝⦄ := by
  mvcgen [bwdThreeLoop] invariants
    · ⇓⟨xs, F⟩ => ⌜BwdInv j2 j3 m1 m2 m3 jmax n s F (jplus - xs.prefix.length)⌝
  case vc1.step.isTrue =>
    rename_i hpre pref cur suff hr b j0 F1 hsc F2 hinv
    obtain ⟨hcur, hlt, _⟩ := range_cur hr
    obtain ⟨h0, hs, hs', hn, hc, hX, hZ, _⟩ := hpre
    have hF1 : BwdInv j2 j3 m1 m2 m3 jmax n s F1 (j0 - 1) :=
      bwd_step (hinv.mono (by simp only [j0]; omega)) (by simp only [j0]; omega) (by simp only [j0]; omega)
        hn (hZ j0 (by simp only [j0]; omega) (by simp only [j0]; omega))
    have hF2 : BwdInv j2 j3 m1 m2 m3 jmax n s F2 (j0 - 1) :=
      bwd_rescale hF1 (by simp only [j0]; omega) (by simp only [j0]; omega) hs' hn hc hX
    simp only [List.length_append, List.length_singleton, Nat.cast_add, Nat.cast_one]
    exact hF2.mono (by simp only [j0]; omega)
  case vc2.step.isFalse =>
    rename_i hpre pref cur suff hr b j0 F1 hsc hinv
    obtain ⟨hcur, hlt, _⟩ := range_cur hr
    obtain ⟨h0, hs, hs', hn, hc, hX, hZ, _⟩ := hpre
    have hF1 : BwdInv j2 j3 m1 m2 m3 jmax n s F1 (j0 - 1) :=
      bwd_step (hinv.mono (by simp only [j0]; omega)) (by simp only [j0]; omega) (by simp only [j0]; omega)
        hn (hZ j0 (by simp only [j0]; omega) (by simp only [j0]; omega))
    simp only [List.length_append, List.length_singleton, Nat.cast_add, Nat.cast_one]
    exact hF1.mono (by simp only [j0]; omega)
  case vc3.pre =>
    rename_i hpre
    simpa using hpre.2.2.2.2.2.2.2
  case vc4.post.success =>
    rename_i hpre r hinv
    rw [range_length] at hinv
    exact hinv.mono (by omega)

/-- `s(j) = -X(j) / (Y(j) + Z(j) s(j-1))` with non-zero denominator -/
def SfOK (sf : Array ℝ) (j : Int) : Prop :=
  (Yf j j2 j3 m2 m3 : ℝ) + (Zf j j2 j3 m1 : ℝ) * geti sf (j-1) ≠ 0 ∧
  geti sf j = -(Xf j j2 j3 m1 : ℝ) / ((Yf j j2 j3 m2 m3 : ℝ) + (Zf j j2 j3 m1 : ℝ) * geti sf (j-1))

/-- `r(j) = -Z(j) / (Y(j) + X(j) r(j+1))` with non-zero denominator -/
def RfOK (sf : Array ℝ) (j : Int) : Prop :=
  (Yf j j2 j3 m2 m3 : ℝ) + (Xf j j2 j3 m1 : ℝ) * geti sf (j+1) ≠ 0 ∧
  geti sf j = -(Zf j j2 j3 m1 : ℝ) / ((Yf j j2 j3 m2 m3 : ℝ) + (Xf j j2 j3 m1 : ℝ) * geti sf (j+1))

variable {j2 j3 m1 m2 m3} in
theorem SfOK_congr {s s' : Array ℝ} {j : Int} (h1 : geti s' j = geti s j)
    (h2 : geti s' (j-1) = geti s (j-1)) (h : SfOK j2 j3 m1 m2 m3 s j) : SfOK j2 j3 m1 m2 m3 s' j := by
  unfold SfOK at h ⊢; rw [h1, h2]; exact h

variable {j2 j3 m1 m2 m3} in
theorem RfOK_congr {s s' : Array ℝ} {j : Int} (h1 : geti s' j = geti s j)
    (h2 : geti s' (j+1) = geti s (j+1)) (h : RfOK j2 j3 m1 m2 m3 s j) : RfOK j2 j3 m1 m2 m3 s' j := by
  unfold RfOK at h ⊢; rw [h1, h2]; exact h

theorem fwdRatioLoop_triple (jmin jmax : Int) (sf : Array ℝ) :
    ⦃⌜0 ≤ jmin ∧ jmin ≤ jmax ∧ jmax < sf.size⌝⦄ fwdRatioLoop j2 j3 m1 m2 m3 jmin jmax sf
    ⦃⇓ r => ⌜r.1.size = sf.size ∧ geti r.1 jmin = geti sf jmin ∧ jmin ≤ r.2 ∧ r.2 ≤ jmax ∧
      ∀ j, jmin < j → j < r.2 → SfOK j2 j3 m1 m2 m3 r.1 j⌝⦄ := by
  mvcgen [fwdRatioLoop] invariants
    · ⇓⟨xs, s⟩ => ⌜s.1.size = sf.size ∧ geti s.1 jmin = geti sf jmin ∧ jmin ≤ s.2 ∧ s.2 ≤ jmax ∧
        (s.2 = jmax ∨ xs.suffix = []) ∧
        ∀ j, jmin < j → j < s.2 → j < jmin + 1 + xs.prefix.length → SfOK j2 j3 m1 m2 m3 s.1 j⌝
  case vc1.step.isTrue =>
    rename_i hpre pref cur suff hr b sf' jm j0 den Xfj hc jm' hinv
    obtain ⟨hcur, hlt, _⟩ := range_cur hr
    obtain ⟨hsz, hseed, hlo, hhi, hbrk, hok⟩ := hinv
    have hjm : b.2 = jmax := by rcases hbrk with h | h; exact h; exact absurd h (by simp)
    simp only [sf', jm', j0]
    refine ⟨hsz, hseed, by omega, by omega, Or.inr trivial, fun j h1 h2 _ => ?_⟩
    exact hok j h1 (by omega) (by omega)
  case vc2.step.isFalse =>
    rename_i hpre pref cur suff hr b sf0 jm j0 den Xfj hc sf' hinv
    obtain ⟨hcur, hlt, _⟩ := range_cur hr
    obtain ⟨hsz, hseed, hlo, hhi, hbrk, hok⟩ := hinv
    have hjm : b.2 = jmax := by rcases hbrk with h | h; exact h; exact absurd h (by simp)
    have hden : den ≠ 0 := by
      simp only [Bool.or_eq_true, not_or, isZero, RealScalar.beq_def, RealScalar.zero_def,
        decide_eq_true_eq] at hc
      exact hc.2
    simp only [List.length_append, List.length_singleton, Nat.cast_add, Nat.cast_one]
    have hidx : j0.toNat < sf0.size := by simp only [j0, sf0]; omega
    simp only [sf', jm]
    refine ⟨by rw [size_seti]; exact hsz, ?_, hlo, hhi, Or.inl hjm, fun j h1 h2 h3 => ?_⟩
    · rw [geti_seti_ne _ _ _ _ (by simp only [j0]; omega)]; exact hseed
    · by_cases hj : j = j0
      · rw [hj]
        have hprev : geti (seti sf0 j0 (neg Xfj /. den)) (j0 - 1) = geti sf0 (j0 - 1) :=
          geti_seti_ne _ _ _ _ (by simp only [j0]; omega)
        unfold SfOK
        rw [hprev, geti_seti_same _ _ _ hidx]
        exact ⟨hden, rfl⟩
      · refine SfOK_congr (geti_seti_ne _ _ _ _ (by simp only [j0] at hj ⊢; omega))
          (geti_seti_ne _ _ _ _ (by simp only [j0] at hj ⊢; omega)) (hok j h1 h2 ?_)
        simp only [j0] at hj; omega
  case vc3.pre =>
    rename_i hpre
    refine ⟨trivial, trivial, hpre.2.1, le_refl _, Or.inl trivial, fun j h1 h2 h3 => ?_⟩
    simp at h3; omega
  case vc4.post.success =>
    rename_i hpre r sf' jm hinv
    obtain ⟨hsz, hseed, hlo, hhi, hbrk, hok⟩ := hinv
    rw [range_length] at hok
    exact ⟨hsz, hseed, hlo, hhi, fun j h1 h2 => hok j h1 h2 (by omega)⟩

theorem revRatioLoop_triple (jmin jmax jminus : Int) (sf : Array ℝ) :
    ⦃⌜0 ≤ jmin ∧ jmin ≤ jminus ∧ jminus ≤ jmax ∧ jmax < sf.size⌝⦄
      revRatioLoop j2 j3 m1 m2 m3 jmin jmax jminus sf
    ⦃⇓ r => ⌜r.1.size = sf.size ∧ geti r.1 jmax = geti sf jmax ∧
      (r.2 = jmin ∨ (jminus + 1 ≤ r.2 ∧ r.2 ≤ jmax)) ∧
      ∀ j, jminus ≤ j → r.2 ≤ j → j < jmax → RfOK j2 j3 m1 m2 m3 r.1 j⌝⦄ := by
  mvcgen [revRatioLoop] invariants
    · ⇓⟨xs, s⟩ => ⌜s.1.size = sf.size ∧ geti s.1 jmax = geti sf jmax ∧
        (s.2 = jmin ∨ (jminus + 1 ≤ s.2 ∧ s.2 ≤ jmax)) ∧
        (s.2 = jmin ∨ xs.suffix = []) ∧
        ∀ j, jminus ≤ j → s.2 ≤ j → jmax - xs.prefix.length ≤ j → j < jmax → RfOK j2 j3 m1 m2 m3 s.1 j⌝
  case vc1.step.isTrue =>
    rename_i hpre pref cur suff hr b sf' jp j0 den Zfj hc jp' hinv
    obtain ⟨hcur, hlt, _⟩ := range_cur hr
    obtain ⟨hsz, hseed, hrange, hbrk, hok⟩ := hinv
    have hjp : b.2 = jmin := by rcases hbrk with h | h; exact h; exact absurd h (by simp)
    simp only [sf', jp', j0]
    refine ⟨hsz, hseed, Or.inr (by omega), Or.inr trivial, fun j h1 h2 _ h4 => ?_⟩
    exact hok j h1 (by omega) (by omega) h4
  case vc2.step.isFalse =>
    rename_i hpre pref cur suff hr b sf0 jp j0 den Zfj hc sf' hinv
    obtain ⟨hcur, hlt, _⟩ := range_cur hr
    obtain ⟨hsz, hseed, hrange, hbrk, hok⟩ := hinv
    have hjp : b.2 = jmin := by rcases hbrk with h | h; exact h; exact absurd h (by simp)
    have hden : den ≠ 0 := by
      simp only [Bool.or_eq_true, not_or, isZero, RealScalar.beq_def, RealScalar.zero_def,
        decide_eq_true_eq] at hc
      exact hc.1.1
    simp only [List.length_append, List.length_singleton, Nat.cast_add, Nat.cast_one]
    have hidx : j0.toNat < sf0.size := by simp only [j0, sf0]; omega
    simp only [sf', jp]
    refine ⟨by rw [size_seti]; exact hsz, ?_, hrange, Or.inl hjp, fun j h1 h2 h3 h4 => ?_⟩
    · rw [geti_seti_ne _ _ _ _ (by simp only [j0]; omega)]; exact hseed
    · by_cases hj : j = j0
      · rw [hj]
        have hnext : geti (seti sf0 j0 (neg Zfj /. den)) (j0 + 1) = geti sf0 (j0 + 1) :=
          geti_seti_ne _ _ _ _ (by simp only [j0]; omega)
        unfold RfOK
        rw [hnext, geti_seti_same _ _ _ hidx]
        exact ⟨hden, rfl⟩
      · refine RfOK_congr (geti_seti_ne _ _ _ _ (by simp only [j0] at hj ⊢; omega))
          (geti_seti_ne _ _ _ _ (by simp only [j0] at hj ⊢; omega)) (hok j h1 h2 ?_ h4)
        simp only [j0] at hj; omega
  case vc3.pre =>
    rename_i hpre
    refine ⟨trivial, trivial, Or.inl trivial, Or.inl trivial, fun j h1 h2 h3 h4 => ?_⟩
    simp at h3; omega
  case vc4.post.success =>
    rename_i hpre r sf' jp hinv
    obtain ⟨hsz, hseed, hrange, hbrk, hok⟩ := hinv
    rw [range_length] at hok
    exact ⟨hsz, hseed, hrange, fun j h1 h2 h3 => hok j h1 h2 (by omega) h3⟩

end recurrence

/-! ### the phases in exact arithmetic -/
noncomputable section glue
open Std.Do
variable (j2 j3 m1 m2 m3 : Int)

/-- the facts about the coefficient functions the analysis needs -/
structure Coef (jmin jmax : Int) : Prop where
  h0 : 0 ≤ jmin
  hlt : jmin < jmax
  Z0 : (Zf jmin j2 j3 m1 : ℝ) = 0
  Xtop : (Xf jmax j2 j3 m1 : ℝ) = 0
  Zne : ∀ j, jmin < j → j ≤ jmax → (Zf j j2 j3 m1 : ℝ) ≠ 0
  Xne : ∀ j, jmin ≤ j → j < jmax → j ≠ 0 → (Xf j j2 j3 m1 : ℝ) ≠ 0
  Y0 : jmin = 0 → (Yf jmin j2 j3 m2 m3 : ℝ) = 0
  Yz : m1 = 0 → m2 = 0 → m3 = 0 → ∀ j, (Yf j j2 j3 m2 m3 : ℝ) = 0

theorem negYf_real (j : Int) : (negYf j j2 j3 m2 m3 : ℝ) = -(Yf j j2 j3 m2 m3 : ℝ) := by
  simp [negYf, Yf]

variable {j2 j3 m1 m2 m3}

/-- two seeded cells on a zero array -/
theorem fwdInv_seed {jmin jmax : Int} (C : Coef j2 j3 m1 m2 m3 jmin jmax) {n : Nat} {a : Array ℝ}
    (hsz : a.size = n) (h1 : geti a jmin ≠ 0) (hz : ∀ j, 0 ≤ j → j < jmin → geti a j = 0)
    (hrec : (Xf jmin j2 j3 m1 : ℝ) * geti a (jmin + 1) + (Yf jmin j2 j3 m2 m3 : ℝ) * geti a jmin = 0) :
    FwdInv j2 j3 m1 m2 m3 jmin n a (jmin + 1) := by
  refine ⟨hsz, h1, hz, fun j hj hlt => ?_⟩
  have : j = jmin := by omega
  rw [this]
  unfold Rec
  rw [C.Z0, zero_mul, add_zero]
  exact hrec

theorem seed2 {n : Nat} {Fm : Array ℝ} (hFm : Fm.size = n) (hz : ∀ j, geti Fm j = 0) (jmin : Int)
    (h0 : 0 ≤ jmin) (hn : jmin + 1 < n) (v : ℝ) :
    (seti (seti Fm jmin one) (jmin + 1) v).size = n ∧
    geti (seti (seti Fm jmin one) (jmin + 1) v) jmin = 1 ∧
    geti (seti (seti Fm jmin one) (jmin + 1) v) (jmin + 1) = v ∧
    ∀ j, 0 ≤ j → j ≠ jmin → j ≠ jmin + 1 → geti (seti (seti Fm jmin one) (jmin + 1) v) j = 0 := by
  refine ⟨by rw [size_seti, size_seti, hFm], ?_, ?_, fun j hj h1 h2 => ?_⟩
  · rw [geti_seti_ne _ _ _ _ (by omega), geti_seti_same _ _ _ (by omega)]; simp
  · rw [geti_seti_same _ _ _ (by rw [size_seti]; omega)]
  · rw [geti_seti_ne _ _ _ _ (by omega), geti_seti_ne _ _ _ _ (by omega), hz]

/-- what the forward phase guarantees -/
def FwdOK (jmin jmax : Int) (n : Nat) (fw : Fwd ℝ) : Prop :=
  fw.sf.size = n ∧ (fw.undefMin = true → fw.jminus = jmin) ∧
  (fw.undefMin = false → jmin + 1 ≤ fw.jminus ∧ fw.jminus ≤ jmax ∧
    FwdInv j2 j3 m1 m2 m3 jmin n fw.Fm fw.jminus)

theorem fwdOK_seed {jmin jmax : Int} (C : Coef j2 j3 m1 m2 m3 jmin jmax) {n : Nat} {sf Fm : Array ℝ}
    (hsf : sf.size = n) (hFm : Fm.size = n) (hz : ∀ j, geti Fm j = 0) (hn : jmax < n) (v : ℝ)
    (hrec : (Xf jmin j2 j3 m1 : ℝ) * v + (Yf jmin j2 j3 m2 m3 : ℝ) = 0) :
    FwdOK (j2 := j2) (j3 := j3) (m1 := m1) (m2 := m2) (m3 := m3) jmin jmax n
      ⟨sf, seti (seti Fm jmin one) (jmin + 1) v, false, jmin + 1⟩ := by
  obtain ⟨s1, s2, s3, s4⟩ := seed2 hFm hz jmin C.h0 (by have := C.hlt; omega) v
  have hlt := C.hlt
  refine ⟨hsf, fun h => by simp at h, fun _ => ⟨le_refl _, ?_, ?_⟩⟩
  · show jmin + 1 ≤ jmax; omega
  show FwdInv j2 j3 m1 m2 m3 jmin n (seti (seti Fm jmin one) (jmin + 1) v) (jmin + 1)
  refine fwdInv_seed C s1 (by rw [s2]; norm_num) (fun j hj hlt => s4 j hj (by omega) (by omega)) ?_
  rw [s2, s3, mul_one]; exact hrec


/-- the forward non-classical region: ratios, then values; the recurrence holds below `j_minus` and no
    value vanishes -/
theorem fwd_ratio_fill {jmin jmax : Int} (C : Coef j2 j3 m1 m2 m3 jmin jmax) {n : Nat} {sf Fm : Array ℝ}
    (hsf : sf.size = n) (hFm : Fm.size = n) (hz : ∀ j, geti Fm j = 0) (hn : jmax < n)
    (hY : (Yf jmin j2 j3 m2 m3 : ℝ) ≠ 0) :
    let r := (fwdRatioLoop j2 j3 m1 m2 m3 jmin jmax
      (seti sf jmin (-(Xf jmin j2 j3 m1 : ℝ) / (Yf jmin j2 j3 m2 m3 : ℝ)))).run
    let Fm' := (fwdFillLoop jmin r.2 r.1 (seti Fm r.2 one)).run
    r.1.size = n ∧ jmin ≤ r.2 ∧ r.2 ≤ jmax ∧ Fm'.size = n ∧ geti Fm' r.2 = 1 ∧
    (∀ j, 0 ≤ j → (j < jmin ∨ r.2 < j) → geti Fm' j = 0) ∧
    (∀ j, jmin ≤ j → j ≤ r.2 → geti Fm' j ≠ 0) ∧
    (∀ j, jmin ≤ j → j < r.2 → Rec j2 j3 m1 m2 m3 Fm' j) := by
  intro r Fm'
  have h0 := C.h0
  have hlt := C.hlt
  have hjm0 : jmin ≠ 0 := fun h => hY (C.Y0 h)
  have hXmin : (Xf jmin j2 j3 m1 : ℝ) ≠ 0 := C.Xne jmin (le_refl _) hlt hjm0
  obtain ⟨r1, r2, r3, r4, r5⟩ := (id_triple _ _ _).1
    (fwdRatioLoop_triple j2 j3 m1 m2 m3 jmin jmax
      (seti sf jmin (-(Xf jmin j2 j3 m1 : ℝ) / (Yf jmin j2 j3 m2 m3 : ℝ))))
    ⟨h0, hlt.le, by rw [size_seti, hsf]; exact_mod_cast hn⟩
  rw [size_seti, hsf] at r1
  rw [geti_seti_same _ _ _ (by omega)] at r2
  change r.1.size = n at r1
  change geti r.1 jmin = _ at r2
  change jmin ≤ r.2 at r3
  change r.2 ≤ jmax at r4
  change ∀ j, jmin < j → j < r.2 → SfOK j2 j3 m1 m2 m3 r.1 j at r5
  obtain ⟨f1, f2, f3⟩ := (id_triple _ _ _).1 (fwdFillLoop_triple jmin r.2 r.1 (seti Fm r.2 one))
    ⟨h0, r3, by rw [size_seti, hFm]; omega⟩
  rw [size_seti, hFm] at f1
  change Fm'.size = n at f1
  change ∀ j, jmin ≤ j → j < r.2 → geti Fm' j = geti Fm' (j+1) * geti r.1 j at f2
  change ∀ j, 0 ≤ j → (j < jmin ∨ r.2 ≤ j) → geti Fm' j = geti (seti Fm r.2 one) j at f3
  have hseed : geti Fm' r.2 = 1 := by
    rw [f3 _ (by omega) (Or.inr (le_refl _)), geti_seti_same _ _ _ (by omega)]; simp
  have hzero : ∀ j, 0 ≤ j → (j < jmin ∨ r.2 < j) → geti Fm' j = 0 := by
    intro j hj h
    rw [f3 j hj (by omega), geti_seti_ne _ _ _ _ (by omega), hz]
  -- the ratios do not vanish
  have hsfne : ∀ j, jmin ≤ j → j < r.2 → geti r.1 j ≠ 0 := by
    intro j h1 h2
    by_cases hj : j = jmin
    · rw [hj, r2]; exact div_ne_zero (neg_ne_zero.2 hXmin) hY
    · obtain ⟨hd, he⟩ := r5 j (by omega) h2
      rw [he]
      exact div_ne_zero (neg_ne_zero.2 (C.Xne j h1 (by omega) (by omega))) hd
  have hne : ∀ k : Nat, ∀ j, j = r.2 - k → jmin ≤ j → geti Fm' j ≠ 0 := by
    intro k
    induction k with
    | zero => intro j hj _; rw [hj]; simp only [Nat.cast_zero, sub_zero, hseed]; norm_num
    | succ k ih =>
      intro j hj hlo
      rw [f2 j hlo (by omega)]
      exact mul_ne_zero (ih (j + 1) (by omega) (by omega)) (hsfne j hlo (by omega))
  refine ⟨r1, r3, r4, f1, hseed, hzero, fun j h1 h2 => hne (r.2 - j).toNat j (by omega) h1,
    fun j h1 h2 => ?_⟩
  unfold Rec
  by_cases hj : j = jmin
  · rw [hj, C.Z0, zero_mul, add_zero, f2 jmin (le_refl _) (by omega), r2]
    field_simp
    ring
  · obtain ⟨hd, he⟩ := r5 j (by omega) h2
    rw [f2 (j - 1) (by omega) (by omega), sub_add_cancel, f2 j h1 h2, he]
    field_simp
    ring

theorem fwdPhase_ok {jmin jmax : Int} (C : Coef j2 j3 m1 m2 m3 jmin jmax) {n : Nat} {sf Fm : Array ℝ}
    (hsf : sf.size = n) (hFm : Fm.size = n) (hz : ∀ j, geti Fm j = 0) (hn : jmax < n) :
    FwdOK (j2 := j2) (j3 := j3) (m1 := m1) (m2 := m2) (m3 := m3) jmin jmax n
      (fwdPhase j2 j3 m1 m2 m3 jmin jmax sf Fm) := by
  have h0 := C.h0
  have hlt := C.hlt
  unfold fwdPhase
  simp only [isZero, ge0, RealScalar.beq_def, RealScalar.le_def, RealScalar.zero_def,
    RealScalar.mul_def, RealScalar.div_def, RealScalar.neg_def, decide_eq_true_eq, negYf_real]
  split
  · -- all m vanish
    rename_i hm
    simp only [Bool.and_eq_true, decide_eq_true_eq] at hm
    refine fwdOK_seed C hsf hFm hz hn 0 ?_
    rw [mul_zero, zero_add]
    exact C.Yz hm.1.1 hm.1.2 hm.2 jmin
  · split
    · rename_i hY
      split
      · exact ⟨hsf, fun _ => rfl, fun h => by simp at h⟩
      · refine fwdOK_seed C hsf hFm hz hn 0 ?_
        rw [mul_zero, zero_add]; exact hY
    · rename_i hY
      have hjm0 : jmin ≠ 0 := fun h => hY (C.Y0 h)
      have hXmin : (Xf jmin j2 j3 m1 : ℝ) ≠ 0 := C.Xne jmin (le_refl _) hlt hjm0
      split
      · refine fwdOK_seed C hsf hFm hz hn _ ?_
        field_simp
        ring
      · obtain ⟨r1, r3, r4, f1, hseed, hzero, hne, hrec⟩ := fwd_ratio_fill C hsf hFm hz hn hY
        split
        · rename_i hr
          refine ⟨r1, fun h => by simp at h, fun _ => ⟨le_refl _, ?_, ?_⟩⟩
          · show jmin + 1 ≤ jmax; omega
          · refine fwdInv_seed C (by rw [size_seti]; exact f1) ?_ (fun j hj hl => ?_) ?_
            · rw [geti_seti_ne _ _ _ _ (by omega)]; exact hne jmin (le_refl _) r3
            · rw [geti_seti_ne _ _ _ _ (by omega)]; exact hzero j hj (Or.inl hl)
            · rw [geti_seti_same _ _ _ (by rw [f1]; omega), geti_seti_ne _ _ _ _ (by omega)]
              have h1 : geti _ jmin = (1 : ℝ) := (congrArg _ hr).symm.trans hseed
              rw [h1]
              field_simp
              ring
        · rename_i hr
          refine ⟨r1, fun h => by simp at h, fun _ => ⟨?_, r4, f1, hne jmin (le_refl _) r3,
            fun j hj hl => hzero j hj (Or.inl hl), hrec⟩⟩
          dsimp only
          omega

/-- the reverse non-classical region -/
theorem rev_ratio_fill {jmin jmax : Int} (C : Coef j2 j3 m1 m2 m3 jmin jmax) {n : Nat} {sf Fp : Array ℝ}
    (hsf : sf.size = n) (hFp : Fp.size = n) (hn : jmax < n) (jminus : Int) (hjm : jmin ≤ jminus)
    (hjm' : jminus ≤ jmax) (hY : (Yf jmax j2 j3 m2 m3 : ℝ) ≠ 0) :
    let r := (revRatioLoop j2 j3 m1 m2 m3 jmin jmax jminus
      (seti sf jmax (-(Zf jmax j2 j3 m1 : ℝ) / (Yf jmax j2 j3 m2 m3 : ℝ)))).run
    let Fp' := (revFillLoop jmax r.2 r.1 (seti Fp r.2 one)).run
    (r.2 = jmin ∨ (jminus + 1 ≤ r.2 ∧ r.2 ≤ jmax)) ∧ Fp'.size = n ∧ geti Fp' r.2 = 1 ∧
    (∀ j, r.2 < j → jminus ≤ j → j ≤ jmax → Rec j2 j3 m1 m2 m3 Fp' j) := by
  intro r Fp'
  have h0 := C.h0
  have hlt := C.hlt
  obtain ⟨r1, r2, r3, r5⟩ := (id_triple _ _ _).1
    (revRatioLoop_triple j2 j3 m1 m2 m3 jmin jmax jminus
      (seti sf jmax (-(Zf jmax j2 j3 m1 : ℝ) / (Yf jmax j2 j3 m2 m3 : ℝ))))
    ⟨h0, hjm, hjm', by rw [size_seti, hsf]; exact_mod_cast hn⟩
  rw [size_seti, hsf] at r1
  rw [geti_seti_same _ _ _ (by omega)] at r2
  change r.1.size = n at r1
  change geti r.1 jmax = _ at r2
  change r.2 = jmin ∨ (jminus + 1 ≤ r.2 ∧ r.2 ≤ jmax) at r3
  change ∀ j, jminus ≤ j → r.2 ≤ j → j < jmax → RfOK j2 j3 m1 m2 m3 r.1 j at r5
  have hr0 : 0 ≤ r.2 ∧ r.2 ≤ jmax := by omega
  obtain ⟨f1, f2, f3⟩ := (id_triple _ _ _).1 (revFillLoop_triple jmax r.2 r.1 (seti Fp r.2 one))
    ⟨hr0.1, hr0.2, by rw [size_seti, hFp]; exact_mod_cast hn⟩
  rw [size_seti, hFp] at f1
  change Fp'.size = n at f1
  change ∀ j, r.2 < j → j ≤ jmax → geti Fp' j = geti Fp' (j-1) * geti r.1 j at f2
  change ∀ j, 0 ≤ j → (j ≤ r.2 ∨ jmax < j) → geti Fp' j = geti (seti Fp r.2 one) j at f3
  have hseed : geti Fp' r.2 = 1 := by
    rw [f3 _ (by omega) (Or.inl (le_refl _)), geti_seti_same _ _ _ (by omega)]; simp
  refine ⟨r3, f1, hseed, fun j h1 h2 h3 => ?_⟩
  unfold Rec
  by_cases hj : j = jmax
  · rw [hj, C.Xtop, zero_mul, zero_add, f2 jmax (by omega) (le_refl _), r2]
    field_simp
    ring
  · obtain ⟨hd, he⟩ := r5 j h2 h1.le (by omega)
    rw [f2 (j + 1) (by omega) (by omega), add_sub_cancel_right, f2 j h1 h3, he]
    field_simp
    ring

/-- what the reverse phase guarantees -/
def RevOK (jmin jmax : Int) (n : Nat) (jminus : Int) (rv : Rev ℝ) : Prop :=
  rv.undefMax = false ∧ jmin ≤ rv.jplus ∧ rv.jplus ≤ jmax - 1 ∧
  ∃ s, rv.jplus ≤ s ∧ s ≤ jmax ∧ BwdInv j2 j3 m1 m2 m3 jmax n s rv.Fp (max rv.jplus (jminus - 1))

theorem bwdInv_seed {jmin jmax : Int} (C : Coef j2 j3 m1 m2 m3 jmin jmax) {n : Nat} {a : Array ℝ}
    (hsz : a.size = n) (h1 : geti a jmax ≠ 0)
    (hrec : (Yf jmax j2 j3 m2 m3 : ℝ) * geti a jmax + (Zf jmax j2 j3 m1 : ℝ) * geti a (jmax - 1) = 0) :
    BwdInv j2 j3 m1 m2 m3 jmax n jmax a (jmax - 1) := by
  refine ⟨hsz, h1, fun j hj hle => ?_⟩
  have : j = jmax := by omega
  rw [this]
  unfold Rec
  rw [C.Xtop, zero_mul, zero_add]
  exact hrec

theorem revOK_seed {jmin jmax : Int} (C : Coef j2 j3 m1 m2 m3 jmin jmax) {n : Nat} {sf Fp : Array ℝ}
    (hFp : Fp.size = n) (hn : jmax < n) (jminus : Int) (v : ℝ)
    (hrec : (Yf jmax j2 j3 m2 m3 : ℝ) + (Zf jmax j2 j3 m1 : ℝ) * v = 0) :
    RevOK (j2 := j2) (j3 := j3) (m1 := m1) (m2 := m2) (m3 := m3) jmin jmax n jminus
      ⟨sf, seti (seti Fp jmax one) (jmax - 1) v, false, jmax - 1⟩ := by
  have h0 := C.h0
  have hlt := C.hlt
  refine ⟨rfl, ?_, le_refl _, jmax, ?_, le_refl _, ?_⟩
  · show jmin ≤ jmax - 1; omega
  · show jmax - 1 ≤ jmax; omega
  · refine BwdInv.mono (bwdInv_seed C (by rw [size_seti, size_seti, hFp]) ?_ ?_) (le_max_left _ _)
    · rw [geti_seti_ne _ _ _ _ (by omega), geti_seti_same _ _ _ (by omega)]; simp
    · rw [geti_seti_ne _ _ _ _ (by omega), geti_seti_same _ _ _ (by omega),
        geti_seti_same _ _ _ (by rw [size_seti]; omega)]
      simp only [RealScalar.one_def, mul_one]; exact hrec

theorem revPhase_ok {jmin jmax : Int} (C : Coef j2 j3 m1 m2 m3 jmin jmax) {n : Nat} {sf Fp : Array ℝ}
    (hsf : sf.size = n) (hFp : Fp.size = n) (hn : jmax < n) (jminus : Int) (hjm : jmin ≤ jminus)
    (hjm' : jminus ≤ jmax - 1) :
    RevOK (j2 := j2) (j3 := j3) (m1 := m1) (m2 := m2) (m3 := m3) jmin jmax n jminus
      (revPhase j2 j3 m1 m2 m3 jmin jmax sf Fp jminus) := by
  have h0 := C.h0
  have hlt := C.hlt
  have hZ : (Zf jmax j2 j3 m1 : ℝ) ≠ 0 := C.Zne jmax hlt (le_refl _)
  unfold revPhase
  simp only [isZero, ge0, RealScalar.beq_def, RealScalar.le_def, RealScalar.zero_def,
    RealScalar.mul_def, RealScalar.div_def, RealScalar.neg_def, decide_eq_true_eq, negYf_real]
  split
  · rename_i hm
    simp only [Bool.and_eq_true, decide_eq_true_eq] at hm
    refine revOK_seed C hFp hn jminus 0 ?_
    rw [mul_zero, add_zero]
    exact C.Yz hm.1.1 hm.1.2 hm.2 jmax
  · split
    · rename_i hY
      refine revOK_seed C hFp hn jminus _ ?_
      rw [hY]; simp
    · rename_i hY
      split
      · refine revOK_seed C hFp hn jminus _ ?_
        field_simp
        ring
      · obtain ⟨r3, f1, hseed, hrec⟩ := rev_ratio_fill C hsf hFp hn jminus hjm (by omega) hY
        split
        · rename_i hr
          refine ⟨rfl, ?_, le_refl _, jmax, ?_, le_refl _, ?_⟩
          · show jmin ≤ jmax - 1; omega
          · show jmax - 1 ≤ jmax; omega
          · refine BwdInv.mono (bwdInv_seed C (by rw [size_seti]; exact f1) ?_ ?_) (le_max_left _ _)
            · rw [geti_seti_ne _ _ _ _ (by omega)]
              have h1 : geti _ jmax = (1 : ℝ) := (congrArg _ hr).symm.trans hseed
              rw [h1]; norm_num
            · rw [geti_seti_same _ _ _ (by rw [f1]; omega), geti_seti_ne _ _ _ _ (by omega)]
              have h1 : geti _ jmax = (1 : ℝ) := (congrArg _ hr).symm.trans hseed
              rw [h1]
              field_simp
              ring
        · rename_i hr
          refine ⟨rfl, ?_, ?_, _, le_refl _, ?_, f1, ?_, fun j h1 h2 => ?_⟩
          · dsimp only; omega
          · dsimp only; omega
          · dsimp only; omega
          · dsimp only; rw [hseed]; norm_num
          · dsimp only at h1
            exact hrec j (by omega) (by omega) h2

/-- the un-normalised array satisfies the recurrence at every cell of the range but one (the matching
    point `jm`), and does not vanish identically -/
def Good (jmin jmax : Int) (f : Array ℝ) : Prop :=
  ∃ jm, jmin ≤ jm ∧ jm ≤ jmax ∧ (∀ j, jmin ≤ j → j ≤ jmax → j ≠ jm → Rec j2 j3 m1 m2 m3 f j) ∧
    ∃ s, jmin ≤ s ∧ s ≤ jmax ∧ geti f s ≠ 0

/-- the run returns `finish f` with `f` a `Good` array of `n` cells -/
def GoodOut (jmin jmax : Int) (n : Nat) (f0 : Array ℝ) (r : Out ℝ) : Prop :=
  ∃ f : Array ℝ, f.size = n ∧ r = Lemmas.W3jBounds.finish j2 j3 m2 m3 jmin jmax f ∧
    (∀ j, 0 ≤ j → (j < jmin ∨ jmax < j) → geti f j = geti f0 j) ∧
    Good (j2 := j2) (j3 := j3) (m1 := m1) (m2 := m2) (m3 := m3) jmin jmax f

theorem meet_ok {jmin jmax : Int} (C : Coef j2 j3 m1 m2 m3 jmin jmax) {n : Nat} {scale : ℝ}
    {f Fm Fp : Array ℝ} {jplus jmid s : Int} (hsc : scale ≠ 0) (hf : f.size = n) (hn : jmax < n)
    (hFm : ∀ j, jmin ≤ j → j < jmid → Rec j2 j3 m1 m2 m3 Fm j) (hmid : geti Fm jmid ≠ 0)
    (h1 : jmin ≤ jmid) (h2 : jmid ≤ jplus) (h3 : jplus ≤ jmax - 1) (hs : jplus ≤ s) (hs' : s ≤ jmax)
    (hFp : BwdInv j2 j3 m1 m2 m3 jmax n s Fp jplus) :
    GoodOut (j2 := j2) (j3 := j3) (m1 := m1) (m2 := m2) (m3 := m3) jmin jmax n f
      (Lemmas.W3jBounds.meet j2 j3 m1 m2 m3 jmin jmax scale f Fm Fp jplus jmid (geti Fm jmid)) := by
  have h0 := C.h0
  have hlt := C.hlt
  rw [meet_eq]
  obtain ⟨b1, b2, b3⟩ : BwdInv j2 j3 m1 m2 m3 jmax n s
      (bwdThreeLoop j2 j3 m1 m2 m3 jmax scale jplus jmid Fp).run jmid := by
    have := (id_triple _ _ _).1 (bwdThreeLoop_triple j2 j3 m1 m2 m3 jmax n scale jplus jmid s Fp)
      ⟨by omega, hs, hs', hn, hsc, C.Xtop, fun j hj hj' => C.Zne j (by omega) (by omega), hFp⟩
    exact this.mono (by omega)
  dsimp only
  generalize (bwdThreeLoop j2 j3 m1 m2 m3 jmax scale jplus jmid Fp).run = Fp' at b1 b2 b3 ⊢
  rw [if_neg (by omega)]
  split
  · -- the downward sweep covered everything
    rename_i hjm
    have hg : ∀ j, jmin ≤ j → j ≤ jmax → geti (copyRange f Fp' jmin jmax) j = geti Fp' j := by
      intro j hj hj'
      rw [geti_copyRange f Fp' jmin jmax h0 (by rw [hf]; exact_mod_cast hn) j (by omega),
        if_pos ⟨hj, hj'⟩]
    refine ⟨_, by rw [size_copyRange, hf], rfl, (fun j hj ho => by
      rw [geti_copyRange f _ jmin jmax h0 (by rw [hf]; exact_mod_cast hn) j hj, if_neg (by omega)]),
      jmin, le_refl _, hlt.le, fun j hj hj' hne => ?_,
      s, by omega, hs', by rw [hg s (by omega) hs']; exact b2⟩
    refine Rec_of_scaled 1 ?_ (by rw [hg j hj hj', one_mul]) (Or.inr ?_) (b3 j (by omega) hj')
    · by_cases hjj : j = jmax
      · left; rw [hjj]; exact C.Xtop
      · right; rw [hg (j + 1) (by omega) (by omega), one_mul]
    · rw [hg (j - 1) (by omega) (by omega), one_mul]
  · rename_i hjm
    obtain ⟨g1, g2, g3⟩ := (id_triple _ _ _).1
      (scaleCopyLoop_triple jmin jmid (geti Fp' jmid) (geti Fm jmid) Fm f)
      ⟨h0, by rw [hf]; omega⟩
    generalize (scaleCopyLoop jmin jmid (geti Fp' jmid) (geti Fm jmid) Fm f).run = g at g1 g2 g3 ⊢
    simp only [RealScalar.mul_def, RealScalar.div_def] at g2
    have hhi : ∀ j, jmid < j → j ≤ jmax → geti (copyRange g Fp' (jmid + 1) jmax) j = geti Fp' j := by
      intro j hj hj'
      rw [geti_copyRange g Fp' (jmid + 1) jmax (by omega) (by rw [g1, hf]; exact_mod_cast hn) j (by omega),
        if_pos ⟨by omega, hj'⟩]
    have hlo : ∀ j, jmin ≤ j → j ≤ jmid → geti (copyRange g Fp' (jmid + 1) jmax) j
        = (geti Fp' jmid / geti Fm jmid) * geti Fm j := by
      intro j hj hj'
      rw [geti_copyRange g Fp' (jmid + 1) jmax (by omega) (by rw [g1, hf]; exact_mod_cast hn) j (by omega),
        if_neg (by omega), g2 j hj hj']
      ring
    have hmidc : geti (copyRange g Fp' (jmid + 1) jmax) jmid = geti Fp' jmid := by
      rw [hlo jmid h1 (le_refl _)]; field_simp
    have hall : ∀ j, jmid ≤ j → j ≤ jmax → geti (copyRange g Fp' (jmid + 1) jmax) j = geti Fp' j := by
      intro j hj hj'
      by_cases hjj : j = jmid
      · rw [hjj]; exact hmidc
      · exact hhi j (by omega) hj'
    refine ⟨_, by rw [size_copyRange, g1, hf], rfl, (fun j hj ho => by
      rw [geti_copyRange g Fp' (jmid + 1) jmax (by omega) (by rw [g1, hf]; exact_mod_cast hn) j hj,
        if_neg (by omega)]
      exact g3 j hj (by omega)),
      jmid, h1, by omega, fun j hj hj' hne => ?_,
      s, by omega, hs', by rw [hall s (by omega) hs']; exact b2⟩
    by_cases hlow : j < jmid
    · refine Rec_of_scaled (geti Fp' jmid / geti Fm jmid) (Or.inr (hlo (j + 1) (by omega) (by omega)))
        (hlo j hj (by omega)) ?_ (hFm j hj hlow)
      by_cases hjj : j = jmin
      · left; rw [hjj]; exact C.Z0
      · right; exact hlo (j - 1) (by omega) (by omega)
    · refine Rec_of_scaled 1 ?_ (by rw [hall j (by omega) hj', one_mul]) (Or.inr ?_)
        (b3 j (by omega) hj')
      · by_cases hjj : j = jmax
        · left; rw [hjj]; exact C.Xtop
        · right; rw [hall (j + 1) (by omega) (by omega), one_mul]
      · rw [hall (j - 1) (by omega) (by omega), one_mul]

/-- a solution of the recurrence with a non-zero first cell has no two consecutive zeros -/
theorem no_two_zeros {jmin jmax : Int} (C : Coef j2 j3 m1 m2 m3 jmin jmax) {n : Nat} {Fm : Array ℝ}
    {hi k : Int} (h : FwdInv j2 j3 m1 m2 m3 jmin n Fm hi) (hk : jmin < k) (hk' : k ≤ hi)
    (hk'' : k ≤ jmax + 1) (hz1 : geti Fm k = 0) (hz2 : geti Fm (k - 1) = 0) : False := by
  obtain ⟨_, hne, _, hrec⟩ := h
  have key : ∀ i : Nat, jmin ≤ k - 1 - i → geti Fm (k - 1 - i) = 0 ∧ geti Fm (k - i) = 0 := by
    intro i
    induction i with
    | zero => intro _; simp only [Nat.cast_zero, sub_zero]; exact ⟨hz2, hz1⟩
    | succ i ih =>
      intro hlo
      obtain ⟨a1, a2⟩ := ih (by omega)
      have hr := hrec (k - 1 - i) (by omega) (by omega)
      unfold Rec at hr
      rw [show k - 1 - (i : Int) + 1 = k - i by ring, a1, a2, mul_zero, mul_zero, zero_add, zero_add] at hr
      have hZ := C.Zne (k - 1 - i) (by omega) (by omega)
      have h3 : geti Fm (k - 1 - i - 1) = 0 := by
        rcases mul_eq_zero.1 hr with h | h
        · exact absurd h hZ
        · exact h
      refine ⟨?_, ?_⟩
      · rw [show k - 1 - ((i + 1 : Nat) : Int) = k - 1 - i - 1 by push_cast; ring]; exact h3
      · rw [show k - ((i + 1 : Nat) : Int) = k - 1 - i by push_cast; ring]; exact a1
  have := (key (k - 1 - jmin).toNat (by omega)).1
  rw [show k - 1 - ((k - 1 - jmin).toNat : Int) = jmin by omega] at this
  exact hne this

theorem geti_neg (a : Array ℝ) (i : Int) (h : i < 0) : geti a i = geti a 0 := by
  unfold geti
  rw [show i.toNat = (0 : Int).toNat by omega]

theorem threeTerm_ok {jmin jmax : Int} (C : Coef j2 j3 m1 m2 m3 jmin jmax) {n : Nat} {scale : ℝ}
    {f Fm Fp : Array ℝ} {undefMin : Bool} {jminus jplus s : Int} (hsc : scale ≠ 0) (hf : f.size = n)
    (hn : jmax < n) (H1 : undefMin = true → jminus = jmin)
    (H2 : undefMin = false → jmin + 1 ≤ jminus ∧ jminus ≤ jmax - 1 ∧
      FwdInv j2 j3 m1 m2 m3 jmin n Fm jminus)
    (h3 : jmin ≤ jplus) (h3' : jplus ≤ jmax - 1) (hs : jplus ≤ s) (hs' : s ≤ jmax)
    (hFp : BwdInv j2 j3 m1 m2 m3 jmax n s Fp jplus) (hreg : jminus ≤ jplus + 1) :
    GoodOut (j2 := j2) (j3 := j3) (m1 := m1) (m2 := m2) (m3 := m3) jmin jmax n f
      (Lemmas.W3jBounds.threeTerm j2 j3 m1 m2 m3 jmin jmax scale f Fm Fp undefMin false jminus jplus) := by
  have h0 := C.h0
  have hlt := C.hlt
  rw [threeTerm_eq]
  cases undefMin with
  | true =>
    simp only [Bool.and_false, Bool.false_eq_true, ↓reduceIte, Bool.not_true, Bool.false_and]
    obtain ⟨b1, b2, b3⟩ : BwdInv j2 j3 m1 m2 m3 jmax n s
        (bwdThreeLoop j2 j3 m1 m2 m3 jmax scale jplus jmin Fp).run jmin := by
      have := (id_triple _ _ _).1 (bwdThreeLoop_triple j2 j3 m1 m2 m3 jmax n scale jplus jmin s Fp)
        ⟨h0, hs, hs', hn, hsc, C.Xtop, fun j hj hj' => C.Zne j (by omega) (by omega), hFp⟩
      exact this.mono (by omega)
    generalize (bwdThreeLoop j2 j3 m1 m2 m3 jmax scale jplus jmin Fp).run = Fp' at b1 b2 b3 ⊢
    have hg : ∀ j, jmin ≤ j → j ≤ jmax → geti (copyRange f Fp' jmin jmax) j = geti Fp' j := by
      intro j hj hj'
      rw [geti_copyRange f Fp' jmin jmax h0 (by rw [hf]; exact_mod_cast hn) j (by omega),
        if_pos ⟨hj, hj'⟩]
    refine ⟨_, by rw [size_copyRange, hf], rfl, (fun j hj ho => by
      rw [geti_copyRange f _ jmin jmax h0 (by rw [hf]; exact_mod_cast hn) j hj, if_neg (by omega)]),
      jmin, le_refl _, hlt.le, fun j hj hj' hne => ?_,
      s, by omega, hs', by rw [hg s (by omega) hs']; exact b2⟩
    refine Rec_of_scaled 1 ?_ (by rw [hg j hj hj', one_mul]) (Or.inr ?_) (b3 j (by omega) hj')
    · by_cases hjj : j = jmax
      · left; rw [hjj]; exact C.Xtop
      · right; rw [hg (j + 1) (by omega) (by omega), one_mul]
    · rw [hg (j - 1) (by omega) (by omega), one_mul]
  | false =>
    obtain ⟨m1', m2', hFm⟩ := H2 rfl
    simp only [Bool.false_eq_true, ↓reduceIte, Bool.not_false, Bool.and_self]
    obtain ⟨t1, t2, t3⟩ := (id_triple _ _ _).1
      (fwdThreeLoop_triple j2 j3 m1 m2 m3 jmin n scale jminus ((jminus + jplus) / 2) Fm)
      ⟨h0, m1', by omega, hsc, C.Z0, fun j hj hj' => C.Xne j (by omega) (by omega) (by omega), hFm⟩
    generalize (fwdThreeLoop j2 j3 m1 m2 m3 jmin scale jminus ((jminus + jplus) / 2) Fm).run = r
      at t1 t2 t3 ⊢
    have hr2 : jmin ≤ r.2 := by omega
    -- the matching point and the value there
    have key : ∀ jmid : Int, (jmid = r.2 ∨ jmid = r.2 - 1) → jmin ≤ jmid → geti r.1 jmid ≠ 0 →
        GoodOut (j2 := j2) (j3 := j3) (m1 := m1) (m2 := m2) (m3 := m3) jmin jmax n f
          (Lemmas.W3jBounds.meet j2 j3 m1 m2 m3 jmin jmax scale f r.1 Fp jplus jmid (geti r.1 jmid)) := by
      intro jmid hj hlo hne
      exact meet_ok C hsc hf hn (fun j h1 h2 => t3.2.2.2 j h1 (by omega)) hne hlo (by omega) h3' hs hs' hFp
    simp only [isZero, RealScalar.beq_def, RealScalar.zero_def, RealScalar.lt_def, RealScalar.abs_def,
      RealScalar.div_def, RealScalar.ofInt_def, Bool.and_eq_true, Bool.not_eq_true',
      decide_eq_false_iff_not, decide_eq_true_eq]
    split
    · rename_i hdec
      -- `j_mid -= 1`
      refine key (r.2 - 1) (Or.inr rfl) ?_ hdec.1
      by_contra hcon
      have hr : r.2 = jmin := by omega
      rw [hr] at hdec
      by_cases hj0 : jmin = 0
      · rw [hj0, geti_neg _ _ (by omega), div_self (by rw [← hj0]; exact t3.2.1)] at hdec
        norm_num at hdec
      · exact hdec.1 (t3.2.2.1 (jmin - 1) (by omega) (by omega))
    · rename_i hdec
      refine key r.2 (Or.inl rfl) hr2 ?_
      intro hz
      rcases t2 with t2 | t2
      · by_cases hr : r.2 = jmin
        · rw [hr] at hz; exact t3.2.1 hz
        · apply hdec
          have hprev : geti r.1 (r.2 - 1) ≠ 0 := fun hz2 =>
            no_two_zeros C t3 (by omega) (by omega) (by omega) hz hz2
          refine ⟨hprev, ?_⟩
          rw [hz, zero_div, abs_zero]
          norm_num
      · exact t2.2 hz

theorem afterFwd_ok {jmin jmax : Int} (C : Coef j2 j3 m1 m2 m3 jmin jmax) {n : Nat} {scale : ℝ}
    {f Fp : Array ℝ} {fw : Fwd ℝ} (hsc : scale ≠ 0) (hf : f.size = n) (hFp : Fp.size = n)
    (hn : jmax < n)
    (hfw : FwdOK (j2 := j2) (j3 := j3) (m1 := m1) (m2 := m2) (m3 := m3) jmin jmax n fw)
    (hreg : fw.jminus = jmax ∨
      fw.jminus ≤ (revPhase j2 j3 m1 m2 m3 jmin jmax fw.sf Fp fw.jminus).jplus + 1) :
    GoodOut (j2 := j2) (j3 := j3) (m1 := m1) (m2 := m2) (m3 := m3) jmin jmax n f
      (Lemmas.W3jBounds.afterFwd j2 j3 m1 m2 m3 jmin jmax scale f fw.sf fw.Fm Fp fw.undefMin fw.jminus) := by
  have h0 := C.h0
  have hlt := C.hlt
  obtain ⟨hsf, H1, H2⟩ := hfw
  rw [afterFwd_eq]
  split
  · rename_i hjm
    have hu : fw.undefMin = false := by
      cases h : fw.undefMin with
      | false => rfl
      | true => have := H1 h; omega
    obtain ⟨_, _, hsz, hne, _, hrec⟩ := H2 hu
    have hg : ∀ j, jmin ≤ j → j ≤ jmax → geti (copyRange f fw.Fm jmin jmax) j = geti fw.Fm j := by
      intro j hj hj'
      rw [geti_copyRange f fw.Fm jmin jmax h0 (by rw [hf]; exact_mod_cast hn) j (by omega),
        if_pos ⟨hj, hj'⟩]
    refine ⟨_, by rw [size_copyRange, hf], rfl, (fun j hj ho => by
      rw [geti_copyRange f _ jmin jmax h0 (by rw [hf]; exact_mod_cast hn) j hj, if_neg (by omega)]),
      jmax, hlt.le, le_refl _, fun j hj hj' hne' => ?_,
      jmin, le_refl _, hlt.le, by rw [hg jmin (le_refl _) hlt.le]; exact hne⟩
    refine Rec_of_scaled 1 (Or.inr ?_) (by rw [hg j hj hj', one_mul]) ?_ (hrec j hj (by omega))
    · rw [hg (j + 1) (by omega) (by omega), one_mul]
    · by_cases hjj : j = jmin
      · left; rw [hjj]; exact C.Z0
      · right; rw [hg (j - 1) (by omega) (by omega), one_mul]
  · rename_i hjm
    have hjm1 : jmin ≤ fw.jminus ∧ fw.jminus ≤ jmax - 1 := by
      cases h : fw.undefMin with
      | false => have := H2 h; omega
      | true => have := H1 h; omega
    obtain ⟨r1, r2, r3, s, r4, r5, r6⟩ := revPhase_ok C hsf hFp hn fw.jminus hjm1.1 hjm1.2
    have hreg' := hreg.resolve_left hjm
    dsimp only
    rw [r1]
    refine threeTerm_ok C hsc hf hn H1 (fun h => ?_) r2 r3 r4 r5 (r6.mono (by omega)) hreg'
    have := H2 h
    exact ⟨this.1, by omega, this.2.2⟩

theorem geti_zero_view (ws : Array ℝ) (a b : Nat) (j : Int) :
    geti ((ws.map (fun _ => (zero : ℝ))).extract a b) j = 0 := by
  unfold geti
  rw [Array.getD_eq_getD_getElem?]
  simp only [Array.getElem?_extract, Array.getElem?_map]
  split
  · cases h : ws[a + j.toNat]? <;> simp [zero]
  · simp [zero]

theorem size_zero_view (ws : Array ℝ) (size k : Nat) (h : 4 * size ≤ ws.size) (hk : k < 4) :
    ((ws.map (fun _ => (zero : ℝ))).extract (k * size) ((k + 1) * size)).size = size := by
  simp only [Array.size_extract, Array.size_map]
  have : (k + 1) * size ≤ ws.size := by nlinarith
  rw [Nat.min_eq_left this]
  rw [Nat.add_mul, Nat.one_mul]; omega

theorem YfI_m_zero (j j2 j3 : Int) : YfI j j2 j3 0 0 = 0 := by
  have w0 : Gen.wrap64 0 = 0 := by decide
  simp [YfI, Gen.B_ret, Gen.B_w, w0]

theorem coef_of_adm (j2 j3 m2 m3 : Int) (ha : Adm j2 j3 m2 m3) (hlt : jminOf j2 j3 m2 m3 < j2 + j3) :
    Coef j2 j3 (-(m2 + m3)) m2 m3 (jminOf j2 j3 m2 m3) (j2 + j3) := by
  have h0 := jminOf_nonneg j2 j3 m2 m3
  refine ⟨h0, hlt, ?_, ?_, fun j h1 h2 => Zf_ne j j2 j3 m2 m3 ha h1 h2, fun j h1 h2 h3 => ?_,
    fun hj => ?_, fun h1 h2 h3 j => ?_⟩
  · rw [Zf_real, A_jmin j2 j3 m2 m3 ha hlt.le, mul_zero]
  · rw [Xf_real, A_top j2 j3 m2 m3 ha, mul_zero]
  · rw [Xf_real]
    have hj : (0 : ℝ) < ((j : ℤ) : ℝ) := by exact_mod_cast (by omega : (0 : ℤ) < j)
    exact (mul_pos hj (A_pos (j + 1) j2 j3 m2 m3 ha (by omega) (by omega))).ne'
  · have hs : m2 + m3 = 0 := by unfold jminOf Lemmas.W3jBounds.jminOf at hj; omega
    rw [hj]
    simp [Yf, Lemmas.W3jBounds.YfI_zero j2 j3 m2 m3 hs]
  · subst h2 h3
    simp [Yf, YfI_m_zero]

/-- state after the forward phase of the run `calculate size ws j2 j3 m2 m3` -/
def fwdOf (size : Nat) (ws : Array ℝ) (j2 j3 m2 m3 : Int) : Fwd ℝ :=
  let w0 : Array ℝ := ws.map (fun _ => zero)
  fwdPhase j2 j3 (-(m2 + m3)) m2 m3 (jminOf j2 j3 m2 m3) (j2 + j3)
    (w0.extract size (2*size)) (w0.extract (2*size) (3*size))

/-- state after the reverse phase -/
def revOf (size : Nat) (ws : Array ℝ) (j2 j3 m2 m3 : Int) : Rev ℝ :=
  let w0 : Array ℝ := ws.map (fun _ => zero)
  revPhase j2 j3 (-(m2 + m3)) m2 m3 (jminOf j2 j3 m2 m3) (j2 + j3)
    (fwdOf size ws j2 j3 m2 m3).sf (w0.extract (3*size) (4*size)) (fwdOf size ws j2 j3 m2 m3).jminus

/-- The two non-classical regions do not overlap by more than one cell: either the forward ratio
    iteration reached `j_max` (early exit), or `j_minus ≤ j_plus + 1` when the classical region is
    entered.  (Otherwise `F_plus` is filled from stale `sf = rf` entries.) -/
def Regular (size : Nat) (ws : Array ℝ) (j2 j3 m2 m3 : Int) : Prop :=
  (fwdOf size ws j2 j3 m2 m3).jminus = j2 + j3 ∨
  (fwdOf size ws j2 j3 m2 m3).jminus ≤ (revOf size ws j2 j3 m2 m3).jplus + 1

theorem calculate_good (size : Nat) (ws : Array ℝ) (j2 j3 m2 m3 : Int) (ha : Adm j2 j3 m2 m3)
    (hlt : jminOf j2 j3 m2 m3 < j2 + j3) (hs : j2 + j3 + 1 ≤ size) (hws : 4 * size ≤ ws.size)
    (hreg : Regular size ws j2 j3 m2 m3) :
    GoodOut (j2 := j2) (j3 := j3) (m1 := -(m2 + m3)) (m2 := m2) (m3 := m3) (jminOf j2 j3 m2 m3)
      (j2 + j3) size ((ws.map (fun _ => (zero : ℝ))).extract 0 size) (calculate size ws j2 j3 m2 m3) := by
  have C := coef_of_adm j2 j3 m2 m3 ha hlt
  rw [Lemmas.W3jBounds.calculate_phased, calculateP_eq size ws j2 j3 m2 m3 ha.hm2 ha.hm3 hlt]
  have e1 := size_zero_view ws size 1 hws (by omega)
  have e2 := size_zero_view ws size 2 hws (by omega)
  have e3 := size_zero_view ws size 3 hws (by omega)
  have e0 := size_zero_view ws size 0 hws (by omega)
  simp only [Nat.zero_mul, Nat.zero_add, Nat.one_mul, Nat.reduceAdd] at e0 e1 e2 e3
  have hfw := fwdPhase_ok C e1 e2 (geti_zero_view ws _ _) (by omega : j2 + j3 < (size : Int))
  exact afterFwd_ok C (by simp) e0 e3 (by omega) hfw hreg

/-- every admissible regular run with more than one cell: pre-normalisation array, not identically
    zero, satisfying the recurrence off one matching point -/
theorem prenorm_good (size : Nat) (ws : Array ℝ) (j2 j3 m2 m3 : Int) (ha : Adm j2 j3 m2 m3)
    (hlt : jminOf j2 j3 m2 m3 < j2 + j3) (hs : j2 + j3 + 1 ≤ size) (hws : 4 * size ≤ ws.size)
    (hreg : Regular size ws j2 j3 m2 m3) :
    ∃ f, PreNorm size ws j2 j3 m2 m3 f ∧ wsum f (jminOf j2 j3 m2 m3) (j2 + j3) ≠ 0 ∧
      Good (j2 := j2) (j3 := j3) (m1 := -(m2 + m3)) (m2 := m2) (m3 := m3) (jminOf j2 j3 m2 m3)
        (j2 + j3) f := by
  obtain ⟨f, hsz, hcalc, _, hgood⟩ := calculate_good size ws j2 j3 m2 m3 ha hlt hs hws hreg
  refine ⟨f, ⟨hsz, hcalc⟩, ?_, hgood⟩
  obtain ⟨_, _, _, _, s, s1, s2, s3⟩ := hgood
  exact (wsum_pos f _ _ (jminOf_nonneg _ _ _ _) s ⟨s1, s2⟩ s3).ne'

theorem normalized_regular (size : Nat) (ws : Array ℝ) (j2 j3 m2 m3 : Int) (ha : Adm j2 j3 m2 m3)
    (hlt : jminOf j2 j3 m2 m3 < j2 + j3) (hs : j2 + j3 + 1 ≤ size) (hws : 4 * size ≤ ws.size)
    (hreg : Regular size ws j2 j3 m2 m3) :
    ∑ j ∈ Finset.Icc (jminOf j2 j3 m2 m3) (j2 + j3),
      (2 * (j : ℝ) + 1) * geti (calculate size ws j2 j3 m2 m3).f j ^ 2 = 1 := by
  obtain ⟨f, hpre, hne, _⟩ := prenorm_good size ws j2 j3 m2 m3 ha hlt hs hws hreg
  exact normalized size ws j2 j3 m2 m3 hlt hs f hpre (by rw [← wsum_Icc]; exact hne)

/-- the returned array satisfies the three-term recurrence at every cell of `[j_min, j_max]` except
    one matching point -/
theorem recurrence_out (size : Nat) (ws : Array ℝ) (j2 j3 m2 m3 : Int) (ha : Adm j2 j3 m2 m3)
    (hlt : jminOf j2 j3 m2 m3 < j2 + j3) (hs : j2 + j3 + 1 ≤ size) (hws : 4 * size ≤ ws.size)
    (hreg : Regular size ws j2 j3 m2 m3) :
    ∃ jm, jminOf j2 j3 m2 m3 ≤ jm ∧ jm ≤ j2 + j3 ∧
      ∀ j, jminOf j2 j3 m2 m3 ≤ j → j ≤ j2 + j3 → j ≠ jm →
        Rec j2 j3 (-(m2 + m3)) m2 m3 (calculate size ws j2 j3 m2 m3).f j := by
  have C := coef_of_adm j2 j3 m2 m3 ha hlt
  obtain ⟨f, ⟨hsz, hcalc⟩, hne, jm, h1, h2, hrec, _⟩ := prenorm_good size ws j2 j3 m2 m3 ha hlt hs hws hreg
  obtain ⟨_, _, _, ⟨c, _, hc⟩, _⟩ := finish_spec j2 j3 m2 m3 _ _ f (jminOf_nonneg _ _ _ _) hlt.le
    (by rw [hsz]; omega)
  rw [hcalc]
  refine ⟨jm, h1, h2, fun j hj hj' hne' => ?_⟩
  refine Rec_of_scaled c ?_ (hc j hj hj') ?_ (hrec j hj hj' hne')
  · by_cases hjj : j = j2 + j3
    · left; rw [hjj]; exact C.Xtop
    · right; exact hc (j + 1) (by omega) (by omega)
  · by_cases hjj : j = jminOf j2 j3 m2 m3
    · left; rw [hjj]; exact C.Z0
    · right; exact hc (j - 1) (by omega) (by omega)

/-! #### sufficient conditions for `Regular` -/

theorem fwdOf_ok (size : Nat) (ws : Array ℝ) (j2 j3 m2 m3 : Int) (ha : Adm j2 j3 m2 m3)
    (hlt : jminOf j2 j3 m2 m3 < j2 + j3) (hs : j2 + j3 + 1 ≤ size) (hws : 4 * size ≤ ws.size) :
    FwdOK (j2 := j2) (j3 := j3) (m1 := -(m2 + m3)) (m2 := m2) (m3 := m3) (jminOf j2 j3 m2 m3) (j2 + j3)
      size (fwdOf size ws j2 j3 m2 m3) := by
  have C := coef_of_adm j2 j3 m2 m3 ha hlt
  have e1 := size_zero_view ws size 1 hws (by omega)
  have e2 := size_zero_view ws size 2 hws (by omega)
  simp only [Nat.one_mul, Nat.reduceAdd] at e1 e2
  exact fwdPhase_ok C e1 e2 (geti_zero_view ws _ _) (by omega : j2 + j3 < (size : Int))

/-- bounds on `j_minus`, `j_plus` -/
theorem fwd_rev_bounds (size : Nat) (ws : Array ℝ) (j2 j3 m2 m3 : Int) (ha : Adm j2 j3 m2 m3)
    (hlt : jminOf j2 j3 m2 m3 < j2 + j3) (hs : j2 + j3 + 1 ≤ size) (hws : 4 * size ≤ ws.size) :
    jminOf j2 j3 m2 m3 ≤ (fwdOf size ws j2 j3 m2 m3).jminus ∧
    (fwdOf size ws j2 j3 m2 m3).jminus ≤ j2 + j3 ∧
    ((fwdOf size ws j2 j3 m2 m3).jminus ≠ j2 + j3 →
      jminOf j2 j3 m2 m3 ≤ (revOf size ws j2 j3 m2 m3).jplus ∧
      (revOf size ws j2 j3 m2 m3).jplus ≤ j2 + j3 - 1) := by
  have C := coef_of_adm j2 j3 m2 m3 ha hlt
  obtain ⟨hsf, H1, H2⟩ := fwdOf_ok size ws j2 j3 m2 m3 ha hlt hs hws
  have hb : jminOf j2 j3 m2 m3 ≤ (fwdOf size ws j2 j3 m2 m3).jminus ∧
      (fwdOf size ws j2 j3 m2 m3).jminus ≤ j2 + j3 := by
    cases h : (fwdOf size ws j2 j3 m2 m3).undefMin with
    | false => have := H2 h; omega
    | true => have := H1 h; omega
  refine ⟨hb.1, hb.2, fun hne => ?_⟩
  have e3 := size_zero_view ws size 3 hws (by omega)
  simp only [Nat.reduceAdd] at e3
  obtain ⟨_, r2, r3, _⟩ := revPhase_ok C hsf e3 (by omega : j2 + j3 < (size : Int))
    (fwdOf size ws j2 j3 m2 m3).jminus hb.1 (by omega)
  exact ⟨r2, r3⟩

/-- at most three cells -/
theorem regular_of_small (size : Nat) (ws : Array ℝ) (j2 j3 m2 m3 : Int) (ha : Adm j2 j3 m2 m3)
    (hlt : jminOf j2 j3 m2 m3 < j2 + j3) (hs : j2 + j3 + 1 ≤ size) (hws : 4 * size ≤ ws.size)
    (hsmall : j2 + j3 ≤ jminOf j2 j3 m2 m3 + 2) : Regular size ws j2 j3 m2 m3 := by
  obtain ⟨b1, b2, b3⟩ := fwd_rev_bounds size ws j2 j3 m2 m3 ha hlt hs hws
  by_cases h : (fwdOf size ws j2 j3 m2 m3).jminus = j2 + j3
  · exact Or.inl h
  · have := b3 h
    exact Or.inr (by omega)

theorem revPhase_jplus_of_nonneg (jmin jmax jminus : Int) (sf Fp : Array ℝ)
    (hY : 0 ≤ (Yf jmax j2 j3 m2 m3 : ℝ)) (hZ : 0 < (Zf jmax j2 j3 m1 : ℝ)) :
    (revPhase j2 j3 m1 m2 m3 jmin jmax sf Fp jminus).jplus = jmax - 1 := by
  unfold revPhase
  simp only [isZero, ge0, RealScalar.beq_def, RealScalar.le_def, RealScalar.zero_def,
    RealScalar.mul_def, decide_eq_true_eq]
  split
  · rfl
  · split
    · split
      · rename_i h; exact absurd h hZ.ne'
      · rfl
    · split
      · rfl
      · rename_i h; exact absurd (mul_nonneg hY hZ.le) h

theorem fwdPhase_jminus_of_nonneg (jmin jmax : Int) (sf Fm : Array ℝ)
    (hY : 0 ≤ (Yf jmin j2 j3 m2 m3 : ℝ)) (hX : 0 ≤ (Xf jmin j2 j3 m1 : ℝ)) :
    (fwdPhase j2 j3 m1 m2 m3 jmin jmax sf Fm).jminus ≤ jmin + 1 := by
  unfold fwdPhase
  simp only [isZero, ge0, RealScalar.beq_def, RealScalar.le_def, RealScalar.zero_def,
    RealScalar.mul_def, decide_eq_true_eq]
  split
  · exact le_refl _
  · split
    · split
      · show jmin ≤ jmin + 1; omega
      · exact le_refl _
    · split
      · exact le_refl _
      · rename_i h; exact absurd (mul_nonneg hX hY) h

theorem Yf_eq_B (j j2 j3 m2 m3 : Int) (ha : Adm j2 j3 m2 m3) (hj : 0 ≤ j ∧ j ≤ j2 + j3) :
    (Yf j j2 j3 m2 m3 : ℝ) = ((Gen.B j j2 j3 m2 m3 : ℤ) : ℝ) := by
  obtain ⟨h2, h3, hs⟩ := ha
  unfold Yf YfI
  rw [Lemmas.W3j.B_ret_eq j j2 j3 m2 m3 (by omega) (by omega) (by omega) (by omega) (by omega)]
  rfl

/-- `B(j_max) ≥ 0`: the reverse phase starts in the classical region -/
theorem regular_of_Bmax_nonneg (size : Nat) (ws : Array ℝ) (j2 j3 m2 m3 : Int) (ha : Adm j2 j3 m2 m3)
    (hlt : jminOf j2 j3 m2 m3 < j2 + j3) (hs : j2 + j3 + 1 ≤ size) (hws : 4 * size ≤ ws.size)
    (hB : 0 ≤ Gen.B (j2 + j3) j2 j3 m2 m3) : Regular size ws j2 j3 m2 m3 := by
  have h0 := jminOf_nonneg j2 j3 m2 m3
  obtain ⟨b1, b2, _⟩ := fwd_rev_bounds size ws j2 j3 m2 m3 ha hlt hs hws
  right
  have hY : 0 ≤ (Yf (j2 + j3) j2 j3 m2 m3 : ℝ) := by
    rw [Yf_eq_B _ j2 j3 m2 m3 ha ⟨by omega, le_refl _⟩]; exact_mod_cast hB
  have hZ : 0 < (Zf (j2 + j3) j2 j3 (-(m2 + m3)) : ℝ) := by
    rw [Zf_real]
    have : (0 : ℝ) < ((j2 + j3 + 1 : ℤ) : ℝ) := by exact_mod_cast (by omega : (0 : ℤ) < j2 + j3 + 1)
    exact mul_pos this (A_pos _ j2 j3 m2 m3 ha hlt (le_refl _))
  unfold revOf
  rw [revPhase_jplus_of_nonneg _ _ _ _ _ hY hZ]
  omega

/-- `B(j_min) ≥ 0`: the forward phase starts in the classical region -/
theorem regular_of_Bmin_nonneg (size : Nat) (ws : Array ℝ) (j2 j3 m2 m3 : Int) (ha : Adm j2 j3 m2 m3)
    (hlt : jminOf j2 j3 m2 m3 < j2 + j3) (hs : j2 + j3 + 1 ≤ size) (hws : 4 * size ≤ ws.size)
    (hB : 0 ≤ Gen.B (jminOf j2 j3 m2 m3) j2 j3 m2 m3) : Regular size ws j2 j3 m2 m3 := by
  have h0 := jminOf_nonneg j2 j3 m2 m3
  obtain ⟨b1, b2, b3⟩ := fwd_rev_bounds size ws j2 j3 m2 m3 ha hlt hs hws
  have hY : 0 ≤ (Yf (jminOf j2 j3 m2 m3) j2 j3 m2 m3 : ℝ) := by
    rw [Yf_eq_B _ j2 j3 m2 m3 ha ⟨h0, hlt.le⟩]; exact_mod_cast hB
  have hX : 0 ≤ (Xf (jminOf j2 j3 m2 m3) j2 j3 (-(m2 + m3)) : ℝ) := by
    rw [Xf_real, A_real]
    have : (0 : ℝ) ≤ ((jminOf j2 j3 m2 m3 : ℤ) : ℝ) := by exact_mod_cast h0
    exact mul_nonneg this (Real.sqrt_nonneg _)
  have hle : (fwdOf size ws j2 j3 m2 m3).jminus ≤ jminOf j2 j3 m2 m3 + 1 :=
    fwdPhase_jminus_of_nonneg _ _ _ _ hY hX
  by_cases h : (fwdOf size ws j2 j3 m2 m3).jminus = j2 + j3
  · exact Or.inl h
  · have := b3 h
    exact Or.inr (by omega)

/-- `m2 = m3 = 0` -/
theorem regular_of_m_zero (size : Nat) (ws : Array ℝ) (j2 j3 : Int) (ha : Adm j2 j3 0 0)
    (hlt : jminOf j2 j3 0 0 < j2 + j3) (hs : j2 + j3 + 1 ≤ size) (hws : 4 * size ≤ ws.size) :
    Regular size ws j2 j3 0 0 :=
  regular_of_Bmax_nonneg size ws j2 j3 0 0 ha hlt hs hws (by simp [Gen.B])
/-- the cells outside `[j_min, j_max]` of the returned array are `0` (regular multi-cell runs) -/
theorem zero_outside_regular (size : Nat) (ws : Array ℝ) (j2 j3 m2 m3 : Int) (ha : Adm j2 j3 m2 m3)
    (hlt : jminOf j2 j3 m2 m3 < j2 + j3) (hs : j2 + j3 + 1 ≤ size) (hws : 4 * size ≤ ws.size)
    (hreg : Regular size ws j2 j3 m2 m3) (j : Int) (hj : 0 ≤ j)
    (hout : j < jminOf j2 j3 m2 m3 ∨ j2 + j3 < j) :
    geti (calculate size ws j2 j3 m2 m3).f j = 0 := by
  obtain ⟨f, hsz, hcalc, hz, _⟩ := calculate_good size ws j2 j3 m2 m3 ha hlt hs hws hreg
  rw [hcalc, (finish_spec j2 j3 m2 m3 _ _ f (jminOf_nonneg _ _ _ _) hlt.le (by rw [hsz]; omega)).2.2.2.2
    j hj (by omega), hz j hj hout]
  exact geti_zero_view ws _ _ j

/-- no admissible call raises -/
theorem never_raises (size : Nat) (ws : Array ℝ) (j2 j3 m2 m3 : Int) (ha : Adm j2 j3 m2 m3)
    (hs : j2 + j3 + 1 ≤ size) (hws : size ≤ ws.size) :
    (calculate size ws j2 j3 m2 m3).raised = false := by
  rcases lt_trichotomy (j2 + j3) (jminOf j2 j3 m2 m3) with h | h | h
  · rw [Lemmas.W3j.calculate_out_of_range size ws j2 j3 m2 m3 (Or.inr (Or.inr h))]
  · exact (single_cell size ws j2 j3 m2 m3 ha h hs hws).1
  · obtain ⟨f, _, hcalc⟩ := prenorm_exists size ws j2 j3 m2 m3 ha h hws
    rw [hcalc]; rfl
end glue

end Lemmas.W3jNorm
