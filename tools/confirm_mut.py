#!/venv/bin/python
"""Confirm a candidate seeded change in its scratch worktree:  tools/confirm_mut.py Cxx [--full]
  1. /tmp/mutwork/Cxx/patch.diff applies to a clean checkout of /repo HEAD (in the worktree)
  2. demo.py exits 0 without the change and non-zero with it
  3. (--full) the existing test suite has the baseline outcome with the change applied
Writes /tmp/mutwork/Cxx/confirm.json."""
import json
import os
import re
import subprocess
import sys

pid = sys.argv[1]
full = "--full" in sys.argv
wt, work = f"{os.environ.get('MUT_ROOT', '/tmp/mut')}/{pid}", f"{os.environ.get('MUTWORK_ROOT', '/tmp/mutwork')}/{pid}"
env = dict(os.environ, NUMBA_CACHE_DIR=f"{work}/nbcache_confirm")
res = {"property": pid}


def sh(cmd, **kw):
    return subprocess.run(cmd, shell=True, capture_output=True, text=True, cwd=wt, env=env, **kw)


patch = f"{work}/patch.diff"
sh("git checkout -- . && git clean -fdq -e '*.nbi' -e '*.nbc'")
r = sh(f"git apply --check {patch}")
res["patch_applies"] = r.returncode == 0
if r.returncode != 0:
    res["error"] = r.stderr[-500:]
else:
    r0 = sh(f"/venv/bin/python {work}/demo.py", timeout=1800)
    res["demo_without_change_rc"] = r0.returncode
    sh(f"git apply {patch}")
    r1 = sh(f"/venv/bin/python {work}/demo.py", timeout=1800)
    res["demo_with_change_rc"] = r1.returncode
    res["demo_with_change_tail"] = (r1.stdout + r1.stderr)[-600:]
    res["imports"] = sh("/venv/bin/python -c 'import spherical'").returncode == 0
    if full:
        t = sh("/venv/bin/python -m pytest -q -p no:cacheprovider --timeout=900 --continue-on-collection-errors -x --deselect tests/test_modes.py::test_modes_squared_angular_momenta "
               "--deselect tests/test_modes.py::test_modes_derivative_commutators --deselect 'tests/test_wigner_rotate.py::test_wigner_rotate_composition[False]' "
               "--deselect tests/test_wigner_sYlm.py::test_sYlm_vs_scipy 2>&1 | tail -5", timeout=3000)
        res["pytest_tail"] = t.stdout[-600:]
        m = re.search(r"(\d+) passed", t.stdout)
        res["tests_passed"] = int(m.group(1)) if m else None
        res["tests_ok"] = bool(m) and not re.search(r"\b\d+ failed", t.stdout) and not re.search(r"\b\d+ error", t.stdout) and int(m.group(1)) >= 64
res["confirmed"] = bool(res.get("patch_applies") and res.get("demo_without_change_rc") == 0 and res.get("demo_with_change_rc", 0) != 0 and res.get("imports") and (res.get("tests_ok", True)))
json.dump(res, open(f"{work}/confirm.json", "w"), indent=1)
print(json.dumps(res, indent=1))
