import SphericalVerif.Lemmas.GenCPow
import SphericalVerif.Props.C14
/-! GenCPow — `complex_powers` **as the Python text states it** (kernel level).

    `Gen/CPowKern.lean` is regenerated on every run from `_complex_powers` (spherical/recursions/complex_powers.py): the
    quadrant `while` loop (with a fuel parameter), the Stoer–Bulirsch recurrence through the output row, the clock.
    * `gen_cpow_cell` (Lemmas/GenCPow): for every arithmetic (IEEE doubles bit for bit), every `M`, every previous content of
      the output array, the cell `zpowers[0, m]` left by the generated kernel is entry `m` of `Model.cpowers`;
    * `gen_cpow_exact`: hence over exact reals, for every unit `z`, every `M` and `m ≤ M`, the generated kernel stores `z^m`
      (`C14.cpow_exact`), and `gen_cpow_entry0`: entry 0 is literally `1 + 0i` for every arithmetic.
    Parameters: `np.sqrt(z).imag` (library complex square root) and the number of `while` turns allowed (`fuel = 4`; over the
    reals more fuel changes nothing, `C14.quadrant_fuel_irrelevant`, and three turns suffice, `C14.quadrant_loop_le3`). -/
namespace GenCPow
open Gen Model CPow

variable {φ : Type}

/-- over exact reals the generated kernel stores `z^m` -/
theorem gen_cpow_exact [FMem φ ℝ] [LawfulFMem φ ℝ] (z : Cx ℝ) (hz : z.re ^ 2 + z.im ^ 2 = 1) (M : Nat) (zp : Nat)
    (imsqrt : Cx ℝ → ℝ) (hs : ∀ w : Cx ℝ, w.re ^ 2 + w.im ^ 2 = 1 → 2 * (imsqrt w) ^ 2 = 1 - w.re) (st : φ) (m : Nat) (hm : m ≤ M) :
    toC (frdC (α := ℝ) (Gen.u_complex_powers (α := ℝ) (fun _ => z) (M : Int) zp 1 ((M : Int) + 1) imsqrt 4 st) zp (m : Int))
      = toC z ^ m := by
  rw [gen_cpow_cell z M zp imsqrt st m hm]
  obtain ⟨hsz, hall⟩ := C14.cpow_exact z hz M imsqrt hs
  obtain ⟨e, he, hv⟩ := hall m hm
  rw [getElem?_eq_cget _ _ (by omega)] at he
  rw [Option.some.inj he]; exact hv

/-- entry 0 is literally `1 + 0i`, for every arithmetic -/
theorem gen_cpow_entry0 {α : Type} [Scalar α] [FMem φ α] [LawfulFMem φ α] (z : Cx α) (M : Nat) (zp : Nat) (imsqrt : Cx α → α) (st : φ) :
    frdC (α := α) (Gen.u_complex_powers (α := α) (fun _ => z) (M : Int) zp 1 ((M : Int) + 1) imsqrt 4 st) zp ((0 : Nat) : Int)
      = ⟨Scalar.ofInt 1, Scalar.ofInt 0⟩ := by
  rw [gen_cpow_cell z M zp imsqrt st 0 (Nat.zero_le _)]
  have h := (C14.cpow_entry0 z M imsqrt)
  have := h.2
  rw [getElem?_eq_cget _ _ (by omega)] at this
  exact Option.some.inj this

/-- entry 1 is exactly `z` over exact reals for EVERY `z` (unit modulus not needed), every `M ≥ 1` and every `imsqrt`:
    the quadrant turns and the clock only permute and negate components (generated kernel; `C14.cpow_entry1`) -/
theorem gen_cpow_entry1 [FMem φ ℝ] [LawfulFMem φ ℝ] (z : Cx ℝ) (M : Nat) (hM : 1 ≤ M) (zp : Nat) (imsqrt : Cx ℝ → ℝ) (st : φ) :
    frdC (α := ℝ) (Gen.u_complex_powers (α := ℝ) (fun _ => z) (M : Int) zp 1 ((M : Int) + 1) imsqrt 4 st) zp ((1 : Nat) : Int) = z := by
  rw [gen_cpow_cell z M zp imsqrt st 1 hM]
  have h := C14.cpow_entry1 z M hM imsqrt
  rw [getElem?_eq_cget _ _ (by rw [(C14.cpow_entry0 z M imsqrt).1]; omega)] at h
  exact Option.some.inj h

/-- non-vacuity: IEEE doubles on the executable memory, `M = 5`, cell 3 -/
example (z : Cx Float) (imsqrt : Cx Float → Float) (st : HFMem Float) :
    frdC (α := Float) (Gen.u_complex_powers (α := Float) (fun _ => z) 5 3 1 6 imsqrt 4 st) 3 3 = cget (cpowers z 5 imsqrt) 3 :=
  gen_cpow_cell z 5 3 imsqrt st 3 (by decide)

end GenCPow
