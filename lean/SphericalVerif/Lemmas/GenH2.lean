import SphericalVerif.Lemmas.GenH
/-! `_step_2`: the generated kernel is the coordinate model run on the hybrid memory. -/
set_option linter.unusedTactic false
set_option linter.unreachableTactic false
set_option linter.unnecessarySeqFocus false
namespace GenH
open Gen Model FlatSteps Scalar
section
variable {α : Type} [Scalar α] {φ : Type} [FMem φ α] {L P : Nat}

/-- where `_step_2` keeps row `n` of the `m' = 0` column: the pair `(n0n_index, H)` of the Python text -/
def rowQ (L P n : Nat) : Int × Nat :=
  if (n : Int) ≤ (L : Int) then (WignerHindex (n : Int) 0 (n : Int) (some (P : Int)), idW) else ((n : Int), idX)

omit [Scalar α] in
theorem rd_row (F : φ) (J : Loc → α) (n m : Nat) (idx : Int) (hn1 : 1 ≤ n) (hnL : n ≤ L + 1) (hm : m ≤ n)
    (hidx : idx = (rowQ L P n).1 - ((n : Int) - (m : Int))) :
    rd (α := α) (⟨F, J⟩ : Hyb L P φ α) (rowLoc L n m) = frd (α := α) F (rowQ L P n).2 idx := by
  unfold rowLoc rowQ at *
  by_cases hc : n ≤ L
  · have hc' : (n : Int) ≤ (L : Int) := by omega
    rw [if_pos hc]; rw [if_pos hc'] at hidx ⊢
    exact rd_hw F J n 0 m idx hc (hwCell_of_row P n 0 n m _ (by omega) (by omega) (by unfold InWedge; omega)
      (by unfold InWedge; omega) (by rw [hidx]; simp only []; omega))
  · have hc' : ¬ ((n : Int) ≤ (L : Int)) := by omega
    rw [if_neg hc]; rw [if_neg hc'] at hidx ⊢
    exact rd_hx F J m idx (by omega) (by rw [hidx]; simp only []; omega)

omit [Scalar α] in
theorem wr_row (F : φ) (J : Loc → α) (n m : Nat) (idx : Int) (v : α) (hn1 : 1 ≤ n) (hnL : n ≤ L + 1) (hm : m ≤ n)
    (hidx : idx = (rowQ L P n).1 - ((n : Int) - (m : Int))) :
    wr (α := α) (⟨F, J⟩ : Hyb L P φ α) (rowLoc L n m) v = ⟨fwr (α := α) F (rowQ L P n).2 idx v, J⟩ := by
  unfold rowLoc rowQ at *
  by_cases hc : n ≤ L
  · have hc' : (n : Int) ≤ (L : Int) := by omega
    rw [if_pos hc]; rw [if_pos hc'] at hidx ⊢
    exact wr_hw F J n 0 m idx v hc (hwCell_of_row P n 0 n m _ (by omega) (by omega) (by unfold InWedge; omega)
      (by unfold InWedge; omega) (by rw [hidx]; simp only []; omega))
  · have hc' : ¬ ((n : Int) ≤ (L : Int)) := by omega
    rw [if_neg hc]; rw [if_neg hc'] at hidx ⊢
    exact wr_hx F J m idx v (by omega) (by rw [hidx]; simp only []; omega)

omit [Scalar α] in
theorem frd_fwr_ne [LawfulFMem φ α] (F : φ) (a a' : Nat) (i i' : Int) (v : α) (h : a' ≠ a) :
    frd (α := α) (fwr (α := α) F a i v) a' i' = frd (α := α) F a' i' := by
  show FMem.get (FMem.set F a i v) a' i' = _
  rw [LawfulFMem.get_set]; simp [h]; rfl

theorem sim_step2 [LawfulFMem φ α] (c s : α) (g h : Int → α)
    (hg : ∀ n k : Int, 0 ≤ n → n ≤ (L : Int) + 1 → -n ≤ k → k ≤ n → g (nm_index n k) = Gen.tab_g n k)
    (hh : ∀ n k : Int, 0 ≤ n → n ≤ (L : Int) + 1 → -n ≤ k → k ≤ n → h (nm_index n k) = Gen.tab_h n k)
    (F : φ) (J : Loc → α) :
    Model.step2 (α := α) L c s (⟨F, J⟩ : Hyb L P φ α) = ⟨Gen.u_step_2 (α := α) g h L P idW idX idV ⟨c, s⟩ F, J⟩ := by
  unfold Model.step2 Gen.u_step_2
  by_cases h0 : L = 0
  · have h1 : ¬ ((L : Int) > 0) := by omega
    simp only [if_pos h0, if_neg h1]
  · have h1 : ((L : Int) > 0) := by omega
    rw [if_neg h0]
    extract_lets sqrt3 invsqrt2 a1 a2 a3 cosβ sinβ n0n nn b1 b2 Hw Hx b3 pre0 p6 b4 pre1 nX pre2 b5 b6 b7 q7 b8
    have hP : (0 : Int) ≤ P := by omega
    have h1L : 1 ≤ L := by omega
    have ec : cosβ = c := rfl
    have es : sinβ = s := rfl
    clear_value cosβ sinβ
    subst ec es
    clear_value (eHw : Hw = _) (eHx : Hx = _)
    subst eHw eHx
    have r1 : a1 = ⟨b1, J⟩ := by
      simp only [a1, b1, sqrt3, n0n, Gen.sqrt3]
      exact wr_hw F J 1 0 1 _ _ h1L (hwc (s2_pre_H1_eq P hP) rfl rfl rfl)
    have tg : g (nm_index 1 1 - 1) = gC (1 : Int) 0 := tab_nm L hg s2_pre_g_eq (by omega) (by omega)
    have r2 : a2 = ⟨b2, J⟩ := by
      simp only [a2, b2, invsqrt2, nn, n0n, Gen.inverse_sqrt2, one]
      rw [r1, tg]
      exact wr_hw b1 J 1 0 0 _ _ h1L (hwc (s2_pre_H0_eq P hP) rfl rfl rfl)
    have hc : ((((L : Int) + 2)) - 2).toNat = L := by omega
    have r3 : a3 = ⟨b3, J⟩ := by
      show loopN L _ a2 = (⟨loopN _ _ b2, J⟩ : Hyb L P φ α)
      rw [r2, hc]
      apply loopN_hyb
      intro k F hk
      extract_lets n nI T const c1 c2 c3 cn c4 n' n0nW n0nX q2 n0n' H nm10 nn' const' gi d1 d2 d3 const'' gi' hi' d4 pf p4 d5 pf' d6 d7 q5 d8
      have en' : n' = ((k + 2 : Nat) : Int) := by simp only [n']; push_cast; omega
      clear_value n'
      subst en'
      clear_value (h1 : n = _) (h2 : nI = _) (h3 : T = _) (h4 : const = _) (h5 : cn = _) (h6 : n0nW = _) (h7 : n0nX = _)
        (h8 : q2 = _) (h9 : n0n' = _) (h10 : H = _) (h11 : nm10 = _) (h12 : nn' = _) (h13 : const' = _) (h14 : gi = _)
        (h15 : const'' = _) (h16 : gi' = _) (h17 : hi' = _) (h18 : pf = _)
      subst h1 h2 h3 h4 h5 h6 h7 h8 h9 h10 h11 h12 h13 h14 h15 h16 h17 h18
      clear_value (hc1 : c1 = _) (hc2 : c2 = _) (hc3 : c3 = _) (hc4 : c4 = _) (hd1 : d1 = _) (hd2 : d2 = _) (hd3 : d3 = _)
        (hd4 : d4 = _) (hp4 : p4 = _) (hd5 : d5 = _) (hpf : pf' = _) (hd6 : d6 = _) (hd7 : d7 = _) (hq5 : q5 = _) (hd8 : d8 = _)
      have hQ : (if ((k + 2 : Nat) : Int) ≤ (L : Int) then (WignerHindex ((k + 2 : Nat) : Int) 0 ((k + 2 : Nat) : Int) (some (P : Int)), idW)
          else (((k + 2 : Nat) : Int), idX)) = rowQ L P (k + 2) := rfl
      simp only [hQ, one] at hd1 hd2 hd3 hd4 hp4 hc4 ⊢
      have hn1 : 1 ≤ k + 2 := by omega
      have hnL : k + 2 ≤ L + 1 := by omega
      have hnI : (2 : Int) ≤ ((k + 2 : Nat) : Int) := by omega
      -- m = n
      have e1 : c1 = ⟨d1, J⟩ := by
        rw [hc1, hd1]
        rw [rd_hw F J (k + 2 - 1) 0 (k + 2 - 1) (WignerHindex (↑(k + 2) - 1) 0 (↑(k + 2) - 1) (some ↑P)) (by omega)
              (hwc (s2_prev_eq ↑(k + 2) P hP hnI) rfl (by push_cast; omega) (by push_cast; omega))]
        exact wr_row F J (k + 2) (k + 2) _ _ hn1 hnL (by omega) (by omega)
      -- m = n-1
      have tg1 : g (nm_index ↑(k + 2) ↑(k + 2) - 1) = gC ((k + 2 : Nat) : Int) (((k + 2 : Nat) : Int) - 1) :=
        tab_nm L hg (s2_g_eq ↑(k + 2) 1 (by omega) (by omega)) (by omega) (by omega)
      have e2 : c2 = ⟨d2, J⟩ := by
        rw [hc2, hd2, e1, tg1]
        rw [rd_row d1 J (k + 2) (k + 2) (rowQ L P (k + 2)).1 hn1 hnL (by omega) (by omega)]
        exact wr_row d1 J (k + 2) (k + 2 - 1) _ _ hn1 hnL (by omega) (by omega)
      -- m = n-2, …, 1
      have hc3' : (((k + 2 : Nat) : Int) - 2).toNat = k + 2 - 2 := by omega
      have e3 : c3 = ⟨d3, J⟩ := by
        rw [hc3, hd3, e2, hc3']
        apply loopN_hyb
        intro j F hj
        simp only []
        have tgj : g (nm_index ↑(k + 2) ↑(k + 2) - (2 + ↑j)) = gC ((k + 2 : Nat) : Int) (((k + 2 : Nat) : Int) - ((j + 2 : Nat) : Int)) :=
          tab_nm L hg (nmc (s2_g_eq ↑(k + 2) (2 + ↑j) (by omega) (by omega)) rfl (by push_cast; omega)) (by omega) (by omega)
        have thj : h (nm_index ↑(k + 2) ↑(k + 2) - (2 + ↑j)) = hC ((k + 2 : Nat) : Int) (((k + 2 : Nat) : Int) - ((j + 2 : Nat) : Int)) :=
          tab_nm L hh (nmc (s2_g_eq ↑(k + 2) (2 + ↑j) (by omega) (by omega)) rfl (by push_cast; omega)) (by omega) (by omega)
        rw [tgj, thj]
        rw [rd_row F J (k + 2) (k + 2 - (j + 2) + 1) ((rowQ L P (k + 2)).1 - (2 + ↑j) + 1) hn1 hnL (by omega) (by omega),
            rd_row F J (k + 2) (k + 2 - (j + 2) + 2) ((rowQ L P (k + 2)).1 - (2 + ↑j) + 2) hn1 hnL (by omega) (by omega)]
        exact wr_row F J (k + 2) (k + 2 - (j + 2)) _ _ hn1 hnL (by omega) (by omega)
      -- m = 0
      have tg0 : g (nm_index ↑(k + 2) ↑(k + 2) - ↑(k + 2)) = gC ((k + 2 : Nat) : Int) 0 :=
        tab_nm L hg (nmc (s2_g_eq ↑(k + 2) ↑(k + 2) (by omega) (by omega)) rfl (by omega)) (by omega) (by omega)
      have th0 : h (nm_index ↑(k + 2) ↑(k + 2) - ↑(k + 2)) = hC ((k + 2 : Nat) : Int) 0 :=
        tab_nm L hh (nmc (s2_g_eq ↑(k + 2) ↑(k + 2) (by omega) (by omega)) rfl (by omega)) (by omega) (by omega)
      have e4 : c4 = ⟨d4, J⟩ := by
        rw [hc4, hd4, e3, tg0, th0]
        rw [rd_row d3 J (k + 2) 1 ((rowQ L P (k + 2)).1 - ↑(k + 2) + 1) hn1 hnL (by omega) (by omega),
            rd_row d3 J (k + 2) 2 ((rowQ L P (k + 2)).1 - ↑(k + 2) + 2) hn1 hnL (by omega) (by omega)]
        exact wr_row d3 J (k + 2) 0 _ _ hn1 hnL (by omega) (by omega)
      -- normalisation loop
      generalize hM : loopN (k + 2 - 1) _ ((c4, _) : Hyb L P φ α × α) = M
      have hc5 : (((k + 2 : Nat) : Int) - 1).toNat = k + 2 - 1 := by omega
      have e5 : M = (⟨p4.1, J⟩, p4.2) := by
        rw [← hM, hp4, e4, hc5]
        apply loopN_hyb2
        intro j F x hj
        simp only []
        rw [rd_row F J (k + 2) (j + 1) ((rowQ L P (k + 2)).1 - ↑(k + 2) + (1 + ↑j)) hn1 hnL (by omega) (by push_cast; omega),
            wr_row F J (k + 2) (j + 1) ((rowQ L P (k + 2)).1 - ↑(k + 2) + (1 + ↑j)) _ hn1 hnL (by omega) (by push_cast; omega)]
      rw [e5]
      simp only []
      rw [hd8, hq5]
      by_cases hr : k + 2 ≤ L
      · have hr' : ((k + 2 : Nat) : Int) ≤ (L : Int) := by omega
        rw [if_pos hr, if_pos hr', hd7, hd6, ← hd5]
        rw [frd_fwr_ne d5 idV idW _ _ _ (by decide)]
        rw [rd_hw d5 J (k + 2) 0 1 (WignerHindex ↑(k + 2) 0 1 (some ↑P)) hr (hwc (s2_hvsrc_eq ↑(k + 2) P hP (by omega)) rfl rfl rfl),
            wr_hv d5 J (k + 2) 1 (nm_index ↑(k + 2) 1) _ hr ⟨rfl, by omega, by omega⟩,
            wr_hv _ J (k + 2) 0 (nm_index ↑(k + 2) 0) _ hr ⟨rfl, by omega, by omega⟩]
      · have hr' : ¬ (((k + 2 : Nat) : Int) ≤ (L : Int)) := by omega
        rw [if_neg hr, if_neg hr', ← hd5]
    clear_value (hpre0 : pre0 = _) (hp6 : p6 = _) (hb4 : b4 = _) (hpre1 : pre1 = _) (hnX : nX = _) (hpre2 : pre2 = _)
      (hb5 : b5 = _) (hb6 : b6 = _) (hb7 : b7 = _) (hq7 : q7 = _) (hb8 : b8 = _)
    clear_value a3 b3
    subst hpre0 hnX
    generalize hM : loopN L _ ((a3, _) : Hyb L P φ α × α) = M
    have hc6 : ((((L : Int) + 1)) - 1).toNat = L := by omega
    have r4 : M = (⟨p6.1, J⟩, p6.2) := by
      rw [← hM, hp6, r3, hc6]
      apply loopN_hyb2
      intro k F x hk
      have ek : (1 : Int) + (k : Int) = ((k + 1 : Nat) : Int) := by push_cast; omega
      simp only [ek]
      rw [rd_hw F J (k + 1) 0 (k + 1) (WignerHindex ↑(k + 1) 0 ↑(k + 1) (some ↑P)) (by omega)
            (hwc (s2_diag_eq ↑(k + 1) P hP (by omega)) rfl rfl rfl),
          wr_hw F J (k + 1) 0 (k + 1) (WignerHindex ↑(k + 1) 0 ↑(k + 1) (some ↑P)) _ (by omega)
            (hwc (s2_diag_eq ↑(k + 1) P hP (by omega)) rfl rfl rfl)]
    rw [r4]
    simp only []
    rw [hb8, hq7, if_pos h1, hb7, hb6, hb5, hpre2, hpre1, ← hb4]
    rw [rd_hx b4 J (L + 1) ((L : Int) + 1) (by omega) (by push_cast; omega),
        wr_hx b4 J (L + 1) ((L : Int) + 1) _ (by omega) (by push_cast; omega)]
    generalize (fwr (α := α) b4 idX _ _ : φ) = b5'
    rw [frd_fwr_ne b5' idV idW _ _ _ (by decide)]
    rw [rd_hw b5' J 1 0 1 (WignerHindex 1 0 1 (some ↑P)) h1L (hwc (s2_pre_H1_eq P hP) rfl rfl rfl),
        wr_hv b5' J 1 1 (nm_index 1 1) _ h1L ⟨rfl, by omega, by omega⟩,
        wr_hv _ J 1 0 (nm_index 1 0) _ h1L ⟨rfl, by omega, by omega⟩]
end
end GenH
