"""Memory-layout strata shared by the implementation-side sweeps.

Every property here quantifies over "all Modes / Grid / rotor arrays"; an ndarray's strides are part of the input space
(Fortran order, transposed or axis-moved views, strided slices).  The sweeps verify the C-contiguous case against the
oracles; these helpers add the metamorphic check that the SAME values in another layout give the SAME answer."""
import numpy as np

from . import helpers


def variants(a):
    """(label, array equal to `a` but laid out differently); only for ndim >= 2"""
    a = np.ascontiguousarray(a)
    if a.ndim < 2:
        return
    yield "fortran", np.asfortranarray(a)
    mv = np.ascontiguousarray(np.moveaxis(a, -1, 0))
    yield "moveaxis-view", np.moveaxis(mv, 0, -1)
    wide = np.repeat(a, 2, axis=0)
    wide[1::2] = -7.5
    yield "strided", wide[::2]
    if a.shape[0] > 1:
        yield "reversed", np.ascontiguousarray(a[::-1])[::-1]


def same(a, b, exact=True, rtol=1e-13):
    a = np.asarray(a)
    b = np.asarray(b)
    if a.shape != b.shape:
        return False
    if exact:
        return helpers.bits_equal(np.ascontiguousarray(a), np.ascontiguousarray(b))
    scale = max(float(np.max(np.abs(b))) if b.size else 0.0, 1e-300)
    return bool(np.all(np.abs(a - b) <= rtol * scale))


def nd(x):
    return x.ndarray if hasattr(x, "ndarray") else np.asarray(x)


def modes_layouts(rng, s, L, lead):
    """(label, Modes) with identical values in each layout; first is the C-contiguous reference"""
    import spherical
    base = helpers.random_weights(rng, s, L, lead)
    base[..., :s * s] = 0
    yield "C", spherical.Modes(base.copy(), spin_weight=s, ell_min=0, ell_max=L), base
    for lab, v in variants(base):
        yield lab, spherical.Modes(v, spin_weight=s, ell_min=0, ell_max=L), base


def sweep_modes(run, name, ops, spins, lead=(2, 3), Lextra=2, exact=True):
    """ops: [(label, fn(Modes) -> array-like or Modes)].  Violation cause `result-depends-on-memory-layout`."""
    rng = run.rng
    for s in spins:
        L = abs(s) + Lextra
        ref = {}
        for lab, f, base in modes_layouts(rng, s, L, lead):
            for opname, op in ops:
                inp = {"s": s, "ell_max": L, "lead": list(lead), "layout": lab, "op": opname}
                run.gap_case("memory-layouts", (name, s, lab, opname), f"layout|{lab}")
                try:
                    r = nd(op(f))
                except Exception as e:
                    if lab == "C":
                        ref[opname] = ("raised", type(e).__name__)
                        continue
                    if ref.get(opname, ("", ""))[0] == "raised":
                        continue
                    run.violation("layout-variant-raised", opname, inp, "same result as for the C-contiguous object", repr(e))
                    continue
                if lab == "C":
                    ref[opname] = ("ok", np.array(r, copy=True))
                    continue
                kind, want = ref.get(opname, ("raised", None))
                if kind != "ok":
                    run.violation("layout-variant-accepted-where-C-raised", opname, inp, want, "returned")
                    continue
                ex = exact(opname) if callable(exact) else exact
                if not same(r, want, ex):
                    run.violation("result-depends-on-memory-layout", opname, {**inp, "weights_shape": list(base.shape)},
                                  "the result for the same values in C order", "differs",
                                  detail={"max_abs_diff": float(np.max(np.abs(np.asarray(r) - want))) if np.asarray(r).shape == want.shape else "shape"})
                if not np.array_equal(nd(f), base):
                    run.violation("input-modified", opname, inp, "operand unchanged", "changed")
