import SphericalVerif.Props.C20
#print axioms C20.ctor_accepts
#print axioms C20.ctor_stored_length
#print axioms C20.ctor_stores
#print axioms C20.ctor_reads_documented_position
#print axioms C20.ctor_accepts_exactly_perfect_sizes
#print axioms C20.ctor_rejects
#print axioms C20.index_guards
#print axioms C20.index_outcome
#print axioms C20.index_value_in_range
#print axioms C20.truncate_ell_spec
#print axioms C20.truncate_ell_original_untouched
#print axioms C20.views_keep_metadata
#print axioms C20.views_keep_metadata_heap
