import SphericalVerif.Gen.FillKern
import SphericalVerif.Props.C11
import Mathlib.Tactic.Linarith
/-! Entry-by-entry description of what the GENERATED fill kernels (`Gen/FillKern.lean`: `_fill_wigner_d`, `_fill_wigner_D`,
    `_fill_sYlm` translated from the Python text on every run) leave in their output arrays, for every size and arithmetic:
    loop-nest reasoning (`loopN_target`: one iteration establishes the cell, the others do not touch it) on top of the
    injectivity of the documented index functions (`C11.dindex_get`, `C11.yindex_get`). -/
set_option linter.unusedSectionVars false
namespace GenFill
open Gen Spec

/-! ### loops -/

/-- one distinguished iteration establishes `T` whatever it starts from, every other iteration preserves it -/
theorem loopN_target {σ : Type} (T : σ → Prop) (cnt k0 : Nat) (f : Nat → σ → σ) (s : σ) (hk : k0 < cnt)
    (hest : ∀ s, T (f k0 s)) (hpres : ∀ k s, k < cnt → k ≠ k0 → T s → T (f k s)) : T (loopN cnt f s) := by
  induction cnt with
  | zero => omega
  | succ n ih =>
    simp only [loopN]
    by_cases h : n = k0
    · subst h; exact hest _
    · exact hpres n _ (Nat.lt_succ_self n) h (ih (by omega) (fun k s hk' hne => hpres k s (by omega) hne))

/-- every iteration preserves `T` -/
theorem loopN_pres {σ : Type} (T : σ → Prop) (cnt : Nat) (f : Nat → σ → σ) (s : σ) (h0 : T s)
    (hpres : ∀ k s, k < cnt → T s → T (f k s)) : T (loopN cnt f s) :=
  loopN_inv (fun _ s => T s) cnt f s h0 (fun k s hk h => hpres k s hk h)

section
variable {α : Type} {φ : Type} [FMem φ α] [LawfulFMem φ α]

theorem frd_fwr (st : φ) (a a' : Nat) (i i' : Int) (v : α) :
    frd (α := α) (fwr (α := α) st a i v) a' i' = if a' = a ∧ i' = i then v else frd (α := α) st a' i' :=
  LawfulFMem.get_set st a a' i i' v

theorem frd_fwr_same (st : φ) (a : Nat) (i : Int) (v : α) : frd (α := α) (fwr (α := α) st a i v) a i = v := by
  rw [frd_fwr]; simp

theorem frd_fwr_other (st : φ) (a : Nat) (i i' : Int) (v : α) (h : i' ≠ i) :
    frd (α := α) (fwr (α := α) st a i v) a i' = frd (α := α) st a i' := by
  rw [frd_fwr]; simp [h]
end

/-! ### the D index -/

/-- `mp_max = -1` (the default the kernels use) means the full matrix: the same position as with any `mp_max ≥ ell` -/
theorem dindex_full (ell mp m ell_min Pbig : Int) (h0 : 0 ≤ ell_min) (h1 : ell_min ≤ ell) (hP : ell ≤ Pbig) :
    WignerDindex ell mp m ell_min (-1) = WignerDindex ell mp m ell_min Pbig := by
  unfold WignerDindex
  have e1 : min ell ell = ell := by omega
  have e2 : min Pbig ell = ell := by omega
  have c1 : (-1 : Int) < 0 := by omega
  have c2 : ¬ (Pbig < 0) := by omega
  simp only [c1, c2, if_true, if_false, e1, e2]
  by_cases hc : ell > ell_min
  · simp only [hc, if_true]
    unfold WignerDsize
    have d1 : ¬ (ell - 1 < 0) := by omega
    have d2 : ell ≥ ell - 1 := by omega
    have d3 : Pbig ≥ ell - 1 := by omega
    simp only [d1, d2, d3, if_true, if_false]
  · simp only [hc, if_false]

/-- positions of the full D matrix are distinct -/
theorem dindex_inj (ell_min ell_max : Int) (ell mp m ell' mp' m' : Int) (h0 : 0 ≤ ell_min)
    (h1 : ell_min ≤ ell) (h2 : ell ≤ ell_max) (hp1 : -ell ≤ mp) (hp2 : mp ≤ ell) (hm1 : -ell ≤ m) (hm2 : m ≤ ell)
    (h1' : ell_min ≤ ell') (h2' : ell' ≤ ell_max) (hp1' : -ell' ≤ mp') (hp2' : mp' ≤ ell') (hm1' : -ell' ≤ m') (hm2' : m' ≤ ell')
    (e : WignerDindex ell mp m ell_min (-1) = WignerDindex ell' mp' m' ell_min (-1)) :
    ell = ell' ∧ mp = mp' ∧ m = m' := by
  rw [dindex_full ell mp m ell_min ell_max h0 h1 h2, dindex_full ell' mp' m' ell_min ell_max h0 h1' h2'] at e
  have g := (C11.dindex_get ell_min ell_max ell_max ell mp m h0 h1 h2 (by omega) (by omega) (by omega) hm1 hm2).2.2
  have g' := (C11.dindex_get ell_min ell_max ell_max ell' mp' m' h0 h1' h2' (by omega) (by omega) (by omega) hm1' hm2').2.2
  rw [e, g'] at g
  simp only [Option.some.injEq, Prod.mk.injEq] at g
  omega

section
variable {α : Type} [Scalar α] {φ : Type} [FMem φ α] [LawfulFMem φ α]

/-- **`_fill_wigner_d`, entry by entry**: after the generated kernel, the cell `d[WignerDindex(ell, mp, m, ell_min)]`
    holds `ϵ(mp) ϵ(-m) · Hwedge[WignerHindex(ell, mp, m, mp_max)]`, for every entry of the documented range -/
theorem fill_d_entry (ell_min ell_max mp_max : Int) (d : Nat) (Hw : Int → α) (st : φ) (h0 : 0 ≤ ell_min)
    (ell mp m : Int) (h1 : ell_min ≤ ell) (h2 : ell ≤ ell_max) (hp1 : -ell ≤ mp) (hp2 : mp ≤ ell) (hm1 : -ell ≤ m) (hm2 : m ≤ ell) :
    frd (α := α) (Gen.u_fill_wigner_d (α := α) ell_min ell_max mp_max d Hw st) d (WignerDindex ell mp m ell_min (-1))
      = (Scalar.ofInt (ε mp * ε (-m)) : α) *. Hw (WignerHindex ell mp m (some mp_max)) := by
  unfold Gen.u_fill_wigner_d
  simp only []
  refine loopN_target (fun st => frd (α := α) st d (WignerDindex ell mp m ell_min (-1)) = _) _ (ell - ell_min).toNat _ st (by omega) ?_ ?_
  · intro st
    have e1 : ell_min + (((ell - ell_min).toNat : Nat) : Int) = ell := by omega
    rw [e1]
    refine loopN_target (fun st => frd (α := α) st d (WignerDindex ell mp m ell_min (-1)) = _) _ (mp + ell).toNat _ st (by omega) ?_ ?_
    · intro st
      have e2 : -ell + (((mp + ell).toNat : Nat) : Int) = mp := by omega
      rw [e2]
      refine loopN_target (fun st => frd (α := α) st d (WignerDindex ell mp m ell_min (-1)) = _) _ (m + ell).toNat _ st (by omega) ?_ ?_
      · intro st
        have e3 : -ell + (((m + ell).toNat : Nat) : Int) = m := by omega
        rw [e3, frd_fwr_same]
      · intro k st hk hne hT
        rw [frd_fwr_other _ _ _ _ _ (fun e => ?_)]; exact hT
        have := dindex_inj ell_min ell_max ell mp m ell mp (-ell + (k : Int)) h0 h1 h2 hp1 hp2 hm1 hm2 h1 h2 hp1 hp2 (by omega) (by omega) e
        omega
    · intro k st hk hne hT
      refine loopN_pres (fun st => frd (α := α) st d (WignerDindex ell mp m ell_min (-1)) = _) _ _ st hT ?_
      intro k' st hk' hT
      rw [frd_fwr_other _ _ _ _ _ (fun e => ?_)]; exact hT
      have := dindex_inj ell_min ell_max ell mp m ell (-ell + (k : Int)) (-ell + (k' : Int)) h0 h1 h2 hp1 hp2 hm1 hm2 h1 h2 (by omega) (by omega) (by omega) (by omega) e
      omega
  · intro k st hk hne hT
    refine loopN_pres (fun st => frd (α := α) st d (WignerDindex ell mp m ell_min (-1)) = _) _ _ st hT ?_
    intro k' st hk' hT
    refine loopN_pres (fun st => frd (α := α) st d (WignerDindex ell mp m ell_min (-1)) = _) _ _ st hT ?_
    intro k'' st hk'' hT
    rw [frd_fwr_other _ _ _ _ _ (fun e => ?_)]; exact hT
    have := dindex_inj ell_min ell_max ell mp m (ell_min + (k : Int)) (-(ell_min + (k : Int)) + (k' : Int)) (-(ell_min + (k : Int)) + (k'' : Int)) h0 h1 h2 hp1 hp2 hm1 hm2 (by omega) (by omega) (by omega) (by omega) (by omega) (by omega) e
    omega

/-! ### complex cells -/

theorem frdC_fwrC_same (st : φ) (a : Nat) (i : Int) (z : Cx α) : frdC (α := α) (fwrC (α := α) st a i z) a i = z := by
  unfold frdC fwrC
  rw [frd_fwr_other _ _ _ _ _ (by omega), frd_fwr_same, frd_fwr_same]

theorem frdC_fwrC_other (st : φ) (a : Nat) (i i' : Int) (z : Cx α) (h : i' ≠ i) :
    frdC (α := α) (fwrC (α := α) st a i z) a i' = frdC (α := α) st a i' := by
  unfold frdC fwrC
  rw [frd_fwr_other _ _ _ _ _ (by omega), frd_fwr_other _ _ _ _ _ (by omega), frd_fwr_other _ _ _ _ _ (by omega),
    frd_fwr_other _ _ _ _ _ (by omega)]

/-- a loop that carries a running index incremented once per iteration is the loop with the index computed -/
theorem loopN_counter {σ : Type} (cnt : Nat) (g : Nat → σ × Int → σ) (s : σ) (i0 : Int) :
    loopN cnt (fun k (p : σ × Int) => (g k p, p.2 + 1)) (s, i0)
      = (loopN cnt (fun k s => g k (s, i0 + (k : Int))) s, i0 + (cnt : Int)) := by
  induction cnt with
  | zero => simp [loopN]
  | succ n ih =>
    simp only [loopN, ih]
    refine Prod.ext rfl ?_
    show i0 + (n : Int) + 1 = i0 + ((n + 1 : Nat) : Int)
    push_cast; omega

/-- a run of consecutive complex cells written one per iteration: the cell of iteration `k0` -/
theorem run_target (cnt k0 : Nat) (A : Nat) (i0 : Int) (val : Nat → Cx α) (st : φ) (hk : k0 < cnt) :
    frdC (α := α) (loopN cnt (fun k s => fwrC (α := α) s A (i0 + (k : Int)) (val k)) st) A (i0 + (k0 : Int)) = val k0 := by
  refine loopN_target (fun st => frdC (α := α) st A (i0 + (k0 : Int)) = val k0) cnt k0 _ st hk ?_ ?_
  · intro st; exact frdC_fwrC_same _ _ _ _
  · intro k st _ hne hT
    rw [frdC_fwrC_other _ _ _ _ _ (by omega)]; exact hT

/-- … and any cell outside the run is untouched -/
theorem run_other (cnt : Nat) (A : Nat) (i0 i : Int) (val : Nat → Cx α) (st : φ)
    (h : ∀ k : Nat, k < cnt → i ≠ i0 + (k : Int)) :
    frdC (α := α) (loopN cnt (fun k s => fwrC (α := α) s A (i0 + (k : Int)) (val k)) st) A i = frdC (α := α) st A i := by
  refine loopN_pres (fun s => frdC (α := α) s A i = frdC (α := α) st A i) cnt _ st rfl ?_
  intro k s hk hT
  rw [frdC_fwrC_other _ _ _ _ _ (h k hk)]; exact hT


theorem dindex_shift (ell mp m ell_min P k : Int) :
    WignerDindex ell mp m ell_min P + k = WignerDindex ell mp (m + k) ell_min P := by
  unfold WignerDindex
  split_ifs <;> simp only [] <;> omega

/-- two consecutive runs (the `m < 0` and `m ≥ 0` loops of one `mp` iteration): a cell of the first run -/
theorem two_runs_first (c1 c2 k0 : Nat) (A : Nat) (i0 : Int) (v1 v2 : Nat → Cx α) (st : φ) (hk : k0 < c1) :
    frdC (α := α) (loopN c2 (fun k s => fwrC (α := α) s A (i0 + (c1 : Int) + (k : Int)) (v2 k))
      (loopN c1 (fun k s => fwrC (α := α) s A (i0 + (k : Int)) (v1 k)) st)) A (i0 + (k0 : Int)) = v1 k0 := by
  rw [run_other _ _ _ _ _ _ (fun k _ => by omega), run_target _ _ _ _ _ _ hk]

theorem two_runs_second (c1 c2 k0 : Nat) (A : Nat) (i0 : Int) (v1 v2 : Nat → Cx α) (st : φ) (hk : k0 < c2) :
    frdC (α := α) (loopN c2 (fun k s => fwrC (α := α) s A (i0 + (c1 : Int) + (k : Int)) (v2 k))
      (loopN c1 (fun k s => fwrC (α := α) s A (i0 + (k : Int)) (v1 k)) st)) A (i0 + (c1 : Int) + (k0 : Int)) = v2 k0 :=
  run_target _ _ _ _ _ _ hk

theorem two_runs_other (c1 c2 : Nat) (A : Nat) (i0 i : Int) (v1 v2 : Nat → Cx α) (st : φ)
    (h : ∀ k : Nat, k < c1 + c2 → i ≠ i0 + (k : Int)) :
    frdC (α := α) (loopN c2 (fun k s => fwrC (α := α) s A (i0 + (c1 : Int) + (k : Int)) (v2 k))
      (loopN c1 (fun k s => fwrC (α := α) s A (i0 + (k : Int)) (v1 k)) st)) A i = frdC (α := α) st A i := by
  rw [run_other _ _ _ _ _ _ (fun k hk => by have := h (c1 + k) (by omega); push_cast at this; omega),
    run_other _ _ _ _ _ _ (fun k hk => h k (by omega))]

theorem fill_D_entry (ell_min ell_max mp_max : Int) (D : Nat) (Hw : Int → α) (za zg : Int → Cx α) (st : φ) (h0 : 0 ≤ ell_min)
    (ell mp m : Int) (h1 : ell_min ≤ ell) (h2 : ell ≤ ell_max) (hp1 : -ell ≤ mp) (hp2 : mp ≤ ell) (hm1 : -ell ≤ m) (hm2 : m ≤ ell) :
    frdC (α := α) (Gen.u_fill_wigner_D (α := α) ell_min ell_max mp_max D Hw za zg st) D (WignerDindex ell mp m ell_min (-1))
      = Cx.mul (Cx.rmul ((Scalar.ofInt (ε mp * ε (-m)) : α) *. Hw (WignerHindex ell mp m (some mp_max)))
          (if m < 0 then Cx.conj (zg (-m)) else zg m)) (if mp < 0 then Cx.conj (za (-mp)) else za mp) := by
  unfold Gen.u_fill_wigner_D
  simp only [loopN_counter, Int.zero_add, Int.sub_zero, Int.zero_sub, Int.neg_neg]
  -- the target cell in the form the runs use: base of its row + offset
  have hI : ∀ mp' : Int, WignerDindex ell mp' m ell_min (-1) = WignerDindex ell mp' (-ell) ell_min (-1) + (m + ell) := by
    intro mp'; rw [dindex_shift]; congr 1; omega
  -- no other row / other degree touches it
  have hne : ∀ (ell' mp' : Int) (k : Nat), ell_min ≤ ell' → ell' ≤ ell_max → -ell' ≤ mp' → mp' ≤ ell' →
      k < ell'.toNat + (ell' + 1).toNat → (ell' ≠ ell ∨ mp' ≠ mp) →
      WignerDindex ell mp m ell_min (-1) ≠ WignerDindex ell' mp' (-ell') ell_min (-1) + (k : Int) := by
    intro ell' mp' k a1 a2 a3 a4 hk hd e
    rw [dindex_shift] at e
    have := dindex_inj ell_min ell_max ell mp m ell' mp' (-ell' + (k : Int)) h0 h1 h2 hp1 hp2 hm1 hm2 a1 a2 a3 a4 (by omega) (by omega) e
    omega
  refine loopN_target (fun st => frdC (α := α) st D (WignerDindex ell mp m ell_min (-1)) = _) _ (ell - ell_min).toNat _ st (by omega) ?_ ?_
  · intro st
    have e1 : ell_min + (((ell - ell_min).toNat : Nat) : Int) = ell := by omega
    rw [e1]
    by_cases hmp : mp < 0
    · -- established in the `mp < 0` loop, preserved by the `mp ≥ 0` loop
      refine loopN_pres (fun s => frdC (α := α) s D (WignerDindex ell mp m ell_min (-1)) = _) _ _ _ ?_ ?_
      · refine loopN_target (fun st => frdC (α := α) st D (WignerDindex ell mp m ell_min (-1)) = _) _ (mp + ell).toNat _ st (by omega) ?_ ?_
        · intro st
          have e2 : -ell + (((mp + ell).toNat : Nat) : Int) = mp := by omega
          rw [e2, hI mp, if_pos hmp]
          by_cases hm : m < 0
          · have e3 : m + ell = (((m + ell).toNat : Nat) : Int) := by omega
            have e4 : -ell + (((m + ell).toNat : Nat) : Int) = m := by omega
            rw [e3, two_runs_first _ _ _ _ _ _ _ _ (by omega), e4, if_pos hm]
          · have e3 : m + ell = ((ell.toNat : Nat) : Int) + ((m.toNat : Nat) : Int) := by omega
            have e4 : ((m.toNat : Nat) : Int) = m := by omega
            rw [e3, ← Int.add_assoc, two_runs_second _ _ _ _ _ _ _ _ (by omega), e4, if_neg hm]
        · intro k st hk hne' hT
          rw [two_runs_other _ _ _ _ _ _ _ _ (fun k' hk' => hne ell (-ell + (k : Int)) k' h1 h2 (by omega) (by omega) hk' (Or.inr (by omega)))]
          exact hT
      · intro k st hk hT
        rw [two_runs_other _ _ _ _ _ _ _ _ (fun k' hk' => hne ell (k : Int) k' h1 h2 (by omega) (by omega) hk' (Or.inr (by omega)))]
        exact hT
    · refine loopN_target (fun st => frdC (α := α) st D (WignerDindex ell mp m ell_min (-1)) = _) _ mp.toNat _ _ (by omega) ?_ ?_
      · intro st
        have e2 : ((mp.toNat : Nat) : Int) = mp := by omega
        rw [e2, hI mp, if_neg hmp]
        by_cases hm : m < 0
        · have e3 : m + ell = (((m + ell).toNat : Nat) : Int) := by omega
          have e4 : -ell + (((m + ell).toNat : Nat) : Int) = m := by omega
          rw [e3, two_runs_first _ _ _ _ _ _ _ _ (by omega), e4, if_pos hm]
        · have e3 : m + ell = ((ell.toNat : Nat) : Int) + ((m.toNat : Nat) : Int) := by omega
          have e4 : ((m.toNat : Nat) : Int) = m := by omega
          rw [e3, ← Int.add_assoc, two_runs_second _ _ _ _ _ _ _ _ (by omega), e4, if_neg hm]
      · intro k st hk hne' hT
        rw [two_runs_other _ _ _ _ _ _ _ _ (fun k' hk' => hne ell (k : Int) k' h1 h2 (by omega) (by omega) hk' (Or.inr (by omega)))]
        exact hT
  · intro k st hk hne' hT
    refine loopN_pres (fun s => frdC (α := α) s D (WignerDindex ell mp m ell_min (-1)) = _) _ _ _ ?_ ?_
    · refine loopN_pres (fun s => frdC (α := α) s D (WignerDindex ell mp m ell_min (-1)) = _) _ _ _ hT ?_
      intro k2 st hk2 hT
      rw [two_runs_other _ _ _ _ _ _ _ _ (fun k' hk' => hne (ell_min + (k : Int)) (-(ell_min + (k : Int)) + (k2 : Int)) k' (by omega) (by omega) (by omega) (by omega) hk' (Or.inl (by omega)))]
      exact hT
    · intro k5 st hk5 hT
      rw [two_runs_other _ _ _ _ _ _ _ _ (fun k' hk' => hne (ell_min + (k : Int)) (k5 : Int) k' (by omega) (by omega) (by omega) (by omega) hk' (Or.inl (by omega)))]
      exact hT

theorem yindex_shift (ell m ell_min k : Int) : Yindex ell m ell_min + k = Yindex ell (m + k) ell_min := by
  unfold Yindex; split_ifs <;> omega

theorem yindex_inj (ell_min ell_max ell m ell' m' : Int) (h0 : 0 ≤ ell_min)
    (h1 : ell_min ≤ ell) (h2 : ell ≤ ell_max) (hm1 : -ell ≤ m) (hm2 : m ≤ ell)
    (h1' : ell_min ≤ ell') (h2' : ell' ≤ ell_max) (hm1' : -ell' ≤ m') (hm2' : m' ≤ ell')
    (e : Yindex ell m ell_min = Yindex ell' m' ell_min) : ell = ell' ∧ m = m' := by
  have g := (C11.yindex_get ell_min ell_max ell m h0 h1 h2 hm1 hm2).2.2
  have g' := (C11.yindex_get ell_min ell_max ell' m' h0 h1' h2' hm1' hm2').2.2
  rw [e, g'] at g
  simp only [Option.some.injEq, Prod.mk.injEq] at g
  omega

theorem fill_sYlm_entry (ell_min ell_max mp_max s : Int) (Y : Nat) (Hw : Int → α) (za : Int → Cx α) (zgp : Cx α) (st : φ)
    (h0 : 0 ≤ ell_min) (ell m : Int) (h1 : max ((Int.natAbs s : Nat) : Int) ell_min ≤ ell) (h2 : ell ≤ ell_max)
    (hm1 : -ell ≤ m) (hm2 : m ≤ ell) :
    frdC (α := α) (Gen.u_fill_sYlm (α := α) ell_min ell_max mp_max s Y Hw za zgp st) Y (Yindex ell m ell_min)
      = (let c1 : Cx α := if s ≥ 0 then Cx.conj zgp else Cx.mul (Cx.ofRe (Scalar.ofInt ((-1 : Int) ^ (Int.natAbs s)) : α)) zgp
         let c2 : Cx α := Cx.mulr c1 (Scalar.sqrt ((Scalar.ofInt (2 * ell + 1) : α) *. (Scalar.inv4pi : α)))
         if m < 0 then Cx.mul (Cx.mulr c2 (Hw (WignerHindex ell m (-s) (some mp_max)))) (Cx.conj (za (-m)))
         else Cx.mul (Cx.mulr (Cx.mul c2 (Cx.ofRe (Scalar.ofInt (ε m) : α))) (Hw (WignerHindex ell m (-s) (some mp_max)))) (za m)) := by
  unfold Gen.u_fill_sYlm
  simp only [loopN_counter, Int.zero_add, Int.sub_zero, Int.zero_sub, Int.neg_neg]
  generalize hell0 : max ((Int.natAbs s : Nat) : Int) ell_min = ell0 at h1 ⊢
  have hl0 : ell_min ≤ ell0 := by omega
  have hI : Yindex ell m ell_min = Yindex ell (-ell) ell_min + (m + ell) := by
    rw [yindex_shift]; congr 1; omega
  have hne : ∀ (ell' : Int) (k : Nat), ell_min ≤ ell' → ell' ≤ ell_max → k < ell'.toNat + (ell' + 1).toNat → ell' ≠ ell →
      Yindex ell m ell_min ≠ Yindex ell' (-ell') ell_min + (k : Int) := by
    intro ell' k a1 a2 hk hd e
    rw [yindex_shift] at e
    have := yindex_inj ell_min ell_max ell m ell' (-ell' + (k : Int)) h0 (by omega) h2 hm1 hm2 a1 a2 (by omega) (by omega) e
    omega
  by_cases hs : s ≥ 0
  all_goals
    simp only [hs, if_true, if_false]
    refine loopN_target (fun st => frdC (α := α) st Y (Yindex ell m ell_min) = _) _ (ell - ell0).toNat _ _ (by omega) ?_ ?_
    · intro st
      have e1 : ell0 + (((ell - ell0).toNat : Nat) : Int) = ell := by omega
      rw [e1, hI]
      by_cases hm : m < 0
      · have e3 : m + ell = (((m + ell).toNat : Nat) : Int) := by omega
        have e4 : -ell + (((m + ell).toNat : Nat) : Int) = m := by omega
        rw [e3, two_runs_first _ _ _ _ _ _ _ _ (by omega), e4, if_pos hm]
      · have e3 : m + ell = ((ell.toNat : Nat) : Int) + ((m.toNat : Nat) : Int) := by omega
        have e4 : ((m.toNat : Nat) : Int) = m := by omega
        rw [e3, ← Int.add_assoc, two_runs_second _ _ _ _ _ _ _ _ (by omega), e4, if_neg hm]
    · intro k st hk hne' hT
      rw [two_runs_other _ _ _ _ _ _ _ _ (fun k' hk' => hne (ell0 + (k : Int)) k' (by omega) (by omega) hk' (by omega))]
      exact hT

/-- entries below `max(|s|, ell_min)` are the literal zero the kernel stores first -/
theorem fill_sYlm_low (ell_min ell_max mp_max s : Int) (Y : Nat) (Hw : Int → α) (za : Int → Cx α) (zgp : Cx α) (st : φ)
    (h0 : 0 ≤ ell_min) (ell m : Int) (h1 : ell_min ≤ ell) (h1' : ell < max ((Int.natAbs s : Nat) : Int) ell_min)
    (h2 : max ((Int.natAbs s : Nat) : Int) ell_min ≤ ell_max + 1) (hm1 : -ell ≤ m) (hm2 : m ≤ ell) :
    frdC (α := α) (Gen.u_fill_sYlm (α := α) ell_min ell_max mp_max s Y Hw za zgp st) Y (Yindex ell m ell_min)
      = Cx.ofRe (Scalar.ofInt (0 : Int) : α) := by
  unfold Gen.u_fill_sYlm
  simp only [loopN_counter, Int.zero_add, Int.sub_zero, Int.zero_sub, Int.neg_neg]
  generalize hell0 : max ((Int.natAbs s : Nat) : Int) ell_min = ell0 at h1' h2 ⊢
  have hl0 : ell_min ≤ ell0 := by omega
  -- the cell lies in the zero-filled prefix …
  have g1 := C11.yindex_get ell_min ell0 ell m h0 h1 (by omega) hm1 hm2
  have g2 := C11.yindex_get ell_min ell0 ell0 (-ell0) h0 hl0 (le_refl _) (by omega) (by omega)
  have hlt : Yindex ell m ell_min < Yindex ell0 (-ell0) ell_min := by
    unfold Yindex
    split_ifs <;> nlinarith
  have hz : ∀ st : φ, frdC (α := α) (loopN (Yindex ell0 (-ell0) ell_min).toNat
      (fun k1 st => fwrC (α := α) st Y (k1 : Int) (Cx.ofRe (Scalar.ofInt (0 : Int) : α))) st) Y (Yindex ell m ell_min)
        = Cx.ofRe (Scalar.ofInt (0 : Int) : α) := by
    intro st
    refine loopN_target (fun st => frdC (α := α) st Y (Yindex ell m ell_min) = _) _ (Yindex ell m ell_min).toNat _ st (by omega) ?_ ?_
    · intro st
      have : (((Yindex ell m ell_min).toNat : Nat) : Int) = Yindex ell m ell_min := by omega
      rw [this, frdC_fwrC_same]
    · intro k st hk hne hT
      rw [frdC_fwrC_other _ _ _ _ _ (by omega)]; exact hT
  -- … and no later degree touches it
  have hne : ∀ (ell' : Int) (k : Nat), ell0 ≤ ell' → ell' ≤ ell_max → k < ell'.toNat + (ell' + 1).toNat →
      Yindex ell m ell_min ≠ Yindex ell' (-ell') ell_min + (k : Int) := by
    intro ell' k a1 a2 hk e
    rw [yindex_shift] at e
    have := yindex_inj ell_min ell_max ell m ell' (-ell' + (k : Int)) h0 h1 (by omega) hm1 hm2 (by omega) a2 (by omega) (by omega) e
    omega
  by_cases hs : s ≥ 0
  all_goals
    simp only [hs, if_true, if_false]
    refine loopN_pres (fun st => frdC (α := α) st Y (Yindex ell m ell_min) = _) _ _ _ (hz st) ?_
    intro k st hk hT
    rw [two_runs_other _ _ _ _ _ _ _ _ (fun k' hk' => hne (ell0 + (k : Int)) k' (by omega) (by omega) hk')]
    exact hT
end
end GenFill
