import SphericalVerif.Model.W3j
import SphericalVerif.Lemmas.Int64
import Mathlib.Tactic.Ring
import Mathlib.Tactic.Linarith
import Mathlib.Tactic.NormNum
/-! Helper lemmas for property C05 (Wigner 3-j / Clebsch-Gordan):
    * the fixed-width integer coefficient `B` and the radicand of `A` are exact (no overflow) on a
      bounded domain — proved through `wrap64` bounds on the *generated* definitions;
    * data-flow facts about the hand-written model `Model.W3j` that hold for every `Scalar α`. -/
namespace Lemmas.W3j
open Gen Lemmas

/-! ### `B` -/

theorem B_w_eq (j j2 j3 m2 m3 : Int) (hj : 0 ≤ j ∧ j ≤ 40000) (hj2 : 0 ≤ j2 ∧ j2 ≤ 20000)
    (hj3 : 0 ≤ j3 ∧ j3 ≤ 20000) (hm2 : -20001 ≤ m2 ∧ m2 ≤ 20001) (hm3 : -20001 ≤ m3 ∧ m3 ≤ 20001) :
    B_w j j2 j3 m2 m3 = B j j2 j3 m2 m3 := by
  have : Bnd j 0 40000 := ⟨hj⟩
  have : Bnd j2 0 20000 := ⟨hj2⟩
  have : Bnd j3 0 20000 := ⟨hj3⟩
  have : Bnd m2 (-20001) 20001 := ⟨hm2⟩
  have : Bnd m3 (-20001) 20001 := ⟨hm3⟩
  unfold B_w B
  simp (discharger := decide) only [wrap64_bnd]

theorem B_bnd (j j2 j3 m2 m3 : Int) (hj : 0 ≤ j ∧ j ≤ 40000) (hj2 : 0 ≤ j2 ∧ j2 ≤ 20000)
    (hj3 : 0 ≤ j3 ∧ j3 ≤ 20000) (hm2 : -20001 ≤ m2 ∧ m2 ≤ 20001) (hm3 : -20001 ≤ m3 ∧ m3 ≤ 20001) :
    -9223372036854775808 ≤ B j j2 j3 m2 m3 ∧ B j j2 j3 m2 m3 ≤ 9223372036854775807 := by
  have : Bnd j 0 40000 := ⟨hj⟩
  have : Bnd j2 0 20000 := ⟨hj2⟩
  have : Bnd j3 0 20000 := ⟨hj3⟩
  have : Bnd m2 (-20001) 20001 := ⟨hm2⟩
  have : Bnd m3 (-20001) 20001 := ⟨hm3⟩
  unfold B
  exact (inferInstance : Bnd _ _ _).weaken (by decide) (by decide)


/-- what the compiled `B` returns equals the mathematical value: every intermediate int64 operation
    *and* the conversion to the declared return width are the identity on this domain -/
theorem B_ret_eq (j j2 j3 m2 m3 : Int) (hj : 0 ≤ j ∧ j ≤ 40000) (hj2 : 0 ≤ j2 ∧ j2 ≤ 20000)
    (hj3 : 0 ≤ j3 ∧ j3 ≤ 20000) (hm2 : -20001 ≤ m2 ∧ m2 ≤ 20001) (hm3 : -20001 ≤ m3 ∧ m3 ≤ 20001) :
    B_ret j j2 j3 m2 m3 = B j j2 j3 m2 m3 := by
  unfold B_ret
  rw [B_w_eq j j2 j3 m2 m3 hj hj2 hj3 hm2 hm3]
  have h := B_bnd j j2 j3 m2 m3 hj hj2 hj3 hm2 hm3
  exact wrap64_id _ h.1 (by omega)

/-! ### radicand of `A` -/

/-- squares are non-negative: sharper than the generic product interval -/
instance (priority := high) bndSq (a la ha : Int) [x : Bnd a la ha] :
    Bnd (a * a) 0 (max (la * la) (ha * ha)) :=
  ⟨by
    have h := x.out
    refine ⟨mul_self_nonneg a, ?_⟩
    rcases le_total 0 a with h0 | h0
    · exact le_trans (by nlinarith) (le_max_right _ _)
    · exact le_trans (by nlinarith) (le_max_left _ _)⟩

/-- exactness on a box (no relation between `j`, `j2`, `j3`, `m1` assumed): interval arithmetic -/
theorem A_radicand_w_box (j j2 j3 m1 : Int) (hj : 0 ≤ j ∧ j ≤ 1440) (hj2 : 0 ≤ j2 ∧ j2 ≤ 720)
    (hj3 : 0 ≤ j3 ∧ j3 ≤ 720) (hm1 : -1440 ≤ m1 ∧ m1 ≤ 1440) :
    A_radicand_w j j2 j3 m1 = A_radicand j j2 j3 m1 := by
  have : Bnd j 0 1440 := ⟨hj⟩
  have : Bnd j2 0 720 := ⟨hj2⟩
  have : Bnd j3 0 720 := ⟨hj3⟩
  have : Bnd m1 (-1440) 1440 := ⟨hm1⟩
  unfold A_radicand_w A_radicand
  simp (discharger := decide) only [wrap64_bnd]
  ring

/-- AM-GM in the form needed: `x²(S-x) ≤ 4S³/27` -/
theorem amgm (x S : Int) (hx : 0 ≤ x) (hS : 0 ≤ S) : 27 * (x * (S - x) * x) ≤ 4 * S ^ 3 := by
  nlinarith [mul_nonneg (sq_nonneg (3 * x - 2 * S)) (by linarith : 0 ≤ 3 * x + S)]

/-- the three factors of the radicand on the admissible domain -/
theorem A_factors (j j2 j3 m1 : Int) (hlo : ((j2 - j3).natAbs : Int) ≤ j) (hhi : j ≤ j2 + j3 + 1)
    (hm : (m1.natAbs : Int) ≤ j) :
    (0 ≤ j * j - (j2 - j3) * (j2 - j3) ∧ j * j - (j2 - j3) * (j2 - j3) ≤ j * j) ∧
    0 ≤ (j2 + j3 + 1) * (j2 + j3 + 1) - j * j ∧
    (0 ≤ j * j - m1 * m1 ∧ j * j - m1 * m1 ≤ j * j) := by
  have hj : 0 ≤ j := le_trans (Int.natCast_nonneg _) hlo
  have a1 : -j ≤ j2 - j3 ∧ j2 - j3 ≤ j := by omega
  have a2 : -j ≤ m1 ∧ m1 ≤ j := by omega
  refine ⟨⟨?_, ?_⟩, ?_, ?_, ?_⟩
  · nlinarith
  · nlinarith [mul_self_nonneg (j2 - j3)]
  · nlinarith
  · nlinarith
  · nlinarith [mul_self_nonneg m1]

theorem A_radicand_nonneg (j j2 j3 m1 : Int) (hlo : ((j2 - j3).natAbs : Int) ≤ j)
    (hhi : j ≤ j2 + j3 + 1) (hm : (m1.natAbs : Int) ≤ j) : 0 ≤ A_radicand j j2 j3 m1 := by
  obtain ⟨⟨h1, _⟩, h2, h3, _⟩ := A_factors j j2 j3 m1 hlo hhi hm
  unfold A_radicand
  simp only [pow_two]
  exact mul_nonneg (mul_nonneg h1 h2) h3

/-- bounds of the two products on the admissible domain with `j2 + j3 ≤ 1989` -/
theorem A_products_bnd (j j2 j3 m1 : Int) (hs : j2 + j3 ≤ 1989)
    (hlo : ((j2 - j3).natAbs : Int) ≤ j) (hhi : j ≤ j2 + j3 + 1) (hm : (m1.natAbs : Int) ≤ j) :
    (0 ≤ (j * j - (j2 - j3) * (j2 - j3)) * ((j2 + j3 + 1) * (j2 + j3 + 1) - j * j) ∧
      (j * j - (j2 - j3) * (j2 - j3)) * ((j2 + j3 + 1) * (j2 + j3 + 1) - j * j) ≤ 15682392040000) ∧
    (0 ≤ (j * j - (j2 - j3) * (j2 - j3)) * ((j2 + j3 + 1) * (j2 + j3 + 1) - j * j) * (j * j - m1 * m1) ∧
      (j * j - (j2 - j3) * (j2 - j3)) * ((j2 + j3 + 1) * (j2 + j3 + 1) - j * j) * (j * j - m1 * m1)
        ≤ 9223372036854775807) := by
  obtain ⟨⟨h1, h1'⟩, h2, h3, h3'⟩ := A_factors j j2 j3 m1 hlo hhi hm
  have hj : 0 ≤ j := le_trans (Int.natCast_nonneg _) hlo
  generalize hf1 : j * j - (j2 - j3) * (j2 - j3) = f1 at *
  generalize hf3 : j * j - m1 * m1 = f3 at *
  have hx : 0 ≤ j * j := mul_self_nonneg j
  have hS0 : 0 ≤ (j2 + j3 + 1) * (j2 + j3 + 1) := mul_self_nonneg _
  have hS : (j2 + j3 + 1) * (j2 + j3 + 1) ≤ 3960100 := by nlinarith
  generalize (j2 + j3 + 1) * (j2 + j3 + 1) = S at *
  generalize j * j = x at *
  have p12 : f1 * (S - x) ≤ x * (S - x) := mul_le_mul_of_nonneg_right h1' h2
  have p123 : f1 * (S - x) * f3 ≤ x * (S - x) * x :=
    mul_le_mul p12 h3' h3 (mul_nonneg hx h2)
  have hk := amgm x S hx hS0
  have hS3 : S ^ 3 ≤ 3960100 ^ 3 := pow_le_pow_left₀ hS0 hS 3
  refine ⟨⟨mul_nonneg h1 h2, ?_⟩, mul_nonneg (mul_nonneg h1 h2) h3, ?_⟩
  · nlinarith
  · norm_num at hS3; omega

/-- exactness on the whole admissible domain of the recursion, up to the sharp size `j2 + j3 ≤ 1989` -/
theorem A_radicand_w_adm (j j2 j3 m1 : Int) (hj2 : 0 ≤ j2) (hj3 : 0 ≤ j3) (hs : j2 + j3 ≤ 1989)
    (hlo : ((j2 - j3).natAbs : Int) ≤ j) (hhi : j ≤ j2 + j3 + 1) (hm : (m1.natAbs : Int) ≤ j) :
    A_radicand_w j j2 j3 m1 = A_radicand j j2 j3 m1 := by
  have : Bnd j 0 1990 := ⟨by omega⟩
  have : Bnd j2 0 1989 := ⟨by omega⟩
  have : Bnd j3 0 1989 := ⟨by omega⟩
  have : Bnd m1 (-1990) 1990 := ⟨by omega⟩
  obtain ⟨_, b3, b4⟩ := A_products_bnd j j2 j3 m1 hs hlo hhi hm
  unfold A_radicand_w A_radicand
  simp (discharger := decide) only [wrap64_bnd]
  -- the inner product is within interval-arithmetic reach; the outer one needs the AM-GM bound
  rw [wrap64_id _ (by omega) (by omega)]
  ring


/-! ### the model, for every arithmetic -/
section model
open Model.W3j Scalar
variable {α : Type} [Scalar α]

/-- zeroing a workspace gives a result that depends on its length only -/
theorem map_zero_congr (ws₁ ws₂ : Array α) (h : ws₁.size = ws₂.size) :
    ws₁.map (fun _ => (zero : α)) = ws₂.map (fun _ => (zero : α)) := by
  apply Array.ext
  · simp [h]
  · intro i h1 h2; simp

theorem calculate_pure (size : Nat) (ws₁ ws₂ : Array α) (j2 j3 m2 m3 : Int)
    (h : ws₁.size = ws₂.size) :
    calculate size ws₁ j2 j3 m2 m3 = calculate size ws₂ j2 j3 m2 m3 := by
  unfold calculate
  rw [map_zero_congr ws₁ ws₂ h]

theorem calculate_out_of_range (size : Nat) (ws : Array α) (j2 j3 m2 m3 : Int)
    (h : (m2.natAbs : Int) > j2 ∨ (m3.natAbs : Int) > j3 ∨
      j2 + j3 < max ((j2 - j3).natAbs : Int) ((m2 + m3).natAbs : Int)) :
    calculate size ws j2 j3 m2 m3 = ⟨(ws.map (fun _ => zero)).extract 0 size, false⟩ := by
  unfold calculate
  by_cases h1 : (decide ((m2.natAbs : Int) > j2) || decide ((m3.natAbs : Int) > j3)) = true
  · simp only [h1, ↓reduceIte]
    rfl
  · have h2 : j2 + j3 < max ((j2 - j3).natAbs : Int) ((m2 + m3).natAbs : Int) := by
      simp only [Bool.or_eq_true, decide_eq_true_eq] at h1
      rcases h with h | h | h
      · exact absurd (Or.inl h) h1
      · exact absurd (Or.inr h) h1
      · exact h
    simp only [h1, h2, ↓reduceIte]
    rfl

/-- the arguments after the cyclic permutation of `Wigner3j` that puts the largest `j` first -/
structure Perm where
  a1 : Int
  a2 : Int
  a3 : Int
  b1 : Int
  b2 : Int
  b3 : Int

/-- exactly the branch structure of the source: `j1 = max → identity`, else `j2 = max → (2,3,1)`,
    else `(3,1,2)` -/
def perm (j1 j2 j3 m1 m2 m3 : Int) : Perm :=
  if j1 = max (max j1 j2) j3 then ⟨j1, j2, j3, m1, m2, m3⟩
  else if j2 = max (max j1 j2) j3 then ⟨j2, j3, j1, m2, m3, m1⟩
  else ⟨j3, j1, j2, m3, m1, m2⟩

theorem perm_cyclic (j1 j2 j3 m1 m2 m3 : Int) :
    perm j1 j2 j3 m1 m2 m3 = ⟨j1, j2, j3, m1, m2, m3⟩ ∨
    perm j1 j2 j3 m1 m2 m3 = ⟨j2, j3, j1, m2, m3, m1⟩ ∨
    perm j1 j2 j3 m1 m2 m3 = ⟨j3, j1, j2, m3, m1, m2⟩ := by
  unfold perm
  split
  · exact Or.inl rfl
  · split
    · exact Or.inr (Or.inl rfl)
    · exact Or.inr (Or.inr rfl)

theorem perm_a1 (j1 j2 j3 m1 m2 m3 : Int) :
    (perm j1 j2 j3 m1 m2 m3).a1 = max (max j1 j2) j3 := by
  unfold perm
  split
  · assumption
  · split
    · assumption
    · show j3 = _
      omega

theorem wigner3j_m_sum (j1 j2 j3 m1 m2 m3 : Int) (h : m1 + m2 + m3 ≠ 0) :
    wigner3j (α := α) j1 j2 j3 m1 m2 m3 = some zero := by
  unfold wigner3j
  rw [if_pos h]

theorem wigner3j_m_range (j1 j2 j3 m1 m2 m3 : Int)
    (h : (m1.natAbs : Int) > j1 ∨ (m2.natAbs : Int) > j2 ∨ (m3.natAbs : Int) > j3) :
    wigner3j (α := α) j1 j2 j3 m1 m2 m3 = some zero := by
  unfold wigner3j
  split
  · rfl
  · have : (decide ((m1.natAbs : Int) > j1) || decide ((m2.natAbs : Int) > j2)
        || decide ((m3.natAbs : Int) > j3)) = true := by
      simp only [Bool.or_eq_true, decide_eq_true_eq]
      tauto
    rw [if_pos this]

/-- the front end, past the selection rules on `m` -/
theorem wigner3j_eq (j1 j2 j3 m1 m2 m3 : Int) (hs : m1 + m2 + m3 = 0)
    (h1 : (m1.natAbs : Int) ≤ j1) (h2 : (m2.natAbs : Int) ≤ j2) (h3 : (m3.natAbs : Int) ≤ j3) :
    wigner3j (α := α) j1 j2 j3 m1 m2 m3 =
      let p := perm j1 j2 j3 m1 m2 m3
      if p.a1 > p.a2 + p.a3 then some zero else
      let size := (p.a2 + p.a3 + 1).toNat
      let r := calculate (α := α) size (Array.replicate (4*size) zero) p.a2 p.a3 p.b2 p.b3
      if r.raised then none else some (geti r.f p.a1) := by
  have hm : (decide ((m1.natAbs : Int) > j1) || decide ((m2.natAbs : Int) > j2)
        || decide ((m3.natAbs : Int) > j3)) = false := by
    simp only [Bool.or_eq_false_iff, decide_eq_false_iff_not]
    omega
  unfold wigner3j perm
  simp only [hs, ne_eq, not_true_eq_false, ↓reduceIte, hm, Bool.false_eq_true]
  split
  · rfl
  · split <;> rfl


theorem perm_sum (j1 j2 j3 m1 m2 m3 : Int) :
    (perm j1 j2 j3 m1 m2 m3).a1 + (perm j1 j2 j3 m1 m2 m3).a2 + (perm j1 j2 j3 m1 m2 m3).a3
      = j1 + j2 + j3 := by
  rcases perm_cyclic j1 j2 j3 m1 m2 m3 with h | h | h <;> rw [h] <;> simp only <;> omega

/-- triangle rule: the largest `j` exceeds the sum of the other two -/
theorem wigner3j_triangle_max (j1 j2 j3 m1 m2 m3 : Int)
    (h : 2 * max (max j1 j2) j3 > j1 + j2 + j3) :
    wigner3j (α := α) j1 j2 j3 m1 m2 m3 = some zero := by
  by_cases hs : m1 + m2 + m3 = 0
  · by_cases hr : (m1.natAbs : Int) > j1 ∨ (m2.natAbs : Int) > j2 ∨ (m3.natAbs : Int) > j3
    · exact wigner3j_m_range j1 j2 j3 m1 m2 m3 hr
    · rw [wigner3j_eq j1 j2 j3 m1 m2 m3 hs (by omega) (by omega) (by omega)]
      have e1 := perm_a1 j1 j2 j3 m1 m2 m3
      have e2 := perm_sum j1 j2 j3 m1 m2 m3
      simp only
      rw [if_pos (by omega)]
  · exact wigner3j_m_sum j1 j2 j3 m1 m2 m3 hs

/-- triangle rule, symmetric form -/
theorem wigner3j_triangle (j1 j2 j3 m1 m2 m3 : Int)
    (h : j1 > j2 + j3 ∨ j2 > j3 + j1 ∨ j3 > j1 + j2) :
    wigner3j (α := α) j1 j2 j3 m1 m2 m3 = some zero := by
  by_cases hr : (m1.natAbs : Int) > j1 ∨ (m2.natAbs : Int) > j2 ∨ (m3.natAbs : Int) > j3
  · exact wigner3j_m_range j1 j2 j3 m1 m2 m3 hr
  · exact wigner3j_triangle_max j1 j2 j3 m1 m2 m3 (by omega)

/-- when the selection rules pass, the value is entry `a1` of a fresh calculator of exactly the
    needed capacity run on the permuted arguments -/
theorem wigner3j_perm (j1 j2 j3 m1 m2 m3 : Int) (hs : m1 + m2 + m3 = 0)
    (h1 : (m1.natAbs : Int) ≤ j1) (h2 : (m2.natAbs : Int) ≤ j2) (h3 : (m3.natAbs : Int) ≤ j3)
    (ht : 2 * max (max j1 j2) j3 ≤ j1 + j2 + j3) :
    wigner3j (α := α) j1 j2 j3 m1 m2 m3 =
      let p := perm j1 j2 j3 m1 m2 m3
      let size := (p.a2 + p.a3 + 1).toNat
      let r := calculate (α := α) size (Array.replicate (4*size) zero) p.a2 p.a3 p.b2 p.b3
      if r.raised then none else some (geti r.f p.a1) := by
  rw [wigner3j_eq j1 j2 j3 m1 m2 m3 hs h1 h2 h3]
  have e1 := perm_a1 j1 j2 j3 m1 m2 m3
  have e2 := perm_sum j1 j2 j3 m1 m2 m3
  simp only
  rw [if_neg (by omega)]

/-- the call made by the front end is inside the calculator's domain: `|b2| ≤ a2`, `|b3| ≤ a3`,
    `b1 + b2 + b3 = 0` and `max |a2-a3| |b2+b3| ≤ a1 ≤ a2 + a3 < size` -/
theorem perm_call_in_domain (j1 j2 j3 m1 m2 m3 : Int) (hs : m1 + m2 + m3 = 0)
    (h1 : (m1.natAbs : Int) ≤ j1) (h2 : (m2.natAbs : Int) ≤ j2) (h3 : (m3.natAbs : Int) ≤ j3)
    (ht : 2 * max (max j1 j2) j3 ≤ j1 + j2 + j3) :
    let p := perm j1 j2 j3 m1 m2 m3
    ((p.b2.natAbs : Int) ≤ p.a2 ∧ (p.b3.natAbs : Int) ≤ p.a3 ∧ p.b1 + p.b2 + p.b3 = 0) ∧
    max ((p.a2 - p.a3).natAbs : Int) ((p.b2 + p.b3).natAbs : Int) ≤ p.a1 ∧ p.a1 ≤ p.a2 + p.a3 ∧
    p.a1.toNat < (p.a2 + p.a3 + 1).toNat := by
  have e1 := perm_a1 j1 j2 j3 m1 m2 m3
  rcases perm_cyclic j1 j2 j3 m1 m2 m3 with h | h | h <;> rw [h] at e1 ⊢ <;> simp only at e1 ⊢ <;>
    omega

theorem clebschGordan_def (j1 m1 j2 m2 j3 m3 : Int) :
    clebschGordan (α := α) j1 m1 j2 m2 j3 m3 =
      (wigner3j (α := α) j1 j2 j3 m1 m2 (-m3)).map
        (fun w => ((ofInt (parity (j1 - j2 + m3)) : α) *. sqrt (ofInt (2*j3+1))) *. w) := by
  unfold clebschGordan
  cases wigner3j (α := α) j1 j2 j3 m1 m2 (-m3) <;> rfl

theorem parity_eq (k : Int) : parity k = (-1) ^ k.natAbs := by
  have key : ∀ n : Nat, ((-1 : Int)) ^ n = if n % 2 = 0 then 1 else -1 := by
    intro n
    induction n with
    | zero => simp
    | succ n ih =>
      rw [pow_succ, ih]
      split <;> split <;> omega
  rw [key]; unfold parity
  split <;> split <;> omega

end model

end Lemmas.W3j
