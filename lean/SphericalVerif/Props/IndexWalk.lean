import SphericalVerif.Model.Flat
import SphericalVerif.Model.Assemble
import SphericalVerif.Lemmas.IndexWalk
import SphericalVerif.Props.C11
/-! IndexWalk — the flat index walking of `_evaluate_Horner` / `_rotate_Horner` visits exactly the cells the
    coordinate models read.

    The numba kernels never call `WignerHindex` inside their Horner loops; they compute three start indices
    with `_WignerHindex` and then step `i_Hn`, `i_Hp` through the flat `Hwedge` array (`-= 1` while
    `m ≥ |s|`, then jumps by `ell - m + 1` / `ell - m` for `0 < m < |s|`, in two textual copies selected by the
    sign of the spin).  `Model.Flat` transcribes that index arithmetic; `Model.evalEll` /
    `Model.rotateHornerEntry` read cells by coordinates (`Model.Hat`).  The theorems below identify the two for
    every `ell`, every spin (any number of iterations of the jump loop) and every `mp_max ≥ |s|`, relative to the
    *generated* `Gen.WignerHindex` / `Gen.u_WignerHindex`.  Helper lemmas live in `Lemmas/IndexWalk`. -/
namespace IndexWalk
open Gen Spec Model.Flat

/-! ### `_evaluate_Horner`: spin `s`, calculator `mp_max = P`, loop variable `m` -/

/-- `Hwedge[i_Hn]` is `H(ell, -m, -s)`. -/
theorem evalH_walk_neg (ell s P m : Int) (hsP : (s.natAbs : Int) ≤ P) (hsl : (s.natAbs : Int) ≤ ell)
    (hm1 : 1 ≤ m) (hm2 : m ≤ ell) :
    iHn_eval ell s P m = WignerHindex ell (-m) (-s) (some P) := by
  unfold iHn_eval st_eval i0_eval
  rw [Lemmas.walk_hindex ell s (-s) (s.natAbs : Int) P m rfl rfl hsP hsl hm1 hm2]

/-- `Hwedge[i_Hp]` is `H(ell, m, -s)`. -/
theorem evalH_walk_pos (ell s P m : Int) (hsP : (s.natAbs : Int) ≤ P) (hsl : (s.natAbs : Int) ≤ ell)
    (hm1 : 1 ≤ m) (hm2 : m ≤ ell) :
    iHp_eval ell s P m = WignerHindex ell m (-s) (some P) := by
  unfold iHp_eval st_eval i0_eval
  rw [Lemmas.walk_hindex ell s (-s) (s.natAbs : Int) P m rfl rfl hsP hsl hm1 hm2]

/-- `Hwedge[i_H]` is `H(ell, 0, -s)` (also for `ell = 0`). -/
theorem evalH_walk_zero (ell s P : Int) (hP : 0 ≤ P) (hsl : (s.natAbs : Int) ≤ ell) :
    iH0_eval ell s P = WignerHindex ell 0 (-s) (some P) := by
  unfold iH0_eval
  have e : (s.natAbs : Int) = ((-s).natAbs : Int) := by omega
  rw [e]
  exact Lemmas.zero_hindex ell (-s) P hP (by omega) (by omega)

/-! ### `_rotate_Horner`: output order `m`, calculator `mp_max = P`, loop variable `n`.
    `Wigner.rotate` uses a full calculator (`P ≥ ell`), for which `|m| ≤ P` holds for every `m` of the loop
    `for m in range(-ell, ell+1)`; the statements only need `|m| ≤ P`. -/

/-- `Hwedge[i_Hn]` is `H(ell, -n, m)`. -/
theorem rotH_walk_neg (ell m P n : Int) (hmP : (m.natAbs : Int) ≤ P) (hml : (m.natAbs : Int) ≤ ell)
    (hn1 : 1 ≤ n) (hn2 : n ≤ ell) :
    iHn_rot ell m P n = WignerHindex ell (-n) m (some P) := by
  unfold iHn_rot st_rot i0_rot
  rw [Lemmas.walk_hindex ell (-m) m (m.natAbs : Int) P n (by omega) (by omega) hmP hml hn1 hn2]

/-- `Hwedge[i_Hp]` is `H(ell, n, m)`. -/
theorem rotH_walk_pos (ell m P n : Int) (hmP : (m.natAbs : Int) ≤ P) (hml : (m.natAbs : Int) ≤ ell)
    (hn1 : 1 ≤ n) (hn2 : n ≤ ell) :
    iHp_rot ell m P n = WignerHindex ell n m (some P) := by
  unfold iHp_rot st_rot i0_rot
  rw [Lemmas.walk_hindex ell (-m) m (m.natAbs : Int) P n (by omega) (by omega) hmP hml hn1 hn2]

/-- `Hwedge[i_H]` is `H(ell, 0, m)` (also for `ell = 0`). -/
theorem rotH_walk_zero (ell m P : Int) (hP : 0 ≤ P) (hml : (m.natAbs : Int) ≤ ell) :
    iH0_rot ell m P = WignerHindex ell 0 m (some P) := by
  unfold iH0_rot
  exact Lemmas.zero_hindex ell m P hP (by omega) hml

/-- With a full calculator (`ell ≤ P`) the hypotheses hold for the whole loop `m ∈ [-ell, ell]`. -/
theorem rotH_walk_full (ell m P n : Int) (hlP : ell ≤ P) (hml : (m.natAbs : Int) ≤ ell)
    (hn1 : 1 ≤ n) (hn2 : n ≤ ell) :
    iHn_rot ell m P n = WignerHindex ell (-n) m (some P) ∧ iHp_rot ell m P n = WignerHindex ell n m (some P)
      ∧ iH0_rot ell m P = WignerHindex ell 0 m (some P) :=
  ⟨rotH_walk_neg ell m P n (by omega) hml hn1 hn2, rotH_walk_pos ell m P n (by omega) hml hn1 hn2,
   rotH_walk_zero ell m P (by omega) hml⟩

/-! ### the cells: in range, and exactly the wedge coordinate `Model.Hat` reads -/

/-- what `Model.Hat` reads: the cell named by the wedge representative's coordinates -/
theorem hat_reads {α μ : Type} [Scalar α] [Mem μ α] (st : μ) (ell : Nat) (a b : Int) :
    Model.Hat (α := α) st ell a b = rd st (.hw ell (wedgeRep a b).1 (wedgeRep a b).2.toNat) := rfl

/-- A flat index equal to `WignerHindex ell a b (some P)` with `|a|, |b| ≤ ell`, one of them within `P`, lies in
    `[0, WignerHsize P L)` and is the position of `(ell, wedgeRep a b)` in the documented wedge ordering. -/
theorem cell_of_hindex (P L ell a b idx : Int) (hidx : idx = WignerHindex ell a b (some P))
    (hP : 0 ≤ P) (hl : 0 < ell) (hL : ell ≤ L)
    (ha : (a.natAbs : Int) ≤ ell) (hb : (b.natAbs : Int) ≤ ell)
    (hab : (a.natAbs : Int) ≤ P ∨ (b.natAbs : Int) ≤ P) :
    0 ≤ idx ∧ idx < WignerHsize P L ∧
      (hRange P L)[idx.toNat]? = some (ell, (wedgeRep a b).1, (wedgeRep a b).2) := by
  subst hidx
  have h := Lemmas.wedgeRep_fst_le a b
  exact C11.hindex_fold_get P L ell a b hP hl hL (by omega) (by omega) (by omega) (by omega) (by omega)

theorem evalH_walk_neg_cell (P L ell s m : Int) (hsP : (s.natAbs : Int) ≤ P) (hsl : (s.natAbs : Int) ≤ ell)
    (hm1 : 1 ≤ m) (hm2 : m ≤ ell) (hL : ell ≤ L) :
    0 ≤ iHn_eval ell s P m ∧ iHn_eval ell s P m < WignerHsize P L ∧
      (hRange P L)[(iHn_eval ell s P m).toNat]?
        = some (ell, (wedgeRep (-m) (-s)).1, (wedgeRep (-m) (-s)).2) :=
  cell_of_hindex P L ell (-m) (-s) _ (evalH_walk_neg ell s P m hsP hsl hm1 hm2)
    (by omega) (by omega) hL (by omega) (by omega) (Or.inr (by omega))

theorem evalH_walk_pos_cell (P L ell s m : Int) (hsP : (s.natAbs : Int) ≤ P) (hsl : (s.natAbs : Int) ≤ ell)
    (hm1 : 1 ≤ m) (hm2 : m ≤ ell) (hL : ell ≤ L) :
    0 ≤ iHp_eval ell s P m ∧ iHp_eval ell s P m < WignerHsize P L ∧
      (hRange P L)[(iHp_eval ell s P m).toNat]?
        = some (ell, (wedgeRep m (-s)).1, (wedgeRep m (-s)).2) :=
  cell_of_hindex P L ell m (-s) _ (evalH_walk_pos ell s P m hsP hsl hm1 hm2)
    (by omega) (by omega) hL (by omega) (by omega) (Or.inr (by omega))

/-- (`ell > 0`; for `ell = 0` the index is 0 = the only cell `(0,0,0)`, see `evalH_walk_zero`.) -/
theorem evalH_walk_zero_cell (P L ell s : Int) (hP : 0 ≤ P) (hsl : (s.natAbs : Int) ≤ ell)
    (hl : 0 < ell) (hL : ell ≤ L) :
    0 ≤ iH0_eval ell s P ∧ iH0_eval ell s P < WignerHsize P L ∧
      (hRange P L)[(iH0_eval ell s P).toNat]?
        = some (ell, (wedgeRep 0 (-s)).1, (wedgeRep 0 (-s)).2) :=
  cell_of_hindex P L ell 0 (-s) _ (evalH_walk_zero ell s P hP hsl)
    hP hl hL (by omega) (by omega) (Or.inl (by omega))

theorem rotH_walk_neg_cell (P L ell m n : Int) (hmP : (m.natAbs : Int) ≤ P) (hml : (m.natAbs : Int) ≤ ell)
    (hn1 : 1 ≤ n) (hn2 : n ≤ ell) (hL : ell ≤ L) :
    0 ≤ iHn_rot ell m P n ∧ iHn_rot ell m P n < WignerHsize P L ∧
      (hRange P L)[(iHn_rot ell m P n).toNat]?
        = some (ell, (wedgeRep (-n) m).1, (wedgeRep (-n) m).2) :=
  cell_of_hindex P L ell (-n) m _ (rotH_walk_neg ell m P n hmP hml hn1 hn2)
    (by omega) (by omega) hL (by omega) (by omega) (Or.inr (by omega))

theorem rotH_walk_pos_cell (P L ell m n : Int) (hmP : (m.natAbs : Int) ≤ P) (hml : (m.natAbs : Int) ≤ ell)
    (hn1 : 1 ≤ n) (hn2 : n ≤ ell) (hL : ell ≤ L) :
    0 ≤ iHp_rot ell m P n ∧ iHp_rot ell m P n < WignerHsize P L ∧
      (hRange P L)[(iHp_rot ell m P n).toNat]?
        = some (ell, (wedgeRep n m).1, (wedgeRep n m).2) :=
  cell_of_hindex P L ell n m _ (rotH_walk_pos ell m P n hmP hml hn1 hn2)
    (by omega) (by omega) hL (by omega) (by omega) (Or.inr (by omega))

theorem rotH_walk_zero_cell (P L ell m : Int) (hP : 0 ≤ P) (hml : (m.natAbs : Int) ≤ ell)
    (hl : 0 < ell) (hL : ell ≤ L) :
    0 ≤ iH0_rot ell m P ∧ iH0_rot ell m P < WignerHsize P L ∧
      (hRange P L)[(iH0_rot ell m P).toNat]?
        = some (ell, (wedgeRep 0 m).1, (wedgeRep 0 m).2) :=
  cell_of_hindex P L ell 0 m _ (rotH_walk_zero ell m P hP hml)
    hP hl hL (by omega) (by omega) (Or.inl (by omega))

/-! ### the hypotheses are satisfiable away from the easy cases: `ell = 7`, `|s| = 4` (three iterations of the
    jump loop, both textual copies), truncated calculator `P = 5 < ell`, `m = 2` reached after two jumps;
    and both sides compute the same number there. -/

example : ((4 : Int).natAbs : Int) ≤ 5 ∧ ((4 : Int).natAbs : Int) ≤ 7 ∧ (1 : Int) ≤ 2 ∧ (2 : Int) ≤ 7 := by decide
example : (((-4) : Int).natAbs : Int) ≤ 5 ∧ (((-4) : Int).natAbs : Int) ≤ 7 ∧ (1 : Int) ≤ 2 ∧ (2 : Int) ≤ 7 := by decide

-- evalH_walk_neg, s = 4 (copy `else`) and s = -4 (copy `if -spin_weight_m >= 0`)
example : iHn_eval 7 4 5 2 = 180 ∧ WignerHindex 7 (-2) (-4) (some 5) = 180 := by decide
example : iHn_eval 7 (-4) 5 2 = 152 ∧ WignerHindex 7 (-2) 4 (some 5) = 152 := by decide
-- evalH_walk_pos
example : iHp_eval 7 4 5 2 = 152 ∧ WignerHindex 7 2 (-4) (some 5) = 152 := by decide
example : iHp_eval 7 (-4) 5 2 = 180 ∧ WignerHindex 7 2 4 (some 5) = 180 := by decide
-- evalH_walk_zero
example : (0 : Int) ≤ 5 ∧ ((4 : Int).natAbs : Int) ≤ 7 := by decide
example : iH0_eval 7 4 5 = WignerHindex 7 0 (-4) (some 5) ∧ iH0_eval 7 4 5 = 167 := by decide
-- rotH_walk_neg / pos / zero at (ell, m, P, n) = (7, 4, 7, 2) and (7, -4, 7, 2): full calculator
example : ((4 : Int).natAbs : Int) ≤ 7 ∧ ((4 : Int).natAbs : Int) ≤ 7 ∧ (1 : Int) ≤ 2 ∧ (2 : Int) ≤ 7 ∧ (7 : Int) ≤ 7 := by decide
example : iHn_rot 7 4 7 2 = WignerHindex 7 (-2) 4 (some 7) ∧ iHn_rot 7 4 7 2 = 157 := by decide
example : iHp_rot 7 4 7 2 = WignerHindex 7 2 4 (some 7) ∧ iHp_rot 7 4 7 2 = 185 := by decide
example : iHn_rot 7 (-4) 7 2 = WignerHindex 7 (-2) (-4) (some 7) ∧ iHn_rot 7 (-4) 7 2 = 185 := by decide
example : iHp_rot 7 (-4) 7 2 = WignerHindex 7 2 (-4) (some 7) ∧ iHp_rot 7 (-4) 7 2 = 157 := by decide
example : iH0_rot 7 (-4) 7 = WignerHindex 7 0 (-4) (some 7) ∧ iH0_rot 7 (-4) 7 = 172 := by decide
-- the cell statements at the same point: the index denotes the wedge coordinate of the representative
example : (hRange 5 7)[(iHn_eval 7 4 5 2).toNat]? = some (7, 2, 4) ∧ wedgeRep (-2) (-4) = (2, 4) := by decide
example : (hRange 5 7)[(iHp_eval 7 4 5 2).toNat]? = some (7, -2, 4) ∧ wedgeRep 2 (-4) = (-2, 4) := by decide

end IndexWalk
