import SphericalVerif.Model.Modes
/-! Line-protocol operations for the Modes glue model (`modes <tokens…>` lines of the driver).

    Descriptors:  shape  = `-` (scalar / no leading axes) or `3x2x…`
                  trunc  = `n` | `sum` | `max` | `min` | `c<k>`
                  Modes  = `M:<s>:<ell_max>:<lead>:<trunc>:<n>`
                  array  = `A:<shape>:<z|nz>`           (operands)   `A:<shape>:<c|r>` (constructor input)
    Ops:  ctor P=<a,b,…|-> S=<int|n> EMIN=<int|n> EMAX=<int|n> T=<trunc> IN=<Modes|array>
          stored <s> <ell_min> <ell_max>           index <Modes> <ell> <m>        trunc <Modes> <L>
          view <Modes>                             uf <name> <a;b;…> <out|n> <kw 0|1>
          op <bin|inp> <add|sub|mul|div> <a> <b>   un <pos|neg|abs> <a>
          meth <add|subtract|multiply|divide> <Modes> <other> [trunc]
          meth <conjugate|conjugate_inplace|real|imag|norm> <Modes>
          conjrow <method|inplace|ufunc> <s> <L>   terms|termlist <L1> <L2> <Lfg> copy <route|view|trunc> <nested 0|1> <s> <L>
          addrow <add|sub> <L1> <L2> <n|o|a|b> <s>    mulout <L1> <L2> <L> <o|a|b>
    `none` = unknown op. -/
namespace ModesOps
open Model.Modes

def parseShape (s : String) : Option (List Nat) :=
  if s == "-" then some [] else (s.splitOn "x").mapM (·.toNat?)

def showShape (l : List Nat) : String :=
  if l.isEmpty then "-" else String.intercalate "x" (l.map toString)

def parseOptInt (s : String) : Option (Option Int) :=
  if s == "n" then some none else s.toInt?.map some

def parseTrunc (s : String) : Option (Option Trunc) :=
  match s with
  | "n" => some none
  | "sum" => some (some .sum)
  | "max" => some (some .max)
  | "min" => some (some .min)
  | _ => if s.startsWith "c" then (s.drop 1).toString.toInt?.map (fun k => some (.const k)) else none

def showTrunc : Option Trunc → String
  | none => "n"
  | some .sum => "sum"
  | some .max => "max"
  | some .min => "min"
  | some (.const k) => "c" ++ toString k

def parseModes (s : String) : Option Obj :=
  match s.splitOn ":" with
  | ["M", sp, L, lead, t, n] => do
    let sp ← sp.toInt?
    let L ← L.toInt?
    let lead ← parseShape lead
    let t ← parseTrunc t
    let n ← n.toNat?
    pure ⟨⟨sp, L, t⟩, lead, n⟩
  | _ => none

def parseOperand (s : String) : Option Operand :=
  match s.splitOn ":" with
  | ["A", sh, z] => do
    let sh ← parseShape sh
    pure (.arr sh (z == "nz"))
  | _ => (parseModes s).map .modes

def parseInArr (s : String) : Option InArr :=
  match s.splitOn ":" with
  | ["A", sh, d] => do
    let sh ← parseShape sh
    pure ⟨none, sh, d == "r"⟩
  | _ => (parseModes s).map fun o => ⟨some o.md, o.shape, false⟩

def showMeta (m : Meta) : String := s!"{m.spin},{m.ellMax},{showTrunc m.trunc}"

def showObj (o : Obj) : String :=
  s!"modes s={o.md.spin} L={o.md.ellMax} lead={showShape o.lead} n={o.n} t={showTrunc o.md.trunc}"

def showErr : Err → String
  | .valueError => "valueerror"
  | .notImplemented => "notimpl"
  | .notImplementedError => "notimplerror"
  | .indexError => "indexerror"
  | .attributeError => "attrerror"

def showOutcome : Outcome → String
  | .modes o none => showObj o
  | .modes o (some m) => showObj o ++ " om=" ++ showMeta m
  | .plain dt sh =>
    let d := match dt with
      | .bool => "b"
      | .float => "f"
      | .complex => "c"
    s!"ndarray:{d}:{showShape sh}"
  | .err e => showErr e
  | .notDispatched => "notdispatched"

def kv (key tok : String) : Option String :=
  if tok.startsWith (key ++ "=") then some (tok.drop (key.length + 1)).toString else none

def parseUFunc (s : String) : UFunc :=
  match s with
  | "not_equal" => .notEqual
  | "equal" => .equal
  | "logical_and" => .logicalAnd
  | "logical_or" => .logicalOr
  | "isfinite" => .isfinite
  | "isinf" => .isinf
  | "isnan" => .isnan
  | "positive" => .positive
  | "negative" => .negative
  | "add" => .add
  | "subtract" => .subtract
  | "multiply" => .multiply
  | "divide" => .divide
  | "true_divide" => .trueDivide
  | "conj" => .conj
  | "conjugate" => .conjugate
  | "absolute" => .absolute
  | n => .other n

def parseBinOp (s : String) : Option BinOp :=
  match s with
  | "add" => some .add
  | "sub" => some .sub
  | "mul" => some .mul
  | "div" => some .div
  | _ => none

/-- tagged entries for the layout / conjugation correspondences -/
inductive Tag where
  | zero
  | at (p : Nat) (neg conj : Bool)
  deriving DecidableEq

def Tag.neg : Tag → Tag
  | .zero => .zero
  | .at p n c => .at p (!n) c

def Tag.conj : Tag → Tag
  | .zero => .zero
  | .at p n c => .at p n (!c)

def Tag.show : Tag → String
  | .zero => "z"
  | .at p n c => (if n then "-" else "+") ++ toString p ++ (if c then "*" else "")

def heap0 (nested : Bool) (s L : Int) : Heap × PyObj :=
  ({ dicts := fun i => if i = 0 then
        [("spin_weight", .int s), ("ell_max", .int L), ("multiplication_truncator", .fn "max")]
          ++ (if nested then [("note", .ref 0)] else [])
      else [],
     vals := fun i => if i = 0 then [7, 8] else [],
     bufs := fun i => if i = 0 then fun p => p else fun _ => 0,
     nextDict := 1, nextVal := 1, nextBuf := 1 }, ⟨.modes, 0, 0⟩)

def parseRoute (s : String) : Option Route :=
  match s with
  | "copy_method" => some .copyMethod
  | "copy_copy" => some .copyCopy
  | "deepcopy" => some .deepCopy
  | "np_array" => some .npArray
  | _ => if s.startsWith "pickle" then (s.drop 6).toString.toNat?.map .pickle else none

def showVal (h : Heap) : Val → String
  | .int i => toString i
  | .fn n => n
  | .none => "None"
  | .ref id => "[" ++ String.intercalate "," ((h.vals id).map toString) ++ "]"

def step (toks : List String) : Option String :=
  match toks with
  | ["ctor", p, s, emin, emax, t, inp] => do
    let p ← kv "P" p
    let pos ← if p == "-" then some [] else (p.splitOn ",").mapM (·.toInt?)
    let s ← (kv "S" s).bind parseOptInt
    let emin ← (kv "EMIN" emin).bind parseOptInt
    let emax ← (kv "EMAX" emax).bind parseOptInt
    let t ← (kv "T" t).bind parseTrunc
    let inp ← (kv "IN" inp).bind parseInArr
    pure (showOutcome (ctor { pos := pos, kwSpin := s, kwEllMin := emin, kwEllMax := emax, kwTrunc := t, input := inp }))
  | ["stored", s, emin, emax] => do
    let s ← s.toInt?
    let emin ← emin.toInt?
    let emax ← emax.toInt?
    let row := stored (α := Option Nat) s emin emax (fun p => some p) none
    pure (String.intercalate " " ((List.range (storedLen emin emax).toNat).map fun p =>
      match row p with
      | none => "z"
      | some q => toString q))
  | ["index", m, ell, mm] => do
    let o ← parseModes m
    let ell ← ell.toInt?
    let mm ← mm.toInt?
    pure (match index o ell mm with
      | .ok i => s!"ok {i}"
      | .error e => showErr e)
  | ["trunc", m, L] => do
    let o ← parseModes m
    let L ← L.toInt?
    let r := truncateEll o L
    pure s!"{showObj r.result} same={if r.same then 1 else 0} orig={showMeta r.original.md},{r.original.n}"
  | ["view", m] => do
    let o ← parseModes m
    pure (match viewLead o with
      | some v => showObj v
      | none => "scalar")
  | ["uf", name, args, out, kw] => do
    let args ← (args.splitOn ";").mapM parseOperand
    let out ← if out == "n" then some none else (parseOperand out).map some
    pure (showOutcome (arrayUfunc { uf := parseUFunc name, args := args, out := out, kwargs := kw == "1" }))
  | ["op", form, name, a, b] => do
    let op ← parseBinOp name
    let a ← parseOperand a
    let b ← parseOperand b
    match form with
    | "bin" => pure (showOutcome (binop op a b))
    | "inp" => pure (showOutcome (inplaceOp op a b))
    | _ => none
  | ["un", name, a] => do
    let a ← parseOperand a
    let uf ← match name with
      | "pos" => some UFunc.positive
      | "neg" => some UFunc.negative
      | "abs" => some UFunc.absolute
      | _ => none
    pure (showOutcome (unop uf a))
  | ["meth", name, m] => do
    let o ← parseModes m
    match name with
    | "conjugate" => pure (showOutcome (methodConjugate o false).1 ++ " same=0")
    | "conjugate_inplace" =>
      let r := methodConjugate o true
      pure (showOutcome r.1 ++ (if r.2 then " same=1" else " same=0"))
    | "real" | "imag" => pure (showOutcome (methodRealImag o))
    | "norm" => pure (showOutcome (methodNorm o))
    | _ => none
  | "meth" :: name :: m :: other :: rest => do
    let o ← parseModes m
    let other ← parseOperand other
    let t ← match rest with
      | [] => some none
      | [t] => parseTrunc t
      | _ => none
    match name with
    | "add" => pure (showOutcome (methodAdd o other false))
    | "subtract" => pure (showOutcome (methodAdd o other true))
    | "multiply" => pure (showOutcome (methodMultiply o other t))
    | "divide" => pure (showOutcome (methodDivide o other))
    | _ => none
  | ["conjrow", form, s, L] => do
    let s ← s.toInt?
    let L ← L.toInt?
    let src : Nat → Tag := fun p => .at p false false
    let n := (Gen.Ysize 0 L).toNat
    let row ← match form with
      | "method" => some (stored (-s) 0 L (conjLoopMethod Tag.neg Tag.conj s L false src ⟨fun _ => .zero⟩).get Tag.zero)
      | "inplace" => some (conjLoopMethod Tag.neg Tag.conj s L true src ⟨src⟩).get
      | "ufunc" => some (conjRow Tag.neg Tag.conj s L src ⟨fun _ => .zero⟩ Tag.zero)
      | _ => none
    pure (String.intercalate " " ((List.range n).map fun p => (row p).show))
  | ["terms", L1, L2, Lfg] => do
    let L1 ← L1.toInt?
    let L2 ← L2.toInt?
    let Lfg ← Lfg.toInt?
    let ts := terms L1 L2 Lfg
    -- number of terms, then per output index the number of contributions
    let n := (Gen.Ysize 0 Lfg).toNat
    let counts := accumulate (· + ·) (fun _ => 1) ts ⟨fun _ => (0 : Nat)⟩
    pure (toString ts.length ++ " | " ++ String.intercalate " " ((List.range n).map fun p => toString (counts.get p)))
  | ["termlist", L1, L2, Lfg] => do
    let L1 ← L1.toInt?
    let L2 ← L2.toInt?
    let Lfg ← Lfg.toInt?
    pure (String.intercalate " " ((terms L1 L2 Lfg).map fun t =>
      s!"{t.1},{t.2.1},{t.2.2.1},{t.2.2.2.1},{t.2.2.2.2}"))
  | ["addrow", name, L1, L2, alias, sp] => do
    let sp ← sp.toInt?
    -- entries of np.add / np.subtract(f, g, out=…): f[p] = (p+1, 0), g[p] = (0, p+1), a separate `out` holds (10^6, 10^6)
    let L1 ← L1.toInt?
    let L2 ← L2.toInt?
    let k1 := (Gen.Ysize 0 L1).toNat
    let k2 := (Gen.Ysize 0 L2).toNat
    let n := (Gen.Ysize 0 (max L1 L2)).toNat
    let comb : Int × Int → Int × Int → Int × Int :=
      if name == "sub" then fun a b => (a.1 - b.1, a.2 - b.2) else fun a b => (a.1 + b.1, a.2 + b.2)
    let mem : Nat → Row (Int × Int) := fun i =>
      if i = 0 then ⟨fun p => ((p : Int) + 1, 0)⟩ else if i = 1 then ⟨fun p => (0, (p : Int) + 1)⟩
      else ⟨fun _ => (1000000, 1000000)⟩
    let out ← match alias with
      | "n" => some none
      | "o" => some (some 2)
      | "a" => some (some 0)
      | "b" => some (some 1)
      | _ => none
    let (mem', b) := addEntries comb (0, 0) k1 k2 mem 0 1 3 out
    -- the constructor then zeroes the result (in place) below |s|
    let row := stored sp 0 (max L1 L2) (mem' b).get (0, 0)
    pure (String.intercalate " " ((List.range n).map fun p => s!"{(row p).1},{(row p).2}"))
  | ["mulout", L1, L2, L, alias] => do
    -- does np.multiply(f, g, out=…) hold the same entries as np.multiply(f, g)?  (symbolic terms, in order)
    let L1 ← L1.toInt?
    let L2 ← L2.toInt?
    let L ← L.toInt?
    let n := (Gen.Ysize 0 L).toNat
    let mem : Nat → Row (List (Int × Int × Int)) := fun i =>
      if i = 0 then ⟨fun p => [((p : Int) + 1, 0, 0)]⟩ else if i = 1 then ⟨fun p => [(0, (p : Int) + 1, 0)]⟩
      else ⟨fun _ => [(-1, -1, -1)]⟩
    let val := fun (f g : Nat → List (Int × Int × Int)) (t : Term) =>
      [(((f (pos t.1 t.2.1)).map (·.1)).sum, ((g (pos t.2.2.1 t.2.2.2.1)).map (·.2.1)).sum, t.ell3)]
    let out ← match alias with
      | "o" => some (some 2)
      | "a" => some (some 0)
      | "b" => some (some 1)
      | _ => none
    let (m0, b0) := mulEntries (· ++ ·) val [] L1 L2 L mem 0 1 3 none
    let (m1, b1) := mulEntries (· ++ ·) val [] L1 L2 L mem 0 1 3 out
    pure (if (List.range n).all (fun p => (m0 b0).get p == (m1 b1).get p) then "same" else "differs")
  | ["copy", route, nested, s, L] => do
    let s ← s.toInt?
    let L ← L.toInt?
    let (h, o) := heap0 (nested == "1") s L
    let (h', c) ← match route with
      | "view" => some (viewObj h o)
      | "trunc" => some (truncateObj h o (L - 1))
      | _ => (parseRoute route).map fun r => copyRoute r h o
    let cls := match c.cls with
      | .modes => "Modes"
      | .ndarray => "ndarray"
    let keys := (h'.dicts c.dict).map fun e => e.1 ++ "=" ++ showVal h' e.2
    let nestedShared := match h'.lookup c.dict "note", h'.lookup o.dict "note" with
      | some a, some b => if a = b then "shared" else "fresh"
      | _, _ => "none"
    let okeys := (h'.dicts o.dict).map fun e => e.1 ++ "=" ++ showVal h' e.2
    pure s!"cls={cls} sharesdata={if c.buf = o.buf then 1 else 0} samedict={if c.dict = o.dict then 1 else 0} nested={nestedShared} {String.intercalate ";" keys} orig={String.intercalate ";" okeys}"
  | _ => none

end ModesOps
