import SphericalVerif.Model.Basic
import SphericalVerif.Gen.Indexing
/-! Hand-written model of the differential operators of spherical/modes/derivatives.py (methods of `Modes`),
    of the array-level operators of spherical/utilities/operators.py and of the constant/vector conversions of
    spherical/utilities/mode_conversions.py.  Generic over the abstract scalar (`[Scalar α]`): run at `Float`
    by the compiled driver (`Driver/DiffOps.lean`) it is compared BIT FOR BIT with the Python code; at `ℝ` it is
    the subject of the theorems in Props/C12.lean and Props/C19.lean.  Core Lean only.

    Every expression keeps the operation order of the source:
    * `math.sqrt((ell+m)*(ell-m+1))` is an exact Python-int product converted to a double, then `sqrt`;
    * `real * complex_array` in numpy promotes the real to `x + 0j` and multiplies as complex numbers
      (`Cx.rmul`; `complex_array *= real` is `Cx.mulr`) — this matters for signed zeros, infinities and NaN;
    * numba's `complex *= float` / `complex /= float` promote the float in the same way (`Cx.mulr`, `Cx.div`). -/
namespace Model.Ops
open Scalar

section
variable {α : Type} [Scalar α]

/-- `0.0 + 0.0j` -/
def czero : Cx α := ⟨zero, zero⟩
/-- componentwise negation (`np.negative` on a complex array) -/
def cneg (z : Cx α) : Cx α := ⟨neg z.re, neg z.im⟩

/-! ### ladder coefficients of derivatives.py (arguments are the *output* indices, as in the code) -/

/-- `math.sqrt((ell+m)*(ell-m+1))`, multiplies the input entry `(ell, m-1)` in `Lplus` -/
def cLplus (ell m : Int) : α := sqrt (ofInt ((ell + m) * (ell - m + 1)))
/-- `math.sqrt((ell-m)*(ell+m+1))`, multiplies the input entry `(ell, m+1)` in `Lminus` -/
def cLminus (ell m : Int) : α := sqrt (ofInt ((ell - m) * (ell + m + 1)))
/-- the Python int `m` of `Lz` -/
def cLz (m : Int) : α := ofInt m
/-- the Python int `ell * (ell+1)` of `Lsquared` -/
def cL2 (ell : Int) : α := ofInt (ell * (ell + 1))
/-- the Python int `-self.spin_weight` of `Rz` -/
def cRz (s : Int) : α := ofInt (-s)
/-- `math.sqrt((ell-d.spin_weight)*(ell+d.spin_weight+1))` of `Rplus`; `ds = d.spin_weight` is the NEW spin `s-1` -/
def cRplus (ell ds : Int) : α := sqrt (ofInt ((ell - ds) * (ell + ds + 1)))
/-- `math.sqrt((ell+d.spin_weight)*(ell-d.spin_weight+1))` of `Rminus`; `ds = d.spin_weight` is the NEW spin `s+1` -/
def cRminus (ell ds : Int) : α := sqrt (ofInt ((ell + ds) * (ell - ds + 1)))

/-! ### mode families

    A `Modes` object: spin weight, `ell_max`, and the weights as a function of `(ell, m)`.  Only the cells with
    `ell ≤ ellMax`, `|m| ≤ ell` exist in the array; the class property `ell_min` is the constant 0. -/
structure Modes (α : Type) where
  s : Int
  ellMax : Nat
  w : Nat → Int → Cx α

/-- the property `Modes.ell_min` (`return 0`) -/
def Modes.ellMin (_ : Modes α) : Nat := 0

/-- `Lsquared`: `d = self.copy()`, then `*= ell*(ell+1)` on the slice of every `ell ∈ range(|s|, ell_max+1)` -/
def Lsquared (f : Modes α) : Modes α :=
  { f with w := fun ell m =>
      if f.s.natAbs ≤ ell ∧ ell ≤ f.ellMax ∧ m.natAbs ≤ ell then Cx.mulr (f.w ell m) (cL2 ell) else f.w ell m }

/-- `Lz`: copy, then `*= m` on every `(ell, m)`, `ell ∈ range(|s|, ell_max+1)` -/
def Lz (f : Modes α) : Modes α :=
  { f with w := fun ell m =>
      if f.s.natAbs ≤ ell ∧ ell ≤ f.ellMax ∧ m.natAbs ≤ ell then Cx.mulr (f.w ell m) (cLz m) else f.w ell m }

/-- `Lplus`: `zeros_like`, entry `(ell, -ell)` is `0.0`, entry `(ell, m)` is `sqrt(..) * self[ell, m-1]` -/
def Lplus (f : Modes α) : Modes α :=
  { f with w := fun ell m =>
      if f.s.natAbs ≤ ell ∧ ell ≤ f.ellMax ∧ -(ell : Int) < m ∧ m ≤ ell then
        Cx.rmul (cLplus ell m) (f.w ell (m - 1))
      else czero }

/-- `Lminus`: `zeros_like`, entry `(ell, ell)` is `0.0`, entry `(ell, m)` is `sqrt(..) * self[ell, m+1]` -/
def Lminus (f : Modes α) : Modes α :=
  { f with w := fun ell m =>
      if f.s.natAbs ≤ ell ∧ ell ≤ f.ellMax ∧ -(ell : Int) ≤ m ∧ m < ell then
        Cx.rmul (cLminus ell m) (f.w ell (m + 1))
      else czero }

/-- `Rsquared`: `return self.Lsquared()` -/
def Rsquared (f : Modes α) : Modes α := Lsquared f

/-- `Rz`: `type(self)(-self.spin_weight * self.view(np.ndarray), **self._metadata)`; the constructor re-zeroes
    the cells below `|s|` -/
def Rz (f : Modes α) : Modes α :=
  { f with w := fun ell m => if ell < f.s.natAbs then czero else Cx.rmul (cRz f.s) (f.w ell m) }

/-- `Rplus`: spin `s → s-1`; zeros, then for `ell ∈ range(max(|d.s|, |self.s|), ell_max+1)` with
    `ell >= self.ell_min` the whole `ell` slice is `sqrt((ell-d.s)*(ell+d.s+1)) * self[ell, :]` -/
def Rplus (f : Modes α) : Modes α :=
  { s := f.s - 1, ellMax := f.ellMax,
    w := fun ell m =>
      if max (f.s - 1).natAbs f.s.natAbs ≤ ell ∧ ell ≤ f.ellMax ∧ f.ellMin ≤ ell ∧ m.natAbs ≤ ell then
        Cx.rmul (cRplus ell (f.s - 1)) (f.w ell m)
      else czero }

/-- `Rminus`: spin `s → s+1`, coefficient `sqrt((ell+d.s)*(ell-d.s+1))` -/
def Rminus (f : Modes α) : Modes α :=
  { s := f.s + 1, ellMax := f.ellMax,
    w := fun ell m =>
      if max (f.s + 1).natAbs f.s.natAbs ≤ ell ∧ ell ≤ f.ellMax ∧ f.ellMin ≤ ell ∧ m.natAbs ≤ ell then
        Cx.rmul (cRminus ell (f.s + 1)) (f.w ell m)
      else czero }

/-- `eth`: `return self.Rminus()` -/
def eth (f : Modes α) : Modes α := Rminus f

/-- `ethbar`: `return -self.Rplus()`: `np.negative` on every cell, then the `Modes` constructor re-zeroes (with
    `+0.0`) the cells below the new `|s|` -/
def ethbar (f : Modes α) : Modes α :=
  let g := Rplus f
  { g with w := fun ell m => if ell < g.s.natAbs then czero else cneg (g.w ell m) }

/-- the weights of a family in storage order `(ell, m)`, `ell = 0..ell_max`, `m = -ell..ell` -/
def Modes.toArray (f : Modes α) : Array (Cx α) := Id.run do
  let mut out : Array (Cx α) := #[]
  for ell in [0:f.ellMax+1] do
    for k in [0:2*ell+1] do
      out := out.push (f.w ell ((k : Int) - ell))
  return out

/-- a family from its storage array (cells that do not exist read as `0.0`) -/
def Modes.ofArray (s : Int) (ellMax : Nat) (a : Array (Cx α)) : Modes α :=
  { s := s, ellMax := ellMax,
    w := fun ell m => if m.natAbs ≤ ell then a.getD (ell * (ell + 1) + m).toNat czero else czero }

/-! ### array-level operators of utilities/operators.py -/

/-- `ell_max = int(sqrt(len(modes) + LM_total_size(0, ell_min - 1))) - 1`.  `LM_total_size` is the generated
    `Gen.Ysize`; `int(sqrt(float n))` is the integer square root for every `0 ≤ n < 2^52`. -/
def inferEllMax (len ellMin : Int) : Int :=
  (Nat.sqrt (len + Gen.Ysize 0 (ellMin - 1)).toNat : Int) - 1

/-- the float `(ell - spin_weight) * (ell + spin_weight + 1.)` (int converted, times (int converted plus 1.0)) -/
def radEth (s ell : Int) : α := ofInt (ell - s) *. (ofInt (ell + s) +. one)
/-- the float `(ell + spin_weight) * (ell - spin_weight + 1.)` -/
def radEthbar (s ell : Int) : α := ofInt (ell + s) *. (ofInt (ell - s) +. one)

/-- `eth_GHP`: `0.0 if ell < abs(s+1) else sqrt((ell-s)*(ell+s+1.)/2.)` -/
def fEthGHP (s ell : Int) : α :=
  if ell < ((s + 1).natAbs : Int) then zero else sqrt (radEth s ell /. ofInt 2)
/-- `ethbar_GHP`: `0.0 if ell < abs(s-1) else -sqrt((ell+s)*(ell-s+1.)/2.)` -/
def fEthbarGHP (s ell : Int) : α :=
  if ell < ((s - 1).natAbs : Int) then zero else neg (sqrt (radEthbar s ell /. ofInt 2))
/-- `eth_NP`: `0.0 if ell < abs(s+1) else sqrt((ell-s)*(ell+s+1.))` -/
def fEthNP (s ell : Int) : α :=
  if ell < ((s + 1).natAbs : Int) then zero else sqrt (radEth s ell)
/-- `ethbar_NP`: `0.0 if ell < abs(s-1) else -sqrt((ell+s)*(ell-s+1.))` -/
def fEthbarNP (s ell : Int) : α :=
  if ell < ((s - 1).natAbs : Int) then zero else neg (sqrt (radEthbar s ell))
/-- `ethbar_inverse_NP`: `term = (ell + s + 1.) * (ell - s)` -/
def termInv (s ell : Int) : α := (ofInt (ell + s) +. one) *. ofInt (ell - s)
/-- `ethbar_inverse_NP`: `factor = -sqrt(term)` (used only where `term > 0.0`) -/
def fInv (s ell : Int) : α := neg (sqrt (termInv s ell))

/-- what the five functions do to one entry of degree `ell` -/
def actMul (factor : Int → α) (ell : Int) (z : Cx α) : Cx α := Cx.mulr z (factor ell)
/-- `ethbar_inverse_NP` on one entry: `/= factor` where `term > 0.0`, untouched otherwise -/
def actInv (s : Int) (ell : Int) (z : Cx α) : Cx α :=
  if Scalar.lt zero (termInv (α := α) s ell) then Cx.div z (Cx.ofRe (fInv s ell)) else z

/-- the common loop: `i_mode = 0; for ell in range(ell_min, ell_max+1): for m in range(-ell, ell+1): … i_mode += 1`
    on a copy of the input; entries past the inferred `ell_max` keep their value -/
def arrayLoop (act : Int → Cx α → Cx α) (ellMin : Int) (modes : Array (Cx α)) : Array (Cx α) :=
  let ellMax := inferEllMax modes.size ellMin
  let r := loopN (ellMax + 1 - ellMin).toNat (fun k (st : Array (Cx α) × Nat) =>
      let ell : Int := ellMin + k
      loopN (2 * ell + 1).toNat (fun _ (st : Array (Cx α) × Nat) =>
        (st.1.modify st.2 (act ell), st.2 + 1)) st) (modes, 0)
  r.1

def ethGHP (modes : Array (Cx α)) (s ellMin : Int) : Array (Cx α) := arrayLoop (actMul (fEthGHP s)) ellMin modes
def ethbarGHP (modes : Array (Cx α)) (s ellMin : Int) : Array (Cx α) := arrayLoop (actMul (fEthbarGHP s)) ellMin modes
def ethNP (modes : Array (Cx α)) (s ellMin : Int) : Array (Cx α) := arrayLoop (actMul (fEthNP s)) ellMin modes
def ethbarNP (modes : Array (Cx α)) (s ellMin : Int) : Array (Cx α) := arrayLoop (actMul (fEthbarNP s)) ellMin modes
def ethbarInverseNP (modes : Array (Cx α)) (s ellMin : Int) : Array (Cx α) := arrayLoop (actInv s) ellMin modes

/-! ### conversions of utilities/mode_conversions.py

    The doubles `sqrt(4*pi)`, `sqrt(2*pi/3.)`, `sqrt(4*pi/3.)` are parameters (the harness passes the values the
    Python expressions produce; the theorems assume what they are in exact arithmetic). -/
structure ConvConsts (α : Type) where
  sqrt4pi : α
  sqrt2pi3 : α
  sqrt4pi3 : α

structure Vec3 (β : Type) where
  x : β
  y : β
  z : β

/-- `constant * sqrt(4*pi)`, complex constant -/
def constantAsEll0 (K : ConvConsts α) (c : Cx α) : Cx α := Cx.mulr c K.sqrt4pi
/-- `constant * sqrt(4*pi)`, float constant -/
def constantAsEll0R (K : ConvConsts α) (c : α) : α := c *. K.sqrt4pi
/-- `modes / sqrt(4*pi)`, complex weight -/
def constantFromEll0 (K : ConvConsts α) (w : Cx α) : Cx α := Cx.div w (Cx.ofRe K.sqrt4pi)
/-- `modes / sqrt(4*pi)`, float weight -/
def constantFromEll0R (K : ConvConsts α) (w : α) : α := w /. K.sqrt4pi

/-- `vector_as_ell_1_modes` on a complex vector: the `(1,-1)`, `(1,0)`, `(1,1)` weights in that order:
    `(vx + 1j*vy) * sqrt(2π/3)`, `vz * sqrt(4π/3)`, `(-vx + 1j*vy) * sqrt(2π/3)` -/
def vectorAsEll1 (K : ConvConsts α) (v : Vec3 (Cx α)) : Vec3 (Cx α) :=
  { x := Cx.mulr (Cx.add v.x (Cx.mul Cx.I v.y)) K.sqrt2pi3,
    y := Cx.mulr v.z K.sqrt4pi3,
    z := Cx.mulr (Cx.add (cneg v.x) (Cx.mul Cx.I v.y)) K.sqrt2pi3 }

/-- `vector_as_ell_1_modes` on a float vector (numba promotes `1j * float`, `float + complex` and the float
    middle component of the `np.stack`) -/
def vectorAsEll1R (K : ConvConsts α) (v : Vec3 α) : Vec3 (Cx α) :=
  { x := Cx.mulr (Cx.add (Cx.ofRe v.x) (Cx.mul Cx.I (Cx.ofRe v.y))) K.sqrt2pi3,
    y := Cx.ofRe (v.z *. K.sqrt4pi3),
    z := Cx.mulr (Cx.add (Cx.ofRe (neg v.x)) (Cx.mul Cx.I (Cx.ofRe v.y))) K.sqrt2pi3 }

/-- `vector_from_ell_1_modes` on complex weights `(w₋₁, w₀, w₁)`:
    `(w₋₁ - w₁) / (2*sqrt(2π/3))`, `(w₋₁ + w₁) / (2j*sqrt(2π/3))`, `w₀ / sqrt(4π/3)` -/
def vectorFromEll1 (K : ConvConsts α) (w : Vec3 (Cx α)) : Vec3 (Cx α) :=
  { x := Cx.div (Cx.sub w.x w.z) (Cx.ofRe (ofInt 2 *. K.sqrt2pi3)),
    y := Cx.div (Cx.add w.x w.z) (Cx.mul ⟨zero, ofInt 2⟩ (Cx.ofRe K.sqrt2pi3)),
    z := Cx.div w.y (Cx.ofRe K.sqrt4pi3) }

end
end Model.Ops
